(** Proofs about the persistent-client registry model (C04). *)
From Coq Require Import Lia Sorting.Sorted.
From AGH Require Import Base.Run Model.ClientIndex.
Local Open Scope N_scope.

(** * Equality tests *)
Lemma eqb_list_spec {A} (eqb : A -> A -> bool) :
  (forall a b, eqb a b = true <-> a = b) ->
  forall l1 l2, eqb_list eqb l1 l2 = true <-> l1 = l2.
Proof.
  intros H. induction l1 as [|a l1 IH]; destruct l2 as [|b l2]; cbn; try (split; congruence).
  rewrite andb_true_iff, H, IH. split; [intros [-> ->]; reflexivity|intros E; inversion E; auto].
Qed.

Lemma eqb_bytes_spec : forall a b, eqb_bytes a b = true <-> a = b.
Proof. apply eqb_list_spec. apply N.eqb_eq. Qed.

Lemma prefix_eqb_spec : forall a b, prefix_eqb a b = true <-> a = b.
Proof.
  intros [a1 a2] [b1 b2]. unfold prefix_eqb; cbn [fst snd].
  rewrite andb_true_iff, eqb_bytes_spec, N.eqb_eq. split; [intros [-> ->]; reflexivity|intros E; inversion E; auto].
Qed.

Lemma addr_eqb_spec : forall a b, addr_eqb a b = true <-> a = b.
Proof.
  intros [a1 a2] [b1 b2]. unfold addr_eqb; cbn [fst snd].
  rewrite andb_true_iff, !eqb_bytes_spec. split; [intros [-> ->]; reflexivity|intros E; inversion E; auto].
Qed.

(** * Association lists behave like maps *)
Section AL.
  Context {K V : Type} (eqb : K -> K -> bool).
  Hypothesis eqb_spec : forall a b, eqb a b = true <-> a = b.

  Lemma eqb_refl' k : eqb k k = true.
  Proof. apply eqb_spec; reflexivity. Qed.
  Lemma eqb_ne k k' : k <> k' -> eqb k k' = false.
  Proof. intros H. destruct (eqb k k') eqn:E; [apply eqb_spec in E; contradiction|reflexivity]. Qed.

  Lemma al_get_del_eq k (m : list (K * V)) : al_get eqb k (al_del eqb k m) = None.
  Proof.
    unfold al_del. induction m as [|[k' v] m IH]; cbn; [reflexivity|].
    destruct (eqb k k') eqn:E; cbn; [exact IH|]. rewrite E. exact IH.
  Qed.
  Lemma al_get_del_ne k k' (m : list (K * V)) : k <> k' -> al_get eqb k' (al_del eqb k m) = al_get eqb k' m.
  Proof.
    intros Hne. unfold al_del. induction m as [|[k0 v] m IH]; cbn; [reflexivity|].
    destruct (eqb k k0) eqn:E; cbn.
    - apply eqb_spec in E; subst k0. rewrite (eqb_ne k' k) by congruence. exact IH.
    - rewrite IH. reflexivity.
  Qed.
  Lemma al_get_set_eq k v (m : list (K * V)) : al_get eqb k (al_set eqb k v m) = Some v.
  Proof. unfold al_set; cbn. rewrite eqb_refl'. reflexivity. Qed.
  Lemma al_get_set_ne k k' v (m : list (K * V)) : k <> k' -> al_get eqb k' (al_set eqb k v m) = al_get eqb k' m.
  Proof.
    intros Hne. unfold al_set; cbn. rewrite (eqb_ne k' k) by congruence. apply al_get_del_ne; assumption.
  Qed.
  Lemma al_get_in k v (m : list (K * V)) : al_get eqb k m = Some v -> In (k, v) m.
  Proof.
    induction m as [|[k' v'] m IH]; cbn; [discriminate|].
    destruct (eqb k k') eqn:E; [apply eqb_spec in E; intros H; inversion H; subst; auto|auto].
  Qed.
End AL.

(** * The orders *)
Lemma cmp_bytes_refl a : cmp_bytes a a = Eq.
Proof. induction a as [|x a IH]; cbn; [reflexivity|]. rewrite N.compare_refl. exact IH. Qed.

Lemma cmp_bytes_eq a : forall b, cmp_bytes a b = Eq -> a = b.
Proof.
  induction a as [|x a IH]; destruct b as [|y b]; cbn; try congruence.
  destruct (N.compare_spec x y); try discriminate. intros Hc; f_equal; auto.
Qed.

Lemma cmp_bytes_antisym a : forall b, cmp_bytes b a = CompOpp (cmp_bytes a b).
Proof.
  induction a as [|x a IH]; destruct b as [|y b]; cbn; try reflexivity.
  rewrite (N.compare_antisym x y). destruct (x ?= y); cbn; auto.
Qed.

Lemma cmp_bytes_trans a : forall b c, cmp_bytes a b = Lt -> cmp_bytes b c = Lt -> cmp_bytes a c = Lt.
Proof.
  induction a as [|x a IH]; destruct b as [|y b]; destruct c as [|z c]; cbn; try congruence.
  intros H1 H2.
  destruct (N.compare_spec x y) as [E1|L1|G1]; try discriminate;
  destruct (N.compare_spec y z) as [E2|L2|G2]; try discriminate.
  - subst. rewrite N.compare_refl. eauto.
  - subst. rewrite (proj2 (N.compare_lt_iff _ _) L2). reflexivity.
  - subst. rewrite (proj2 (N.compare_lt_iff _ _) L1). reflexivity.
  - rewrite (proj2 (N.compare_lt_iff x z)) by lia. reflexivity.
Qed.

Lemma addr_compare_refl a : addr_compare a a = Eq.
Proof. unfold addr_compare. rewrite Nat.compare_refl. apply cmp_bytes_refl. Qed.
Lemma addr_compare_eq a b : addr_compare a b = Eq -> a = b.
Proof.
  unfold addr_compare. destruct (Nat.compare_spec (length a) (length b)); try discriminate.
  apply cmp_bytes_eq.
Qed.
Lemma addr_compare_antisym a b : addr_compare b a = CompOpp (addr_compare a b).
Proof.
  unfold addr_compare. rewrite (Nat.compare_antisym (length a) (length b)).
  destruct (Nat.compare (length a) (length b)); cbn; auto using cmp_bytes_antisym.
Qed.
Lemma addr_compare_trans a b c : addr_compare a b = Lt -> addr_compare b c = Lt -> addr_compare a c = Lt.
Proof.
  unfold addr_compare.
  destruct (Nat.compare_spec (length a) (length b)) as [E1|L1|G1];
  destruct (Nat.compare_spec (length b) (length c)) as [E2|L2|G2]; try discriminate.
  - replace (Nat.compare (length a) (length c)) with (@Eq); [apply cmp_bytes_trans|].
    symmetry; apply Nat.compare_eq_iff; lia.
  - intros _ _. replace (Nat.compare (length a) (length c)) with Lt; [reflexivity|].
    symmetry; apply Nat.compare_lt_iff; lia.
  - intros _ _. replace (Nat.compare (length a) (length c)) with Lt; [reflexivity|].
    symmetry; apply Nat.compare_lt_iff; lia.
  - intros _ _. replace (Nat.compare (length a) (length c)) with Lt; [reflexivity|].
    symmetry; apply Nat.compare_lt_iff; lia.
Qed.

Lemma subnet_compare_refl x : subnet_compare x x = Eq.
Proof. unfold subnet_compare. rewrite N.compare_refl. apply addr_compare_refl. Qed.
Lemma subnet_compare_eq x y : subnet_compare x y = Eq -> x = y.
Proof.
  destruct x as [xa xb], y as [ya yb]. unfold subnet_compare; cbn [fst snd].
  destruct (N.compare_spec yb xb); try discriminate. intros Hc. apply addr_compare_eq in Hc. congruence.
Qed.
Lemma subnet_compare_antisym x y : subnet_compare y x = CompOpp (subnet_compare x y).
Proof.
  unfold subnet_compare. rewrite (N.compare_antisym (snd y) (snd x)).
  destruct (snd y ?= snd x); cbn; auto using addr_compare_antisym.
Qed.
Lemma subnet_compare_trans x y z :
  subnet_compare x y = Lt -> subnet_compare y z = Lt -> subnet_compare x z = Lt.
Proof.
  unfold subnet_compare.
  destruct (N.compare_spec (snd y) (snd x)) as [E1|L1|G1];
  destruct (N.compare_spec (snd z) (snd y)) as [E2|L2|G2]; try discriminate.
  - replace (snd z ?= snd x) with (@Eq); [apply addr_compare_trans|].
    symmetry; apply N.compare_eq_iff; lia.
  - intros _ _. replace (snd z ?= snd x) with Lt; [reflexivity|]. symmetry; apply N.compare_lt_iff; lia.
  - intros _ _. replace (snd z ?= snd x) with Lt; [reflexivity|]. symmetry; apply N.compare_lt_iff; lia.
  - intros _ _. replace (snd z ?= snd x) with Lt; [reflexivity|]. symmetry; apply N.compare_lt_iff; lia.
Qed.
(** Earlier in the order = at least as long a prefix. *)
Lemma subnet_compare_lt_bits x y : subnet_compare x y = Lt -> snd y <= snd x.
Proof.
  unfold subnet_compare. destruct (N.compare_spec (snd y) (snd x)); try discriminate; lia.
Qed.

(** * The sorted subnet map *)
Definition sm_lt {V} (x y : prefix * V) : Prop := subnet_compare (fst x) (fst y) = Lt.
Definition sm_sorted {V} (m : list (prefix * V)) : Prop := StronglySorted sm_lt m.

Lemma prefix_eqb_refl k : prefix_eqb k k = true.
Proof. apply prefix_eqb_spec; reflexivity. Qed.
Lemma prefix_eqb_ne k k' : k <> k' -> prefix_eqb k k' = false.
Proof. apply eqb_ne, prefix_eqb_spec. Qed.

Lemma sm_get_set_eq {V} k (v : V) m : sm_get k (sm_set k v m) = Some v.
Proof.
  unfold sm_get. induction m as [|[k' v'] m IH]; cbn.
  - rewrite prefix_eqb_refl; reflexivity.
  - destruct (subnet_compare k' k) eqn:E; cbn; try (rewrite prefix_eqb_refl; reflexivity).
    rewrite prefix_eqb_ne; [exact IH|]. intros ->. rewrite subnet_compare_refl in E; discriminate.
Qed.

Lemma sm_get_set_ne {V} k k' (v : V) m : k <> k' -> sm_get k' (sm_set k v m) = sm_get k' m.
Proof.
  intros Hne. unfold sm_get. induction m as [|[k0 v0] m IH]; cbn.
  - rewrite prefix_eqb_ne by congruence; reflexivity.
  - destruct (subnet_compare k0 k) eqn:E; cbn.
    + apply subnet_compare_eq in E; subst k0. rewrite prefix_eqb_ne by congruence; reflexivity.
    + rewrite IH; reflexivity.
    + rewrite (prefix_eqb_ne k' k) by congruence; reflexivity.
Qed.

Lemma sm_set_in {V} k (v : V) m x : In x (sm_set k v m) -> x = (k, v) \/ In x m.
Proof.
  induction m as [|[k' v'] m IH]; cbn; [intuition|].
  destruct (subnet_compare k' k); cbn; intuition.
Qed.

Lemma sm_set_sorted {V} k (v : V) m : sm_sorted m -> sm_sorted (sm_set k v m).
Proof.
  unfold sm_sorted. induction 1 as [|[k' v'] m Hs IH Hall]; cbn.
  - constructor; constructor.
  - destruct (subnet_compare k' k) eqn:E.
    + apply subnet_compare_eq in E; subst k'. constructor; [assumption|].
      eapply Forall_impl; [|exact Hall]. intros a Ha; exact Ha.
    + constructor; [exact IH|]. apply Forall_forall. intros x Hx.
      apply sm_set_in in Hx. destruct Hx as [->|Hx]; [exact E|].
      rewrite Forall_forall in Hall; auto.
    + assert (Hk : subnet_compare k k' = Lt).
      { rewrite (subnet_compare_antisym k' k), E; reflexivity. }
      constructor; [constructor; assumption|].
      constructor; [exact Hk|]. eapply Forall_impl; [|exact Hall].
      intros a Ha. unfold sm_lt in *; cbn [fst] in *. eapply subnet_compare_trans; eassumption.
Qed.

Lemma filter_sorted {A} (R : A -> A -> Prop) f l : StronglySorted R l -> StronglySorted R (filter f l).
Proof.
  induction 1 as [|a l Hs IH Hall]; cbn; [constructor|].
  destruct (f a); [|exact IH]. constructor; [exact IH|].
  apply Forall_forall. intros x Hx. apply filter_In in Hx. rewrite Forall_forall in Hall. apply Hall, Hx.
Qed.

Lemma sm_del_sorted {V} k (m : list (prefix * V)) : sm_sorted m -> sm_sorted (sm_del k m).
Proof. apply filter_sorted. Qed.

Lemma sm_sorted_in_get {V} (m : list (prefix * V)) p u : sm_sorted m -> In (p, u) m -> sm_get p m = Some u.
Proof.
  unfold sm_sorted, sm_get. induction 1 as [|[k' v'] m Hs IH Hall]; cbn; [tauto|].
  intros [E|Hin].
  - inversion E; subst. rewrite prefix_eqb_refl; reflexivity.
  - destruct (prefix_eqb p k') eqn:E; [|auto].
    apply prefix_eqb_spec in E; subst k'. rewrite Forall_forall in Hall.
    specialize (Hall _ Hin). unfold sm_lt in Hall; cbn in Hall.
    rewrite subnet_compare_refl in Hall; discriminate.
Qed.

(** The first hit of a search through a sorted list precedes every other hit. *)
Lemma find_sorted_min {A} (R : A -> A -> Prop) f l x :
  StronglySorted R l -> List.find f l = Some x ->
  In x l /\ f x = true /\ forall y, In y l -> f y = true -> y = x \/ R x y.
Proof.
  induction 1 as [|a l Hs IH Hall]; cbn; [discriminate|].
  destruct (f a) eqn:E.
  - intros H; inversion H; subst. split; [auto|]. split; [assumption|].
    intros y [->|Hy] _; [auto|]. right. rewrite Forall_forall in Hall; auto.
  - intros H. destruct (IH H) as (Hin & Hf & Hmin). split; [auto|]. split; [assumption|].
    intros y [->|Hy] Hfy; [congruence|auto].
Qed.

(** * Keyed maps to uids, generically (ClientIDs, IPs, MACs, names, subnets) *)
Section KM.
  Variables (K M : Type).
  Variable get : K -> M -> option uid.
  Variable set : K -> uid -> M -> M.
  Variable del : K -> M -> M.
  Hypothesis K_dec : forall a b : K, {a = b} + {a <> b}.
  Hypothesis get_set_eq : forall k v m, get k (set k v m) = Some v.
  Hypothesis get_set_ne : forall k k' v m, k <> k' -> get k' (set k v m) = get k' m.
  Hypothesis get_del_eq : forall k m, get k (del k m) = None.
  Hypothesis get_del_ne : forall k k' m, k <> k' -> get k' (del k m) = get k' m.

  Lemma get_add_keys_out ks u : forall m k, ~ In k ks -> get k (add_keys set ks u m) = get k m.
  Proof.
    unfold add_keys. induction ks as [|k0 ks IH]; cbn; intros m k Hk; [reflexivity|].
    rewrite IH by tauto. apply get_set_ne. intros ->; apply Hk; auto.
  Qed.
  Lemma get_add_keys_in ks u : forall m k, In k ks -> get k (add_keys set ks u m) = Some u.
  Proof.
    unfold add_keys. induction ks as [|k0 ks IH]; cbn; intros m k Hk; [tauto|].
    destruct (in_dec K_dec k ks) as [Hin|Hout]; [apply IH; assumption|].
    destruct Hk as [->|Hk]; [|contradiction].
    change (get k (add_keys set ks u (set k u m)) = Some u).
    rewrite get_add_keys_out by assumption. apply get_set_eq.
  Qed.
  Lemma get_del_keys_out ks : forall m k, ~ In k ks -> get k (del_keys del ks m) = get k m.
  Proof.
    unfold del_keys. induction ks as [|k0 ks IH]; cbn; intros m k Hk; [reflexivity|].
    rewrite IH by tauto. apply get_del_ne. intros ->; apply Hk; auto.
  Qed.
  Lemma get_del_keys_in ks : forall m k, In k ks -> get k (del_keys del ks m) = None.
  Proof.
    unfold del_keys. induction ks as [|k0 ks IH]; cbn; intros m k Hk; [tauto|].
    destruct (in_dec K_dec k ks) as [Hin|Hout]; [apply IH; assumption|].
    destruct Hk as [->|Hk]; [|contradiction].
    change (get k (del_keys del ks (del k m)) = None).
    rewrite get_del_keys_out by assumption. apply get_del_eq.
  Qed.
  Lemma get_del_keys_sub ks m k u : get k (del_keys del ks m) = Some u -> get k m = Some u.
  Proof.
    destruct (in_dec K_dec k ks) as [Hin|Hout].
    - rewrite get_del_keys_in by assumption. discriminate.
    - rewrite get_del_keys_out by assumption. auto.
  Qed.

  Lemma clash_key_none ks u m :
    clash_key get ks u m = None <-> (forall k u', In k ks -> get k m = Some u' -> u' = u).
  Proof.
    induction ks as [|k0 ks IH]; cbn; [split; [tauto|reflexivity]|].
    destruct (get k0 m) as [u0|] eqn:E.
    - destruct (u0 =? u) eqn:Eu.
      + apply N.eqb_eq in Eu; subst u0. rewrite IH. split.
        * intros H k u' [->|Hk] Hg; [congruence|eauto].
        * intros H k u' Hk; apply H; auto.
      + apply N.eqb_neq in Eu. split; [discriminate|]. intros H. exfalso. apply Eu. apply (H k0); auto.
    - rewrite IH. split.
      + intros H k u' [->|Hk] Hg; [congruence|eauto].
      + intros H k u' Hk; apply H; auto.
  Qed.

  (** The per-map part of the invariant: an entry [k -> u] exists exactly when
      the client stored under [u] lists [k]. *)
  Definition map_ok (cl : uid -> option client) (keys : client -> list K) (m : M) : Prop :=
    forall k u, get k m = Some u <-> exists c, cl u = Some c /\ In k (keys c).

  Lemma map_ok_add cl cl' keys m c :
    map_ok cl keys m -> cl (c_uid c) = None ->
    cl' (c_uid c) = Some c -> (forall u, u <> c_uid c -> cl' u = cl u) ->
    clash_key get (keys c) (c_uid c) m = None ->
    map_ok cl' keys (add_keys set (keys c) (c_uid c) m).
  Proof.
    intros Hok Hfresh Hnew Hold Hclash k u. rewrite clash_key_none in Hclash.
    destruct (in_dec K_dec k (keys c)) as [Hin|Hout].
    - rewrite get_add_keys_in by assumption. split.
      + intros E; inversion E; subst u. eauto.
      + intros (c0 & Hc0 & Hk). destruct (N.eq_dec u (c_uid c)) as [->|Hne]; [reflexivity|].
        rewrite Hold in Hc0 by assumption.
        assert (Hg : get k m = Some u) by (apply Hok; eauto).
        exfalso. apply Hne. eapply Hclash; eassumption.
    - rewrite get_add_keys_out by assumption. rewrite (Hok k u). split.
      + intros (c0 & Hc0 & Hk). exists c0. split; [|assumption].
        rewrite Hold; [assumption|]. intros ->. congruence.
      + intros (c0 & Hc0 & Hk). destruct (N.eq_dec u (c_uid c)) as [->|Hne].
        * rewrite Hnew in Hc0. inversion Hc0; subst c0. contradiction.
        * rewrite Hold in Hc0 by assumption. eauto.
  Qed.

  Lemma map_ok_remove cl cl' keys m c u0 :
    map_ok cl keys m -> cl u0 = Some c ->
    cl' u0 = None -> (forall u, u <> u0 -> cl' u = cl u) ->
    map_ok cl' keys (del_keys del (keys c) m).
  Proof.
    intros Hok Hc Hgone Hold k u.
    destruct (in_dec K_dec k (keys c)) as [Hin|Hout].
    - rewrite get_del_keys_in by assumption. split; [discriminate|].
      intros (c0 & Hc0 & Hk). exfalso.
      destruct (N.eq_dec u u0) as [->|Hne]; [congruence|].
      rewrite Hold in Hc0 by assumption.
      assert (H1 : get k m = Some u) by (apply Hok; eauto).
      assert (H2 : get k m = Some u0) by (apply Hok; eauto).
      congruence.
    - rewrite get_del_keys_out by assumption. rewrite (Hok k u). split.
      + intros (c0 & Hc0 & Hk). exists c0. split; [|assumption].
        rewrite Hold; [assumption|]. intros ->. congruence.
      + intros (c0 & Hc0 & Hk). destruct (N.eq_dec u u0) as [->|Hne]; [congruence|].
        rewrite Hold in Hc0 by assumption. eauto.
  Qed.

  Lemma clash_none_after_del ks ks' u m :
    clash_key get ks u m = None -> clash_key get ks u (del_keys del ks' m) = None.
  Proof.
    rewrite !clash_key_none. intros H k u' Hk Hg. apply get_del_keys_sub in Hg. eauto.
  Qed.
End KM.

(** * The registry invariant *)
Definition names_of (c : client) : list bytes := [c_name c].

Definition bytes_dec : forall a b : bytes, {a = b} + {a <> b} := list_eq_dec N.eq_dec.
Definition prefix_dec : forall a b : prefix, {a = b} + {a <> b}.
Proof. decide equality; [apply N.eq_dec|apply bytes_dec]. Defined.

Definition addr_dec : forall a b : addr, {a = b} + {a <> b}.
Proof. decide equality; apply bytes_dec. Defined.

Definition zmap_ok := map_ok addr (list (addr * uid)) zget.
Definition bmap_ok := map_ok bytes (list (bytes * uid)) bget.
Definition smap_ok := map_ok prefix (list (prefix * uid)) sm_get.

Record Inv (ix : index) : Prop := {
  inv_uid : forall u c, deref ix u = Some c -> c_uid c = u;
  inv_name : bmap_ok (deref ix) names_of (name_to ix);
  inv_cid : bmap_ok (deref ix) c_cids (cid_to ix);
  inv_ip : zmap_ok (deref ix) c_ips (ip_to ix);
  inv_mac : bmap_ok (deref ix) c_macs (mac_to ix);
  inv_subnet : smap_ok (deref ix) c_subnets (subnet_to ix);
  inv_sorted : sm_sorted (subnet_to ix)
}.

Lemma Inv_empty : Inv empty_index.
Proof.
  constructor; try (intros k u; cbn; split; [discriminate|intros (c & H & _); discriminate]).
  - intros u c; cbn; discriminate.
  - constructor.
Qed.

Lemma bget_set_eq k v (m : list (bytes * uid)) : bget k (bset k v m) = Some v.
Proof. apply al_get_set_eq, eqb_bytes_spec. Qed.
Lemma bget_set_ne k k' v (m : list (bytes * uid)) : k <> k' -> bget k' (bset k v m) = bget k' m.
Proof. apply al_get_set_ne, eqb_bytes_spec. Qed.
Lemma bget_del_eq k (m : list (bytes * uid)) : bget k (bdel k m) = None.
Proof. apply al_get_del_eq. Qed.
Lemma bget_del_ne k k' (m : list (bytes * uid)) : k <> k' -> bget k' (bdel k m) = bget k' m.
Proof. apply al_get_del_ne, eqb_bytes_spec. Qed.
Lemma zget_set_eq k v (m : list (addr * uid)) : zget k (zset k v m) = Some v.
Proof. apply al_get_set_eq, addr_eqb_spec. Qed.
Lemma zget_set_ne k k' v (m : list (addr * uid)) : k <> k' -> zget k' (zset k v m) = zget k' m.
Proof. apply al_get_set_ne, addr_eqb_spec. Qed.
Lemma zget_del_eq k (m : list (addr * uid)) : zget k (zdel k m) = None.
Proof. apply al_get_del_eq. Qed.
Lemma zget_del_ne k k' (m : list (addr * uid)) : k <> k' -> zget k' (zdel k m) = zget k' m.
Proof. apply al_get_del_ne, addr_eqb_spec. Qed.
Lemma sm_get_del_eq k (m : list (prefix * uid)) : sm_get k (sm_del k m) = None.
Proof. apply al_get_del_eq. Qed.
Lemma sm_get_del_ne k k' (m : list (prefix * uid)) : k <> k' -> sm_get k' (sm_del k m) = sm_get k' m.
Proof. apply al_get_del_ne, prefix_eqb_spec. Qed.

Lemma clashes_ok c ix :
  clashes c ix = EOk <->
  clash_key bget (names_of c) (c_uid c) (name_to ix) = None /\
  clash_key bget (c_cids c) (c_uid c) (cid_to ix) = None /\
  clash_key zget (c_ips c) (c_uid c) (ip_to ix) = None /\
  clash_key sm_get (c_subnets c) (c_uid c) (subnet_to ix) = None /\
  clash_key bget (c_macs c) (c_uid c) (mac_to ix) = None.
Proof.
  unfold clashes, names_of.
  destruct (clash_key bget [c_name c] (c_uid c) (name_to ix)); [split; [discriminate|intros (H & _); discriminate]|].
  destruct (clash_key bget (c_cids c) (c_uid c) (cid_to ix)); [split; [discriminate|intros (_ & H & _); discriminate]|].
  destruct (clash_key zget (c_ips c) (c_uid c) (ip_to ix)); [split; [discriminate|intros (_ & _ & H & _); discriminate]|].
  destruct (clash_key sm_get (c_subnets c) (c_uid c) (subnet_to ix)); [split; [discriminate|intros (_ & _ & _ & H & _); discriminate]|].
  destruct (clash_key bget (c_macs c) (c_uid c) (mac_to ix)); [split; [discriminate|intros (_ & _ & _ & _ & H); discriminate]|].
  tauto.
Qed.

Lemma add_keys_sorted ks u : forall m, sm_sorted m -> sm_sorted (add_keys sm_set ks u m).
Proof.
  unfold add_keys. induction ks as [|k ks IH]; cbn; intros m H; [assumption|].
  apply IH. apply sm_set_sorted; assumption.
Qed.
Lemma del_keys_sorted ks : forall m : list (prefix * uid), sm_sorted m -> sm_sorted (del_keys sm_del ks m).
Proof.
  unfold del_keys. induction ks as [|k ks IH]; cbn; intros m H; [assumption|].
  apply IH. apply sm_del_sorted; assumption.
Qed.

Lemma deref_add_eq c ix : deref (index_add c ix) (c_uid c) = Some c.
Proof. unfold deref, index_add; cbn [by_uid]. apply al_get_set_eq, N.eqb_eq. Qed.
Lemma deref_add_ne c ix u : u <> c_uid c -> deref (index_add c ix) u = deref ix u.
Proof. intros H. unfold deref, index_add; cbn [by_uid]. apply al_get_set_ne; [apply N.eqb_eq|congruence]. Qed.
Lemma deref_remove_eq c ix : deref (index_remove c ix) (c_uid c) = None.
Proof. unfold deref, index_remove; cbn [by_uid]. apply al_get_del_eq. Qed.
Lemma deref_remove_ne c ix u : u <> c_uid c -> deref (index_remove c ix) u = deref ix u.
Proof. intros H. unfold deref, index_remove; cbn [by_uid]. apply al_get_del_ne; [apply N.eqb_eq|congruence]. Qed.

Lemma Inv_index_add c ix :
  Inv ix -> deref ix (c_uid c) = None -> clashes c ix = EOk -> Inv (index_add c ix).
Proof.
  intros [Hu Hn Hc Hi Hm Hs Hso] Hfresh Hcl.
  apply clashes_ok in Hcl. destruct Hcl as (Cn & Cc & Ci & Cs & Cm).
  pose proof (deref_add_eq c ix) as Dn. pose proof (deref_add_ne c ix) as Do.
  constructor.
  - intros u c0 H. destruct (N.eq_dec u (c_uid c)) as [->|Hne]; [congruence|].
    rewrite Do in H by assumption. auto.
  - change (name_to (index_add c ix)) with (add_keys bset (names_of c) (c_uid c) (name_to ix)).
    eapply map_ok_add; eauto using bytes_dec, bget_set_eq, bget_set_ne.
  - cbn [index_add cid_to]. eapply map_ok_add; eauto using bytes_dec, bget_set_eq, bget_set_ne.
  - cbn [index_add ip_to]. eapply map_ok_add; eauto using addr_dec, zget_set_eq, zget_set_ne.
  - cbn [index_add mac_to]. eapply map_ok_add; eauto using bytes_dec, bget_set_eq, bget_set_ne.
  - cbn [index_add subnet_to]. eapply map_ok_add; eauto using prefix_dec, @sm_get_set_eq, @sm_get_set_ne.
  - cbn [index_add subnet_to]. apply add_keys_sorted; assumption.
Qed.

Lemma Inv_index_remove c ix u0 :
  Inv ix -> deref ix u0 = Some c -> Inv (index_remove c ix).
Proof.
  intros [Hu Hn Hc Hi Hm Hs Hso] Hst.
  assert (Eu : c_uid c = u0) by auto. subst u0.
  pose proof (deref_remove_eq c ix) as Dn. pose proof (deref_remove_ne c ix) as Do.
  constructor.
  - intros u c0 H. destruct (N.eq_dec u (c_uid c)) as [->|Hne]; [congruence|].
    rewrite Do in H by assumption. auto.
  - change (name_to (index_remove c ix)) with (del_keys bdel (names_of c) (name_to ix)).
    eapply map_ok_remove; eauto using bytes_dec, bget_del_eq, bget_del_ne.
  - cbn [index_remove cid_to]. eapply map_ok_remove; eauto using bytes_dec, bget_del_eq, bget_del_ne.
  - cbn [index_remove ip_to]. eapply map_ok_remove; eauto using addr_dec, zget_del_eq, zget_del_ne.
  - cbn [index_remove mac_to]. eapply map_ok_remove; eauto using bytes_dec, bget_del_eq, bget_del_ne.
  - cbn [index_remove subnet_to]. eapply map_ok_remove; eauto using prefix_dec, sm_get_del_eq, sm_get_del_ne.
  - cbn [index_remove subnet_to]. apply del_keys_sorted; assumption.
Qed.

Lemma bclash_after_del ks ks' u (m : list (bytes * uid)) :
  clash_key bget ks u m = None -> clash_key bget ks u (del_keys bdel ks' m) = None.
Proof. apply (clash_none_after_del _ _ bget bdel bytes_dec bget_del_eq bget_del_ne). Qed.
Lemma zclash_after_del ks ks' u (m : list (addr * uid)) :
  clash_key zget ks u m = None -> clash_key zget ks u (del_keys zdel ks' m) = None.
Proof. apply (clash_none_after_del _ _ zget zdel addr_dec zget_del_eq zget_del_ne). Qed.
Lemma sclash_after_del ks ks' u (m : list (prefix * uid)) :
  clash_key sm_get ks u m = None -> clash_key sm_get ks u (del_keys sm_del ks' m) = None.
Proof. apply (clash_none_after_del _ _ sm_get sm_del prefix_dec sm_get_del_eq sm_get_del_ne). Qed.

Lemma clashes_after_remove p stored ix :
  clashes p ix = EOk -> clashes p (index_remove stored ix) = EOk.
Proof.
  rewrite !clashes_ok. intros (Cn & Cc & Ci & Cs & Cm).
  change (name_to (index_remove stored ix)) with (del_keys bdel (names_of stored) (name_to ix)).
  cbn [index_remove cid_to ip_to mac_to subnet_to].
  auto 10 using bclash_after_del, sclash_after_del, zclash_after_del.
Qed.

Lemma Inv_step cfg ix o : Inv ix -> Inv (fst (step cfg ix o)).
Proof.
  intros HI. destruct o as [c|n c|n]; cbn [step].
  - unfold add. destruct (validate cfg c); try exact HI. cbv zeta.
    destruct (deref ix (c_uid (normalize c))) eqn:D; [exact HI|].
    destruct (clashes (normalize c) ix) eqn:C; try exact HI. cbn [fst]. apply Inv_index_add; assumption.
  - unfold update. destruct (validate cfg c); try exact HI. cbv zeta.
    destruct (bget n (name_to ix)) as [u|]; [|exact HI].
    destruct (deref ix u) as [stored|] eqn:D; [|exact HI].
    destruct (clashes (set_uid (c_uid stored) (normalize c)) ix) eqn:C; try exact HI. cbn [fst].
    apply Inv_index_add.
    + eapply Inv_index_remove; eassumption.
    + cbn [set_uid c_uid]. apply deref_remove_eq.
    + apply clashes_after_remove; assumption.
  - unfold remove_by_name. destruct (bget n (name_to ix)) as [u|]; [|exact HI].
    destruct (deref ix u) as [stored|] eqn:D; [|exact HI].
    cbn [fst]. eapply Inv_index_remove; eassumption.
Qed.

(** The invariant holds in every state reachable by any history. *)
Lemma Inv_run_from cfg ops : forall ix, Inv ix -> Inv (run cfg ops ix).
Proof.
  unfold run. induction ops as [|o ops IH]; cbn; intros ix H; [assumption|].
  apply IH. apply Inv_step; assumption.
Qed.

Theorem index_consistent : forall cfg ops, Inv (run cfg ops empty_index).
Proof. intros cfg ops. apply Inv_run_from, Inv_empty. Qed.

(** * A rejected operation leaves the registry as it was *)
Lemma failed_op_is_noop : forall cfg ix o ix' e,
  step cfg ix o = (ix', e) -> e <> EOk -> ix' = ix.
Proof.
  intros cfg ix o ix' e H Hne. destruct o as [c|n c|n]; cbn [step] in H.
  - unfold add in H. destruct (validate cfg c); try congruence. cbv zeta in H.
    destruct (deref ix (c_uid (normalize c))); [congruence|].
    destruct (clashes (normalize c) ix); congruence.
  - unfold update in H. destruct (validate cfg c); try congruence. cbv zeta in H.
    destruct (bget n (name_to ix)); [|congruence].
    destruct (deref ix u); [|congruence].
    destruct (clashes _ ix); congruence.
  - unfold remove_by_name in H. destruct (bget n (name_to ix)); [|congruence].
    destruct (deref ix u); congruence.
Qed.

(** * Resolution: every identifier resolves to its unique owner, or to none *)
Definition owner_of {K} (ix : index) (keys : client -> list K) (k : K) (u : uid) : Prop :=
  exists c, deref ix u = Some c /\ In k (keys c).

Definition resolution_statement (ix : index) : Prop :=
  (forall n u, find_by_name ix n = Some u <-> owner_of ix names_of n u) /\
  (forall id u, find_by_cid ix id = Some u <-> owner_of ix c_cids id u) /\
  (forall a u, zget a (ip_to ix) = Some u <-> owner_of ix c_ips a u) /\
  (forall m u, find_by_mac ix m = Some u <-> owner_of ix c_macs m u) /\
  (forall p u, sm_get p (subnet_to ix) = Some u <-> owner_of ix c_subnets p u).

Lemma resolution ix : Inv ix -> resolution_statement ix.
Proof. intros [Hu Hn Hc Hi Hm Hs Hso]. repeat split; first [apply Hn|apply Hc|apply Hi|apply Hm|apply Hs]. Qed.

(** Two stored clients never list the same name or identifier. *)
Definition owners_unique_statement (ix : index) : Prop :=
  (forall k u1 u2, owner_of ix names_of k u1 -> owner_of ix names_of k u2 -> u1 = u2) /\
  (forall k u1 u2, owner_of ix c_cids k u1 -> owner_of ix c_cids k u2 -> u1 = u2) /\
  (forall k u1 u2, owner_of ix c_ips k u1 -> owner_of ix c_ips k u2 -> u1 = u2) /\
  (forall k u1 u2, owner_of ix c_macs k u1 -> owner_of ix c_macs k u2 -> u1 = u2) /\
  (forall k u1 u2, owner_of ix c_subnets k u1 -> owner_of ix c_subnets k u2 -> u1 = u2).

Lemma owners_unique ix : Inv ix -> owners_unique_statement ix.
Proof.
  intros HI. destruct (resolution ix HI) as (Rn & Rc & Ri & Rm & Rs).
  repeat split; intros k u1 u2 H1 H2.
  - apply Rn in H1, H2. congruence.
  - apply Rc in H1, H2. congruence.
  - apply Ri in H1, H2. congruence.
  - apply Rm in H1, H2. congruence.
  - apply Rs in H1, H2. congruence.
Qed.

(** * An accepted operation never makes two clients share a name or identifier *)
Definition shares (c c' : client) : Prop :=
  c_name c = c_name c' \/
  (exists k, In k (c_cids c) /\ In k (c_cids c')) \/
  (exists k, In k (c_ips c) /\ In k (c_ips c')) \/
  (exists k, In k (c_subnets c) /\ In k (c_subnets c')) \/
  (exists k, In k (c_macs c) /\ In k (c_macs c')).

Lemma no_clash_no_share K M (get : K -> M -> option uid) cl keys m ks u0 u c' k :
  map_ok K M get cl keys m -> clash_key get ks u0 m = None -> cl u = Some c' -> u <> u0 ->
  In k ks -> In k (keys c') -> False.
Proof.
  intros Hok Hc Hcl Hne Hk Hk'. rewrite clash_key_none in Hc. apply Hne. apply (Hc k u Hk). apply Hok. eauto.
Qed.

Lemma clashes_no_share ix p u c' :
  Inv ix -> clashes p ix = EOk -> deref ix u = Some c' -> u <> c_uid p -> ~ shares p c'.
Proof.
  intros [Hu Hn Hc Hi Hm Hs Hso] Hcl Hd Hne.
  apply clashes_ok in Hcl. destruct Hcl as (Cn & Cc & Ci & Cs & Cm).
  intros [E|[(k & H1 & H2)|[(k & H1 & H2)|[(k & H1 & H2)|(k & H1 & H2)]]]].
  - eapply (no_clash_no_share _ _ bget (deref ix) names_of _ _ _ _ _ (c_name p) Hn Cn Hd Hne); cbn; auto.
  - eapply (no_clash_no_share _ _ bget (deref ix) c_cids _ _ _ _ _ k Hc Cc Hd Hne); assumption.
  - eapply (no_clash_no_share _ _ zget (deref ix) c_ips _ _ _ _ _ k Hi Ci Hd Hne); assumption.
  - eapply (no_clash_no_share _ _ sm_get (deref ix) c_subnets _ _ _ _ _ k Hs Cs Hd Hne); assumption.
  - eapply (no_clash_no_share _ _ bget (deref ix) c_macs _ _ _ _ _ k Hm Cm Hd Hne); assumption.
Qed.

Lemma add_rejects_sharing cfg ix c ix' :
  Inv ix -> step cfg ix (OAdd c) = (ix', EOk) ->
  forall u c', deref ix u = Some c' -> ~ shares c c'.
Proof.
  intros HI H u c' Hd. cbn [step] in H. unfold add in H.
  destruct (validate cfg c); try congruence. cbv zeta in H.
  destruct (deref ix (c_uid (normalize c))) eqn:D; [congruence|].
  destruct (clashes (normalize c) ix) eqn:C; try congruence.
  change (~ shares (normalize c) c').
  eapply clashes_no_share; eauto. intros ->. congruence.
Qed.

Lemma update_rejects_sharing cfg ix n c ix' :
  Inv ix -> step cfg ix (OUpdate n c) = (ix', EOk) ->
  forall u c', deref ix u = Some c' -> c_name c' <> n -> ~ shares c c'.
Proof.
  intros HI H u c' Hd Hn. cbn [step] in H. unfold update in H.
  destruct (validate cfg c); try congruence. cbv zeta in H.
  destruct (bget n (name_to ix)) as [u0|] eqn:B; [|congruence].
  destruct (deref ix u0) as [stored|] eqn:D; [|congruence].
  destruct (clashes (set_uid (c_uid stored) (normalize c)) ix) eqn:C; try congruence.
  assert (Eu : c_uid stored = u0) by (eapply inv_uid; eassumption).
  assert (Hne : u <> u0).
  { intros ->. apply (inv_name ix HI) in B. destruct B as (c0 & Hc0 & Hin).
    rewrite Hd in Hc0. inversion Hc0; subst c0. cbn in Hin. destruct Hin as [E|[]]. congruence. }
  intros Hs. apply (clashes_no_share ix (set_uid (c_uid stored) (normalize c)) u c' HI C Hd).
  - cbn [set_uid c_uid]. congruence.
  - exact Hs.
Qed.

(** * Precedence of the lookup used for a request *)
Section Precedence.
  Variables (ix : index) (dhcp : addr -> option bytes) (id : bytes) (a : addr).

  Definition no_cid := forall u, ~ owner_of ix c_cids id u.
  Definition no_ip := forall u, ~ owner_of ix c_ips a u.
  Definition no_cidr := forall p u, owner_of ix c_subnets p u -> contains p (fst a) = false.

  (** ClientID, else exact address (zone included), else the prefix containing
      the address without its zone that is longest (first in [subnet_compare]
      order among the containing ones), else the MAC of the address' lease,
      else nobody. *)
  Inductive resolves : option uid -> Prop :=
  | RCid u : owner_of ix c_cids id u -> resolves (Some u)
  | RIp u : no_cid -> owner_of ix c_ips a u -> resolves (Some u)
  | RCidr u p : no_cid -> no_ip -> owner_of ix c_subnets p u -> contains p (fst a) = true ->
      (forall p' u', owner_of ix c_subnets p' u' -> contains p' (fst a) = true ->
         snd p' <= snd p /\ (p' = p \/ subnet_compare p p' = Lt)) ->
      resolves (Some u)
  | RMac u m : no_cid -> no_ip -> no_cidr -> dhcp a = Some m -> owner_of ix c_macs m u ->
      resolves (Some u)
  | RNone : no_cid -> no_ip -> no_cidr ->
      (forall m, dhcp a = Some m -> forall u, ~ owner_of ix c_macs m u) -> resolves None.

  Hypothesis HI : Inv ix.

  Lemma precedence : resolves (acf_find ix dhcp id a).
  Proof.
    destruct (resolution ix HI) as (Rn & Rc & Ri & Rm & Rs).
    unfold acf_find.
    destruct (find_by_cid ix id) as [u|] eqn:Ec; [apply RCid, Rc, Ec|].
    assert (Ncid : no_cid). { intros u Ho. apply Rc in Ho. congruence. }
    unfold find_by_ip.
    destruct (zget a (ip_to ix)) as [u|] eqn:Ei; [apply RIp; [assumption|apply Ri, Ei]|].
    assert (Nip : no_ip). { intros u Ho. apply Ri in Ho. congruence. }
    destruct (List.find (fun pu => contains (fst pu) (fst a)) (subnet_to ix)) as [[p u]|] eqn:Ef.
    - destruct (find_sorted_min _ _ _ _ (inv_sorted ix HI) Ef) as (Hin & Hc & Hmin). cbn [fst] in Hc.
      apply RCidr with (p := p); try assumption.
      + apply Rs. apply sm_sorted_in_get; [apply (inv_sorted ix HI)|assumption].
      + intros p' u' Ho Hc'. apply Rs in Ho. apply al_get_in in Ho; [|apply prefix_eqb_spec].
        destruct (Hmin (p', u') Ho Hc') as [E|Hlt].
        * inversion E; subst. split; [lia|auto].
        * unfold sm_lt in Hlt; cbn [fst] in Hlt. split; [apply subnet_compare_lt_bits; assumption|auto].
    - assert (Ncidr : no_cidr).
      { intros p u Ho. apply Rs in Ho. apply al_get_in in Ho; [|apply prefix_eqb_spec].
        apply (find_none _ _ Ef) in Ho. exact Ho. }
      destruct (dhcp a) as [m|] eqn:Ed.
      + destruct (find_by_mac ix m) as [u|] eqn:Em.
        * eapply RMac; eauto. apply Rm, Em.
        * apply RNone; try assumption. intros m' E u Ho. rewrite Ed in E. inversion E; subst m'. apply Rm in Ho. congruence.
      + apply RNone; try assumption. intros m' E; rewrite Ed in E; discriminate.
  Qed.

  (** The specification determines the answer. *)
  Lemma resolves_functional r1 r2 : resolves r1 -> resolves r2 -> r1 = r2.
  Proof.
    destruct (owners_unique ix HI) as (Un & Uc & Ui & Um & Us).
    intros H1 H2.
    destruct H1 as [u1 O1|u1 N1 O1|u1 p1 N1 NI1 O1 C1 M1|u1 m1 N1 NI1 NC1 D1 O1|N1 NI1 NC1 D1];
    destruct H2 as [u2 O2|u2 N2 O2|u2 p2 N2 NI2 O2 C2 M2|u2 m2 N2 NI2 NC2 D2 O2|N2 NI2 NC2 D2];
    try (f_equal; eauto; fail);
    try (exfalso; first [eapply N1; eassumption|eapply N2; eassumption|eapply NI1; eassumption|eapply NI2; eassumption]);
    try (exfalso; first [rewrite (NC1 _ _ O2) in C2; discriminate|rewrite (NC2 _ _ O1) in C1; discriminate]).
    - destruct (M1 _ _ O2 C2) as (_ & [E|L1]); [subst; f_equal; eauto|].
      destruct (M2 _ _ O1 C1) as (_ & [E|L2]); [subst; f_equal; eauto|].
      rewrite (subnet_compare_antisym p1 p2), L1 in L2. discriminate.
    - rewrite D1 in D2. inversion D2; subst. f_equal; eauto.
    - exfalso. eapply D2; eassumption.
    - exfalso. eapply D1; eassumption.
  Qed.
End Precedence.

(** * Settings *)
Lemma apply_client_spec c g :
  let s := apply_client c g in
  s_client_name s = c_name c /\
  (c_own_settings c = true ->
     s_filtering s = c_filtering c /\ s_safesearch s = c_safesearch c /\
     s_safebrowsing s = c_safebrowsing c /\ s_parental s = c_parental c) /\
  (c_own_settings c = false ->
     s_filtering s = s_filtering g /\ s_safesearch s = s_safesearch g /\
     s_safebrowsing s = s_safebrowsing g /\ s_parental s = s_parental g) /\
  (c_own_blocked c = true -> s_blocked s = c_blocked c) /\
  (c_own_blocked c = false -> s_blocked s = s_blocked g).
Proof.
  unfold apply_client. destruct (c_own_settings c), (c_own_blocked c); cbn; intuition congruence.
Qed.

Lemma settings_applied ix dhcp id a g :
  Inv ix ->
  match acf_find ix dhcp id a with
  | None => apply_client_filtering ix dhcp id a g = Some g
  | Some u => exists c, deref ix u = Some c /\ c_uid c = u /\
                        apply_client_filtering ix dhcp id a g = Some (apply_client c g)
  end.
Proof.
  intros HI. pose proof (precedence ix dhcp id a HI) as Hr. unfold apply_client_filtering.
  destruct (acf_find ix dhcp id a) as [u|]; [|reflexivity].
  assert (Hex : exists c, deref ix u = Some c).
  { inversion Hr as [u' (c & Hc & _)|u' _ (c & Hc & _)|u' p _ _ (c & Hc & _)|u' m _ _ _ _ (c & Hc & _)|]; eauto. }
  destruct Hex as (c & Hc). exists c. rewrite Hc. split; [reflexivity|]. split; [|reflexivity].
  eapply inv_uid; eassumption.
Qed.

(** * A concrete registry (premises of the implications above are satisfiable) *)
Definition ex_client (u : uid) (name : bytes) cids ips subnets macs (own ownb : bool) : client :=
  {| c_uid := u; c_name := name; c_cids := cids; c_ips := ips; c_subnets := subnets; c_macs := macs;
     c_own_settings := own; c_filtering := true; c_safesearch := false; c_safebrowsing := true;
     c_parental := false; c_own_blocked := ownb;
     c_blocked := Some {| b_ids := [[120]]; b_sched := []; b_zone := 0 |};
     c_ignore_qlog := false; c_ignore_stats := false;
     c_tags := [[117;115;101;114;95;99;104;105;108;100]; [100;101;118;105;99;101;95;116;118]];
     c_upstreams := [[35;32;99]; [91;47;108;97;110;47;93;49;48;46;48;46;48;46;49]; [49;46;49;46;49;46;49]] |}.

(** allowed tags "device_tv", "user_child"; every token is an acceptable upstream address *)
Definition ex_cfg : config :=
  {| cfg_tags := [[100;101;118;105;99;101;95;116;118]; [117;115;101;114;95;99;104;105;108;100]];
     cfg_addr_ok := fun _ => true |}.

Definition v4 (a b c d : N) : addr := ([a; b; c; d], []).
Definition fe80_1 (zone : bytes) : addr := ([254;128;0;0;0;0;0;0;0;0;0;0;0;0;0;1], zone).
Definition fe80_64 : prefix := ([254;128;0;0;0;0;0;0;0;0;0;0;0;0;0;0], 64).

Definition ex_ops : list op :=
  [ OAdd (ex_client 1 [97] [] [] [([10;0;0;0], 8); fe80_64] [] true false);
    OAdd (ex_client 2 [98] [[99;108;105]] [v4 10 1 2 3] [([10;1;2;0], 24)] [] false true);
    OAdd (ex_client 3 [99] [] [] [([10;1;0;0], 16)] [[170;187;204;221;238;1]] true true);
    OAdd (ex_client 4 [100] [] [v4 10 1 2 3] [] [] true true);                      (* rejected: IP of b *)
    OUpdate [99] (ex_client 9 [100] [] [v4 10 9 9 9; fe80_1 [101;116;104;48]] [([10;1;0;0], 16)] [[170;187;204;221;238;1]] true true);
    ORemove [122] ].

Definition ex_ix : index := run ex_cfg ex_ops empty_index.
Definition ex_dhcp (a : addr) : option bytes :=
  if addr_eqb a (v4 192 168 1 5) then Some [170;187;204;221;238;1] else None.

Lemma example_registry :
  Inv ex_ix /\
  length (by_uid ex_ix) = 3%nat /\
  (* ClientID beats the address; exact address beats prefixes; /24 beats /16 beats /8; lease MAC last *)
  acf_find ex_ix ex_dhcp [99;108;105] (v4 10 9 9 9) = Some 2 /\
  acf_find ex_ix ex_dhcp [] (v4 10 1 2 3) = Some 2 /\
  acf_find ex_ix ex_dhcp [] (v4 10 1 2 77) = Some 2 /\
  acf_find ex_ix ex_dhcp [] (v4 10 1 200 1) = Some 3 /\
  acf_find ex_ix ex_dhcp [] (v4 10 200 0 1) = Some 1 /\
  acf_find ex_ix ex_dhcp [] (v4 192 168 1 5) = Some 3 /\
  acf_find ex_ix ex_dhcp [] (v4 8 8 8 8) = None /\
  (* zones: the exact map is keyed with the zone, the prefix test strips it *)
  acf_find ex_ix ex_dhcp [] (fe80_1 [101;116;104;48]) = Some 3 /\
  acf_find ex_ix ex_dhcp [] (fe80_1 [101;116;104;49]) = Some 1 /\
  acf_find ex_ix ex_dhcp [] (fe80_1 []) = Some 1 /\
  (* rejected operations *)
  snd (step ex_cfg ex_ix (OAdd (ex_client 5 [101] [] [v4 10 9 9 9] [] [] true true))) = EIP /\
  snd (step ex_cfg ex_ix (OUpdate [97] (ex_client 6 [98] [] [] [([10;0;0;0], 8)] [] true true))) = EName /\
  (* an accepted update that keeps its own identifiers *)
  snd (step ex_cfg ex_ix (OUpdate [97] (ex_client 7 [97] [] [] [([10;0;0;0], 8); ([10;2;0;0], 8)] [] false false))) = EOk.
Proof. split; [apply index_consistent|]. vm_compute. repeat split; reflexivity. Qed.

Lemma resolution_full ix : Inv ix -> resolution_statement ix /\ owners_unique_statement ix.
Proof. intros H; split; [exact (resolution ix H)|exact (owners_unique ix H)]. Qed.

Lemma resolution_any_history cfg ops :
  resolution_statement (run cfg ops empty_index) /\ owners_unique_statement (run cfg ops empty_index).
Proof. apply resolution_full, index_consistent. Qed.

Lemma precedence_unique ix dhcp id a r1 r2 :
  Inv ix -> resolves ix dhcp id a r1 -> resolves ix dhcp id a r2 -> r1 = r2.
Proof. intros H. exact (resolves_functional ix dhcp id a H r1 r2). Qed.

(** * CIDR identifiers spelled with host bits

    netip.ParsePrefix and Persistent.SetIDs keep the host bits of
    "192.168.1.1/24"; the index keys its subnet map by the EXACT prefix (the
    address as spelled, the bit count) and orders it by [subnet_compare] on the
    unmasked address, while the containment test masks.  Nothing above assumes
    canonical prefixes: [Inv], [resolution], [precedence] speak of exact
    (address, bits) pairs.  This section says what that means for several
    spellings of one network. *)

(** netip.Prefix.Masked on bytes: the host bits cleared. *)
Fixpoint mask_bits (n : N) (l : bytes) : bytes :=
  match l with
  | [] => []
  | b :: l' =>
      if n =? 0 then 0 :: mask_bits 0 l' else
      if n <? 8 then (b / 2 ^ (8 - n)) * 2 ^ (8 - n) :: mask_bits 0 l' else b :: mask_bits (n - 8) l'
  end.
Definition masked (p : prefix) : prefix := (mask_bits (snd p) (fst p), snd p).

(** Two prefixes denote the same network: equal length, equal family, equal
    network bits. *)
Definition same_network (p q : prefix) : Prop :=
  snd p = snd q /\ length (fst p) = length (fst q) /\
  take_bits (snd p) (fst p) = take_bits (snd p) (fst q).

Lemma mask_bits_length l : forall n, length (mask_bits n l) = length l.
Proof.
  induction l as [|b l IH]; intros n; cbn [mask_bits]; [reflexivity|].
  destruct (n =? 0); [cbn; rewrite IH; reflexivity|].
  destruct (n <? 8); cbn; rewrite IH; reflexivity.
Qed.

Lemma take_bits_mask l : forall n, take_bits n (mask_bits n l) = take_bits n l.
Proof.
  induction l as [|b l IH]; intros n; cbn [mask_bits take_bits]; [reflexivity|].
  destruct (n =? 0) eqn:E0; [cbn [take_bits]; rewrite E0; reflexivity|].
  destruct (n <? 8) eqn:E8; cbn [take_bits]; rewrite E0, E8.
  - f_equal. apply N.div_mul. apply N.pow_nonzero. discriminate.
  - f_equal. apply IH.
Qed.

Lemma masked_same_network p : same_network (masked p) p.
Proof.
  destruct p as [a n]. unfold same_network, masked; cbn [fst snd].
  split; [reflexivity|]. split; [apply mask_bits_length|apply take_bits_mask].
Qed.

(** The containment test does not see the host bits of the prefix. *)
Lemma contains_same_network p q ip : same_network p q -> contains p ip = contains q ip.
Proof.
  destruct p as [a n], q as [b m]. unfold same_network, contains; cbn [fst snd].
  intros (<- & Hl & Ht). rewrite Hl, Ht. reflexivity.
Qed.

Lemma contains_masked p ip : contains (masked p) ip = contains p ip.
Proof. apply contains_same_network, masked_same_network. Qed.

(** ... but the order and the clash test do: distinct spellings are distinct
    keys, strictly ordered. *)
Lemma subnet_compare_spellings p q : p <> q -> subnet_compare p q <> Eq.
Proof. intros Hne E. apply Hne. apply subnet_compare_eq; assumption. Qed.

(** ** A stored CIDR containing the address always answers

    In every state satisfying the invariant (hence after any history, whatever
    the host bits of the stored prefixes): if some client lists a prefix
    containing the address and nobody owns the address itself, the lookup by
    address answers, with the owner of the containing prefix that is FIRST in
    (bits descending, unmasked address ascending) order; that prefix is at
    least as long as any stored containing one.  Among equally long containing
    prefixes (several spellings of one network) "the longest" is not unique;
    the first in [subnet_compare] order is. *)
Lemma cidr_resolves ix a p u :
  Inv ix -> owner_of ix c_subnets p u -> contains p (fst a) = true -> zget a (ip_to ix) = None ->
  exists p' u', find_by_ip ix a = Some u' /\ owner_of ix c_subnets p' u' /\
    contains p' (fst a) = true /\ snd p <= snd p' /\
    (forall q v, owner_of ix c_subnets q v -> contains q (fst a) = true ->
       snd q <= snd p' /\ (q = p' \/ subnet_compare p' q = Lt)).
Proof.
  intros HI Ho Hc Hz.
  destruct (resolution ix HI) as (_ & _ & _ & _ & Rs).
  assert (Hin : In (p, u) (subnet_to ix)).
  { apply Rs in Ho. apply al_get_in in Ho; [assumption|apply prefix_eqb_spec]. }
  unfold find_by_ip. rewrite Hz.
  destruct (List.find (fun pu => contains (fst pu) (fst a)) (subnet_to ix)) as [[p' u']|] eqn:Ef.
  - destruct (find_sorted_min _ _ _ _ (inv_sorted ix HI) Ef) as (Hin' & Hc' & Hmin). cbn [fst] in Hc'.
    assert (Hall : forall q v, owner_of ix c_subnets q v -> contains q (fst a) = true ->
              snd q <= snd p' /\ (q = p' \/ subnet_compare p' q = Lt)).
    { intros q v Hq Hcq. apply Rs in Hq. apply al_get_in in Hq; [|apply prefix_eqb_spec].
      destruct (Hmin (q, v) Hq Hcq) as [E|Hlt].
      - inversion E; subst. split; [lia|auto].
      - unfold sm_lt in Hlt; cbn [fst] in Hlt. split; [apply subnet_compare_lt_bits; assumption|auto]. }
    exists p', u'. split; [reflexivity|]. split.
    + apply Rs. apply sm_sorted_in_get; [apply (inv_sorted ix HI)|assumption].
    + split; [assumption|]. split; [apply (Hall p u Ho Hc)|exact Hall].
  - exfalso. apply (find_none _ _ Ef) in Hin. cbn [fst] in Hin. congruence.
Qed.

(** ** Operations on one client leave the others alone *)
Lemma step_keeps_other_clients cfg ix o ix' e u c :
  Inv ix -> step cfg ix o = (ix', e) -> deref ix u = Some c ->
  match o with
  | OAdd _ => True
  | OUpdate n _ | ORemove n => find_by_name ix n <> Some u
  end ->
  deref ix' u = Some c.
Proof.
  intros HI H Hd Hn. destruct o as [c0|n c0|n]; cbn [step] in H.
  - unfold add in H. destruct (validate cfg c0); try (inversion H; subst; assumption). cbv zeta in H.
    destruct (deref ix (c_uid (normalize c0))) eqn:D; [inversion H; subst; assumption|].
    destruct (clashes (normalize c0) ix); try (inversion H; subst; assumption).
    inversion H; subst. rewrite deref_add_ne; [assumption|]. intros ->. congruence.
  - unfold update in H. destruct (validate cfg c0); try (inversion H; subst; assumption). cbv zeta in H.
    unfold find_by_name in Hn.
    destruct (bget n (name_to ix)) as [u0|] eqn:B; [|inversion H; subst; assumption].
    destruct (deref ix u0) as [stored|] eqn:D; [|inversion H; subst; assumption].
    assert (Eu : c_uid stored = u0) by (eapply inv_uid; eassumption).
    assert (Hne : u <> u0) by congruence.
    destruct (clashes (set_uid (c_uid stored) (normalize c0)) ix); try (inversion H; subst; assumption).
    inversion H; subst ix' e. rewrite deref_add_ne by (cbn [set_uid c_uid]; congruence).
    rewrite deref_remove_ne by congruence. assumption.
  - unfold remove_by_name in H. unfold find_by_name in Hn.
    destruct (bget n (name_to ix)) as [u0|] eqn:B; [|inversion H; subst; assumption].
    destruct (deref ix u0) as [stored|] eqn:D; [|inversion H; subst; assumption].
    assert (Eu : c_uid stored = u0) by (eapply inv_uid; eassumption).
    assert (Hne : u <> u0) by congruence.
    inversion H; subst ix' e. rewrite deref_remove_ne by congruence. assumption.
Qed.

Lemma step_keeps_other_owners {K} (keys : client -> list K) cfg ix o ix' e k u :
  Inv ix -> step cfg ix o = (ix', e) -> owner_of ix keys k u ->
  match o with
  | OAdd _ => True
  | OUpdate n _ | ORemove n => find_by_name ix n <> Some u
  end ->
  owner_of ix' keys k u.
Proof.
  intros HI H (c & Hd & Hk) Hn. exists c. split; [|assumption].
  eapply step_keeps_other_clients; eassumption.
Qed.

(** ** Removing a client does not disturb the answers given for the others *)
Lemma find_filter_keep {A} (f g : A -> bool) l x :
  List.find f l = Some x -> g x = true -> List.find f (filter g l) = Some x.
Proof.
  induction l as [|a l IH]; cbn; [discriminate|].
  destruct (f a) eqn:Ef.
  - intros E Hg; inversion E; subst a. rewrite Hg. cbn. rewrite Ef. reflexivity.
  - intros E Hg. destruct (g a); [cbn; rewrite Ef|]; auto.
Qed.

Lemma find_del_keys_keep (f : prefix * uid -> bool) ks : forall m p u,
  List.find f m = Some (p, u) -> ~ In p ks -> List.find f (del_keys sm_del ks m) = Some (p, u).
Proof.
  unfold del_keys. induction ks as [|k ks IH]; cbn; intros m p u Hf Hn; [assumption|].
  apply IH; [|tauto]. unfold sm_del, al_del. apply find_filter_keep; [assumption|].
  cbn [fst]. rewrite prefix_eqb_ne; [reflexivity|]. intros ->. apply Hn; auto.
Qed.

Lemma remove_keeps_others ix c u0 a u :
  Inv ix -> deref ix u0 = Some c -> find_by_ip ix a = Some u -> u <> u0 ->
  find_by_ip (index_remove c ix) a = Some u.
Proof.
  intros HI Hd Hf Hne. unfold find_by_ip in *. cbn [index_remove ip_to subnet_to].
  destruct (zget a (ip_to ix)) as [u1|] eqn:Ez.
  - inversion Hf; subst u1.
    rewrite (get_del_keys_out addr _ zget zdel zget_del_ne); [rewrite Ez; reflexivity|].
    intros Hin. assert (E : zget a (ip_to ix) = Some u0) by (apply (inv_ip ix HI); eauto). congruence.
  - destruct (zget a (del_keys zdel (c_ips c) (ip_to ix))) as [u1|] eqn:Ez'.
    { apply (get_del_keys_sub addr _ zget zdel addr_dec zget_del_eq zget_del_ne) in Ez'. congruence. }
    destruct (List.find (fun pu => contains (fst pu) (fst a)) (subnet_to ix)) as [[p u']|] eqn:Ef; [|discriminate].
    inversion Hf; subst u'.
    rewrite (find_del_keys_keep _ (c_subnets c) _ p u Ef); [reflexivity|].
    intros Hin.
    assert (E1 : sm_get p (subnet_to ix) = Some u0) by (apply (inv_subnet ix HI); eauto).
    assert (E2 : sm_get p (subnet_to ix) = Some u).
    { apply sm_sorted_in_get; [apply (inv_sorted ix HI)|]. apply (find_some _ _ Ef). }
    congruence.
Qed.

(** ** The statement for spellings: what a change of the comparator to masked
    addresses breaks

    After ANY history and then a remove / update of the client called [n] (any
    outcome), a prefix [p] (ANY host bits) listed by another client is still
    owned by that client, and every address inside it which nobody owns
    exactly still resolves: to the owner of the first containing prefix in
    subnet order, at least as long as [p]. *)
Definition op_on_client (o : op) (n : bytes) : Prop :=
  match o with OAdd _ => False | OUpdate m _ | ORemove m => m = n end.

Lemma noncanonical_prefixes cfg ops o n p u a :
  let ix := run cfg ops empty_index in
  let ix' := fst (step cfg ix o) in
  op_on_client o n -> owner_of ix c_subnets p u -> find_by_name ix n <> Some u ->
  contains p (fst a) = true -> zget a (ip_to ix') = None ->
  owner_of ix' c_subnets p u /\
  exists p' u', find_by_ip ix' a = Some u' /\ owner_of ix' c_subnets p' u' /\
    contains p' (fst a) = true /\ snd p <= snd p' /\
    (forall q v, owner_of ix' c_subnets q v -> contains q (fst a) = true ->
       snd q <= snd p' /\ (q = p' \/ subnet_compare p' q = Lt)).
Proof.
  intros ix ix' Ht Ho Hn Hc Hz.
  assert (HI : Inv ix) by apply index_consistent.
  assert (HI' : Inv ix') by (apply Inv_step; assumption).
  assert (Ho' : owner_of ix' c_subnets p u).
  { eapply (step_keeps_other_owners c_subnets cfg ix o ix' (snd (step cfg ix o))); try eassumption.
    - unfold ix'. destruct (step cfg ix o); reflexivity.
    - destruct o; cbn in Ht; [tauto|subst; assumption|subst; assumption]. }
  split; [assumption|]. eapply cidr_resolves; eassumption.
Qed.

(** ** The scenario itself, on the model: 192.168.1.1/24 and 192.168.1.0/24 *)
Definition nc_client (u : uid) (name : bytes) (subnets : list prefix) : client :=
  ex_client u name [] [] subnets [] false false.
Definition p_1_1 : prefix := ([192;168;1;1], 24).
Definition p_1_0 : prefix := ([192;168;1;0], 24).
Definition p_1_200 : prefix := ([192;168;1;200], 24).
Definition nc_ops : list op :=
  [ OAdd (nc_client 1 [97] [p_1_1]);        (* a: 192.168.1.1/24 *)
    OAdd (nc_client 2 [98] [p_1_0]) ].      (* b: 192.168.1.0/24, accepted *)
Definition nc_ix : index := run ex_cfg nc_ops empty_index.
Definition a77 : addr := v4 192 168 1 77.

Lemma example_noncanonical :
  Inv nc_ix /\ same_network p_1_1 p_1_0 /\ p_1_1 <> p_1_0 /\ masked p_1_1 = p_1_0 /\
  owner_of nc_ix c_subnets p_1_1 1 /\ owner_of nc_ix c_subnets p_1_0 2 /\
  map fst (subnet_to nc_ix) = [p_1_0; p_1_1] /\
  (* the same spelling again is a clash, a third spelling is not *)
  snd (step ex_cfg nc_ix (OAdd (nc_client 3 [99] [p_1_1]))) = ESubnet /\
  snd (step ex_cfg nc_ix (OAdd (nc_client 3 [99] [p_1_200]))) = EOk /\
  (* who answers for 192.168.1.77: b (1.0 sorts before 1.1); after b is removed
     or respelled away: a; after a is removed: b *)
  find_by_ip nc_ix a77 = Some 2 /\
  find_by_ip (fst (step ex_cfg nc_ix (ORemove [98]))) a77 = Some 1 /\
  find_by_ip (fst (step ex_cfg nc_ix (ORemove [97]))) a77 = Some 2 /\
  find_by_ip (fst (step ex_cfg nc_ix (OUpdate [98] (nc_client 9 [98] [([10;0;0;0], 8)])))) a77 = Some 1 /\
  find_by_ip (fst (step ex_cfg nc_ix (OUpdate [98] (nc_client 9 [98] [p_1_200])))) a77 = Some 1 /\
  find_by_ip (fst (step ex_cfg nc_ix (OUpdate [97] (nc_client 9 [100] [p_1_1])))) a77 = Some 2 /\
  zget a77 (ip_to (fst (step ex_cfg nc_ix (ORemove [98])))) = None.
Proof.
  split; [apply index_consistent|].
  split; [repeat split|].
  split; [discriminate|].
  vm_compute. repeat split; try reflexivity; eexists; (split; [reflexivity|cbn; auto]).
Qed.

(** ** The other reading of "identifier"

    If a CIDR identifier is read as the NETWORK it denotes, "no two clients
    share an identifier" would say that two stored clients never hold prefixes
    of the same network.  The registry (exact-prefix clash test) does not
    guarantee that: *)
Definition networks_disjoint_statement : Prop :=
  forall cfg ops p1 p2 u1 u2,
    let ix := run cfg ops empty_index in
    owner_of ix c_subnets p1 u1 -> owner_of ix c_subnets p2 u2 -> same_network p1 p2 -> u1 = u2.

Lemma networks_disjoint_refuted : ~ networks_disjoint_statement.
Proof.
  intros H.
  assert (E : (1 : uid) = 2); [|discriminate].
  apply (H ex_cfg nc_ops p_1_1 p_1_0 1 2).
  - vm_compute. eexists; split; [reflexivity|cbn; auto].
  - vm_compute. eexists; split; [reflexivity|cbn; auto].
  - repeat split.
Qed.

(** ... while for canonical prefixes the two readings coincide: equal networks
    spelled canonically are equal keys, so the exact test suffices. *)
Definition canonical (p : prefix) : Prop := masked p = p.

Lemma take_bits_cons n b l :
  take_bits n (b :: l) =
  if n =? 0 then [] else if n <? 8 then [b / 2 ^ (8 - n)] else b :: take_bits (n - 8) l.
Proof. reflexivity. Qed.
Lemma mask_bits_cons n b l :
  mask_bits n (b :: l) =
  if n =? 0 then 0 :: mask_bits 0 l else
  if n <? 8 then (b / 2 ^ (8 - n)) * 2 ^ (8 - n) :: mask_bits 0 l else b :: mask_bits (n - 8) l.
Proof. reflexivity. Qed.

Lemma take_bits_mask_inj l1 : forall l2 n,
  length l1 = length l2 -> take_bits n l1 = take_bits n l2 -> mask_bits n l1 = mask_bits n l2.
Proof.
  induction l1 as [|b1 l1 IH]; destruct l2 as [|b2 l2]; intros n Hl Ht; cbn in Hl; try discriminate; [reflexivity|].
  rewrite !take_bits_cons in Ht. rewrite !mask_bits_cons.
  assert (Hz : forall k1 k2 : bytes, length k1 = length k2 -> mask_bits 0 k1 = mask_bits 0 k2).
  { clear. induction k1 as [|x k1 IHk]; destruct k2 as [|y k2]; cbn; intros Hl; try discriminate; [reflexivity|].
    f_equal. apply IHk. congruence. }
  destruct (n =? 0) eqn:E0.
  - f_equal. apply Hz. congruence.
  - destruct (n <? 8) eqn:E8.
    + assert (Hq : b1 / 2 ^ (8 - n) = b2 / 2 ^ (8 - n)) by congruence.
      rewrite Hq. f_equal. apply Hz. congruence.
    + assert (Hb : b1 = b2) by congruence.
      assert (Hr : take_bits (n - 8) l1 = take_bits (n - 8) l2) by congruence.
      subst b2. f_equal. apply IH; congruence.
Qed.

Lemma canonical_same_network_eq p q : canonical p -> canonical q -> same_network p q -> p = q.
Proof.
  destruct p as [a n], q as [b m]. unfold canonical, masked, same_network; cbn [fst snd].
  intros Hp Hq (<- & Hl & Ht).
  inversion Hp as [Ha]. inversion Hq as [Hb]. rewrite Ha, Hb.
  f_equal. rewrite <- Ha, <- Hb. apply take_bits_mask_inj; assumption.
Qed.

Lemma canonical_networks_disjoint ix p1 p2 u1 u2 :
  Inv ix -> canonical p1 -> canonical p2 ->
  owner_of ix c_subnets p1 u1 -> owner_of ix c_subnets p2 u2 -> same_network p1 p2 -> u1 = u2.
Proof.
  intros HI C1 C2 O1 O2 Hs. rewrite (canonical_same_network_eq p1 p2 C1 C2 Hs) in O1.
  destruct (owners_unique ix HI) as (_ & _ & _ & _ & Us). eapply Us; eassumption.
Qed.

Lemma example_canonical :
  canonical p_1_0 /\ ~ canonical p_1_1 /\
  owner_of (run ex_cfg [OAdd (nc_client 1 [97] [p_1_0])] empty_index) c_subnets p_1_0 1.
Proof.
  split; [reflexivity|]. split; [discriminate|].
  vm_compute. eexists; split; [reflexivity|cbn; auto].
Qed.

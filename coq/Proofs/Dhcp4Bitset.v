(** C10: the word / bit arithmetic of bitset.go (Model/Dhcp4Bitset.v) refines
    the abstract leased-offset set of Model/Dhcp4.v (a function N -> bool
    updated with [upd]). *)
From Coq Require Import NArith ZArith Bool Lia.
From AGH Require Import Model.Dhcp4 Model.Dhcp4Bitset.
Local Open Scope N_scope.

Ltac Zify.zify_post_hook ::= Z.to_euclidean_division_equations.

(** Testing a word against the mask [1 << b] reads bit [b]. *)
Lemma land_mask_testbit w b : negb (N.land w (N.shiftl 1 b) =? 0) = N.testbit w b.
Proof.
  rewrite N.shiftl_1_l.
  destruct (N.testbit w b) eqn:E.
  - apply negb_true_iff, N.eqb_neq. intros H.
    assert (T : N.testbit (N.land w (2 ^ b)) b = true).
    { rewrite N.land_spec, E, N.pow2_bits_true. reflexivity. }
    rewrite H in T. rewrite N.bits_0 in T. discriminate.
  - apply negb_false_iff, N.eqb_eq. apply N.bits_inj. intros k.
    rewrite N.land_spec, N.bits_0, N.pow2_bits_eqb.
    destruct (N.eqb_spec b k) as [->|]; [rewrite E; reflexivity|apply andb_false_r].
Qed.

Lemma testbit_set_mask w b k : N.testbit (N.lor w (N.shiftl 1 b)) k = N.testbit w k || (b =? k).
Proof. rewrite N.lor_spec, N.shiftl_1_l, N.pow2_bits_eqb. reflexivity. Qed.

Lemma testbit_clear_mask w b k : N.testbit (N.ldiff w (N.shiftl 1 b)) k = N.testbit w k && negb (b =? k).
Proof. rewrite N.ldiff_spec, N.shiftl_1_l, N.pow2_bits_eqb. reflexivity. Qed.

(** Two indices in the same word at the same position are the same index. *)
Lemma index_split n m : n / 64 = m / 64 -> n mod 64 = m mod 64 -> n = m.
Proof. intros H1 H2. rewrite (N.div_mod n 64), (N.div_mod m 64) by lia. rewrite H1, H2. reflexivity. Qed.

(** set then isSet: the bit written reads back ... *)
Theorem set_is_set s n v : s <> None -> is_set (set s n v) n = v.
Proof.
  destruct s as [ws|]; [intros _|congruence]. unfold is_set, set, bits_per_word.
  rewrite N.eqb_refl. rewrite land_mask_testbit.
  destruct v.
  - rewrite testbit_set_mask, N.eqb_refl. apply orb_true_r.
  - rewrite testbit_clear_mask, N.eqb_refl. apply andb_false_r.
Qed.

(** ... and every other bit, of the same word or of another, is unchanged. *)
Theorem set_other s n v m : m <> n -> is_set (set s n v) m = is_set s m.
Proof.
  intros Hne. destruct s as [ws|]; [|reflexivity]. unfold is_set, set, bits_per_word.
  destruct (N.eqb_spec (m / 64) (n / 64)) as [Ew|]; [|reflexivity].
  assert (Hb : (n mod 64 =? m mod 64) = false).
  { apply N.eqb_neq. intros Eb. apply Hne. apply index_split; auto. }
  rewrite Ew. rewrite land_mask_testbit.
  destruct (ws (n / 64)) as [w|]; destruct v;
    rewrite ?testbit_set_mask, ?testbit_clear_mask, ?land_mask_testbit, Hb, ?N.bits_0; cbn;
    rewrite ?orb_false_r, ?andb_true_r; reflexivity.
Qed.

(** A nil set is empty and ignores writes. *)
Theorem nil_is_empty n v m : is_set (set None n v) m = false.
Proof. reflexivity. Qed.

Theorem new_is_empty n : is_set new_bitset n = false.
Proof. reflexivity. Qed.

(** Refinement: read through [is_set], the bit set is the abstract
    leased-offset set of Model/Dhcp4.v, and [set] is [upd]. *)
Definition abs (s : bitset) : N -> bool := is_set s.

Theorem set_refines_upd s n v m : s <> None -> abs (set s n v) m = upd (abs s) n v m.
Proof.
  intros Hs. unfold abs, upd. destruct (N.eqb_spec m n) as [->|Hne].
  - apply set_is_set; auto.
  - apply set_other; auto.
Qed.

Theorem new_refines_empty m : abs new_bitset m = offs empty_index m.
Proof. reflexivity. Qed.

(** Every stored word fits 64 bits: no truncation in the code's uint64
    arithmetic. *)
Definition wf (s : bitset) : Prop :=
  match s with Some ws => forall i w, ws i = Some w -> w < 2 ^ 64 | None => True end.

Lemma wf_new : wf new_bitset.
Proof. cbn. discriminate. Qed.

Lemma lt_pow2_bits w k : (forall j, k <= j -> N.testbit w j = false) -> w < 2 ^ k.
Proof.
  intros H. destruct (N.eq_dec w 0) as [->|Hn]; [apply N.neq_0_lt_0, N.pow_nonzero; lia|].
  apply N.log2_lt_pow2; [lia|].
  destruct (N.lt_ge_cases (N.log2 w) k) as [|Hge]; auto.
  pose proof (N.bit_log2 w Hn) as B. rewrite (H _ Hge) in B. discriminate.
Qed.

Lemma bits_above w k j : w < 2 ^ k -> k <= j -> N.testbit w j = false.
Proof.
  intros Hw Hj. destruct (N.eq_dec w 0) as [->|Hn]; [apply N.bits_0|].
  apply N.bits_above_log2. apply N.log2_lt_pow2 in Hw; lia.
Qed.

Theorem wf_set s n v : wf s -> wf (set s n v).
Proof.
  destruct s as [ws|]; [|auto]. unfold wf, set, bits_per_word. intros H i w.
  destruct (N.eqb_spec i (n / 64)) as [->|]; [|apply H].
  intros E; inversion E; subst; clear E.
  assert (Hb : n mod 64 < 64) by (apply N.mod_lt; lia).
  assert (H0 : forall j, 64 <= j ->
            N.testbit (match ws (n / 64) with Some w => w | None => 0 end) j = false).
  { intros j Hj. destruct (ws (n / 64)) as [w|] eqn:Ew; [|apply N.bits_0].
    eapply bits_above; [eapply H; eauto|exact Hj]. }
  destruct v; apply lt_pow2_bits; intros j Hj;
    change (N.pos (Pos.shiftl 1 (n mod 64))) with (N.shiftl 1 (n mod 64)).
  - rewrite testbit_set_mask, (H0 j Hj). apply N.eqb_neq. lia.
  - rewrite testbit_clear_mask, (H0 j Hj). reflexivity.
Qed.

(** Non-vacuity: bits 0, 63, 64 and 130 set, 63 cleared again. *)
Example bitset_example :
  let s := set (set (set (set (set new_bitset 0 true) 63 true) 64 true) 130 true) 63 false in
  is_set s 0 = true /\ is_set s 63 = false /\ is_set s 64 = true /\ is_set s 130 = true /\
  is_set s 1 = false /\ is_set s 128 = false /\ s <> None.
Proof. vm_compute. repeat split; discriminate. Qed.

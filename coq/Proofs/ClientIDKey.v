(** C16 (round 8): the hand-over is exact as long as the key is INJECTIVE on
    the RequestIDs in play; the code's 8-byte key is, a 4-byte key is not
    (Model/ClientIDKey.v over C04's cache model). *)
From Coq Require Import List NArith Bool Arith Lia.
From AGH Require Import Base.Run Base.Bytes Model.ClientID Model.ClientIDCache Proofs.ClientIDCache
  Model.ClientIDKey.
Import ListNotations.
Local Open Scope N_scope.

(** * The key bytes *)

Lemma be_value_snoc b x : be_value (b ++ [x]) = be_value b * 256 + x.
Proof. unfold be_value. rewrite fold_left_app. reflexivity. Qed.

Lemma be_value_be_bytes len : forall n, be_value (be_bytes len n) = n mod 256 ^ N.of_nat len.
Proof.
  induction len as [|l IH]; intros n.
  - cbn. rewrite N.mod_1_r. reflexivity.
  - cbn [be_bytes]. rewrite be_value_snoc, IH.
    rewrite Nat2N.inj_succ, N.pow_succ_r'.
    rewrite (N.mod_mul_r n 256 (256 ^ N.of_nat l)) by (try apply N.pow_nonzero; discriminate).
    lia.
Qed.

Theorem key64_bytes_value rid : be_value (key64_bytes rid) = key64 rid.
Proof. unfold key64_bytes, key64. rewrite be_value_be_bytes. reflexivity. Qed.

Theorem key32_bytes_value rid : be_value (key32_bytes rid) = key32 rid.
Proof. unfold key32_bytes, key32. rewrite be_value_be_bytes. reflexivity. Qed.

(** The code's key is injective on uint64. *)
Theorem key64_injective r1 r2 :
  r1 < 2 ^ 64 -> r2 < 2 ^ 64 -> key64_bytes r1 = key64_bytes r2 -> r1 = r2.
Proof.
  intros H1 H2 E. apply (f_equal be_value) in E. rewrite !key64_bytes_value in E.
  unfold key64 in E. rewrite !N.mod_small in E by assumption. exact E.
Qed.

Lemma key64_small r : r < 2 ^ 64 -> key64 r = r.
Proof. intros H. apply N.mod_small, H. Qed.

(** * The hand-over under a key function *)

Lemma touches_keyed kf rid e :
  (ev_rid e <> rid -> kf (ev_rid e) <> kf rid) -> ev_rid e <> rid -> ~ touches (kf rid) (keyed kf e).
Proof. intros Hi Hn. destruct e; cbn in *; auto. Qed.

(** Whatever the key function: if it keeps the id of this request apart from
    the ids of the other requests in play, processInitial reads exactly what
    HandleBefore of the same request extracted, a ClientID or none. *)
Theorem handover_exact_keyed cf kf evs1 evs2 rid cid :
  fits cf cid ->
  (forall e, In e (evs1 ++ evs2) -> ev_rid e <> rid) ->
  (forall e, In e (evs1 ++ evs2) -> kf (ev_rid e) <> kf rid) ->
  (length evs2 < cc_max_count cf)%nat ->
  seen_keyed cf kf (evs1 ++ EvBefore rid cid :: evs2) rid = cid.
Proof.
  intros Hf Hd Hi Hn. unfold seen_keyed. rewrite map_app. cbn [map keyed].
  apply handover_exact; [exact Hf| | |rewrite map_length; exact Hn].
  - intros e He. apply in_map_iff in He as (e0 & <- & He0).
    apply touches_keyed; [intros _|]; [apply Hi|apply Hd]; apply in_or_app; left; exact He0.
  - intros e He. apply in_map_iff in He as (e0 & <- & He0).
    apply touches_keyed; [intros _|]; [apply Hi|apply Hd]; apply in_or_app; right; exact He0.
Qed.

(** The code's key: RequestIDs are uint64 and the requests' own. *)
Theorem handover_exact_code evs1 evs2 rid cid :
  rid < 2 ^ 64 -> (forall e, In e (evs1 ++ evs2) -> ev_rid e < 2 ^ 64) ->
  (forall e, In e (evs1 ++ evs2) -> ev_rid e <> rid) ->
  (length evs2 < 1024)%nat ->
  seen_keyed server_cache_conf key64 (evs1 ++ EvBefore rid cid :: evs2) rid = cid.
Proof.
  intros Hr Hs Hd Hn. apply handover_exact_keyed; [exact I|exact Hd| |exact Hn].
  intros e He. rewrite (key64_small _ Hr), (key64_small _ (Hs e He)). apply Hd, He.
Qed.

(** In particular a request that extracted no ClientID (every plain and
    DNSCrypt request) is processed with none, however large the ids are. *)
Corollary plain_never_id_code evs1 evs2 rid :
  rid < 2 ^ 64 -> (forall e, In e (evs1 ++ evs2) -> ev_rid e < 2 ^ 64) ->
  (forall e, In e (evs1 ++ evs2) -> ev_rid e <> rid) ->
  (length evs2 < 1024)%nat ->
  seen_keyed server_cache_conf key64 (evs1 ++ EvBefore rid [] :: evs2) rid = [].
Proof. apply handover_exact_code. Qed.

(** The premise of injectivity cannot be dropped: with the low 32 bits as the
    key, request k + 2^32 (plain: it extracted nothing) is processed with the
    ClientID of request k, one event earlier. *)
Definition w_alice : bytes := [97;108;105;99;101].

Theorem key32_refuted :
  exists k evs1 rid,
    rid < 2 ^ 64 /\ (forall e, In e evs1 -> ev_rid e < 2 ^ 64 /\ ev_rid e <> rid) /\
    evs1 = [EvBefore k w_alice; EvInitial k] /\ rid = k + 2 ^ 32 /\
    seen_keyed server_cache_conf key32 (evs1 ++ [EvBefore rid []]) rid = w_alice /\
    seen_keyed server_cache_conf key64 (evs1 ++ [EvBefore rid []]) rid = [].
Proof.
  exists 1234, [EvBefore 1234 w_alice; EvInitial 1234], (1234 + 2 ^ 32).
  split; [reflexivity|]. split.
  { intros e [<-|[<-|[]]]; cbn; split; (reflexivity || discriminate). }
  split; [reflexivity|]. split; [reflexivity|]. vm_compute. split; reflexivity.
Qed.

(** Not vacuous: ids around 2^32 and at the top of uint64 are handed over
    exactly by the code's key. *)
Example ex_large_ids :
  seen_keyed server_cache_conf key64
    [EvBefore (2 ^ 32 - 1) w_alice; EvBefore (2 ^ 32) []; EvBefore (2 ^ 32 + 1) [98]; EvBefore (2 ^ 64 - 1) [99]]
    (2 ^ 64 - 1) = [99] /\
  seen_keyed server_cache_conf key64 [EvBefore 7 w_alice; EvBefore (7 + 2 ^ 33) []] (7 + 2 ^ 33) = [] /\
  key64_bytes (2 ^ 32 + 1) = [0;0;0;1;0;0;0;1] /\ key32_bytes (2 ^ 32 + 1) = [0;0;0;1].
Proof. vm_compute. repeat split; reflexivity. Qed.

(** C07 proofs, codec part 2: what the scanner makes of a whole line written
    by [encode].

    - decimal integers: strconv's text of every integer is read back by
      [parse_int] / [parse_u16] ([parse_int_dec], [parse_u16_dec]);
    - scanning is compositional over the encoder's combinators (quoted
      strings, numbers, the literal true, fields, comma-joined lists with
      omitted members, objects, arrays): [scans x tl] says that [x], read from
      between two tokens, yields the tokens [tl], the last of them possibly
      still open (a number or literal ends only at the separator behind it);
    - [t_encode e] is the token list of a whole entry, and
      [scan (encode e) = t_encode e] for every entry of the domain
      ([scan_encode]). *)
From Coq Require Import ZArith NArith List Bool Lia Ascii String DecimalPos.
From AGH Require Import Base.Run Model.QLogFile Model.QLog Model.QLogCodec Proofs.QLogCodec.
Import ListNotations.
Local Open Scope N_scope.

(** ** Decimal integers *)

Definition n_of_acc (d : Decimal.uint) (acc : N) : N :=
  match acc with 0 => Pos.of_uint d | N.pos a => N.pos (Pos.of_uint_acc d a) end.

Lemma dv_step c r acc : in_r 48 57 c = true ->
  digits_val (c :: r) acc = digits_val r (acc * 10 + (c - 48)).
Proof. intro H. cbn [digits_val]. rewrite H. reflexivity. Qed.

Lemma n_of_acc_step (k : N) (kp : positive) (d dk : Decimal.uint) acc :
  (forall a, Pos.of_uint_acc dk a = Pos.of_uint_acc d (kp + 10 * a)) ->
  Pos.of_uint dk = N.pos (Pos.of_uint_acc d kp) -> k = N.pos kp ->
  n_of_acc d (acc * 10 + k) = n_of_acc dk acc.
Proof.
  intros H1 H2 ->. destruct acc as [|a]; cbn [n_of_acc].
  - rewrite H2. reflexivity.
  - rewrite H1. replace (N.pos a * 10 + N.pos kp) with (N.pos (kp + 10 * a)) by lia. reflexivity.
Qed.

Lemma digits_val_uint : forall d acc, digits_val (uint_bytes d) acc = Some (n_of_acc d acc).
Proof.
  induction d; intro acc; cbn [uint_bytes]; try (rewrite dv_step by reflexivity; rewrite IHd; f_equal).
  - destruct acc; reflexivity.
  - destruct acc as [|a]; cbn [n_of_acc Pos.of_uint Pos.of_uint_acc]; [reflexivity|].
    replace (N.pos a * 10 + (48 - 48)) with (N.pos (10 * a)) by lia. reflexivity.
  - apply (n_of_acc_step _ 1); reflexivity.
  - apply (n_of_acc_step _ 2); reflexivity.
  - apply (n_of_acc_step _ 3); reflexivity.
  - apply (n_of_acc_step _ 4); reflexivity.
  - apply (n_of_acc_step _ 5); reflexivity.
  - apply (n_of_acc_step _ 6); reflexivity.
  - apply (n_of_acc_step _ 7); reflexivity.
  - apply (n_of_acc_step _ 8); reflexivity.
  - apply (n_of_acc_step _ 9); reflexivity.
Qed.

Lemma digits_val_pos p : digits_val (uint_bytes (Pos.to_uint p)) 0 = Some (N.pos p).
Proof. rewrite digits_val_uint. cbn [n_of_acc]. f_equal. apply DecimalPos.Unsigned.of_to. Qed.

Lemma uint_bytes_digits d : forallb (in_r 48 57) (uint_bytes d) = true.
Proof. induction d; cbn [uint_bytes forallb]; auto. Qed.

Lemma uint_bytes_nonnil d : d <> Decimal.Nil -> uint_bytes d <> [].
Proof. destruct d; cbn; congruence. Qed.

(** A non-empty digit string has no sign. *)
Lemma parse_int_digits s : s <> [] -> forallb (in_r 48 57) s = true ->
  parse_int s = match digits_val s 0 with
                | None => None
                | Some n => if ((- 2 ^ 63 <=? Z.of_N n) && (Z.of_N n <? 2 ^ 63))%Z then Some (Z.of_N n) else None
                end.
Proof.
  intros Hne Hd. destruct s as [|c r]; [congruence|]. cbn [forallb] in Hd.
  apply andb_true_iff in Hd as [Hc _]. unfold in_r in Hc. apply andb_true_iff in Hc as [H1 H2].
  apply N.leb_le in H1, H2.
  assert (Hcases : c = 48 \/ c = 49 \/ c = 50 \/ c = 51 \/ c = 52 \/ c = 53 \/ c = 54 \/ c = 55 \/ c = 56 \/ c = 57) by lia.
  repeat (destruct Hcases as [->|Hcases]; [reflexivity|]). subst. reflexivity.
Qed.

Definition int64_b (z : Z) : Prop := (- 2 ^ 63 <= z < 2 ^ 63)%Z.

Theorem parse_int_dec z : int64_b z -> parse_int (dec_bytes z) = Some z.
Proof.
  intro Hz. unfold int64_b in Hz. destruct z as [|p|p]; [reflexivity| |].
  - unfold dec_bytes. rewrite parse_int_digits
      by (try apply uint_bytes_nonnil, Unsigned.to_uint_nonnil; apply uint_bytes_digits).
    rewrite digits_val_pos.
    replace ((- 2 ^ 63 <=? Z.of_N (N.pos p)) && (Z.of_N (N.pos p) <? 2 ^ 63))%Z with true; [reflexivity|].
    symmetry. apply andb_true_iff. split; [apply Z.leb_le|apply Z.ltb_lt]; cbn [Z.of_N]; lia.
  - unfold dec_bytes.
    assert (E : parse_int (45 :: uint_bytes (Pos.to_uint p)) =
                match uint_bytes (Pos.to_uint p) with
                | [] => None
                | _ => match digits_val (uint_bytes (Pos.to_uint p)) 0 with
                       | None => None
                       | Some n => let z := (- Z.of_N n)%Z in
                                   if ((- 2 ^ 63 <=? z) && (z <? 2 ^ 63))%Z then Some z else None
                       end
                end) by reflexivity.
    rewrite E, digits_val_pos.
    destruct (uint_bytes (Pos.to_uint p)) eqn:Eu;
      [exfalso; revert Eu; apply uint_bytes_nonnil, Unsigned.to_uint_nonnil|].
    cbv zeta.
    replace ((- 2 ^ 63 <=? - Z.of_N (N.pos p)) && (- Z.of_N (N.pos p) <? 2 ^ 63))%Z with true; [reflexivity|].
    symmetry. apply andb_true_iff. split; [apply Z.leb_le|apply Z.ltb_lt]; cbn [Z.of_N]; lia.
Qed.

Lemma parse_or_0_dec z : int64_b z -> parse_or_0 (dec_bytes z) = z.
Proof. intro H. unfold parse_or_0. rewrite parse_int_dec; auto. Qed.

Theorem parse_u16_dec z : (0 <= z < 65536)%Z -> parse_u16 (dec_bytes z) = Some z.
Proof.
  intro Hz. destruct z as [|p|p]; [reflexivity| |lia].
  unfold dec_bytes, parse_u16. rewrite digits_val_pos.
  destruct (uint_bytes (Pos.to_uint p)) eqn:Eu;
    [exfalso; revert Eu; apply uint_bytes_nonnil, Unsigned.to_uint_nonnil|].
  replace (N.pos p <? 65536) with true by (symmetry; apply N.ltb_lt; lia). reflexivity.
Qed.

(** The text of an integer: a digit or '-' followed by digits; plain ASCII
    that the string escaper leaves alone. *)
Lemma dec_bytes_shape z : exists b r, dec_bytes z = b :: r /\
  (in_r 48 57 b || (b =? 45)) = true /\ forallb (in_r 48 57) r = true.
Proof.
  destruct z as [|p|p].
  - exists 48, []. auto.
  - unfold dec_bytes. pose proof (uint_bytes_digits (Pos.to_uint p)) as Hd.
    destruct (uint_bytes (Pos.to_uint p)) as [|b r] eqn:Eu;
      [exfalso; revert Eu; apply uint_bytes_nonnil, Unsigned.to_uint_nonnil|].
    cbn [forallb] in Hd. apply andb_true_iff in Hd as [Hb Hr]. exists b, r. rewrite Hb. auto.
  - exists 45, (uint_bytes (Pos.to_uint p)). split; [reflexivity|]. split; [reflexivity|apply uint_bytes_digits].
Qed.

Definition plain_char (b : N) : bool := in_r 48 57 b || (b =? 45).

Lemma plain_char_facts b : plain_char b = true -> (b <? 128) = true /\ esc_byte b = [b] /\ is_numchar b = true.
Proof.
  unfold plain_char, in_r. intro H.
  assert (Hc : 48 <= b <= 57 \/ b = 45).
  { apply orb_true_iff in H as [H|H]; [|apply N.eqb_eq in H; auto].
    apply andb_true_iff in H as [H1 H2]. apply N.leb_le in H1, H2. auto. }
  assert (Hd : b = 48 \/ b = 49 \/ b = 50 \/ b = 51 \/ b = 52 \/ b = 53 \/ b = 54 \/ b = 55 \/ b = 56 \/ b = 57 \/ b = 45) by lia.
  clear H Hc. repeat (destruct Hd as [->|Hd]; [repeat split; reflexivity|]). subst. repeat split; reflexivity.
Qed.

Lemma dec_bytes_plain z : forallb plain_char (dec_bytes z) = true.
Proof.
  destruct (dec_bytes_shape z) as (b & r & -> & Hb & Hr). cbn [forallb]. unfold plain_char at 1. rewrite Hb.
  cbn [andb]. rewrite forallb_forall in *. intros x Hx. unfold plain_char. rewrite (Hr _ Hx). reflexivity.
Qed.

Lemma enc_str_plain s : forallb plain_char s = true -> enc_str s = s /\ utf8_ok s = true.
Proof.
  induction s as [|b s IH]; intro H; [auto|]. cbn [forallb] in H. apply andb_true_iff in H as [Hb Hs].
  destruct (plain_char_facts _ Hb) as (H1 & H2 & _). destruct (IH Hs) as [E1 E2].
  rewrite enc_str_1, utf8_ok_1, H2, E1 by auto. auto.
Qed.

(** ** Scanning, compositionally *)

Definition btw (ts : list token) : sst := {| toks := ts; md := MBetween |}.

(** Bytes that follow a value in a line: comma, closing brace, closing bracket. *)
Definition sep_b (c : N) : bool := (c =? 44) || (c =? 125) || (c =? 93).

(** [st] has read the tokens [ts] (newest first), the newest possibly still
    open: the next separator closes it. *)
Definition ends (ts : list token) (st : sst) : Prop :=
  forall c, sep_b c = true -> sstep st c = step_between ts c.

Definition scans (x : bytes) (tl : list token) : Prop :=
  forall ts, ends (rev tl ++ ts) (srun x (btw ts)).

Lemma ends_btw ts : ends ts (btw ts).
Proof. intros c _. reflexivity. Qed.

Lemma sep_cases c : sep_b c = true -> c = 44 \/ c = 125 \/ c = 93.
Proof.
  unfold sep_b. intro H. repeat (apply orb_true_iff in H as [H|H]); apply N.eqb_eq in H; auto.
Qed.

Lemma scans_nil : scans [] [].
Proof. intros ts. apply ends_btw. Qed.

Lemma scans_nil_inv t : scans [] t -> t = [].
Proof.
  intro H. specialize (H [] 125 eq_refl). cbn in H. rewrite app_nil_r in H.
  unfold tpush in H. injection H as H. destruct t as [|a t]; [reflexivity|].
  exfalso. cbn [rev] in H. destruct (rev t); discriminate.
Qed.

Lemma scans_quote s : utf8_ok s = true -> scans (quote s) [TStr s].
Proof. intros H ts. fold (srun (quote s) (btw ts)). unfold btw. rewrite scan_quote by auto. apply ends_btw. Qed.

(** Two values with a comma between them. *)
Lemma scans_comma x y t1 t2 : scans x t1 -> scans y t2 -> scans (x ++ 44 :: y) (t1 ++ t2).
Proof.
  intros Hx Hy ts. rewrite run_app. change (srun (44 :: y) ?st) with (srun y (sstep st 44)).
  rewrite (Hx ts 44 eq_refl). change (step_between (rev t1 ++ ts) 44) with (btw (rev t1 ++ ts)).
  rewrite rev_app_distr, <- app_assoc. apply Hy.
Qed.

(** A field is scanned as its tokens and is omitted only with them. *)
Definition fscans (f : bytes) (tf : list token) : Prop := scans f tf /\ (f = [] -> tf = []).

Lemma scans_join fs tfs : Forall2 fscans fs tfs -> scans (join_fields fs) (concat tfs).
Proof.
  induction 1 as [|f tf fs tfs [Hf Hn] _ IH]; [apply scans_nil|].
  cbn [join_fields concat]. destruct f as [|b f'].
  - rewrite (Hn eq_refl). exact IH.
  - cbn [is_nil]. destruct (join_fields fs) as [|c rest] eqn:E.
    + rewrite (scans_nil_inv _ IH), app_nil_r. exact Hf.
    + apply scans_comma; auto.
Qed.

(** A value that ends with its own last byte (string, object, array). *)
Definition cscans (x : bytes) (tl : list token) : Prop :=
  forall ts, srun x (btw ts) = btw (rev tl ++ ts).

Lemma cscans_scans x tl : cscans x tl -> scans x tl.
Proof. intros H ts. rewrite H. apply ends_btw. Qed.

Lemma cscans_wrap (o c : N) J tj :
  (forall ts, sstep (btw ts) o = btw (TDelim o :: ts)) ->
  sep_b c = true -> (forall ts, step_between ts c = btw (TDelim c :: ts)) ->
  scans J tj -> cscans (o :: J ++ [c]) (TDelim o :: tj ++ [TDelim c]).
Proof.
  intros Ho Hc Hc' HJ ts. change (srun (o :: J ++ [c]) (btw ts)) with (srun (J ++ [c]) (sstep (btw ts) o)).
  rewrite Ho, run_app. change (srun [c] ?st) with (sstep st c).
  rewrite (HJ _ c Hc), Hc'. f_equal.
  cbn [rev]. rewrite rev_app_distr. cbn [rev app]. rewrite <- app_assoc. reflexivity.
Qed.

Lemma cscans_obj fs tfs : Forall2 fscans fs tfs ->
  cscans (obj fs) (TDelim 123 :: concat tfs ++ [TDelim 125]).
Proof.
  intro H. unfold obj. apply cscans_wrap; try reflexivity. apply scans_join; auto.
Qed.

Lemma scans_obj fs tfs : Forall2 fscans fs tfs ->
  scans (obj fs) (TDelim 123 :: concat tfs ++ [TDelim 125]).
Proof. intro H. apply cscans_scans, cscans_obj; auto. Qed.

Lemma scans_arr vs tvs : Forall2 fscans vs tvs ->
  scans (arr vs) (TDelim 91 :: concat tvs ++ [TDelim 93]).
Proof.
  intro H. unfold arr. apply cscans_scans, cscans_wrap; try reflexivity. apply scans_join; auto.
Qed.

(** A key (plain text that the escaper leaves alone), a colon, a value. *)
Lemma scans_key kb v tv : enc_str kb = kb -> utf8_ok kb = true -> scans v tv ->
  scans (34 :: kb ++ 34 :: 58 :: v) (TStr kb :: tv).
Proof.
  intros Hk Hu Hv ts.
  replace (34 :: kb ++ 34 :: 58 :: v) with (quote kb ++ 58 :: v)
    by (unfold quote; rewrite Hk; cbn [app]; rewrite <- app_assoc; reflexivity).
  rewrite run_app. unfold btw at 1. rewrite scan_quote by auto.
  change (srun (58 :: v) ?st) with (srun v (sstep st 58)).
  change (sstep {| toks := TStr kb :: ts; md := MBetween |} 58) with (btw (TStr kb :: ts)).
  cbn [rev]. rewrite <- app_assoc. apply Hv.
Qed.

(** Numbers. *)
Lemma run_num r : forallb is_numchar r = true -> forall ts acc,
  srun r {| toks := ts; md := MNum acc |} = {| toks := ts; md := MNum (rev r ++ acc) |}.
Proof.
  induction r as [|b r IH]; intros H ts acc; [reflexivity|]. cbn [forallb] in H.
  apply andb_true_iff in H as [Hb Hr].
  change (srun (b :: r) ?st) with (srun r (sstep st b)). unfold sstep at 1. cbn [md toks]. rewrite Hb.
  rewrite IH by auto. cbn [rev]. rewrite <- app_assoc. reflexivity.
Qed.

Lemma sep_not_num c : sep_b c = true -> is_numchar c = false /\ is_lower c = false.
Proof. intro H. destruct (sep_cases _ H) as [->|[->| ->]]; split; reflexivity. Qed.

Lemma scans_num z : scans (dec_bytes z) [TNum (dec_bytes z)].
Proof.
  intros ts. destruct (dec_bytes_shape z) as (b & r & E & Hb & Hr). rewrite E.
  change (srun (b :: r) (btw ts)) with (srun r (sstep (btw ts) b)).
  assert (Hs : sstep (btw ts) b = {| toks := ts; md := MNum [b] |}).
  { unfold sstep, btw. cbn [md toks]. unfold step_between.
    assert (Hp : plain_char b = true) by exact Hb.
    assert (Hd : b = 48 \/ b = 49 \/ b = 50 \/ b = 51 \/ b = 52 \/ b = 53 \/ b = 54 \/ b = 55 \/ b = 56 \/ b = 57 \/ b = 45).
    { unfold plain_char, in_r in Hp. apply orb_true_iff in Hp as [H|H]; [|apply N.eqb_eq in H; lia].
      apply andb_true_iff in H as [H1 H2]. apply N.leb_le in H1, H2. lia. }
    repeat (destruct Hd as [->|Hd]; [reflexivity|]). subst. reflexivity. }
  rewrite Hs, run_num.
  - intros c Hc. unfold sstep. cbn [md toks]. destruct (sep_not_num _ Hc) as [-> _].
    rewrite rev_app_distr, rev_involutive. reflexivity.
  - rewrite forallb_forall in *. intros x Hx.
    apply (plain_char_facts x). unfold plain_char. rewrite (Hr _ Hx). reflexivity.
Qed.

(** The literal true. *)
Lemma scans_true : scans (B "true") [TBool true].
Proof.
  intros ts c Hc. change (srun (B "true") (btw ts)) with {| toks := ts; md := MLit [101; 117; 114; 116] |}.
  unfold sstep. cbn [md toks]. destruct (sep_not_num _ Hc) as [_ ->]. reflexivity.
Qed.

(** *** Fields *)
Lemma fscans_fld k v tv : enc_str (B k) = B k -> utf8_ok (B k) = true -> scans v tv ->
  fscans (fld k v) (TStr (B k) :: tv).
Proof. intros H1 H2 Hv. split; [apply scans_key; auto|discriminate]. Qed.

Definition t_str_opt (k : string) (s : bytes) : list token := if is_nil s then [] else [TStr (B k); TStr s].
Definition t_int_opt (k : string) (z : Z) : list token := if (z =? 0)%Z then [] else [TStr (B k); TNum (dec_bytes z)].
Definition t_true_opt (k : string) (b : bool) : list token := if b then [TStr (B k); TBool true] else [].

Lemma fscans_nil : fscans [] [].
Proof. split; [apply scans_nil|auto]. Qed.

Lemma fscans_str_opt k s : enc_str (B k) = B k -> utf8_ok (B k) = true -> utf8_ok s = true ->
  fscans (fld_str_opt k s) (t_str_opt k s).
Proof.
  intros H1 H2 Hs. unfold fld_str_opt, t_str_opt. destruct (is_nil s); [apply fscans_nil|].
  apply fscans_fld; auto. apply scans_quote; auto.
Qed.

Lemma fscans_int_opt k z : enc_str (B k) = B k -> utf8_ok (B k) = true ->
  fscans (fld_int_opt k z) (t_int_opt k z).
Proof.
  intros H1 H2. unfold fld_int_opt, t_int_opt. destruct (z =? 0)%Z; [apply fscans_nil|].
  apply fscans_fld; auto. apply scans_num.
Qed.

Lemma fscans_true_opt k b : enc_str (B k) = B k -> utf8_ok (B k) = true ->
  fscans (fld_true_opt k b) (t_true_opt k b).
Proof.
  intros H1 H2. unfold fld_true_opt, t_true_opt. destruct b; [|apply fscans_nil].
  apply fscans_fld; auto. apply scans_true.
Qed.

Lemma fscans_of_scans x t : scans x t -> x <> [] -> fscans x t.
Proof. intros H Hn. split; [auto|congruence]. Qed.

Lemma Forall2_map_l {A B C} (R : B -> C -> Prop) (f : A -> B) (g : A -> C) (l : list A) :
  Forall (fun a => R (f a) (g a)) l -> Forall2 R (map f l) (map g l).
Proof. induction 1; cbn; constructor; auto. Qed.

(** ** The tokens of an entry *)
Definition t_rule (r : crule) : list token :=
  TDelim 123 :: concat [t_str_opt "Text" (cr_text r); [TStr (B "IP"); TStr (cr_ip r)];
                        t_int_opt "FilterListID" (cr_id r)] ++ [TDelim 125].

Definition rrv_text (v : rrv) : bytes := match v with RS s => s | _ => [] end.
Definition is_rs (v : rrv) : Prop := match v with RS _ => True | _ => False end.

Definition t_kv (kv : Z * list rrv) : list token :=
  TStr (dec_bytes (fst kv)) :: TDelim 91 :: concat (map (fun v => [TStr (rrv_text v)]) (snd kv)) ++ [TDelim 93].

Definition t_resp (m : list (Z * list rrv)) : list token :=
  TDelim 123 :: concat (map t_kv m) ++ [TDelim 125].

Definition t_rw (w : rewrite) : list token :=
  TDelim 123 :: concat [if is_nil (rw_resp w) then [] else TStr (B "Response") :: t_resp (rw_resp w);
                        t_int_opt "RCode" (rw_rcode w)] ++ [TDelim 125].

Definition t_iplist (l : list bytes) : list token :=
  TDelim 91 :: concat (map (fun a => [TStr a]) l) ++ [TDelim 93].

Definition t_rules (l : list crule) : list token :=
  TDelim 91 :: concat (map t_rule l) ++ [TDelim 93].

Definition t_result_fields (e : centry) : list (list token) :=
  [match ce_rw e with Some w => TStr (B "DNSRewriteResult") :: t_rw w | None => [] end;
   t_str_opt "CanonName" (slot e sCanon);
   t_str_opt "ServiceName" (slot e sSvc);
   if is_nil (ce_iplist e) then [] else TStr (B "IPList") :: t_iplist (ce_iplist e);
   if is_nil (ce_rules e) then [] else TStr (B "Rules") :: t_rules (ce_rules e);
   t_int_opt "Reason" (ival e iReason);
   t_true_opt "IsFiltered" (fval e fFiltered)].

Definition t_result (e : centry) : list token :=
  TDelim 123 :: concat (t_result_fields e) ++ [TDelim 125].

Definition t_fields (e : centry) : list (list token) :=
  [[TStr (B "T"); TStr (slot e sT)];
   [TStr (B "QH"); TStr (slot e sQH)];
   [TStr (B "QT"); TStr (slot e sQT)];
   [TStr (B "QC"); TStr (slot e sQC)];
   t_str_opt "ECS" (slot e sECS);
   t_str_opt "CID" (slot e sCID);
   [TStr (B "CP"); TStr (slot e sCP)];
   t_str_opt "Upstream" (slot e sUp);
   t_str_opt "Answer" (slot e sAns);
   t_str_opt "OrigAnswer" (slot e sOrig);
   [TStr (B "IP"); TStr (slot e sIP)];
   TStr (B "Result") :: t_result e;
   [TStr (B "Elapsed"); TNum (dec_bytes (ival e iElapsed))];
   t_true_opt "Cached" (fval e fCached);
   t_true_opt "AD" (fval e fAD)].

Definition t_encode (e : centry) : list token :=
  TDelim 123 :: concat (t_fields e) ++ [TDelim 125].

(** The texts of an entry the scanner has to give back unchanged. *)
Definition rule_texts_ok (r : crule) : Prop := utf8_ok (cr_text r) = true /\ utf8_ok (cr_ip r) = true.

Definition texts_ok (e : centry) : Prop :=
  Forall (fun s => utf8_ok s = true) (ce_s e) /\
  Forall (fun a => utf8_ok a = true) (ce_iplist e) /\
  Forall rule_texts_ok (ce_rules e) /\
  match ce_rw e with
  | Some w => Forall (fun kv : Z * list rrv =>
                snd kv <> [] /\ Forall (fun v => is_rs v /\ utf8_ok (rrv_text v) = true) (snd kv)) (rw_resp w)
  | None => True
  end.

Ltac key_ok := try reflexivity.

Lemma slot_utf8 e i : Forall (fun s => utf8_ok s = true) (ce_s e) -> utf8_ok (slot e i) = true.
Proof.
  intro H. unfold slot. destruct (nth_in_or_default i (ce_s e) []) as [Hin| ->]; [|reflexivity].
  rewrite Forall_forall in H. auto.
Qed.

Ltac fields := repeat apply Forall2_cons; try apply Forall2_nil.

Lemma scans_rule r : rule_texts_ok r -> scans (enc_rule r) (t_rule r).
Proof.
  intros [H1 H2]. unfold enc_rule, t_rule. apply scans_obj. fields.
  - apply fscans_str_opt; key_ok; auto.
  - apply fscans_fld; key_ok. apply scans_quote; auto.
  - apply fscans_int_opt; key_ok.
Qed.

Lemma scans_kv (kv : Z * list rrv) :
  snd kv <> [] -> Forall (fun v => is_rs v /\ utf8_ok (rrv_text v) = true) (snd kv) ->
  fscans (34 :: dec_bytes (fst kv) ++ 34 :: 58 ::
          match snd kv with [] => B "null" | vs => arr (map enc_rrv vs) end) (t_kv kv).
Proof.
  intros Hne Hv. destruct (enc_str_plain _ (dec_bytes_plain (fst kv))) as [E1 E2].
  split; [|discriminate]. unfold t_kv. apply scans_key; auto.
  destruct (snd kv) as [|v0 vs] eqn:Ev; [congruence|]. rewrite <- Ev in *.
  apply scans_arr. apply Forall2_map_l. eapply Forall_impl; [|exact Hv].
  intros v [Hr Hu]. destruct v; try contradiction. cbn [enc_rrv rrv_text] in *.
  apply fscans_of_scans; [apply scans_quote; auto|discriminate].
Qed.

Lemma scans_resp m :
  Forall (fun kv : Z * list rrv =>
            snd kv <> [] /\ Forall (fun v => is_rs v /\ utf8_ok (rrv_text v) = true) (snd kv)) m ->
  scans (enc_resp m) (t_resp m).
Proof.
  intro H. unfold enc_resp, t_resp. apply scans_obj. apply Forall2_map_l.
  eapply Forall_impl; [|exact H]. intros kv [H1 H2]. apply scans_kv; auto.
Qed.

Lemma fscans_if (c : bool) x t : (c = false -> fscans x t) -> fscans (if c then [] else x) (if c then [] else t).
Proof. destruct c; [intros _; apply fscans_nil|auto]. Qed.

Lemma scans_rw w :
  Forall (fun kv : Z * list rrv =>
            snd kv <> [] /\ Forall (fun v => is_rs v /\ utf8_ok (rrv_text v) = true) (snd kv)) (rw_resp w) ->
  scans (enc_rw w) (t_rw w).
Proof.
  intro H. unfold enc_rw, t_rw. apply scans_obj. fields.
  - apply fscans_if. intros _. apply fscans_fld; key_ok. apply scans_resp; auto.
  - apply fscans_int_opt; key_ok.
Qed.

Lemma scans_result e : texts_ok e -> scans (enc_result e) (t_result e).
Proof.
  intros (Hs & Hip & Hr & Hw). unfold enc_result, t_result, t_result_fields. apply scans_obj. fields.
  - destruct (ce_rw e) as [w|]; [|apply fscans_nil]. apply fscans_fld; key_ok. apply scans_rw; auto.
  - apply fscans_str_opt; key_ok; apply slot_utf8; auto.
  - apply fscans_str_opt; key_ok; apply slot_utf8; auto.
  - apply fscans_if. intros _. apply fscans_fld; key_ok.
    apply scans_arr. apply Forall2_map_l. eapply Forall_impl; [|exact Hip].
    intros a Ha. apply fscans_of_scans; [apply scans_quote; auto|discriminate].
  - apply fscans_if. intros _. apply fscans_fld; key_ok.
    apply scans_arr. apply Forall2_map_l. eapply Forall_impl; [|exact Hr].
    intros r Hr'. apply fscans_of_scans; [apply scans_rule; auto|discriminate].
  - apply fscans_int_opt; key_ok.
  - apply fscans_true_opt; key_ok.
Qed.

Lemma fscans_encode_fields e : texts_ok e ->
  Forall2 fscans
    [fld "T" (quote (slot e sT)); fld "QH" (quote (slot e sQH)); fld "QT" (quote (slot e sQT));
     fld "QC" (quote (slot e sQC)); fld_str_opt "ECS" (slot e sECS); fld_str_opt "CID" (slot e sCID);
     fld "CP" (quote (slot e sCP)); fld_str_opt "Upstream" (slot e sUp); fld_str_opt "Answer" (slot e sAns);
     fld_str_opt "OrigAnswer" (slot e sOrig); fld "IP" (quote (slot e sIP)); fld "Result" (enc_result e);
     fld "Elapsed" (dec_bytes (ival e iElapsed)); fld_true_opt "Cached" (fval e fCached);
     fld_true_opt "AD" (fval e fAD)] (t_fields e).
Proof.
  intro H. pose proof H as (Hs & _). unfold t_fields. fields;
    try (apply fscans_str_opt; key_ok; apply slot_utf8; auto);
    try (apply fscans_true_opt; key_ok);
    try (apply fscans_fld; key_ok; try (apply scans_quote; apply slot_utf8; auto)).
  - apply scans_result; auto.
  - apply scans_num.
Qed.

(** *** The token list of a whole line *)
Theorem scan_encode e : texts_ok e -> scan (encode e) = t_encode e.
Proof.
  intro H. unfold scan, encode. fold (srun (obj [fld "T" (quote (slot e sT)); fld "QH" (quote (slot e sQH)); fld "QT" (quote (slot e sQT));
     fld "QC" (quote (slot e sQC)); fld_str_opt "ECS" (slot e sECS); fld_str_opt "CID" (slot e sCID);
     fld "CP" (quote (slot e sCP)); fld_str_opt "Upstream" (slot e sUp); fld_str_opt "Answer" (slot e sAns);
     fld_str_opt "OrigAnswer" (slot e sOrig); fld "IP" (quote (slot e sIP)); fld "Result" (enc_result e);
     fld "Elapsed" (dec_bytes (ival e iElapsed)); fld_true_opt "Cached" (fval e fCached);
     fld_true_opt "AD" (fval e fAD)]) sst0).
  change sst0 with (btw []). rewrite (cscans_obj _ _ (fscans_encode_fields e H)).
  unfold finish, btw. cbn [md toks]. rewrite app_nil_r, rev_involutive. reflexivity.
Qed.

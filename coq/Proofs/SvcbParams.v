(** C05, round 9: every hint an HTTPS / SVCB parameter handler produces has
    the address family of its key, and can therefore be packed; ports are in
    range.  For every text a rule can carry. *)
From Coq Require Import ZArith Bool List Lia.
From AGH Require Import Model.SvcbParams.
Local Open Scope Z_scope.

Definition family_of_key (v6key : bool) (h : hint) : Prop :=
  if v6key then h = Hint6 PSix else h = Hint4 PFour.

Theorem produced_hint_has_family_of_key : forall v6key p h,
  hint_handler v6key p = Some h -> family_of_key v6key h.
Proof.
  intros [|] [| |] h H; cbn in H; try discriminate; inversion H; reflexivity.
Qed.

Theorem produced_hint_packs : forall v6key p h,
  hint_handler v6key p = Some h -> hint_packs h = true.
Proof.
  intros v6key p h H. apply produced_hint_has_family_of_key in H.
  destruct v6key; cbn in H; subst h; reflexivity.
Qed.

(** the handlers are not vacuous: each key accepts its own family and nothing else *)
Theorem hint_handler_accepts : forall v6key p,
  hint_handler v6key p <> None <-> p = (if v6key then PSix else PFour).
Proof. intros [|] [| |]; cbn; split; intros H; congruence. Qed.

Theorem produced_port_in_range : forall n z,
  port_handler n = Some z -> 0 <= z <= 65535.
Proof.
  intros [x|] z; cbn; [|discriminate].
  destruct ((0 <=? x) && (x <=? 65535)) eqn:E; [|discriminate].
  intros H; inversion H; subst. apply andb_true_iff in E as [A B]. lia.
Qed.

(** The mirror image of the handlers without their family tests (seeded change
    C05-Q for ipv4hint; the clean tree before the repair for ipv6hint): a hint
    that cannot be packed is produced. *)
Example handler_without_family_test_refuted :
  exists p h, (match p with PNone => None | _ => Some (Hint4 p) end) = Some h /\ hint_packs h = false.
Proof. exists PSix, (Hint4 PSix). split; reflexivity. Qed.

(** C07, codec: the two halves together.  An entry of the codec domain that
    was written to a file line is seen again by a search whose term it
    satisfies: the raw-line pre-match lets the line through and the decoder
    returns the entry itself (on which the full match then runs). *)
From Coq Require Import ZArith NArith List Bool.
From AGH Require Import Base.Run Model.QLogFile Model.QLog Model.QLogCodec Proofs.QLogCodec
  Proofs.QLogCodecScan Proofs.QLogCodecDec Proofs.QLogCodecLoc.
Import ListNotations.

Lemma codec_dom_numbers o e : codec_dom o e -> rw_numbers_ok e.
Proof.
  intros (_ & _ & _ & _ & _ & _ & _ & _ & _ & _ & _ & _ & _ & Hrw). unfold rw_numbers_ok.
  destruct (ce_rw e) as [w|]; [|exact I]. destruct Hrw as (_ & _ & _ & H4).
  eapply Forall_impl; [|exact H4]. intros [k vs] (_ & _ & Hv). cbn [fst snd] in *.
  rewrite forallb_forall. intros v Hin. rewrite Forall_forall in Hv. specialize (Hv v Hin).
  destruct v; cbn in *; try contradiction; reflexivity.
Qed.

Theorem file_line_found o c e v a strict : codec_dom o e ->
  term_match c (raw_entry (slot e sQH) (slot e sIP) (slot e sCID)) v a strict = true ->
  quick_line c (encode e) (CTerm v a strict) = true /\ decode o (encode e) = (false, e).
Proof.
  intros Hd Hm. split; [apply quick_line_real; auto; eapply codec_dom_numbers; eauto|apply codec_roundtrip; auto].
Qed.

(** Proofs about the HTTP API that edits the rewrite table (C06):
    Model/RewritesEdit.v.

    Main fact: every stored entry is [normalize] of a freshly decoded entry
    carrying its own (Domain, Answer), whatever sequence of add / delete /
    update requests produced the table.  Hence the table is exactly what
    loading the list reported by GET /control/rewrite/list would build, and
    every theorem about normalised tables (Proofs/Rewrites.v) applies to
    what the API shows.

    [parse] is netip.ParseAddr, any function such that lower-casing a text
    that is no address does not make it one (ParseAddr reads hexadecimal
    digits in either case, so its verdict does not depend on letter case;
    the harness checks the hypothesis on every answer text it sends). *)
From Coq Require Import ZArith NArith List Bool Lia Permutation String.
From AGH Require Import Base.Run Model.Rewrites Model.RewritesEdit Proofs.Rewrites.
Import ListNotations.
Local Open Scope N_scope.

(** * Lower-cased text *)

Lemma lower_byte_not_upper b c : (65 <=? c) && (c <=? 90) = true -> lower_byte b <> c.
Proof.
  intros C. apply andb_true_iff in C as [C1 C2]. apply N.leb_le in C1, C2.
  unfold lower_byte. destruct ((65 <=? b) && (b <=? 90)) eqn:E.
  - apply andb_true_iff in E as [E1 E2]. apply N.leb_le in E1, E2. lia.
  - apply andb_false_iff in E as [E|E]; apply N.leb_gt in E; lia.
Qed.

Lemma to_lower_no_upper s c : (65 <=? c) && (c <=? 90) = true -> ~ In c (to_lower s).
Proof.
  intros C H. unfold to_lower in H. apply in_map_iff in H as (b & E & _).
  exact (lower_byte_not_upper b c C E).
Qed.

Lemma to_lower_not_A s : to_lower s <> ans_A.
Proof. intros E. apply (to_lower_no_upper s 65); [reflexivity|]. rewrite E. cbn; auto. Qed.

Lemma to_lower_not_AAAA s : to_lower s <> ans_AAAA.
Proof. intros E. apply (to_lower_no_upper s 65); [reflexivity|]. rewrite E. cbn; auto. Qed.

Lemma eqb_bytes_false a b : a <> b -> eqb_bytes a b = false.
Proof.
  intros N. destruct (eqb_bytes a b) eqn:E; auto. apply eqb_bytes_spec in E. contradiction.
Qed.

(** * normalize and the parse result *)

Lemma normalize_ip r i :
  e_ip (normalize r) = Some i ->
  w_parse r = Some i /\ e_ans (normalize r) = w_ans r /\
  rtype_code (e_type (normalize r)) = (if ip_is4 i then qA else qAAAA).
Proof.
  unfold normalize. destruct (eqb_bytes (w_ans r) ans_AAAA); [discriminate|].
  destruct (eqb_bytes (w_ans r) ans_A); [discriminate|].
  destruct (w_parse r) as [j|]; cbn; [|discriminate].
  intros [= ->]. destruct (ip_is4 i); auto.
Qed.

Section EditProofs.
  Variable parse : bytes -> option ip.
  Hypothesis parse_lower : forall s, parse s = None -> parse (to_lower s) = None.

  (** What loading the reported (Domain, Answer) of a stored entry gives. *)
  Definition renorm (e : entry) : entry := normalize (fresh parse (e_dom e) (e_ans e)).

  (** A stored entry is canonical when it is the normalisation of its own
      reported texts: its IP and type are the ones its Answer denotes. *)
  Definition canonical (e : entry) : Prop := renorm e = e.
  Definition canonical_table (tbl : list entry) : Prop := Forall canonical tbl.

  (** normalize is idempotent through the reported texts. *)
  Lemma normalize_canonical d a : canonical (normalize (fresh parse d a)).
  Proof.
    unfold canonical, renorm.
    destruct (eqb_bytes a ans_AAAA) eqn:E4.
    { unfold normalize, fresh; cbn [w_dom w_ans w_parse]. rewrite E4. cbn [e_dom e_ans].
      rewrite E4, to_lower_idem. reflexivity. }
    destruct (eqb_bytes a ans_A) eqn:E1.
    { unfold normalize, fresh; cbn [w_dom w_ans w_parse]. rewrite E4, E1. cbn [e_dom e_ans].
      rewrite E4, E1, to_lower_idem. reflexivity. }
    destruct (parse a) as [i|] eqn:Pa.
    - unfold normalize, fresh; cbn [w_dom w_ans w_parse]. rewrite E4, E1, Pa. cbn [e_dom e_ans].
      rewrite E4, E1, Pa, to_lower_idem. reflexivity.
    - unfold normalize, fresh; cbn [w_dom w_ans w_parse]. rewrite E4, E1, Pa. cbn [e_dom e_ans].
      rewrite (eqb_bytes_false _ _ (to_lower_not_AAAA a)), (eqb_bytes_false _ _ (to_lower_not_A a)).
      rewrite (parse_lower _ Pa), !to_lower_idem. reflexivity.
  Qed.

  Lemma load_reported tbl : load parse (reported tbl) = map renorm tbl.
  Proof. unfold load, reported. rewrite map_map. reflexivity. Qed.

  Lemma canonical_table_spec tbl : canonical_table tbl <-> tbl = load parse (reported tbl).
  Proof.
    rewrite load_reported. unfold canonical_table, canonical. induction tbl as [|e l IH]; cbn.
    - split; auto.
    - split.
      + intros H. inversion H; subst. f_equal; [symmetry; assumption | apply IH; assumption].
      + intros [= H1 H2]. constructor; [symmetry; assumption | apply IH; assumption].
  Qed.

  Lemma load_canonical cfg : canonical_table (load parse cfg).
  Proof.
    unfold canonical_table, load. apply Forall_forall. intros e H.
    apply in_map_iff in H as (p & <- & _). apply normalize_canonical.
  Qed.

  (** * One request *)

  Lemma update_first_spec d a n tbl tbl' :
    update_first d a n tbl = Some tbl' ->
    exists pre s post,
      tbl = pre ++ s :: post /\ stored_equal d a s = true /\
      (forall x, In x pre -> stored_equal d a x = false) /\
      tbl' = pre ++ n :: post.
  Proof.
    revert tbl'. induction tbl as [|s rest IH]; cbn; [discriminate|]. intros tbl'.
    destruct (stored_equal d a s) eqn:E.
    - intros [= <-]. exists [], s, rest. cbn. repeat split; auto. intros x [].
    - destruct (update_first d a n rest) as [rest'|]; [|discriminate]. intros [= <-].
      destruct (IH _ eq_refl) as (pre & s' & post & -> & E' & Hpre & ->).
      exists (s :: pre), s', post. cbn. repeat split; auto.
      intros x [<-|H]; auto.
  Qed.

  Lemma update_first_none d a n tbl :
    update_first d a n tbl = None <-> (forall s, In s tbl -> stored_equal d a s = false).
  Proof.
    induction tbl as [|s rest IH]; cbn.
    - split; auto. intros _ s [].
    - destruct (stored_equal d a s) eqn:E.
      + split; [discriminate|]. intros H. rewrite (H s (or_introl eq_refl)) in E. discriminate.
      + destruct (update_first d a n rest).
        * split; [discriminate|]. intros H.
          assert (None = Some l -> False) by discriminate.
          exfalso. destruct IH as [_ IH]. discriminate IH. intros x Hx. apply H; auto.
        * split; auto. intros _ x [<-|Hx]; auto. destruct IH as [IH _]. apply IH; auto.
  Qed.

  (** The target is looked up bytewise among what the list reports. *)
  Lemma stored_equal_reported d a tbl :
    (exists s, In s tbl /\ stored_equal d a s = true) <-> In (d, a) (reported tbl).
  Proof.
    unfold reported, stored_equal. rewrite in_map_iff. split.
    - intros (s & Hs & E). apply andb_true_iff in E as [E1 E2].
      apply eqb_bytes_spec in E1, E2. exists s. subst. auto.
    - intros (s & [= <- <-] & Hs). exists s. split; auto. rewrite !eqb_bytes_refl. reflexivity.
  Qed.

  Lemma apply_op_canonical tbl o :
    canonical_table tbl -> canonical_table (fst (apply_op parse tbl o)).
  Proof.
    unfold canonical_table. intros C. destruct o as [d a|d a|td ta nd na|]; cbn; auto.
    - apply Forall_app. split; auto. constructor; auto. apply normalize_canonical.
    - apply Forall_forall. intros e H. apply filter_In in H as [H _].
      rewrite Forall_forall in C. auto.
    - destruct (update_first td ta _ tbl) as [tbl'|] eqn:U; cbn; auto.
      apply update_first_spec in U as (pre & s & post & -> & _ & _ & ->).
      apply Forall_app in C as [C1 C2]. inversion C2; subst.
      apply Forall_app. split; auto. constructor; auto. apply normalize_canonical.
  Qed.

  (** * Histories *)

  Lemma run_edits_canonical ops : forall tbl,
    canonical_table tbl -> canonical_table (fst (run_edits parse tbl ops)).
  Proof.
    induction ops as [|o ops IH]; cbn; intros tbl C; auto.
    pose proof (apply_op_canonical tbl o C) as C'.
    destruct (apply_op parse tbl o) as [tbl' st]. cbn in C'.
    specialize (IH tbl' C'). destruct (run_edits parse tbl' ops) as [tbl'' sts]. exact IH.
  Qed.

  (** The table after any edit history is the normalisation of the list the
      API reports. *)
  Theorem edit_table_is_normalised_list cfg ops :
    let tbl := fst (run_edits parse (load parse cfg) ops) in
    tbl = load parse (reported tbl).
  Proof. cbv zeta. apply canonical_table_spec, run_edits_canonical, load_canonical. Qed.

  (** Hence answers are those of a filter freshly created from that list. *)
  Theorem edit_answers_from_reported_table (sort : list entry -> list entry) cfg ops en host qt :
    let tbl := fst (run_edits parse (load parse cfg) ops) in
    check_host sort en tbl host qt = check_host sort en (load parse (reported tbl)) host qt /\
    process_rewrites sort tbl host qt = process_rewrites sort (load parse (reported tbl)) host qt.
  Proof. cbv zeta. rewrite <- edit_table_is_normalised_list. split; reflexivity. Qed.

  (** Every address answered after any history is denoted by the answer text
      of a reported rule whose pattern covers the finally resolved name, and
      has the requested family. *)
  Theorem edit_addresses_from_reported_list sort :
    (forall l, Permutation (sort l) l) ->
    forall cfg ops en host qt r i,
      let tbl := fst (run_edits parse (load parse cfg) ops) in
      check_host sort en tbl host qt = Some r -> In i (r_ips r) ->
      exists final d a,
        (final = r_canon r \/ (r_canon r = [] /\ final = to_lower host)) /\
        In (d, a) (reported tbl) /\ parse a = Some i /\
        (d = final \/ match_wildcard final d = true) /\
        qt = (if ip_is4 i then qA else qAAAA).
  Proof.
    intros SP cfg ops en host qt r i tbl H Hi.
    destruct (check_host_addresses sort SP _ _ _ _ _ _ H Hi)
      as (final & F & e & He & M & Hip & Ht & _).
    assert (C : canonical e).
    { pose proof (run_edits_canonical ops _ (load_canonical cfg)) as CT.
      unfold canonical_table in CT. rewrite Forall_forall in CT. apply CT. exact He. }
    unfold canonical, renorm in C. rewrite <- C in Hip, Ht.
    apply normalize_ip in Hip as Hn. destruct Hn as (P & _ & T). cbn in P.
    exists final, (e_dom e), (e_ans e). repeat split; auto.
    - unfold reported. apply in_map_iff. exists e. auto.
    - unfold matches_host in M. apply orb_true_iff in M as [M|M]; auto.
      left. apply eqb_bytes_spec. exact M.
    - rewrite <- Ht. exact T.
  Qed.

  (** * What each request does to the reported list *)

  Definition eqb_texts (p q : bytes * bytes) : bool :=
    eqb_bytes (fst p) (fst q) && eqb_bytes (snd p) (snd q).

  Theorem edit_add_spec tbl d a :
    let e := normalize (fresh parse d a) in
    apply_op parse tbl (EAdd d a) = (tbl ++ [e], StOK) /\
    reported (tbl ++ [e]) = reported tbl ++ [(to_lower d, e_ans e)].
  Proof.
    cbv zeta. split; [reflexivity|]. unfold reported. rewrite map_app. cbn.
    rewrite normalize_dom. reflexivity.
  Qed.

  (** delete removes every rule whose reported texts are bytewise the target
      and keeps the rest in order; it always replies 200. *)
  Theorem edit_delete_spec tbl d a :
    snd (apply_op parse tbl (EDel d a)) = StOK /\
    reported (fst (apply_op parse tbl (EDel d a))) =
      filter (fun p => negb (eqb_texts p (d, a))) (reported tbl).
  Proof.
    split; [reflexivity|]. cbn. unfold reported. induction tbl as [|s l IH]; cbn; auto.
    unfold stored_equal at 1, eqb_texts at 1. cbn.
    destruct (eqb_bytes (e_dom s) d && eqb_bytes (e_ans s) a); cbn; rewrite IH; reflexivity.
  Qed.

  Theorem edit_delete_missing_is_noop tbl d a :
    ~ In (d, a) (reported tbl) -> fst (apply_op parse tbl (EDel d a)) = tbl.
  Proof.
    intros N. cbn. induction tbl as [|s l IH]; cbn; auto.
    destruct (stored_equal d a s) eqn:E; cbn.
    - exfalso. apply N. apply stored_equal_reported. exists s. cbn. auto.
    - f_equal. apply IH. intros H. apply N. cbn. auto.
  Qed.

  (** update: rejected exactly when the list does not report the target;
      otherwise the first such rule is replaced in its place. *)
  Theorem edit_update_spec tbl td ta nd na :
    let n := normalize (fresh parse nd na) in
    (~ In (td, ta) (reported tbl) /\ apply_op parse tbl (EUpd td ta nd na) = (tbl, StBad)) \/
    (exists pre s post,
       tbl = pre ++ s :: post /\ (e_dom s, e_ans s) = (td, ta) /\
       ~ In (td, ta) (reported pre) /\
       apply_op parse tbl (EUpd td ta nd na) = (pre ++ n :: post, StOK)).
  Proof.
    cbv zeta. cbn. destruct (update_first td ta _ tbl) as [tbl'|] eqn:U.
    - right. apply update_first_spec in U as (pre & s & post & -> & E & Hpre & ->).
      exists pre, s, post. repeat split; auto.
      + unfold stored_equal in E. apply andb_true_iff in E as [E1 E2].
        apply eqb_bytes_spec in E1, E2. congruence.
      + intros H. apply stored_equal_reported in H as (x & Hx & Ex).
        rewrite (Hpre x Hx) in Ex. discriminate.
    - left. split; auto. intros H. apply stored_equal_reported in H as (x & Hx & Ex).
      rewrite update_first_none in U. rewrite (U x Hx) in Ex. discriminate.
  Qed.

  (** A rejected request changes nothing. *)
  Theorem edit_failed_op_is_noop tbl o :
    snd (apply_op parse tbl o) = StBad -> fst (apply_op parse tbl o) = tbl.
  Proof.
    destruct o as [d a|d a|td ta nd na|]; cbn; try discriminate; auto.
    destruct (update_first td ta _ tbl); cbn; [discriminate|auto].
  Qed.

  (** The new rule of an accepted add / update is in the table. *)
  Definition new_rule (o : eop) : option (bytes * bytes) :=
    match o with
    | EAdd d a => Some (d, a)
    | EUpd _ _ nd na => Some (nd, na)
    | _ => None
    end.

  Lemma accepted_rule_stored tbl o d a :
    new_rule o = Some (d, a) -> snd (apply_op parse tbl o) = StOK ->
    In (normalize (fresh parse d a)) (fst (apply_op parse tbl o)).
  Proof.
    destruct o as [d' a'|d' a'|td ta nd na|]; cbn; try discriminate.
    - intros [= -> ->] _. apply in_or_app. right. cbn. auto.
    - intros [= -> ->]. destruct (update_first td ta _ tbl) as [tbl'|] eqn:U; cbn; [|discriminate].
      intros _. apply update_first_spec in U as (pre & s & post & _ & _ & _ & ->).
      apply in_or_app. right. cbn. auto.
  Qed.

  (** Letter case of the target: stored domains are lower-cased, and the
      target is compared as sent, so a target typed with a capital letter in
      the domain is never found (delete removes nothing, update is rejected);
      the API finds exactly the spelling GET /control/rewrite/list shows. *)
  Theorem edit_target_with_capitals_not_found tbl d a :
    canonical_table tbl -> to_lower d <> d -> ~ In (d, a) (reported tbl).
  Proof.
    intros C N H. unfold reported in H. apply in_map_iff in H as (e & [= <- <-] & He).
    unfold canonical_table in C. rewrite Forall_forall in C. specialize (C e He).
    apply N. unfold canonical, renorm in C. rewrite <- C at 2. rewrite normalize_dom. cbn.
    rewrite <- C at 1. rewrite normalize_dom. cbn. apply to_lower_idem.
  Qed.

  (** * The exception clause after an edit *)

  Section Sorted.
    Variable sort : list entry -> list entry.
    Hypothesis sort_perm : forall l, Permutation (sort l) l.
    Hypothesis sort_sorted : forall l, sorted_by_compare (sort l).

    (** After an accepted add or update whose new rule is "name -> A" (or
        "AAAA"), queries of that type for the name (any spelling; no CNAME
        rule covering it) are passed on: in particular the address the
        updated rule used to carry is not answered. *)
    Theorem edit_exception_effective tbl o d a en host qt :
      new_rule o = Some (d, a) -> snd (apply_op parse tbl o) = StOK ->
      (a = ans_A /\ qt = qA) \/ (a = ans_AAAA /\ qt = qAAAA) ->
      to_lower d = to_lower host -> is_wildcard (to_lower host) = false ->
      (forall e, In e (fst (apply_op parse tbl o)) -> matches_host e (to_lower host) = true ->
                 is_cname e = false) ->
      check_host sort en (fst (apply_op parse tbl o)) host qt = Some empty_result.
    Proof.
      intros NR OK A D W NoC.
      pose proof (accepted_rule_stored tbl o d a NR OK) as I.
      destruct (normalize_type_exception (fresh parse d a) qt A) as [Dn T].
      eapply check_host_type_exception with (x := normalize (fresh parse d a)); eauto.
      rewrite Dn. exact D.
    Qed.
  End Sorted.
End EditProofs.

(** * Examples: the hypotheses are satisfiable, on the scenario of the
    seeded change C06-E (an address rule updated into the exception). *)
Module EditExamples.
  Definition ip1234 : ip := {| ip_is4 := true; ip_val := 16909060 |}.

  (** A parse function: "1.2.3.4" is an address, nothing else is. *)
  Definition parse_ex (s : bytes) : option ip :=
    if eqb_bytes s (bs "1.2.3.4") then Some ip1234 else None.

  Lemma to_lower_small s t :
    to_lower s = t -> (forall b, In b t -> b < 65) -> s = t.
  Proof.
    revert t. induction s as [|b s IH]; cbn; intros t <- H; auto.
    assert (lower_byte b < 65) by (apply H; cbn; auto).
    assert (lower_byte b = b).
    { unfold lower_byte in *. destruct ((65 <=? b) && (b <=? 90)) eqn:E; auto.
      apply andb_true_iff in E as [E1 E2]. apply N.leb_le in E1. lia. }
    f_equal; auto. apply IH; auto. intros x Hx. apply H. cbn. auto.
  Qed.

  Lemma parse_ex_lower s : parse_ex s = None -> parse_ex (to_lower s) = None.
  Proof.
    unfold parse_ex. destruct (eqb_bytes (to_lower s) (bs "1.2.3.4")) eqn:E; auto.
    apply eqb_bytes_spec in E. apply to_lower_small in E.
    - subst s. rewrite eqb_bytes_refl. discriminate.
    - intros b Hb. vm_compute in Hb. repeat (destruct Hb as [<-|Hb]; [reflexivity|]). destruct Hb.
  Qed.

  Definition cfg := [(bs "a.test", bs "1.2.3.4"); (bs "*.test", bs "1.2.3.4")].
  Definition upd := EUpd (bs "a.test") (bs "1.2.3.4") (bs "A.Test") ans_A.

  (** Before the update the name is answered 1.2.3.4; the update is
      accepted; afterwards the list reports "a.test -> A" and the A query is
      passed on although the wildcard still carries the address. *)
  Example update_to_exception :
    check_host isort true (load parse_ex cfg) (bs "a.test") qA =
      Some {| r_reason := Rewritten; r_canon := []; r_ips := [ip1234] |} /\
    snd (apply_op parse_ex (load parse_ex cfg) upd) = StOK /\
    reported (fst (apply_op parse_ex (load parse_ex cfg) upd)) =
      [(bs "a.test", ans_A); (bs "*.test", bs "1.2.3.4")] /\
    check_host isort true (fst (apply_op parse_ex (load parse_ex cfg) upd)) (bs "a.test") qA =
      Some empty_result /\
    check_host isort true (fst (apply_op parse_ex (load parse_ex cfg) upd)) (bs "b.test") qA =
      Some {| r_reason := Rewritten; r_canon := []; r_ips := [ip1234] |}.
  Proof. vm_compute. repeat split. Qed.

  (** The premises of [edit_exception_effective] hold there. *)
  Example update_to_exception_premises :
    new_rule upd = Some (bs "A.Test", ans_A) /\
    snd (apply_op parse_ex (load parse_ex cfg) upd) = StOK /\
    to_lower (bs "A.Test") = to_lower (bs "a.test") /\
    is_wildcard (to_lower (bs "a.test")) = false /\
    forallb (fun e => negb (matches_host e (to_lower (bs "a.test"))) || negb (is_cname e))
            (fst (apply_op parse_ex (load parse_ex cfg) upd)) = true.
  Proof. vm_compute. repeat split. Qed.

  (** Premises of [edit_addresses_from_reported_list]: an address is
      answered after a history. *)
  Example history_answers_address :
    let tbl := fst (run_edits parse_ex (load parse_ex cfg)
                      [EDel (bs "a.test") (bs "1.2.3.4"); EAdd (bs "X.Test") (bs "a.test")]) in
    reported tbl = [(bs "*.test", bs "1.2.3.4"); (bs "x.test", bs "a.test")] /\
    check_host isort true tbl (bs "x.test") qA =
      Some {| r_reason := Rewritten; r_canon := bs "a.test"; r_ips := [ip1234] |}.
  Proof. vm_compute. split; reflexivity. Qed.

  (** The target is compared as sent: the configured spelling "A.Test" is
      stored and reported as "a.test", so a delete or an update naming
      "A.Test" finds nothing. *)
  Definition cfg_caps := [(bs "A.Test", bs "1.2.3.4")].
  Example target_with_capitals :
    reported (load parse_ex cfg_caps) = [(bs "a.test", bs "1.2.3.4")] /\
    apply_op parse_ex (load parse_ex cfg_caps) (EDel (bs "A.Test") (bs "1.2.3.4")) =
      (load parse_ex cfg_caps, StOK) /\
    apply_op parse_ex (load parse_ex cfg_caps) (EUpd (bs "A.Test") (bs "1.2.3.4") (bs "a.test") ans_A) =
      (load parse_ex cfg_caps, StBad) /\
    to_lower (bs "A.Test") <> bs "A.Test".
  Proof. vm_compute. repeat split. discriminate. Qed.

  (** A rejected request and a delete that finds nothing. *)
  Example rejected_requests :
    snd (apply_op parse_ex (load parse_ex cfg) EBad) = StBad /\
    snd (apply_op parse_ex (load parse_ex cfg) (EUpd (bs "x.test") ans_A (bs "x.test") ans_AAAA)) = StBad /\
    ~ In (bs "x.test", ans_A) (reported (load parse_ex cfg)).
  Proof.
    vm_compute. repeat split. intros [H|[H|[]]]; discriminate.
  Qed.
End EditExamples.

(** C04, second part: what [Persistent.validate] accepts (tags, upstream
    lines), that every stored record is a validated one in every reachable
    state, and the effective blocked-service rules of a request
    ([DNSFilter.ApplyAdditionalFiltering] over the registry and the pause
    schedules of Model/Schedule.v). *)
From Coq Require Import List NArith ZArith Bool Lia Sorting.Sorted.
From AGH Require Import Base.Run Base.Bytes Base.Dom Model.ClientIndex Proofs.ClientIndex.
From AGH Require Model.Schedule Proofs.Schedule.
Import ListNotations.
Local Open Scope N_scope.

(** * Upstream lines *)

Lemma cut2_spec a b s p q : cut2 a b s = Some (p, q) -> s = p ++ a :: b :: q.
Proof.
  revert p q. induction s as [|x s IH]; intros p q H; [discriminate|].
  cbn [cut2] in H. destruct s as [|y s']; [discriminate|].
  destruct ((x =? a) && (y =? b)) eqn:E.
  - apply andb_true_iff in E as [E1 E2]. apply N.eqb_eq in E1, E2. inversion H; subst. reflexivity.
  - destruct (cut2 a b (y :: s')) as [[p' q']|] eqn:C; [|discriminate].
    inversion H; subst. cbn. f_equal. apply IH. reflexivity.
Qed.

(** The separator found is the FIRST occurrence: it does not occur inside [p]
    followed by the first separator byte. *)
Lemma cut2_first a b s p q :
  cut2 a b s = Some (p, q) -> forall p1 p2, p ++ [a] = p1 ++ a :: b :: p2 -> False.
Proof.
  revert p q. induction s as [|x s IH]; intros p q H p1 p2 E; [discriminate|].
  cbn [cut2] in H. destruct s as [|y s']; [discriminate|].
  destruct ((x =? a) && (y =? b)) eqn:Exy.
  - inversion H; subst. cbn in E. destruct p1 as [|z p1]; [discriminate|].
    inversion E. destruct p1; discriminate.
  - destruct (cut2 a b (y :: s')) as [[p' q']|] eqn:C; [|discriminate].
    inversion H; subst p q. destruct p1 as [|z p1].
    + cbn in E. inversion E as [[E1 E2]]. subst x.
      pose proof (cut2_spec _ _ _ _ _ C) as Hs.
      assert (y = b) as ->.
      { destruct p' as [|w p'']; cbn in E2, Hs.
        - inversion E2; subst. inversion Hs; subst. reflexivity.
        - inversion E2; subst. inversion Hs; subst. reflexivity. }
      rewrite !N.eqb_refl in Exy. discriminate.
    + cbn in E. inversion E; subst z. eapply IH; [reflexivity|eassumption].
Qed.

(** A well-formed upstream line, declaratively. *)
Inductive line_ok (addr_ok : bytes -> bool) : bytes -> Prop :=
  | LkEmpty : line_ok addr_ok []
  | LkComment r : line_ok addr_ok (hash :: r)
  | LkPlain c r :
      c <> hash -> has_prefix [lbrack; slash] (c :: r) = false -> addr_ok (c :: r) = true ->
      line_ok addr_ok (c :: r)
  | LkSpec doms ups u0 us :
      (forall p1 p2, doms ++ [slash] = p1 ++ slash :: rbrack :: p2 -> False) ->
      ups <> [] ->
      Forall (fun h => h = [] \/ domain_name_ok (trim_prefix star_dot h) = true) (split slash doms) ->
      fields ups = u0 :: us ->
      (u0 = [hash] \/ Forall (fun u => addr_ok u = true) (u0 :: us)) ->
      line_ok addr_ok (lbrack :: slash :: doms ++ slash :: rbrack :: ups).

Lemma spec_domain_ok_iff h : spec_domain_ok h = true <-> (h = [] \/ domain_name_ok (trim_prefix star_dot h) = true).
Proof.
  destruct h as [|x h]; cbn [spec_domain_ok].
  - split; auto.
  - split; [auto|]. intros [E|E]; [discriminate|exact E].
Qed.

Lemma parse_line_ok addr_ok l : parse_line addr_ok l = LOk -> line_ok addr_ok l.
Proof.
  unfold parse_line. destruct l as [|c r]; [constructor|].
  destruct (c =? hash) eqn:Eh.
  { apply N.eqb_eq in Eh; subst. constructor. }
  apply N.eqb_neq in Eh.
  destruct (has_prefix [lbrack; slash] (c :: r)) eqn:Ep; cbn [negb].
  2:{ destruct (addr_ok (c :: r)) eqn:Ea; [|discriminate]. intros _. constructor; assumption. }
  apply has_prefix_spec in Ep. destruct Ep as (t & Et). cbn in Et. rewrite Et. cbn [skipn].
  destruct (cut2 slash rbrack t) as [[doms ups]|] eqn:C; [|discriminate].
  destruct ups as [|u ups']; [discriminate|].
  destruct (forallb spec_domain_ok (split slash doms)) eqn:Ed; cbn [negb]; [|discriminate].
  destruct (fields (u :: ups')) as [|u0 us] eqn:Ef; [discriminate|].
  intros H. pose proof (cut2_spec _ _ _ _ _ C) as ->.
  eapply LkSpec with (u0 := u0) (us := us).
  - eapply cut2_first; eassumption.
  - discriminate.
  - rewrite forallb_forall in Ed. apply Forall_forall. intros h Hh. apply spec_domain_ok_iff. auto.
  - exact Ef.
  - destruct (eqb_bytes u0 [hash]) eqn:E0.
    + left. apply eqb_bytes_eq. exact E0.
    + right. destruct (forallb addr_ok (u0 :: us)) eqn:Ea; [|discriminate].
      apply Forall_forall. rewrite forallb_forall in Ea. exact Ea.
Qed.

Lemma existsb_false_forall {A} (f : A -> bool) l : existsb f l = false -> forall x, In x l -> f x = false.
Proof.
  induction l as [|a l IH]; cbn; intros H x Hx; [tauto|].
  apply orb_false_iff in H as [H1 H2]. destruct Hx as [->|Hx]; auto.
Qed.

Lemma parse_upstreams_ok addr_ok lines :
  parse_upstreams addr_ok lines = LOk -> Forall (line_ok addr_ok) lines.
Proof.
  unfold parse_upstreams. intros H.
  destruct (existsb _ (map (parse_line addr_ok) lines)) eqn:E1; [discriminate|].
  destruct (existsb (fun r => match r with LErr => true | _ => false end) _) eqn:E2; [discriminate|].
  apply Forall_forall. intros l Hl. apply parse_line_ok.
  pose proof (existsb_false_forall _ _ E1 (parse_line addr_ok l) (in_map _ _ _ Hl)) as P1.
  pose proof (existsb_false_forall _ _ E2 (parse_line addr_ok l) (in_map _ _ _ Hl)) as P2.
  destruct (parse_line addr_ok l); [reflexivity|discriminate|discriminate].
Qed.

(** Conversely: the separator that does not occur earlier is the one found. *)
Lemma cut2_complete a b p q :
  (forall p1 p2, p ++ [a] = p1 ++ a :: b :: p2 -> False) ->
  cut2 a b (p ++ a :: b :: q) = Some (p, q).
Proof.
  induction p as [|x p IH]; intros H.
  - cbn. rewrite !N.eqb_refl. reflexivity.
  - cbn [app cut2].
    destruct (p ++ a :: b :: q) as [|y s''] eqn:Es; [destruct p; discriminate|].
    destruct ((x =? a) && (y =? b)) eqn:E.
    + exfalso. apply andb_true_iff in E as [E1 E2]. apply N.eqb_eq in E1, E2. subst x y.
      destruct p as [|w p'].
      * cbn in Es. inversion Es; subst. apply (H [] []). reflexivity.
      * cbn in Es. inversion Es; subst. apply (H [] (p' ++ [a])). reflexivity.
    + rewrite IH; [reflexivity|].
      intros p1 p2 E'. apply (H (x :: p1) p2). cbn. rewrite E'. reflexivity.
Qed.

Lemma line_ok_parse addr_ok l : line_ok addr_ok l -> parse_line addr_ok l = LOk.
Proof.
  intros H. destruct H as [|r|c r Hc Hp Ha|doms ups u0 us Hfirst Hups Hd Hf Hu].
  - reflexivity.
  - cbn. reflexivity.
  - cbn [parse_line]. assert ((c =? hash) = false) as -> by (apply N.eqb_neq; exact Hc).
    rewrite Hp. cbn [negb]. rewrite Ha. reflexivity.
  - cbn [parse_line]. change (lbrack =? hash) with false. cbv iota.
    assert (Hp : has_prefix [lbrack; slash] (lbrack :: slash :: doms ++ slash :: rbrack :: ups) = true).
    { apply has_prefix_spec. eexists. reflexivity. }
    rewrite Hp. cbn [negb skipn].
    rewrite (cut2_complete _ _ _ _ Hfirst).
    destruct ups as [|u ups']; [congruence|].
    assert (forallb spec_domain_ok (split slash doms) = true) as ->.
    { apply forallb_forall. intros h Hh. apply spec_domain_ok_iff. rewrite Forall_forall in Hd. auto. }
    cbn [negb]. rewrite Hf.
    destruct (eqb_bytes u0 [hash]) eqn:E0; [reflexivity|].
    destruct Hu as [->|Hu]; [rewrite eqb_bytes_refl in E0; discriminate|].
    assert (forallb addr_ok (u0 :: us) = true) as ->; [|reflexivity].
    apply forallb_forall. rewrite Forall_forall in Hu. exact Hu.
Qed.

Lemma parse_line_iff addr_ok l : parse_line addr_ok l = LOk <-> line_ok addr_ok l.
Proof. split; [apply parse_line_ok|apply line_ok_parse]. Qed.

Lemma existsb_false_intro {A} (f : A -> bool) l : (forall x, In x l -> f x = false) -> existsb f l = false.
Proof.
  induction l as [|a l IH]; cbn; intros H; [reflexivity|].
  rewrite (H a) by auto. cbn. apply IH. auto.
Qed.

Lemma parse_upstreams_iff addr_ok lines :
  parse_upstreams addr_ok lines = LOk <-> Forall (line_ok addr_ok) lines.
Proof.
  split; [apply parse_upstreams_ok|]. intros H. unfold parse_upstreams.
  rewrite Forall_forall in H.
  rewrite !existsb_false_intro; [reflexivity| |];
    intros r Hr; apply in_map_iff in Hr as (l & <- & Hl); rewrite (line_ok_parse _ _ (H l Hl)); reflexivity.
Qed.

(** * What validate accepts *)

Definition valid_client (cfg : config) (c : client) : Prop :=
  c_name c <> [] /\ ids_len c <> 0%nat /\ c_uid c <> 0 /\
  Forall (line_ok (cfg_addr_ok cfg)) (c_upstreams c) /\
  Forall (fun t => In t (cfg_tags cfg)) (c_tags c).

Lemma tag_ok_In allowed t : tag_ok allowed t = true <-> In t allowed.
Proof.
  unfold tag_ok. rewrite existsb_exists. split.
  - intros (x & Hx & E). apply eqb_bytes_eq in E. subst. exact Hx.
  - intros H. exists t. split; [exact H|apply eqb_bytes_refl].
Qed.

Lemma validate_accepts cfg c : validate cfg c = EOk -> valid_client cfg c.
Proof.
  unfold validate, valid_client.
  destruct (Nat.eqb (length (c_name c)) 0) eqn:E1; [discriminate|].
  destruct (Nat.eqb (ids_len c) 0) eqn:E2; [discriminate|].
  destruct (c_uid c =? 0) eqn:E3; [discriminate|].
  destruct (parse_upstreams (cfg_addr_ok cfg) (c_upstreams c)) eqn:E4; try discriminate.
  destruct (forallb (tag_ok (cfg_tags cfg)) (c_tags c)) eqn:E5; [|discriminate].
  intros _. repeat split.
  - intros E. rewrite E in E1. discriminate.
  - intros E. rewrite E in E2. discriminate.
  - apply N.eqb_neq. exact E3.
  - apply parse_upstreams_ok. exact E4.
  - apply Forall_forall. intros t Ht. rewrite forallb_forall in E5. apply tag_ok_In. auto.
Qed.

Lemma validate_iff cfg c : validate cfg c = EOk <-> valid_client cfg c.
Proof.
  split; [apply validate_accepts|]. intros (H1 & H2 & H3 & H4 & H5). unfold validate.
  destruct (c_name c) as [|x n] eqn:En; [congruence|]. cbn [length Nat.eqb].
  destruct (ids_len c) as [|k] eqn:Ei; [congruence|]. cbn [Nat.eqb].
  assert ((c_uid c =? 0) = false) as -> by (apply N.eqb_neq; exact H3).
  rewrite (proj2 (parse_upstreams_iff _ _) H4).
  assert (forallb (tag_ok (cfg_tags cfg)) (c_tags c) = true) as ->; [|reflexivity].
  apply forallb_forall. intros t Ht. apply tag_ok_In. rewrite Forall_forall in H5. auto.
Qed.

(** The verdict classes: a tag outside the allowed list is never accepted,
    whatever else the record holds; nor is a malformed upstream line. *)
Lemma validate_rejects_tag cfg c t :
  In t (c_tags c) -> ~ In t (cfg_tags cfg) -> validate cfg c <> EOk.
Proof.
  intros Ht Hn H. apply validate_accepts in H. destruct H as (_ & _ & _ & _ & H).
  rewrite Forall_forall in H. auto.
Qed.

Lemma validate_rejects_upstream cfg c l :
  In l (c_upstreams c) -> ~ line_ok (cfg_addr_ok cfg) l -> validate cfg c <> EOk.
Proof.
  intros Hl Hn H. apply validate_accepts in H. destruct H as (_ & _ & _ & H & _).
  rewrite Forall_forall in H. auto.
Qed.

(** * Sorting of the tags *)
Lemma ins_name_in n l x : In x (ins_name n l) <-> x = n \/ In x l.
Proof.
  induction l as [|y l IH]; cbn [ins_name].
  - cbn. intuition.
  - destruct (cmp_bytes n y); cbn [In]; rewrite ?IH; intuition.
Qed.

Lemma sort_names_in l x : In x (sort_names l) <-> In x l.
Proof.
  unfold sort_names. induction l as [|y l IH]; cbn [fold_right]; [tauto|].
  rewrite ins_name_in, IH. cbn. intuition.
Qed.

Definition names_le (a b : bytes) : Prop := cmp_bytes a b <> Gt.

Lemma ins_name_sorted n l : Sorted names_le l -> Sorted names_le (ins_name n l).
Proof.
  induction l as [|y l IH]; intros Hs; cbn [ins_name].
  - repeat constructor.
  - inversion Hs as [|? ? Hs' Hhd]; subst.
    destruct (cmp_bytes n y) eqn:E.
    + constructor; [apply IH; assumption|].
      destruct l as [|z l]; cbn [ins_name].
      * constructor. unfold names_le. rewrite cmp_bytes_antisym, E. discriminate.
      * destruct (cmp_bytes n z); constructor;
          first [unfold names_le; rewrite cmp_bytes_antisym, E; discriminate
                |inversion Hhd; assumption].
    + constructor; [assumption|]. constructor. unfold names_le. rewrite E. discriminate.
    + constructor; [apply IH; assumption|].
      destruct l as [|z l]; cbn [ins_name].
      * constructor. unfold names_le. rewrite cmp_bytes_antisym, E. discriminate.
      * destruct (cmp_bytes n z); constructor;
          first [unfold names_le; rewrite cmp_bytes_antisym, E; discriminate
                |inversion Hhd; assumption].
Qed.

Lemma sort_names_sorted l : Sorted names_le (sort_names l).
Proof.
  unfold sort_names. induction l as [|y l IH]; cbn [fold_right]; [constructor|].
  apply ins_name_sorted. exact IH.
Qed.

(** * Every stored record is a validated one, in every reachable state *)

Definition stored_ok (cfg : config) (c : client) : Prop :=
  c_name c <> [] /\ ids_len c <> 0%nat /\
  Forall (line_ok (cfg_addr_ok cfg)) (c_upstreams c) /\
  Forall (fun t => In t (cfg_tags cfg)) (c_tags c) /\
  Sorted names_le (c_tags c).

Definition Valid (cfg : config) (ix : index) : Prop :=
  forall u c, deref ix u = Some c -> stored_ok cfg c.

Lemma Valid_empty cfg : Valid cfg empty_index.
Proof. intros u c H. discriminate. Qed.

Lemma stored_ok_normalize cfg c u :
  validate cfg c = EOk -> stored_ok cfg (set_uid u (normalize c)).
Proof.
  intros H. apply validate_accepts in H. destruct H as (H1 & H2 & _ & H4 & H5).
  unfold stored_ok. cbn [set_uid normalize set_tags c_name c_upstreams c_tags].
  split; [exact H1|]. split; [exact H2|]. split; [exact H4|]. split.
  - apply Forall_forall. intros t Ht. apply (proj1 (sort_names_in _ _)) in Ht. rewrite Forall_forall in H5. auto.
  - apply sort_names_sorted.
Qed.

Lemma Valid_add cfg c ix : Valid cfg ix -> stored_ok cfg c -> Valid cfg (index_add c ix).
Proof.
  intros HV Hc u c' Hd. destruct (N.eq_dec u (c_uid c)) as [->|Hne].
  - rewrite deref_add_eq in Hd. inversion Hd; subst. exact Hc.
  - rewrite deref_add_ne in Hd by assumption. eapply HV; eassumption.
Qed.

Lemma Valid_remove cfg c ix : Valid cfg ix -> Valid cfg (index_remove c ix).
Proof.
  intros HV u c' Hd. destruct (N.eq_dec u (c_uid c)) as [->|Hne].
  - rewrite deref_remove_eq in Hd. discriminate.
  - rewrite deref_remove_ne in Hd by assumption. eapply HV; eassumption.
Qed.

Lemma Valid_step cfg ix o : Valid cfg ix -> Valid cfg (fst (step cfg ix o)).
Proof.
  intros HV. destruct o as [c|n c|n]; cbn [step].
  - unfold add. destruct (validate cfg c) eqn:Ev; try exact HV. cbv zeta.
    destruct (deref ix (c_uid (normalize c))); [exact HV|].
    destruct (clashes (normalize c) ix); try exact HV. cbn [fst].
    apply Valid_add; [exact HV|].
    replace (normalize c) with (set_uid (c_uid c) (normalize c)).
    + apply stored_ok_normalize. exact Ev.
    + destruct c; reflexivity.
  - unfold update. destruct (validate cfg c) eqn:Ev; try exact HV. cbv zeta.
    destruct (bget n (name_to ix)) as [u|]; [|exact HV].
    destruct (deref ix u) as [stored|]; [|exact HV].
    destruct (clashes _ ix); try exact HV. cbn [fst].
    apply Valid_add; [apply Valid_remove; exact HV|apply stored_ok_normalize; exact Ev].
  - unfold remove_by_name. destruct (bget n (name_to ix)) as [u|]; [|exact HV].
    destruct (deref ix u) as [stored|]; [|exact HV]. cbn [fst]. apply Valid_remove. exact HV.
Qed.

Theorem stored_records_valid cfg ops : Valid cfg (run cfg ops empty_index).
Proof.
  unfold run. generalize (Valid_empty cfg). generalize empty_index.
  induction ops as [|o ops IH]; cbn; intros ix H; [exact H|]. apply IH. apply Valid_step. exact H.
Qed.

(** * Effective blocked-service rules of a request *)
Section Additional.
  Variable zone_off : N -> Z -> Z.
  Variable known : list bytes.

  Notation eff := (effective_services zone_off known).
  Notation aaf := (apply_additional_filtering zone_off known).

  (** The services list that ends up in the settings of a request for which
      client [oc] (or none) was chosen, [g] carrying no BlockedServices value
      (the state [dnsFilter.Settings()] returns). *)
  Definition expected_services (gb : blocked) (t : Z) (oc : option client) : list bytes :=
    match oc with
    | Some c =>
        if c_own_blocked c then
          match c_blocked c with
          | Some b => eff b t                   (* own list, own schedule: never the global one *)
          | None => eff gb t                    (* nil record: nothing to apply *)
          end
        else eff gb t
    | None => eff gb t
    end.

  Lemma additional_filtering_spec ix dhcp gb t id a g :
    Inv ix -> s_blocked g = None ->
    exists s, aaf ix dhcp gb t id a g = Some s /\
      match acf_find ix dhcp id a with
      | None =>
          s = set_services (eff gb t) g
      | Some u =>
          exists c, deref ix u = Some c /\ c_uid c = u /\
            s = set_services (expected_services gb t (Some c))
                  (apply_client c (set_services (eff gb t) g))
      end.
  Proof.
    intros HI Hg. unfold apply_additional_filtering, apply_blocked_services.
    pose proof (settings_applied ix dhcp id a (set_services (eff gb t) g) HI) as H.
    destruct (acf_find ix dhcp id a) as [u|].
    - destruct H as (c & Hd & Hu & ->). eexists. split; [reflexivity|].
      exists c. split; [exact Hd|]. split; [exact Hu|].
      unfold expected_services, apply_client.
      destruct (c_own_settings c), (c_own_blocked c); cbn [s_blocked set_services];
        try rewrite Hg; destruct (c_blocked c); reflexivity.
    - rewrite H. eexists. split; [reflexivity|]. cbn [s_blocked set_services]. rewrite Hg. reflexivity.
  Qed.

  (** A client with its own blocked services gets its own list exactly when
      its own schedule is not pausing, and NOTHING while it is pausing: the
      global list never applies to it, paused or not. *)
  Lemma own_blocked_never_global ix dhcp gb t id a g u c b :
    Inv ix -> s_blocked g = None ->
    acf_find ix dhcp id a = Some u -> deref ix u = Some c ->
    c_own_blocked c = true -> c_blocked c = Some b ->
    exists s, aaf ix dhcp gb t id a g = Some s /\
      s_services s = (if paused zone_off b t then [] else services_of known (b_ids b)) /\
      s_blocked s = Some b.
  Proof.
    intros HI Hg Hf Hd Ho Hb.
    destruct (additional_filtering_spec ix dhcp gb t id a g HI Hg) as (s & Hs & H).
    rewrite Hf in H. destruct H as (c' & Hd' & _ & ->). rewrite Hd in Hd'. inversion Hd'; subst c'.
    eexists. split; [exact Hs|]. unfold expected_services. rewrite Ho, Hb.
    split; [reflexivity|]. unfold apply_client. rewrite Ho, Hb. destruct (c_own_settings c); reflexivity.
  Qed.

  Lemma global_blocked_otherwise ix dhcp gb t id a g :
    Inv ix -> s_blocked g = None ->
    (forall u c, acf_find ix dhcp id a = Some u -> deref ix u = Some c -> c_own_blocked c = false) ->
    exists s, aaf ix dhcp gb t id a g = Some s /\
      s_services s = (if paused zone_off gb t then [] else services_of known (b_ids gb)).
  Proof.
    intros HI Hg Hn.
    destruct (additional_filtering_spec ix dhcp gb t id a g HI Hg) as (s & Hs & H).
    eexists. split; [exact Hs|].
    destruct (acf_find ix dhcp id a) as [u|].
    - destruct H as (c & Hd & _ & ->). unfold expected_services.
      rewrite (Hn u c eq_refl Hd). reflexivity.
    - subst s. reflexivity.
  Qed.
End Additional.

(** The pause test is the wall-clock reading of C18. *)
Lemma paused_wall_clock zone_off b t :
  paused zone_off b t = Schedule.contains (b_sched b) (zone_off (b_zone b)) t.
Proof. reflexivity. Qed.

(** Non-vacuity: a registry whose client "b" has its own blocked services
    with a schedule pausing all Thursday; at an instant of a Thursday the
    client's list is off and the global list is not applied either; on a
    Friday the client's own list applies. *)
Definition ex_full_day := {| Schedule.dr_start := 0%Z; Schedule.dr_end := Schedule.ns_day |}.
Definition ex_sched : Schedule.weekly :=
  [Schedule.zero_range; Schedule.zero_range; Schedule.zero_range; Schedule.zero_range; ex_full_day;
   Schedule.zero_range; Schedule.zero_range].
Definition ex_own : blocked := {| b_ids := [[121;116]; [113]]; b_sched := ex_sched; b_zone := 0 |}.
Definition ex_glob : blocked := {| b_ids := [[102;98]]; b_sched := repeat Schedule.zero_range 7; b_zone := 0 |}.
Definition ex_g : settings :=
  {| s_client_name := []; s_filtering := true; s_safesearch := false; s_safebrowsing := false;
     s_parental := false; s_blocked := None; s_tags := []; s_services := [] |}.
Definition ex_c : client :=
  {| c_uid := 1; c_name := [98]; c_cids := [[99]]; c_ips := []; c_subnets := []; c_macs := [];
     c_own_settings := false; c_filtering := true; c_safesearch := false; c_safebrowsing := false;
     c_parental := false; c_own_blocked := true; c_blocked := Some ex_own;
     c_ignore_qlog := false; c_ignore_stats := false; c_tags := []; c_upstreams := [] |}.

Lemma example_additional :
  let ix := run ex_cfg [OAdd ex_c] empty_index in
  let z := fun (_ : N) (_ : Z) => 0%Z in
  let known := [[121;116]; [102;98]] in
  Inv ix /\
  option_map s_services (apply_additional_filtering z known ix (fun _ => None) ex_glob 43200000000000%Z [99] ([], []) ex_g)
    = Some [] /\
  option_map s_services (apply_additional_filtering z known ix (fun _ => None) ex_glob 129600000000000%Z [99] ([], []) ex_g)
    = Some [[121;116]] /\
  option_map s_services (apply_additional_filtering z known ix (fun _ => None) ex_glob 43200000000000%Z [] ([], []) ex_g)
    = Some [[102;98]].
Proof. split; [apply index_consistent|]. vm_compute. repeat split; reflexivity. Qed.

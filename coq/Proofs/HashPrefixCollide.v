(** C19, round 6: enumerated names of one host whose hashes share the 2-byte
    prefix (Model/HashPrefixCollide.v).

    The theorems of Proofs/HashPrefix.v quantify over every function [sha],
    so they hold for colliding prefixes; here the case is stated on its own:

    - [store_in_cache_entry]: a [storeInCache] in which every [Set] is kept
      leaves, under every prefix that has a hash in the answer, ONE entry with
      every returned hash of that prefix;
    - [verdict_with_colliding_prefixes]: two names of the chain share a prefix
      and one of them is listed: the fresh lookup asks the prefix once per
      name, blocks, stores the entry just described, and every later check on
      that cache (answered from it or not) blocks as well;
    - refuted: reducing the request list to one hash per prefix before it is
      matched against and stored from (neighbours only, as
      [slices.CompactFunc] does: witness child/parent; any two: witness
      child/grandparent): the fresh lookup does not block although the
      service returned a hash of the chain, the next check, from the cache,
      blocks;
    - harmless: asking every prefix once gives the same answer. *)
From Coq Require Import ZArith NArith List Bool Lia.
From AGH Require Import Base.Run Base.Bytes Model.HashPrefix Proofs.HashPrefix Model.HashPrefixCollide.
Import ListNotations.

#[local] Arguments prefix_of : simpl never.

(** * [storeInCache] when every [Set] is kept and nothing is evicted *)

Definition pos_item (exp : Z) (resp : list hash) (p : prefix) : citem :=
  {| c_expiry := exp; c_hashes := filter (fun h => eqb_bytes (prefix_of h) p) resp |}.

Lemma store_pos_nil exp resp : forall ps c,
  store_pos exp resp ps [] c = (fold_left (fun c p => cset p (pos_item exp resp p) c) ps c, []).
Proof.
  induction ps as [|p r IH]; intros c; cbn [store_pos fold_left pop]; [reflexivity|].
  unfold cset_o. cbn [fst snd fold_left]. apply IH.
Qed.

Lemma fold_cset_get exp resp p : forall ps c,
  In p ps \/ cget p c = Some (pos_item exp resp p) ->
  cget p (fold_left (fun c q => cset q (pos_item exp resp q) c) ps c) = Some (pos_item exp resp p).
Proof.
  induction ps as [|a r IH]; intros c H; cbn [fold_left].
  - destruct H as [[]|H]; exact H.
  - apply IH. destruct (eqb_bytes a p) eqn:E.
    + apply eqb_bytes_eq in E. subst a. right. apply cget_cset_eq.
    + apply eqb_bytes_neq in E. destruct H as [[?|H]|H]; [congruence|now left|].
      right. now rewrite cget_cset_ne.
Qed.

(** The second loop never replaces an entry. *)
Lemma store_neg_keeps exp keys p it : forall to_req c,
  cget p c = Some it -> cget p (fst (store_neg exp keys to_req [] c)) = Some it.
Proof.
  induction to_req as [|h r IH]; intros c H; cbn [store_neg fst]; auto.
  destruct (cget (prefix_of h) c) eqn:G; [now apply IH|].
  destruct (mem_hash (prefix_of h) keys); [now apply IH|].
  cbn [pop]. apply IH. unfold cset_o. cbn [fst snd fold_left].
  rewrite cget_cset_ne; auto. intros E. congruence.
Qed.

(** One entry per prefix of the answer, with every returned hash of it. *)
Lemma store_in_cache_entry exp to_req resp order c p :
  In p (map prefix_of resp) -> In p order ->
  cget p (fst (store_in_cache exp to_req resp order [] c)) = Some (pos_item exp resp p).
Proof.
  intros Hk Ho. unfold store_in_cache. rewrite store_pos_nil.
  apply store_neg_keeps. apply fold_cset_get. left. apply filter_In. split; auto.
  apply mem_hash_In. now apply dedup_In.
Qed.

Section WithOracles.
  Variable sha : bytes -> hash.
  Variable pubsuf : bytes -> bytes * bool.
  Variable suffix : bytes.
  Variable cache_time : Z.

  Notation chain := (hostname_to_hashes sha pubsuf).
  Notation check := (check sha pubsuf suffix cache_time).

  (** The code is the variant that leaves the request list alone. *)
  Lemma check_req_with_id svc order evs now host c :
    check_req_with sha pubsuf suffix cache_time (fun hs => hs) svc order evs now host c
    = check svc order evs now host c.
  Proof. reflexivity. Qed.

  (** Two enumerated names [a] and [b] of [host] share the prefix of their
      hashes and the service lists [b] (the name itself, its parent, ...).
      A fresh lookup (empty cache, every [Set] kept) whose service answers:
      - asks one label per enumerated name, the shared prefix once for [a] and
        once for [b];
      - says blocked;
      - leaves under the shared prefix one entry that holds every full hash
        of the answer with that prefix, which are the database's hashes with
        that prefix, [sha b] among them;
      and every later check of the host on that cache, at any instant, with
      any service for the same database, from the cache or not, says blocked
      too. *)
  Theorem verdict_with_colliding_prefixes db svc order now host a b strs :
    svc_ok db svc ->
    In a (names_to_hash pubsuf host) -> In b (names_to_hash pubsuf host) ->
    prefix_of (sha a) = prefix_of (sha b) ->
    In (sha b) db ->
    svc (map prefix_of (chain host)) = Some strs ->
    In (prefix_of (sha b)) order ->
    let res := check svc order [] now host [] in
    o_question (snd res) = Some (question suffix (chain host)) /\
    In (sha a) (chain host) /\ In (sha b) (chain host) /\
    o_err (snd res) = false /\
    o_blocked (snd res) = true /\
    (exists it, cget (prefix_of (sha b)) (fst res) = Some it /\
                c_hashes it = filter (fun h => eqb_bytes (prefix_of h) (prefix_of (sha a))) (parse_txt strs) /\
                In (sha b) (c_hashes it) /\
                (forall h, In h (c_hashes it) <-> In h db /\ prefix_of h = prefix_of (sha a))) /\
    forall svc' order' evs' now',
      svc_ok db svc' ->
      o_err (snd (check svc' order' evs' now' host (fst res))) = false ->
      o_blocked (snd (check svc' order' evs' now' host (fst res))) = true.
  Proof.
    intros Hsvc Ha Hb Hp Hdb Hans Hord res.
    assert (Ia : In (sha a) (chain host)) by (unfold hostname_to_hashes; now apply in_map).
    assert (Ib : In (sha b) (chain host)) by (unfold hostname_to_hashes; now apply in_map).
    assert (Hl : db_verdict sha pubsuf db host = true).
    { apply db_verdict_spec. eauto. }
    assert (Hinv0 : cache_inv db []) by (intros p it; discriminate).
    pose proof (check_transparent sha pubsuf suffix cache_time db svc order [] now host [] Hinv0 Hsvc)
      as (Hinv & Hv & _). fold res in Hinv, Hv.
    assert (Hrecv : In (sha b) (parse_txt strs)).
    { pose proof (Hsvc (map prefix_of (chain host))) as A. rewrite Hans in A. apply A.
      split; auto. now apply in_map. }
    (* the shape of the fresh check *)
    assert (Hres : res = (fst (store_in_cache ((now + cache_time) / ns_sec)%Z (chain host) (parse_txt strs) order [] []),
                          {| o_blocked := find_match (chain host) (parse_txt strs); o_err := false;
                             o_question := Some (question suffix (chain host));
                             o_sets_left := length (snd (store_in_cache ((now + cache_time) / ns_sec)%Z
                                                          (chain host) (parse_txt strs) order [] [])) |})).
    { assert (F : find_in_cache now [] (chain host) = ToRequest (chain host)).
      { rewrite find_in_empty_cache. destruct (chain host); [destruct Ib|reflexivity]. }
      unfold res, HashPrefix.check. rewrite F, Hans.
      now destruct (store_in_cache _ _ _ _ _ _). }
    assert (Her : o_err (snd res) = false) by now rewrite Hres.
    split; [now rewrite Hres|]. split; [exact Ia|]. split; [exact Ib|]. split; [exact Her|].
    split; [rewrite (Hv Her); exact Hl|]. split.
    - exists (pos_item ((now + cache_time) / ns_sec)%Z (parse_txt strs) (prefix_of (sha b))).
      assert (G : cget (prefix_of (sha b)) (fst res)
                  = Some (pos_item ((now + cache_time) / ns_sec)%Z (parse_txt strs) (prefix_of (sha b)))).
      { rewrite Hres. cbn [fst]. apply store_in_cache_entry; auto. now apply in_map. }
      split; [exact G|]. split; [cbn [pos_item c_hashes]; now rewrite Hp|]. split.
      + cbn [pos_item c_hashes]. apply filter_In. split; auto. apply eqb_bytes_eq. reflexivity.
      + rewrite Hp. apply (Hinv _ _ G).
    - intros svc' order' evs' now' Hsvc' He.
      pose proof (check_transparent sha pubsuf suffix cache_time db svc' order' evs' now' host (fst res)
                    Hinv Hsvc') as (_ & Hv' & _).
      rewrite (Hv' He). exact Hl.
  Qed.
End WithOracles.

(** * Asking every prefix once would be harmless *)

Lemma dedup_prefix_prefixes hs p :
  In p (map prefix_of (dedup_prefix hs)) <-> In p (map prefix_of hs).
Proof.
  induction hs as [|h r IH]; cbn [dedup_prefix map In]; [tauto|].
  rewrite <- IH. rewrite !in_map_iff. split.
  - intros [?|(y & E & Hy)]; auto. apply filter_In in Hy. right. exists y. tauto.
  - intros [?|(y & E & Hy)]; auto.
    destruct (eqb_bytes (prefix_of y) (prefix_of h)) eqn:Q.
    + apply eqb_bytes_eq in Q. left. congruence.
    + right. exists y. split; auto. apply filter_In. rewrite Q. auto.
Qed.

(** The database service answers a question with one label per prefix exactly
    as it answers the question the code sends. *)
Theorem question_once_same_answer db hs :
  db_service db (map prefix_of (dedup_prefix hs)) = db_service db (map prefix_of hs).
Proof.
  unfold db_service. do 2 f_equal. apply filter_ext. intros h.
  destruct (mem_hash (prefix_of h) (map prefix_of hs)) eqn:E.
  - apply mem_hash_In. apply dedup_prefix_prefixes. now apply mem_hash_In.
  - apply mem_hash_false. intros H. apply (proj1 (dedup_prefix_prefixes hs _)) in H.
    apply mem_hash_false in E. exact (E H).
Qed.

(** * Non-vacuity and the refuted variants *)
Module CollideExample.
  Local Open Scope N_scope.
  Definition pad (s : bytes) : bytes := firstn 30 (s ++ repeat 0 30).
  Definition ex : bytes := [101;120].                       (* ex *)
  Definition b_ex : bytes := [98;46;101;120].               (* b.ex *)
  Definition a_b_ex : bytes := [97;46;98;46;101;120].       (* a.b.ex *)
  (* no ICANN suffix: the whole chain is enumerated *)
  Definition pubsuf (_ : bytes) : bytes * bool := ([], false).
  (* every name has the prefix 00 00 *)
  Definition sha_all (s : bytes) : hash := [0; 0] ++ pad s.
  (* b.ex has the prefix 01 01, every other name 00 00: a.b.ex shares its
     prefix with its grandparent ex, not with its parent *)
  Definition sha_gp (s : bytes) : hash := (if eqb_bytes s b_ex then [1; 1] else [0; 0]) ++ pad s.
  Definition sfx : bytes := [115;98;46].
  Definition ct : Z := (3600 * ns_sec)%Z.
  Definition order : list prefix := [[0; 0]; [1; 1]].
End CollideExample.

Example colliding_premises_satisfiable :
  let db := [CollideExample.sha_all CollideExample.ex] in
  names_to_hash CollideExample.pubsuf CollideExample.b_ex = [CollideExample.b_ex; CollideExample.ex] /\
  prefix_of (CollideExample.sha_all CollideExample.b_ex) = prefix_of (CollideExample.sha_all CollideExample.ex) /\
  CollideExample.sha_all CollideExample.b_ex <> CollideExample.sha_all CollideExample.ex /\
  Forall hash_wf db /\ svc_ok db (db_service db) /\
  (* the fresh lookup asks 0000.0000.sb., blocks, stores one entry *)
  let res := check CollideExample.sha_all CollideExample.pubsuf CollideExample.sfx CollideExample.ct
               (db_service db) CollideExample.order [] 0%Z CollideExample.b_ex [] in
  o_question (snd res) = Some ([48;48;48;48;46;48;48;48;48;46]%N ++ CollideExample.sfx) /\
  o_blocked (snd res) = true /\
  map (fun e : prefix * citem => (fst e, c_hashes (snd e))) (fst res)
    = [([0; 0]%N, [CollideExample.sha_all CollideExample.ex])] /\
  (* the same check again is answered from that entry *)
  snd (check CollideExample.sha_all CollideExample.pubsuf CollideExample.sfx CollideExample.ct
         (db_service db) CollideExample.order [] 0%Z CollideExample.b_ex (fst res))
  = {| o_blocked := true; o_err := false; o_question := None; o_sets_left := 0 |}.
Proof.
  cbn zeta.
  assert (W : Forall hash_wf [CollideExample.sha_all CollideExample.ex]).
  { repeat constructor; vm_compute; try reflexivity; intros; discriminate. }
  split; [vm_compute; reflexivity|]. split; [vm_compute; reflexivity|].
  split; [vm_compute; discriminate|]. split; [exact W|]. split; [now apply db_service_ok|].
  repeat split; vm_compute; reflexivity.
Qed.

(** Red-team change C19-K: [hashesToRequest = slices.CompactFunc(hashesToRequest,
    samePrefix)] before the question is built.  The name b.ex shares its
    prefix with its parent ex, which the service lists.  The code: blocked on
    the fresh lookup and from the cache.  The variant: the parent's hash is no
    longer in the list the answer is matched against: NOT blocked although the
    service returned a hash of the chain; the hash is stored under the shared
    prefix, and the next check, answered from the cache without a question,
    says blocked. *)
Theorem compact_request_list_refuted :
  exists sha pubsuf db host a b,
    names_to_hash pubsuf host = [a; b] /\ prefix_of (sha a) = prefix_of (sha b) /\
    In (sha b) db /\ Forall hash_wf db /\
    let code := check sha pubsuf CollideExample.sfx CollideExample.ct (db_service db) CollideExample.order [] 0%Z host in
    let variant := check_req_with sha pubsuf CollideExample.sfx CollideExample.ct compact_prefix
                     (db_service db) CollideExample.order [] 0%Z host in
    o_blocked (snd (code [])) = true /\
    o_blocked (snd (code (fst (code [])))) = true /\
    o_err (snd (variant [])) = false /\
    In (sha b) (parse_txt (match db_service db [prefix_of (sha a)] with Some s => s | None => [] end)) /\
    o_blocked (snd (variant [])) = false /\
    snd (variant (fst (variant [])))
    = {| o_blocked := true; o_err := false; o_question := None; o_sets_left := 0 |}.
Proof.
  exists CollideExample.sha_all, CollideExample.pubsuf, [CollideExample.sha_all CollideExample.ex],
    CollideExample.b_ex, CollideExample.b_ex, CollideExample.ex.
  split; [vm_compute; reflexivity|]. split; [vm_compute; reflexivity|]. split; [now left|].
  split; [apply colliding_premises_satisfiable|].
  cbn zeta. repeat split; try (vm_compute; reflexivity). vm_compute. now left.
Qed.

(** The same with any two equal prefixes removed, neighbours or not: a.b.ex
    shares its prefix with its grandparent ex (listed), not with b.ex.
    [slices.CompactFunc] leaves that list alone; a "seen" set does not. *)
Theorem dedup_request_list_refuted :
  exists sha pubsuf db host a m b,
    names_to_hash pubsuf host = [a; m; b] /\ prefix_of (sha a) = prefix_of (sha b) /\
    prefix_of (sha a) <> prefix_of (sha m) /\
    In (sha b) db /\ Forall hash_wf db /\
    let code := check sha pubsuf CollideExample.sfx CollideExample.ct (db_service db) CollideExample.order [] 0%Z host in
    let compacted := check_req_with sha pubsuf CollideExample.sfx CollideExample.ct compact_prefix
                       (db_service db) CollideExample.order [] 0%Z host in
    let variant := check_req_with sha pubsuf CollideExample.sfx CollideExample.ct dedup_prefix
                     (db_service db) CollideExample.order [] 0%Z host in
    o_blocked (snd (code [])) = true /\
    o_blocked (snd (code (fst (code [])))) = true /\
    compacted [] = code [] /\
    o_err (snd (variant [])) = false /\
    o_blocked (snd (variant [])) = false /\
    snd (variant (fst (variant [])))
    = {| o_blocked := true; o_err := false; o_question := None; o_sets_left := 0 |}.
Proof.
  exists CollideExample.sha_gp, CollideExample.pubsuf, [CollideExample.sha_gp CollideExample.ex],
    CollideExample.a_b_ex, CollideExample.a_b_ex, CollideExample.b_ex, CollideExample.ex.
  split; [vm_compute; reflexivity|]. split; [vm_compute; reflexivity|].
  split; [vm_compute; discriminate|]. split; [now left|].
  split; [repeat constructor; vm_compute; try reflexivity; intros; discriminate|].
  cbn zeta. repeat split; vm_compute; reflexivity.
Qed.

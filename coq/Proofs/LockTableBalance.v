(** C05, round 6: the lock-balance table regenerated from the current source
    (Gen/LockTableBalance.v, written by tools/locktable/balance.go) checked
    with the definitions of Proofs/ConcBalance.v.

    The translator explores, per function, every path of the SSA control-flow
    graph up to the lock state (held multiset with acquisition sites, releases
    of locks not acquired here, deferred calls executed, known boolean flags)
    and emits for every exit (return or explicit panic) and every distinct
    state ONE witness path as a list of machine events.  Coq does not trust
    the translator's verdict on them: [exit_ok] re-evaluates [sections_end]
    on every witness.  For a plain function the witness must be neutral as it
    stands; for a declared hand-over (tools/locktable/handover.json, listed in
    [balance_handovers] with its reason) it must be neutral once the locks the
    caller hands in are acquired in front of it and the locks it hands back
    are released behind it; the rows of the CALLERS contain the declared
    effect at the call site, so they are checked with it.  The same for an
    anonymous closure whose effects are counted where it is called or
    deferred.  What remains trusted is the path exploration (that the states
    reaching an exit are all there), as for the rest of the lock table. *)
From Coq Require Import List String Bool Arith Lia.
From AGH Require Import Base.Conc Model.Guards Model.LockBalance Proofs.Conc Proofs.ConcGate Proofs.LockTable
  Proofs.LockTablePairs Proofs.LockTableGate Proofs.ConcLive Proofs.ConcBalance.
Import ListNotations.
Local Open Scope string_scope.
Local Open Scope list_scope.

Definition acqs (h : held) : list event := map (fun x => Acq (fst x) (snd x)) h.
Definition rels (h : held) : list event := map (fun x => Rel (fst x) (snd x)) h.

(** the witness of an exit in its context *)
Definition exit_path (x : bal_exit) : list event :=
  acqs (be_entry x) ++ be_events x ++ rels (be_exit x).

Definition exit_ok (x : bal_exit) : bool := sections_end (exit_path x).

Definition exit_plain (x : bal_exit) : bool := held_nil (be_entry x) && held_nil (be_exit x).

Definition is_plain (f : bal_fn) : bool := String.eqb (bf_kind f) "function".

(** every exit's witness ends its sections; a plain function without any help *)
Definition fn_ok (f : bal_fn) : bool :=
  forallb exit_ok (bf_exits f) &&
  (if is_plain f then forallb exit_plain (bf_exits f) else true).

(** a row that is a hand-over is one of the declared ones, with that effect *)
Definition handover_listed (hs : list (string * held * held * string)) (f : bal_fn) : bool :=
  if String.eqb (bf_kind f) "handover" then
    existsb (fun d => match d with (fn, rel, acq, _) =>
      String.eqb fn (bf_fn f) &&
      forallb (fun x => (same_held (be_entry x) rel && same_held (be_exit x) acq) || exit_plain x) (bf_exits f) end) hs
  else true.

Definition nil_b {A : Type} (l : list A) : bool := match l with [] => true | _ => false end.

(** a row whose non-neutral exits are excused is covered by a whitelist entry
    of tools/locktable/handover.json (function, key, reason) *)
Definition allowed_listed (al : list (string * string * string)) (f : bal_fn) : bool :=
  if String.eqb (bf_kind f) "allowed" then
    existsb (fun d => match d with (fn, _, _) => String.eqb fn (bf_fn f) end) al
  else true.

(** only the three kinds with a justification beside them may be non-plain *)
Definition kind_known (f : bal_fn) : bool :=
  String.eqb (bf_kind f) "function" || String.eqb (bf_kind f) "handover" ||
  String.eqb (bf_kind f) "closure-inlined" || String.eqb (bf_kind f) "allowed".

Definition balance_ok (fns : list bal_fn) (leaks : list bal_leak) (unres : list (string * string))
    (hs : list (string * held * held * string)) (al : list (string * string * string)) : bool :=
  forallb fn_ok fns && forallb (handover_listed hs) fns && nil_b leaks && nil_b unres &&
  forallb (allowed_listed al) fns && forallb kind_known fns.

(** * What the check means *)

Lemma exit_plain_path : forall x, exit_plain x = true -> exit_path x = be_events x.
Proof.
  intros x H; unfold exit_plain in H; apply andb_true_iff in H as [H1 H2].
  apply held_nil_true in H1; apply held_nil_true in H2.
  unfold exit_path; rewrite H1, H2; cbn [acqs rels map app]; apply app_nil_r.
Qed.

(** Generic in the table: in a table that passes, every path the translator
    found through every plain function is a list of sections that end: neutral
    whatever the caller holds, and insertable into any caller. *)
Theorem balance_ok_sections_end : forall fns leaks unres hs al,
  balance_ok fns leaks unres hs al = true ->
  leaks = [] /\ unres = [] /\
  forall f, In f fns -> is_plain f = true ->
  forall x, In x (bf_exits f) ->
    sections_end (be_events x) = true /\
    inlined (be_events x) /\
    forall h, balanced h (be_events x) = true /\ held_after h (be_events x) = h.
Proof.
  intros fns leaks unres hs al H; unfold balance_ok in H.
  apply andb_true_iff in H as [H _]; apply andb_true_iff in H as [H _].
  apply andb_true_iff in H as [H Hu]; apply andb_true_iff in H as [H Hl]; apply andb_true_iff in H as [H _].
  split; [destruct leaks; [reflexivity|discriminate]|].
  split; [destruct unres; [reflexivity|discriminate]|].
  intros f Hf Hp x Hx.
  rewrite forallb_forall in H; specialize (H f Hf); unfold fn_ok in H; rewrite Hp in H.
  apply andb_true_iff in H as [H1 H2]; rewrite forallb_forall in H1, H2.
  specialize (H1 x Hx); specialize (H2 x Hx); unfold exit_ok in H1; rewrite (exit_plain_path x H2) in H1.
  split; [exact H1|]. split; [apply inl_own; exact H1|apply sections_end_neutral; exact H1].
Qed.

(** ... and a hand-over path is neutral in the declared context. *)
Theorem balance_ok_handover : forall fns leaks unres hs al,
  balance_ok fns leaks unres hs al = true ->
  forall f, In f fns -> forall x, In x (bf_exits f) ->
    sections_end (acqs (be_entry x) ++ be_events x ++ rels (be_exit x)) = true.
Proof.
  intros fns leaks unres hs al H f Hf x Hx; unfold balance_ok in H.
  apply andb_true_iff in H as [H _]; apply andb_true_iff in H as [H _].
  apply andb_true_iff in H as [H _]; apply andb_true_iff in H as [H _]; apply andb_true_iff in H as [H _].
  rewrite forallb_forall in H; specialize (H f Hf); unfold fn_ok in H.
  apply andb_true_iff in H as [H1 _]; rewrite forallb_forall in H1; exact (H1 x Hx).
Qed.

(** Threads that pass the site-conformance check of the gate criterion are
    threads whose sections end: the premise of [gated_no_deadlock] and of
    [no_stall_gated] contains it. *)
Lemma conforms_sites_balanced_held : forall sites p h,
  conforms_sites sites h p = true -> balanced h p = true /\ held_after h p = [].
Proof.
  intros sites p; induction p as [|e p IH]; intros h H.
  - cbn [conforms_sites] in H; destruct h; [split; reflexivity|discriminate].
  - destruct e as [l m|l m|f|f]; cbn [conforms_sites balanced held_after] in *.
    + apply andb_true_iff in H as [_ H]. apply IH; exact H.
    + apply andb_true_iff in H as [Hm H]. rewrite Hm; cbn [andb]. apply IH; exact H.
    + apply IH; exact H.
    + apply IH; exact H.
Qed.

Theorem conforms_sites_sections_end : forall sites p,
  conforms_sites sites [] p = true -> sections_end p = true.
Proof.
  intros sites p H; apply sections_end_spec; exact (conforms_sites_balanced_held sites p [] H).
Qed.

(** Gate criterion + balance: threads conforming to a gated table never stall
    and leave every mutex free. *)
Theorem gated_balanced_stall_free : forall rank0 rkd sites,
  gated_with rank0 rkd sites = true ->
  forall progs, Forall (fun p => conforms_sites sites [] p = true) progs ->
  stall_free (init progs) /\
  (forall s, reachable (init progs) s -> forall n s', steps n s s' -> stuck s' ->
     finished s' /\
     forall l, writer (locks s' l) = false /\ readers (locks s' l) = 0 /\ pending (locks s' l) = 0).
Proof.
  intros rank0 rkd sites Hg progs Hp; apply balanced_threads_stall_free.
  - eapply Forall_impl; [|exact Hp]. intros p; apply conforms_sites_sections_end.
  - exact (gated_no_deadlock rank0 rkd sites Hg progs Hp).
Qed.

(** * Non-vacuity, and the shape of seeded change C05-K *)

Definition ex_fn_ok : bal_fn :=
  BalFn "(*dnsforward.Server).clientIDFromDNSContext" "function" "internal/dnsforward/beforerequest.go:68" [
    BalExit "return" "internal/dnsforward/beforerequest.go:102" [] []
      [Acq "dnsforward.Server.serverLock" R; Rel "dnsforward.Server.serverLock" R];
    BalExit "return" "internal/dnsforward/beforerequest.go:79" [] [] []].

(** the rows of the function with the change: explicit unlocks on the return
    paths, none on the return after a failed clientServerName *)
Definition ex_fn_leak : bal_fn :=
  BalFn "(*dnsforward.Server).clientIDFromDNSContext" "function" "internal/dnsforward/beforerequest.go:68" [
    BalExit "return" "internal/dnsforward/beforerequest.go:108" [] []
      [Acq "dnsforward.Server.serverLock" R; Rel "dnsforward.Server.serverLock" R];
    BalExit "return" "internal/dnsforward/beforerequest.go:95" [] []
      [Acq "dnsforward.Server.serverLock" R];
    BalExit "return" "internal/dnsforward/beforerequest.go:90" [] []
      [Acq "dnsforward.Server.serverLock" R; Rel "dnsforward.Server.serverLock" R]].

Definition ex_handover : bal_fn :=
  BalFn "stats.finishTxn" "handover" "internal/stats/unit.go:190" [
    BalExit "return" "internal/stats/unit.go:197" [("stats.StatsCtx.db.writer", W)] []
      [Rel "stats.StatsCtx.db.writer" W]].

Example balance_examples :
  balance_ok [ex_fn_ok; ex_handover] [] []
    [("stats.finishTxn", [("stats.StatsCtx.db.writer", W)], [], "ends the caller's transaction")] [] = true /\
  (* the changed function fails, at the exit that keeps the read lock *)
  fn_ok ex_fn_leak = false /\
  map exit_ok (bf_exits ex_fn_leak) = [true; false; true] /\
  (* a hand-over that is not declared fails *)
  balance_ok [ex_handover] [] [] [] [] = false /\
  (* a hand-over row passed off as a plain function fails *)
  fn_ok (BalFn "stats.finishTxn" "function" "" (bf_exits ex_handover)) = false /\
  (* a plain function that releases what it does not hold fails *)
  fn_ok (BalFn "f" "function" "" [BalExit "return" "" [] [] [Rel "mu" W]]) = false /\
  (* anything reported or unresolved fails *)
  balance_ok [ex_fn_ok] [BalLeak "leak" "f" ("mu", W) "a" "b"] [] [] [] = false /\
  balance_ok [ex_fn_ok] [] [("unresolved-balance@x", "pos")] [] [] = false /\
  (* an excused row needs its whitelist entry, and an unknown kind is no excuse *)
  balance_ok [BalFn "f" "allowed" "" [BalExit "return" "" [] [("mu", W)] [Acq "mu" W]]] [] [] [] [] = false /\
  balance_ok [BalFn "f" "allowed" "" [BalExit "return" "" [] [("mu", W)] [Acq "mu" W]]] [] [] []
    [("f", "unresolved-balance@f@mu", "the reason")] = true /\
  balance_ok [BalFn "f" "whatever" "" [BalExit "return" "" [] [("mu", W)] [Acq "mu" W]]] [] [] [] [] = false.
Proof. vm_compute. repeat split; reflexivity. Qed.

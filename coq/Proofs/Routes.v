(** The table theorem of C11, re-checked on every run against the table that
    tools/routes extracts from the current source (coq/Gen/Routes.v). *)
From AGH Require Import Base.Run Model.AuthHttp Model.AuthLife Proofs.AuthHttp Proofs.AuthCreds Proofs.AuthMethod Proofs.AuthLife Gen.Routes.

Definition gen_table_ok : bool :=
  table_ok Gen.Routes.routes Gen.Routes.reg_empty Gen.Routes.reg_method
           Gen.Routes.bindings Gen.Routes.muxes Gen.Routes.servers.

(** What the driver prints when the check fails. *)
Definition gen_offending : list (bytes * bytes) :=
  map (fun rt => (rt_pattern rt, rt_pos rt))
      (offending Gen.Routes.reg_empty Gen.Routes.reg_method Gen.Routes.routes).
Definition gen_bad_bindings : list bytes :=
  map snd (List.filter (fun b => negb (binding_ok b)) Gen.Routes.bindings).
Definition gen_bad_muxes : list bytes :=
  map (fun m => snd m) (List.filter (fun m => negb (mux_ok m)) Gen.Routes.muxes).
Definition gen_bad_servers : list bytes :=
  map (fun s => snd (fst (fst s))) (List.filter (fun s => negb (server_ok s)) Gen.Routes.servers).

Lemma all_routes_ok : gen_table_ok = true.
Proof. vm_compute. reflexivity. Qed.

(** The start-up glue as tools/routes reads it off the current source. *)
Lemma startup_code_ok : boot_code_ok Gen.Routes.startup = true.
Proof. vm_compute. reflexivity. Qed.

(** Round 3: in every route of the table that is not a listed exception, only
    method-blind wrappers (postInstall, preInstall, gzip, limitRequestBody)
    stand in front of optionalAuth: the refusal cannot depend on the method
    or on a header (Proofs/AuthCreds.v [refusal_method_header_independent]). *)
Definition route_blind (rm : list wrapper) (rt : route) : bool :=
  exception rt || blind_before_auth (chain_of rm rt).

Definition gen_not_blind : list (bytes * bytes) :=
  map (fun rt => (rt_pattern rt, rt_pos rt))
      (List.filter (fun rt => negb (route_blind Gen.Routes.reg_method rt)) Gen.Routes.routes).

Lemma all_routes_blind : forallb (route_blind Gen.Routes.reg_method) Gen.Routes.routes = true.
Proof. vm_compute. reflexivity. Qed.

(** Round 4: the declared methods ([route_method_ok] of Proofs/AuthMethod.v). *)
Definition gen_bad_methods : list (bytes * bytes) :=
  map (fun rt => (rt_pattern rt, rt_pos rt))
      (List.filter (fun rt => negb (route_method_ok rt)) Gen.Routes.routes).

Lemma all_routes_methods_canonical : forallb route_method_ok Gen.Routes.routes = true.
Proof. vm_compute. reflexivity. Qed.

(** Round 5: the routes after set-up, and when the wrapper constructors look
    at the state ([route_after_setup_ok], [wrappers_lazy_ok] of
    Proofs/AuthLife.v). *)
Definition gen_bad_after_setup : list (bytes * bytes) :=
  map (fun rt => (rt_pattern rt, rt_pos rt))
      (List.filter (fun rt => negb (route_after_setup_ok Gen.Routes.reg_method rt)) Gen.Routes.routes).

Lemma all_routes_after_setup : forallb (route_after_setup_ok Gen.Routes.reg_method) Gen.Routes.routes = true.
Proof. vm_compute. reflexivity. Qed.

Lemma wrappers_code_ok : wrappers_lazy_ok Gen.Routes.wrappers_lazy = true.
Proof. vm_compute. reflexivity. Qed.

Lemma configure_code_is_ok : configure_code_ok Gen.Routes.configure_code = true.
Proof. vm_compute. reflexivity. Qed.

(** The table theorem of C11, re-checked on every run against the table that
    tools/routes extracts from the current source (coq/Gen/Routes.v). *)
From AGH Require Import Base.Run Model.AuthHttp Model.AuthLife Proofs.AuthHttp Proofs.AuthCreds Proofs.AuthMethod Proofs.AuthLife Gen.Routes.

Definition gen_table_ok : bool :=
  table_ok Gen.Routes.routes Gen.Routes.reg_empty Gen.Routes.reg_method
           Gen.Routes.bindings Gen.Routes.muxes Gen.Routes.servers.

(** What the driver prints when the check fails. *)
Definition gen_offending : list (bytes * bytes) :=
  map (fun rt => (rt_pattern rt, rt_pos rt))
      (offending Gen.Routes.reg_empty Gen.Routes.reg_method Gen.Routes.routes).
Definition gen_bad_bindings : list bytes :=
  map snd (List.filter (fun b => negb (binding_ok b)) Gen.Routes.bindings).
Definition gen_bad_muxes : list bytes :=
  map (fun m => snd m) (List.filter (fun m => negb (mux_ok m)) Gen.Routes.muxes).
Definition gen_bad_servers : list bytes :=
  map (fun s => snd (fst (fst s))) (List.filter (fun s => negb (server_ok s)) Gen.Routes.servers).

Lemma all_routes_ok : gen_table_ok = true.
Proof. vm_compute. reflexivity. Qed.

(** The start-up glue as tools/routes reads it off the current source. *)
Lemma startup_code_ok : boot_code_ok Gen.Routes.startup = true.
Proof. vm_compute. reflexivity. Qed.

(** Round 3: in every route of the table that is not a listed exception, only
    method-blind wrappers (postInstall, preInstall, gzip, limitRequestBody)
    stand in front of optionalAuth: the refusal cannot depend on the method
    or on a header (Proofs/AuthCreds.v [refusal_method_header_independent]). *)
Definition route_blind (rm : list wrapper) (rt : route) : bool :=
  exception rt || blind_before_auth (chain_of rm rt).

Definition gen_not_blind : list (bytes * bytes) :=
  map (fun rt => (rt_pattern rt, rt_pos rt))
      (List.filter (fun rt => negb (route_blind Gen.Routes.reg_method rt)) Gen.Routes.routes).

Lemma all_routes_blind : forallb (route_blind Gen.Routes.reg_method) Gen.Routes.routes = true.
Proof. vm_compute. reflexivity. Qed.

(** Round 4: the declared methods ([route_method_ok] of Proofs/AuthMethod.v). *)
Definition gen_bad_methods : list (bytes * bytes) :=
  map (fun rt => (rt_pattern rt, rt_pos rt))
      (List.filter (fun rt => negb (route_method_ok rt)) Gen.Routes.routes).

Lemma all_routes_methods_canonical : forallb route_method_ok Gen.Routes.routes = true.
Proof. vm_compute. reflexivity. Qed.

(** Round 5: the routes after set-up, and when the wrapper constructors look
    at the state ([route_after_setup_ok], [wrappers_lazy_ok] of
    Proofs/AuthLife.v). *)
Definition gen_bad_after_setup : list (bytes * bytes) :=
  map (fun rt => (rt_pattern rt, rt_pos rt))
      (List.filter (fun rt => negb (route_after_setup_ok Gen.Routes.reg_method rt)) Gen.Routes.routes).

Lemma all_routes_after_setup : forallb (route_after_setup_ok Gen.Routes.reg_method) Gen.Routes.routes = true.
Proof. vm_compute. reflexivity. Qed.

Lemma wrappers_code_ok : wrappers_lazy_ok Gen.Routes.wrappers_lazy = true.
Proof. vm_compute. reflexivity. Qed.

Lemma configure_code_is_ok : configure_code_ok Gen.Routes.configure_code = true.
Proof. vm_compute. reflexivity. Qed.

(** Round 6: the identity of the mux behind every server (Gen/RoutesMux.v),
    and the declared table in front of its handlers ([Proofs/AuthMux.v]). *)
From AGH Require Import Model.AuthMux Proofs.AuthMux Gen.RoutesMux.

Definition gen_mux_ok : bool :=
  mux_table_ok Gen.RoutesMux.mux_rows Gen.RoutesMux.mux_escapes Gen.RoutesMux.default_mentions Gen.RoutesMux.pprof_guarded.

Definition gen_bad_mux_rows : list bytes :=
  map mr_pos (List.filter (fun r => negb (row_private r)) Gen.RoutesMux.mux_rows).

Lemma all_muxes_private : gen_mux_ok = true.
Proof. vm_compute. reflexivity. Qed.

Lemma gen_muxes_serve_declared {X} row :
  In row Gen.RoutesMux.mux_rows ->
  forall declared foreign : list (bytes * X), mux_content (mr_kind row) declared foreign = Some declared.
Proof.
  intros Hin. exact (table_muxes_private Gen.RoutesMux.mux_rows Gen.RoutesMux.mux_escapes Gen.RoutesMux.default_mentions
                     Gen.RoutesMux.pprof_guarded all_muxes_private row Hin).
Qed.

(** The declared table of the current source behind a mux that carries
    nothing else. *)
Lemma gen_undeclared_not_served {A R} (hs : route -> handler A R) e (w : world A) r :
  undeclared (map rt_pattern Gen.Routes.routes) (r_path r) = true ->
  e_auth_required e = true -> is_public (r_path r) = false -> authenticated e (w_sess w) r = false ->
  exists w' a, mux_serve (route_regs Gen.Routes.reg_method hs Gen.Routes.routes) e w r = (w', a) /\
    w_app w' = w_app w /\ not_handler a /\ session_effect e w r w'.
Proof.
  exact (undeclared_path_not_served Gen.Routes.reg_empty Gen.Routes.reg_method Gen.Routes.routes Gen.Routes.bindings
           Gen.Routes.muxes Gen.Routes.servers hs e w r all_routes_ok).
Qed.

(** The paths third-party packages are known to hang on the default mux are
    undeclared in the current table (the premise above is satisfiable), a
    declared path is not. *)
Example gen_undeclared_ex :
  undeclared (map rt_pattern Gen.Routes.routes) p_pprof_heap = true /\
  undeclared (map rt_pattern Gen.Routes.routes) [47;100;101;98;117;103;47;118;97;114;115]%N = true /\   (* /debug/vars *)
  undeclared (map rt_pattern Gen.Routes.routes) p_status = false.
Proof. vm_compute. repeat split; reflexivity. Qed.

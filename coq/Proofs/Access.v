(** Specification and proofs for the access lists (C03). *)
From Coq Require Import List NArith Bool Lia.
From AGH Require Import Base.Run Base.NetAddr Base.RuleEngine Model.Access.
From AGH Require Base.Bytes Base.Dom Model.ClientID Proofs.ClientID.
Import ListNotations.
Local Open Scope N_scope.

(** * Declarative reading of the configured lists *)

(** The address is listed literally (zone and family included), or lies in a
    listed CIDR after its zone is dropped. *)
Definition ip_listed (l : list entry) (ip : addr) : Prop :=
  In (EIP ip) l \/ exists p, In (ENet p) l /\ in_block p (without_zone ip).

(** The (already lower-cased, non-empty) request ClientID equals a listed
    ClientID up to the ASCII case of the listed one. *)
Definition cid_listed (l : list entry) (id : bytes) : Prop :=
  id <> [] /\ exists c, In (ECid c) l /\ lower c = id.

Definition has_entries (l : list entry) : Prop := l <> [].

(** * Loading *)

Definition ips_of (l : list entry) := flat_map (fun e => match e with EIP a => [a] | _ => [] end) l.
Definition nets_of (l : list entry) := flat_map (fun e => match e with ENet p => [p] | _ => [] end) l.
Definition cids_of (l : list entry) := flat_map (fun e => match e with ECid c => [lower c] | _ => [] end) l.

Lemma load_side_gen l s :
  fold_left add_entry l s =
  mkSide (s_ips s ++ ips_of l) (s_nets s ++ nets_of l) (s_cids s ++ cids_of l).
Proof.
  revert s; induction l as [|e l IH]; intros s; cbn [fold_left ips_of nets_of cids_of flat_map].
  - rewrite !app_nil_r. destruct s; reflexivity.
  - rewrite IH. destruct e; cbn [add_entry s_ips s_nets s_cids app];
      rewrite <- ?app_assoc; reflexivity.
Qed.

Lemma load_side_eq l : load_side l = mkSide (ips_of l) (nets_of l) (cids_of l).
Proof. unfold load_side. rewrite load_side_gen. reflexivity. Qed.

Lemma in_ips_of l a : In a (ips_of l) <-> In (EIP a) l.
Proof.
  unfold ips_of. rewrite in_flat_map. split.
  - intros (e & He & Hin). destruct e; cbn in Hin; try tauto. destruct Hin as [<-|[]]; exact He.
  - intros H. exists (EIP a). split; [exact H | left; reflexivity].
Qed.

Lemma in_nets_of l p : In p (nets_of l) <-> In (ENet p) l.
Proof.
  unfold nets_of. rewrite in_flat_map. split.
  - intros (e & He & Hin). destruct e; cbn in Hin; try tauto. destruct Hin as [<-|[]]; exact He.
  - intros H. exists (ENet p). split; [exact H | left; reflexivity].
Qed.

Lemma in_cids_of l id : In id (cids_of l) <-> exists c, In (ECid c) l /\ lower c = id.
Proof.
  unfold cids_of. rewrite in_flat_map. split.
  - intros (e & He & Hin). destruct e; cbn in Hin; try tauto.
    destruct Hin as [<-|[]]. eexists; split; [exact He | reflexivity].
  - intros (c & Hc & <-). exists (ECid c). split; [exact Hc | left; reflexivity].
Qed.

Lemma side_empty_load l : side_empty (load_side l) = true <-> l = [].
Proof.
  rewrite load_side_eq. split.
  - destruct l as [|e l]; [reflexivity|]. intros H. exfalso.
    unfold side_empty in H. destruct e; cbn in H;
      repeat match type of H with context [match ?x with _ => _ end] => destruct x end;
      discriminate.
  - intros ->. reflexivity.
Qed.

(** * Membership tests *)

Lemma mem_bytes_In x l : mem_bytes x l = true <-> In x l.
Proof.
  unfold mem_bytes. rewrite existsb_exists. split.
  - intros (y & Hy & He). apply eqb_bytes_spec in He. subst. exact Hy.
  - intros H. exists x. split; [exact H | apply eqb_bytes_spec; reflexivity].
Qed.

Lemma existsb_addr ip l : existsb (addr_eqb ip) l = true <-> In ip l.
Proof.
  rewrite existsb_exists. split.
  - intros (y & Hy & He). apply addr_eqb_spec in He. subst. exact Hy.
  - intros H. exists ip. split; [exact H | apply addr_eqb_spec; reflexivity].
Qed.

Lemma find_net_some nets ip i0 i :
  find_net nets ip i0 = Some i ->
  exists p, In p nets /\ prefix_contains p (without_zone ip) = true.
Proof.
  revert i0; induction nets as [|p nets IH]; intros i0; cbn [find_net]; [discriminate|].
  destruct (prefix_contains p (without_zone ip)) eqn:E.
  - intros _. exists p. split; [left; reflexivity | exact E].
  - intros H. destruct (IH _ H) as (q & Hq & Hc). exists q. split; [right; exact Hq | exact Hc].
Qed.

Lemma find_net_none nets ip i0 :
  find_net nets ip i0 = None ->
  forall p, In p nets -> prefix_contains p (without_zone ip) = false.
Proof.
  revert i0; induction nets as [|p nets IH]; intros i0; cbn [find_net]; [intros _ q []|].
  destruct (prefix_contains p (without_zone ip)) eqn:E; [discriminate|].
  intros H q [<-|Hq]; [exact E | exact (IH _ H q Hq)].
Qed.

(** [find_net] returns the first containing prefix. *)
Lemma find_net_first nets ip i0 i :
  find_net nets ip i0 = Some i ->
  (i0 <= i)%nat /\
  (exists p, nth_error nets (i - i0) = Some p /\ prefix_contains p (without_zone ip) = true) /\
  forall j p, (j < i - i0)%nat -> nth_error nets j = Some p ->
              prefix_contains p (without_zone ip) = false.
Proof.
  revert i0; induction nets as [|p nets IH]; intros i0; cbn [find_net]; [discriminate|].
  destruct (prefix_contains p (without_zone ip)) eqn:E.
  - intros [= <-]. split; [lia|]. rewrite Nat.sub_diag. split.
    + exists p. split; [reflexivity | exact E].
    + intros j q Hj. lia.
  - intros H. destruct (IH _ H) as (Hle & (q & Hq & Hc) & Hfirst).
    split; [lia|]. replace (i - i0)%nat with (S (i - S i0)) by lia. split.
    + exists q. split; [exact Hq | exact Hc].
    + intros [|j] r Hj Hr; cbn in Hr.
      * inversion Hr; subst; exact E.
      * apply (Hfirst j r); [lia | exact Hr].
Qed.

(** The side that decides, searched for an address. *)
Definition side_has_ip (s : side) (ip : addr) : Prop :=
  In ip (s_ips s) \/ exists p, In p (s_nets s) /\ in_block p (without_zone ip).

Lemma side_search s ip :
  (existsb (addr_eqb ip) (s_ips s) = true \/ exists i, find_net (s_nets s) ip 0 = Some i)
  <-> side_has_ip s ip.
Proof.
  unfold side_has_ip. rewrite existsb_addr. split.
  - intros [H|[i H]]; [left; exact H|]. right.
    destruct (find_net_some _ _ _ _ H) as (p & Hp & Hc).
    exists p. split; [exact Hp | apply prefix_contains_spec; exact Hc].
  - intros [H|(p & Hp & Hb)]; [left; exact H|]. right.
    destruct (find_net (s_nets s) ip 0) eqn:E; [eexists; reflexivity|].
    apply prefix_contains_spec in Hb. rewrite (find_net_none _ _ _ E p Hp) in Hb. discriminate.
Qed.

Lemma is_blocked_ip_spec a ip :
  let alm := allowlist_mode a in
  let s := if alm then ac_allowed a else ac_blocked a in
  fst (is_blocked_ip a ip) = (if alm then false else true) <-> side_has_ip s ip.
Proof.
  cbv zeta. rewrite <- side_search. unfold is_blocked_ip.
  destruct (allowlist_mode a); cbn [negb];
  destruct (existsb (addr_eqb ip) _) eqn:E1; cbn [fst];
  try (split; [intros _; left; reflexivity | reflexivity]);
  destruct (find_net _ ip 0) eqn:E2; cbn [fst];
  try (split; [intros _; right; eexists; reflexivity | reflexivity]);
  (split; [discriminate | intros [H|[i H]]; discriminate]).
Qed.

Lemma side_has_ip_load l ip : side_has_ip (load_side l) ip <-> ip_listed l ip.
Proof.
  unfold side_has_ip, ip_listed. rewrite load_side_eq. cbn [s_ips s_nets].
  rewrite in_ips_of. split; (intros [H|(p & Hp & Hb)]; [left; exact H | right; exists p]).
  - split; [apply in_nets_of; exact Hp | exact Hb].
  - split; [apply in_nets_of; exact Hp | exact Hb].
Qed.

(** * The decision *)

Definition admitted (a : access) (ip : option addr) (id : bytes) : Prop :=
  fst (is_blocked_client a ip id) = false.
Definition excluded (a : access) (ip : option addr) (id : bytes) : Prop :=
  fst (is_blocked_client a ip id) = true.

Lemma allowlist_mode_new allowed blocked hosts :
  allowlist_mode (new_access allowed blocked hosts) = true <-> has_entries allowed.
Proof.
  unfold allowlist_mode, new_access, has_entries. cbn [ac_allowed].
  rewrite negb_true_iff. pose proof (side_empty_load allowed) as H.
  destruct (side_empty (load_side allowed)).
  - split; [discriminate | intros Hn; exfalso; apply Hn, H; reflexivity].
  - split; [intros _ He; apply H in He; discriminate | reflexivity].
Qed.

Lemma cid_mem_load l id :
  id <> [] -> (mem_bytes id (s_cids (load_side l)) = true <-> cid_listed l id).
Proof.
  intros Hid. rewrite mem_bytes_In, load_side_eq. cbn [s_cids]. rewrite in_cids_of.
  unfold cid_listed. tauto.
Qed.

(** Allow-list mode: admitted exactly when the address or the ClientID is
    allowed. *)
Theorem allowlist_mode_spec allowed blocked hosts ip id :
  has_entries allowed ->
  (admitted (new_access allowed blocked hosts) (Some ip) id <->
   ip_listed allowed ip \/ cid_listed allowed id).
Proof.
  intros Hne. set (a := new_access allowed blocked hosts).
  assert (Halm : allowlist_mode a = true) by (apply allowlist_mode_new; exact Hne).
  pose proof (is_blocked_ip_spec a ip) as Hip. cbv zeta in Hip. rewrite Halm in Hip.
  rewrite <- side_has_ip_load. change (load_side allowed) with (ac_allowed a).
  rewrite <- Hip. clear Hip.
  unfold admitted, is_blocked_client. destruct (is_blocked_ip a ip) as [by_ip rk]. cbn [fst].
  rewrite Halm. cbn [negb andb].
  unfold is_blocked_clientid. rewrite Halm.
  destruct id as [|c id'].
  - destruct by_ip; cbn [andb fst]; split; try tauto; try discriminate.
    + intros [H|[H _]]; [discriminate | congruence].
  - pose proof (cid_mem_load allowed (c :: id') ltac:(discriminate)) as Hc.
    change (load_side allowed) with (ac_allowed a) in Hc.
    destruct (mem_bytes (c :: id') (s_cids (ac_allowed a))); cbn [negb].
    + destruct by_ip; cbn [andb fst]; split; try reflexivity; intros _; right; apply Hc; reflexivity.
    + destruct by_ip; cbn [andb fst]; split; try tauto; try discriminate.
      intros [H|H]; [discriminate | apply Hc in H; discriminate].
Qed.

(** ... and the disallowed list plays no part in it. *)
Theorem allowlist_mode_ignores_blocked allowed b1 b2 hosts ip id :
  has_entries allowed ->
  fst (is_blocked_client (new_access allowed b1 hosts) ip id) =
  fst (is_blocked_client (new_access allowed b2 hosts) ip id).
Proof.
  intros Hne.
  assert (H1 := proj2 (allowlist_mode_new allowed b1 hosts) Hne).
  assert (H2 := proj2 (allowlist_mode_new allowed b2 hosts) Hne).
  unfold is_blocked_client, is_blocked_ip, is_blocked_clientid. rewrite H1, H2.
  cbn [new_access ac_allowed negb andb]. reflexivity.
Qed.

(** Block-list mode: excluded exactly when the address or the ClientID is
    disallowed. *)
Theorem blocklist_mode_spec blocked hosts ip id :
  excluded (new_access [] blocked hosts) (Some ip) id <->
  ip_listed blocked ip \/ cid_listed blocked id.
Proof.
  set (a := new_access [] blocked hosts).
  assert (Halm : allowlist_mode a = false) by reflexivity.
  pose proof (is_blocked_ip_spec a ip) as Hip. cbv zeta in Hip. rewrite Halm in Hip.
  rewrite <- side_has_ip_load. change (load_side blocked) with (ac_blocked a).
  rewrite <- Hip. clear Hip.
  unfold excluded, is_blocked_client. destruct (is_blocked_ip a ip) as [by_ip rk]. cbn [fst].
  rewrite Halm. cbn [negb andb].
  unfold is_blocked_clientid. rewrite Halm.
  destruct id as [|c id'].
  - rewrite orb_false_r. destruct by_ip; cbn [fst]; split; try tauto; try discriminate.
    intros [H|[H _]]; [discriminate | congruence].
  - pose proof (cid_mem_load blocked (c :: id') ltac:(discriminate)) as Hc.
    change (load_side blocked) with (ac_blocked a) in Hc.
    destruct (mem_bytes (c :: id') (s_cids (ac_blocked a))).
    + rewrite orb_true_r. cbn [fst]. split; [intros _; right; apply Hc; reflexivity | reflexivity].
    + rewrite orb_false_r. destruct by_ip; cbn [fst]; split; try tauto; try discriminate.
      all: try (intros [H|H]; [discriminate | apply Hc in H; discriminate]).
Qed.

(** The zero [netip.Addr] (never produced by dnsproxy for a real client):
    in block-list mode only the ClientID counts; in allow-list mode such a
    request is admitted whatever the lists say. *)
Lemma zero_addr_allowlist allowed blocked hosts id :
  has_entries allowed -> admitted (new_access allowed blocked hosts) None id.
Proof.
  intros Hne. unfold admitted, is_blocked_client.
  rewrite (proj2 (allowlist_mode_new allowed blocked hosts) Hne). reflexivity.
Qed.

(** * Serving *)

Definition blocked_request (a : access) (ip : option addr) (id : bytes) (q : option (bytes * N)) : Prop :=
  excluded a ip id \/
  exists name qt, q = Some (name, qt) /\ is_blocked_host a (normalize_domain name) qt = true.

Definition expected_refusal {R} (p : proto) : @reply R :=
  match p with PUDP | PDNSCrypt => NoReply | _ => Refused end.

Section Serve.
  Context {S Req Resp : Type}.
  Variable handler : S -> Req -> S * Resp.

  (** An excluded client or a blocked name: the handler does not run (its
      state, i.e. upstream log, query log, statistics, is untouched), the
      ClientID cache is untouched; nothing is sent over UDP / DNSCrypt, only
      REFUSED elsewhere. *)
  Theorem blocked_not_served a p ip id q cache st rq :
    blocked_request a ip id q ->
    serve handler a p (Some id) ip q cache st rq = (st, cache, expected_refusal p).
  Proof.
    intros Hb. unfold serve, handle_before.
    destruct Hb as [He|(name & qt & -> & Hh)].
    - unfold excluded in He. rewrite He. destruct p; reflexivity.
    - destruct (fst (is_blocked_client a ip id)); [destruct p; reflexivity|].
      rewrite Hh. destruct p; reflexivity.
  Qed.

  (** Everything else is handed to the handler unchanged. *)
  Theorem others_served a p ip id q cache st rq :
    ~ blocked_request a ip id q ->
    serve handler a p (Some id) ip q cache st rq =
    (fst (handler st rq),
     match id with [] => cache | _ => id :: cache end,
     Answer (snd (handler st rq))).
  Proof.
    intros Hn. unfold serve, handle_before.
    destruct (fst (is_blocked_client a ip id)) eqn:E.
    - exfalso. apply Hn. left. exact E.
    - assert (Hh : match q with
                   | Some (name, qt) => is_blocked_host a (normalize_domain name) qt
                   | None => false end = false).
      { destruct q as [[name qt]|]; [|reflexivity].
        destruct (is_blocked_host a (normalize_domain name) qt) eqn:Eh; [|reflexivity].
        exfalso. apply Hn. right. exists name, qt. split; [reflexivity | exact Eh]. }
      rewrite Hh. destruct (handler st rq) as [st' r]. destruct id; reflexivity.
  Qed.

  (** A failed ClientID extraction answers SERVFAIL and touches nothing. *)
  Lemma bad_clientid_servfail a p ip q cache st rq :
    serve handler a p None ip q cache st rq = (st, cache, Servfail).
  Proof. reflexivity. Qed.
End Serve.

(** * Non-vacuity *)

Definition ex_ip : addr := mkAddr V4 16909060 [].            (* 1.2.3.4 *)
Definition ex_net : prefix := mkPrefix V4 16908288 16.       (* 1.2.0.0/16 *)
Definition ex_cid : bytes := [77; 121; 80].                  (* "MyP" *)

Example allowlist_premises_satisfiable :
  has_entries [ENet ex_net; ECid ex_cid] /\
  admitted (new_access [ENet ex_net; ECid ex_cid] [EIP ex_ip] []) (Some ex_ip) [] /\
  admitted (new_access [ENet ex_net; ECid ex_cid] [] []) (Some (mkAddr V4 5 [])) (lower ex_cid) /\
  excluded (new_access [ENet ex_net; ECid ex_cid] [] []) (Some (mkAddr V4 5 [])) [120].
Proof. repeat split; discriminate. Qed.

Example blocklist_premises_satisfiable :
  excluded (new_access [] [ENet ex_net] []) (Some ex_ip) [] /\
  excluded (new_access [] [ECid ex_cid] []) (Some (mkAddr V6 1 [])) (lower ex_cid) /\
  admitted (new_access [] [ECid ex_cid] []) (Some (mkAddr V6 1 [])) [120].
Proof. repeat split. Qed.

Definition ex_host_rule : rule :=
  RNet (mkNRule 0 false [124;124;65;46;116;101;115;116;94] false false [] []
          (mkClients [] []) (mkClients [] []) [] [] [] None).    (* ||A.test^ *)

Example blocked_request_satisfiable :
  blocked_request (new_access [] [] [ex_host_rule]) (Some ex_ip) []
    (Some ([66;46;97;46;84;69;83;84;46], 1)) /\       (* "B.a.TEST." A *)
  ~ blocked_request (new_access [] [] [ex_host_rule]) (Some ex_ip) []
    (Some ([120;46;116;101;115;116;46], 1)).          (* "x.test." *)
Proof.
  split.
  - right. do 2 eexists. split; [reflexivity | vm_compute; reflexivity].
  - intros [H|(n & qt & Hq & Hh)]; [discriminate|]. inversion Hq; subst. vm_compute in Hh. discriminate.
Qed.

(** * HandleBefore with ClientID extraction and the ClientID cache *)

Module CID := AGH.Model.ClientID.
Module CIDP := AGH.Proofs.ClientID.

(** The lower-casing of the extraction (Base/Bytes.v) and of the access lists
    (Base/RuleEngine.v) are the same function. *)
Lemma lower_same s : Base.Bytes.lower s = lower s.
Proof. reflexivity. Qed.

(** ** What the hook returns *)

Lemma handle_before_blocked a p ip id q :
  blocked_request a ip id q -> handle_before a p (Some id) ip q = pre_blocked p.
Proof.
  intros Hb. unfold handle_before.
  destruct Hb as [He|(name & qt & -> & Hh)].
  - unfold excluded in He. rewrite He. reflexivity.
  - destruct (fst (is_blocked_client a ip id)); [reflexivity|]. rewrite Hh. reflexivity.
Qed.

Lemma handle_before_admitted a p ip id q :
  ~ blocked_request a ip id q ->
  handle_before a p (Some id) ip q = BContinue (match id with [] => None | _ => Some id end).
Proof.
  intros Hn. unfold handle_before.
  destruct (fst (is_blocked_client a ip id)) eqn:E.
  - exfalso. apply Hn. left. exact E.
  - destruct q as [[name qt]|]; [|reflexivity].
    destruct (is_blocked_host a (normalize_domain name) qt) eqn:Eh; [|reflexivity].
    exfalso. apply Hn. right. exists name, qt. split; [reflexivity | exact Eh].
Qed.

Definition let_through (b : before) : Prop := exists o, b = BContinue o.

Definition secure_proto (p : proto) : Prop := p = PTLS \/ p = PHTTPS \/ p = PQUIC.

Lemma pre_blocked_not_through p : ~ let_through (pre_blocked p).
Proof. intros [o H]. destruct p; discriminate. Qed.

(** The ClientID extraction fails only over DoT, DoH and DoQ: a plain or
    DNSCrypt request is never answered SERVFAIL by the hook. *)
Lemma extraction_error_secure t x : extract_clientid t x = None -> secure_proto (cx_proto x).
Proof.
  unfold extract_clientid, secure_proto. destruct (cx_proto x); cbn; intros H;
    try discriminate; auto.
Qed.

Lemma plain_no_clientid t x :
  ~ secure_proto (cx_proto x) -> extract_clientid t x = Some [].
Proof.
  unfold extract_clientid, secure_proto. destruct (cx_proto x); cbn; intros H;
    try reflexivity; exfalso; apply H; auto.
Qed.

(** ** The cache *)

Lemma cache_find_app_none k c1 c2 :
  cache_find k c1 = None -> cache_find k (c1 ++ c2) = cache_find k c2.
Proof.
  induction c1 as [|[k' v'] c1 IH]; cbn [cache_find app]; [reflexivity|].
  destruct (k' =? k); [discriminate | exact IH].
Qed.

Lemma cache_find_remove_same k c : cache_find k (cache_remove k c) = None.
Proof.
  induction c as [|[k' v'] c IH]; [reflexivity|].
  unfold cache_remove in *. cbn [filter fst].
  destruct (k' =? k) eqn:E; cbn [negb]; [exact IH|].
  cbn [cache_find]. rewrite E. exact IH.
Qed.

Lemma cache_find_remove_none k k' c :
  cache_find k c = None -> cache_find k (cache_remove k' c) = None.
Proof.
  induction c as [|[k0 v0] c IH]; [reflexivity|].
  unfold cache_remove in *. cbn [cache_find filter fst].
  destruct (k0 =? k) eqn:E; [discriminate|]. intros H.
  destruct (k0 =? k'); cbn [negb]; [exact (IH H)|].
  cbn [cache_find]. rewrite E. exact (IH H).
Qed.

Lemma cache_remove_app k c1 c2 :
  cache_remove k (c1 ++ c2) = cache_remove k c1 ++ cache_remove k c2.
Proof. apply filter_app. Qed.

Lemma cache_remove_length k c : (length (cache_remove k c) <= length c)%nat.
Proof.
  unfold cache_remove. induction c as [|e c IH]; cbn [filter length]; [lia|].
  destruct (negb (fst e =? k)); cbn [length]; lia.
Qed.

Lemma cache_find_set_same cap c k v : cache_find k (cache_set cap c k v) = Some v.
Proof.
  unfold cache_set. rewrite cache_find_app_none by apply cache_find_remove_same.
  cbn [cache_find]. rewrite N.eqb_refl. reflexivity.
Qed.

(** A hit returns the stored value and keeps it stored. *)
Lemma cache_get_hit c k v :
  cache_find k c = Some v ->
  snd (cache_get c k) = Some v /\ cache_find k (fst (cache_get c k)) = Some v.
Proof.
  intros H. unfold cache_get. rewrite H. cbn [fst snd]. split; [reflexivity|].
  rewrite cache_find_app_none by apply cache_find_remove_same.
  cbn [cache_find]. rewrite N.eqb_refl. reflexivity.
Qed.

Lemma cache_get_miss c k : cache_find k c = None -> cache_get c k = (c, None).
Proof. intros H. unfold cache_get. rewrite H. reflexivity. Qed.

(** [k] is stored with value [v] and at most [n] entries are more recently
    used. *)
Definition stored_recent (k : N) (v : bytes) (n : nat) (c : cid_cache) : Prop :=
  exists pre post, c = pre ++ (k, v) :: post /\ cache_find k pre = None /\ (length post <= n)%nat.

Lemma stored_recent_find k v n c : stored_recent k v n c -> cache_find k c = Some v.
Proof.
  intros (pre & post & -> & Hp & _). rewrite cache_find_app_none by exact Hp.
  cbn [cache_find]. rewrite N.eqb_refl. reflexivity.
Qed.

Lemma stored_recent_mono k v n m c : (n <= m)%nat -> stored_recent k v n c -> stored_recent k v m c.
Proof. intros Hle (pre & post & H1 & H2 & H3). exists pre, post. repeat split; auto. lia. Qed.

Lemma stored_recent_set cap c k v : stored_recent k v 0 (cache_set cap c k v).
Proof.
  unfold cache_set. eexists _, []. split; [reflexivity|].
  split; [apply cache_find_remove_same | apply Nat.le_refl].
Qed.

Lemma stored_recent_touch k v n c k' v' :
  k' <> k -> stored_recent k v n c ->
  stored_recent k v (S n) (cache_remove k' c ++ [(k', v')]).
Proof.
  intros Hne (pre & post & -> & Hp & Hl).
  exists (cache_remove k' pre), (cache_remove k' post ++ [(k', v')]).
  split.
  - rewrite cache_remove_app. unfold cache_remove at 2. cbn [filter fst].
    assert ((k =? k') = false) as -> by (apply N.eqb_neq; congruence).
    cbn [negb]. rewrite <- app_assoc. reflexivity.
  - split; [apply cache_find_remove_none, Hp|].
    rewrite app_length. cbn [length]. pose proof (cache_remove_length k' post). lia.
Qed.

(** Another key is written: the entry stays unless it is the least recently
    used one of a full cache. *)
Lemma stored_recent_other_set cap k v n c k' v' :
  k' <> k -> (cap = 0 \/ N.of_nat (S n) < cap) ->
  stored_recent k v n c -> stored_recent k v (S n) (cache_set cap c k' v').
Proof.
  intros Hne Hcap Hs. unfold cache_set.
  apply stored_recent_touch; [exact Hne|].
  destruct (N.of_nat (length c) =? cap) eqn:E; [|exact Hs].
  apply N.eqb_eq in E. destruct Hs as (pre & post & -> & Hp & Hl).
  destruct pre as [|[k0 v0] pre].
  - exfalso. cbn [app length] in E. destruct Hcap as [->|Hlt]; lia.
  - cbn [app tl]. exists pre, post. split; [reflexivity|]. split; [|exact Hl].
    cbn [cache_find] in Hp. destruct (k0 =? k); [discriminate | exact Hp].
Qed.

Lemma stored_recent_other_get k v n c k' :
  k' <> k -> stored_recent k v n c -> stored_recent k v (S n) (fst (cache_get c k')).
Proof.
  intros Hne Hs. unfold cache_get. destruct (cache_find k' c) as [v'|]; cbn [fst].
  - apply stored_recent_touch; assumption.
  - apply (stored_recent_mono k v n); [lia | exact Hs].
Qed.

(** ** One request *)

(** The cache changes exactly when the request is let through with a
    non-empty ClientID. *)
Theorem before_step_cache cap a t x c :
  fst (before_step cap a t x c) =
  match handle_before_ctx a t x with
  | BContinue (Some id) => cache_set cap c (cx_rid x) id
  | _ => c
  end.
Proof. reflexivity. Qed.

Theorem not_let_through_cache_unchanged cap a t x c :
  ~ let_through (snd (before_step cap a t x c)) -> fst (before_step cap a t x c) = c.
Proof.
  unfold before_step. cbn [fst snd]. destruct (handle_before_ctx a t x) as [| | |o]; try reflexivity.
  intros H. exfalso. apply H. exists o. reflexivity.
Qed.

(** What the hook returns, by cases on the extraction and the lists. *)
Theorem handle_before_ctx_spec a t x :
  match extract_clientid t x with
  | None => handle_before_ctx a t x = BServfail /\ secure_proto (cx_proto x)
  | Some id =>
      (blocked_request a (cx_ip x) id (cx_q x) /\ handle_before_ctx a t x = pre_blocked (cx_proto x)) \/
      (~ blocked_request a (cx_ip x) id (cx_q x) /\
       handle_before_ctx a t x = BContinue (match id with [] => None | _ => Some id end))
  end.
Proof.
  unfold handle_before_ctx. destruct (extract_clientid t x) as [id|] eqn:E.
  - destruct (fst (is_blocked_client a (cx_ip x) id)) eqn:Ec.
    + left. assert (Hb : blocked_request a (cx_ip x) id (cx_q x)) by (left; exact Ec).
      split; [exact Hb | apply handle_before_blocked, Hb].
    + destruct (cx_q x) as [[name qt]|] eqn:Eq.
      * destruct (is_blocked_host a (normalize_domain name) qt) eqn:Eh.
        -- left. assert (Hb : blocked_request a (cx_ip x) id (Some (name, qt))).
           { right. exists name, qt. split; [reflexivity | exact Eh]. }
           split; [exact Hb | apply handle_before_blocked, Hb].
        -- right. assert (Hn : ~ blocked_request a (cx_ip x) id (Some (name, qt))).
           { intros [H|(n' & q' & Hq & Hh)]; [unfold excluded in H; congruence|].
             inversion Hq; subst. congruence. }
           split; [exact Hn | apply handle_before_admitted, Hn].
      * right. assert (Hn : ~ blocked_request a (cx_ip x) id None).
        { intros [H|(n' & q' & Hq & _)]; [unfold excluded in H; congruence | discriminate]. }
        split; [exact Hn | apply handle_before_admitted, Hn].
  - split; [reflexivity | apply extraction_error_secure with t, E].
Qed.

Section ServeCtx.
  Context {S Req Resp : Type}.
  Variable handler : S -> bytes -> Req -> S * Resp.

  (** An excluded client (by address or by the ClientID extracted from its
      DoH path / DoT / DoQ server name) or a blocked name: the handler does
      not run, the ClientID cache is unchanged, no reply over UDP / DNSCrypt
      and REFUSED elsewhere. *)
  Theorem blocked_ctx_not_served cap a t x id c st rq :
    extract_clientid t x = Some id ->
    blocked_request a (cx_ip x) id (cx_q x) ->
    serve_ctx handler cap a t x c st rq = (st, c, expected_refusal (cx_proto x)).
  Proof.
    intros He Hb. unfold serve_ctx, before_step, handle_before_ctx. rewrite He.
    rewrite (handle_before_blocked _ _ _ _ _ Hb). destruct (cx_proto x); reflexivity.
  Qed.

  (** A ClientID that cannot be extracted: SERVFAIL whatever the lists say
      (also for an address the lists exclude), nothing runs, the cache is
      unchanged; this happens over DoT / DoH / DoQ only. *)
  Theorem extraction_error_not_served cap a t x c st rq :
    extract_clientid t x = None ->
    serve_ctx handler cap a t x c st rq = (st, c, Servfail) /\ secure_proto (cx_proto x).
  Proof.
    intros He. split; [|apply extraction_error_secure with t, He].
    unfold serve_ctx, before_step, handle_before_ctx. rewrite He. reflexivity.
  Qed.

  (** Everything else is served, and the handler is given exactly the
      extracted ClientID: processInitial reads back what HandleBefore wrote
      for this request id (for a request without ClientID: provided no entry
      with its id is in the cache, which dnsproxy's request counter ensures). *)
  Theorem admitted_ctx_served cap a t x id c st rq :
    extract_clientid t x = Some id ->
    ~ blocked_request a (cx_ip x) id (cx_q x) ->
    (id = [] -> cache_find (cx_rid x) c = None) ->
    exists c',
      serve_ctx handler cap a t x c st rq =
        (fst (handler st id rq), c', Answer (snd (handler st id rq))) /\
      (id = [] -> c' = c) /\
      (id <> [] -> cache_find (cx_rid x) c' = Some id).
  Proof.
    intros He Hn Hfresh. unfold serve_ctx, before_step, handle_before_ctx. rewrite He.
    rewrite (handle_before_admitted _ _ _ _ _ Hn). destruct id as [|b id'].
    - unfold initial_read. rewrite (cache_get_miss _ _ (Hfresh eq_refl)).
      destruct (handler st [] rq) as [st' r]. exists c. cbn [fst snd].
      split; [reflexivity|]. split; [reflexivity | congruence].
    - set (id := b :: id') in *. unfold initial_read.
      pose proof (cache_get_hit _ _ _ (cache_find_set_same cap c (cx_rid x) id)) as [Hv Hf].
      destruct (cache_get (cache_set cap c (cx_rid x) id) (cx_rid x)) as [c2 v]. cbn [fst snd] in Hv, Hf.
      subst v. destruct (handler st id rq) as [st' r]. exists c2. cbn [fst snd].
      split; [reflexivity|]. split; [discriminate | intros _; exact Hf].
  Qed.
End ServeCtx.

(** ** Interleaved requests *)

Definition hop_rid (o : hop) : N := match o with HBefore x => cx_rid x | HInitial r => r end.

Lemma stored_recent_hist_step cap a t k v n c o :
  hop_rid o <> k -> (cap = 0 \/ N.of_nat (S n) < cap) ->
  stored_recent k v n c -> stored_recent k v (S n) (fst (hist_step cap a t c o)).
Proof.
  intros Hne Hcap Hs. destruct o as [x|r]; cbn [hop_rid] in Hne.
  - unfold hist_step, before_step.
    destruct (handle_before_ctx a t x) as [| | |[id|]]; cbn [fst];
      try (apply (stored_recent_mono k v n); [lia | exact Hs]).
    apply stored_recent_other_set; assumption.
  - unfold hist_step, initial_read.
    pose proof (stored_recent_other_get k v n c r Hne Hs) as H.
    destruct (cache_get c r) as [c' o]. exact H.
Qed.

Lemma run_hist_cons cap a t c o ops :
  fst (run_hist cap a t c (o :: ops)) = fst (run_hist cap a t (fst (hist_step cap a t c o)) ops).
Proof.
  cbn [run_hist]. destruct (hist_step cap a t c o) as [c1 ob]. cbn [fst].
  destruct (run_hist cap a t c1 ops) as [c2 obs]. reflexivity.
Qed.

Lemma stored_recent_run_hist cap a t k v ops : forall n c,
  Forall (fun o => hop_rid o <> k) ops ->
  (cap = 0 \/ N.of_nat (n + length ops) < cap) ->
  stored_recent k v n c ->
  cache_find k (fst (run_hist cap a t c ops)) = Some v.
Proof.
  induction ops as [|o ops IH]; intros n c Hall Hcap Hs.
  - cbn. apply stored_recent_find with n, Hs.
  - rewrite run_hist_cons. inversion Hall as [|? ? Ho Hrest]; subst.
    apply (IH (Datatypes.S n)).
    + exact Hrest.
    + cbn [length] in Hcap. destruct Hcap as [->|H]; [left; reflexivity | right; lia].
    + apply stored_recent_hist_step; [exact Ho | | exact Hs].
      cbn [length] in Hcap. destruct Hcap as [->|H]; [left; reflexivity | right; lia].
Qed.

(** The ClientID written for a request survives any interleaving of fewer
    than [cap] hooks and reads of other requests (any number for an unbounded
    cache): processInitial then reads exactly that ClientID. *)
Theorem clientid_survives_interleaving cap a t x id c ops :
  handle_before_ctx a t x = BContinue (Some id) ->
  Forall (fun o => hop_rid o <> cx_rid x) ops ->
  (cap = 0 \/ N.of_nat (length ops) < cap) ->
  snd (initial_read (fst (run_hist cap a t (fst (before_step cap a t x c)) ops)) (cx_rid x)) = id.
Proof.
  intros Hb Hall Hcap.
  assert (Hf : cache_find (cx_rid x)
                 (fst (run_hist cap a t (fst (before_step cap a t x c)) ops)) = Some id).
  { apply (stored_recent_run_hist cap a t (cx_rid x) id ops 0); [exact Hall | exact Hcap |].
    rewrite before_step_cache, Hb. apply stored_recent_set. }
  unfold initial_read. destruct (cache_get_hit _ _ _ Hf) as [Hv _].
  destruct (cache_get _ (cx_rid x)) as [c' v]. cbn [snd] in *. subst v. reflexivity.
Qed.

(** ** Extraction composed with the decision *)

Lemma cid_listed_excluded blocked hosts ip id :
  cid_listed blocked id -> excluded (new_access [] blocked hosts) ip id.
Proof.
  intros Hc. destruct ip as [ip|].
  - apply blocklist_mode_spec. right. exact Hc.
  - pose proof Hc as [Hne _]. apply (cid_mem_load blocked id Hne) in Hc.
    unfold excluded, is_blocked_client, is_blocked_clientid.
    assert (Halm : allowlist_mode (new_access [] blocked hosts) = false) by reflexivity.
    rewrite Halm. cbn [negb andb orb]. destruct id as [|b id']; [congruence|].
    change (ac_blocked (new_access [] blocked hosts)) with (load_side blocked). rewrite Hc. reflexivity.
Qed.

Lemma valid_label_lower_nonempty l : Base.Dom.valid_label l -> lower l <> [].
Proof. intros [H _]. destruct l; [congruence | discriminate]. Qed.

Lemma same_clientid_listed l c0 entries :
  Base.Dom.valid_label l -> In (ECid c0) entries -> lower c0 = lower l -> cid_listed entries (lower l).
Proof.
  intros Hv Hin He. split; [apply valid_label_lower_nonempty, Hv|]. exists c0. split; assumption.
Qed.

(** Extraction facts of C16 restated for [extract_clientid]. *)
Lemma extract_doh_path t sni r ip q rid l :
  CIDP.path_id (CID.d_path r) l -> Base.Dom.valid_label l ->
  extract_clientid t (mkCtx PHTTPS sni (Some r) ip q rid) = Some (lower l).
Proof.
  intros Hp Hv. unfold extract_clientid. cbn [cx_proto cx_sni cx_http cid_proto].
  rewrite (CIDP.valid_path_attributed _ _ _ _ _ Hp Hv). reflexivity.
Qed.

Lemma extract_server_name t x cli l :
  CIDP.reaches_sni (cid_proto (cx_proto x)) (cx_http x) -> tc_server_name t <> [] ->
  CID.server_name_of (cid_proto (cx_proto x)) (cx_sni x) (cx_http x) = inr cli ->
  CIDP.immediate_sub cli (tc_server_name t) l -> Base.Dom.valid_label l ->
  extract_clientid t x = Some (lower l).
Proof.
  intros Hr Hh Hs Hi Hv. unfold extract_clientid.
  rewrite (CIDP.valid_sni_attributed _ _ _ _ _ _ _ Hr Hh Hs Hi Hv). reflexivity.
Qed.

Lemma reaches_sni_refused x :
  CIDP.reaches_sni (cid_proto (cx_proto x)) (cx_http x) -> pre_blocked (cx_proto x) = BRefused.
Proof.
  intros [H|[H|[H _]]]; destruct (cx_proto x); try discriminate; reflexivity.
Qed.

(** A disallowed ClientID presented in the DoH path, in any letter case, is
    answered REFUSED whatever the address is. *)
Theorem disallowed_clientid_doh_path_refused blocked hosts t sni r ip q rid l c0 :
  CIDP.path_id (CID.d_path r) l -> Base.Dom.valid_label l ->
  In (ECid c0) blocked -> lower c0 = lower l ->
  handle_before_ctx (new_access [] blocked hosts) t (mkCtx PHTTPS sni (Some r) ip q rid) = BRefused.
Proof.
  intros Hp Hv Hin He. unfold handle_before_ctx. rewrite (extract_doh_path _ _ _ _ _ _ _ Hp Hv).
  cbn [cx_proto cx_ip cx_q].
  rewrite handle_before_blocked; [reflexivity|]. left.
  apply cid_listed_excluded, same_clientid_listed with c0; assumption.
Qed.

(** The same for a ClientID presented as the label in front of the configured
    server name: DoT / DoQ connection, or a DoH request to /dns-query through
    its TLS server name or Host header. *)
Theorem disallowed_clientid_server_name_refused blocked hosts t x cli l c0 :
  CIDP.reaches_sni (cid_proto (cx_proto x)) (cx_http x) -> tc_server_name t <> [] ->
  CID.server_name_of (cid_proto (cx_proto x)) (cx_sni x) (cx_http x) = inr cli ->
  CIDP.immediate_sub cli (tc_server_name t) l -> Base.Dom.valid_label l ->
  In (ECid c0) blocked -> lower c0 = lower l ->
  handle_before_ctx (new_access [] blocked hosts) t x = BRefused.
Proof.
  intros Hr Hh Hs Hi Hv Hin He. unfold handle_before_ctx.
  rewrite (extract_server_name _ _ _ _ Hr Hh Hs Hi Hv).
  rewrite handle_before_blocked; [apply reaches_sni_refused, Hr|]. left.
  apply cid_listed_excluded, same_clientid_listed with c0; assumption.
Qed.

(** Allow-list mode: a listed ClientID presented in any letter case admits
    the request from any address (unless the name is blocked), and it is that
    ClientID, lower-cased, that goes into the cache. *)
Theorem allowed_clientid_admitted allowed blocked hosts t x ip l c0 :
  extract_clientid t x = Some (lower l) -> Base.Dom.valid_label l ->
  In (ECid c0) allowed -> lower c0 = lower l -> cx_ip x = Some ip ->
  (forall name qt, cx_q x = Some (name, qt) ->
     is_blocked_host (new_access allowed blocked hosts) (normalize_domain name) qt = false) ->
  handle_before_ctx (new_access allowed blocked hosts) t x = BContinue (Some (lower l)).
Proof.
  intros He Hv Hin Hl Hip Hq. unfold handle_before_ctx. rewrite He, Hip.
  rewrite handle_before_admitted.
  - pose proof (valid_label_lower_nonempty l Hv). destruct (lower l); [congruence | reflexivity].
  - intros [Hx|(name & qt & Hqq & Hh)].
    + assert (Hne : has_entries allowed) by (intros ->; destruct Hin).
      assert (Ha : admitted (new_access allowed blocked hosts) (Some ip) (lower l)).
      { apply allowlist_mode_spec; [exact Hne|]. right.
        apply same_clientid_listed with c0; assumption. }
      unfold admitted in Ha. unfold excluded in Hx. congruence.
    + rewrite (Hq _ _ Hqq) in Hh. discriminate.
Qed.

(** An invalid ClientID is answered SERVFAIL before the lists are consulted:
    also a request whose address the lists exclude gets SERVFAIL (not
    REFUSED); it is never let through. *)
Theorem invalid_clientid_servfail a t sni r ip q rid l :
  CIDP.path_id (CID.d_path r) l -> ~ Base.Dom.valid_label l ->
  handle_before_ctx a t (mkCtx PHTTPS sni (Some r) ip q rid) = BServfail.
Proof.
  intros Hp Hv. unfold handle_before_ctx, extract_clientid. cbn [cx_proto cx_sni cx_http cid_proto].
  destruct (CIDP.invalid_path_fails (tc_server_name t) (tc_strict t) sni r l Hp Hv) as [e ->].
  reflexivity.
Qed.

Theorem invalid_server_name_servfail a t x cli l :
  CIDP.reaches_sni (cid_proto (cx_proto x)) (cx_http x) -> tc_server_name t <> [] ->
  CID.server_name_of (cid_proto (cx_proto x)) (cx_sni x) (cx_http x) = inr cli ->
  CIDP.immediate_sub cli (tc_server_name t) l -> ~ Base.Dom.valid_label l ->
  handle_before_ctx a t x = BServfail.
Proof.
  intros Hr Hh Hs Hi Hv. unfold handle_before_ctx, extract_clientid.
  destruct (CIDP.invalid_sni_fails _ _ (tc_strict t) _ _ _ _ Hr Hh Hs Hi Hv) as [e ->].
  reflexivity.
Qed.

(** Plain DNS and DNSCrypt: whatever else the context carries, the decision
    is the one for a request without ClientID. *)
Theorem plain_protocol_decision a t x :
  ~ secure_proto (cx_proto x) ->
  handle_before_ctx a t x = handle_before a (cx_proto x) (Some []) (cx_ip x) (cx_q x).
Proof. intros H. unfold handle_before_ctx. rewrite (plain_no_clientid t x H). reflexivity. Qed.

(** ** Non-vacuity *)

Definition ex_srv : bytes := [100;110;115;46;101;120].                      (* dns.ex *)
Definition ex_tls : tlsconf := mkTlsConf ex_srv true.
Definition ex_sni : bytes := [75;105;68;46] ++ ex_srv.                      (* KiD.dns.ex *)
Definition ex_bad_sni : bytes := [98;95;100;46] ++ ex_srv.                  (* b_d.dns.ex *)
Definition ex_kid : bytes := [107;73;100].                                  (* kId *)
Definition ex_doh : CID.doh_req :=
  mk_doh ([47] ++ CID.dns_query ++ [47;75;105;68]) None [].                  (* /dns-query/KiD *)
Definition ex_dot_ctx (sni : bytes) (rid : N) : dnsctx :=
  mkCtx PTLS (Some sni) None (Some ex_ip) None rid.

Example ex_valid_kid : Base.Dom.valid_label [75;105;68].
Proof. apply Base.Dom.validate_hostname_label_spec. reflexivity. Qed.

Example disallowed_doh_path_satisfiable :
  CIDP.path_id (CID.d_path ex_doh) [75;105;68] /\ Base.Dom.valid_label [75;105;68] /\
  In (ECid ex_kid) [ECid ex_kid] /\ lower ex_kid = lower [75;105;68].
Proof.
  split; [split; [left|]; reflexivity|]. split; [exact ex_valid_kid|].
  split; [left|]; reflexivity.
Qed.

Example disallowed_server_name_satisfiable :
  CIDP.reaches_sni (cid_proto (cx_proto (ex_dot_ctx ex_sni 7))) (cx_http (ex_dot_ctx ex_sni 7)) /\
  tc_server_name ex_tls <> [] /\
  CID.server_name_of (cid_proto PTLS) (Some ex_sni) None = inr ex_sni /\
  CIDP.immediate_sub ex_sni (tc_server_name ex_tls) [75;105;68] /\
  handle_before_ctx (new_access [] [ECid ex_kid] []) ex_tls (ex_dot_ctx ex_sni 7) = BRefused /\
  handle_before_ctx (new_access [] [ECid ex_kid] []) ex_tls
    (mkCtx PHTTPS None (Some ex_doh) (Some ex_ip) None 8) = BRefused.
Proof.
  split; [left; reflexivity|]. split; [discriminate|]. split; [reflexivity|].
  split; [repeat split; discriminate|]. split; reflexivity.
Qed.

Example allowed_clientid_satisfiable :
  extract_clientid ex_tls (ex_dot_ctx ex_sni 7) = Some (lower [75;105;68]) /\
  handle_before_ctx (new_access [ECid ex_kid] [EIP ex_ip] []) ex_tls (ex_dot_ctx ex_sni 7) =
    BContinue (Some [107;105;100]).
Proof. split; reflexivity. Qed.

Example invalid_clientid_satisfiable :
  CIDP.immediate_sub ex_bad_sni ex_srv [98;95;100] /\ ~ Base.Dom.valid_label [98;95;100] /\
  extract_clientid ex_tls (ex_dot_ctx ex_bad_sni 7) = None /\
  handle_before_ctx (new_access [] [EIP ex_ip] []) ex_tls (ex_dot_ctx ex_bad_sni 7) = BServfail.
Proof.
  split; [repeat split; discriminate|].
  split; [rewrite <- Base.Dom.validate_hostname_label_spec; discriminate|].
  split; reflexivity.
Qed.

Example blocked_ctx_satisfiable :
  extract_clientid ex_tls (ex_dot_ctx ex_sni 7) = Some [107;105;100] /\
  blocked_request (new_access [] [ECid ex_kid] []) (Some ex_ip) [107;105;100] None /\
  ~ blocked_request (new_access [] [ECid ex_cid] []) (Some ex_ip) [107;105;100] None.
Proof.
  split; [reflexivity|]. split; [left; reflexivity|].
  intros [H|(n & qt & Hq & _)]; discriminate.
Qed.

(** The window of [clientid_survives_interleaving] cannot be widened: with a
    cache of two entries, two other admitted requests with ClientIDs between
    the hook and processInitial make the request lose its ClientID (the real
    cache holds 1024 entries). *)
Example interleaving_window_tight :
  let a := new_access [] [] [] in
  let x := ex_dot_ctx ex_sni 1 in
  let ops := [HBefore (ex_dot_ctx ex_sni 2); HBefore (ex_dot_ctx ex_sni 3)] in
  handle_before_ctx a ex_tls x = BContinue (Some [107;105;100]) /\
  Forall (fun o => hop_rid o <> cx_rid x) ops /\
  N.of_nat (length ops) = 2 /\
  snd (initial_read (fst (run_hist 2 a ex_tls (fst (before_step 2 a ex_tls x [])) ops)) (cx_rid x)) = [] /\
  snd (initial_read (fst (run_hist 3 a ex_tls (fst (before_step 3 a ex_tls x [])) ops)) (cx_rid x)) = [107;105;100].
Proof.
  cbv zeta. split; [reflexivity|]. split; [repeat constructor; discriminate|].
  split; [reflexivity|]. split; vm_compute; reflexivity.
Qed.

(** Specification and proofs for the access lists (C03). *)
From Coq Require Import List NArith Bool Lia.
From AGH Require Import Base.Run Base.NetAddr Base.RuleEngine Model.Access.
Import ListNotations.
Local Open Scope N_scope.

(** * Declarative reading of the configured lists *)

(** The address is listed literally (zone and family included), or lies in a
    listed CIDR after its zone is dropped. *)
Definition ip_listed (l : list entry) (ip : addr) : Prop :=
  In (EIP ip) l \/ exists p, In (ENet p) l /\ in_block p (without_zone ip).

(** The (already lower-cased, non-empty) request ClientID equals a listed
    ClientID up to the ASCII case of the listed one. *)
Definition cid_listed (l : list entry) (id : bytes) : Prop :=
  id <> [] /\ exists c, In (ECid c) l /\ lower c = id.

Definition has_entries (l : list entry) : Prop := l <> [].

(** * Loading *)

Definition ips_of (l : list entry) := flat_map (fun e => match e with EIP a => [a] | _ => [] end) l.
Definition nets_of (l : list entry) := flat_map (fun e => match e with ENet p => [p] | _ => [] end) l.
Definition cids_of (l : list entry) := flat_map (fun e => match e with ECid c => [lower c] | _ => [] end) l.

Lemma load_side_gen l s :
  fold_left add_entry l s =
  mkSide (s_ips s ++ ips_of l) (s_nets s ++ nets_of l) (s_cids s ++ cids_of l).
Proof.
  revert s; induction l as [|e l IH]; intros s; cbn [fold_left ips_of nets_of cids_of flat_map].
  - rewrite !app_nil_r. destruct s; reflexivity.
  - rewrite IH. destruct e; cbn [add_entry s_ips s_nets s_cids app];
      rewrite <- ?app_assoc; reflexivity.
Qed.

Lemma load_side_eq l : load_side l = mkSide (ips_of l) (nets_of l) (cids_of l).
Proof. unfold load_side. rewrite load_side_gen. reflexivity. Qed.

Lemma in_ips_of l a : In a (ips_of l) <-> In (EIP a) l.
Proof.
  unfold ips_of. rewrite in_flat_map. split.
  - intros (e & He & Hin). destruct e; cbn in Hin; try tauto. destruct Hin as [<-|[]]; exact He.
  - intros H. exists (EIP a). split; [exact H | left; reflexivity].
Qed.

Lemma in_nets_of l p : In p (nets_of l) <-> In (ENet p) l.
Proof.
  unfold nets_of. rewrite in_flat_map. split.
  - intros (e & He & Hin). destruct e; cbn in Hin; try tauto. destruct Hin as [<-|[]]; exact He.
  - intros H. exists (ENet p). split; [exact H | left; reflexivity].
Qed.

Lemma in_cids_of l id : In id (cids_of l) <-> exists c, In (ECid c) l /\ lower c = id.
Proof.
  unfold cids_of. rewrite in_flat_map. split.
  - intros (e & He & Hin). destruct e; cbn in Hin; try tauto.
    destruct Hin as [<-|[]]. eexists; split; [exact He | reflexivity].
  - intros (c & Hc & <-). exists (ECid c). split; [exact Hc | left; reflexivity].
Qed.

Lemma side_empty_load l : side_empty (load_side l) = true <-> l = [].
Proof.
  rewrite load_side_eq. split.
  - destruct l as [|e l]; [reflexivity|]. intros H. exfalso.
    unfold side_empty in H. destruct e; cbn in H;
      repeat match type of H with context [match ?x with _ => _ end] => destruct x end;
      discriminate.
  - intros ->. reflexivity.
Qed.

(** * Membership tests *)

Lemma mem_bytes_In x l : mem_bytes x l = true <-> In x l.
Proof.
  unfold mem_bytes. rewrite existsb_exists. split.
  - intros (y & Hy & He). apply eqb_bytes_spec in He. subst. exact Hy.
  - intros H. exists x. split; [exact H | apply eqb_bytes_spec; reflexivity].
Qed.

Lemma existsb_addr ip l : existsb (addr_eqb ip) l = true <-> In ip l.
Proof.
  rewrite existsb_exists. split.
  - intros (y & Hy & He). apply addr_eqb_spec in He. subst. exact Hy.
  - intros H. exists ip. split; [exact H | apply addr_eqb_spec; reflexivity].
Qed.

Lemma find_net_some nets ip i0 i :
  find_net nets ip i0 = Some i ->
  exists p, In p nets /\ prefix_contains p (without_zone ip) = true.
Proof.
  revert i0; induction nets as [|p nets IH]; intros i0; cbn [find_net]; [discriminate|].
  destruct (prefix_contains p (without_zone ip)) eqn:E.
  - intros _. exists p. split; [left; reflexivity | exact E].
  - intros H. destruct (IH _ H) as (q & Hq & Hc). exists q. split; [right; exact Hq | exact Hc].
Qed.

Lemma find_net_none nets ip i0 :
  find_net nets ip i0 = None ->
  forall p, In p nets -> prefix_contains p (without_zone ip) = false.
Proof.
  revert i0; induction nets as [|p nets IH]; intros i0; cbn [find_net]; [intros _ q []|].
  destruct (prefix_contains p (without_zone ip)) eqn:E; [discriminate|].
  intros H q [<-|Hq]; [exact E | exact (IH _ H q Hq)].
Qed.

(** [find_net] returns the first containing prefix. *)
Lemma find_net_first nets ip i0 i :
  find_net nets ip i0 = Some i ->
  (i0 <= i)%nat /\
  (exists p, nth_error nets (i - i0) = Some p /\ prefix_contains p (without_zone ip) = true) /\
  forall j p, (j < i - i0)%nat -> nth_error nets j = Some p ->
              prefix_contains p (without_zone ip) = false.
Proof.
  revert i0; induction nets as [|p nets IH]; intros i0; cbn [find_net]; [discriminate|].
  destruct (prefix_contains p (without_zone ip)) eqn:E.
  - intros [= <-]. split; [lia|]. rewrite Nat.sub_diag. split.
    + exists p. split; [reflexivity | exact E].
    + intros j q Hj. lia.
  - intros H. destruct (IH _ H) as (Hle & (q & Hq & Hc) & Hfirst).
    split; [lia|]. replace (i - i0)%nat with (S (i - S i0)) by lia. split.
    + exists q. split; [exact Hq | exact Hc].
    + intros [|j] r Hj Hr; cbn in Hr.
      * inversion Hr; subst; exact E.
      * apply (Hfirst j r); [lia | exact Hr].
Qed.

(** The side that decides, searched for an address. *)
Definition side_has_ip (s : side) (ip : addr) : Prop :=
  In ip (s_ips s) \/ exists p, In p (s_nets s) /\ in_block p (without_zone ip).

Lemma side_search s ip :
  (existsb (addr_eqb ip) (s_ips s) = true \/ exists i, find_net (s_nets s) ip 0 = Some i)
  <-> side_has_ip s ip.
Proof.
  unfold side_has_ip. rewrite existsb_addr. split.
  - intros [H|[i H]]; [left; exact H|]. right.
    destruct (find_net_some _ _ _ _ H) as (p & Hp & Hc).
    exists p. split; [exact Hp | apply prefix_contains_spec; exact Hc].
  - intros [H|(p & Hp & Hb)]; [left; exact H|]. right.
    destruct (find_net (s_nets s) ip 0) eqn:E; [eexists; reflexivity|].
    apply prefix_contains_spec in Hb. rewrite (find_net_none _ _ _ E p Hp) in Hb. discriminate.
Qed.

Lemma is_blocked_ip_spec a ip :
  let alm := allowlist_mode a in
  let s := if alm then ac_allowed a else ac_blocked a in
  fst (is_blocked_ip a ip) = (if alm then false else true) <-> side_has_ip s ip.
Proof.
  cbv zeta. rewrite <- side_search. unfold is_blocked_ip.
  destruct (allowlist_mode a); cbn [negb];
  destruct (existsb (addr_eqb ip) _) eqn:E1; cbn [fst];
  try (split; [intros _; left; reflexivity | reflexivity]);
  destruct (find_net _ ip 0) eqn:E2; cbn [fst];
  try (split; [intros _; right; eexists; reflexivity | reflexivity]);
  (split; [discriminate | intros [H|[i H]]; discriminate]).
Qed.

Lemma side_has_ip_load l ip : side_has_ip (load_side l) ip <-> ip_listed l ip.
Proof.
  unfold side_has_ip, ip_listed. rewrite load_side_eq. cbn [s_ips s_nets].
  rewrite in_ips_of. split; (intros [H|(p & Hp & Hb)]; [left; exact H | right; exists p]).
  - split; [apply in_nets_of; exact Hp | exact Hb].
  - split; [apply in_nets_of; exact Hp | exact Hb].
Qed.

(** * The decision *)

Definition admitted (a : access) (ip : option addr) (id : bytes) : Prop :=
  fst (is_blocked_client a ip id) = false.
Definition excluded (a : access) (ip : option addr) (id : bytes) : Prop :=
  fst (is_blocked_client a ip id) = true.

Lemma allowlist_mode_new allowed blocked hosts :
  allowlist_mode (new_access allowed blocked hosts) = true <-> has_entries allowed.
Proof.
  unfold allowlist_mode, new_access, has_entries. cbn [ac_allowed].
  rewrite negb_true_iff. pose proof (side_empty_load allowed) as H.
  destruct (side_empty (load_side allowed)).
  - split; [discriminate | intros Hn; exfalso; apply Hn, H; reflexivity].
  - split; [intros _ He; apply H in He; discriminate | reflexivity].
Qed.

Lemma cid_mem_load l id :
  id <> [] -> (mem_bytes id (s_cids (load_side l)) = true <-> cid_listed l id).
Proof.
  intros Hid. rewrite mem_bytes_In, load_side_eq. cbn [s_cids]. rewrite in_cids_of.
  unfold cid_listed. tauto.
Qed.

(** Allow-list mode: admitted exactly when the address or the ClientID is
    allowed. *)
Theorem allowlist_mode_spec allowed blocked hosts ip id :
  has_entries allowed ->
  (admitted (new_access allowed blocked hosts) (Some ip) id <->
   ip_listed allowed ip \/ cid_listed allowed id).
Proof.
  intros Hne. set (a := new_access allowed blocked hosts).
  assert (Halm : allowlist_mode a = true) by (apply allowlist_mode_new; exact Hne).
  pose proof (is_blocked_ip_spec a ip) as Hip. cbv zeta in Hip. rewrite Halm in Hip.
  rewrite <- side_has_ip_load. change (load_side allowed) with (ac_allowed a).
  rewrite <- Hip. clear Hip.
  unfold admitted, is_blocked_client. destruct (is_blocked_ip a ip) as [by_ip rk]. cbn [fst].
  rewrite Halm. cbn [negb andb].
  unfold is_blocked_clientid. rewrite Halm.
  destruct id as [|c id'].
  - destruct by_ip; cbn [andb fst]; split; try tauto; try discriminate.
    + intros [H|[H _]]; [discriminate | congruence].
  - pose proof (cid_mem_load allowed (c :: id') ltac:(discriminate)) as Hc.
    change (load_side allowed) with (ac_allowed a) in Hc.
    destruct (mem_bytes (c :: id') (s_cids (ac_allowed a))); cbn [negb].
    + destruct by_ip; cbn [andb fst]; split; try reflexivity; intros _; right; apply Hc; reflexivity.
    + destruct by_ip; cbn [andb fst]; split; try tauto; try discriminate.
      intros [H|H]; [discriminate | apply Hc in H; discriminate].
Qed.

(** ... and the disallowed list plays no part in it. *)
Theorem allowlist_mode_ignores_blocked allowed b1 b2 hosts ip id :
  has_entries allowed ->
  fst (is_blocked_client (new_access allowed b1 hosts) ip id) =
  fst (is_blocked_client (new_access allowed b2 hosts) ip id).
Proof.
  intros Hne.
  assert (H1 := proj2 (allowlist_mode_new allowed b1 hosts) Hne).
  assert (H2 := proj2 (allowlist_mode_new allowed b2 hosts) Hne).
  unfold is_blocked_client, is_blocked_ip, is_blocked_clientid. rewrite H1, H2.
  cbn [new_access ac_allowed negb andb]. reflexivity.
Qed.

(** Block-list mode: excluded exactly when the address or the ClientID is
    disallowed. *)
Theorem blocklist_mode_spec blocked hosts ip id :
  excluded (new_access [] blocked hosts) (Some ip) id <->
  ip_listed blocked ip \/ cid_listed blocked id.
Proof.
  set (a := new_access [] blocked hosts).
  assert (Halm : allowlist_mode a = false) by reflexivity.
  pose proof (is_blocked_ip_spec a ip) as Hip. cbv zeta in Hip. rewrite Halm in Hip.
  rewrite <- side_has_ip_load. change (load_side blocked) with (ac_blocked a).
  rewrite <- Hip. clear Hip.
  unfold excluded, is_blocked_client. destruct (is_blocked_ip a ip) as [by_ip rk]. cbn [fst].
  rewrite Halm. cbn [negb andb].
  unfold is_blocked_clientid. rewrite Halm.
  destruct id as [|c id'].
  - rewrite orb_false_r. destruct by_ip; cbn [fst]; split; try tauto; try discriminate.
    intros [H|[H _]]; [discriminate | congruence].
  - pose proof (cid_mem_load blocked (c :: id') ltac:(discriminate)) as Hc.
    change (load_side blocked) with (ac_blocked a) in Hc.
    destruct (mem_bytes (c :: id') (s_cids (ac_blocked a))).
    + rewrite orb_true_r. cbn [fst]. split; [intros _; right; apply Hc; reflexivity | reflexivity].
    + rewrite orb_false_r. destruct by_ip; cbn [fst]; split; try tauto; try discriminate.
      all: try (intros [H|H]; [discriminate | apply Hc in H; discriminate]).
Qed.

(** The zero [netip.Addr] (never produced by dnsproxy for a real client):
    in block-list mode only the ClientID counts; in allow-list mode such a
    request is admitted whatever the lists say. *)
Lemma zero_addr_allowlist allowed blocked hosts id :
  has_entries allowed -> admitted (new_access allowed blocked hosts) None id.
Proof.
  intros Hne. unfold admitted, is_blocked_client.
  rewrite (proj2 (allowlist_mode_new allowed blocked hosts) Hne). reflexivity.
Qed.

(** * Serving *)

Definition blocked_request (a : access) (ip : option addr) (id : bytes) (q : option (bytes * N)) : Prop :=
  excluded a ip id \/
  exists name qt, q = Some (name, qt) /\ is_blocked_host a (normalize_domain name) qt = true.

Definition expected_refusal {R} (p : proto) : @reply R :=
  match p with PUDP | PDNSCrypt => NoReply | _ => Refused end.

Section Serve.
  Context {S Req Resp : Type}.
  Variable handler : S -> Req -> S * Resp.

  (** An excluded client or a blocked name: the handler does not run (its
      state, i.e. upstream log, query log, statistics, is untouched), the
      ClientID cache is untouched; nothing is sent over UDP / DNSCrypt, only
      REFUSED elsewhere. *)
  Theorem blocked_not_served a p ip id q cache st rq :
    blocked_request a ip id q ->
    serve handler a p (Some id) ip q cache st rq = (st, cache, expected_refusal p).
  Proof.
    intros Hb. unfold serve, handle_before.
    destruct Hb as [He|(name & qt & -> & Hh)].
    - unfold excluded in He. rewrite He. destruct p; reflexivity.
    - destruct (fst (is_blocked_client a ip id)); [destruct p; reflexivity|].
      rewrite Hh. destruct p; reflexivity.
  Qed.

  (** Everything else is handed to the handler unchanged. *)
  Theorem others_served a p ip id q cache st rq :
    ~ blocked_request a ip id q ->
    serve handler a p (Some id) ip q cache st rq =
    (fst (handler st rq),
     match id with [] => cache | _ => id :: cache end,
     Answer (snd (handler st rq))).
  Proof.
    intros Hn. unfold serve, handle_before.
    destruct (fst (is_blocked_client a ip id)) eqn:E.
    - exfalso. apply Hn. left. exact E.
    - assert (Hh : match q with
                   | Some (name, qt) => is_blocked_host a (normalize_domain name) qt
                   | None => false end = false).
      { destruct q as [[name qt]|]; [|reflexivity].
        destruct (is_blocked_host a (normalize_domain name) qt) eqn:Eh; [|reflexivity].
        exfalso. apply Hn. right. exists name, qt. split; [reflexivity | exact Eh]. }
      rewrite Hh. destruct (handler st rq) as [st' r]. destruct id; reflexivity.
  Qed.

  (** A failed ClientID extraction answers SERVFAIL and touches nothing. *)
  Lemma bad_clientid_servfail a p ip q cache st rq :
    serve handler a p None ip q cache st rq = (st, cache, Servfail).
  Proof. reflexivity. Qed.
End Serve.

(** * Non-vacuity *)

Definition ex_ip : addr := mkAddr V4 16909060 [].            (* 1.2.3.4 *)
Definition ex_net : prefix := mkPrefix V4 16908288 16.       (* 1.2.0.0/16 *)
Definition ex_cid : bytes := [77; 121; 80].                  (* "MyP" *)

Example allowlist_premises_satisfiable :
  has_entries [ENet ex_net; ECid ex_cid] /\
  admitted (new_access [ENet ex_net; ECid ex_cid] [EIP ex_ip] []) (Some ex_ip) [] /\
  admitted (new_access [ENet ex_net; ECid ex_cid] [] []) (Some (mkAddr V4 5 [])) (lower ex_cid) /\
  excluded (new_access [ENet ex_net; ECid ex_cid] [] []) (Some (mkAddr V4 5 [])) [120].
Proof. repeat split; discriminate. Qed.

Example blocklist_premises_satisfiable :
  excluded (new_access [] [ENet ex_net] []) (Some ex_ip) [] /\
  excluded (new_access [] [ECid ex_cid] []) (Some (mkAddr V6 1 [])) (lower ex_cid) /\
  admitted (new_access [] [ECid ex_cid] []) (Some (mkAddr V6 1 [])) [120].
Proof. repeat split. Qed.

Definition ex_host_rule : rule :=
  RNet (mkNRule 0 false [124;124;65;46;116;101;115;116;94] false false [] []
          (mkClients [] []) (mkClients [] []) []).    (* ||A.test^ *)

Example blocked_request_satisfiable :
  blocked_request (new_access [] [] [ex_host_rule]) (Some ex_ip) []
    (Some ([66;46;97;46;84;69;83;84;46], 1)) /\       (* "B.a.TEST." A *)
  ~ blocked_request (new_access [] [] [ex_host_rule]) (Some ex_ip) []
    (Some ([120;46;116;101;115;116;46], 1)).          (* "x.test." *)
Proof.
  split.
  - right. do 2 eexists. split; [reflexivity | vm_compute; reflexivity].
  - intros [H|(n & qt & Hq & Hh)]; [discriminate|]. inversion Hq; subst. vm_compute in Hh. discriminate.
Qed.

(** What tools/routes reads off authhttp.go for C12, re-checked on every run
    against the current source (coq/Gen/AuthPins.v): the argument of
    [rateLimiter.check] and the address argument of [newCookie] in handleLogin
    are one variable, assigned once, from [netutil.SplitHost(r.RemoteAddr)];
    newCookie passes its address parameter, unchanged, to [inc] and
    [remove].  Sessions (auth.go): [checkSession] indexes [Auth.sessions] with,
    deletes, and hex-decodes its string parameter, never reassigned;
    [removeSession] deletes its string parameter from the map and passes
    [key, _ := hex.DecodeString(<that parameter>)] to [removeSessionFromFile];
    optionalAuth, optionalAuthThird and handleLogout pass [<cookie>.Value] of
    [r.Cookie(sessionCookieName)] unchanged.  These are the choices
    Model/Session.v makes in [check_session], [logout], [logout_request]. *)
From AGH Require Import Base.Run Model.RateLimit Gen.AuthPins.

Lemma limiter_keys_are_peer :
  login_check_key = Some UsePeer /\ login_count_key = Some UsePeer.
Proof. vm_compute. split; reflexivity. Qed.

Lemma session_keys_as_modelled :
  session_check_as_sent && session_remove_as_sent && session_remove_decodes && session_cookie_value = true.
Proof. vm_compute. reflexivity. Qed.

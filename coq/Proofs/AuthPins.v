(** What tools/routes reads off authhttp.go for C12, re-checked on every run
    against the current source (coq/Gen/AuthPins.v): the argument of
    [rateLimiter.check] and the address argument of [newCookie] in handleLogin
    are one variable, assigned once, from [netutil.SplitHost(r.RemoteAddr)];
    newCookie passes its address parameter, unchanged, to [inc] and
    [remove]. *)
From AGH Require Import Base.Run Model.RateLimit Gen.AuthPins.

Lemma limiter_keys_are_peer :
  login_check_key = Some UsePeer /\ login_count_key = Some UsePeer.
Proof. vm_compute. split; reflexivity. Qed.

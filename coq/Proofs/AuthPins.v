(** What tools/routes reads off authhttp.go for C12, re-checked on every run
    against the current source (coq/Gen/AuthPins.v): the argument of
    [rateLimiter.check] and the address argument of [newCookie] in handleLogin
    are one variable, assigned once, from [netutil.SplitHost(r.RemoteAddr)];
    newCookie passes its address parameter, unchanged, to [inc] and
    [remove].  Sessions (auth.go): [checkSession] indexes [Auth.sessions] with,
    deletes, and hex-decodes its string parameter, never reassigned;
    [removeSession] deletes its string parameter from the map and passes
    [key, _ := hex.DecodeString(<that parameter>)] to [removeSessionFromFile];
    optionalAuth, optionalAuthThird and handleLogout pass [<cookie>.Value] of
    [r.Cookie(sessionCookieName)] unchanged.  These are the choices
    Model/Session.v makes in [check_session], [logout], [logout_request]. *)
From AGH Require Import Base.Run Model.RateLimit Gen.AuthPins.

Lemma limiter_keys_are_peer :
  login_check_key = Some UsePeer /\ login_count_key = Some UsePeer.
Proof. vm_compute. split; reflexivity. Qed.

Lemma session_keys_as_modelled :
  session_check_as_sent && session_remove_as_sent && session_remove_decodes && session_cookie_value = true.
Proof. vm_compute. reflexivity. Qed.

(** Round 3: the construction of the limiter (home.go initUsers, auth.go
    InitAuth, authratelimiter.go newAuthRateLimiter): the limiter variable is
    assigned once, under exactly [config.AuthAttempts > 0 &&
    config.AuthBlockMin > 0], the value [newAuthRateLimiter(time.Duration(
    config.AuthBlockMin) * time.Minute, config.AuthAttempts)]; it is the
    fourth argument of InitAuth, which stores it in [Auth.rateLimiter]
    (no other writer in the package); the constructor stores its two
    parameters; [failedAuthTTL] is one minute.  These are the choices of
    Model/RateLimit.v [mk_limiter] ([cond_code], [block_dur], [minute_ns]). *)
Lemma limiter_construction_as_modelled :
  limiter_cond_both_positive && limiter_built_from_config && limiter_reaches_auth &&
  limiter_ctor_stores_params && limiter_ttl_is_one_minute = true.
Proof. vm_compute. reflexivity. Qed.

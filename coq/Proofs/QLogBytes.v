(** C20 proofs, byte level: the functions of Model/QLogBytes.v (the loops of
    qlogfile.go over the bytes of a file) compute, on a file made of
    newline-terminated lines, what the (length, stamp) model of
    Model/QLogFile.v computes; so the theorems about that model hold of the
    byte-level reader, with the strings it returns. *)
From Coq Require Import ZArith NArith List Bool Lia String.
From AGH Require Import Base.Run Model.QLogFile Model.QLogCodec Model.QLogBytes Proofs.QLogFile Proofs.QLogFileAbsent.
Import ListNotations.
Local Open Scope Z_scope.
Ltac Zify.zify_post_hook ::= Z.to_euclidean_division_equations.

(** ** Vocabulary *)
Definition notnl (b : N) : bool := negb (b =? nl)%N.
Definition nlfree (s : bytes) : Prop := forallb notnl s = true.

(** Lines as flushLogBuffer writes them: no line break inside (json escapes
    it), not empty, shorter than the entry limit. *)
Definition blines_ok (me : Z) (ls : list bytes) : Prop :=
  Forall (fun ln => nlfree ln /\ 0 < blen ln < me) ls.

(** The binary-counted list cuts of the model are the usual ones. *)
Lemma takeZ_eq l : forall n, takeZ l n = firstn (Z.to_nat n) l.
Proof.
  induction l as [|b l IH]; intro n; cbn [takeZ]; [rewrite firstn_nil; reflexivity|].
  destruct (Z.leb_spec n 0).
  - replace (Z.to_nat n) with 0%nat by lia. reflexivity.
  - replace (Z.to_nat n) with (S (Z.to_nat (n - 1))) by lia. cbn [firstn]. rewrite IH. reflexivity.
Qed.

Lemma dropZ_eq l : forall n, dropZ l n = skipn (Z.to_nat n) l.
Proof.
  induction l as [|b l IH]; intro n; cbn [dropZ]; [rewrite skipn_nil; reflexivity|].
  destruct (Z.leb_spec n 0).
  - replace (Z.to_nat n) with 0%nat by lia. reflexivity.
  - replace (Z.to_nat n) with (S (Z.to_nat (n - 1))) by lia. cbn [skipn]. rewrite IH. reflexivity.
Qed.

Lemma read_at_eq c a cap : read_at c a cap = firstn (Z.to_nat cap) (skipn (Z.to_nat a) c).
Proof. unfold read_at. rewrite takeZ_eq, dropZ_eq. reflexivity. Qed.

Lemma slice_eq s a b : slice s a b = firstn (Z.to_nat (b - a)) (skipn (Z.to_nat a) s).
Proof. unfold slice. rewrite takeZ_eq, dropZ_eq. reflexivity. Qed.

Lemma blen_app a b : blen (a ++ b) = blen a + blen b.
Proof. unfold blen. rewrite app_length. lia. Qed.

Lemma blen_nonneg a : 0 <= blen a.
Proof. unfold blen. lia. Qed.

Lemma blen_cons x a : blen (x :: a) = 1 + blen a.
Proof. unfold blen. cbn [length]. lia. Qed.

Lemma blen_nil : blen [] = 0.
Proof. reflexivity. Qed.

Lemma nlfree_app a b : nlfree (a ++ b) <-> nlfree a /\ nlfree b.
Proof. unfold nlfree. rewrite forallb_app, andb_true_iff. tauto. Qed.

Lemma nlfree_rev a : nlfree a -> nlfree (rev a).
Proof.
  unfold nlfree. rewrite !forallb_forall. intros H x Hx. apply H. apply in_rev. exact Hx.
Qed.

Lemma nlfree_firstn n a : nlfree a -> nlfree (firstn n a).
Proof.
  intro H. rewrite <- (firstn_skipn n a) in H. apply nlfree_app in H. tauto.
Qed.

Lemma nlfree_skipn n a : nlfree a -> nlfree (skipn n a).
Proof.
  intro H. rewrite <- (firstn_skipn n a) in H. apply nlfree_app in H. tauto.
Qed.

Lemma blines_nlfree me ls : blines_ok me ls -> Forall nlfree ls.
Proof. intro H. eapply Forall_impl; [|exact H]. cbv beta. tauto. Qed.

(** The size of the content is the size the abstract file has. *)
Lemma blen_flat o ls : blen (flat ls) = fsize (absf o ls).
Proof.
  induction ls as [|ln ls IH]; [reflexivity|].
  cbn [flat absf map fsize]. rewrite blen_app, blen_cons. fold (absf o ls). lia.
Qed.

Lemma absf_lines_ok o me ls : blines_ok me ls -> lines_ok me (absf o ls).
Proof.
  intro H. unfold lines_ok, absf. rewrite Forall_map. eapply Forall_impl; [|exact H].
  cbv beta. cbn [fst]. tauto.
Qed.

Lemma absf_app o a b : absf o (a ++ b) = absf o a ++ absf o b.
Proof. apply map_app. Qed.

Lemma flat_app a b : flat (a ++ b) = flat a ++ flat b.
Proof.
  induction a as [|x a IH]; [reflexivity|]. cbn [app flat]. rewrite IH, <- app_assoc. reflexivity.
Qed.

(** ** The two scanning loops *)
Lemma scan_back_skip v : nlfree v -> forall X i, scan_back (v ++ X) i = scan_back X (i - blen v).
Proof.
  induction v as [|b v IH]; intros H X i.
  - cbn [app]. f_equal. rewrite blen_nil. lia.
  - unfold nlfree in H. cbn [forallb] in H. apply andb_true_iff in H as [Hb Hv].
    cbn [app scan_back]. unfold notnl in Hb. apply negb_true_iff in Hb. rewrite Hb.
    rewrite IH by exact Hv. f_equal. rewrite blen_cons. lia.
Qed.

Lemma scan_back_nlfree v i : nlfree v -> scan_back v i = 0.
Proof.
  intro H. rewrite <- (app_nil_r v). rewrite scan_back_skip by exact H. reflexivity.
Qed.

Lemma scan_fwd_skip v : nlfree v -> forall X i, scan_fwd (v ++ X) i = scan_fwd X (i + blen v).
Proof.
  induction v as [|b v IH]; intros H X i.
  - cbn [app]. f_equal. rewrite blen_nil. lia.
  - unfold nlfree in H. cbn [forallb] in H. apply andb_true_iff in H as [Hb Hv].
    cbn [app scan_fwd]. unfold notnl in Hb. apply negb_true_iff in Hb. rewrite Hb.
    rewrite IH by exact Hv. f_equal. rewrite blen_cons. lia.
Qed.

Lemma scan_fwd_nlfree v i : nlfree v -> scan_fwd v i = None.
Proof.
  intro H. rewrite <- (app_nil_r v). rewrite scan_fwd_skip by exact H. reflexivity.
Qed.

(** ** Cutting a content at a position

    Every position [p] of a file of lines splits the content into [A] (whole
    lines with their breaks), [u] (the bytes of the line holding [p] that lie
    before [p], no break among them) and the rest; the length of [A] is the
    line start the abstract model computes. *)
Definition lstart (f : qfile) (off p : Z) : Z :=
  match line_at f off p with Some (s, _, _) => s | None => off + fsize f end.

Lemma pos_split o ls : Forall nlfree ls -> forall off p, off <= p <= off + blen (flat ls) ->
  exists A u R, flat ls = A ++ u ++ R /\ nlfree u /\ off + blen A + blen u = p /\
    (A = [] \/ exists A', A = A' ++ [nl]) /\ off + blen A = lstart (absf o ls) off p.
Proof.
  induction 1 as [|ln ls Hln Hls IH]; intros off p Hp.
  - exists [], [], []. unfold lstart. cbn in *. repeat split; auto; lia.
  - cbn [flat] in Hp. rewrite blen_app, blen_cons in Hp.
    unfold lstart. cbn [absf map line_at]. fold (absf o ls).
    destruct (Z.ltb_spec (off + blen ln) p) as [Hlt|Hge].
    + destruct (IH (off + blen ln + 1) p ltac:(lia)) as (A & u & R & Hf & Hu & Hlen & HA & Hst).
      exists (ln ++ nl :: A), u, R. split; [|split; [exact Hu|split; [|split]]].
      * cbn [flat]. rewrite Hf. rewrite <- app_assoc. reflexivity.
      * rewrite blen_app, blen_cons. lia.
      * right. destruct HA as [->|[A' ->]].
        -- exists ln. reflexivity.
        -- exists (ln ++ nl :: A'). rewrite <- app_assoc. reflexivity.
      * unfold lstart in Hst. rewrite blen_app, blen_cons.
        destruct (line_at (absf o ls) (off + blen ln + 1) p) as [[[s l] t]|]; cbn [fsize]; lia.
    + exists [], (firstn (Z.to_nat (p - off)) ln), (skipn (Z.to_nat (p - off)) ln ++ nl :: flat ls).
      split; [|split; [apply nlfree_firstn; exact Hln|split; [|split]]].
      * cbn [flat app]. rewrite app_assoc, firstn_skipn. reflexivity.
      * rewrite blen_nil. unfold blen. rewrite firstn_length. unfold blen in Hge. lia.
      * left. reflexivity.
      * rewrite blen_nil. lia.
Qed.

(** ** List surgery *)
Lemma firstn_exact {A} (X Y : list A) n : length X = n -> firstn n (X ++ Y) = X.
Proof.
  intros <-. rewrite firstn_app, Nat.sub_diag, firstn_all. cbn [firstn]. apply app_nil_r.
Qed.

Lemma skipn_app_le {A} (l1 l2 : list A) n : (n <= length l1)%nat -> skipn n (l1 ++ l2) = skipn n l1 ++ l2.
Proof.
  intro H. rewrite skipn_app. replace (n - length l1)%nat with 0%nat by lia. reflexivity.
Qed.

Lemma skipn_app_ge {A} (l1 l2 : list A) n : (length l1 <= n)%nat -> skipn n (l1 ++ l2) = skipn (n - length l1) l2.
Proof.
  intro H. rewrite skipn_app, skipn_all2 by exact H. reflexivity.
Qed.

Lemma skipn_skipn' {A} (x y : nat) (l : list A) : skipn x (skipn y l) = skipn (y + x) l.
Proof.
  revert l; induction y as [|y IH]; intro l; [reflexivity|].
  destruct l as [|a l]; [rewrite !skipn_nil; reflexivity|]. cbn [skipn Nat.add]. apply IH.
Qed.

Lemma slice_read_at c a cap x y : 0 <= a -> 0 <= x <= y -> y <= cap ->
  slice (read_at c a cap) x y = slice c (a + x) (a + y).
Proof.
  intros Ha Hx Hy. rewrite !slice_eq, read_at_eq.
  rewrite skipn_firstn_comm, firstn_firstn, skipn_skipn'.
  replace (Z.to_nat a + Z.to_nat x)%nat with (Z.to_nat (a + x)) by lia.
  f_equal; lia.
Qed.

Lemma slice_app_mid (A u R : bytes) : slice (A ++ u ++ R) (blen A) (blen A + blen u) = u.
Proof.
  rewrite slice_eq. unfold blen. rewrite skipn_app_ge by lia.
  replace (Z.to_nat (Z.of_nat (length A)) - length A)%nat with 0%nat by lia. cbn [skipn].
  apply firstn_exact. lia.
Qed.

(** ** The backward loop on a window of a content cut at [p] *)
Lemma window_back (A u R : bytes) a p :
  nlfree u -> (A = [] \/ exists A', A = A' ++ [nl]) -> blen A + blen u = p -> 0 <= a <= p ->
  scan_back (rev (firstn (Z.to_nat (p - a)) (skipn (Z.to_nat a) (A ++ u ++ R)))) (p - a)
  = Z.max a (blen A) - a.
Proof.
  intros Hu HA Hp Ha. unfold blen in *.
  destruct (Z_le_gt_dec a (Z.of_nat (length A))) as [Hle|Hgt].
  - rewrite skipn_app_le by lia. rewrite app_assoc.
    rewrite firstn_exact by (rewrite app_length, skipn_length; lia).
    rewrite rev_app_distr, scan_back_skip by (apply nlfree_rev; exact Hu).
    unfold blen. rewrite rev_length.
    destruct HA as [->|[A' ->]].
    + cbn [length] in *. replace (Z.to_nat a) with 0%nat by lia. cbn. lia.
    + rewrite app_length in *. cbn [length] in *.
      destruct (Z.eq_dec a (Z.of_nat (length A' + 1))) as [->|Hne].
      * rewrite skipn_all2 by (rewrite app_length; cbn [length]; lia). cbn. lia.
      * rewrite skipn_app_le by lia. rewrite rev_app_distr. cbn [rev app scan_back].
        change (nl =? nl)%N with true. cbv iota. lia.
  - rewrite skipn_app_ge by lia. rewrite skipn_app_le by lia.
    rewrite firstn_exact by (rewrite skipn_length; lia).
    rewrite scan_back_nlfree by (apply nlfree_rev, nlfree_skipn; exact Hu). lia.
Qed.

(** ** ReadNext *)

(** States the reader can be in: the position is inside the file, and a
    valid buffer was read at a non-negative offset and reaches the position. *)
Definition st_ok (buf : Z) (c : bytes) (s : rstate) : Prop :=
  0 <= pos s <= blen c /\ 0 <= buf_start s /\ (buf_valid s = true -> pos s <= buf_start s + buf).

Definition lift_read (c : bytes) (x : option (Z * Z)) : option (bytes * Z) :=
  match x with None => None | Some (st, len) => Some (slice c st (st + len), st) end.

Lemma line_start_lstart f p : line_start f p = lstart f 0 p.
Proof. unfold line_start, lstart. destruct (line_at f 0 p) as [[[? ?] ?]|]; lia. Qed.

(** For EVERY file of lines (any lengths) and every such state, the byte-level
    ReadNext returns the bytes at the span the abstract ReadNext returns, and
    leaves the same state. *)
Theorem b_read_next_refines o me buf ls s :
  0 < me <= buf -> Forall nlfree ls -> st_ok buf (flat ls) s ->
  b_read_next me buf (flat ls) s =
    (lift_read (flat ls) (fst (read_next me buf (absf o ls) s)), snd (read_next me buf (absf o ls) s))
  /\ st_ok buf (flat ls) (snd (read_next me buf (absf o ls) s)).
Proof.
  intros Hme Hls (Hpos & Hbs & Hval).
  unfold b_read_next, read_next. cbv zeta. rewrite !takeZ_eq, !rev_append_rev, !app_nil_r.
  destruct (Z.eqb_spec (pos s) 0) as [Hz|Hnz].
  { split; [reflexivity|]. cbn [snd]. repeat split; auto; lia. }
  set (p := pos s) in *.
  set (reinit := negb (buf_valid s) || ((p - buf_start s <? me) && negb (buf_start s =? 0))).
  set (bs := if reinit then (if p >? buf then p - buf else 0) else buf_start s).
  assert (Hb : 0 <= bs <= p /\ p <= bs + buf).
  { subst bs reinit. destruct (buf_valid s) eqn:Ev; cbn [negb orb].
    - destruct (Z.ltb_spec (p - buf_start s) me); cbn [andb].
      + destruct (Z.eqb_spec (buf_start s) 0); cbn [negb].
        * specialize (Hval eq_refl). lia.
        * destruct (Z.gtb_spec p buf); lia.
      + specialize (Hval eq_refl). lia.
    - destruct (Z.gtb_spec p buf); lia. }
  destruct (pos_split o ls Hls 0 p ltac:(lia)) as (A & u & R & Hf & Hu & Hlen & HA & Hst).
  rewrite <- line_start_lstart in Hst. rewrite Z.add_0_l in Hst, Hlen.
  assert (Hsl : scan_back (rev (firstn (Z.to_nat (p - bs)) (read_at (flat ls) bs buf))) (p - bs)
                = Z.max bs (line_start (absf o ls) p) - bs).
  { rewrite read_at_eq. rewrite firstn_firstn. replace (Init.Nat.min (Z.to_nat (p - bs)) (Z.to_nat buf)) with (Z.to_nat (p - bs)) by lia.
    rewrite Hf, <- Hst. apply window_back; auto; lia. }
  rewrite Hsl. cbn [fst snd lift_read].
  set (start := Z.max bs (line_start (absf o ls) p)) in *.
  assert (Hs : bs <= start <= p) by (subst start; pose proof (blen_nonneg u); lia).
  replace (bs + (start - bs)) with start by lia.
  split.
  - f_equal. f_equal. f_equal.
    rewrite slice_read_at by lia. f_equal; lia.
  - cbn [pos buf_start buf_valid]. repeat split; intros; try lia; destruct (Z.eqb_spec start 0); cbn [pos buf_start buf_valid]; lia.
Qed.

(** ** Reading a whole file backwards returns the lines themselves *)
Definition span_bytes (c : bytes) (x : Z * Z) : bytes := slice c (fst x) (fst x + snd x).

Lemma b_read_all_refines o me buf ls : 0 < me <= buf -> Forall nlfree ls ->
  forall fuel s, st_ok buf (flat ls) s ->
  b_read_all me buf (flat ls) fuel s =
    (map (span_bytes (flat ls)) (fst (read_all me buf (absf o ls) fuel s)),
     snd (read_all me buf (absf o ls) fuel s)).
Proof.
  intros Hme Hls. induction fuel as [|fuel IH]; intros s Hs; [reflexivity|].
  cbn [b_read_all read_all].
  destruct (b_read_next_refines o me buf ls s Hme Hls Hs) as [Hr Hs'].
  rewrite Hr. destruct (read_next me buf (absf o ls) s) as [[[st len]|] s']; cbn [fst snd lift_read] in *.
  - rewrite (IH s' Hs'). destruct (read_all me buf (absf o ls) fuel s') as [l e]. reflexivity.
  - reflexivity.
Qed.

Lemma spans_bytes o ls : forall P,
  map (span_bytes (P ++ flat ls)) (spans (absf o ls) (blen P)) = ls.
Proof.
  induction ls as [|ln ls IH]; intro P; [reflexivity|].
  cbn [absf map spans flat]. fold (absf o ls). f_equal.
  - unfold span_bytes. cbn [fst snd]. apply (slice_app_mid P ln (nl :: flat ls)).
  - specialize (IH (P ++ ln ++ [nl])).
    replace ((P ++ ln ++ [nl]) ++ flat ls) with (P ++ ln ++ nl :: flat ls) in IH
      by (rewrite <- !app_assoc; reflexivity).
    replace (blen (P ++ ln ++ [nl])) with (blen P + blen ln + 1) in IH
      by (rewrite !blen_app, blen_cons, blen_nil; lia).
    exact IH.
Qed.

Lemma b_seek_start_eq o ls s : b_seek_start (flat ls) s = seek_start (absf o ls) s.
Proof. unfold b_seek_start, seek_start. rewrite (blen_flat o). reflexivity. Qed.

Lemma st_ok_seek_start o buf ls s : 0 <= buf_start s -> st_ok buf (flat ls) (seek_start (absf o ls) s).
Proof.
  intro H. unfold st_ok, seek_start. cbn [pos buf_start buf_valid]. rewrite (blen_flat o).
  pose proof (blen_nonneg (flat ls)) as Hn. rewrite (blen_flat o) in Hn.
  repeat split; try lia; discriminate.
Qed.

(** *** Byte-level form of C20_reverse_complete: SeekStart, then ReadNext
    until io.EOF, returns the very lines of the file, last line first, each
    once, then io.EOF. *)
Theorem b_reverse_complete me buf ls s0 :
  0 < me <= buf -> blines_ok me ls -> 0 <= buf_start s0 ->
  b_read_all me buf (flat ls) (S (length ls)) (b_seek_start (flat ls) s0) = (rev ls, true).
Proof.
  intros Hme Hls Hs0. set (o := fun _ : bytes => 0). rewrite (b_seek_start_eq o).
  rewrite (b_read_all_refines o me buf ls Hme (blines_nlfree _ _ Hls)) by (apply st_ok_seek_start; exact Hs0).
  replace (length ls) with (length (absf o ls)) by apply map_length.
  rewrite (reverse_complete me buf (absf o ls) s0 Hme (absf_lines_ok o me ls Hls)).
  cbn [fst snd]. f_equal. rewrite map_rev. f_equal.
  exact (spans_bytes o ls []).
Qed.

(** ** readProbeLine *)
Lemma firstn_app_cons {A} (v : list A) x X m : (length v < m)%nat ->
  firstn m (v ++ x :: X) = v ++ x :: firstn (m - length v - 1) X.
Proof.
  intro H. rewrite firstn_app. rewrite firstn_all2 by lia. f_equal.
  destruct (m - length v)%nat as [|k] eqn:E; [lia|]. cbn [firstn]. f_equal. f_equal. lia.
Qed.

Lemma slice_app_l (w z : bytes) a b : 0 <= a -> b <= blen w -> slice (w ++ z) a b = slice w a b.
Proof.
  intros Ha Hb. rewrite !slice_eq. unfold blen in *.
  destruct (Z_le_gt_dec a b) as [Hab|Hab].
  - rewrite skipn_app_le by lia. rewrite firstn_app.
    replace (Z.to_nat (b - a) - length (skipn (Z.to_nat a) w))%nat with 0%nat by (rewrite skipn_length; lia).
    cbn [firstn]. apply app_nil_r.
  - replace (Z.to_nat (b - a)) with 0%nat by lia. reflexivity.
Qed.

Lemma absf_firstn o ls k : firstn k (absf o ls) = absf o (firstn k ls).
Proof. unfold absf. apply firstn_map. Qed.

Lemma St_absf o ls k : St (absf o ls) k = blen (flat (firstn k ls)).
Proof. unfold St. rewrite absf_firstn, (blen_flat o). reflexivity. Qed.

Lemma flat_ends_nl ls : ls <> [] -> exists A', flat ls = A' ++ [nl].
Proof.
  induction ls as [|ln ls IH]; [congruence|]. intros _. destruct ls as [|l2 ls].
  - exists ln. reflexivity.
  - destruct (IH ltac:(discriminate)) as [A' HA']. exists (ln ++ nl :: A').
    cbn [flat] in *. rewrite HA'. rewrite <- app_assoc. reflexivity.
Qed.

Lemma flat_prefix_shape ls : flat ls = [] \/ exists A', flat ls = A' ++ [nl].
Proof.
  destruct ls as [|ln ls]; [left; reflexivity|right; apply flat_ends_nl; discriminate].
Qed.

(** A probe inside a line shorter than [me] returns that very line. *)
Lemma b_probe_line_in o me ls k ln p :
  0 < me -> blines_ok me ls -> nth_error ls k = Some ln ->
  St (absf o ls) k <= p <= St (absf o ls) k + blen ln ->
  b_probe_line me (flat ls) p = Some (ln, St (absf o ls) k, St (absf o ls) k + blen ln + 1).
Proof.
  intros Hme Hls E Hp.
  assert (Hln : nlfree ln /\ 0 < blen ln < me).
  { unfold blines_ok in Hls. rewrite Forall_forall in Hls. apply Hls. eapply nth_error_In; eauto. }
  destruct Hln as [Hnf Hl].
  pose proof E as E0.
  apply nth_error_split in E as (pre & post & -> & Hk).
  rewrite St_absf in *. rewrite firstn_app, <- Hk, Nat.sub_diag, firstn_all in *. cbn [firstn] in *.
  rewrite app_nil_r in *.
  set (A := flat pre) in *.
  rewrite flat_app. cbn [flat]. fold A.
  set (nu := Z.to_nat (p - blen A)).
  set (u := firstn nu ln). set (v := skipn nu ln).
  assert (Huv : ln = u ++ v) by (symmetry; apply firstn_skipn).
  assert (Hul : blen u = p - blen A).
  { unfold u, blen. rewrite firstn_length. unfold blen in *. lia. }
  assert (Hvl : blen v = blen ln - blen u).
  { rewrite Hul. unfold v, blen. rewrite skipn_length. unfold blen in *. lia. }
  set (R := v ++ nl :: flat post).
  assert (Hc : A ++ ln ++ nl :: flat post = A ++ u ++ R).
  { unfold R. f_equal. rewrite app_assoc. unfold u, v. rewrite firstn_skipn. reflexivity. }
  rewrite Hc.
  assert (Hsize : blen (A ++ u ++ R) = blen A + blen ln + 1 + blen (flat post)).
  { rewrite <- Hc. rewrite !blen_app, blen_cons. lia. }
  pose proof (blen_nonneg A) as HAn. pose proof (blen_nonneg (flat post)) as HPn.
  pose proof (blen_nonneg v) as Hvn.
  unfold b_probe_line. rewrite !takeZ_eq, !dropZ_eq, !rev_append_rev, !app_nil_r.
  set (sp := if p >? me then p - me else 0).
  set (rel := if p >? me then me else p).
  assert (Hsp : 0 <= sp <= blen A /\ rel = p - sp /\ 0 <= rel <= me).
  { subst sp rel. destruct (Z.gtb_spec p me); lia. }
  destruct Hsp as (Hsp & Hrel & Hrel2).
  set (w := read_at (A ++ u ++ R) sp (2 * me)).
  assert (Hwl : blen w = Z.min (2 * me) (blen (A ++ u ++ R) - sp)).
  { unfold w, blen. rewrite read_at_eq, firstn_length, skipn_length. unfold blen in *. lia. }
  destruct (Z.eqb_spec (blen w) 0) as [Hz|_]; [lia|].
  assert (Hrw : rel <= blen w) by lia.
  (* the backward loop *)
  assert (Hback : scan_back (rev (firstn (Z.to_nat rel) w)) (Z.min rel (blen w)) = blen A - sp).
  { rewrite Z.min_l by lia. unfold w. rewrite read_at_eq, firstn_firstn.
    replace (Init.Nat.min (Z.to_nat rel) (Z.to_nat (2 * me))) with (Z.to_nat (p - sp)) by lia.
    rewrite Hrel. rewrite (window_back A u R sp p); try lia.
    - apply nlfree_firstn; exact Hnf.
    - subst A. destruct (flat_prefix_shape pre) as [->|H]; auto. }
  rewrite Hback.
  (* the forward loop *)
  assert (Hfwd : scan_fwd (skipn (Z.to_nat rel) w) rel = Some (rel + blen v)).
  { unfold w. rewrite read_at_eq, skipn_firstn_comm, skipn_skipn'.
    replace (Z.to_nat sp + Z.to_nat rel)%nat with (length A + length u)%nat by (unfold blen in *; lia).
    rewrite app_assoc, skipn_app_ge by (rewrite app_length; lia).
    replace (length A + length u - length (A ++ u))%nat with 0%nat by (rewrite app_length; lia).
    cbn [skipn]. unfold R. rewrite firstn_app_cons by (unfold blen in *; lia).
    rewrite scan_fwd_skip by (apply nlfree_skipn; exact Hnf).
    cbn [scan_fwd]. change (nl =? nl)%N with true. reflexivity. }
  rewrite Hfwd.
  f_equal. f_equal; [f_equal|]; try lia.
  unfold w. rewrite slice_read_at by lia.
  replace (sp + (blen A - sp)) with (blen A) by lia.
  replace (sp + (rel + blen v)) with (blen A + blen ln) by lia.
  rewrite <- Hc. apply slice_app_mid.
Qed.

(** At the end of a non-empty file the probe reports the file size as the
    line index. *)
Lemma b_probe_line_end me ls : 0 < me -> ls <> [] ->
  exists str le, b_probe_line me (flat ls) (blen (flat ls)) = Some (str, blen (flat ls), le).
Proof.
  intros Hme Hne. destruct (flat_ends_nl ls Hne) as [A' HA'].
  set (c := flat ls) in *. set (size := blen c).
  assert (Hsz : 0 < size) by (subst size; rewrite HA', blen_app, blen_cons, blen_nil; pose proof (blen_nonneg A'); lia).
  unfold b_probe_line. rewrite !takeZ_eq, !dropZ_eq, !rev_append_rev, !app_nil_r. fold size.
  set (sp := if size >? me then size - me else 0).
  set (rel := if size >? me then me else size).
  assert (Hsp : 0 <= sp < size /\ rel = size - sp /\ 0 < rel <= me).
  { subst sp rel. destruct (Z.gtb_spec size me); lia. }
  destruct Hsp as (Hsp & Hrel & Hrel2).
  set (w := read_at c sp (2 * me)).
  assert (Hwl : blen w = rel).
  { unfold w, blen. rewrite read_at_eq, firstn_length, skipn_length. unfold size, blen in *. lia. }
  destruct (Z.eqb_spec (blen w) 0) as [Hz|_]; [lia|].
  assert (Hback : scan_back (rev (firstn (Z.to_nat rel) w)) (Z.min rel (blen w)) = size - sp).
  { rewrite Z.min_l by lia. unfold w. rewrite read_at_eq, firstn_firstn.
    replace (Init.Nat.min (Z.to_nat rel) (Z.to_nat (2 * me))) with (Z.to_nat (size - sp)) by lia.
    rewrite Hrel. replace c with (c ++ [] ++ []) by (rewrite !app_nil_r; reflexivity).
    rewrite (window_back c [] [] sp size); try reflexivity; try lia.
    - right. exists A'. exact HA'.
    - rewrite blen_nil. unfold size. lia. }
  rewrite Hback.
  destruct (scan_fwd (skipn (Z.to_nat rel) w) rel); eexists; eexists; f_equal; f_equal; f_equal; lia.
Qed.

(** ** seekTS *)
Lemma nth_absf o ls k l t : nth_error (absf o ls) k = Some (l, t) ->
  exists ln, nth_error ls k = Some ln /\ l = blen ln /\ t = read_qlog_ts o ln.
Proof.
  unfold absf. rewrite nth_error_map. destruct (nth_error ls k) as [ln|]; cbn; [|discriminate].
  intro H. injection H as <- <-. eauto.
Qed.

Lemma St_line_end me f k l t : lines_ok me f -> nth_error f k = Some (l, t) -> St f k + l + 1 <= fsize f.
Proof.
  intros Hf E. rewrite <- (St_succ _ _ _ _ E), <- (St_all f).
  apply (St_mono me); auto. apply nth_error_Some_length in E. lia.
Qed.

Lemma b_probe_line_empty me p : b_probe_line me [] p = None.
Proof. unfold b_probe_line. rewrite read_at_eq, skipn_nil, firstn_nil. reflexivity. Qed.

Lemma probe_line_empty me p : 0 < me -> probe_line me [] p = None.
Proof.
  intro Hme. unfold probe_line. cbn [fsize].
  destruct (Z.leb_spec (Z.min (0 - (if p >? me then p - me else 0)) (2 * me)) 0); [reflexivity|].
  destruct (Z.gtb_spec p me); lia.
Qed.

(** The loop of seekTS on the bytes runs exactly as on (lengths, stamps). *)
Lemma b_seek_loop_refines o me ls ts : 0 < me -> blines_ok me ls ->
  forall fuel start end_ probe last depth,
  0 <= start <= blen (flat ls) -> 0 <= end_ <= blen (flat ls) -> 0 <= probe <= blen (flat ls) ->
  b_seek_loop o fuel me (flat ls) ts start end_ probe last depth =
  seek_loop fuel me (absf o ls) ts start end_ probe last depth.
Proof.
  intros Hme Hls.
  assert (Hcase : ls = [] \/ ls <> []) by (destruct ls; [left; reflexivity|right; discriminate]).
  destruct Hcase as [->|Hne].
  { intros [|fuel] start end_ probe last depth _ _ _; [reflexivity|].
    cbn [b_seek_loop seek_loop flat absf map].
    rewrite b_probe_line_empty, probe_line_empty by exact Hme. reflexivity. }
  pose proof (absf_lines_ok o me ls Hls) as Hf.
  assert (Hfne : absf o ls <> []) by (destruct ls; [congruence|discriminate]).
  set (f := absf o ls) in *. set (c := flat ls).
  assert (Hsz : blen c = fsize f) by apply blen_flat.
  induction fuel as [|fuel IH]; intros start end_ probe last depth Hs He Hp; [reflexivity|].
  cbn [b_seek_loop seek_loop].
  destruct (Z.eq_dec probe (blen c)) as [Heq|Hne'].
  - (* the probe is the file size *)
    destruct (b_probe_line_end me ls Hme Hne) as (str & le & Hb).
    destruct (probe_line_end me f Hme Hf Hfne) as (le' & len' & Ha).
    subst probe. fold c in Hb. rewrite Hb. rewrite !Hsz. rewrite Ha.
    destruct (fsize f =? last); [reflexivity|]. rewrite Z.eqb_refl. reflexivity.
  - (* the probe is inside a line *)
    destruct (locate me f Hf (length f) 0%nat probe ltac:(lia) ltac:(rewrite St_0, St_all; lia))
      as (k & l & t & _ & Ek & Hk).
    destruct (nth_absf o ls k l t Ek) as (ln & Eln & -> & ->).
    rewrite (probe_line_in me f k _ _ probe Hme Hf Ek Hk).
    pose proof (b_probe_line_in o me ls k ln probe Hme Hls Eln Hk) as Hb. fold f c in Hb. rewrite Hb.
    rewrite Hsz.
    pose proof (St_line_end me f k _ _ Hf Ek) as Hend.
    assert (0 <= St f k) by (apply (fsize_nonneg me), lines_ok_firstn; exact Hf).
    assert (0 < blen ln) by (apply (nth_line_ok me f k _ _ Hf Ek)).
    destruct (St f k =? last); [reflexivity|].
    destruct (St f k =? fsize f); [reflexivity|].
    destruct (read_qlog_ts o ln =? 0); [reflexivity|].
    destruct (read_qlog_ts o ln =? ts); [reflexivity|].
    apply IH; destruct (read_qlog_ts o ln >? ts); lia.
Qed.

(** *** seekTS on the bytes = seekTS on (lengths, stamps). *)
Theorem b_seek_ts_refines o me ls ts : 0 < me -> blines_ok me ls ->
  b_seek_ts o me (flat ls) ts = seek_ts me (absf o ls) ts.
Proof.
  intros Hme Hls. unfold b_seek_ts, b_seek_ts_fuel, seek_ts, seek_ts_fuel.
  rewrite <- (blen_flat o). pose proof (blen_nonneg (flat ls)).
  apply b_seek_loop_refines; auto; lia.
Qed.

Corollary b_seek_ts_state_refines o me ls ts s : 0 < me -> blines_ok me ls ->
  b_seek_ts_state o me (flat ls) ts s = seek_ts_state me (absf o ls) ts s.
Proof.
  intros Hme Hls. unfold b_seek_ts_state, seek_ts_state. rewrite b_seek_ts_refines by auto. reflexivity.
Qed.

(** ** The seek theorems, on the bytes *)
Lemma slice_flat_line o ls k ln : nth_error ls k = Some ln ->
  slice (flat ls) (St (absf o ls) k) (St (absf o ls) k + blen ln) = ln.
Proof.
  intro E. rewrite St_absf. apply nth_error_split in E as (pre & post & -> & <-).
  rewrite firstn_app, Nat.sub_diag, firstn_all. cbn [firstn]. rewrite app_nil_r.
  rewrite flat_app. cbn [flat]. apply (slice_app_mid (flat pre) ln (nl :: flat post)).
Qed.

(** *** Byte-level form of C20_seek_present + C20_seek_then_read: seeking the
    stamp of a stored line finds the position of that line, and the next
    ReadNext returns the bytes of that very line. *)
Theorem b_seek_present_then_read o me buf ls k ln s :
  0 < me <= buf -> blines_ok me ls ->
  stamps_nonzero (absf o ls) -> sorted_ts (absf o ls) -> size_ok (absf o ls) ->
  nth_error ls k = Some ln -> 0 <= buf_start s ->
  exists d s',
    b_seek_ts_state o me (flat ls) (read_qlog_ts o ln) s = (Found (St (absf o ls) k + blen ln) d, s') /\
    fst (b_read_next me buf (flat ls) s') = Some (ln, St (absf o ls) k).
Proof.
  intros Hme Hls Hnz Hsort Hsize E Hbs.
  pose proof (absf_lines_ok o me ls Hls) as Hf. set (f := absf o ls) in *.
  assert (Ef : nth_error f k = Some (blen ln, read_qlog_ts o ln)).
  { unfold f, absf. rewrite nth_error_map, E. reflexivity. }
  destruct (seek_present me f k _ _ ltac:(lia) Hf Hnz Hsort Hsize Ef) as [d Hd].
  rewrite b_seek_ts_state_refines by (auto; lia). fold f. unfold seek_ts_state. rewrite Hd.
  eexists; eexists; split; [reflexivity|].
  set (s' := {| pos := _; buf_start := _; buf_valid := _ |}).
  pose proof (St_line_end me f k _ _ Hf Ef) as Hend.
  assert (H0 : 0 <= St f k) by (apply (fsize_nonneg me), lines_ok_firstn; exact Hf).
  pose proof (nth_line_ok me f k _ _ Hf Ef) as Hl.
  assert (Hok : st_ok buf (flat ls) s').
  { unfold st_ok, s'. cbn [pos buf_start buf_valid]. rewrite (blen_flat o). fold f.
    repeat split; try lia; discriminate. }
  destruct (b_read_next_refines o me buf ls s' Hme (blines_nlfree _ _ Hls) Hok) as [Hr _].
  rewrite Hr. cbn [fst]. fold f.
  destruct (read_next_step me buf (firstn k f) (blen ln) (read_qlog_ts o ln) (skipn (S k) f) s'
              Hme (lines_ok_firstn me f k Hf) Hl eq_refl) as (s'' & Hrn & _).
  rewrite <- (firstn_skipn_nth f k _ Ef) in Hrn. rewrite Hrn. cbn [fst lift_read].
  fold (St f k). unfold f. rewrite (slice_flat_line o ls k ln E). reflexivity.
Qed.

(** *** Byte-level form of C20_seek_absent: an absent stamp is classified by
    its rank; never a position, never the depth limit. *)
Theorem b_seek_absent o me ls ts r :
  0 < me -> blines_ok me ls ->
  stamps_nonzero (absf o ls) -> sorted_ts (absf o ls) -> size_ok (absf o ls) -> ls <> [] ->
  (r <= length ls)%nat ->
  (forall k ln, nth_error ls k = Some ln -> (k < r)%nat -> read_qlog_ts o ln < ts) ->
  (forall k ln, nth_error ls k = Some ln -> (r <= k)%nat -> ts < read_qlog_ts o ln) ->
  b_seek_ts o me (flat ls) ts =
    if Nat.eqb r 0 then TooEarly else if Nat.eqb r (length ls) then TooLate else NotFound.
Proof.
  intros Hme Hls Hnz Hsort Hsize Hne Hr Hlo Hhi.
  rewrite b_seek_ts_refines by auto.
  replace (length ls) with (length (absf o ls)) by apply map_length.
  apply seek_absent; auto.
  - apply absf_lines_ok; exact Hls.
  - destruct ls; [congruence|discriminate].
  - unfold absf. rewrite map_length. exact Hr.
  - intros k l t Ek Hk. destruct (nth_absf o ls k l t Ek) as (ln & Eln & _ & ->). eapply Hlo; eauto.
  - intros k l t Ek Hk. destruct (nth_absf o ls k l t Ek) as (ln & Eln & _ & ->). eapply Hhi; eauto.
Qed.

(** A seek that finds nothing leaves the position where it was. *)
Theorem b_seek_failed_keeps_position o me c ts s :
  (forall p d, b_seek_ts o me c ts <> Found p d) -> pos (snd (b_seek_ts_state o me c ts s)) = pos s.
Proof.
  intro H. unfold b_seek_ts_state. cbn [snd pos].
  destruct (b_seek_ts o me c ts) eqn:E; try reflexivity. exfalso. eapply H. reflexivity.
Qed.

(** The premises are satisfiable: a file of three lines holding marker-like
    text, with the stamps of a table. *)
Definition ex_T (n : N) : bytes :=
  B "{""T"":"""%string ++ [48 + n]%N ++ B """,""QH"":""x\""T\"":\""9""}"%string.
Definition ex_oracle (v : bytes) : Z := match v with [d] => Z.of_N d - 48 | _ => 0 end.

Example b_seek_example :
  let ls := [ex_T 1; ex_T 3; ex_T 5] in
  blines_ok 64 ls /\ stamps_nonzero (absf ex_oracle ls) /\ size_ok (absf ex_oracle ls) /\
  map (read_qlog_ts ex_oracle) ls = [1; 3; 5] /\
  b_seek_ts ex_oracle 64 (flat ls) 3 = Found 55 0 /\
  b_seek_ts ex_oracle 64 (flat ls) 4 = NotFound /\
  b_seek_ts ex_oracle 64 (flat ls) 0 = TooEarly /\
  b_seek_ts ex_oracle 64 (flat ls) 6 = TooLate /\
  b_read_all 64 6400 (flat ls) 4 (b_seek_start (flat ls) rstate0) = (rev ls, true).
Proof.
  cbv zeta. repeat split; try (vm_compute; reflexivity).
  - repeat constructor; vm_compute; auto; try reflexivity.
  - repeat constructor; vm_compute; discriminate.
Qed.

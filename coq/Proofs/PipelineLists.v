(** Rule lists switched on and off at run time: what is in force after any
    sequence of changes.  Proofs for the C01 / C02 clauses "for all rule
    sets", read over the rule sets a running server goes through. *)
From Coq Require Import List NArith Bool Lia.
From AGH Require Import Base.Run Base.NetAddr Base.RuleEngine Model.Pipeline Model.PipelineLists.
From AGH Require Model.Rewrites.
Import ListNotations.
Local Open Scope N_scope.

Definition all_off (ls : list flist) : Prop := Forall (fun f => fl_on f = false) ls.

Lemma active_all_off ls : all_off ls -> active ls = [].
Proof.
  unfold active. induction 1 as [|f ls Hf _ IH]; cbn; [reflexivity|].
  rewrite Hf. exact IH.
Qed.

Lemma active_app a b : active (a ++ b) = active a ++ active b.
Proof. unfold active. apply flat_map_app. Qed.

(** The flags and rules after a change, list by list. *)
Lemma set_on_urls u en ls : map fl_url (set_on u en ls) = map fl_url ls.
Proof.
  unfold set_on. rewrite map_map. apply map_ext. intros f. destruct (fl_url f =? u); reflexivity.
Qed.

Lemma set_on_rules u en ls : map fl_rules (set_on u en ls) = map fl_rules ls.
Proof.
  unfold set_on. rewrite map_map. apply map_ext. intros f. destruct (fl_url f =? u); reflexivity.
Qed.

Lemma set_on_flag u en ls f :
  In f (set_on u en ls) -> fl_url f = u -> fl_on f = en.
Proof.
  unfold set_on. rewrite in_map_iff. intros [g [<- _]] H.
  destruct (fl_url g =? u) eqn:E; cbn in *; [reflexivity|].
  apply N.eqb_neq in E. contradiction.
Qed.

Lemma set_on_other u en ls f :
  In f ls -> fl_url f <> u -> In f (set_on u en ls).
Proof.
  intros Hin Hne. unfold set_on. apply in_map_iff. exists f. split; [|exact Hin].
  apply N.eqb_neq in Hne. rewrite Hne. reflexivity.
Qed.

(** The rules of an enabled list are part of what the engine is built from. *)
Lemma active_incl ls f : In f ls -> fl_on f = true -> incl (fl_rules f) (active ls).
Proof.
  intros Hin Hon r Hr. unfold active. apply in_flat_map. exists f. split; [exact Hin|].
  rewrite Hon. exact Hr.
Qed.

(** Every rule the engine is built from comes from an enabled list. *)
Lemma active_only_enabled ls r :
  In r (active ls) -> exists f, In f ls /\ fl_on f = true /\ In r (fl_rules f).
Proof.
  unfold active. rewrite in_flat_map. intros [f [Hin Hr]].
  destruct (fl_on f) eqn:E; [|destruct Hr]. exists f. auto.
Qed.

(** Switching a list on puts its rules in force (set_url enabled:true, the
    source serving what it served before: seeded change C01-C). *)
Lemma switched_on_in_force u ls f :
  In f ls -> fl_url f = u -> incl (fl_rules f) (active (set_on u true ls)).
Proof.
  intros Hin Hu.
  apply (active_incl (set_on u true ls) (mkFList (fl_url f) true (fl_rules f))); [|reflexivity].
  unfold set_on. apply in_map_iff. exists f. split; [|exact Hin].
  rewrite Hu, N.eqb_refl. reflexivity.
Qed.

(** Switching a list off takes its rules out unless another enabled list
    holds them. *)
Lemma switched_off_not_in_force u ls r :
  In r (active (set_on u false ls)) ->
  exists f, In f ls /\ fl_url f <> u /\ fl_on f = true /\ In r (fl_rules f).
Proof.
  intros H. apply active_only_enabled in H. destruct H as [g [Hin [Hon Hr]]].
  unfold set_on in Hin. apply in_map_iff in Hin. destruct Hin as [f [<- Hf]].
  destruct (fl_url f =? u) eqn:E; cbn in *; [discriminate|].
  apply N.eqb_neq in E. exists f. auto.
Qed.

(** Switching every list off, in any order, one call per URL. *)
Lemma set_on_all_off_step u ls : all_off ls -> all_off (set_on u false ls).
Proof.
  unfold all_off, set_on. intros H. apply Forall_forall. intros g Hg.
  apply in_map_iff in Hg. destruct Hg as [f [<- Hf]].
  destruct (fl_url f =? u); cbn; [reflexivity|].
  rewrite Forall_forall in H. auto.
Qed.

Lemma set_on_off_covers u ls f :
  In f (set_on u false ls) -> fl_on f = true -> fl_url f <> u.
Proof.
  intros Hin Hon Hu. rewrite (set_on_flag u false ls f Hin Hu) in Hon. discriminate.
Qed.

Lemma switch_all_off urls : forall ls,
  incl (map fl_url ls) urls ->
  all_off (fold_left (fun l u => set_on u false l) urls ls).
Proof.
  induction urls as [|u urls IH]; intros ls Hincl; cbn.
  - destruct ls as [|f ls]; [constructor|]. exfalso. apply (Hincl (fl_url f)). left. reflexivity.
  - (* lists with URL u are off after the first call and stay off; the others are covered by [urls] *)
    assert (Hgen : forall l, (forall f, In f l -> fl_on f = true -> In (fl_url f) urls) ->
                             all_off (fold_left (fun l u => set_on u false l) urls l)).
    { clear. induction urls as [|v urls IH]; intros l H; cbn.
      - apply Forall_forall. intros f Hf. destruct (fl_on f) eqn:E; [|reflexivity].
        destruct (H f Hf E).
      - apply IH. intros f Hf Hon.
        pose proof (set_on_off_covers v l f Hf Hon) as Hne.
        unfold set_on in Hf. apply in_map_iff in Hf. destruct Hf as [g [<- Hg]].
        destruct (fl_url g =? v) eqn:E; cbn in *; [discriminate|].
        destruct (H g Hg Hon) as [->|Hin]; [contradiction|exact Hin]. }
    apply Hgen. intros f Hf Hon.
    pose proof (set_on_off_covers u ls f Hf Hon) as Hne.
    assert (Hu : In (fl_url f) (map fl_url (set_on u false ls))) by (apply in_map; exact Hf).
    rewrite set_on_urls in Hu. destruct (Hincl _ Hu) as [->|Hin]; [contradiction|exact Hin].
Qed.

(** No rules: the engine matches nothing. *)
Lemma match_request_nil q : match_request [] q = (empty_result, false).
Proof. unfold match_request. destruct (rq_host q); reflexivity. Qed.

Section Ask.
  Variable sb par : bytes -> bool.
  Variable ss : bytes -> N -> option ssverdict.
  Variable srt : list Rewrites.entry -> list Rewrites.entry.

  (** The outcome of a query depends on the history of changes only through
      the rules that are in force at the end. *)
  Lemma ask_depends_on_rules_in_force st st' c up q :
    allow_rules st = allow_rules st' -> block_rules st = block_rules st' ->
    ask sb par ss srt st c up q = ask sb par ss srt st' c up q.
  Proof. unfold ask. intros -> ->. reflexivity. Qed.

  Lemma history_independent st chs chs' c up q :
    allow_rules (apply_changes st chs) = allow_rules (apply_changes st chs') ->
    block_rules (apply_changes st chs) = block_rules (apply_changes st chs') ->
    ask_after sb par ss srt st chs c up q = ask_after sb par ss srt st chs' c up q.
  Proof. unfold ask_after. apply ask_depends_on_rules_in_force. Qed.

  (** With no allow list enabled the rule check (matchHost: the question's
      name and every record of an answer) is the one of a server that has no
      allow list at all: the allow engine matches nothing. *)
  Lemma no_allow_list_enabled_match_host st block_eng s host qt :
    all_off (ls_allow st) ->
    match_host (match_request (allow_rules st)) block_eng s host qt =
    match_host (fun _ => (empty_result, false)) block_eng s host qt.
  Proof.
    intros H. unfold match_host, allow_rules. rewrite (active_all_off _ H), match_request_nil.
    reflexivity.
  Qed.
End Ask.

Lemma allow_engine_of_all_off st rq :
  all_off (ls_allow st) -> match_request (allow_rules st) rq = (empty_result, false).
Proof. intros H. unfold allow_rules. rewrite (active_all_off _ H). apply match_request_nil. Qed.

(** set_url enabled:false for every allow list (any order, any superset of
    their URLs, whatever was enabled and whatever has been matched before):
    afterwards the allow engine matches nothing and the block side is what
    it was.  (Seeded change C02-E kept the previous allow engine.) *)
Definition disable_allow (urls : list N) : list lchange := map (fun u => LSet true u false) urls.

Lemma apply_disable_allow urls : forall st,
  apply_changes st (disable_allow urls) =
  mkLState (ls_user st) (ls_block st) (fold_left (fun l u => set_on u false l) urls (ls_allow st)).
Proof.
  unfold apply_changes, disable_allow.
  induction urls as [|u urls IH]; intros st; cbn; [destruct st; reflexivity|].
  rewrite IH. reflexivity.
Qed.

Lemma all_allow_lists_disabled st urls :
  incl (map fl_url (ls_allow st)) urls ->
  let st' := apply_changes st (disable_allow urls) in
  (forall rq, match_request (allow_rules st') rq = (empty_result, false)) /\ block_rules st' = block_rules st.
Proof.
  intros Hincl. cbv zeta. rewrite apply_disable_allow. split.
  - intros rq. apply allow_engine_of_all_off. cbn. apply switch_all_off. exact Hincl.
  - reflexivity.
Qed.

(** set_url enabled:true for a block list: its rules are in force (whatever
    happened before: it may have been disabled and re-enabled any number of
    times with the source serving the same rules).  Seeded change C01-C left
    a re-enabled list out of the engine. *)
Lemma block_list_enabled_in_force st u f :
  In f (ls_block st) -> fl_url f = u ->
  incl (fl_rules f) (block_rules (apply_change st (LSet false u true))).
Proof.
  intros Hin Hu r Hr. unfold block_rules. cbn. apply in_or_app. right.
  exact (switched_on_in_force u (ls_block st) f Hin Hu r Hr).
Qed.

(** ... and a change of one side leaves the other side alone. *)
Lemma change_other_side st w u en :
  (w = true -> block_rules (apply_change st (LSet w u en)) = block_rules st) /\ (w = false -> allow_rules (apply_change st (LSet w u en)) = allow_rules st).
Proof. split; intros ->; reflexivity. Qed.

(** Disable then enable again = as before, when the list was enabled. *)
Lemma off_on_restores u ls :
  (forall f, In f ls -> fl_url f = u -> fl_on f = true) ->
  set_on u true (set_on u false ls) = ls.
Proof.
  intros H. unfold set_on. rewrite map_map. rewrite <- (map_id ls) at 2.
  apply map_ext_in. intros f Hf. destruct (fl_url f =? u) eqn:E; cbn.
  - rewrite E. apply N.eqb_eq in E. rewrite <- (H f Hf E). destruct f; reflexivity.
  - rewrite E. reflexivity.
Qed.

(** * The seeded scenarios, computed *)
Definition exl_block_pat : bytes := [124;124;98;46;97;46;116;101;115;116;94].     (* ||b.a.test^ *)
Definition exl_rule (id : N) (white : bool) : rule :=
  RNet (mkNRule id white exl_block_pat false false [] [] (mkClients [] []) (mkClients [] []) [] [] [] None).
Definition exl_state : lstate :=
  mkLState [exl_rule 1 false] [] [mkFList 7 true [exl_rule 2 true]].
Definition exl_rq : ufreq := mkReq [98;46;97;46;116;101;115;116] 5 [] None [].

Lemma exl_before : snd (match_request (allow_rules exl_state) exl_rq) = true.
Proof. vm_compute. reflexivity. Qed.
Lemma exl_after :
  snd (match_request (allow_rules (apply_changes exl_state (disable_allow [7]))) exl_rq) = false /\ snd (match_request (block_rules (apply_changes exl_state (disable_allow [7]))) exl_rq) = true.
Proof. vm_compute. split; reflexivity. Qed.

(** C07: cursor (older_than) paging, on top of the completeness of the C20
    timestamp seek (Proofs/QLogFile.v: seek_present / too_late / too_early and
    their two-file composition reader_seek_present / reader_seek_newer).

    Result: in every state reachable by a history with strictly increasing
    positive stamps (files under 2^63 bytes), following the [oldest] cursors
    from the first page concatenates exactly to the visible log, for every
    page size >= 1 and EVERY scan window (so also when maxFileScanEntries cuts
    a page short), whichever of memory / current file / rotated file the
    cursor entry sits in. *)
From Coq Require Import ZArith NArith List Bool Lia.
From AGH Require Import Base.Run Model.QLogFile Model.QLog Proofs.QLogFile Proofs.QLog.
Import ListNotations.
Local Open Scope Z_scope.

(** ** List facts *)
Lemma app_eq_len {A} (a c b d : list A) : length a = length c -> a ++ b = c ++ d -> a = c.
Proof.
  revert c; induction a as [|x a IH]; intros [|y c] Hl H; cbn in *; try discriminate; auto.
  injection H as -> H. f_equal. apply IH; auto.
Qed.

Lemma filter_none {A} (f : A -> bool) l : (forall y, In y l -> f y = false) -> filter f l = [].
Proof.
  induction l as [|a l IH]; intro H; cbn [filter]; auto.
  rewrite (H a (or_introl eq_refl)). apply IH. intros; apply H; right; auto.
Qed.

Lemma filter_all {A} (f : A -> bool) l : (forall y, In y l -> f y = true) -> filter f l = l.
Proof.
  induction l as [|a l IH]; intro H; cbn [filter]; auto.
  rewrite (H a (or_introl eq_refl)). f_equal. apply IH. intros; apply H; right; auto.
Qed.

Lemma filter_filter' {A} (f g : A -> bool) l :
  filter f (filter g l) = filter (fun x => g x && f x) l.
Proof.
  induction l as [|a l IH]; cbn [filter]; auto.
  destruct (g a); cbn [filter andb]; [destruct (f a)|]; rewrite IH; reflexivity.
Qed.

Lemma filter_length_le {A} (f g : A -> bool) l : (forall e, f e = true -> g e = true) ->
  (length (filter f l) <= length (filter g l))%nat.
Proof.
  intro H. induction l as [|a l IH]; cbn [filter]; auto.
  destruct (f a) eqn:F; [rewrite (H _ F); cbn; lia|]. destruct (g a); cbn; lia.
Qed.

Lemma filter_length_lt {A} (f g : A -> bool) l y : (forall e, f e = true -> g e = true) ->
  In y l -> g y = true -> f y = false -> (length (filter f l) < length (filter g l))%nat.
Proof.
  intros H. induction l as [|a l IH]; intros Hy Hg Hf; [destruct Hy|].
  cbn [filter]. destruct Hy as [->|Hy].
  - rewrite Hg, Hf. pose proof (filter_length_le f g l H). cbn. lia.
  - specialize (IH Hy Hg Hf). destruct (f a) eqn:F; [rewrite (H _ F); cbn; lia|].
    destruct (g a); cbn; lia.
Qed.

Lemma firstnZ_nil {A} (l : list A) n : 0 < n -> firstnZ n l = [] -> l = [].
Proof. destruct l; cbn [firstnZ]; auto. intro. destruct (Z.leb_spec n 0); [lia|discriminate]. Qed.

Lemma nth_split_concat {A} (fs : list (list A)) : forall i f, nth_error fs i = Some f ->
  concat fs = concat (firstn i fs) ++ f ++ concat (skipn (S i) fs).
Proof.
  induction fs as [|a fs IH]; intros [|i] f H; cbn in H; try discriminate.
  - injection H as ->. reflexivity.
  - cbn [firstn concat]. rewrite (IH _ _ H). rewrite <- app_assoc. reflexivity.
Qed.

Lemma concat_nth_split {A} (fs : list (list A)) i f k x :
  nth_error fs i = Some f -> nth_error f k = Some x ->
  concat fs = (concat (firstn i fs) ++ firstn k f) ++ x :: (skipn (S k) f ++ concat (skipn (S i) fs)).
Proof.
  intros Hi Hk. rewrite (nth_split_concat _ _ _ Hi). rewrite (firstn_skipn_nth _ _ _ Hk) at 1.
  rewrite <- !app_assoc. reflexivity.
Qed.

Lemma in_later_file {A} (fs : list (list A)) : forall i j f' y,
  nth_error fs j = Some f' -> (i < j)%nat -> In y f' -> In y (concat (skipn (S i) fs)).
Proof.
  induction fs as [|a fs IH]; intros i [|j] f' y H Hij Hy; cbn in H; try discriminate; try lia.
  destruct i as [|i].
  - cbn [skipn]. apply in_concat. exists f'. split; auto. eapply nth_error_In; eauto.
  - change (skipn (S (S i)) (a :: fs)) with (skipn (S i) fs). eapply IH; eauto. lia.
Qed.

Lemma total_len_nth (l : list qfile) : forall i g, nth_error l i = Some g ->
  (total_len (firstn i l) + length g <= total_len l)%nat.
Proof.
  induction l as [|a l IH]; intros [|i] g H; cbn in H; try discriminate.
  - injection H as ->. cbn. lia.
  - specialize (IH _ _ H). cbn [firstn]. unfold total_len in *. cbn [fold_right]. lia.
Qed.

Lemma qf_app a b : qf (a ++ b) = qf a ++ qf b.
Proof. unfold qf. apply map_app. Qed.

(** ** Order facts *)
Lemma incr_lb lo es : incr lo es -> forall y, In y es -> lo < e_time y.
Proof.
  revert lo; induction es as [|e es IH]; intros lo H y Hy; [destruct Hy|].
  destruct H as [H1 H2]. destruct Hy as [->|Hy]; auto. specialize (IH _ H2 _ Hy). lia.
Qed.

Lemma incr_app_lt lo a b : incr lo (a ++ b) -> forall y x, In y a -> In x b -> e_time y < e_time x.
Proof.
  revert lo; induction a as [|e a IH]; intros lo H y x Hy Hx; [destruct Hy|].
  cbn [app incr] in H. destruct H as [H1 H2]. destruct Hy as [->|Hy].
  - eapply incr_lb; eauto. apply in_or_app; auto.
  - eapply IH; eauto.
Qed.

Lemma incr_app_r lo a b : incr lo (a ++ b) -> exists lo', incr lo' b.
Proof.
  revert lo; induction a as [|e a IH]; intros lo H; cbn [app] in H; eauto.
  destruct H as [_ H]. eauto.
Qed.

Lemma incr_split lo pre x suf : incr lo (pre ++ x :: suf) ->
  (forall y, In y pre -> e_time y < e_time x) /\ (forall y, In y suf -> e_time x < e_time y).
Proof.
  intro H. split; intros y Hy.
  - eapply incr_app_lt; eauto. left; auto.
  - change (x :: suf) with ([x] ++ suf) in H. rewrite app_assoc in H.
    eapply incr_app_lt; eauto. apply in_or_app; right; left; auto.
Qed.

Lemma incr_nth lo es : incr lo es -> forall i j a b,
  nth_error es i = Some a -> nth_error es j = Some b -> (i < j)%nat -> e_time a < e_time b.
Proof.
  revert lo; induction es as [|e es IH]; intros lo H i j a b Ha Hb Hij; [destruct i; discriminate|].
  destruct H as [H1 H2]. destruct j as [|j]; [lia|]. cbn in Hb. destruct i as [|i]; cbn in Ha.
  - injection Ha as ->. eapply incr_lb; eauto. eapply nth_error_In; eauto.
  - eapply IH; eauto. lia.
Qed.

Lemma incr_sorted_ts lo es : incr lo es -> sorted_ts (qf es).
Proof.
  intros H i j li ti lj tj Hi Hj Hij. unfold qf in *. rewrite nth_error_map in Hi, Hj.
  destruct (nth_error es i) as [a|] eqn:Ea; [|discriminate].
  destruct (nth_error es j) as [b|] eqn:Eb; [|discriminate].
  cbn in Hi, Hj. injection Hi as _ <-. injection Hj as _ <-. eapply incr_nth; eauto.
Qed.

Lemma decr_all_lt l : forall hi, decr hi l -> forall y, In y l -> e_time y < hi.
Proof.
  induction l as [|e l IH]; intros hi H y Hy; [destruct Hy|].
  destruct H as [H1 H2]. destruct Hy as [->|Hy]; auto. specialize (IH _ H2 _ Hy). lia.
Qed.

Lemma decr_app_l a b : forall hi, decr hi (a ++ b) -> decr hi a.
Proof. induction a as [|e a IH]; intros hi H; cbn in *; auto. destruct H; split; auto. Qed.

Lemma decr_app_r a b : forall hi, decr hi (a ++ b) -> a <> [] -> decr (e_time (last a dflt)) b.
Proof.
  induction a as [|e a IH]; intros hi H Hne; [congruence|].
  destruct H as [_ H]. destruct a as [|e' a]; [exact H|].
  change (last (e :: e' :: a) dflt) with (last (e' :: a) dflt). eapply IH; eauto. discriminate.
Qed.

Lemma decr_ge_last a : forall hi, decr hi a -> forall y, In y a -> e_time (last a dflt) <= e_time y.
Proof.
  induction a as [|e a IH]; intros hi H y Hy; [destruct Hy|].
  destruct H as [_ H]. destruct a as [|e' a].
  - destruct Hy as [->|[]]. cbn. lia.
  - change (last (e :: e' :: a) dflt) with (last (e' :: a) dflt).
    destruct Hy as [<-|Hy]; [|eapply IH; eauto].
    assert (In (last (e' :: a) dflt) (e' :: a)).
    { destruct (@exists_last _ (e' :: a) ltac:(discriminate)) as (l' & z & E). rewrite E, last_last.
      apply in_or_app; right; left; auto. }
    pose proof (decr_all_lt _ _ H _ H0). lia.
Qed.

Lemma last_In (a : list entry) : a <> [] -> In (last a dflt) a.
Proof.
  intro H. destruct (@exists_last _ a H) as (l' & z & E). rewrite E, last_last.
  apply in_or_app; right; left; auto.
Qed.

(** In a newest-first list, what is older than the last element of a
    non-empty prefix is exactly the rest. *)
Lemma decr_filter_last a b hi : decr hi (a ++ b) -> a <> [] ->
  filter (fun e => e_time e <? e_time (last a dflt)) (a ++ b) = b.
Proof.
  intros H Hne. rewrite filter_app.
  rewrite (filter_none _ a), (filter_all _ b); auto.
  - intros y Hy. apply Z.ltb_lt. eapply decr_all_lt; [eapply decr_app_r; eauto|auto].
  - intros y Hy. apply Z.ltb_ge. eapply decr_ge_last; eauto. eapply decr_app_l; eauto.
Qed.

(** ** readEntries with a scan window: the window covers a prefix [L1] of the
    lines; the result is what matches in it; the reported stamp is 0 only at
    the end of the lines, else that of the last scanned line. *)
Definition last_time (L : list entry) (d : Z) : Z :=
  match L with [] => d | _ => e_time (last L dflt) end.

Lemma last_time_cons e L d : last_time (e :: L) d = last_time L (e_time e).
Proof. destruct L; reflexivity. Qed.

Lemma process_snd c p e : snd (process c p e) = e_time e.
Proof.
  unfold process. destruct (negb _); [reflexivity|]. destruct (is_ignored c e); [reflexivity|].
  destruct (client_ignored c e); [reflexivity|]. destruct (negb _); reflexivity.
Qed.

Lemma collect_split c p lim : forall L total n oldest, 0 <= n < lim ->
  exists L1 L2, L = L1 ++ L2 /\
    fst (collect c p lim (map Some L) total n oldest) = filter (keep c p) L1 /\
    ((snd (collect c p lim (map Some L) total n oldest) = 0 /\ L2 = []) \/
     (snd (collect c p lim (map Some L) total n oldest) = last_time L1 oldest /\
      (L1 = [] -> 0 < p_scan p <= total))).
Proof.
  induction L as [|e L IH]; intros total n oldest Hn; cbn [map collect].
  - exists [], []. split; [reflexivity|].
    destruct ((0 <? p_scan p) && (p_scan p <=? total)) eqn:W; cbn [fst snd filter]; split; auto.
    right. split; [reflexivity|]. intros _. apply andb_true_iff in W as [W1 W2].
    apply Z.ltb_lt in W1. apply Z.leb_le in W2. lia.
  - destruct ((0 <? p_scan p) && (p_scan p <=? total)) eqn:W.
    + exists [], (e :: L). split; [reflexivity|]. cbn [fst snd filter]. split; auto.
      right. split; [reflexivity|]. intros _. apply andb_true_iff in W as [W1 W2].
      apply Z.ltb_lt in W1. apply Z.leb_le in W2. lia.
    + pose proof (process_fst c p e) as Hp. pose proof (process_snd c p e) as Hs.
      destruct (process c p e) as [ent ts]. cbn [fst snd] in Hp, Hs. subst ent ts.
      destruct (keep c p e) eqn:Kp.
      * destruct (Z.eqb_spec (n + 1) lim).
        -- exists [e], L. split; [reflexivity|]. cbn [fst snd filter]. rewrite Kp. split; auto.
           right. split; [reflexivity|]. discriminate.
        -- destruct (IH (total + 1) (n + 1) (e_time e) ltac:(lia)) as (L1 & L2 & -> & Hf & Ho).
           destruct (collect c p lim (map Some (L1 ++ L2)) (total + 1) (n + 1) (e_time e)) as [r o].
           cbn [fst snd] in *. exists (e :: L1), L2. split; [reflexivity|].
           cbn [filter]. rewrite Kp. split; [f_equal; auto|].
           destruct Ho as [Ho|[Ho _]]; [left; auto|right]. rewrite last_time_cons. split; auto. discriminate.
      * destruct (IH (total + 1) n (e_time e) ltac:(lia)) as (L1 & L2 & -> & Hf & Ho).
        exists (e :: L1), L2. split; [reflexivity|]. cbn [filter]. rewrite Kp. split; auto.
        destruct Ho as [Ho|[Ho _]]; [left; auto|right]. rewrite last_time_cons. split; auto. discriminate.
Qed.

(** ** What the reader yields after seekRecord *)
Section Reader.
  Variables (me bf : Z).
  Hypothesis Hme : 0 < me <= bf.

  (** A file, as entries: lines fit, stamps readable, under 2^63 bytes, not empty. *)
  Definition efile_ok (f : list entry) : Prop :=
    Forall (len_ok me) f /\ Forall (fun e => e_time e <> 0) f /\ size_ok (qf f) /\ f <> [].

  Lemma efile_ok_qf f : efile_ok f -> file_ok me (qf f).
  Proof.
    intros (H1 & H2 & H3 & H4). split; [apply lines_ok_qf; auto|]. split; [|split; auto].
    - unfold stamps_nonzero, qf. apply Forall_map. cbn [snd]. exact H2.
    - destruct f; [congruence|discriminate].
  Qed.

  Lemma efiles_ok_qf fs : Forall efile_ok fs -> Forall (file_ok me) (map qf fs).
  Proof. intro H. apply Forall_map. eapply Forall_impl; [|exact H]. apply efile_ok_qf. Qed.

  Lemma efiles_len_ok fs : Forall efile_ok fs -> Forall (Forall (len_ok me)) fs.
  Proof. intro H. eapply Forall_impl; [|exact H]. intros f Hf. apply Hf. Qed.

  Lemma lookup_tagged_prefix fs i es k : nth_error fs i = Some es -> Forall (len_ok me) es ->
    map (lookup fs) (tagged i (firstn k (qf es))) = map Some (rev (firstn k es)).
  Proof.
    intros Hn Hok. unfold tagged. rewrite map_map. cbn [lookup]. rewrite Nat2Z.id, Hn.
    rewrite map_rev. rewrite (map_rev Some). f_equal.
    assert (Hes : es = firstn k es ++ skipn k es) by (symmetry; apply firstn_skipn).
    pose proof (lookup_spans me es Hok [] (firstn k es ++ skipn k es) Hes) as H.
    change (fsize (qf [])) with 0 in H.
    rewrite qf_app, spans_app, !map_app in H.
    unfold qf at 1. rewrite firstn_map. fold (qf (firstn k es)).
    eapply app_eq_len; [|exact H]. rewrite !map_length, spans_length. unfold qf. rewrite map_length. reflexivity.
  Qed.

  (** The cursor stamp is that of line [k] of file [i]: the reader then yields
      the older part of that file and the older files. *)
  Lemma raw_found fs i f k x : Forall efile_ok fs -> (exists lo, incr lo (concat fs)) ->
    nth_error fs i = Some f -> nth_error f k = Some x ->
    exists r, seek_record me bf (Some (e_time x)) (new_reader (map qf fs)) = Some r /\
      map (lookup fs) (reader_read_all me bf (S (total_lines fs)) r) =
        map Some (rev (concat (firstn i fs) ++ firstn k f)).
  Proof.
    intros Hok [lo Hincr] Hi Hk.
    pose proof (concat_nth_split fs i f k x Hi Hk) as Hsplit.
    assert (Hfi : exists lo', incr lo' f).
    { rewrite (nth_split_concat _ _ _ Hi) in Hincr. apply incr_app_r in Hincr as [lo' H].
      exists lo'. eapply incr_app; eauto. }
    destruct Hfi as [lo' Hfi].
    destruct (reader_seek_present me bf (map qf fs) i (qf f) k (e_len x) (e_time x) Hme
                (efiles_ok_qf _ Hok)) as (r' & r'' & x0 & Hs & Hn & Hall).
    - rewrite nth_error_map, Hi. reflexivity.
    - eapply incr_sorted_ts; eauto.
    - unfold qf. rewrite nth_error_map, Hk. reflexivity.
    - intros j f' Hj Hf' k' l t' Hk'.
      rewrite nth_error_map in Hf'. destruct (nth_error fs j) as [g|] eqn:Eg; [|discriminate].
      cbn in Hf'. injection Hf' as <-. unfold qf in Hk'. rewrite nth_error_map in Hk'.
      destruct (nth_error g k') as [y|] eqn:Ey; [|discriminate]. cbn in Hk'. injection Hk' as _ <-.
      rewrite Hsplit in Hincr. apply incr_split in Hincr as [_ Hsuf]. apply Hsuf.
      apply in_or_app; right. eapply in_later_file; eauto. eapply nth_error_In; eauto.
    - exists r''. split.
      + unfold seek_record. rewrite Hs, Hn. reflexivity.
      + rewrite Hall.
        * rewrite map_app. rewrite (lookup_tagged_prefix fs i f k Hi).
          2:{ rewrite Forall_forall in Hok. apply (Hok f). eapply nth_error_In; eauto. }
          rewrite (lookup_all_rev_upto me fs (efiles_len_ok _ Hok) i).
          2:{ apply nth_error_Some_length in Hi. lia. }
          rewrite rev_app_distr, map_app. reflexivity.
        * rewrite app_length. unfold tagged. rewrite map_length, rev_length, spans_length.
          rewrite all_rev_upto_length by (rewrite map_length; apply nth_error_Some_length in Hi; lia).
          rewrite <- total_len_qf.
          assert (Hq : nth_error (map qf fs) i = Some (qf f)) by (rewrite nth_error_map, Hi; reflexivity).
          pose proof (total_len_nth _ _ _ Hq). rewrite firstn_length. lia.
  Qed.

  (** The cursor stamp is newer than everything in the newest file: the
      reader falls back to the newest end and yields everything. *)
  Lemma raw_newer fs n f t : Forall efile_ok fs -> length fs = S n -> nth_error fs n = Some f ->
    (forall y, In y f -> e_time y < t) ->
    exists r, seek_record me bf (Some t) (new_reader (map qf fs)) = Some r /\
      map (lookup fs) (reader_read_all me bf (S (total_lines fs)) r) = map Some (rev (concat fs)).
  Proof.
    intros Hok Hlen Hn Hold.
    destruct (reader_seek_newer me bf (map qf fs) n (qf f) t Hme (efiles_ok_qf _ Hok)) as (r' & Hs & Hall).
    - rewrite map_length; auto.
    - rewrite nth_error_map, Hn. reflexivity.
    - intros k l t' Hk. unfold qf in Hk. rewrite nth_error_map in Hk.
      destruct (nth_error f k) as [y|] eqn:Ey; [|discriminate]. cbn in Hk. injection Hk as _ <-.
      apply Hold. eapply nth_error_In; eauto.
    - exists r'. split; [unfold seek_record; rewrite Hs; reflexivity|].
      rewrite Hall by (rewrite all_rev_length, total_len_qf; lia).
      unfold all_rev. rewrite map_length.
      rewrite (lookup_all_rev_upto me fs (efiles_len_ok _ Hok)) by lia. rewrite firstn_all. reflexivity.
  Qed.

  Lemma raw_start fs : Forall efile_ok fs ->
    exists r, seek_record me bf None (new_reader (map qf fs)) = Some r /\
      map (lookup fs) (reader_read_all me bf (S (total_lines fs)) r) = map Some (rev (concat fs)).
  Proof.
    intro Hok. eexists. split; [reflexivity|].
    rewrite <- total_len_qf. rewrite reader_reverse_complete; auto.
    2:{ eapply Forall_impl; [|exact (efiles_ok_qf _ Hok)]. intros a Ha. apply Ha. }
    unfold all_rev. rewrite map_length.
    rewrite (lookup_all_rev_upto me fs (efiles_len_ok _ Hok)) by lia. rewrite firstn_all. reflexivity.
  Qed.
End Reader.

(** ** States in which cursors work *)

(** Well formed, stamps positive, files not empty, everything under 2^63 bytes. *)
Definition wfc (me : Z) (s : state) : Prop :=
  wf me s /\ Forall (fun e => 0 < e_time e) (flat s) /\
  Forall (fun f => f <> []) (files_of s) /\ fsize (qf (flat s)) < 2 ^ 63.

(** A cursor the API hands out: none, or the stamp of an entry of the log. *)
Definition cursor_ok (s : state) (c : option Z) : Prop :=
  match c with None => True | Some t => exists x, In x (flatv s) /\ e_time x = t end.

Lemma flat_files s : flat s = concat (files_of s) ++ buf s.
Proof. unfold flat. rewrite concat_files_of. reflexivity. Qed.

Lemma wfc_files me s : wfc me s -> Forall (efile_ok me) (files_of s) /\ exists lo, incr lo (concat (files_of s)).
Proof.
  intros ([[lo Hincr] Hlen] & Hpos & Hne & Hsz). split.
  - rewrite Forall_forall in Hne |- *. intros f Hf.
    destruct (In_nth_error _ _ Hf) as [i Hi].
    pose proof (nth_split_concat _ _ _ Hi) as Hc.
    rewrite flat_files, Hc in Hlen, Hpos, Hsz.
    apply Forall_app in Hlen as [Hlen Hbuf]. apply Forall_app in Hlen as [HA Hlen].
    apply Forall_app in Hlen as [Hlf HB].
    split; [|split; [|split]]; auto.
    + apply Forall_app in Hpos as [Hpos _]. apply Forall_app in Hpos as [_ Hpos]. apply Forall_app in Hpos as [Hpos _].
      eapply Forall_impl; [|exact Hpos]. intros a Ha. cbv beta in Ha |- *. lia.
    + rewrite !qf_app, !fsize_app in Hsz.
      pose proof (fsize_qf_nonneg _ _ HA). pose proof (fsize_qf_nonneg _ _ HB).
      pose proof (fsize_qf_nonneg _ _ Hbuf). unfold size_ok. lia.
  - exists lo. rewrite flat_files in Hincr. eapply incr_app; eauto.
Qed.

Lemma collect_nil c p lim : collect c p lim [] 0 0 0 = ([], 0).
Proof.
  cbn [collect]. destruct (Z.ltb_spec 0 (p_scan p)); cbn [andb]; auto.
  destruct (Z.leb_spec (p_scan p) 0); auto.
Qed.

Lemma search_files_cursor me bf s p :
  0 < me <= bf -> wfc me s -> cursor_ok s (p_older p) ->
  exists skip L, rev (on_disk s) = skip ++ L /\
    (forall y, In y skip -> older_ok p y = false) /\
    (forall y, In y L -> older_ok p y = true) /\
    search_files me bf s p = collect (cfg s) p (p_offset p + p_limit p) (map Some L) 0 0 0.
Proof.
  intros Hme Hwfc Hcur. destruct (wfc_files _ _ Hwfc) as [Hok [lo Hincr]].
  unfold search_files. rewrite <- concat_files_of.
  destruct (p_older p) as [t|] eqn:Eo.
  - destruct Hcur as (x & Hx & <-). unfold flatv in Hx. apply in_app_or in Hx as [Hx|Hx].
    + (* the cursor entry is on disk *)
      rewrite <- concat_files_of in Hx. apply in_concat in Hx as (f & Hf & Hxf).
      destruct (In_nth_error _ _ Hf) as [i Hi]. destruct (In_nth_error _ _ Hxf) as [k Hk].
      destruct (raw_found me bf Hme (files_of s) i f k x Hok (ex_intro _ lo Hincr) Hi Hk) as (r & -> & Hraw).
      rewrite Hraw. pose proof (concat_nth_split _ _ _ _ _ Hi Hk) as Hsplit.
      set (pre := concat (firstn i (files_of s)) ++ firstn k f) in *.
      set (suf := skipn (S k) f ++ concat (skipn (S i) (files_of s))) in *.
      rewrite Hsplit in Hincr. apply incr_split in Hincr as [Hpre Hsuf].
      exists (rev (x :: suf)), (rev pre). split; [rewrite Hsplit, rev_app_distr; reflexivity|].
      split; [|split; [|reflexivity]]; intros y Hy; apply in_rev in Hy; unfold older_ok; rewrite Eo.
      * apply Z.ltb_ge. destruct Hy as [<-|Hy]; [lia|]. specialize (Hsuf _ Hy). lia.
      * apply Z.ltb_lt. auto.
    + (* the cursor entry is in memory *)
      assert (Hb : In x (buf s)) by (destruct (mem_size (cfg s) =? 0); [destruct Hx|exact Hx]).
      assert (Hall : forall y, In y (concat (files_of s)) -> e_time y < e_time x).
      { destruct Hwfc as ([[lo' Hi'] _] & _). rewrite flat_files in Hi'. intros y Hy. eapply incr_app_lt; eauto. }
      destruct (files_of s) as [|f0 fs0] eqn:Efs.
      * exists [], []. cbn [concat rev app map]. split; [reflexivity|].
        split; [intros ? []|]. split; [intros ? []|]. rewrite collect_nil. reflexivity.
      * rewrite <- Efs in *.
        assert (Hlen : length (files_of s) = S (length fs0)) by (rewrite Efs; reflexivity).
        destruct (nth_error (files_of s) (length fs0)) as [f|] eqn:En;
          [|apply nth_error_None in En; lia].
        destruct (raw_newer me bf Hme (files_of s) (length fs0) f (e_time x) Hok Hlen En) as (r & -> & Hraw).
        { intros y Hy. apply Hall. apply in_concat. exists f. split; auto. eapply nth_error_In; eauto. }
        rewrite Hraw. exists [], (rev (concat (files_of s))). split; [reflexivity|].
        split; [intros ? []|]. split; [|reflexivity].
        intros y Hy. apply in_rev in Hy. unfold older_ok. rewrite Eo. apply Z.ltb_lt. auto.
  - destruct (raw_start me bf Hme (files_of s) Hok) as (r & -> & Hraw). rewrite Hraw.
    exists [], (rev (concat (files_of s))). split; [reflexivity|]. split; [intros ? []|].
    split; [|reflexivity]. intros. unfold older_ok. rewrite Eo. reflexivity.
Qed.

(** ** One page *)
Lemma keep_older c p e : keep c p e = true -> older_ok p e = true.
Proof.
  unfold keep, p_match. intro H. apply andb_true_iff in H as [_ H]. apply andb_true_iff in H as [H _]. exact H.
Qed.

Lemma keep_not_older c p e : older_ok p e = false -> keep c p e = false.
Proof. intro H. destruct (keep c p e) eqn:K; auto. apply keep_older in K. congruence. Qed.

Lemma vis_decr me s p : wf me s -> exists hi, decr hi (vis s p).
Proof.
  intros [[lo Hincr] _].
  assert (Hv : exists lo', incr lo' (flatv s)).
  { exists lo. unfold flat, flatv in *. destruct (mem_size (cfg s) =? 0); auto.
    rewrite app_nil_r. eapply incr_app; eauto. }
  destruct Hv as [lo' Hv]. destruct (incr_decr_rev _ _ Hv) as (hi & Hd & _).
  exists hi. unfold vis. apply decr_filter. exact Hd.
Qed.

Lemma on_disk_flatv s y : In y (on_disk s) -> In y (flatv s).
Proof. intro. unfold flatv. apply in_or_app; auto. Qed.

Lemma flatv_flat s y : In y (flatv s) -> In y (flat s).
Proof.
  unfold flatv, flat. intro H. apply in_app_or in H as [H|H]; apply in_or_app; auto.
  destruct (mem_size (cfg s) =? 0); [destruct H|auto].
Qed.

(** A request with a valid cursor (or none), offset 0, limit >= 1, ANY scan
    window: the page is a prefix of the visible log under that cursor, of at
    most [limit] entries; either the returned cursor is 0 and nothing is
    left, or it is the stamp of a log entry strictly older than the request's
    cursor and what is left is exactly what is older than it. *)
Theorem search_cursor_step me bf s p :
  0 < me <= bf -> wfc me s -> cursor_ok s (p_older p) -> p_offset p = 0 -> 1 <= p_limit p ->
  exists es o rest, search me bf s p = Ok es o /\ vis s p = es ++ rest /\ lenZ es <= p_limit p /\
    ((o = 0 /\ rest = []) \/
     (o <> 0 /\ (exists y, In y (flatv s) /\ e_time y = o /\ older_ok p y = true) /\
      rest = filter (fun e => e_time e <? o) (vis s p))).
Proof.
  intros Hme Hwfc Hcur Hoff Hlim.
  destruct (search_files_cursor me bf s p Hme Hwfc Hcur) as (skip & L & Hrev & Hskip & HL & Hsf).
  pose proof Hwfc as (Hwf & Hpos & _).
  destruct (vis_decr me s p Hwf) as [hi Hdec].
  unfold search. destruct (Z.eqb_spec (p_limit p) 0); [lia|]. rewrite Hsf.
  set (tl := p_offset p + p_limit p) in *.
  destruct (collect_split (cfg s) p tl L 0 0 0 ltac:(lia)) as (L1 & L2 & HLeq & Hfst & Hsnd).
  destruct (collect (cfg s) p tl (map Some L) 0 0 0) as [fe fo]. cbn [fst snd] in Hfst, Hsnd. subst fe.
  set (K := keep (cfg s) p) in *.
  assert (Hm : search_memory s p = filter K (rev (if mem_size (cfg s) =? 0 then [] else buf s))).
  { unfold search_memory. destruct (mem_size (cfg s) =? 0); reflexivity. }
  rewrite Hm. set (Mf := filter K (rev (if mem_size (cfg s) =? 0 then [] else buf s))) in *.
  assert (Hvis : vis s p = (Mf ++ filter K L1) ++ filter K L2).
  { unfold vis, flatv. rewrite rev_app_distr, filter_app. fold K. fold Mf. rewrite Hrev, filter_app.
    rewrite (filter_none K skip) by (intros y Hy; apply keep_not_older; auto).
    cbn [app]. rewrite HLeq, filter_app, app_assoc. reflexivity. }
  set (all := Mf ++ filter K L1) in *.
  replace ((lenZ all >? tl) && (tl <? 0)) with false
    by (symmetry; apply andb_false_iff; right; apply Z.ltb_ge; lia).
  assert (Hcut : (if lenZ all >? tl then firstnZ tl all else all) = firstnZ tl all).
  { destruct (Z.gtb_spec (lenZ all) tl); auto. rewrite firstnZ_all; auto. }
  rewrite Hcut. set (cut := firstnZ tl all) in *.
  assert (Hsplit : vis s p = cut ++ (skipnZ tl all ++ filter K L2)).
  { rewrite Hvis. unfold cut. rewrite app_assoc, firstnZ_skipnZ. reflexivity. }
  rewrite Hsplit in Hdec.
  rewrite (sort_desc_sorted cut hi) by (eapply decr_app_l; eauto).
  replace (p_offset p >? 0) with false by (rewrite Hoff; reflexivity).
  exists cut. eexists. exists (skipnZ tl all ++ filter K L2).
  split; [reflexivity|]. split; [exact Hsplit|].
  split; [unfold cut; pose proof (lenZ_firstnZ_le all tl); lia|].
  destruct cut as [|c0 cut'] eqn:Ecut.
  - (* empty page: the files' stamp decides *)
    apply firstnZ_nil in Ecut; [|lia]. unfold all in Ecut. apply app_eq_nil in Ecut as [EM EL1].
    assert (Hall0 : all = []) by (unfold all; rewrite EM, EL1; reflexivity).
    rewrite Hall0 in *. rewrite skipnZ_all by (unfold lenZ; cbn; lia). cbn [app] in *.
    destruct Hsnd as [[-> ->]|[Hfo Hne]]; [left; auto|right].
    destruct L1 as [|a L1']; [specialize (Hne eq_refl); lia|].
    set (y := last (a :: L1') dflt) in *.
    assert (HyL1 : In y (a :: L1')) by (apply last_In; discriminate).
    assert (HyL : In y L) by (rewrite HLeq; apply in_or_app; auto).
    assert (Hyd : In y (on_disk s)) by (apply in_rev; rewrite Hrev; apply in_or_app; auto).
    assert (Hfo' : fo = e_time y) by (rewrite Hfo; reflexivity).
    split; [|split].
    + rewrite Forall_forall in Hpos. specialize (Hpos y (flatv_flat _ _ (on_disk_flatv _ _ Hyd))). lia.
    + exists y. split; [apply on_disk_flatv; auto|]. split; auto.
    + rewrite Hsplit. cbn [app]. rewrite Hfo'. symmetry. apply filter_all.
      intros z Hz. apply Z.ltb_lt. apply filter_In in Hz as [Hz _].
      (* L = L1 ++ L2 is newest first *)
      assert (HdL : exists h, decr h (rev (on_disk s))).
      { destruct Hwf as [[lo Hi] _]. unfold flat in Hi. apply incr_app in Hi.
        destruct (incr_decr_rev _ _ Hi) as (h & Hd & _). eauto. }
      destruct HdL as [h HdL]. rewrite Hrev in HdL.
      assert (HdL' : exists h', decr h' L).
      { destruct skip; [eauto|]. eexists. eapply decr_app_r; eauto. discriminate. }
      destruct HdL' as [h' HdL']. rewrite HLeq in HdL'.
      eapply decr_all_lt; [eapply decr_app_r; eauto; discriminate|auto].
  - (* non-empty page: its last entry is the cursor *)
    right. cbv beta iota. change (Build_entry 0 0 0 [] [] [] 0 false) with dflt.
    set (y := last (c0 :: cut') dflt) in *.
    assert (Hyc : In y (c0 :: cut')) by (apply last_In; discriminate).
    assert (Hyv : In y (vis s p)) by (rewrite Hsplit; apply in_or_app; auto).
    apply vis_In in Hyv as [Hyf Hyk].
    split; [|split].
    + rewrite Forall_forall in Hpos. specialize (Hpos y (flatv_flat _ _ Hyf)). lia.
    + exists y. split; auto. split; auto. eapply keep_older; eauto.
    + rewrite Hsplit. symmetry. eapply decr_filter_last; eauto. discriminate.
Qed.

(** ** Following the cursors *)
Definition with_older (p : params) (c : option Z) : params :=
  {| p_older := c; p_limit := p_limit p; p_offset := p_offset p; p_scan := p_scan p; p_crits := p_crits p |}.

(** What a client does: request, and while the response carries a cursor,
    request again with it.  [None] = out of fuel or a failed request. *)
Fixpoint chain (me bf : Z) (s : state) (p : params) (fuel : nat) (c : option Z) : option (list (list entry)) :=
  match fuel with
  | O => None
  | S fuel =>
      match search me bf s (with_older p c) with
      | Ok es o => if o =? 0 then Some [es] else option_map (cons es) (chain me bf s p fuel (Some o))
      | _ => None
      end
  end.

Definition older_b (c : option Z) (e : entry) : bool :=
  match c with None => true | Some t => e_time e <? t end.

Lemma vis_older s p o :
  match p_older p with None => True | Some t => o <= t end ->
  vis s (with_older p (Some o)) = filter (fun e => e_time e <? o) (vis s p).
Proof.
  intro H. unfold vis. rewrite filter_filter'. apply filter_ext. intro e.
  unfold keep, p_match, older_ok. cbn [with_older p_older p_crits cfg].
  destruct (p_older p) as [t|].
  - destruct (Z.ltb_spec (e_time e) o), (Z.ltb_spec (e_time e) t); try lia;
      cbn [andb]; rewrite ?andb_true_r, ?andb_false_r; reflexivity.
  - cbn [andb]. destruct (e_time e <? o); rewrite ?andb_true_r, ?andb_false_r; reflexivity.
Qed.

Lemma chain_spec me bf s p : 0 < me <= bf -> wfc me s -> p_offset p = 0 -> 1 <= p_limit p ->
  forall fuel c, cursor_ok s c -> (length (filter (older_b c) (flatv s)) < fuel)%nat ->
  exists pages, chain me bf s p fuel c = Some pages /\
    concat pages = vis s (with_older p c) /\ Forall (fun pg => lenZ pg <= p_limit p) pages.
Proof.
  intros Hme Hwfc Hoff Hlim. induction fuel as [|fuel IH]; intros c Hc Hm; [lia|].
  cbn [chain].
  destruct (search_cursor_step me bf s (with_older p c) Hme Hwfc Hc Hoff Hlim)
    as (es & o & rest & -> & Hvis & Hlen & Hcase).
  cbn [with_older p_limit] in Hlen.
  destruct Hcase as [[-> ->]|(Ho & (y & Hy & Hyt & Hyo) & Hrest)].
  - cbn [Z.eqb]. exists [es]. split; [reflexivity|]. split; [cbn [concat]; rewrite Hvis; reflexivity|].
    constructor; auto.
  - destruct (Z.eqb_spec o 0); [congruence|].
    assert (Hyo' : older_b c y = true) by (destruct c; exact Hyo).
    destruct (IH (Some o)) as (pages & -> & Hcat & Hall).
    + exists y. auto.
    + eapply Nat.lt_le_trans; [|apply Nat.lt_succ_r; exact Hm].
      apply (filter_length_lt _ _ _ y); auto.
      * intros e He. cbn [older_b] in He. apply Z.ltb_lt in He. destruct c as [t|]; auto. cbn [older_b] in *.
        apply Z.ltb_lt in Hyo'. apply Z.ltb_lt. lia.
      * cbn [older_b]. apply Z.ltb_ge. lia.
    + exists (es :: pages). split; [reflexivity|]. split; [|constructor; auto].
      cbn [concat]. rewrite Hcat, Hvis. f_equal.
      change (with_older p (Some o)) with (with_older (with_older p c) (Some o)).
      rewrite vis_older; [symmetry; exact Hrest|].
      cbn [with_older p_older]. destruct c as [t|]; auto. cbn [older_b] in Hyo'. apply Z.ltb_lt in Hyo'. lia.
Qed.

(** *** C07_cursor_paging *)
Theorem cursor_paging me bf s p :
  0 < me <= bf -> wfc me s -> p_older p = None -> p_offset p = 0 -> 1 <= p_limit p ->
  forall fuel, (length (flatv s) < fuel)%nat ->
  exists pages, chain me bf s p fuel None = Some pages /\
    concat pages = vis s p /\ Forall (fun pg => lenZ pg <= p_limit p) pages.
Proof.
  intros Hme Hwfc Hold Hoff Hlim fuel Hfuel.
  destruct (chain_spec me bf s p Hme Hwfc Hoff Hlim fuel None I) as (pages & H1 & H2 & H3).
  - cbn [older_b]. rewrite filter_all by auto. exact Hfuel.
  - exists pages. split; auto. split; auto. rewrite H2. destruct p; cbn in *; subst; reflexivity.
Qed.

(** The visible log has no duplicates (stamps strictly decrease), so the
    pages do not overlap. *)
Lemma decr_NoDup l : forall hi, decr hi l -> NoDup l.
Proof.
  induction l as [|e l IH]; intros hi H; constructor.
  - destruct H as [_ H]. intro Hin. pose proof (decr_all_lt _ _ H _ Hin). lia.
  - destruct H as [_ H]. eauto.
Qed.

Theorem vis_NoDup me s p : wf me s -> NoDup (vis s p).
Proof. intro H. destruct (vis_decr me s p H) as [hi Hd]. eapply decr_NoDup; eauto. Qed.

(** ** Every reachable state qualifies *)
Fixpoint hist_bytes (ops : list op) : Z :=
  match ops with
  | [] => 0
  | OAdd e :: r | OAddAsync e :: r => e_len e + 1 + hist_bytes r
  | _ :: r => hist_bytes r
  end.

Lemma Forall_flat_step (P : entry -> Prop) s o :
  Forall P (flat s) -> (forall e, o = OAdd e \/ o = OAddAsync e -> P e) -> Forall P (flat (step s o)).
Proof.
  intros H He. destruct (flat_step s o) as (a & x & b & E1 & E2). rewrite E2.
  assert (H' : Forall P (flat s ++ extra s o)).
  { apply Forall_app; split; auto. destruct o; cbn [extra]; auto; destruct (enabled (cfg s)); auto. }
  rewrite E1 in H'. apply Forall_app in H' as [? H']. apply Forall_app in H' as [? ?]. apply Forall_app; auto.
Qed.

Lemma fsize_flat_step me s o :
  Forall (len_ok me) (flat s) -> (forall e, o = OAdd e \/ o = OAddAsync e -> len_ok me e) ->
  fsize (qf (flat (step s o))) <= fsize (qf (flat s)) + match o with OAdd e | OAddAsync e => e_len e + 1 | _ => 0 end.
Proof.
  intros H He. destruct (flat_step s o) as (a & x & b & E1 & E2). rewrite E2.
  assert (H' : Forall (len_ok me) (flat s ++ extra s o)).
  { apply Forall_app; split; auto. destruct o; cbn [extra]; auto; destruct (enabled (cfg s)); auto. }
  assert (Hx : fsize (qf (flat s ++ extra s o)) <= fsize (qf (flat s)) + match o with OAdd e | OAddAsync e => e_len e + 1 | _ => 0 end).
  { rewrite qf_app, fsize_app. destruct o as [e|e| | | | |]; cbn [extra qf map fsize]; try lia.
    - specialize (He e (or_introl eq_refl)). unfold len_ok in He. destruct (enabled (cfg s)); cbn [qf map fsize]; lia.
    - specialize (He e (or_intror eq_refl)). unfold len_ok in He. destruct (enabled (cfg s)); cbn [qf map fsize]; lia. }
  rewrite E1 in H', Hx. rewrite !qf_app, !fsize_app in *.
  apply Forall_app in H' as [_ H']. apply Forall_app in H' as [Hxx _].
  pose proof (fsize_qf_nonneg _ _ Hxx). lia.
Qed.

Lemma files_nonempty_step s o :
  Forall (fun f : list entry => f <> []) (files_of s) -> Forall (fun f : list entry => f <> []) (files_of (step s o)).
Proof.
  assert (Hfl : forall s, Forall (fun f : list entry => f <> []) (files_of s) ->
                          Forall (fun f : list entry => f <> []) (files_of (flush s))).
  { intros s0 H. unfold flush. destruct (buf s0) as [|b0 b] eqn:E; auto.
    unfold files_of in *. cbn [rot cur]. apply Forall_app in H as [Hr Hc]. apply Forall_app; split; auto.
    constructor; auto. destruct (cur s0); [destruct l|]; discriminate. }
  intro H.
  assert (Has : forall e, Forall (fun f : list entry => f <> []) (files_of (add_async s e))).
  { intros e. unfold add_async. destruct (negb (enabled (cfg s))); [exact H|]. exact H. }
  destruct o as [e|e| | | |en ign cl|c]; cbn [step]; auto.
  - unfold add. destruct (negb (pending s) && pending (add_async s e)); auto.
  - unfold rotate. destruct (cur s) as [c|] eqn:E; auto.
    unfold files_of in *. cbn [rot cur]. rewrite E in H. apply Forall_app in H as [_ Hc].
    rewrite app_nil_r. exact Hc.
  - constructor.
  - unfold restart. destruct (file_enabled (cfg s)).
    + specialize (Hfl _ H). unfold files_of in *. exact Hfl.
    + exact H.
Qed.

Lemma wfc_run_gen me : forall ops s hi,
  inv me s hi -> 0 <= hi -> Forall (fun e => 0 < e_time e) (flat s) ->
  Forall (fun f : list entry => f <> []) (files_of s) ->
  hist_ok me hi ops -> fsize (qf (flat s)) + hist_bytes ops < 2 ^ 63 ->
  wfc me (fold_left step ops s).
Proof.
  induction ops as [|o ops IH]; intros s hi Hinv Hhi Hpos Hne Hok Hsz; cbn [fold_left].
  - cbn [hist_bytes] in Hsz. destruct Hinv as [Hwf _]. repeat split; auto; try apply Hwf. lia.
  - pose proof Hinv as [[_ Hlen] _].
    assert (Hstep : exists hi', inv me (step s o) hi' /\ 0 <= hi' /\ hist_ok me hi' ops /\
              (forall e, o = OAdd e \/ o = OAddAsync e -> 0 < e_time e /\ len_ok me e)).
    { destruct o as [e|e| | | | |]; cbn [hist_ok] in Hok;
        try (exists hi; split; [eapply (inv_step me s _ hi hi); eauto|]; split; auto; split; auto;
             intros ? [?|?]; discriminate);
        destruct Hok as (H1 & H2 & H3); exists (e_time e).
      - split; [eapply (inv_step me s (OAdd e) hi (e_time e)); eauto|]. split; [lia|]. split; auto.
        intros e' [E|E]; [|discriminate]. injection E as <-. split; auto. lia.
      - split; [eapply (inv_step me s (OAddAsync e) hi (e_time e)); eauto|]. split; [lia|]. split; auto.
        intros e' [E|E]; [discriminate|]. injection E as <-. split; auto. lia. }
    destruct Hstep as (hi' & Hinv' & Hhi' & Hok' & He).
    apply (IH (step s o) hi'); auto.
    + apply Forall_flat_step; auto. intros e E. apply He; auto.
    + apply files_nonempty_step; auto.
    + pose proof (fsize_flat_step me s o Hlen ltac:(intros e E; apply He; auto)).
      destruct o; cbn [hist_bytes] in Hsz; lia.
Qed.

Theorem wfc_run me c ops lo :
  0 <= lo -> hist_ok me lo ops -> hist_bytes ops < 2 ^ 63 -> wfc me (run c ops).
Proof.
  intros Hlo Hok Hsz. unfold run. apply (wfc_run_gen me ops (init c) lo); auto.
  - split; [split|]; cbn; [exists 0; exact I|constructor|constructor].
  - constructor.
  - constructor.
Qed.

(** Premises satisfiable, and the chain crosses memory / current file /
    rotated file with page size 2 and a scan window of 1 line. *)
Example cursor_example :
  let c := Build_config true true 2 [] [] in
  let e i t := Build_entry i t 100 [97%N] [49%N] [] 0 false in
  let ops := [OAdd (e 1%N 10); OAdd (e 2%N 20); ORotate; OAdd (e 3%N 30); OAdd (e 4%N 40); OAdd (e 5%N 50)] in
  hist_ok max_entry_size 0 ops /\ hist_bytes ops < 2 ^ 63 /\
  option_map (map (map e_id)) (chain max_entry_size buffer_size (run c ops) (Build_params None 2 0 1 []) 6 None) =
    Some [[5; 4]; [3]; [2]; [1]; []]%N.
Proof. vm_compute. repeat split; intros; discriminate. Qed.

(** *** The statement over histories *)
Theorem cursor_paging_run me bf c ops lo p :
  0 < me <= bf -> 0 <= lo -> hist_ok me lo ops -> hist_bytes ops < 2 ^ 63 ->
  p_older p = None -> p_offset p = 0 -> 1 <= p_limit p ->
  forall fuel, (length (flatv (run c ops)) < fuel)%nat ->
  exists pages, chain me bf (run c ops) p fuel None = Some pages /\
    concat pages = vis (run c ops) p /\ NoDup (vis (run c ops) p) /\
    Forall (fun pg => lenZ pg <= p_limit p) pages.
Proof.
  intros Hme Hlo Hok Hsz Hold Hoff Hlim fuel Hfuel.
  pose proof (wfc_run me c ops lo Hlo Hok Hsz) as Hwfc.
  destruct (cursor_paging me bf _ p Hme Hwfc Hold Hoff Hlim fuel Hfuel) as (pages & H1 & H2 & H3).
  exists pages. repeat split; auto. eapply vis_NoDup. apply Hwfc.
Qed.

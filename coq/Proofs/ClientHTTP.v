(** The clients HTTP API as an entry point of registry histories (C04,
    round 5): what POST /control/clients/add, /update, /delete do to the
    registry of Model/ClientIndex.v, which settings a request then gets
    (own safe search included: WHICH engine answers), what GET /control/clients
    returns, and what a save / restart makes of it. *)
From Coq Require Import ZArith List Lia Sorting.Sorted.
From AGH Require Import Base.Run Model.ClientIndex Model.ClientConfig Model.ClientHTTP.
From AGH Require Import Proofs.ClientIndex Proofs.ClientSettings Proofs.ClientConfig Proofs.ClientConfigLoad.
Import ListNotations.
Local Open Scope N_scope.

(** * A request body is a configuration object

    jsonToClient builds the record toPersistent builds for the file object
    with the same fields (the current [safe_search] object, else the deprecated
    flag; a schedule always present; NullBools resolved against prev = nil),
    and its engine under the guard toPersistent uses. *)
Definition obj_of_json (g : uid) (cj : cjson) : cobj :=
  {| o_name := j_name cj;
     o_ids := j_ids cj;
     o_tags := j_tags cj;
     o_upstreams := j_upstreams cj;
     o_uid := g;
     o_ss := body_ss cj;
     o_blocked := Some {| fb_ids := j_blocked cj;
                          fb_sched := Some (match j_sched cj with Some p => p | None => (empty_weekly, 0) end) |};
     o_cache_size := match j_cache_enabled cj with Some _ => j_cache_size cj | None => 0 end;
     o_cache_enabled := nb (j_cache_enabled cj);
     o_use_global_settings := j_use_global_settings cj;
     o_filtering := j_filtering cj;
     o_parental := j_parental cj;
     o_safebrowsing := j_safebrowsing cj;
     o_use_global_blocked := j_use_global_blocked cj;
     o_ignore_qlog := nb (j_ignore_qlog cj);
     o_ignore_stats := nb (j_ignore_stats cj) |}.

Definition with_engine (x : extra) : hextra := {| hx_extra := x; hx_engine := engine_of (x_ss x) |}.

Lemma stored_blocked_json cj :
  stored_blocked (o_blocked (obj_of_json 0 cj)) = copy_blocked (j_sched cj) (j_blocked cj).
Proof. cbn. unfold blocked_of, copy_blocked. cbn. destruct (j_sched cj) as [[w z]|]; reflexivity. Qed.

Lemma json_as_object known g cj c x :
  json_to_client known g cj = JOk c x ->
  to_persistent known g (obj_of_json g cj) = COk c (hx_extra x) /\ x = with_engine (hx_extra x).
Proof.
  unfold json_to_client, to_persistent.
  change (o_ids (obj_of_json g cj)) with (j_ids cj).
  change (o_blocked (obj_of_json g cj)) with (o_blocked (obj_of_json 0 cj)).
  rewrite stored_blocked_json.
  destruct (forallb _ (b_ids (copy_blocked (j_sched cj) (j_blocked cj)))); cbn [negb]; [|discriminate].
  destruct (existsb is_bad (j_ids cj)); [discriminate|].
  intros H. inversion H; subst c x; clear H. cbn.
  assert (E : (if g =? 0 then g else g) = g) by (destruct (g =? 0); reflexivity).
  rewrite E. split; reflexivity.
Qed.

Lemma object_as_json known g cj c x :
  to_persistent known g (obj_of_json g cj) = COk c x ->
  json_to_client known g cj = JOk c (with_engine x).
Proof.
  unfold json_to_client, to_persistent.
  change (o_ids (obj_of_json g cj)) with (j_ids cj).
  change (o_blocked (obj_of_json g cj)) with (o_blocked (obj_of_json 0 cj)).
  rewrite stored_blocked_json.
  destruct (existsb is_bad (j_ids cj)); [discriminate|].
  destruct (forallb _ (b_ids (copy_blocked (j_sched cj) (j_blocked cj)))); cbn [negb]; [|discriminate].
  intros H. inversion H; subst c x; clear H. cbn.
  assert (E : (if g =? 0 then g else g) = g) by (destruct (g =? 0); reflexivity).
  rewrite E. reflexivity.
Qed.

(** jsonToClient fails exactly on an unknown service or a bad identifier. *)
Lemma json_to_client_total known g cj :
  (exists c x, json_to_client known g cj = JOk c x) <->
  (forallb (fun i => existsb (eqb_bytes i) known) (j_blocked cj) = true /\ existsb is_bad (j_ids cj) = false).
Proof.
  unfold json_to_client.
  assert (E : b_ids (copy_blocked (j_sched cj) (j_blocked cj)) = j_blocked cj)
    by (unfold copy_blocked; destruct (j_sched cj) as [[w z]|]; reflexivity).
  rewrite E. split.
  - intros (c & x & H). destruct (forallb _ (j_blocked cj)); cbn [negb] in H; [|discriminate].
    destruct (existsb is_bad (j_ids cj)); [discriminate|]. auto.
  - intros (H1 & H2). rewrite H1, H2. cbn [negb]. eauto.
Qed.

(** * Every field of the converted record, in terms of the body alone.

    The safe-search configuration AND the engine come from the CURRENT
    [safe_search] object whenever the body has one; the deprecated flag is
    read only without it. *)
Definition as_body (g : uid) (cj : cjson) (c : client) (x : hextra) : Prop :=
  c_uid c = g /\
  c_name c = j_name cj /\
  c_own_settings c = negb (j_use_global_settings cj) /\
  c_filtering c = j_filtering cj /\
  c_parental c = j_parental cj /\
  c_safebrowsing c = j_safebrowsing cj /\
  c_safesearch c = ss_enabled (body_ss cj) /\
  x_ss (hx_extra x) = body_ss cj /\
  hx_engine x = engine_of (body_ss cj) /\
  c_own_blocked c = negb (j_use_global_blocked cj) /\
  c_blocked c = Some (copy_blocked (j_sched cj) (j_blocked cj)) /\
  c_ignore_qlog c = nb (j_ignore_qlog cj) /\
  c_ignore_stats c = nb (j_ignore_stats cj) /\
  x_cache_enabled (hx_extra x) = nb (j_cache_enabled cj) /\
  x_cache_size (hx_extra x) = match j_cache_enabled cj with Some _ => j_cache_size cj | None => 0 end /\
  x_nil_sched (hx_extra x) = false /\
  c_tags c = j_tags cj /\
  c_upstreams c = j_upstreams cj /\
  c_ips c = sort_by addr_z_compare (ips_of (j_ids cj)) /\
  c_subnets c = sort_by subnet_compare (nets_of (j_ids cj)) /\
  c_macs c = sort_by cmp_bytes (macs_of (j_ids cj)) /\
  c_cids c = sort_by cmp_bytes (cids_of (j_ids cj)).

Lemma json_fields known g cj c x : json_to_client known g cj = JOk c x -> as_body g cj c x.
Proof.
  unfold json_to_client.
  destruct (forallb _ _); cbn [negb]; [|discriminate].
  destruct (existsb is_bad (j_ids cj)); [discriminate|].
  intros H. inversion H; subst c x; clear H. unfold as_body, body_ss, engine_of. cbn.
  repeat split; reflexivity.
Qed.

Lemma current_object_wins cj s : j_ss cj = Some s -> body_ss cj = s.
Proof. unfold body_ss. intros ->. reflexivity. Qed.

Lemma deprecated_flag_alone cj : j_ss cj = None -> body_ss cj = if j_ss_dep cj then all_on_ss else zero_ss.
Proof. unfold body_ss. intros ->. reflexivity. Qed.

(** * Registries behind the handlers *)
Definition eng_ok (x : hextra) : Prop := hx_engine x = engine_of (x_ss (hx_extra x)).
Definition EngInv (r : hreg) : Prop := Forall (fun p => eng_ok (snd p)) (snd r).

Record HGood (cfg : config) (known : list bytes) (r : hreg) : Prop := {
  hg_good : Good cfg known (reg_of r);
  hg_eng : EngInv r
}.

Lemma extra_of_reg_of r u : extra_of (reg_of r) u = hx_extra (hextra_of r u).
Proof.
  unfold extra_of, ext_get, hextra_of, reg_of. cbn [snd].
  induction (snd r) as [|[k v] m IH]; cbn; [reflexivity|].
  destruct (u =? k); [reflexivity|exact IH].
Qed.

Lemma eng_ok_of r u : EngInv r -> eng_ok (hextra_of r u).
Proof.
  unfold EngInv, hextra_of. induction (snd r) as [|[k v] m IH]; cbn; intros H.
  - reflexivity.
  - inversion H; subst. destruct (u =? k); auto.
Qed.

Lemma hextra_cons_eq (r : hreg) ix' u x : hextra_of (ix', (u, x) :: snd r) u = x.
Proof. unfold hextra_of. cbn. rewrite N.eqb_refl. reflexivity. Qed.
Lemma hextra_cons_ne (r : hreg) ix' u u' x : u' <> u -> hextra_of (ix', (u, x) :: snd r) u' = hextra_of r u'.
Proof.
  intros H. unfold hextra_of. cbn. destruct (u' =? u) eqn:E; [apply N.eqb_eq in E; contradiction|reflexivity].
Qed.

Lemma HGood_empty cfg known : HGood cfg known empty_hreg.
Proof. constructor; [apply Good_empty|constructor]. Qed.

(** A registry loaded by Init is one. *)
Lemma reg_of_to_hreg r : reg_of (to_hreg r) = r.
Proof.
  destruct r as [ix ext]. unfold reg_of, to_hreg. cbn [fst snd]. f_equal.
  rewrite map_map. cbn. induction ext as [|[k v] m IH]; cbn; [reflexivity|]. rewrite IH. reflexivity.
Qed.

Lemma HGood_loaded cfg known r : Good cfg known r -> HGood cfg known (to_hreg r).
Proof.
  intros H. constructor; [rewrite reg_of_to_hreg; exact H|].
  unfold EngInv, to_hreg. cbn [snd]. apply Forall_forall. intros p Hin.
  apply in_map_iff in Hin. destruct Hin as (q & <- & _). reflexivity.
Qed.

(** ** What accepted operations are *)
Lemma update_ok cfg n c ix ix' :
  update cfg n c ix = (ix', EOk) ->
  exists u stored,
    validate cfg c = EOk /\ bget n (name_to ix) = Some u /\ deref ix u = Some stored /\
    clashes (set_uid (c_uid stored) (normalize c)) ix = EOk /\
    ix' = index_add (set_uid (c_uid stored) (normalize c)) (index_remove stored ix).
Proof.
  unfold update. destruct (validate cfg c) eqn:V; try (intros H; inversion H; fail). cbv zeta.
  destruct (bget n (name_to ix)) as [u|]; [|intros H; inversion H].
  destruct (deref ix u) as [stored|] eqn:D; [|intros H; inversion H].
  destruct (clashes _ ix) eqn:C; intros H; inversion H; subst. exists u, stored. auto.
Qed.

Lemma remove_ok n ix ix' :
  remove_by_name n ix = (ix', EOk) ->
  exists u stored, bget n (name_to ix) = Some u /\ deref ix u = Some stored /\ ix' = index_remove stored ix.
Proof.
  unfold remove_by_name. destruct (bget n (name_to ix)) as [u|]; [|intros H; inversion H].
  destruct (deref ix u) as [stored|] eqn:D; intros H; inversion H; subst. eauto.
Qed.

Lemma validate_set_uid cfg c u : validate cfg c = EOk -> u <> 0 -> validate cfg (set_uid u c) = EOk.
Proof.
  unfold validate. cbn [set_uid c_name c_uid c_upstreams c_tags]. change (ids_len (set_uid u c)) with (ids_len c).
  destruct (Nat.eqb (length (c_name c)) 0); [discriminate|].
  destruct (Nat.eqb (ids_len c) 0); [discriminate|].
  destruct (c_uid c =? 0); [discriminate|].
  intros H Hu. apply N.eqb_neq in Hu. rewrite Hu. exact H.
Qed.

Lemma normalize_set_uid u c : normalize c = c -> normalize (set_uid u c) = set_uid u c.
Proof. intros H. rewrite <- H at 2. reflexivity. Qed.

Definition set_ouid (u : uid) (o : cobj) : cobj :=
  {| o_name := o_name o; o_ids := o_ids o; o_tags := o_tags o; o_upstreams := o_upstreams o; o_uid := u;
     o_ss := o_ss o; o_blocked := o_blocked o; o_cache_size := o_cache_size o;
     o_cache_enabled := o_cache_enabled o; o_use_global_settings := o_use_global_settings o;
     o_filtering := o_filtering o; o_parental := o_parental o; o_safebrowsing := o_safebrowsing o;
     o_use_global_blocked := o_use_global_blocked o; o_ignore_qlog := o_ignore_qlog o;
     o_ignore_stats := o_ignore_stats o |}.

Lemma came_set_uid known c x u : came known c x -> u <> 0 -> came known (set_uid u c) x.
Proof.
  intros (g & o & H) Hu. exists g, (set_ouid u o).
  unfold to_persistent in *. cbn [set_ouid o_ids o_blocked o_uid o_name o_use_global_settings o_filtering o_ss
    o_safebrowsing o_parental o_use_global_blocked o_ignore_qlog o_ignore_stats o_tags o_upstreams
    o_cache_enabled o_cache_size].
  destruct (existsb is_bad (o_ids o)); [discriminate|].
  destruct (forallb (fun i => existsb (eqb_bytes i) known) _); cbn [negb] in *; [|discriminate].
  inversion H; subst c x. apply N.eqb_neq in Hu. rewrite Hu. reflexivity.
Qed.

Lemma nodup_al_del {V} k (m : list (uid * V)) : NoDup (map fst m) -> NoDup (map fst (al_del N.eqb k m)).
Proof.
  unfold al_del. induction m as [|[k' v] m IH]; cbn; intros H; [constructor|].
  inversion H as [|? ? Hk Hm]; subst.
  destruct (negb (k =? k')); cbn; [|apply IH; assumption].
  constructor; [|apply IH; assumption].
  intros Hin. apply Hk. apply in_map_iff in Hin. destruct Hin as (p & E & Hp).
  apply filter_In in Hp. apply in_map_iff. exists p. tauto.
Qed.

Lemma nodup_al_set {V} k (v : V) (m : list (uid * V)) : NoDup (map fst m) -> NoDup (map fst (al_set N.eqb k v m)).
Proof.
  intros H. unfold al_set. cbn [map fst]. constructor; [|apply nodup_al_del; exact H].
  intros Hin. apply in_map_iff in Hin. destruct Hin as ([k' v'] & E & Hin). cbn in E. subst k'.
  unfold al_del in Hin. apply filter_In in Hin. destruct Hin as (_ & Hf). cbn in Hf.
  rewrite N.eqb_refl in Hf. discriminate.
Qed.

Lemma update_good cfg known r n c x ix' u :
  Good cfg known r -> came known c x -> update cfg n c (fst r) = (ix', EOk) ->
  bget n (name_to (fst r)) = Some u ->
  Good cfg known (ix', (u, x) :: snd r).
Proof.
  intros HG Hc Hu Hb. pose proof HG as [HI Hn Hs].
  pose proof (Inv_step cfg (fst r) (OUpdate n c) HI) as HI'. cbn [step] in HI'. rewrite Hu in HI'. cbn [fst] in HI'.
  apply update_ok in Hu. destruct Hu as (u0 & stored & V & B & D & C & ->).
  rewrite Hb in B. inversion B; subst u0. clear B.
  assert (Eu : c_uid stored = u) by (exact (inv_uid _ HI _ _ D)).
  destruct (Hs _ _ D) as (Vs & _ & _). pose proof (validate_uid _ _ Vs) as Hnz. rewrite Eu in Hnz.
  rewrite Eu in *.
  constructor; cbn [fst].
  - exact HI'.
  - cbn [index_add index_remove by_uid set_uid c_uid]. apply nodup_al_set, nodup_al_del. exact Hn.
  - intros u' c0 Hd. destruct (N.eq_dec u' u) as [->|Hne].
    + pose proof (deref_add_eq (set_uid u (normalize c)) (index_remove stored (fst r))) as De.
      cbn [set_uid c_uid] in De. rewrite De in Hd. inversion Hd; subst c0. clear Hd De.
      rewrite extra_of_cons_eq. destruct (validate_normalize cfg c V) as (V' & N').
      split; [apply validate_set_uid; assumption|]. split; [apply normalize_set_uid; exact N'|].
      apply came_set_uid; [apply came_normalize; exact Hc|exact Hnz].
    + rewrite deref_add_ne in Hd by (cbn [set_uid c_uid]; assumption).
      rewrite deref_remove_ne in Hd by congruence.
      rewrite extra_of_cons_ne by assumption. apply Hs. exact Hd.
Qed.

Lemma remove_good cfg known r n ix' :
  Good cfg known r -> remove_by_name n (fst r) = (ix', EOk) -> Good cfg known (ix', snd r).
Proof.
  intros HG Hr. pose proof HG as [HI Hn Hs].
  pose proof (Inv_step cfg (fst r) (ORemove n) HI) as HI'. cbn [step] in HI'. rewrite Hr in HI'. cbn [fst] in HI'.
  apply remove_ok in Hr. destruct Hr as (u & stored & B & D & ->).
  assert (Eu : c_uid stored = u) by (exact (inv_uid _ HI _ _ D)).
  constructor; cbn [fst].
  - exact HI'.
  - cbn [index_remove by_uid]. apply nodup_al_del. exact Hn.
  - intros u' c0 Hd. destruct (N.eq_dec u' u) as [->|Hne].
    + rewrite <- Eu in Hd. rewrite deref_remove_eq in Hd. discriminate.
    + rewrite deref_remove_ne in Hd by congruence.
      change (extra_of (index_remove stored (fst r), snd r) u') with (extra_of r u'). apply Hs. exact Hd.
Qed.

(** ** Every request keeps the registry good *)
Lemma reg_of_cons (r : hreg) ix' u x :
  reg_of (ix', (u, x) :: snd r) = (ix', (u, hx_extra x) :: snd (reg_of r)).
Proof. reflexivity. Qed.

Lemma HGood_step cfg known r o : HGood cfg known r -> HGood cfg known (fst (http_step cfg known r o)).
Proof.
  intros HG. pose proof HG as [G E].
  destruct o as [[cj|] g|[[n cj]|] g|[n|]]; cbn [http_step fst]; try exact HG.
  - destruct (json_to_client known g cj) as [e|c x] eqn:J; [exact HG|].
    destruct (add cfg c (fst r)) as [ix' e] eqn:A. destruct e; try exact HG. cbn [fst].
    destruct (json_as_object _ _ _ _ _ J) as (T & Ex).
    constructor.
    + rewrite reg_of_cons. eapply (add_good cfg known (reg_of r)); [exact G|eexists; eexists; exact T|exact A].
    + constructor; [|exact E]. cbn [snd]. rewrite Ex. reflexivity.
  - destruct (is_empty n); [exact HG|].
    destruct (json_to_client known g cj) as [e|c x] eqn:J; [exact HG|].
    destruct (update cfg n c (fst r)) as [ix' e] eqn:U. destruct e; try exact HG.
    destruct (bget n (name_to (fst r))) as [u|] eqn:B; [|exact HG]. cbn [fst].
    destruct (json_as_object _ _ _ _ _ J) as (T & Ex).
    constructor.
    + rewrite reg_of_cons. eapply (update_good cfg known (reg_of r)); [exact G|eexists; eexists; exact T|exact U|exact B].
    + constructor; [|exact E]. cbn [snd]. rewrite Ex. reflexivity.
  - destruct (is_empty n); [exact HG|].
    destruct (remove_by_name n (fst r)) as [ix' e] eqn:R. destruct e; try exact HG. cbn [fst].
    constructor; [|exact E].
    change (reg_of (ix', snd r)) with (ix', snd (reg_of r)).
    eapply (remove_good cfg known (reg_of r)); [exact G|exact R].
Qed.

Lemma HGood_run cfg known ops : forall r, HGood cfg known r -> HGood cfg known (hrun cfg known ops r).
Proof.
  unfold hrun. induction ops as [|o ops IH]; cbn; intros r H; [exact H|].
  apply IH. apply HGood_step. exact H.
Qed.

Theorem http_good_any_history cfg known ops : HGood cfg known (hrun cfg known ops empty_hreg).
Proof. apply HGood_run, HGood_empty. Qed.

(** A stored client has a blocked-services section with a schedule pointer or
    not as [x_nil_sched] says, never a nil section: clientToJSON's
    dereference is safe. *)
Lemma hgood_stored cfg known r u c :
  HGood cfg known r -> deref (fst r) u = Some c ->
  c_uid c = u /\ u <> 0 /\ (exists b, c_blocked c = Some b) /\
  c_safesearch c = ss_enabled (x_ss (hx_extra (hextra_of r u))) /\
  came known c (hx_extra (hextra_of r u)).
Proof.
  intros [G _] D. pose proof G as [HI _ Hs].
  change (fst r) with (fst (reg_of r)) in D.
  destruct (Hs _ _ D) as (V & _ & Cm). rewrite extra_of_reg_of in Cm.
  assert (Eu : c_uid c = u) by (exact (inv_uid _ HI _ _ D)).
  split; [exact Eu|]. split; [rewrite <- Eu; eapply validate_uid; exact V|].
  destruct Cm as (g & o & T). pose proof (flags_as_written _ _ _ _ _ T) as W.
  destruct W as (_ & _ & _ & _ & _ & _ & Wss & Wx & _ & Wb & _).
  split; [eauto|]. split; [rewrite Wx; exact Wss|]. exists g, o. exact T.
Qed.

(** * Which engine answers *)

(** A request attributed to a client that opted out of the global settings:
    for every service the verdict follows the CLIENT's stored switches,
    whatever the global engine holds. *)
Lemma verdict_own cfg known r dhcp id a g global u c :
  HGood cfg known r ->
  acf_find (fst r) dhcp id a = Some u -> deref (fst r) u = Some c -> c_own_settings c = true ->
  exists es, h_acf r dhcp id a g = Some es /\
    es_settings es = apply_client c g /\
    forall v, check_safe_search global true es v = engine_rewrites (x_ss (hx_extra (hextra_of r u))) v.
Proof.
  intros HG F D Own. unfold h_acf. rewrite F, D, Own.
  eexists. split; [reflexivity|]. split; [reflexivity|].
  intros v. unfold check_safe_search. cbn [es_settings es_client_ss].
  destruct (hgood_stored _ _ _ _ _ HG D) as (_ & _ & _ & Ess & _).
  pose proof (eng_ok_of r u (hg_eng _ _ _ HG)) as Ee. unfold eng_ok in Ee. rewrite Ee.
  unfold apply_client. rewrite Own. cbn [s_safesearch]. rewrite Ess.
  unfold engine_of, engine_rewrites.
  destruct (ss_enabled (x_ss (hx_extra (hextra_of r u)))) eqn:En; cbn; rewrite ?En; reflexivity.
Qed.

(** ... and one that did not, or nobody's request: the global engine under the
    global switch. *)
Lemma verdict_global_client r dhcp id a g global u c :
  acf_find (fst r) dhcp id a = Some u -> deref (fst r) u = Some c -> c_own_settings c = false ->
  exists es, h_acf r dhcp id a g = Some es /\
    forall v, check_safe_search global true es v = s_safesearch g && engine_rewrites global v.
Proof.
  intros F D Own. unfold h_acf. rewrite F, D, Own. eexists. split; [reflexivity|].
  intros v. unfold check_safe_search, apply_client. rewrite Own. reflexivity.
Qed.

Lemma verdict_nobody r dhcp id a g global :
  acf_find (fst r) dhcp id a = None ->
  exists es, h_acf r dhcp id a g = Some es /\ es_settings es = g /\
    forall v, check_safe_search global true es v = s_safesearch g && engine_rewrites global v.
Proof.
  intros F. unfold h_acf. rewrite F. eexists. split; [reflexivity|]. split; [reflexivity|]. reflexivity.
Qed.

(** Under the invariant every attributed request has its record. *)
Lemma acf_found_stored (r : hreg) dhcp id a u :
  Inv (fst r) -> acf_find (fst r) dhcp id a = Some u -> exists c, deref (fst r) u = Some c.
Proof.
  intros HI F. pose proof (settings_applied (fst r) dhcp id a
    {| s_client_name := []; s_filtering := false; s_safesearch := false; s_safebrowsing := false;
       s_parental := false; s_blocked := None; s_tags := []; s_services := [] |} HI) as H.
  rewrite F in H. destruct H as (c & D & _). eauto.
Qed.

(** * The record an accepted request leaves is the body's *)

(** The stored record is the conversion of the body, tags sorted, under the
    uid the storage keeps. *)
Definition from_body (known : list bytes) (cj : cjson) (c : client) (x : hextra) : Prop :=
  exists g c0, json_to_client known g cj = JOk c0 x /\ c = set_uid (c_uid c) (normalize c0).

Definition target (r : hreg) (o : hop) : option uid :=
  match o with
  | HAdd _ g => Some g
  | HUpdate (Some (n, _)) _ => bget n (name_to (fst r))
  | HDelete (Some n) => bget n (name_to (fst r))
  | _ => None
  end.

Lemma http_fail_noop cfg known r o r' e : http_step cfg known r o = (r', e) -> e <> HOk -> r' = r.
Proof.
  intros H Hne. destruct o as [[cj|] g|[[n cj]|] g|[n|]]; cbn [http_step] in H; try (inversion H; reflexivity).
  - destruct (json_to_client known g cj) as [e0|c x]; [inversion H; reflexivity|].
    destruct (add cfg c (fst r)) as [ix' e0]. destruct e0; inversion H; subst; try reflexivity. contradiction.
  - destruct (is_empty n); [inversion H; reflexivity|].
    destruct (json_to_client known g cj) as [e0|c x]; [inversion H; reflexivity|].
    destruct (update cfg n c (fst r)) as [ix' e0]. destruct e0; try (inversion H; reflexivity).
    destruct (bget n (name_to (fst r))); inversion H; subst; try reflexivity. contradiction.
  - destruct (is_empty n); [inversion H; reflexivity|].
    destruct (remove_by_name n (fst r)) as [ix' e0]. destruct e0; inversion H; subst; try reflexivity. contradiction.
Qed.

Lemma http_add_from_body cfg known r cj g r' :
  http_step cfg known r (HAdd (Some cj) g) = (r', HOk) ->
  exists c, deref (fst r') g = Some c /\ from_body known cj c (hextra_of r' g).
Proof.
  cbn [http_step]. destruct (json_to_client known g cj) as [e|c x] eqn:J; [intros H; inversion H|].
  destruct (add cfg c (fst r)) as [ix' e] eqn:A. destruct e; intros H; inversion H; subst r'; clear H.
  apply add_ok in A. destruct A as (_ & _ & _ & ->).
  destruct (json_fields _ _ _ _ _ J) as (Eu & _). cbn [fst].
  exists (normalize c). split.
  - rewrite <- Eu. apply (deref_add_eq (normalize c)).
  - rewrite Eu. rewrite hextra_cons_eq. exists g, c. split; [exact J|].
    change (c_uid (normalize c)) with (c_uid c). destruct c; reflexivity.
Qed.

Lemma http_update_from_body cfg known r n cj g r' :
  Inv (fst r) ->
  http_step cfg known r (HUpdate (Some (n, cj)) g) = (r', HOk) ->
  exists u c, bget n (name_to (fst r)) = Some u /\ deref (fst r') u = Some c /\
              from_body known cj c (hextra_of r' u).
Proof.
  intros HI. cbn [http_step]. destruct (is_empty n); [intros H; inversion H|].
  destruct (json_to_client known g cj) as [e|c x] eqn:J; [intros H; inversion H|].
  destruct (update cfg n c (fst r)) as [ix' e] eqn:U. destruct e; try (intros H; inversion H; fail).
  destruct (bget n (name_to (fst r))) as [u|] eqn:B; intros H; inversion H; subst r'; clear H.
  apply update_ok in U. destruct U as (u0 & stored & _ & B' & D & _ & ->).
  rewrite B in B'. inversion B'; subst u0. clear B'.
  assert (Eu : c_uid stored = u) by (exact (inv_uid _ HI _ _ D)). rewrite Eu.
  exists u, (set_uid u (normalize c)). split; [reflexivity|]. cbn [fst]. split.
  - apply (deref_add_eq (set_uid u (normalize c))).
  - rewrite hextra_cons_eq. exists g, c. split; [exact J|]. reflexivity.
Qed.

(** A request leaves every client other than its target exactly as it was. *)
Lemma http_step_frame cfg known r o r' e u :
  Inv (fst r) -> http_step cfg known r o = (r', e) -> target r o <> Some u ->
  deref (fst r') u = deref (fst r) u /\ hextra_of r' u = hextra_of r u.
Proof.
  intros HI H Ht.
  destruct o as [[cj|] g|[[n cj]|] g|[n|]]; cbn [http_step target] in H, Ht; try (inversion H; auto; fail).
  - destruct (json_to_client known g cj) as [e0|c x] eqn:J; [inversion H; auto|].
    destruct (add cfg c (fst r)) as [ix' e0] eqn:A. destruct e0; inversion H; subst; auto.
    apply add_ok in A. destruct A as (_ & _ & _ & ->).
    destruct (json_fields _ _ _ _ _ J) as (Eu & _). cbn [fst].
    assert (Hne : u <> g) by congruence. split.
    + apply deref_add_ne. change (c_uid (normalize c)) with (c_uid c). congruence.
    + rewrite Eu. apply hextra_cons_ne. exact Hne.
  - destruct (is_empty n); [inversion H; auto|].
    destruct (json_to_client known g cj) as [e0|c x] eqn:J; [inversion H; auto|].
    destruct (update cfg n c (fst r)) as [ix' e0] eqn:U. destruct e0; try (inversion H; auto; fail).
    destruct (bget n (name_to (fst r))) as [u0|] eqn:B; inversion H; subst; auto.
    apply update_ok in U. destruct U as (u1 & stored & _ & B' & D & _ & ->).
    rewrite B in B'. inversion B'; subst u1. clear B'.
    assert (Eu : c_uid stored = u0) by (exact (inv_uid _ HI _ _ D)).
    assert (Hne : u <> u0) by congruence. cbn [fst]. split.
    + rewrite deref_add_ne by (cbn [set_uid c_uid]; congruence). apply deref_remove_ne. congruence.
    + apply hextra_cons_ne. exact Hne.
  - destruct (is_empty n); [inversion H; auto|].
    destruct (remove_by_name n (fst r)) as [ix' e0] eqn:R. destruct e0; inversion H; subst; auto.
    apply remove_ok in R. destruct R as (u0 & stored & B & D & ->).
    assert (Eu : c_uid stored = u0) by (exact (inv_uid _ HI _ _ D)).
    assert (Hne : u <> u0) by congruence. cbn [fst]. split; [|reflexivity].
    apply deref_remove_ne. congruence.
Qed.

Lemma http_delete_gone cfg known r n r' :
  Inv (fst r) -> http_step cfg known r (HDelete (Some n)) = (r', HOk) ->
  exists u, bget n (name_to (fst r)) = Some u /\ deref (fst r') u = None.
Proof.
  intros HI. cbn [http_step]. destruct (is_empty n); [intros H; inversion H|].
  destruct (remove_by_name n (fst r)) as [ix' e] eqn:R. destruct e; intros H; inversion H; subst r'; clear H.
  apply remove_ok in R. destruct R as (u & stored & B & D & ->).
  assert (Eu : c_uid stored = u) by (exact (inv_uid _ HI _ _ D)).
  exists u. split; [exact B|]. cbn [fst]. rewrite <- Eu. apply deref_remove_eq.
Qed.

(** ** Histories: the body that last set each client *)
Definition bodies := list (uid * cjson).

Definition track (r : hreg) (o : hop) (e : herr) (bs : bodies) : bodies :=
  match e, o with
  | HOk, HAdd (Some cj) g => (g, cj) :: bs
  | HOk, HUpdate (Some (n, cj)) _ =>
      match bget n (name_to (fst r)) with Some u => (u, cj) :: bs | None => bs end
  | _, _ => bs
  end.

Fixpoint hrun_track (cfg : config) (known : list bytes) (ops : list hop) (r : hreg) (bs : bodies)
    : hreg * bodies :=
  match ops with
  | [] => (r, bs)
  | o :: ops' =>
      let re := http_step cfg known r o in
      hrun_track cfg known ops' (fst re) (track r o (snd re) bs)
  end.

Lemma hrun_track_fst cfg known ops : forall r bs, fst (hrun_track cfg known ops r bs) = hrun cfg known ops r.
Proof. unfold hrun. induction ops as [|o ops IH]; cbn; intros r bs; [reflexivity|]. apply IH. Qed.

Definition body_of (bs : bodies) (u : uid) : option cjson := al_get N.eqb u bs.

Definition AsBody (known : list bytes) (r : hreg) (bs : bodies) : Prop :=
  forall u c, deref (fst r) u = Some c ->
    exists cj, body_of bs u = Some cj /\ from_body known cj c (hextra_of r u).

Lemma body_of_cons_eq u cj bs : body_of ((u, cj) :: bs) u = Some cj.
Proof. unfold body_of. cbn. rewrite N.eqb_refl. reflexivity. Qed.
Lemma body_of_cons_ne u u' cj bs : u' <> u -> body_of ((u, cj) :: bs) u' = body_of bs u'.
Proof. intros H. unfold body_of. cbn. destruct (u' =? u) eqn:E; [apply N.eqb_eq in E; contradiction|reflexivity]. Qed.

Lemma AsBody_step cfg known r o bs :
  Inv (fst r) -> AsBody known r bs ->
  AsBody known (fst (http_step cfg known r o)) (track r o (snd (http_step cfg known r o)) bs).
Proof.
  intros HI HA. destruct (http_step cfg known r o) as [r' e] eqn:S. cbn [fst snd].
  destruct (match e with HOk => true | _ => false end) eqn:Ok.
  2:{ assert (r' = r) by (eapply http_fail_noop; [exact S|intros ->; discriminate]). subst r'.
      assert (Et : track r o e bs = bs) by (destruct e; try reflexivity; discriminate). rewrite Et. exact HA. }
  destruct e; try discriminate. clear Ok.
  intros u c D.
  destruct o as [[cj|] g|[[n cj]|] g|[n|]]; try (cbn [http_step] in S; inversion S; fail).
  - cbn [track]. destruct (N.eq_dec u g) as [->|Hne].
    + destruct (http_add_from_body _ _ _ _ _ _ S) as (c' & D' & Fb). rewrite D in D'. inversion D'; subst c'.
      exists cj. split; [apply body_of_cons_eq|exact Fb].
    + destruct (http_step_frame _ _ _ _ _ _ u HI S) as (Ed & Ex); [cbn; congruence|].
      rewrite Ed in D. destruct (HA _ _ D) as (cj' & B & Fb).
      exists cj'. split; [rewrite body_of_cons_ne by exact Hne; exact B|rewrite Ex; exact Fb].
  - cbn [track]. destruct (http_update_from_body _ _ _ _ _ _ _ HI S) as (u0 & c' & B0 & D' & Fb). rewrite B0.
    destruct (N.eq_dec u u0) as [->|Hne].
    + rewrite D in D'. inversion D'; subst c'. exists cj. split; [apply body_of_cons_eq|exact Fb].
    + destruct (http_step_frame _ _ _ _ _ _ u HI S) as (Ed & Ex); [cbn; congruence|].
      rewrite Ed in D. destruct (HA _ _ D) as (cj' & B & Fb').
      exists cj'. split; [rewrite body_of_cons_ne by exact Hne; exact B|rewrite Ex; exact Fb'].
  - cbn [track]. destruct (http_delete_gone _ _ _ _ _ HI S) as (u0 & B0 & Dn).
    destruct (N.eq_dec u u0) as [->|Hne]; [congruence|].
    destruct (http_step_frame _ _ _ _ _ _ u HI S) as (Ed & Ex); [cbn; congruence|].
    rewrite Ed in D. destruct (HA _ _ D) as (cj' & B & Fb'). exists cj'. rewrite Ex. auto.
Qed.

Lemma history_invariants cfg known ops : forall r bs,
  HGood cfg known r -> AsBody known r bs ->
  HGood cfg known (fst (hrun_track cfg known ops r bs)) /\
  AsBody known (fst (hrun_track cfg known ops r bs)) (snd (hrun_track cfg known ops r bs)).
Proof.
  induction ops as [|o ops IH]; cbn [hrun_track]; intros r bs HG HA; [auto|].
  apply IH; [apply HGood_step; exact HG|].
  apply AsBody_step; [exact (g_inv _ _ _ (hg_good _ _ _ HG))|exact HA].
Qed.

Theorem http_history_as_body cfg known ops :
  let rb := hrun_track cfg known ops empty_hreg [] in
  HGood cfg known (fst rb) /\ AsBody known (fst rb) (snd rb).
Proof.
  apply history_invariants; [apply HGood_empty|]. intros u c D. cbn in D. discriminate.
Qed.

(** ** What the last body says is what the request gets *)
Lemma from_body_fields known cj c x :
  from_body known cj c x ->
  c_name c = j_name cj /\
  c_own_settings c = negb (j_use_global_settings cj) /\
  c_filtering c = j_filtering cj /\ c_parental c = j_parental cj /\
  c_safebrowsing c = j_safebrowsing cj /\
  c_safesearch c = ss_enabled (body_ss cj) /\
  x_ss (hx_extra x) = body_ss cj /\ hx_engine x = engine_of (body_ss cj) /\
  c_own_blocked c = negb (j_use_global_blocked cj) /\
  c_blocked c = Some (copy_blocked (j_sched cj) (j_blocked cj)) /\
  c_tags c = sort_names (j_tags cj).
Proof.
  intros (g & c0 & J & ->). apply json_fields in J.
  destruct J as (_ & Jn & Jo & Jf & Jp & Jsb & Jss & Jx & Je & Job & Jb & _ & _ & _ & _ & _ & Jt & _).
  cbn [set_uid normalize set_tags c_name c_own_settings c_filtering c_parental c_safebrowsing c_safesearch
       c_own_blocked c_blocked c_tags c_uid].
  rewrite Jt. repeat split; assumption.
Qed.

(** The effective settings of a request, after ANY history of add / update /
    delete requests, are those stated by the body that last set the client the
    request is attributed to: the flags when that body says
    [use_global_settings: false] (else the global ones), the own blocked
    services when it says [use_global_blocked_services: false], and for every
    service the safe-search verdict of an engine holding exactly the body's
    effective [safe_search] selection. *)
Theorem http_effective_as_body cfg known ops dhcp id a g global u :
  let rb := hrun_track cfg known ops empty_hreg [] in
  acf_find (fst (fst rb)) dhcp id a = Some u ->
  exists cj es,
    body_of (snd rb) u = Some cj /\ h_acf (fst rb) dhcp id a g = Some es /\
    s_client_name (es_settings es) = j_name cj /\
    s_tags (es_settings es) = sort_names (j_tags cj) /\
    (j_use_global_settings cj = false ->
       s_filtering (es_settings es) = j_filtering cj /\
       s_parental (es_settings es) = j_parental cj /\
       s_safebrowsing (es_settings es) = j_safebrowsing cj /\
       s_safesearch (es_settings es) = ss_enabled (body_ss cj) /\
       forall v, check_safe_search global true es v = engine_rewrites (body_ss cj) v) /\
    (j_use_global_settings cj = true ->
       s_filtering (es_settings es) = s_filtering g /\
       s_parental (es_settings es) = s_parental g /\
       s_safebrowsing (es_settings es) = s_safebrowsing g /\
       s_safesearch (es_settings es) = s_safesearch g /\
       forall v, check_safe_search global true es v = s_safesearch g && engine_rewrites global v) /\
    (j_use_global_blocked cj = false ->
       s_blocked (es_settings es) = Some (copy_blocked (j_sched cj) (j_blocked cj))) /\
    (j_use_global_blocked cj = true -> s_blocked (es_settings es) = s_blocked g).
Proof.
  intros rb F. destruct (http_history_as_body cfg known ops) as (HG & HA). fold rb in HG, HA.
  pose proof (g_inv _ _ _ (hg_good _ _ _ HG)) as HI. change (fst (reg_of (fst rb))) with (fst (fst rb)) in HI.
  destruct (acf_found_stored _ _ _ _ _ HI F) as (c & D).
  destruct (HA _ _ D) as (cj & B & Fb). exists cj.
  destruct (from_body_fields _ _ _ _ Fb) as (Fn & Fo & Ff & Fp & Fsb & Fss & Fx & Fe & Fob & Fbl & Ft).
  destruct (apply_client_spec c g) as (Sn & Sown & Sglob & Sb1 & Sb0).
  destruct (j_use_global_settings cj) eqn:Ug; cbn [negb] in Fo.
  - destruct (verdict_global_client (fst rb) dhcp id a g global u c F D Fo) as (es & He & Hv).
    exists es. split; [exact B|]. split; [exact He|].
    assert (Es : es_settings es = apply_client c g).
    { unfold h_acf in He. rewrite F, D in He. inversion He. reflexivity. }
    rewrite Es. destruct (Sglob Fo) as (S1 & S2 & S3 & S4).
    split; [congruence|]. split; [unfold apply_client; destruct (c_own_settings c); cbn; exact Ft|].
    split; [discriminate|]. split; [intros _; repeat split; assumption|].
    destruct (j_use_global_blocked cj) eqn:Ub; cbn [negb] in Fob.
    + split; [discriminate|]. intros _. apply Sb0. exact Fob.
    + split; [|discriminate]. intros _. rewrite (Sb1 Fob). exact Fbl.
  - destruct (verdict_own cfg known (fst rb) dhcp id a g global u c HG F D Fo) as (es & He & Es & Hv).
    exists es. split; [exact B|]. split; [exact He|]. rewrite Es.
    destruct (Sown Fo) as (S1 & S2 & S3 & S4).
    split; [congruence|]. split; [unfold apply_client; destruct (c_own_settings c); cbn; exact Ft|].
    split.
    + intros _. repeat split; try congruence; intros v; rewrite Hv, Fx; reflexivity.
    + split; [discriminate|].
      destruct (j_use_global_blocked cj) eqn:Ub; cbn [negb] in Fob.
      * split; [discriminate|]. intros _. apply Sb0. exact Fob.
      * split; [|discriminate]. intros _. rewrite (Sb1 Fob). exact Fbl.
Qed.

(** * GET /control/clients *)

(** The JSON form of the record a body leaves, in terms of the body alone:
    identifiers grouped by kind and sorted, tags sorted, the safe-search object
    always present with the deprecated flag equal to its [enabled], the
    schedule always present, NullBools resolved. *)
Definition canon_json (cj : cjson) : cjson :=
  {| j_name := j_name cj;
     j_ids := map PIp (sort_by addr_z_compare (ips_of (j_ids cj))) ++
              map PNet (sort_by subnet_compare (nets_of (j_ids cj))) ++
              map PMac (sort_by cmp_bytes (macs_of (j_ids cj))) ++
              map PCid (sort_by cmp_bytes (cids_of (j_ids cj)));
     j_tags := sort_names (j_tags cj);
     j_upstreams := j_upstreams cj;
     j_ss := Some (body_ss cj);
     j_ss_dep := ss_enabled (body_ss cj);
     j_sched := Some (match j_sched cj with Some p => p | None => (empty_weekly, 0) end);
     j_blocked := j_blocked cj;
     j_use_global_settings := j_use_global_settings cj;
     j_filtering := j_filtering cj;
     j_parental := j_parental cj;
     j_safebrowsing := j_safebrowsing cj;
     j_use_global_blocked := j_use_global_blocked cj;
     j_ignore_qlog := Some (nb (j_ignore_qlog cj));
     j_ignore_stats := Some (nb (j_ignore_stats cj));
     j_cache_enabled := Some (nb (j_cache_enabled cj));
     j_cache_size := match j_cache_enabled cj with Some _ => j_cache_size cj | None => 0 end |}.

Lemma get_entry_as_body known cj c x :
  from_body known cj c x -> client_to_json c (hx_extra x) = canon_json cj.
Proof.
  intros (g & c0 & J & ->). unfold json_to_client in J.
  destruct (forallb _ _); cbn [negb] in J; [|discriminate].
  destruct (existsb is_bad (j_ids cj)); [discriminate|].
  inversion J; subst c0 x; clear J. unfold client_to_json, canon_json, ids_of, body_ss, copy_blocked. cbn.
  rewrite !Bool.negb_involutive. destruct (j_sched cj) as [[w z]|]; reflexivity.
Qed.

Lemma http_get_in cfg known r j :
  HGood cfg known r ->
  (In j (http_get r) <->
   exists u c, deref (fst r) u = Some c /\ j = client_to_json c (hx_extra (hextra_of r u))).
Proof.
  intros HG. pose proof (hg_good _ _ _ HG) as G. unfold http_get. rewrite in_map_iff. split.
  - intros (c & <- & Hin). apply (listed_stored cfg known (reg_of r) c G) in Hin.
    exists (c_uid c), c. split; [exact Hin|reflexivity].
  - intros (u & c & D & ->). exists c.
    destruct (hgood_stored _ _ _ _ _ HG D) as (Eu & _). subst u.
    split; [reflexivity|]. apply (listed_stored cfg known (reg_of r) c G). exact D.
Qed.

(** GET after any history lists exactly the stored clients, each in the JSON
    form of the body that last set it, in strictly increasing name order. *)
Theorem http_get_after_history cfg known ops :
  let rb := hrun_track cfg known ops empty_hreg [] in
  (forall j, In j (http_get (fst rb)) <->
     exists u c cj, deref (fst (fst rb)) u = Some c /\ body_of (snd rb) u = Some cj /\ j = canon_json cj) /\
  StronglySorted (fun a b => cmp_bytes (j_name a) (j_name b) = Lt) (http_get (fst rb)).
Proof.
  intros rb. destruct (http_history_as_body cfg known ops) as (HG & HA). fold rb in HG, HA. split.
  - intros j. rewrite (http_get_in cfg known _ j HG). split.
    + intros (u & c & D & ->). destruct (HA _ _ D) as (cj & B & Fb).
      exists u, c, cj. split; [exact D|]. split; [exact B|]. eapply get_entry_as_body. exact Fb.
    + intros (u & c & cj & D & B & ->). exists u, c. split; [exact D|].
      destruct (HA _ _ D) as (cj' & B' & Fb). rewrite B in B'. inversion B'; subst cj'.
      symmetry. eapply get_entry_as_body. exact Fb.
  - pose proof (listing_sorted cfg known (reg_of (fst rb)) (hg_good _ _ _ HG)) as S.
    unfold http_get. change (fst (reg_of (fst rb))) with (fst (fst rb)) in S.
    induction S as [|c l S IH F]; cbn [map]; constructor; [exact IH|].
    apply Forall_forall. intros j Hin. apply in_map_iff in Hin. destruct Hin as (c' & <- & Hin).
    rewrite Forall_forall in F. exact (F c' Hin).
Qed.

(** Posting what GET returned as the body of an update leaves the record and
    its engine as they are (the JSON form loses nothing). *)
Lemma json_roundtrip cfg known r u c :
  HGood cfg known r -> deref (fst r) u = Some c -> x_nil_sched (hx_extra (hextra_of r u)) = false ->
  json_to_client known u (client_to_json c (hx_extra (hextra_of r u))) = JOk c (hextra_of r u).
Proof.
  intros HG D Ns. destruct (hgood_stored _ _ _ _ _ HG D) as (Eu & Hnz & (b & Hb) & _ & (g & o & T)).
  set (x := hx_extra (hextra_of r u)) in *.
  assert (Ex : hextra_of r u = with_engine x).
  { pose proof (eng_ok_of r u (hg_eng _ _ _ HG)) as E. unfold eng_ok in E. fold x in E.
    unfold with_engine. rewrite <- E. destruct (hextra_of r u); reflexivity. }
  rewrite Ex. apply object_as_json.
  assert (Eo : obj_of_json u (client_to_json c x) = for_config c x).
  { unfold obj_of_json, client_to_json, for_config, body_ss. cbn. rewrite Hb, Ns. cbn.
    rewrite Eu. reflexivity. }
  rewrite Eo. eapply object_roundtrip; [exact T|]. rewrite Eu. exact Hnz.
Qed.

(** * Save and restart after any history of requests

    forConfig, then Init of a fresh container: the registry has the same
    records, the same safe-search configurations and engines under every uid,
    so every request gets the same settings and, for every service, the same
    verdict as before the restart. *)
Lemma restart_same cfg known r :
  HGood cfg known r ->
  exists r', restart cfg known r = Some r' /\ HGood cfg known r' /\
    (forall u, deref (fst r) u = deref (fst r') u) /\
    (forall u c, deref (fst r) u = Some c -> hextra_of r' u = hextra_of r u) /\
    (forall dhcp id a g, h_acf r' dhcp id a g = h_acf r dhcp id a g).
Proof.
  intros HG. pose proof (hg_good _ _ _ HG) as G.
  destruct (good_roundtrip cfg known 0 (reg_of r) G) as (r1 & Hr & G1 & Hs & _).
  exists (to_hreg r1). unfold restart. rewrite Hr. split; [reflexivity|].
  split; [apply HGood_loaded; exact G1|].
  assert (Hd : forall u, deref (fst r) u = deref (fst (to_hreg r1)) u).
  { intros u. destruct (Hs u) as (E & _). exact E. }
  assert (Hx : forall u c, deref (fst r) u = Some c -> hextra_of (to_hreg r1) u = hextra_of r u).
  { intros u c D. destruct (Hs u) as (_ & E). cbn [reg_of fst] in E.
    specialize (E ltac:(rewrite D; discriminate)).
    rewrite extra_of_reg_of in E. rewrite <- (reg_of_to_hreg r1) in E. rewrite extra_of_reg_of in E.
    pose proof (eng_ok_of r u (hg_eng _ _ _ HG)) as E1.
    pose proof (eng_ok_of (to_hreg r1) u (hg_eng _ _ _ (HGood_loaded _ _ _ G1))) as E2.
    unfold eng_ok in E1, E2. rewrite <- E in E2.
    destruct (hextra_of r u) as [x1 e1], (hextra_of (to_hreg r1) u) as [x2 e2]. cbn in *. congruence. }
  split; [exact Hd|]. split; [exact Hx|].
  intros dhcp id a g.
  pose proof (g_inv _ _ _ G) as I0. pose proof (g_inv _ _ _ G1) as I1.
  assert (F : acf_find (fst (to_hreg r1)) dhcp id a = acf_find (fst r) dhcp id a).
  { eapply (precedence_unique (fst r) dhcp id a); [exact I0| |apply precedence; exact I0].
    eapply resolves_same; [|apply precedence; exact I1]. intros u0. symmetry. apply Hd. }
  unfold h_acf. rewrite F. destruct (acf_find (fst r) dhcp id a) as [u|] eqn:Fu; [|reflexivity].
  rewrite <- Hd. destruct (deref (fst r) u) as [c|] eqn:D; [|reflexivity].
  rewrite (Hx _ _ D). reflexivity.
Qed.

(** * Premises satisfiable: the shape of seeded change C04-J

    The global safe search covers YouTube; the body of "teen" uses only the
    CURRENT [safe_search] object ([enabled: true], YouTube off; no
    [safesearch_enabled]) and opts out of the global settings: Google is
    rewritten for the client, YouTube is not; a stranger gets both; "legacy"
    carries the deprecated flag alone and gets every service. *)
Definition ex_teen_ss : ssconf :=
  {| ss_enabled := true; ss_bing := true; ss_ddg := true; ss_ecosia := true;
     ss_google := true; ss_pixabay := true; ss_yandex := true; ss_youtube := false |}.
Definition ex_body (name : bytes) (ip : addr) (ss : option ssconf) (dep : bool) : cjson :=
  {| j_name := name; j_ids := [PIp ip]; j_tags := []; j_upstreams := [];
     j_ss := ss; j_ss_dep := dep; j_sched := None; j_blocked := [];
     j_use_global_settings := false; j_filtering := true; j_parental := false; j_safebrowsing := false;
     j_use_global_blocked := true; j_ignore_qlog := None; j_ignore_stats := None;
     j_cache_enabled := None; j_cache_size := 0 |}.
Definition ex_ops_http : list hop :=
  [HAdd (Some (ex_body [116] (v4 192 168 7 7) (Some ex_teen_ss) false)) 1;
   HAdd (Some (ex_body [108] (v4 192 168 7 8) None true)) 2;
   HAdd (Some (ex_body [122] (v4 192 168 7 7) None false)) 3;          (* refused: same IP *)
   HUpdate (Some ([108], ex_body [108] (v4 192 168 7 8) (Some ex_teen_ss) true)) 4].
Definition ex_hg : settings :=
  {| s_client_name := []; s_filtering := true; s_safesearch := true; s_safebrowsing := false;
     s_parental := false; s_blocked := None; s_tags := []; s_services := [] |}.
Definition ex_verdicts (r : hreg) (a : addr) : option (list bool) :=
  option_map (verdicts all_on_ss) (h_acf r (fun _ => None) [] a ex_hg).

Lemma example_http_history :
  let r3 := hrun ex_conf_cfg [] (firstn 3 ex_ops_http) empty_hreg in
  let r4 := hrun ex_conf_cfg [] ex_ops_http empty_hreg in
  acf_find (fst r3) (fun _ => None) [] (v4 192 168 7 7) = Some 1 /\
  ex_verdicts r3 (v4 192 168 7 7) = Some [true; true; true; true; true; true; false] /\
  ex_verdicts r3 (v4 192 168 7 8) = Some [true; true; true; true; true; true; true] /\
  ex_verdicts r3 (v4 192 168 7 99) = Some [true; true; true; true; true; true; true] /\
  snd (http_step ex_conf_cfg [] (hrun ex_conf_cfg [] (firstn 2 ex_ops_http) empty_hreg)
         (nth 2 ex_ops_http (HDelete None))) = HStore EIP /\
  (* contradictory body: the current object wins over the deprecated flag *)
  ex_verdicts r4 (v4 192 168 7 8) = Some [true; true; true; true; true; true; false] /\
  map j_name (http_get r4) = [[108]; [116]] /\
  option_map (fun r => ex_verdicts r (v4 192 168 7 8)) (restart ex_conf_cfg [] r4) =
    Some (Some [true; true; true; true; true; true; false]).
Proof. vm_compute. repeat split; reflexivity. Qed.

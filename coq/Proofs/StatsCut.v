(** C09: the cut really cuts.  A top list of the answer has at most 100
    entries, in every state whatsoever: the merged map has distinct names
    (it is built by sorted insertion) and among distinct pairs [cut100] keeps
    fewer than 101. *)
From Coq Require Import ZArith List Bool Lia.
From AGH Require Import Model.Stats Proofs.Stats.
Import ListNotations.
Local Open Scope Z_scope.

(** [before] is a strict total order on pairs that differ. *)
Lemma before_total a b : a <> b -> before a b = true \/ before b a = true.
Proof.
  destruct a as [k1 v1], b as [k2 v2]. unfold before. cbn [fst snd]. intros N.
  destruct (Z.ltb_spec v2 v1); [left; reflexivity|].
  destruct (Z.ltb_spec v1 v2); [right; reflexivity|].
  assert (v1 = v2) by lia. subst. rewrite Z.eqb_refl. cbn [orb andb].
  destruct (Z.ltb_spec k1 k2); [left; reflexivity|]. destruct (Z.ltb_spec k2 k1); [right; reflexivity|].
  exfalso. apply N. f_equal. lia.
Qed.

Lemma before_spec a b :
  before a b = true <-> snd b < snd a \/ (snd a = snd b /\ fst a < fst b).
Proof.
  unfold before. rewrite orb_true_iff, andb_true_iff, !Z.ltb_lt, Z.eqb_eq. tauto.
Qed.

Lemma before_trans a b c : before a b = true -> before b c = true -> before a c = true.
Proof. rewrite !before_spec. lia. Qed.

Lemma before_irrefl a : before a a = false.
Proof. destruct (before a a) eqn:E; [|reflexivity]. apply before_spec in E. lia. Qed.

Lemma pair_eq_dec (a b : Z * Z) : {a = b} + {a <> b}.
Proof. decide equality; apply Z.eq_dec. Qed.

(** A non-empty list of distinct pairs has a last element. *)
Lemma last_exists (l : amap) :
  l <> [] -> NoDup l -> exists b, In b l /\ forall a, In a l -> a <> b -> before a b = true.
Proof.
  induction l as [|x l IH]; [congruence|]. intros _ ND. inversion ND as [|y z Hx ND']; subst.
  destruct l as [|y l'].
  - exists x. split; [left; reflexivity|]. intros a [<-|[]] N; congruence.
  - destruct (IH ltac:(discriminate) ND') as [b [Hb Hmax]].
    assert (Nxb : x <> b) by (intros ->; contradiction).
    destruct (before_total x b Nxb) as [E|E].
    + exists b. split; [right; exact Hb|]. intros a [<-|Ha] N; [exact E|apply Hmax; assumption].
    + exists x. split; [left; reflexivity|]. intros a [<-|Ha] N; [congruence|].
      destruct (pair_eq_dec a b) as [->|Nab]; [exact E|].
      eapply before_trans; [apply Hmax; assumption|exact E].
Qed.

Lemma filter_all_but_one (f : Z * Z -> bool) l b :
  NoDup l -> In b l -> f b = false -> (forall a, In a l -> a <> b -> f a = true) ->
  S (length (filter f l)) = length l.
Proof.
  induction l as [|x l IH]; intros ND Hb Fb Hall; [contradiction|].
  inversion ND as [|y z Hx ND']; subst. cbn [filter length].
  destruct Hb as [->|Hb].
  - rewrite Fb. f_equal. f_equal. apply filter_id. intros a Ha. apply Hall; [right; exact Ha|].
    intros ->. contradiction.
  - rewrite (Hall x) by (try (left; reflexivity); intros ->; contradiction). cbn [length]. f_equal.
    apply IH; try assumption. intros a Ha. apply Hall. right; exact Ha.
Qed.

(** Among distinct pairs the cut keeps at most 100. *)
Theorem cut100_length m : NoDup m -> Z.of_nat (length (cut100 m)) <= max_top.
Proof.
  intros ND. unfold cut100. destruct (Z.leb_spec (Z.of_nat (length m)) max_top) as [Le|Gt]; [exact Le|].
  set (K := filter (fun b => rank m b <? max_top) m).
  destruct (Z_le_gt_dec (Z.of_nat (length K)) max_top) as [H|H]; [exact H|exfalso].
  assert (NK : NoDup K) by (apply NoDup_filter; exact ND).
  assert (K <> []) by (destruct K; [cbn in H; unfold max_top in H; lia|discriminate]).
  destruct (last_exists K ltac:(assumption) NK) as [b [Hb Hmax]].
  pose proof (filter_all_but_one (fun a => before a b) K b NK Hb (before_irrefl b) Hmax) as Hc.
  pose proof (filter_filter_length (fun a => before a b) (fun b => rank m b <? max_top) m) as Hl.
  fold K in Hl. apply filter_In in Hb. destruct Hb as [_ Hr]. apply Z.ltb_lt in Hr. unfold rank in Hr. lia.
Qed.

(** Maps built by [bump_by] have strictly increasing names. *)
Fixpoint sorted_from (lo : Z) (m : amap) : Prop :=
  match m with
  | [] => True
  | (k, _) :: m' => lo < k /\ sorted_from k m'
  end.

Definition sorted (m : amap) : Prop := match m with [] => True | (k, _) :: m' => sorted_from k m' end.

Lemma sorted_from_weaken lo lo' m : lo' <= lo -> sorted_from lo m -> sorted_from lo' m.
Proof. destruct m as [|[k v] m]; cbn; [auto|]. intros; intuition lia. Qed.

Lemma sorted_from_bump lo k n m : lo < k -> sorted_from lo m -> sorted_from lo (bump_by k n m).
Proof.
  revert lo. induction m as [|[k' v] m IH]; intros lo Hk H; cbn [bump_by].
  - cbn. auto.
  - cbn [sorted_from] in H. destruct H as [H1 H2].
    destruct (Z.ltb_spec k k'); [cbn; intuition lia|].
    destruct (Z.eqb_spec k k'); [cbn; auto|].
    cbn [sorted_from]. split; [exact H1|]. apply IH; [lia|exact H2].
Qed.

Lemma sorted_bump k n m : sorted m -> sorted (bump_by k n m).
Proof.
  destruct m as [|[k' v] m]; cbn [bump_by sorted]; [auto|]. intros H.
  destruct (Z.ltb_spec k k'); [cbn; auto|]. destruct (Z.eqb_spec k k'); [exact H|].
  cbn [sorted]. apply sorted_from_bump; [lia|exact H].
Qed.

Lemma sorted_merge b : forall a, sorted a -> sorted (merge a b).
Proof.
  unfold merge. induction b as [|[k v] b IH]; intros a H; cbn [fold_left]; [exact H|].
  apply IH, sorted_bump, H.
Qed.

Lemma sorted_fold (l : list amap) : forall acc, sorted acc -> sorted (fold_left merge l acc).
Proof. induction l as [|a l IH]; intros acc H; cbn [fold_left]; [exact H|]. apply IH, sorted_merge, H. Qed.

Lemma sorted_from_notin lo m p : sorted_from lo m -> In p m -> lo < fst p.
Proof.
  revert lo. induction m as [|[k v] m IH]; intros lo H Hin; [contradiction|].
  cbn [sorted_from] in H. destruct H as [H1 H2]. destruct Hin as [<-|Hin]; [exact H1|].
  specialize (IH k H2 Hin). lia.
Qed.

Lemma sorted_from_NoDup lo m : sorted_from lo m -> NoDup m.
Proof.
  revert lo. induction m as [|[k v] m IH]; intros lo H; [constructor|].
  cbn [sorted_from] in H. destruct H as [H1 H2]. constructor; [|exact (IH k H2)].
  intros Hin. pose proof (sorted_from_notin k m (k, v) H2 Hin). cbn in *. lia.
Qed.

Lemma sorted_NoDup m : sorted m -> NoDup m.
Proof.
  destruct m as [|[k v] m]; [constructor|]. cbn [sorted]. intros H. constructor; [|exact (sorted_from_NoDup k m H)].
  intros Hin. pose proof (sorted_from_notin k m (k, v) H Hin). cbn in *. lia.
Qed.

(** No top list of any answer is longer than 100. *)
Theorem top_lists_at_most_100 s :
  let d := get_data s in
  Z.of_nat (length (d_top_dom d)) <= 100 /\ Z.of_nat (length (d_top_blk d)) <= 100 /\
  Z.of_nat (length (d_top_cli d)) <= 100 /\ Z.of_nat (length (d_top_up d)) <= 100.
Proof.
  cbv zeta. unfold get_data. cbn [d_top_dom d_top_blk d_top_cli d_top_up].
  repeat split; apply cut100_length, sorted_NoDup, sorted_fold; exact I.
Qed.

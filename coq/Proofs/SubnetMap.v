(** index.subnetToUID: the aghalg.SortedMap of Model/SortedMap.v, driven the way
    internal/client/index.go drives it (Model/SubnetMap.v), refines the sorted
    association list Model/ClientIndex.v's registry carries, call by call and
    for every registry history (C04, round 4). *)
From Coq Require Import Lia Sorting.Sorted.
From AGH Require Import Base.Run Model.ClientIndex Model.SortedMap Model.SubnetMap.
From AGH Require Import Proofs.ClientIndex Proofs.SortedMap.
Local Open Scope N_scope.

(** * subnetCompare is a strict total order whose zero is equality *)
Lemma sc_eq a b : subnet_compare a b = Eq <-> a = b.
Proof. split; [apply subnet_compare_eq|intros ->; apply subnet_compare_refl]. Qed.

Definition pm_inv : pmap -> Prop := smap_inv subnet_compare prefix_eqb.

Lemma pm_inv_new : pm_inv pm_new.
Proof. apply smap_inv_new. Qed.

(** * The abstract side IS ClientIndex's sorted association list *)
Lemma fm_set_sm_set k (v : uid) m : fm_set subnet_compare k v m = sm_set k v m.
Proof.
  induction m as [|[k' v'] m IH]; cbn; [reflexivity|]. rewrite IH. reflexivity.
Qed.
Lemma fm_get_sm_get k (m : list (prefix * uid)) : fm_get prefix_eqb k m = sm_get k m.
Proof.
  unfold fm_get, sm_get. induction m as [|[k' v'] m IH]; cbn; [reflexivity|]. rewrite IH. reflexivity.
Qed.
Lemma fm_del_sm_del k (m : list (prefix * uid)) : fm_del prefix_eqb k m = sm_del k m.
Proof. reflexivity. Qed.

Definition sm_step (m : list (prefix * uid)) (o : pmop) : list (prefix * uid) :=
  match o with
  | MSet k v => sm_set k v m
  | MDel k => sm_del k m
  | MClear => []
  end.
Definition sm_run (ops : list pmop) (m : list (prefix * uid)) : list (prefix * uid) := fold_left sm_step ops m.

Lemma fm_run_sm_run ops : forall m, fm_run subnet_compare prefix_eqb ops m = sm_run ops m.
Proof.
  unfold fm_run, sm_run. induction ops as [|o ops IH]; intros m; cbn [fold_left]; [reflexivity|].
  rewrite IH. f_equal. destruct o; cbn; auto using fm_set_sm_set.
Qed.

(** * Call by call *)
Theorem pm_set_refines k u m : pm_inv m ->
  exists m', pm_set k u m = SOk m' /\ pm_inv m' /\ pm_all m' = sm_set k u (pm_all m).
Proof.
  intros Hi. rewrite <- fm_set_sm_set.
  exact (set_refines subnet_compare prefix_eqb 0 prefix_eqb_spec sc_eq subnet_compare_antisym
           subnet_compare_trans k u m Hi).
Qed.

Theorem pm_del_refines k m : pm_inv m ->
  exists m', pm_del k m = SOk m' /\ pm_inv m' /\ pm_all m' = sm_del k (pm_all m).
Proof.
  intros Hi.
  exact (del_refines subnet_compare prefix_eqb 0 prefix_eqb_spec sc_eq subnet_compare_antisym
           subnet_compare_trans k m Hi).
Qed.

Theorem pm_get_refines k m : pm_inv m -> pm_get k m = sm_get k (pm_all m).
Proof.
  intros Hi. rewrite <- fm_get_sm_get.
  exact (get_refines subnet_compare prefix_eqb 0 prefix_eqb_spec k m Hi).
Qed.

Theorem pm_run_refines ops m : pm_inv m ->
  exists m', pm_run ops m = SOk m' /\ pm_inv m' /\ pm_all m' = sm_run ops (pm_all m).
Proof.
  intros Hi. rewrite <- fm_run_sm_run.
  exact (run_refines subnet_compare prefix_eqb 0 prefix_eqb_spec sc_eq subnet_compare_antisym
           subnet_compare_trans ops m Hi).
Qed.

(** index.add / index.remove *)
Lemma pm_add_keys_refines ks u : forall m, pm_inv m ->
  exists m', pm_add_keys ks u m = SOk m' /\ pm_inv m' /\ pm_all m' = add_keys sm_set ks u (pm_all m).
Proof.
  unfold add_keys. induction ks as [|k ks IH]; intros m Hi; cbn [pm_add_keys fold_left].
  - exists m. auto.
  - destruct (pm_set_refines k u m Hi) as (m1 & E1 & Hi1 & A1). rewrite E1.
    destruct (IH m1 Hi1) as (m2 & E2 & Hi2 & A2). exists m2. rewrite <- A1. auto.
Qed.

Lemma pm_del_keys_refines ks : forall m, pm_inv m ->
  exists m', pm_del_keys ks m = SOk m' /\ pm_inv m' /\ pm_all m' = del_keys sm_del ks (pm_all m).
Proof.
  unfold del_keys. induction ks as [|k ks IH]; intros m Hi; cbn [pm_del_keys fold_left].
  - exists m. auto.
  - destruct (pm_del_refines k m Hi) as (m1 & E1 & Hi1 & A1). rewrite E1.
    destruct (IH m1 Hi1) as (m2 & E2 & Hi2 & A2). exists m2. rewrite <- A1. auto.
Qed.

(** Range with a stopping callback (index.clashesSubnet, index.findByIP) *)
Lemma pm_first_find p m : pm_first p m = List.find (fun kv => p (fst kv) (snd kv)) (pm_all m).
Proof. apply range_find. Qed.

Lemma find_eq_get s (l : list (prefix * uid)) :
  match List.find (fun kv => prefix_eqb s (fst kv)) l with Some (_, u) => Some u | None => None end =
  sm_get s l.
Proof.
  unfold sm_get. induction l as [|[k v] l IH]; cbn; [reflexivity|].
  destruct (prefix_eqb s k); [reflexivity|exact IH].
Qed.

Theorem pm_clash_refines ks u m : pm_clash ks u m = clash_key sm_get ks u (pm_all m).
Proof.
  induction ks as [|s ks IH]; cbn [pm_clash clash_key]; [reflexivity|].
  rewrite pm_first_find. rewrite <- (find_eq_get s (pm_all m)).
  destruct (List.find _ (pm_all m)) as [[p u']|]; [|exact IH].
  destruct (u' =? u); [exact IH|reflexivity].
Qed.

Theorem pm_find_ip_refines ip m :
  pm_find_ip ip m =
  match List.find (fun pu => contains (fst pu) ip) (pm_all m) with Some (_, u) => Some u | None => None end.
Proof. unfold pm_find_ip. rewrite pm_first_find. reflexivity. Qed.

(** * The registry's index against the implementation's map *)
Definition sub_rel (m : pmap) (ix : index) : Prop := pm_inv m /\ pm_all m = subnet_to ix.

Theorem index_add_refines c ix m : sub_rel m ix ->
  exists m', pm_add_keys (c_subnets c) (c_uid c) m = SOk m' /\ sub_rel m' (index_add c ix).
Proof.
  intros [Hi Ha]. destruct (pm_add_keys_refines (c_subnets c) (c_uid c) m Hi) as (m' & E & Hi' & A').
  exists m'. split; [exact E|]. split; [exact Hi'|]. rewrite A', Ha. reflexivity.
Qed.

Theorem index_remove_refines c ix m : sub_rel m ix ->
  exists m', pm_del_keys (c_subnets c) m = SOk m' /\ sub_rel m' (index_remove c ix).
Proof.
  intros [Hi Ha]. destruct (pm_del_keys_refines (c_subnets c) m Hi) as (m' & E & Hi' & A').
  exists m'. split; [exact E|]. split; [exact Hi'|]. rewrite A', Ha. reflexivity.
Qed.

Theorem clashes_subnet_refines c ix m : sub_rel m ix ->
  pm_clash (c_subnets c) (c_uid c) m = clash_key sm_get (c_subnets c) (c_uid c) (subnet_to ix).
Proof. intros [_ Ha]. rewrite pm_clash_refines, Ha. reflexivity. Qed.

Theorem find_by_ip_refines ix m ip : sub_rel m ix ->
  find_by_ip ix ip =
  match zget ip (ip_to ix) with Some u => Some u | None => pm_find_ip (fst ip) m end.
Proof. intros [_ Ha]. unfold find_by_ip. rewrite pm_find_ip_refines, Ha. reflexivity. Qed.

(** * Whole histories *)
Lemma add_keys_sm_run ks u : forall m, add_keys sm_set ks u m = sm_run (map (fun k => MSet k u) ks) m.
Proof.
  unfold add_keys, sm_run. induction ks as [|k ks IH]; intros m; cbn [fold_left map]; [reflexivity|].
  rewrite IH. reflexivity.
Qed.
Lemma del_keys_sm_run ks : forall m : list (prefix * uid),
  del_keys sm_del ks m = sm_run (map (fun k => MDel k) ks) m.
Proof.
  unfold del_keys, sm_run. induction ks as [|k ks IH]; intros m; cbn [fold_left map]; [reflexivity|].
  rewrite IH. reflexivity.
Qed.
Lemma sm_run_app a b m : sm_run (a ++ b) m = sm_run b (sm_run a m).
Proof. unfold sm_run. apply fold_left_app. Qed.

Lemma index_add_calls c ix : subnet_to (index_add c ix) = sm_run (set_calls c) (subnet_to ix).
Proof. unfold set_calls. rewrite <- add_keys_sm_run. reflexivity. Qed.
Lemma index_remove_calls c ix : subnet_to (index_remove c ix) = sm_run (del_calls c) (subnet_to ix).
Proof. unfold del_calls. rewrite <- del_keys_sm_run. reflexivity. Qed.

Lemma step_calls cfg ix o :
  subnet_to (fst (step cfg ix o)) = sm_run (sub_calls cfg ix o) (subnet_to ix).
Proof.
  destruct o as [c|name c|name]; cbn [step sub_calls].
  - unfold add. destruct (validate cfg c); try reflexivity.
    destruct (deref ix (c_uid (normalize c))); [reflexivity|].
    destruct (clashes (normalize c) ix); try reflexivity.
    cbn [fst]. apply index_add_calls.
  - unfold update. destruct (validate cfg c); try reflexivity.
    destruct (bget name (name_to ix)) as [u|]; [|reflexivity].
    destruct (deref ix u) as [stored|]; [|reflexivity].
    destruct (clashes (set_uid (c_uid stored) (normalize c)) ix); try reflexivity.
    cbn [fst]. rewrite sm_run_app, index_add_calls, index_remove_calls. reflexivity.
  - unfold remove_by_name. destruct (bget name (name_to ix)) as [u|]; [|reflexivity].
    destruct (deref ix u) as [stored|]; [|reflexivity].
    cbn [fst]. apply index_remove_calls.
Qed.

Lemma history_calls_abs cfg ops : forall ix,
  subnet_to (run cfg ops ix) = sm_run (history_calls cfg ops ix) (subnet_to ix).
Proof.
  unfold run. induction ops as [|o ops IH]; intros ix; cbn [fold_left history_calls]; [reflexivity|].
  rewrite IH, sm_run_app, step_calls. reflexivity.
Qed.

(** After EVERY history of add / update / remove, replaying on the
    implementation's structure (key slice + map, binary searches) the Set and
    Del calls the registry made never panics, never runs out of fuel, leaves
    the key slice strictly sorted, and Range shows exactly the registry's
    subnet list. *)
Theorem subnet_map_refines cfg ops :
  exists m, pm_run (history_calls cfg ops empty_index) pm_new = SOk m /\
            sub_rel m (run cfg ops empty_index).
Proof.
  destruct (pm_run_refines (history_calls cfg ops empty_index) pm_new pm_inv_new) as (m & E & Hi & A).
  exists m. split; [exact E|]. split; [exact Hi|].
  rewrite A, (history_calls_abs cfg ops empty_index). reflexivity.
Qed.

(** No ghost: whatever Range of the implementation's map shows after a
    history is a subnet of a STORED client that lists it, shown once; in
    particular never a pair with the zero UID standing for a deleted value. *)
Theorem no_ghost_subnet cfg ops m :
  pm_run (history_calls cfg ops empty_index) pm_new = SOk m ->
  NoDup (map fst (pm_all m)) /\
  forall p u, In (p, u) (pm_all m) ->
    exists c, deref (run cfg ops empty_index) u = Some c /\ In p (c_subnets c) /\ c_uid c = u.
Proof.
  intros E. destruct (subnet_map_refines cfg ops) as (m' & E' & Hi & A).
  rewrite E in E'. injection E' as <-.
  pose proof (index_consistent cfg ops) as HI.
  split.
  - apply (range_each_once subnet_compare prefix_eqb 0 sc_eq m Hi).
  - intros p u Hin. unfold pm_all in *. rewrite A in Hin.
    apply (sm_sorted_in_get _ _ _ (inv_sorted _ HI)) in Hin.
    apply (inv_subnet _ HI) in Hin. destruct Hin as (c & Hc & Hp).
    exists c. split; [exact Hc|]. split; [exact Hp|]. apply (inv_uid _ HI _ _ Hc).
Qed.

(** The premises are satisfiable: a history whose clients list the SAME prefix
    twice, sorting last when added, then dropped by an update and by a remove. *)
Definition dup_client (u : uid) (name : bytes) (subnets : list prefix) : client :=
  {| c_uid := u; c_name := name; c_cids := []; c_ips := []; c_subnets := subnets; c_macs := [];
     c_own_settings := false; c_filtering := false; c_safesearch := false; c_safebrowsing := false;
     c_parental := false; c_own_blocked := false; c_blocked := None; c_ignore_qlog := false;
     c_ignore_stats := false; c_tags := []; c_upstreams := [] |}.
Definition p10_1 : prefix := ([10; 1; 0; 0], 16).
Definition p10 : prefix := ([10; 0; 0; 0], 8).
Definition dup_cfg : config := {| cfg_tags := []; cfg_addr_ok := fun _ => true |}.
Definition dup_ops : list op :=
  [OAdd (dup_client 1 [110] [p10_1; p10_1]);
   ORemove [110];
   OAdd (dup_client 2 [98] [p10; p10]);
   OAdd (dup_client 3 [97] [p10_1; p10_1]);
   OUpdate [98] (dup_client 2 [98] [([10; 2; 0; 0], 16)])].

Example dup_history :
  history_calls dup_cfg dup_ops empty_index =
    [MSet p10_1 1; MSet p10_1 1; MDel p10_1; MDel p10_1; MSet p10 2; MSet p10 2;
     MSet p10_1 3; MSet p10_1 3; MDel p10; MDel p10; MSet ([10; 2; 0; 0], 16) 2] /\
  (exists m, pm_run (history_calls dup_cfg dup_ops empty_index) pm_new = SOk m /\
             sm_keys m = [p10_1; ([10; 2; 0; 0], 16)] /\
             pm_all m = [(p10_1, 3); (([10; 2; 0; 0], 16), 2)] /\
             pm_find_ip [10; 0; 9; 9] m = None /\ pm_find_ip [10; 1; 9; 9] m = Some 3).
Proof. split; [reflexivity|]. eexists. vm_compute. repeat split. Qed.

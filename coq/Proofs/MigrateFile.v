(** Proofs about the caller of the configuration upgrade (C13, round 5):
    [parse_config] of Model/MigrateFile.v over an abstract file and a write
    outcome.  The either/or of the property is stated about the FILE: a nil
    return means the file holds a document stamped with the current version and
    that very document was loaded; an error means the file is what it was
    (the one exception, stated: the loader refusing an upgraded document, which
    the property excludes for inputs valid under their own schema). *)
From Coq Require Import List ZArith String Bool Lia.
From AGH Require Import Model.Migrate Model.MigrateFile Proofs.Migrate Proofs.MigrateFrame.
Import ListNotations.
Local Open Scope string_scope.
Local Open Scope Z_scope.

(** ** Version read from a document *)

Lemma doc_version_stamped m z :
  get "schema_version" m = Some (VInt z) -> 0 <= z < 2 ^ 64 -> doc_version m = z.
Proof.
  intros G R. unfold doc_version, field_val. rewrite G. cbn [has_ty coerce fv_val zint].
  now apply Z.mod_small.
Qed.

Section WithOracles.
Variable O : oracles.
Variable accepts : obj -> bool.

(** "Not upgraded" at the last version is said of a map that carries it. *)
Lemma migrate_same_inv top :
  migrate O top last_version = OSame -> exists m, top = Some m /\ doc_version m = last_version.
Proof.
  unfold migrate, doc_version. destruct top as [m|].
  - intros H. exists m. split; [reflexivity|].
    set (r := field_val TInt m "schema_version") in *.
    assert (G : forall c,
      (if c >? last_version then OErr else if last_version >? last_version then OErr
       else if c =? last_version then OSame
       else match upgrade O (Z.to_nat c) (Z.to_nat last_version) m with
            | Ok m' => ONew m' | Err => OErr | Panic => OPanic end) = OSame -> c = last_version).
    { intros c. destruct (c >? last_version); [intros; discriminate|].
      destruct (last_version >? last_version); [intros; discriminate|].
      destruct (c =? last_version) eqn:E; [intros _; now apply Z.eqb_eq|].
      destruct (upgrade O (Z.to_nat c) _ m); intros; discriminate. }
    destruct r; try discriminate; now apply G.
  - change (field_val TInt [] "schema_version") with FAbsent. cbv iota.
    change (zint (fv_val TInt FAbsent) mod 2 ^ 64) with 0.
    change (0 >? last_version) with false. change (last_version >? last_version) with false.
    change (0 =? last_version) with false. cbv iota.
    destruct (upgrade O _ _ []); discriminate.
Qed.

Lemma upgraded_body_stamped top m' :
  migrate O top last_version = ONew m' ->
  get "schema_version" (norm_obj m') = Some (VInt last_version) /\
  doc_version (norm_obj m') = last_version.
Proof.
  intros H. pose proof (migrate_stamped O _ _ _ H) as S.
  assert (G : get "schema_version" (norm_obj m') = Some (VInt last_version))
    by (rewrite get_norm_obj, S; reflexivity).
  split; [exact G|]. apply doc_version_stamped; [exact G|]. unfold last_version. lia.
Qed.

(** ** Never a panic *)

Lemma parse_config_no_panic f wr : fst (parse_config O accepts f wr) <> PPanic.
Proof.
  unfold parse_config, load. destruct f as [| |top]; cbn; try discriminate.
  pose proof (migrate_no_panic O top last_version) as NP.
  destruct (migrate O top last_version); cbn; try congruence.
  - destruct (accepts _); discriminate.
  - destruct wr; cbn; [destruct (accepts _)|]; discriminate.
Qed.

(** ** Success: the file holds a document stamped current, and that document
    is what was loaded *)

Definition stamped_current (c : content) (m : obj) : Prop :=
  c = FDoc (Some m) /\ doc_version m = last_version.

Lemma parse_config_success f wr m up w :
  parse_config O accepts f wr = (PLoaded m up, w) ->
  stamped_current (file_after f w) m /\ accepts m = true /\
  (if up then w = Some m /\ get "schema_version" m = Some (VInt last_version) else w = None).
Proof.
  unfold parse_config, load, stamped_current. destruct f as [| |top]; try discriminate.
  destruct (migrate O top last_version) eqn:M; try discriminate.
  - destruct (migrate_same_inv _ M) as (m0 & -> & V). cbn [doc_map].
    destruct (accepts m0) eqn:A; [|discriminate]. intros [= <- <- <-]. cbn [file_after]. auto.
  - destruct (upgraded_body_stamped _ _ M) as [G V].
    destruct wr; [|discriminate].
    destruct (accepts (norm_obj m0)) eqn:A; [|discriminate]. intros [= <- <- <-]. cbn [file_after]. auto.
Qed.

(** ** Failure: the file is what it was *)

(** Errors of reading, of the upgrade and of the write-back: nothing written. *)
Lemma parse_config_failure f wr r w :
  parse_config O accepts f wr = (r, w) -> is_error r = true -> r <> PLoadErr ->
  w = None /\ file_after f w = f.
Proof.
  unfold parse_config, load. destruct f as [| |top]; try (intros [= <- <-]; auto; fail).
  destruct (migrate O top last_version) eqn:M; try (intros [= <- <-]; auto; fail).
  destruct wr; [|intros [= <- <-]; auto].
  destruct (accepts _); intros [= <- <-]; cbn; [discriminate|congruence].
Qed.

(** The loader's refusal comes either with the untouched file (no upgrade was
    needed) or with the upgraded document, stamped current, in the file: the
    upgrade as such succeeded and "produced a document stamped with the current
    version"; that the loader accepts it is the clause with the premise (input
    valid under its own schema), see [parse_config_error_keeps_file]. *)
Lemma parse_config_load_error f wr w :
  parse_config O accepts f wr = (PLoadErr, w) ->
  w = None \/
  exists b, w = Some b /\ get "schema_version" b = Some (VInt last_version) /\
            doc_version b = last_version /\ accepts b = false.
Proof.
  unfold parse_config, load. destruct f as [| |top]; try discriminate.
  destruct (migrate O top last_version) eqn:M; try discriminate.
  - destruct (accepts _); [discriminate|]. intros [= <-]. now left.
  - destruct wr; [|discriminate]. destruct (accepts (norm_obj m)) eqn:A; [discriminate|].
    intros [= <-]. right. exists (norm_obj m). destruct (upgraded_body_stamped _ _ M). auto.
Qed.

(** The loader accepts what the upgrade of this file produces (the conclusion
    of [C13_output_loadable] / the loader monitor for valid inputs). *)
Definition upgrade_acceptable (f : content) : Prop :=
  forall top m', f = FDoc top -> migrate O top last_version = ONew m' -> accepts (norm_obj m') = true.

Lemma parse_config_error_keeps_file f wr r w :
  upgrade_acceptable f ->
  parse_config O accepts f wr = (r, w) -> is_error r = true -> w = None /\ file_after f w = f.
Proof.
  intros UA H E. destruct r; try discriminate E;
    try (apply (parse_config_failure _ _ _ _ H); [reflexivity|discriminate]).
  destruct (parse_config_load_error _ _ _ H) as [->|(b & -> & _ & _ & A)]; [auto|].
  exfalso. revert H. unfold parse_config, load. destruct f as [| |top]; try discriminate.
  destruct (migrate O top last_version) eqn:M; try discriminate.
  destruct wr; [|intros; discriminate]. rewrite (UA top m eq_refl M). intros; discriminate.
Qed.

(** The either/or in one statement. *)
Definition either_or (f : content) (r : presult) (w : option obj) : Prop :=
  match r with
  | PLoaded m up => stamped_current (file_after f w) m          (* success: file current, and loaded = file *)
  | PReadErr | PMigrateErr | PWriteErr => file_after f w = f    (* failure: file unchanged *)
  | PLoadErr =>
      file_after f w = f \/
      exists b, file_after f w = FDoc (Some b) /\ doc_version b = last_version /\ accepts b = false
  | PPanic => False
  end.

Lemma parse_config_either_or f wr r w :
  parse_config O accepts f wr = (r, w) -> either_or f r w.
Proof.
  intros H. destruct r; cbn [either_or].
  - apply (parse_config_failure _ _ _ _ H); [reflexivity|discriminate].
  - apply (parse_config_failure _ _ _ _ H); [reflexivity|discriminate].
  - apply (parse_config_failure _ _ _ _ H); [reflexivity|discriminate].
  - destruct (parse_config_load_error _ _ _ H) as [->|(b & -> & _ & V & A)]; [now left|].
    right. exists b. auto.
  - now destruct (parse_config_success _ _ _ _ _ H).
  - pose proof (parse_config_no_panic f wr) as NP. rewrite H in NP. now apply NP.
Qed.

(** ** A second start after a success performs no upgrade and no write *)

Lemma parse_config_second_run_noop f wr m up w :
  parse_config O accepts f wr = (PLoaded m up, w) ->
  forall wr2, parse_config O accepts (file_after f w) wr2 = (PLoaded m false, None).
Proof.
  intros H wr2. destruct (parse_config_success _ _ _ _ _ H) as ([F V] & A & U).
  rewrite F. revert H. unfold parse_config at 1, load.
  destruct f as [| |top]; try discriminate.
  destruct (migrate O top last_version) eqn:M; try discriminate.
  - destruct (migrate_same_inv _ M) as (m0 & -> & _). cbn [doc_map].
    destruct (accepts m0) eqn:A0; [|discriminate]. intros [= <- <- <-].
    unfold parse_config, load. rewrite M. cbn [doc_map]. now rewrite A0.
  - destruct wr; [|discriminate].
    destruct (accepts (norm_obj m0)) eqn:A0; [|discriminate]. intros [= <- <- <-].
    unfold parse_config, load. rewrite (migrate_idempotent O _ _ _ M). cbn [doc_map]. now rewrite A0.
Qed.

Lemma parse_twice_after_success f wr1 wr2 m up w :
  parse_config O accepts f wr1 = (PLoaded m up, w) ->
  parse_twice O accepts f wr1 wr2 = (PLoaded m up, PLoaded m false, file_after f w).
Proof.
  intros H. unfold parse_twice. rewrite H, (parse_config_second_run_noop _ _ _ _ _ H wr2). reflexivity.
Qed.

(** ** The write fault matters only when an upgrade is needed, and a start
    that failed on it leaves the next start what a fault-free start finds *)

Lemma parse_config_fault_irrelevant f :
  (forall top m', f = FDoc top -> migrate O top last_version <> ONew m') ->
  parse_config O accepts f false = parse_config O accepts f true.
Proof.
  intros N. unfold parse_config. destruct f as [| |top]; try reflexivity.
  destruct (migrate O top last_version) eqn:M; try reflexivity. now destruct (N top m eq_refl).
Qed.

Lemma parse_config_retry f w :
  parse_config O accepts f false = (PWriteErr, w) ->
  parse_config O accepts (file_after f w) true = parse_config O accepts f true.
Proof.
  intros H. destruct (parse_config_failure _ _ _ _ H) as [_ ->]; [reflexivity|discriminate|reflexivity].
Qed.

(** Without a fault the swallowing variant is the same function. *)
Lemma swallow_same_without_fault f :
  parse_config_swallow O accepts f true = parse_config O accepts f true.
Proof. reflexivity. Qed.

End WithOracles.

(** ** Concrete instances *)

Definition accept_all : obj -> bool := fun _ => true.
Definition accept_none : obj -> bool := fun _ => false.

(** Upgrade needed, write-back succeeds: loaded and written are one document of version 29. *)
Example parse_upgrades_doc22 :
  exists b, parse_config oracles0 accept_all (FDoc (Some doc22)) true = (PLoaded b true, Some b) /\
            get "schema_version" b = Some (VInt 29) /\ doc_version doc22 = 22.
Proof. eexists. split; [vm_compute; reflexivity|]. split; reflexivity. Qed.

(** Upgrade needed, write-back fails: an error and nothing written. *)
Example parse_write_fault_doc22 :
  parse_config oracles0 accept_all (FDoc (Some doc22)) false = (PWriteErr, None).
Proof. vm_compute. reflexivity. Qed.

(** The loader refusing the upgraded document: an error with the new body in the file. *)
Example parse_load_error_doc22 :
  exists b, parse_config oracles0 accept_none (FDoc (Some doc22)) true = (PLoadErr, Some b) /\
            doc_version b = 29.
Proof. eexists. split; [vm_compute; reflexivity|]. vm_compute. reflexivity. Qed.

(** No upgrade needed: the write outcome is not consulted. *)
Example parse_current_doc :
  parse_config oracles0 accept_all (FDoc (Some [("schema_version", VInt 29)])) false
  = (PLoaded [("schema_version", VInt 29)] false, None).
Proof. vm_compute. reflexivity. Qed.

Example parse_failures :
  parse_config oracles0 accept_all FUnreadable true = (PReadErr, None) /\
  parse_config oracles0 accept_all FGarbage true = (PMigrateErr, None) /\
  parse_config oracles0 accept_all (FDoc (Some [("schema_version", VInt 10); ("rlimit_nofile", VStr "x")])) true
    = (PMigrateErr, None).
Proof. repeat split. Qed.

Lemma parse_outcomes :
  (exists b, parse_config oracles0 accept_all (FDoc (Some doc22)) true = (PLoaded b true, Some b) /\
             get "schema_version" b = Some (VInt 29) /\ doc_version doc22 = 22) /\
  parse_config oracles0 accept_all (FDoc (Some doc22)) false = (PWriteErr, None) /\
  (exists b, parse_config oracles0 accept_none (FDoc (Some doc22)) true = (PLoadErr, Some b) /\ doc_version b = 29) /\
  parse_config oracles0 accept_all (FDoc (Some [("schema_version", VInt 29)])) false
    = (PLoaded [("schema_version", VInt 29)] false, None) /\
  parse_config oracles0 accept_all FUnreadable true = (PReadErr, None) /\
  parse_config oracles0 accept_all FGarbage true = (PMigrateErr, None).
Proof.
  exact (conj parse_upgrades_doc22 (conj parse_write_fault_doc22 (conj parse_load_error_doc22
        (conj parse_current_doc (conj (proj1 parse_failures) (proj1 (proj2 parse_failures))))))).
Qed.

(** ** Refuted: swallowing the write error (seeded change C13-J).  Witness: a
    version-22 document, the write-back fails: success is reported, a
    version-29 document is loaded, the file still is the version-22 document,
    and the next start upgrades again. *)
Definition swallow_breaks_either_or : Prop :=
  exists O accepts f r w,
    parse_config_swallow O accepts f false = (r, w) /\
    (exists m, r = PLoaded m true /\ doc_version m = last_version) /\
    file_after f w = f /\
    (forall m, f = FDoc (Some m) -> doc_version m <> last_version) /\
    (exists m', fst (parse_config_swallow O accepts (file_after f w) true) = PLoaded m' true).

Lemma swallowed_write_error_refuted : swallow_breaks_either_or.
Proof.
  exists oracles0, accept_all, (FDoc (Some doc22)).
  eexists. exists None. split; [vm_compute; reflexivity|].
  split; [eexists; split; [reflexivity|vm_compute; reflexivity]|].
  split; [reflexivity|]. split.
  - intros m [= <-]. vm_compute. discriminate.
  - eexists. vm_compute. reflexivity.
Qed.

(** So the swallowing variant does not satisfy [either_or]. *)
Lemma swallow_not_either_or :
  ~ (forall O accepts f wr r w, parse_config_swallow O accepts f wr = (r, w) -> either_or accepts f r w).
Proof.
  intros H.
  destruct swallowed_write_error_refuted as (O & acc & f & r & w & P & (m & -> & V) & F & N & _).
  specialize (H _ _ _ _ _ _ P). cbn [either_or] in H. destruct H as [E _].
  rewrite F in E. exact (N m E V).
Qed.

(** C15, round 7: the stored form is the normal form of the WHOLE delivered
    body.  [OBody d re] is what the reader of the list hands to the parser;
    the theorems about it ([update_one_cases], C15_written_is_normal_form) say
    "stored = output of the parse of [d]".  Whether [d] is all the source has
    delivered is a property of the reader that [updateIntl] builds around the
    response body or the file.  Here: the clause as a statement about that
    reader, true for the reader of the code (none in between) and for a
    limiting reader that ends in an ERROR at its limit (golibs
    ioutil.LimitReader; C14 models both kinds in Model/SaveLoop.v and shows
    the erroring one faithful: C14_err_limit_faithful), false for a reader that
    ends in a plain EOF at its limit (io.LimitReader): the body is cut
    silently, the prefix parses, and the normal form of the prefix -- its last
    line a fragment nobody has served -- is stored as a successful refresh. *)
From Coq Require Import NArith List Bool Lia.
From AGH Require Import Base.Run Model.RuleListParser Model.Refresh Proofs.RuleListParser Proofs.RuleListWrite
  Proofs.Refresh.
Import ListNotations.
Local Open Scope N_scope.

(** A reader in between that passes [limit] bytes and then reports a plain
    end of input. *)
Definition eof_limiting (limit : N) (o : outcome) : outcome :=
  match o with
  | OBody d re => if lenN d <=? limit then OBody d re else OBody (take limit d) false
  | _ => o
  end.

(** ... and one that reports an error there. *)
Definition err_limiting (limit : N) (o : outcome) : outcome :=
  match o with
  | OBody d re => if lenN d <=? limit then OBody d re else OBody (take limit d) true
  | _ => o
  end.

(** The source delivers the list text [d] completely.  Whatever the update
    through the reader [rd] does, the list's file is afterwards what it was or
    the normal form of the whole of [d]. *)
Definition whole_body_statement (crc : N -> bytes -> N) (rd : outcome -> outcome) : Prop :=
  forall l d st fs,
    parse crc d false = (st, None) ->
    let fs' := snd (update_one crc l (rd (OBody d false)) fs) in
    fs' = fs \/ (fget (f_id l) fs' = Some (output st) /\
                 u_list (fst (update_one crc l (rd (OBody d false)) fs)) = filled l st).

Theorem whole_body_stored crc : whole_body_statement crc (fun o => o).
Proof.
  intros l d st fs P. cbn beta. unfold update_one. rewrite P.
  destruct (p_sum st =? f_sum l); cbn [fst snd u_list]; [now left|right].
  split; [apply fget_fset_eq|reflexivity].
Qed.

Theorem whole_body_stored_err_limit crc limit : whole_body_statement crc (err_limiting limit).
Proof.
  intros l d st fs P. unfold err_limiting. destruct (lenN d <=? limit).
  - exact (whole_body_stored crc l d st fs P).
  - left. rewrite update_one_failed; [reflexivity|apply cut_body_fails].
Qed.

Module Truncated.
  Import RExamples.
  Definition body : bytes := good ++ good2.                (* ||p1^ LF ||p2^ LF, 12 bytes *)
  Definition l0 : flist := mk 1.
  Definition cut := update_one crc32_update l0 (eof_limiting 9 (OBody body false)) [].
End Truncated.

(** With a limit of 9 bytes the 12-byte text is stored as two rules, the
    second one the fragment [||p]; the update counts as successful. *)
Example eof_limit_example :
  snd (parse crc32_update Truncated.body false) = None /\
  output (fst (parse crc32_update Truncated.body false)) = Truncated.body /\
  u_updated (fst Truncated.cut) = true /\ u_err (fst Truncated.cut) = false /\
  f_count (u_list (fst Truncated.cut)) = 2 /\
  fget 1 (snd Truncated.cut) = Some (RExamples.good ++ [124;124;112;10]).
Proof. vm_compute. repeat split; congruence. Qed.

Theorem whole_body_eof_limit_refuted : ~ whole_body_statement crc32_update (eof_limiting 9).
Proof.
  intros H.
  specialize (H Truncated.l0 Truncated.body (fst (parse crc32_update Truncated.body false)) []).
  cbv zeta in H. fold Truncated.cut in H.
  destruct H as [E|[E _]]; [vm_compute; reflexivity| |].
  - apply (f_equal (fget 1)) in E. revert E. vm_compute. discriminate.
  - revert E. vm_compute. intros E. discriminate E.
Qed.

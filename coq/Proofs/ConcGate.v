(** C05, round 4: what a deadlocked state of the lock machine looks like, for
    the gate-lock criterion (Proofs/LockTableGate.v).

    [ranked_no_deadlock] (Proofs/Conc.v) asks for ONE ranking that every nested
    acquisition of every thread respects.  A lock-order cycle that is kept
    harmless by a gate (a lock held around both opposite orders, exclusively by
    one side) has no such ranking.  Two facts about a single state replace it:

    - [deadlock_needs_descent]: in a deadlocked state, for ANY ranking some
      unfinished thread is blocked in an acquisition that does not ascend from
      everything it holds (the ranking may be chosen after looking at the
      state);
    - [its_pair]: the lock sets of two distinct threads of one reachable state
      never conflict (no common lock that one of them holds in write mode).

    Both are stated over the ghost lock sets of the invariant of Proofs/Conc.v. *)
From Coq Require Import List String Bool Arith Lia PeanoNat.
From AGH Require Import Base.Conc Proofs.Conc.
Import ListNotations.
Local Open Scope string_scope.
Local Open Scope list_scope.
Local Open Scope nat_scope.

Definition is_w (m : mode) : bool := match m with W => true | R => false end.

(** Two lock sets conflict: a common lock, held in write mode in at least one
    of them.  (Two threads cannot be in that situation at the same time.) *)
Definition conflicts (h1 h2 : held) : bool :=
  existsb (fun y => existsb (fun z => String.eqb (fst y) (fst z) && (is_w (snd y) || is_w (snd z))) h2) h1.

(** acquiring [l] while holding [h] goes strictly up in [rank] *)
Definition ascending (rank : lock -> nat) (h : held) (l : lock) : bool :=
  forallb (fun y => rank (fst y) <? rank l) h.

Lemma conflicts_sym : forall h1 h2, conflicts h1 h2 = conflicts h2 h1.
Proof.
  assert (H : forall h1 h2, conflicts h1 h2 = true -> conflicts h2 h1 = true).
  { intros h1 h2 H. unfold conflicts in *.
    apply existsb_exists in H as (y & Hy & H). apply existsb_exists in H as (z & Hz & H).
    apply existsb_exists. exists z. split; [exact Hz|].
    apply existsb_exists. exists y. split; [exact Hy|].
    apply andb_true_iff in H as [E Hw]. rewrite String.eqb_sym, E, orb_comm, Hw. reflexivity. }
  intros h1 h2. destruct (conflicts h1 h2) eqn:E1, (conflicts h2 h1) eqn:E2; try reflexivity.
  - apply H in E1. congruence.
  - apply H in E2. congruence.
Qed.

Lemma conflicts_mono : forall a b a' b',
  (forall x, In x a -> In x a') -> (forall x, In x b -> In x b') ->
  conflicts a b = true -> conflicts a' b' = true.
Proof.
  intros a b a' b' Ha Hb H. unfold conflicts in *.
  apply existsb_exists in H as (y & Hy & H). apply existsb_exists in H as (z & Hz & H).
  apply existsb_exists. exists y. split; [apply Ha; exact Hy|].
  apply existsb_exists. exists z. split; [apply Hb; exact Hz|exact H].
Qed.

Lemma ascending_mono : forall rank a b l,
  (forall x, In x b -> In x a) -> ascending rank a l = true -> ascending rank b l = true.
Proof.
  intros rank a b l Hs H. unfold ascending in *. rewrite forallb_forall in *.
  intros x Hx. apply H. apply Hs. exact Hx.
Qed.

Lemma In_cnt : forall x h, In x h -> 1 <= cnt x h.
Proof.
  intros x h; induction h as [|y h IH]; [intros []|].
  intros [->|H]; cbn [cnt].
  - rewrite lm_eqb_refl. lia.
  - apply IH in H. lia.
Qed.

(** a conflict, in the counting terms of the invariant *)
Lemma conflicts_cnt : forall h1 h2, conflicts h1 h2 = true ->
  exists g,
    (1 <= cnt (g, W) h1 /\ 1 <= cnt (g, W) h2 + cnt (g, R) h2) \/
    (1 <= cnt (g, W) h2 /\ 1 <= cnt (g, W) h1 + cnt (g, R) h1).
Proof.
  intros h1 h2 H. unfold conflicts in H.
  apply existsb_exists in H as ([g my] & Hy & H). apply existsb_exists in H as ([g' mz] & Hz & H).
  cbn [fst snd] in H. apply andb_true_iff in H as [E Hw].
  apply String.eqb_eq in E. subst g'.
  apply In_cnt in Hy. apply In_cnt in Hz. exists g.
  unfold lock in *.
  destruct my, mz; cbn in Hw; try discriminate.
  - right. split; lia.
  - left. split; lia.
  - left. split; lia.
Qed.

(** * Two distinct threads of one state *)

Lemma its_two : forall (s : state) (its : list ithread),
  (forall l, lockok (locks s l) (total (l, W) its) (total (l, R) its) (ptotal l its)) ->
  forall i1 a i2 b i3, its = i1 ++ a :: i2 ++ b :: i3 ->
  conflicts (fst a) (fst b) = false.
Proof.
  intros s its HL i1 a i2 b i3 ->.
  destruct (conflicts (fst a) (fst b)) eqn:E; [exfalso|reflexivity].
  apply conflicts_cnt in E as (g & E). specialize (HL g).
  rewrite !total_app in HL; simpl in HL; rewrite !total_app in HL; simpl in HL.
  destruct HL as (Hwt & Hwf & Hx & _ & _).
  destruct (writer (locks s g)).
  - specialize (Hwt eq_refl). destruct E as [[A B]|[A B]]; lia.
  - specialize (Hwf eq_refl). destruct E as [[A B]|[A B]]; lia.
Qed.

(** Two threads of a state (given with their ghost lock sets) are the same
    entry or hold nothing that conflicts. *)
Lemma its_pair : forall (s : state) (its : list ithread),
  (forall l, lockok (locks s l) (total (l, W) its) (total (l, R) its) (ptotal l its)) ->
  forall a b, In a its -> In b its -> a = b \/ conflicts (fst a) (fst b) = false.
Proof.
  intros s its HL a b Ha Hb.
  apply in_split in Ha as (l1 & l2 & ->).
  apply in_app_or in Hb as [Hb|[Hb|Hb]].
  - right. apply in_split in Hb as (x & y & ->).
    rewrite conflicts_sym.
    apply (its_two s _ HL x b y a l2). rewrite <- app_assoc. reflexivity.
  - left. exact Hb.
  - right. apply in_split in Hb as (x & y & ->).
    apply (its_two s _ HL l1 a x b y). reflexivity.
Qed.

(** * A deadlocked state contains a descent, whatever the ranking *)

Section Descent.

Variable P : held -> list event -> Prop.
Hypothesis P_nil : forall h, P h [] -> h = [].

(** In a deadlocked state every unfinished thread is blocked in an acquisition
    of a lock that another unfinished thread holds (for a reader kept out by a
    pending writer: the thread that keeps that writer out). *)
Lemma deadlock_waits :
  forall (s : state) (its : list ithread),
    map snd its = threads s ->
    Forall (fun it => P (fst it) (rest (snd it)) /\ ann_ok (snd it)) its ->
    (forall l, lockok (locks s l) (total (l, W) its) (total (l, R) its) (ptotal l its)) ->
    deadlocked s ->
    (exists it, In it its /\ rest (snd it) <> []) /\
    forall it, In it its -> rest (snd it) <> [] ->
      exists l m r it', rest (snd it) = Acq l m :: r /\
        In it' its /\ rest (snd it') <> [] /\ holds (fst it') l = true.
Proof.
  intros s its Hm HFi HL [(th0 & Hin0 & Hne0) Hblocked].
  rewrite Forall_forall in HFi.
  assert (Hholder : forall l,
             writer (locks s l) = true \/ readers (locks s l) <> 0 ->
             exists it, In it its /\ holds (fst it) l = true).
  { intros l H. destruct (HL l) as (Hwt & _ & _ & Hrd & _). destruct H as [H|H].
    - destruct (total_pos (l, W) its) as (it & Hin & Hc); [rewrite (Hwt H); lia|].
      exists it; split; [assumption|]. eapply cnt_holds; eassumption.
    - destruct (total_pos (l, R) its) as (it & Hin & Hc); [lia|].
      exists it; split; [assumption|]. eapply cnt_holds; eassumption. }
  assert (Hthr : forall it, In it its -> In (snd it) (threads s)).
  { intros it Hin. rewrite <- Hm. apply in_map; assumption. }
  assert (Hhead : forall it, In it its -> rest (snd it) <> [] ->
             exists l m r, rest (snd it) = Acq l m :: r /\
               exists it', In it' its /\ holds (fst it') l = true).
  { intros it Hin Hne.
    pose proof (Hblocked _ (Hthr it Hin) Hne) as Hb. unfold can_step in Hb.
    destruct (HFi _ Hin) as [_ Ha].
    destruct it as [h [a p]]; simpl in *.
    destruct a.
    - destruct (Ha eq_refl) as (l & r & Ep); simpl in Ep; subst p.
      exists l, W, r; split; [reflexivity|]. apply Hholder.
      destruct (writer (locks s l)) eqn:Ew; [left; reflexivity|].
      right; intros Hr0. apply Hb. do 2 eexists. apply ts_acq_w; assumption.
    - destruct p as [|[l m|l m|f|f] r]; [congruence| |exfalso..].
      + destruct m.
        * exists l, R, r; split; [reflexivity|].
          destruct (writer (locks s l)) eqn:Ew; [apply Hholder; left; assumption|].
          destruct (pending (locks s l)) eqn:Ep.
          { exfalso; apply Hb. do 2 eexists. apply ts_acq_r; assumption. }
          destruct (HL l) as (_ & _ & _ & _ & Hpd).
          destruct (ptotal_pos l its) as (it' & Hin' & Hw); [lia|].
          pose proof (Hblocked _ (Hthr it' Hin')) as Hb'.
          destruct it' as [h' [a' p']]; unfold waits_w in Hw; simpl in *.
          apply andb_true_iff in Hw as [-> Hw].
          destruct p' as [|[l' [|]| | |] r']; try discriminate.
          apply String.eqb_eq in Hw; subst l'.
          apply Hholder. right; intros Hr0. apply Hb'; [discriminate|].
          do 2 eexists. apply ts_acq_w; assumption.
        * exfalso; apply Hb. do 2 eexists. apply ts_announce.
      + apply Hb. destruct m; do 2 eexists; constructor.
      + apply Hb. do 2 eexists. constructor.
      + apply Hb. do 2 eexists. constructor. }
  split.
  - rewrite <- Hm in Hin0. apply in_map_iff in Hin0 as (it0 & E0 & Hin0).
    exists it0. split; [exact Hin0|]. rewrite E0. exact Hne0.
  - intros it Hin Hne.
    destruct (Hhead it Hin Hne) as (l & m & r & Hrest & it' & Hin' & Hh).
    exists l, m, r, it'. split; [exact Hrest|]. split; [exact Hin'|]. split; [|exact Hh].
    destruct (HFi _ Hin') as [HP' _].
    intros E'. rewrite E' in HP'. apply P_nil in HP'. rewrite HP' in Hh. discriminate.
Qed.

Lemma deadlock_needs_descent :
  forall (s : state) (its : list ithread),
    map snd its = threads s ->
    Forall (fun it => P (fst it) (rest (snd it)) /\ ann_ok (snd it)) its ->
    (forall l, lockok (locks s l) (total (l, W) its) (total (l, R) its) (ptotal l its)) ->
    deadlocked s ->
    forall rank : lock -> nat,
    exists it l m r,
      In it its /\ rest (snd it) = Acq l m :: r /\ ascending rank (fst it) l = false.
Proof.
  intros s its Hm HFi HL [(th0 & Hin0 & Hne0) Hblocked] rank.
  set (bad := fun it : ithread =>
                match rest (snd it) with
                | Acq l _ :: _ => negb (ascending rank (fst it) l)
                | _ => false
                end).
  destruct (existsb bad its) eqn:E.
  { apply existsb_exists in E as (it & Hin & Hb). unfold bad in Hb.
    destruct (rest (snd it)) as [|[l m|l m|f|f] r] eqn:Er; try discriminate.
    exists it, l, m, r. split; [exact Hin|]. split; [exact Er|].
    apply negb_true_iff in Hb. exact Hb. }
  exfalso.
  assert (Hgood : forall it l m r, In it its -> rest (snd it) = Acq l m :: r ->
                                   ascending rank (fst it) l = true).
  { intros it l m r Hin Hr. destruct (ascending rank (fst it) l) eqn:A; [reflexivity|].
    assert (X : existsb bad its = true).
    { apply existsb_exists. exists it. split; [exact Hin|]. unfold bad. rewrite Hr, A. reflexivity. }
    congruence. }
  rewrite Forall_forall in HFi.
  (* a mutex whose counters are busy has a ghost holder *)
  assert (Hholder : forall l,
             writer (locks s l) = true \/ readers (locks s l) <> 0 ->
             exists it, In it its /\ holds (fst it) l = true).
  { intros l H. destruct (HL l) as (Hwt & _ & _ & Hrd & _). destruct H as [H|H].
    - destruct (total_pos (l, W) its) as (it & Hin & Hc); [rewrite (Hwt H); lia|].
      exists it; split; [assumption|]. eapply cnt_holds; eassumption.
    - destruct (total_pos (l, R) its) as (it & Hin & Hc); [lia|].
      exists it; split; [assumption|]. eapply cnt_holds; eassumption. }
  assert (Hthr : forall it, In it its -> In (snd it) (threads s)).
  { intros it Hin. rewrite <- Hm. apply in_map; assumption. }
  (* every unfinished thread waits for a lock that somebody holds *)
  assert (Hhead : forall it, In it its -> rest (snd it) <> [] ->
             exists l m r, rest (snd it) = Acq l m :: r /\
               exists it', In it' its /\ holds (fst it') l = true).
  { intros it Hin Hne.
    pose proof (Hblocked _ (Hthr it Hin) Hne) as Hb. unfold can_step in Hb.
    destruct (HFi _ Hin) as [_ Ha].
    destruct it as [h [a p]]; simpl in *.
    destruct a.
    - destruct (Ha eq_refl) as (l & r & Ep); simpl in Ep; subst p.
      exists l, W, r; split; [reflexivity|]. apply Hholder.
      destruct (writer (locks s l)) eqn:Ew; [left; reflexivity|].
      right; intros Hr0. apply Hb. do 2 eexists. apply ts_acq_w; assumption.
    - destruct p as [|[l m|l m|f|f] r]; [congruence| |exfalso..].
      + destruct m.
        * exists l, R, r; split; [reflexivity|].
          destruct (writer (locks s l)) eqn:Ew; [apply Hholder; left; assumption|].
          destruct (pending (locks s l)) eqn:Ep.
          { exfalso; apply Hb. do 2 eexists. apply ts_acq_r; assumption. }
          destruct (HL l) as (_ & _ & _ & _ & Hpd).
          destruct (ptotal_pos l its) as (it' & Hin' & Hw); [lia|].
          pose proof (Hblocked _ (Hthr it' Hin')) as Hb'.
          destruct it' as [h' [a' p']]; unfold waits_w in Hw; simpl in *.
          apply andb_true_iff in Hw as [-> Hw].
          destruct p' as [|[l' [|]| | |] r']; try discriminate.
          apply String.eqb_eq in Hw; subst l'.
          apply Hholder. right; intros Hr0. apply Hb'; [discriminate|].
          do 2 eexists. apply ts_acq_w; assumption.
        * exfalso; apply Hb. do 2 eexists. apply ts_announce.
      + apply Hb. destruct m; do 2 eexists; constructor.
      + apply Hb. do 2 eexists. constructor.
      + apply Hb. do 2 eexists. constructor. }
  (* so the ranks of awaited locks would ascend forever *)
  rewrite <- Hm in Hin0. apply in_map_iff in Hin0 as (it0 & <- & Hin0).
  apply (no_ascent ithread (fun it => hrank rank (snd it))
           (fun it => rest (snd it) <> []) its) with (x := it0);
    [|assumption|assumption].
  intros it Hin Hne.
  destruct (Hhead it Hin Hne) as (l & m & r & Hrest & it' & Hin' & Hh).
  destruct (HFi _ Hin') as [HP' _].
  assert (Hne' : rest (snd it') <> []).
  { intros E'. rewrite E' in HP'. apply P_nil in HP'.
    rewrite HP' in Hh. discriminate. }
  destruct (Hhead it' Hin' Hne') as (l' & m' & r' & Hrest' & _).
  exists it'; split; [assumption|]; split; [assumption|].
  unfold hrank; rewrite Hrest, Hrest'.
  pose proof (Hgood it' l' m' r' Hin' Hrest') as Hall.
  unfold ascending in Hall. rewrite forallb_forall in Hall.
  apply holds_In in Hh as [m0 Hm0]. apply Hall in Hm0; simpl in Hm0.
  apply Nat.ltb_lt; assumption.
Qed.

End Descent.

(** Not vacuous: the two lock sets of the ABBA deadlock conflict with nothing
    (so no gate excludes it), and a common gate held exclusively by one side
    is a conflict. *)
Example conflicts_examples :
  conflicts [("a", W)] [("b", W)] = false /\
  conflicts [("g", R); ("a", W)] [("g", R); ("b", W)] = false /\
  conflicts [("g", W); ("a", W)] [("g", R); ("b", W)] = true.
Proof. repeat split. Qed.

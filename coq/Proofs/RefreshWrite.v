(** C15, round 4: a refresh whose pending file does not take what the parser
    writes into it -- wherever the limit lies -- is a no-op on the list's
    file, its metadata and the rules in force, after every history. *)
From Coq Require Import NArith List Bool Lia.
From AGH Require Import Base.Run Model.RuleListParser Model.Refresh Proofs.RuleListParser Proofs.RuleListWrite
  Proofs.Refresh Proofs.RefreshEngine.
Import ListNotations.
Local Open Scope N_scope.

Section Write.
  Variable crc : N -> bytes -> N.

  (** The write to the pending file of list [i] fails in this pass: the limit
      lies before the end of what the parser would write (it may be zero, in
      the middle of a line, at a line boundary, the last byte), or the body
      fails anyway. *)
  Definition write_fails_in (oc : N -> outcome) (i : N) : Prop :=
    exists d re cap, oc i = OWriteFail d re cap /\ cap < p_written (fst (parse crc d re)).

  Lemma write_fails_in_fails oc i : write_fails_in oc i -> fails crc (oc i).
  Proof. intros (d & re & cap & -> & H). now apply write_failure_fails. Qed.

  (** After any history of refreshes (write failures among their outcomes),
      set_url calls and rebuilds: in a pass where other lists may be updated,
      the list whose pending file fails keeps its file (the same bytes, the
      same generation: not replaced), its entry (URL, name, enabled flag, rule
      count, checksum) and, the engine having been in step with the files, the
      text in force for it. *)
  Theorem failed_write_is_noop hs st0 i b a force due oc :
    let st := run_hist crc hs st0 in
    write_fails_in oc i ->
    let st' := refresh crc b a force due oc st in
    fentry i (r_files st') = fentry i (r_files st) /\
    (forall k l, nth_error (r_block st) k = Some l -> f_id l = i -> nth_error (r_block st') k = Some l) /\
    (forall k l, nth_error (r_allow st) k = Some l -> f_id l = i -> nth_error (r_allow st') k = Some l) /\
    (engine_consistent st -> in_force (r_engine st') i = in_force (r_engine st) i).
  Proof.
    intros st W st'. apply write_fails_in_fails in W.
    destruct (refresh_failed_list_noop crc i b a force due oc st W) as (A & B & C).
    repeat split; auto. intros Hc. now apply refresh_failed_list_in_force.
  Qed.

  (** A pass in which the pending file of every list fails (one file-size
      limit, one full disk for all of them) changes nothing at all: files,
      entries, engine. *)
  Theorem failed_write_pass_is_noop hs st0 b a force due oc :
    let st := run_hist crc hs st0 in
    (forall l, In l (r_block st ++ r_allow st) -> write_fails_in oc (f_id l)) ->
    refresh crc b a force due oc st = st.
  Proof.
    intros st H. apply refresh_all_failed_noop. intros l Hl. apply write_fails_in_fails. auto.
  Qed.

  (** The same for the download a set_url call starts (enabling a disabled
      list, or a new URL that no list has): an error, and the whole state as
      it was. *)
  Theorem failed_write_set_is_noop hs st0 allow u name nurl pre f post d re cap :
    let st := run_hist crc hs st0 in
    arr allow st = pre ++ f :: post -> Forall (other_url u) pre -> f_url f = u ->
    (nurl = u /\ f_enabled f = false) \/ (nurl <> u /\ url_used nurl st = false) ->
    cap < p_written (fst (parse crc d re)) ->
    set_props crc allow u name nurl true (OWriteFail d re cap) st = (false, true, st).
  Proof.
    intros st Ha Hp Hu [[-> En]|[Nu Us]] H.
    - eapply failed_enable_is_noop; eauto. now apply write_failure_fails.
    - eapply failed_url_change_is_noop; eauto. now apply write_failure_fails.
  Qed.

  (** With room for everything the parser writes, the limit is not seen: the
      pass is that of the same bodies without a limit. *)
  Lemma update_all_roomy oc oc' : forall ls fs,
    (forall l, In l ls -> oc (f_id l) = oc' (f_id l) \/
       exists d re cap, oc (f_id l) = OWriteFail d re cap /\ oc' (f_id l) = OBody d re /\
                        p_written (fst (parse crc d re)) <= cap) ->
    update_all crc ls oc fs = update_all crc ls oc' fs.
  Proof.
    induction ls as [|l ls IH]; intros fs H; [reflexivity|]. cbn [update_all].
    assert (E : update_one crc l (oc (f_id l)) fs = update_one crc l (oc' (f_id l)) fs).
    { destruct (H l (or_introl eq_refl)) as [->|(d & re & cap & -> & -> & L)]; [reflexivity|].
      apply update_one_delivers. right. eauto. }
    rewrite E. destruct (update_one crc l (oc' (f_id l)) fs) as [u fs1]. rewrite IH; auto.
    intros; apply H; now right.
  Qed.
End Write.

(** Non-vacuity: [st1] has list 1 stored (6 bytes, ||p1^).  The source now
    delivers ||p2^ (6 bytes in normal form); with a pending file that takes
    0, 3 or 5 bytes the pass fails and changes nothing, with 6 it is the pass
    of the body without a limit and the file is replaced. *)
Example failed_write_example :
  forallb (fun cap =>
    match parse_w crc32_update cap RExamples.good2 false with (_, Some EWrite, _) => true | _ => false end)
    [0; 3; 5] = true /\
  (forall cap, In cap [0; 3; 5] ->
     refresh crc32_update true true true RExamples.all (fun _ => OWriteFail RExamples.good2 false cap) RExamples.st1
     = RExamples.st1) /\
  refresh crc32_update true true true RExamples.all (fun _ => OWriteFail RExamples.good2 false 6) RExamples.st1
  = refresh crc32_update true true true RExamples.all (fun _ => OBody RExamples.good2 false) RExamples.st1 /\
  fget 1 (r_files (refresh crc32_update true true true RExamples.all (fun _ => OWriteFail RExamples.good2 false 6) RExamples.st1))
  = Some RExamples.good2.
Proof.
  split; [vm_compute; reflexivity|]. split; [|split; vm_compute; reflexivity].
  intros cap [<-|[<-|[<-|[]]]]; vm_compute; reflexivity.
Qed.

(** The protection switch over histories (Model/Protection.v): whether
    protection is in force at an instant is decided by the LAST accepted
    switch (POST /control/protection, or protection_enabled in POST
    /control/dns_config):

      switched on                      -> in force (a pending pause is cancelled)
      switched off without a duration  -> not in force
      paused until d                   -> in force from d on

    for EVERY history of switches, clock readings (DNS requests, status
    reads) and wake-ups of enableProtectionAfterPause with non-decreasing
    instants, in any interleaving (the goroutine looks at the state again when
    it holds the lock, /repo c1dbdb6; the goroutine as it was before, which
    overrode a switch that landed in its start-up window, is refuted below:
    [late_wake_overrides_switch_refuted]).  The seeded handler that keeps the
    deadline on a re-enable and dns_config's former flag-only setter are
    refuted with their witnesses.  The result is the [protection] input of the
    pipeline ([cfg_at_protection]), so the C01 / C02 theorems read over the
    history. *)
From Coq Require Import List ZArith Bool Lia.
From AGH Require Import Base.Run Base.NetAddr Base.RuleEngine Model.Pipeline Proofs.Pipeline Model.Protection.
From AGH Require Model.Rewrites.
Import ListNotations.
Local Open Scope Z_scope.

(** * The specification: the last switch *)

Inductive switch := SwOn | SwOff | SwPause (deadline : Z).

(** The switch an operation is, if it is one (a request with a duration and
    "enabled": true is refused and is none). *)
Definition switch_of (o : pop) : option switch :=
  match o with
  | PSet now en dur =>
      if set_accepted en dur
      then Some (if 0 <? dur then SwPause (now + dur) else if en then SwOn else SwOff)
      else None
  | PConf en => Some (if en then SwOn else SwOff)
  | PRead _ | PWake _ => None
  end.

Definition last_switch (sw0 : switch) (h : list pop) : switch :=
  fold_left (fun sw o => match switch_of o with Some s => s | None => sw end) h sw0.

(** What the property's "protection on / off / paused" means at an instant. *)
Definition expected (sw : switch) (t : Z) : bool :=
  match sw with SwOn => true | SwOff => false | SwPause d => d <=? t end.

(** The clock does not run backwards: every instant of the history (also the
    one the goroutine reads when it holds the lock) is at least the one before
    it (and the start [T]). *)
Definition instant_of (o : pop) : option Z :=
  match o with PSet now _ _ | PRead now | PWake now => Some now | PConf _ => None end.

Fixpoint ordered (T : Z) (h : list pop) : Prop :=
  match h with
  | [] => True
  | o :: r => match instant_of o with
              | Some t => T <= t /\ ordered t r
              | None => ordered T r
              end
  end.

Fixpoint last_instant (T : Z) (h : list pop) : Z :=
  match h with
  | [] => T
  | o :: r => last_instant (match instant_of o with Some t => t | None => T end) r
  end.

(** * The invariant *)

(** State [s] stands for the switch [sw], all instants so far being <= T
    (whether the goroutine is under way does not matter). *)
Definition agrees (sw : switch) (T : Z) (s : prot) : Prop :=
  match sw with
  | SwOn => pr_flag s = true /\ pr_until s = None
  | SwOff => pr_flag s = false /\ pr_until s = None
  | SwPause d =>
      (pr_flag s = false /\ pr_until s = Some d) \/
      (pr_flag s = true /\ pr_until s = None /\ d <= T)
  end.

Lemma agrees_mono sw T T' s : T <= T' -> agrees sw T s -> agrees sw T' s.
Proof.
  intros L. destruct sw; cbn; auto.
  intros [(F & U) | (F & U & D)]; [left | right]; repeat split; auto; lia.
Qed.

Lemma agrees_in_force sw T s t : T <= t -> agrees sw T s -> in_force t s = expected sw t.
Proof.
  intros L. destruct sw; cbn [agrees expected]; unfold in_force, read.
  - intros (F & ->). exact F.
  - intros (F & ->). exact F.
  - intros [(F & ->) | (F & -> & D)].
    + destruct (Z.ltb_spec t deadline), (Z.leb_spec deadline t); cbn; auto; lia.
    + cbn. rewrite F. symmetry. apply Z.leb_le. lia.
Qed.

Lemma step_switch s o sw' : switch_of o = Some sw' -> forall T, agrees sw' T (step_now s o).
Proof.
  destruct o as [now en dur | en | now | now]; cbn [switch_of]; try discriminate.
  - unfold step_now, prot_step. destruct (set_accepted en dur); [|discriminate].
    intros E T. unfold set_as_written. destruct (0 <? dur).
    + injection E as <-. left. split; reflexivity.
    + destruct en; injection E as <-; split; reflexivity.
  - intros E T. destruct en; injection E as <-; split; reflexivity.
Qed.

Lemma step_no_switch sw T s o :
  switch_of o = None -> agrees sw T s ->
  match instant_of o with Some t => T <= t -> agrees sw t (step_now s o) | None => agrees sw T (step_now s o) end.
Proof.
  destruct o as [now en dur | en | now | now]; cbn [switch_of instant_of]; try discriminate.
  - (* a refused request *)
    unfold step_now, prot_step. destruct (set_accepted en dur); [discriminate|].
    intros _ A L. now apply (agrees_mono _ T).
  - (* a read: at most the goroutine is started *)
    intros _ A L. apply (agrees_mono _ T _ _ L) in A. unfold step_now, prot_step, read.
    destruct (pr_until s) as [d|] eqn:U; [|exact A].
    destruct (now <? d); [exact A|]. cbn [snd].
    destruct sw; cbn [agrees pr_flag pr_until] in *; rewrite ?U in *; exact A.
  - (* the goroutine holds the lock *)
    intros _ A L. unfold step_now, prot_step, wake_as_written.
    destruct (pr_waking s); [|now apply (agrees_mono _ T)].
    destruct (pr_until s) as [d|] eqn:U.
    + destruct (Z.ltb_spec now d).
      * apply (agrees_mono _ T _ _ L) in A.
        destruct sw; cbn [agrees pr_flag pr_until] in *; rewrite ?U in *; exact A.
      * destruct sw; cbn [agrees pr_flag pr_until] in *; rewrite ?U in *.
        -- destruct A; discriminate.
        -- destruct A; discriminate.
        -- destruct A as [(F & E) | (F & E & D)]; [|discriminate].
           injection E as ->. right. repeat split. exact H.
    + apply (agrees_mono _ T _ _ L) in A.
      destruct sw; cbn [agrees pr_flag pr_until] in *; rewrite ?U in *; exact A.
Qed.

Lemma run_now_cons s o h : run_now s (o :: h) = run_now (step_now s o) h.
Proof. reflexivity. Qed.

Lemma last_switch_cons sw o h :
  last_switch sw (o :: h) = last_switch (match switch_of o with Some s => s | None => sw end) h.
Proof. reflexivity. Qed.

Lemma history_agrees h : forall sw T s,
  agrees sw T s -> ordered T h ->
  agrees (last_switch sw h) (last_instant T h) (run_now s h).
Proof.
  induction h as [|o h IH]; intros sw T s A O; [exact A|].
  rewrite run_now_cons, last_switch_cons. cbn [last_instant]. cbn [ordered] in O.
  destruct (switch_of o) as [sw'|] eqn:E.
  - destruct (instant_of o) as [t|]; [destruct O as [_ O]|]; apply IH; auto; now apply step_switch.
  - pose proof (step_no_switch sw T s o E A) as S.
    destruct (instant_of o) as [t|]; [destruct O as [L O]|]; apply IH; auto.
Qed.

Lemma last_instant_ge h : forall T, ordered T h -> T <= last_instant T h.
Proof.
  induction h as [|o h IH]; intros T O; cbn; [lia|].
  cbn in O. destruct (instant_of o) as [t|].
  - destruct O as [L O]. specialize (IH t O). lia.
  - now apply IH.
Qed.

(** * The theorem *)

(** For every history whose instants do not decrease (switches through either
    endpoint, refused requests, reads, wake-ups of the goroutine at any point
    after the read that started it: every interleaving), from any state that
    stands for a switch: at every instant from the end of the history on,
    protection is in force iff the last switch says so. *)
Theorem protection_follows_last_switch sw0 T0 s0 h t :
  agrees sw0 T0 s0 -> ordered T0 h -> last_instant T0 h <= t ->
  in_force t (run_now s0 h) = expected (last_switch sw0 h) t.
Proof.
  intros A O L. eapply agrees_in_force; [exact L|]. now apply history_agrees.
Qed.

(** A server started from its configuration file stands for a switch. *)
Definition switch_of_config (flag : bool) (until : option Z) : switch :=
  match until with Some d => SwPause d | None => if flag then SwOn else SwOff end.

(** ([UpdatedProtectionStatus] does not look at the flag while a deadline is
    set, and [enableProtectionAfterPause] overwrites it: a configuration file
    with a deadline is a pause whatever its flag says; the web API never
    stores a deadline together with a raised flag.) *)
Lemma start_agrees until T : agrees (switch_of_config false until) T (prot_init false until)
                             /\ agrees (switch_of_config true None) T (prot_init true None).
Proof.
  split; [|split; reflexivity]. destruct until as [d|]; cbn; [|split; reflexivity].
  left. split; reflexivity.
Qed.

(** ** Corollaries read off the last switch *)

Lemma last_switch_after sw0 h o rest sw :
  switch_of o = Some sw -> Forall (fun x => switch_of x = None) rest ->
  last_switch sw0 (h ++ o :: rest) = sw.
Proof.
  intros E R. unfold last_switch. rewrite fold_left_app. cbn [fold_left]. rewrite E.
  set (f := fun sw x => match switch_of x with Some s => s | None => sw end).
  revert sw E. induction R as [|x l Hx R IH]; intros sw E; [reflexivity|].
  cbn [fold_left]. unfold f at 2. rewrite Hx. now apply IH.
Qed.

(** An accepted {"enabled": true} (either endpoint) puts protection in force
    at once and for good, whatever pause preceded it, until the next switch. *)
Theorem reenable_cancels_pause sw0 T0 s0 h o rest t :
  agrees sw0 T0 s0 -> ordered T0 (h ++ o :: rest) ->
  switch_of o = Some SwOn -> Forall (fun x => switch_of x = None) rest ->
  last_instant T0 (h ++ o :: rest) <= t ->
  in_force t (run_now s0 (h ++ o :: rest)) = true.
Proof.
  intros A O E R L. rewrite (protection_follows_last_switch sw0 T0); auto.
  now rewrite (last_switch_after sw0 h o rest SwOn).
Qed.

(** A pause holds until its deadline and ends there by itself. *)
Theorem pause_in_force_from_deadline sw0 T0 s0 h o rest d t :
  agrees sw0 T0 s0 -> ordered T0 (h ++ o :: rest) ->
  switch_of o = Some (SwPause d) -> Forall (fun x => switch_of x = None) rest ->
  last_instant T0 (h ++ o :: rest) <= t ->
  in_force t (run_now s0 (h ++ o :: rest)) = (d <=? t).
Proof.
  intros A O E R L. rewrite (protection_follows_last_switch sw0 T0); auto.
  now rewrite (last_switch_after sw0 h o rest (SwPause d)).
Qed.

(** A refused request ("enabled": true with a duration) changes nothing. *)
Theorem refused_request_changes_nothing s now dur : 0 < dur -> step_now s (PSet now true dur) = s.
Proof.
  intros D. unfold step_now, prot_step, set_accepted. destruct (Z.ltb_spec 0 dur); [reflexivity | lia].
Qed.

(** * The tie to the pipeline *)

(** What the request reads is what the state machine yields. *)
Theorem cfg_at_protection c s now : protection_on (cfg_at c s now) = in_force now s.
Proof.
  unfold protection_on, cfg_at, in_force, read. cbn [c_prot_deadline c_prot_enabled].
  destruct (pr_until s) as [d|]; cbn; [|reflexivity]. destruct (now <? d); reflexivity.
Qed.

Section Compose.
  Variable allow_eng block_eng : ufreq -> dnsresult * bool.
  Variable sb_oracle par_oracle : bytes -> bool.
  Variable ss_oracle : bytes -> N -> option ssverdict.
  Variable rw_sort : list Rewrites.entry -> list Rewrites.entry.

  Notation process := (process allow_eng block_eng sb_oracle par_oracle ss_oracle rw_sort).
  Notation blocked_by_spec := (blocked_by_spec allow_eng block_eng rw_sort).
  Notation response_filtering_applies := (response_filtering_applies allow_eng block_eng sb_oracle par_oracle ss_oracle rw_sort).
  Notation verdict := (verdict allow_eng block_eng sb_oracle par_oracle ss_oracle rw_sort).

  (** The configuration a request sees at the instant [t] after the history. *)
  Definition cfg_after (c : cfg) (s0 : prot) (h : list pop) (t : Z) : cfg := cfg_at c (run_now s0 h) t.

  Theorem protection_after_history c sw0 T0 s0 h t :
    agrees sw0 T0 s0 -> ordered T0 h -> last_instant T0 h <= t ->
    protection_on (cfg_after c s0 h t) = expected (last_switch sw0 h) t.
  Proof. intros. unfold cfg_after. rewrite cfg_at_protection. now apply (protection_follows_last_switch sw0 T0). Qed.

  (** C01 over the history: the last switch says "in force" (switched on,
      whatever pause preceded; or a pause that has run out) and the other
      premises of C01_blocked_is_local hold in the configuration the request
      sees ==> answered locally with the synthetic answer, nothing upstream. *)
  Theorem blocked_is_local_after_history c sw0 T0 s0 h t up q :
    agrees sw0 T0 s0 -> ordered T0 h -> last_instant T0 h <= t ->
    expected (last_switch sw0 h) t = true ->
    (protection_on (cfg_after c s0 h t) = true -> blocked_by_spec (cfg_after c s0 h t) q) ->
    let c' := cfg_after c s0 h t in
    let o := process c' up q in
    o_calls o = [] /\
    r_filtered (o_result o) = true /\ rule_reason (r_reason (o_result o)) /\
    o_resp o = Some (synthetic c' (q_name q) (q_qtype q) (ips_from_rules (o_result o))) /\
    o_qname o = q_name q.
  Proof.
    intros A O L E B. cbv zeta. apply blocked_is_local. apply B.
    rewrite (protection_after_history c sw0 T0); auto.
  Qed.

  (** ... and when the last switch says "not in force" (switched off, or a
      pause still running) nothing is blocked. *)
  Theorem nothing_blocked_while_off c sw0 T0 s0 h t q res :
    agrees sw0 T0 s0 -> ordered T0 h -> last_instant T0 h <= t ->
    expected (last_switch sw0 h) t = false ->
    verdict (cfg_after c s0 h t) q = Some res ->
    r_filtered res = false /\
    (r_reason res = NotFilteredNotFound \/ r_reason res = RewrittenLegacy \/
     r_reason res = RewrittenAutoHosts \/ r_reason res = RewrittenRule).
  Proof.
    intros A O L E V. eapply protection_off_blocks_nothing; [|exact V].
    rewrite (protection_after_history c sw0 T0); auto.
  Qed.

  (** C02 over the history: response filtering applies iff the request stage
      passed, the last switch says "in force" and the client's filtering is
      on. *)
  Theorem response_filtering_after_history c sw0 T0 s0 h t q :
    agrees sw0 T0 s0 -> ordered T0 h -> last_instant T0 h <= t ->
    let c' := cfg_after c s0 h t in
    response_filtering_applies c' q <->
    (passes_request_stage allow_eng block_eng sb_oracle par_oracle ss_oracle rw_sort c' q no_result /\
     expected (last_switch sw0 h) t = true /\ st_filtering (request_settings c' q) = true).
  Proof.
    intros A O L. cbv zeta. unfold Proofs.Pipeline.response_filtering_applies.
    rewrite (protection_after_history c sw0 T0); auto. tauto.
  Qed.

  (** The first offending record replaces the answer after an accepted
      re-enable, whatever pause preceded it. *)
  Theorem offending_record_blocks_after_history c sw0 T0 s0 h t up q r pre rr0 post res :
    agrees sw0 T0 s0 -> ordered T0 h -> last_instant T0 h <= t ->
    expected (last_switch sw0 h) t = true ->
    let c' := cfg_after c s0 h t in
    passes_request_stage allow_eng block_eng sb_oracle par_oracle ss_oracle rw_sort c' q no_result ->
    st_filtering (request_settings c' q) = true ->
    up (q_name q) (q_qtype q) = Some r ->
    rs_answer r = pre ++ rr0 :: post ->
    Forall (clean allow_eng block_eng c' (request_settings c' q)) pre ->
    check_rr allow_eng block_eng (request_settings c' q) (strip_rr c' rr0) = Some res ->
    let o := process c' up q in
    o_resp o = Some (synthetic c' (q_name q) (q_qtype q) (ips_from_rules res)) /\
    o_result o = res /\ r_filtered res = true /\ r_reason res = FilteredBlockList /\
    o_orig_kept o = true /\ o_calls o = [the_call q] /\ o_qname o = q_name q.
  Proof.
    intros A O L E. cbv zeta. intros P F U An Cl Ch.
    eapply offending_record_blocks; eauto.
    split; [exact P|]. split; [|exact F]. rewrite (protection_after_history c sw0 T0); auto.
  Qed.
End Compose.

(** * The variants *)

Definition hour : Z := 3600000.

(** The seeded handler (C02-J): on, paused for an hour, switched on again
    after a second: protection stays off until the old deadline. *)
Definition seed_history : list pop := [PSet 0 false hour; PSet 1000 true 0].

Theorem reenable_keeps_deadline_refuted :
  exists h t, ordered 0 h /\ last_instant 0 h <= t /\ last_switch SwOn h = SwOn /\
    in_force t (prot_run set_keeps_deadline conf_as_written wake_as_written (prot_init true None) h) = false /\
    in_force t (run_now (prot_init true None) h) = true.
Proof. exists seed_history, 2000. vm_compute. repeat split; discriminate. Qed.

(** dns_config before 8ae46d5, switched on during a pause: stays off ... *)
Definition conf_on_history : list pop := [PSet 0 false hour; PConf true].
(** ... switched off during a pause: comes back on at the deadline. *)
Definition conf_off_history : list pop := [PSet 0 false hour; PConf false; PRead (hour + 1); PWake (hour + 1)].

Theorem conf_flag_only_refuted :
  (exists h t, ordered 0 h /\ last_instant 0 h <= t /\ last_switch SwOn h = SwOn /\
     in_force t (prot_run set_as_written conf_flag_only wake_as_written (prot_init true None) h) = false /\
     in_force t (run_now (prot_init true None) h) = true) /\
  (exists h t, ordered 0 h /\ last_instant 0 h <= t /\ last_switch SwOn h = SwOff /\
     in_force t (prot_run set_as_written conf_flag_only wake_as_written (prot_init true None) h) = true /\
     in_force t (run_now (prot_init true None) h) = false).
Proof.
  split.
  - exists conf_on_history, 1000. vm_compute. repeat split; discriminate.
  - exists conf_off_history, (hour + 2). vm_compute. repeat split; discriminate.
Qed.

(** The goroutine as it was before c1dbdb6 (it stored "enabled, no deadline"
    whatever the pair held by the time it got the lock): a pause runs out, a
    request starts the goroutine, the administrator switches protection off
    (or starts a new pause) before the goroutine has the lock, the goroutine
    switches protection on. *)
Definition late_wake_history : list pop :=
  [PSet 0 false hour; PRead (hour + 1); PSet (hour + 2) false 0; PWake (hour + 2)].
Definition late_wake_history_pause : list pop :=
  [PSet 0 false hour; PRead (hour + 1); PSet (hour + 2) false hour; PWake (hour + 2)].

Theorem late_wake_overrides_switch_refuted :
  (exists h t, ordered 0 h /\ last_instant 0 h <= t /\ last_switch SwOn h = SwOff /\
     in_force t (prot_run set_as_written conf_as_written wake_unconditional (prot_init true None) h) = true /\
     in_force t (run_now (prot_init true None) h) = false) /\
  (exists h t d, ordered 0 h /\ last_instant 0 h <= t /\ last_switch SwOn h = SwPause d /\ t < d /\
     in_force t (prot_run set_as_written conf_as_written wake_unconditional (prot_init true None) h) = true /\
     in_force t (run_now (prot_init true None) h) = false).
Proof.
  split.
  - exists late_wake_history, (hour + 3). vm_compute. repeat split; discriminate.
  - exists late_wake_history_pause, (hour + 3), (2 * hour + 2). vm_compute. repeat split; discriminate.
Qed.

(** * Non-vacuity *)

Example premises_satisfiable :
  agrees SwOn 0 (prot_init true None) /\
  ordered 0 [PSet 0 false hour; PRead 1000; PConf true; PRead (2 * hour); PSet (2 * hour) false hour; PWake (2 * hour)] /\
  last_switch SwOn [PSet 0 false hour; PRead 1000; PWake 1000; PConf true; PRead (2 * hour); PWake (2 * hour)] = SwOn /\
  last_switch SwOn [PSet 0 false hour; PRead 1000; PWake 1000] = SwPause hour /\
  in_force 1000 (run_now (prot_init true None) [PSet 0 false hour]) = false /\
  in_force (hour + 1) (run_now (prot_init true None) [PSet 0 false hour]) = true /\
  in_force (hour + 3) (run_now (prot_init true None) late_wake_history) = false.
Proof. vm_compute. repeat split; discriminate. Qed.

Example blocked_premises_after_history m :
  let h := [PSet 0 false hour; PRead 1000; PWake 1000; PSet 2000 true 0] in
  expected (last_switch SwOn h) 3000 = true /\
  blocked_by_spec (match_request []) (match_request ex_block_rules) Rewrites.isort
    (cfg_after (ex_cfg m) (prot_init true None) h 3000) ex_query.
Proof.
  cbv zeta. split; [reflexivity|].
  replace (cfg_after (ex_cfg m) _ _ 3000) with (ex_cfg m) by (destruct m; reflexivity).
  apply ex_blocked_by_spec.
Qed.

(** * The blocking configuration follows the last dns_config *)

(** After any history of dns_config calls: the mode is the one of the last
    call that carried a mode; with custom_ip the two addresses are those of
    that call; the TTL is the one of the last call that carried a TTL. *)
Theorem blocking_follows_last_dns_config c h m v4 v6 rest :
  Forall (fun o => match o with BMode _ _ _ => False | BTTL _ => True end) rest ->
  let c' := brun_now c (h ++ BMode m v4 v6 :: rest) in
  c_mode c' = m /\ (m = MCustomIP -> c_ip4 c' = v4 /\ c_ip6 c' = v6).
Proof.
  intros F. cbv zeta. unfold brun_now, brun. rewrite fold_left_app. cbn [fold_left].
  set (c1 := bstep mode_always (fold_left (bstep mode_always) h c) (BMode m v4 v6)).
  assert (E : c_mode c1 = m /\ (m = MCustomIP -> c_ip4 c1 = v4 /\ c_ip6 c1 = v6)).
  { unfold c1. cbn [bstep mode_always]. unfold set_blocking. destruct m; cbn; split; auto; try discriminate. }
  clearbody c1. revert c1 E. induction F as [|o l Ho F IH]; intros c1 E; [exact E|].
  cbn [fold_left]. apply IH. destruct o as [|t]; [contradiction|]. cbn. exact E.
Qed.

Theorem ttl_follows_last_dns_config c h t rest :
  Forall (fun o => match o with BTTL _ => False | BMode _ _ _ => True end) rest ->
  c_ttl (brun_now c (h ++ BTTL t :: rest)) = t.
Proof.
  intros F. unfold brun_now, brun. rewrite fold_left_app. cbn [fold_left].
  set (c1 := bstep mode_always (fold_left (bstep mode_always) h c) (BTTL t)).
  assert (E : c_ttl c1 = t) by reflexivity.
  clearbody c1. revert c1 E. induction F as [|o l Ho F IH]; intros c1 E; [exact E|].
  cbn [fold_left]. apply IH. destruct o as [m v4 v6|]; [|contradiction].
  cbn [bstep mode_always]. unfold set_blocking. destruct (is_custom m); exact E.
Qed.

(** Nothing else of the configuration is touched (so the theorems about the
    pipeline read with the last blocking configuration in place). *)
Theorem blocking_ops_keep_the_rest c h :
  let c' := brun_now c h in
  protection_on c' = protection_on c /\ c_filtering c' = c_filtering c /\ c_rewrites c' = c_rewrites c /\
  c_services c' = c_services c /\ c_aaaa_disabled c' = c_aaaa_disabled c.
Proof.
  cbv zeta. unfold brun_now, brun. revert c. induction h as [|o h IH]; intros c; [repeat split|].
  cbn [fold_left]. destruct (IH (bstep mode_always c o)) as (A & B & C & D & E).
  rewrite A, B, C, D, E. destruct o as [m v4 v6|t]; cbn; [unfold set_blocking; destruct (is_custom m)|]; repeat split.
Qed.

(** The seeded setConfig (the filter is told only when the mode differs):
    custom_ip with one pair of addresses, then custom_ip again with another
    pair: the old pair stays. *)
Definition a4 (n : N) : addr := mkAddr V4 n [].
Theorem blocking_skipped_when_mode_unchanged_refuted :
  exists c h v4, c_mode (brun_now c h) = MCustomIP /\ c_ip4 (brun_now c h) = v4 /\
    c_mode (brun mode_only_when_changed c h) = MCustomIP /\ c_ip4 (brun mode_only_when_changed c h) <> v4.
Proof.
  exists (ex_cfg MDefault), [BMode MCustomIP (a4 1) (a4 2); BMode MCustomIP (a4 3) (a4 4)], (a4 3).
  vm_compute. repeat split; discriminate.
Qed.

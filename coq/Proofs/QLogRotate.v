(** C07, periodic rotation check: a rotation replaces querylog.json.1 only by a
    file that was due.  True of the check with the early return on a missing
    file; refuted for the code as it is (a missing file counts as infinitely
    old), with a history in which a record far younger than the interval
    disappears without a clear. *)
From Coq Require Import ZArith NArith List Bool Lia.
From AGH Require Import Base.Run Model.QLogFile Model.QLog Model.QLogRotate Proofs.QLog.
Import ListNotations.
Local Open Scope Z_scope.

(** Just before the rename: if a decision to rotate stands and there is a
    file to rename, its first record is at least the interval old by the
    clock of the check. *)
Definition renamed_is_due (s : rstate) : Prop :=
  match decided s, cur (rs s) with
  | Some (ivl, now), Some (e :: _) => e_time e + ivl <= now
  | Some _, Some [] => False
  | _, _ => True
  end.

Lemma check_and_rotate_eq m ivl now s :
  check_and_rotate m ivl now s = if due m ivl now s then rotate s else s.
Proof. unfold check_and_rotate, rrun. cbn. destruct (due m ivl now s); reflexivity. Qed.

(** Without anything between its halves the check does the same with and
    without the early return: renaming a missing file does nothing.  The flaw
    shows only under interleaving. *)
Lemma check_and_rotate_same ivl now s : check_and_rotate true ivl now s = check_and_rotate false ivl now s.
Proof.
  rewrite !check_and_rotate_eq. unfold due, first_time.
  destruct (cur s) as [[|e l]|] eqn:E; auto. unfold rotate. rewrite E. reflexivity.
Qed.

Lemma flush_head s e l : cur s = Some (e :: l) -> exists l', cur (flush s) = Some (e :: l').
Proof.
  intro H. unfold flush. destruct (buf s) as [|b bs]; [eauto|].
  cbn [cur]. rewrite H. cbn [app]. eauto.
Qed.

Lemma dns_step_head s o e l : dns_op o = true -> cur s = Some (e :: l) ->
  exists l', cur (step s o) = Some (e :: l').
Proof.
  intros Ho H. destruct o as [x|x| | | | |]; try discriminate Ho; cbn [step].
  - unfold add.
    assert (Ha : cur (add_async s x) = Some (e :: l)) by (unfold add_async; destruct (negb (enabled (cfg s))); auto).
    destruct (negb (pending s) && pending (add_async s x)); [eapply flush_head; eauto|eauto].
  - unfold add_async. destruct (negb (enabled (cfg s))); eauto.
  - eapply flush_head; eauto.
Qed.

Lemma dns_run_head m : forall mid s e l, forallb dns_op mid = true -> cur (rs s) = Some (e :: l) ->
  let s' := fold_left (rstep m) (map RPlain mid) s in
  decided s' = decided s /\ exists l', cur (rs s') = Some (e :: l').
Proof.
  induction mid as [|o mid IH]; intros s e l Hm H; cbn [map fold_left]; [eauto|].
  cbn [forallb] in Hm. apply andb_prop in Hm as [Ho Hm].
  destruct (dns_step_head (rs s) o e l Ho H) as (l1 & H1).
  specialize (IH {| rs := step (rs s) o; decided := decided s |} e l1 Hm H1). cbn in IH. exact IH.
Qed.

Lemma dns_run_decided m : forall mid s, let s' := fold_left (rstep m) (map RPlain mid) s in decided s' = decided s.
Proof. induction mid as [|o mid IH]; intro s; cbn [map fold_left]; auto. rewrite IH. reflexivity. Qed.

(** With the early return: whatever the DNS path records and flushes between
    decision and rename, the file that is renamed was due. *)
Theorem rotation_only_when_due_fixed s ivl now mid :
  forallb dns_op mid = true ->
  renamed_is_due (rrun false s (RCheck ivl now :: map RPlain mid)).
Proof.
  intro Hm. unfold rrun. cbn [fold_left rstep rs decided].
  destruct (due false ivl now s) eqn:Ed.
  - unfold due, first_time in Ed. destruct (cur s) as [[|e l]|] eqn:E; try discriminate.
    destruct (dns_run_head false mid {| rs := s; decided := Some (ivl, now) |} e l Hm E) as (Hd & l' & Hc).
    unfold renamed_is_due. rewrite Hd, Hc. cbn [decided].
    apply negb_true_iff, Z.ltb_ge in Ed. lia.
  - unfold renamed_is_due. rewrite dns_run_decided. cbn [decided]. exact I.
Qed.

(** The code as it is: a history (one record added by a DNS request between
    the two halves, mem_size 1, so the Add also flushes) in which the renamed
    file is 5 ns old against an interval of 1000, and record 2 of the rotated
    file, 15 ns old, is gone afterwards although nothing was cleared. *)
Definition w_a : entry := Build_entry 1 10 50 [97]%N [49]%N [] 0 false.
Definition w_a2 : entry := Build_entry 2 1005 50 [97]%N [49]%N [] 0 false.
Definition w_b : entry := Build_entry 3 1015 50 [98]%N [49]%N [] 0 false.
Definition w_state : state :=
  {| cfg := Build_config true true 1 [] []; buf := []; cur := None; rot := Some [w_a; w_a2]; pending := false |}.
Definition w_mid : list op := [OAdd w_b].

Definition has_id (i : N) (l : list entry) : bool := existsb (fun e => N.eqb (e_id e) i) l.

Theorem rotation_only_when_due_refuted :
  forallb dns_op w_mid = true /\
  ~ renamed_is_due (rrun true w_state (RCheck 1000 1020 :: map RPlain w_mid)) /\
  has_id 2 (flat w_state) = true /\ 1020 < e_time w_a2 + 1000 /\
  has_id 2 (flat (rs (rrun true w_state (RCheck 1000 1020 :: map RPlain w_mid ++ [RRename])))) = false /\
  (* the same history with the early return keeps it *)
  has_id 2 (flat (rs (rrun false w_state (RCheck 1000 1020 :: map RPlain w_mid ++ [RRename])))) = true.
Proof.
  split; [reflexivity|]. split.
  - vm_compute. lia.
  - repeat split; vm_compute; reflexivity.
Qed.

(** C06, round 7: a chain of canonical names is followed to its end, whatever
    its length (seeded change C06-M: a bound of 16 on the names followed).

    [follows tbl qt orig host hs rws_end m_end]: from [host] the entries that
    findRewrites puts first are canonical-name entries leading through the
    names [hs] in turn (none of them the queried name, none the pattern
    itself, none the current name), and for the last name findRewrites
    returns [rws_end], which does not start with a canonical-name entry. *)
From Coq Require Import ZArith NArith List Bool Permutation Sorted Lia String.
From AGH Require Import Base.Run Model.Rewrites Proofs.Rewrites.
Import ListNotations.
Local Open Scope N_scope.

Section Chain.
  Variable sort : list entry -> list entry.
  Hypothesis sort_perm : forall l, Permutation (sort l) l.

  Definition head_is_cname (rws : list entry) : bool :=
    match rws with rw :: _ => is_cname rw | [] => false end.

  Fixpoint follows (tbl : list entry) (qt : N) (orig host : bytes) (hs : list bytes)
      (rws_end : list entry) (m_end : bool) : Prop :=
    match hs with
    | [] => find_rewrites sort tbl host qt = (rws_end, m_end) /\
            m_end && head_is_cname rws_end = false
    | h :: hs' =>
        exists rw rest, find_rewrites sort tbl host qt = (rw :: rest, true) /\
          is_cname rw = true /\ e_ans rw = h /\
          h <> orig /\ e_dom rw <> h /\ h <> host /\
          follows tbl qt orig h hs' rws_end m_end
    end.

  Lemma follows_incl tbl qt orig : forall hs host rws_end m_end,
    follows tbl qt orig host hs rws_end m_end -> incl hs (map e_ans tbl).
  Proof.
    induction hs as [|h hs IH]; cbn; intros host rws_end m_end F; [apply incl_nil_l|].
    destruct F as (rw & rest & F & _ & E & _ & _ & _ & F').
    intros x [<-|Hx]; [|eapply IH; eauto].
    rewrite <- E. apply in_map.
    assert (Q : qualifies tbl host qt rw) by (apply (find_rewrites_In sort sort_perm); rewrite F; cbn; auto).
    apply Q.
  Qed.

  Lemma not_mem x l : ~ In x l -> mem_bytes x l = false.
  Proof. intros H. destruct (mem_bytes x l) eqn:M; auto. apply mem_bytes_spec in M. tauto. Qed.

  Lemma neq_eqb a b : a <> b -> eqb_bytes a b = false.
  Proof. intros H. destruct (eqb_bytes a b) eqn:E; auto. apply eqb_bytes_spec in E. tauto. Qed.

  Lemma last_cons_default {A} (l : list A) : forall x d, last (x :: l) d = last l x.
  Proof.
    induction l as [|y l IH]; intros x d; [reflexivity|].
    change (last (x :: y :: l) d) with (last (y :: l) d). rewrite !IH. reflexivity.
  Qed.

  Lemma chase_chain tbl qt orig : forall hs fuel host visited canon rws matched rws_end m_end,
    (length hs < fuel)%nat ->
    find_rewrites sort tbl host qt = (rws, matched) ->
    follows tbl qt orig host hs rws_end m_end ->
    NoDup hs -> (forall h, In h hs -> ~ In h visited) ->
    chase sort fuel tbl qt orig host visited canon rws matched =
    Some (set_result {| r_reason := Rewritten; r_canon := last hs canon; r_ips := [] |} rws_end qt).
  Proof.
    induction hs as [|h hs IH]; intros fuel host visited canon rws matched rws_end m_end L F Fo ND NV;
      (destruct fuel as [|fuel]; [cbn in L; lia|]); cbn [chase].
    - destruct Fo as [F' S]. rewrite F in F'. injection F' as -> ->. cbn [last].
      destruct rws_end as [|rw rws]; [reflexivity|]. cbn [head_is_cname] in S. rewrite S. reflexivity.
    - destruct Fo as (rw & rest & F' & C & E & N1 & N2 & N3 & Fo). rewrite F in F'. injection F' as -> ->.
      rewrite C. cbn [andb]. rewrite E.
      rewrite (neq_eqb orig h) by congruence. rewrite (neq_eqb (e_dom rw) h) by congruence.
      rewrite (neq_eqb host h) by congruence. cbn [orb andb].
      rewrite not_mem by (apply NV; cbn; auto).
      destruct (find_rewrites sort tbl h qt) as [rws' m'] eqn:F'.
      apply NoDup_cons_iff in ND as [NI ND].
      rewrite last_cons_default.
      apply (IH fuel h (h :: visited) h rws' m' rws_end m_end); auto.
      + cbn in L. lia.
      + intros x Hx [<-|Hv]; [tauto|]. apply (NV x); cbn; auto.
  Qed.

  (** THE statement: an acyclic chain of ANY length inside the table is
      followed to its end; the result is what the entries of the LAST name
      give (its addresses of the requested type, the empty answer, or an
      exception), under the last name as canonical name.  No bound. *)
  Theorem chain_followed_to_its_end tbl qt host hs rws_end m_end :
    hs <> [] -> NoDup hs ->
    follows tbl qt host host hs rws_end m_end ->
    process_rewrites sort tbl host qt =
    Some (set_result {| r_reason := Rewritten; r_canon := last hs []; r_ips := [] |} rws_end qt).
  Proof.
    intros NE ND Fo. unfold process_rewrites.
    destruct (find_rewrites sort tbl host qt) as [rws m] eqn:F.
    assert (m = true).
    { destruct hs as [|h hs]; [congruence|]. destruct Fo as (rw & rest & F' & _). congruence. }
    subst m. cbn [negb].
    apply (chase_chain tbl qt host hs (S (length tbl)) host [] [] rws true rws_end m_end); auto.
    pose proof (follows_incl _ _ _ _ _ _ _ Fo) as I.
    apply NoDup_incl_length in I; auto. rewrite map_length in I. lia.
  Qed.
End Chain.

(** * The bounded chase of the seeded change C06-M, refuted

    [chase_bounded k]: the loop of processRewrites with `if cnames.Len() == k
    { break }` at its top. *)
Fixpoint chase_bounded (k : nat) (fuel : nat) (tbl : list entry) (qt : N) (orig host : bytes)
    (visited : list bytes) (canon : bytes) (rws : list entry) (matched : bool)
    : option rw_result :=
  match fuel with
  | O => None
  | S fuel' =>
      let done := Some (set_result
        {| r_reason := Rewritten; r_canon := canon; r_ips := [] |} rws qt) in
      match rws with
      | rw :: _ =>
          if matched && is_cname rw then
            if Nat.eqb (length visited) k then done
            else
            let pat := e_dom rw in
            let ans := e_ans rw in
            if eqb_bytes orig ans || eqb_bytes pat ans then Some empty_result
            else if eqb_bytes host ans && is_wildcard pat then
              Some (set_result
                {| r_reason := Rewritten; r_canon := host; r_ips := [] |} rws qt)
            else if mem_bytes ans visited then
              Some {| r_reason := Rewritten; r_canon := canon; r_ips := [] |}
            else
              let '(rws', matched') := find_rewrites isort tbl ans qt in
              chase_bounded k fuel' tbl qt orig ans (ans :: visited) ans rws' matched'
          else done
      | [] => done
      end
  end.

Definition process_rewrites_bounded (k : nat) (tbl : list entry) (host : bytes) (qt : N)
  : option rw_result :=
  let '(rws, matched) := find_rewrites isort tbl host qt in
  if negb matched then Some empty_result
  else chase_bounded k (S (length tbl)) tbl qt host host [] [] rws matched.

Module ChainExamples.
  (** hop i = "h" ++ [byte 130 + i] ++ ".chain.test" (no letter: nothing to lower-case); hop0 -> hop1 -> ... ->
      hop n -> 1.2.3.4 *)
  Definition hop (i : nat) : bytes := 104 :: N.of_nat (130 + i) :: bs ".chain.test".
  Definition ip1234 := {| ip_is4 := true; ip_val := 16909060 |}.
  Definition chain_table (n : nat) : list entry :=
    map (fun i => normalize {| w_dom := hop i; w_ans := hop (S i); w_parse := None |}) (seq 0 n) ++
    [normalize {| w_dom := hop n; w_ans := bs "1.2.3.4"; w_parse := Some ip1234 |}].

  Definition end_answer (n : nat) :=
    Some {| r_reason := Rewritten; r_canon := hop n; r_ips := [ip1234] |}.

  (** The model follows chains of 17, 40 and 64 hops to their end ... *)
  Example chain_17 : process_rewrites isort (chain_table 17) (hop 0) qA = end_answer 17.
  Proof. vm_compute. reflexivity. Qed.
  Example chain_64 : process_rewrites isort (chain_table 64) (hop 0) qA = end_answer 64.
  Proof. vm_compute. reflexivity. Qed.

  (** ... and the bounded chase does not: the chain of k + 1 hops, k = 16
      (and k = 3), stops at hop k without an address. *)
  Example bounded_16_stops :
    process_rewrites_bounded 16 (chain_table 17) (hop 0) qA =
    Some {| r_reason := Rewritten; r_canon := hop 16; r_ips := [] |}.
  Proof. vm_compute. reflexivity. Qed.
  Example bounded_16_agrees_up_to_16 :
    process_rewrites_bounded 16 (chain_table 16) (hop 0) qA = end_answer 16.
  Proof. vm_compute. reflexivity. Qed.
  Example bounded_3_stops :
    process_rewrites_bounded 3 (chain_table 4) (hop 0) qA =
    Some {| r_reason := Rewritten; r_canon := hop 3; r_ips := [] |}.
  Proof. vm_compute. reflexivity. Qed.

  (** The premises of [chain_followed_to_its_end] hold for the chain of 17. *)
  Example follows_17 :
    follows isort (chain_table 17) qA (hop 0) (hop 0) (map hop (seq 1 17))
            [normalize {| w_dom := hop 17; w_ans := bs "1.2.3.4"; w_parse := Some ip1234 |}] true.
  Proof.
    cbn [map seq follows].
    repeat (eexists; eexists; split; [vm_compute; reflexivity|];
            split; [reflexivity|]; split; [reflexivity|];
            split; [vm_compute; discriminate|]; split; [vm_compute; discriminate|];
            split; [vm_compute; discriminate|]).
    split; vm_compute; reflexivity.
  Qed.

  Theorem bounded_refuted :
    ~ (forall tbl host qt, process_rewrites_bounded 16 tbl host qt = process_rewrites isort tbl host qt).
  Proof.
    intros H. specialize (H (chain_table 17) (hop 0) qA).
    rewrite bounded_16_stops, chain_17 in H. discriminate H.
  Qed.
End ChainExamples.

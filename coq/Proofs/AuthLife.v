(** C11, round 5: "once an administrator account exists" along the life of an
    installation (saves, restarts, the end of the wizard), and wrappers built
    in one world and called in another. *)
From AGH Require Import Base.Run Model.Session Model.AuthHttp Model.AuthLife Proofs.AuthHttp.
From stdpp Require Import gmap.
Local Open Scope Z_scope.

(** * (I) usersList *)

Lemma go_copy_full {T} (z : T) (src : list T) : go_copy (repeat z (length src)) src = src.
Proof. induction src as [|x src IH]; cbn; [reflexivity|]. rewrite IH. reflexivity. Qed.

Lemma go_copy_nil {T} (src : list T) : go_copy [] src = [].
Proof. destruct src; reflexivity. Qed.

(** The code's usersList returns the list. *)
Lemma users_list_id us : users_list us = us.
Proof. apply go_copy_full. Qed.

(** [make([]webUser, 0, len(a.users))]: nothing is copied. *)
Lemma users_list_zero_len us : users_list_gen (fun _ => 0%nat) us = [].
Proof. apply go_copy_nil. Qed.

(** * The invariant *)

(** The configuration file lists an account. *)
Definition persisted (st : life) : Prop :=
  match l_file st with Some (_ :: _) => True | _ => False end.

(** A running process has its Auth object, and if the file lists an account
    then so does the Auth object. *)
Definition inv (st : life) : Prop :=
  forall p, l_proc st = Some p -> exists us, p_auth p = Some us /\ (persisted st -> us <> []).

Section Inv.
Variable ul : list account -> list account.
Variable k : boot_code.
Hypothesis Hul : forall us, ul us = us.
Hypothesis Hk : boot_code_ok k = true.

Lemma boot_ok_serves b : b_db_opens b = true -> boot k b = BootServe true (b_users b).
Proof.
  intros Hdb. unfold boot, init_users, init_auth. rewrite Hdb. cbn. reflexivity.
Qed.

Lemma boot_ok_cases b : boot k b = BootFatal \/ boot k b = BootServe true (b_users b).
Proof.
  destruct (boot k b) as [|a u] eqn:E; [left; reflexivity|right].
  destruct (startup_serves_with_auth k b a u Hk E) as (_ & -> & ->). reflexivity.
Qed.

(** A successful save puts the accounts of the running process into the
    file, as they are. *)
Theorem write_saves_users st p us :
  l_proc st = Some p -> p_auth p = Some us ->
  l_file (do_write ul true st) = Some us /\
  exists p', l_proc (do_write ul true st) = Some p' /\ p_auth p' = Some us /\ p_first_run p' = p_first_run p.
Proof.
  intros Hp Ha. unfold do_write, write_proc, write_users. rewrite Hp, Ha, Hul. cbn.
  split; [reflexivity|]. eexists. repeat split.
Qed.

(** A failed save leaves the file alone. *)
Lemma write_failed_file st : l_file (do_write ul false st) = l_file st.
Proof. unfold do_write, write_proc. destruct (l_proc st); reflexivity. Qed.

(** After a stop, the next start (session database opens, start-up save
    succeeds) has exactly the accounts of the file. *)
Theorem boot_restores_users fus :
  exists p, l_proc (do_boot ul k true true {| l_file := Some fus; l_proc := None |}) = Some p /\
            p_auth p = Some fus /\ p_first_run p = false /\
            l_file (do_boot ul k true true {| l_file := Some fus; l_proc := None |}) = Some fus.
Proof.
  unfold do_boot, write_proc, write_users. cbn [l_proc l_file p_auth p_conf_users negb].
  rewrite boot_ok_serves by reflexivity. cbn [l_proc l_file p_auth p_conf_users negb]. eexists. repeat split.
Qed.

Lemma inv_no_proc f : inv {| l_file := f; l_proc := None |}.
Proof. intros p [=]. Qed.

Lemma step_inv st o : inv st -> inv (step ul k st o).
Proof.
  intros Hi. destruct o as [db wok|n h res|ok|]; cbn [step].
  - (* boot *)
    unfold do_boot. destruct (l_proc st) as [p0|] eqn:Ep; [exact Hi|].
    destruct (l_file st) as [fus|] eqn:Ef.
    + unfold write_proc, write_users. cbn.
      destruct wok; cbn; [|apply inv_no_proc].
      destruct (boot_ok_cases {| b_users := non_empty fus; b_db_opens := db |}) as [->| ->]; [apply inv_no_proc|].
      intros p [= <-]. cbn. exists fus. split; [reflexivity|].
      unfold persisted. cbn. destruct fus; [tauto|discriminate].
    + destruct (boot_ok_cases {| b_users := false; b_db_opens := db |}) as [->| ->].
      * exact Hi.
      * intros p [= <-]. cbn. exists []. split; [reflexivity|]. unfold persisted. cbn. tauto.
  - (* configure *)
    unfold do_configure. destruct (l_proc st) as [p0|] eqn:Ep; [|destruct res; exact Hi].
    destruct (Hi p0 Ep) as (us & Ha & Hne).
    destruct res; try exact Hi; rewrite Ha.
    + intros p [= <-]. cbn. exists us. split; [exact Ha|]. exact Hne.
    + intros p [= <-]. cbn. exists (us ++ [(n, h)]). split; [reflexivity|]. intros _. destruct us; discriminate.
    + unfold write_proc. cbn. intros p [= <-]. cbn. exists (us ++ [(n, h)]). split; [reflexivity|].
      intros _. destruct us; discriminate.
    + unfold write_proc. cbn. intros p [= <-]. cbn. exists (us ++ [(n, h)]). split; [reflexivity|].
      intros _. destruct us; discriminate.
  - (* write *)
    unfold do_write. destruct (l_proc st) as [p0|] eqn:Ep; [|exact Hi].
    destruct (Hi p0 Ep) as (us & Ha & Hne).
    unfold write_proc, write_users. rewrite Ha, Hul. cbn. intros p [= <-]. cbn. exists us. split; [reflexivity|].
    destruct ok; [|exact Hne]. unfold persisted. cbn. destruct us; [tauto|discriminate].
  - apply inv_no_proc.
Qed.

Lemma step_persisted st o : inv st -> persisted st -> persisted (step ul k st o).
Proof.
  intros Hi Hp. destruct o as [db wok|n h res|ok|]; cbn [step].
  - unfold do_boot. destruct (l_proc st) as [p0|] eqn:Ep; [exact Hp|].
    unfold persisted in Hp. destruct (l_file st) as [fus|] eqn:Ef; [|destruct Hp].
    unfold write_proc, write_users. cbn.
    destruct wok; cbn.
    + destruct (boot k _); unfold persisted; cbn; exact Hp.
    + unfold persisted. cbn. exact Hp.
  - unfold do_configure. destruct (l_proc st) as [p0|] eqn:Ep; [|destruct res; exact Hp].
    destruct (Hi p0 Ep) as (us & Ha & Hne).
    destruct res; try exact Hp; rewrite Ha; unfold persisted; cbn; try exact Hp.
    rewrite Hul. destruct us; cbn; exact I.
  - unfold do_write. destruct (l_proc st) as [p0|] eqn:Ep; [|exact Hp].
    destruct (Hi p0 Ep) as (us & Ha & Hne).
    unfold write_proc, write_users. rewrite Ha, Hul. destruct ok; unfold persisted; cbn; [|exact Hp].
    specialize (Hne Hp). destruct us; [congruence|exact I].
  - exact Hp.
Qed.

Lemma run_inv ops : forall st, inv st -> inv (run_ops ul k st ops).
Proof. induction ops as [|o ops IH]; intros st Hi; cbn; [exact Hi|]. apply IH, step_inv, Hi. Qed.

Lemma run_persisted ops : forall st, inv st -> persisted st -> persisted (run_ops ul k st ops).
Proof.
  induction ops as [|o ops IH]; intros st Hi Hp; cbn; [exact Hp|].
  apply IH; [apply step_inv, Hi|apply step_persisted; assumption].
Qed.

(** The wizard's last step, when it succeeds in a running process, leaves
    the new account in the file. *)
Lemma configure_ok_persisted st n h :
  inv st -> l_proc st <> None -> persisted (do_configure ul n h CfgOk st).
Proof.
  intros Hi Hr. unfold do_configure. destruct (l_proc st) as [p0|] eqn:Ep; [|congruence].
  destruct (Hi p0 Ep) as (us & Ha & _). rewrite Ha. unfold persisted, write_proc, write_users. cbn.
  rewrite Hul. destruct us; exact I.
Qed.

(** Whatever happens afterwards (saves that succeed or fail, restarts with
    the session database in any state, further runs of the wizard handler
    with any outcome), a process that serves requests requires
    authentication. *)
Theorem persisted_then_required st ops p e :
  inv st -> persisted st ->
  l_proc (run_ops ul k st ops) = Some p -> env_of p e -> e_auth_required e = true.
Proof.
  intros Hi Hp Hrun (_ & Hpres & Hacc).
  destruct (run_inv ops st Hi p Hrun) as (us & Ha & Hne).
  specialize (Hne (run_persisted ops st Hi Hp)).
  unfold e_auth_required, e_users, proc_auth_present, proc_users in *.
  rewrite Hpres, Hacc, Ha. destruct us; [congruence|reflexivity].
Qed.

(** From the very beginning: any history with a completed wizard in it. *)
Theorem created_then_required f ops1 n h ops2 p e :
  let st1 := run_ops ul k {| l_file := f; l_proc := None |} ops1 in
  l_proc st1 <> None ->
  l_proc (run_ops ul k {| l_file := f; l_proc := None |} (ops1 ++ OConfigure n h CfgOk :: ops2)) = Some p ->
  env_of p e -> e_auth_required e = true.
Proof.
  cbv zeta. intros Hr Hrun He. unfold run_ops in Hrun. rewrite fold_left_app in Hrun. cbn [fold_left step] in Hrun.
  pose proof (run_inv ops1 _ (inv_no_proc f)) as Hi1.
  eapply (persisted_then_required _ ops2 p e); [| |exact Hrun|exact He].
  - apply (step_inv _ (OConfigure n h CfgOk)), Hi1.
  - apply configure_ok_persisted; assumption.
Qed.

(** With the refusal theorem: after any such history, every chain that
    contains optionalAuth refuses every unauthenticated request for a
    non-public path. *)
Theorem created_then_guarded {A R} f ops1 n h ops2 p e ws (w : world A) r :
  l_proc (run_ops ul k {| l_file := f; l_proc := None |} ops1) <> None ->
  l_proc (run_ops ul k {| l_file := f; l_proc := None |} (ops1 ++ OConfigure n h CfgOk :: ops2)) = Some p ->
  env_of p e -> In WOptionalAuth ws ->
  is_public (r_path r) = false -> authenticated e (w_sess w) r = false ->
  exists w' (a : answer R), blocks (apply_chain ws) e w r w' a /\ session_effect e w r w'.
Proof.
  intros Hr Hrun He Hin Hpub Hauth. apply guarded_chain_blocks; auto.
  eapply created_then_required; eauto.
Qed.

(** The same for an installation whose file lists an account to begin with. *)
Theorem configured_then_guarded {A R} u fus ops p e ws (w : world A) r :
  l_proc (run_ops ul k {| l_file := Some (u :: fus); l_proc := None |} ops) = Some p ->
  env_of p e -> In WOptionalAuth ws ->
  is_public (r_path r) = false -> authenticated e (w_sess w) r = false ->
  exists w' (a : answer R), blocks (apply_chain ws) e w r w' a /\ session_effect e w r w'.
Proof.
  intros Hrun He Hin Hpub Hauth. apply guarded_chain_blocks; auto.
  eapply (persisted_then_required {| l_file := Some (u :: fus); l_proc := None |} ops p e);
    [apply inv_no_proc|exact I|exact Hrun|exact He].
Qed.

(** File and memory agree after every successful save, along any history. *)
Theorem saved_users_are_memory_users f ops p us :
  let st := run_ops ul k {| l_file := f; l_proc := None |} ops in
  l_proc st = Some p -> p_auth p = Some us -> l_file (do_write ul true st) = Some us.
Proof. cbv zeta. intros Hp Ha. eapply write_saves_users; eauto. Qed.

End Inv.

(** * Non-vacuity and the slip *)

Definition ok_code : boot_code :=
  {| bc_nil_checked := true; bc_fail_ret_err := true; bc_run_fatal := true; bc_fatal_exits := true; bc_assigns_ok := true |}.

Definition ex_admin : account := ([97;100;109;105;110]%N, [36;50;97;36]%N).
Definition life0 : life := {| l_file := None; l_proc := None |}.

(** first start, the wizard completes, a setting is saved, restart *)
Definition ex_history : list op :=
  [OBoot true true; OConfigure (fst ex_admin) (snd ex_admin) CfgOk; OWrite true; OStop; OBoot true true].

Definition anon_get : request :=
  {| r_method := str_GET; r_path := ex_path; r_ctype := []; r_clen := 0; r_cookie := CNone;
     r_basic := BNone; r_tls := false; r_host_ok := true; r_hdrs := [] |}.

Definition final_env (ul : list account -> list account) (ops : list op) : option env :=
  option_map (fun p => env_with p ex_env) (l_proc (run_ops ul ok_code life0 ops)).

Example life_premises_satisfiable :
  boot_code_ok ok_code = true /\
  l_proc (run_ops users_list ok_code life0 [OBoot true true]) <> None /\
  run_ops users_list ok_code life0 ex_history =
    {| l_file := Some [ex_admin];
       l_proc := Some {| p_first_run := false; p_auth := Some [ex_admin]; p_conf_users := [] |} |} /\
  match final_env users_list ex_history with
  | Some e => e_auth_required e = true /\
              snd (apply_chain (http_register_chain str_GET) ex_handler e ex_world anon_get) = AStatus 403
  | None => False
  end.
Proof. repeat split; try discriminate; vm_compute; auto. Qed.

(** A usersList that returns an empty copy: nothing is wrong while the
    process runs; the save at the end of the wizard writes [users: []]; after
    the restart the anonymous GET reaches the handler. *)
Example life_empty_writer_refuted :
  let ul := users_list_gen (fun _ => 0%nat) in
  (* before the restart: still refused *)
  match final_env ul [OBoot true true; OConfigure (fst ex_admin) (snd ex_admin) CfgOk] with
  | Some e => snd (apply_chain (http_register_chain str_GET) ex_handler e ex_world anon_get) = AStatus 403
  | None => False
  end /\
  run_ops ul ok_code life0 ex_history =
    {| l_file := Some []; l_proc := Some {| p_first_run := false; p_auth := Some []; p_conf_users := [] |} |} /\
  match final_env ul ex_history with
  | Some e => e_auth_required e = false /\
              authenticated e (w_sess ex_world) anon_get = false /\
              snd (apply_chain (http_register_chain str_GET) ex_handler e ex_world anon_get) = AHandler tt
  | None => False
  end.
Proof. cbv zeta. repeat split; vm_compute; auto. Qed.

(** * (J) Built in one world, called in another *)

Section At.
Context {A R : Type}.
Notation H := (handler A R).

(** A wrapper constructor reads the state at request time only. *)
Definition request_time (W : @wrapper_at A R) : Prop := forall ew1 ew2 h, W ew1 h = W ew2 h.

Theorem wrappers_read_state_at_request_time x : request_time (apply_wrapper_at x).
Proof. intros ew1 ew2 h. reflexivity. Qed.

Lemma chain_request_time Ws : Forall request_time Ws -> forall ew1 ew2 h, chain_at Ws ew1 h = chain_at Ws ew2 h.
Proof.
  induction 1 as [|W Ws HW _ IH]; intros ew1 ew2 h; [reflexivity|].
  change (W ew1 (chain_at Ws ew1 h) = W ew2 (chain_at Ws ew2 h)). rewrite (IH ew1 ew2 h). apply HW.
Qed.

Lemma apply_chain_at_eq ws ew (h : H) : apply_chain_at ws ew h = apply_chain ws h.
Proof.
  unfold apply_chain_at, apply_chain, chain_at. induction ws as [|x ws IH]; cbn [map fold_right]; [reflexivity|].
  rewrite IH. reflexivity.
Qed.

(** The outcome of a chain of the code's wrappers depends on the world of the
    request, not on the world in which the chain was built. *)
Theorem chain_built_anywhere ws ew1 ew2 (h : H) : apply_chain_at ws ew1 h = apply_chain_at ws ew2 h.
Proof. rewrite !apply_chain_at_eq. reflexivity. Qed.

(** Hence, built during the first run or not: once [firstRun] is false, a
    chain that starts with preInstall answers 403 and runs nothing. *)
Theorem pre_install_chain_closed ws ew e (w : world A) r :
  e_first_run e = false -> blocks (apply_chain_at (A:=A) (R:=R) (WPreInstall :: ws) ew) e w r w (AStatus 403).
Proof.
  intros Hf. unfold blocks. split; [|split; [reflexivity|exact I]].
  intros h. rewrite apply_chain_at_eq. cbn. unfold pre_install. rewrite Hf. reflexivity.
Qed.

(** ... and a chain with optionalAuth in it, built before the account
    existed (first run, or before initUsers), refuses once it exists. *)
Theorem guarded_chain_built_anywhere ws ew e (w : world A) r :
  In WOptionalAuth ws ->
  e_auth_required e = true -> is_public (r_path r) = false -> authenticated e (w_sess w) r = false ->
  exists w' (a : answer R), blocks (apply_chain_at ws ew) e w r w' a /\ session_effect e w r w'.
Proof.
  intros Hin Hreq Hpub Hauth.
  destruct (guarded_chain_blocks (R:=R) ws e w r Hin Hreq Hpub Hauth) as (w' & a & (Hb & Happ & Hn) & Hs).
  exists w', a. split; [|exact Hs]. split; [|split; assumption].
  intros h. rewrite apply_chain_at_eq. apply Hb.
Qed.

End At.

(** The first start of an installation: the routes of the wizard are built
    while [firstRun] is true; the wizard completes in that same process. *)
Definition env_first_run : env :=
  {| e_first_run := true; e_auth_present := true; e_accounts := []; e_bcrypt := e_bcrypt ex_env;
     e_https := false; e_force_https := false; e_now := 1000; e_ttl := 3600 |}.

Definition anon_post_configure : request :=
  {| r_method := str_POST; r_path := p_install_api ++ [99;111;110;102;105;103;117;114;101]%N;   (* /control/install/configure *)
     r_ctype := str_json; r_clen := 2; r_cookie := CNone; r_basic := BNone; r_tls := false; r_host_ok := true; r_hdrs := [] |}.

Example transition_premises_satisfiable :
  e_first_run ex_env = false /\ e_auth_required ex_env = true /\
  (* during the first run the wizard's route runs its handler *)
  snd (apply_chain_at [WPreInstall; WEnsure str_POST] env_first_run ex_handler env_first_run ex_world anon_post_configure) = AHandler tt /\
  (* the same chain, after the wizard has completed *)
  snd (apply_chain_at [WPreInstall; WEnsure str_POST] env_first_run ex_handler ex_env ex_world anon_post_configure) = AStatus 403.
Proof. vm_compute. auto. Qed.

(** A preInstall that decides when it is built: the install API stays open
    after the administrator exists; an optionalAuth that decides when it is
    built: a route registered before the account existed stays open. *)
Example wrap_time_decision_refuted :
  ~ request_time (@pre_install_at_wrap nat unit) /\
  authenticated ex_env (w_sess ex_world) anon_post_configure = false /\
  snd (chain_at [pre_install_at_wrap; apply_wrapper_at (WEnsure str_POST)] env_first_run ex_handler
         ex_env ex_world anon_post_configure) = AHandler tt /\
  snd (chain_at [apply_wrapper_at WPostInstall; optional_auth_at_wrap; apply_wrapper_at (WEnsure str_GET)] env_first_run ex_handler
         ex_env ex_world anon_get) = AHandler tt /\
  snd (apply_chain_at (http_register_chain str_GET) env_first_run ex_handler ex_env ex_world anon_get) = AStatus 403.
Proof.
  split; [|vm_compute; auto].
  intros Hrt. specialize (Hrt env_first_run ex_env ex_handler).
  apply (f_equal (fun h : handler nat unit => snd (h ex_env ex_world anon_post_configure))) in Hrt.
  vm_compute in Hrt. discriminate.
Qed.

(** * The routes of the source after set-up (checked on Gen/Routes.v in
      Proofs/Routes.v)

    After the wizard has completed ([firstRun] false, an account exists), in
    the SAME process, with the routes as they were registered before: a route
    is one of the five that are meant to be open (login, the two mobileconfig
    generators, /dns-query[/]), or its chain starts with preInstall (403,
    nothing runs), or it is guarded.  Every pattern of the wizard
    (/install.html, /control/install/...) is of the second kind. *)

Definition open_exception (rt : route) : bool :=
  let p := rt_pattern rt in
  match rt_kind rt with
  | Direct ws =>
      (eqb_bytes p p_login && bool_decide (ws = [WPostInstall; WEnsure str_POST]))
      || ((eqb_bytes p p_doh_mc || eqb_bytes p p_dot_mc) && bool_decide (ws = [WPostInstall]))
  | ViaRegister m => eqb_bytes m [] && (eqb_bytes p p_dnsq || eqb_bytes p p_dnsq_slash)
  | Unresolved _ => false
  end.

Definition starts_pre_install (ws : list wrapper) : bool :=
  match ws with WPreInstall :: _ => true | _ => false end.

Definition install_pattern (rt : route) : bool :=
  eqb_bytes (rt_pattern rt) p_install_html || has_prefix p_install_api (rt_pattern rt).

Definition guarded_route (rm : list wrapper) (rt : route) : bool :=
  match rt_kind rt with
  | ViaRegister m => negb (eqb_bytes m []) && bool_decide (rm = http_register_chain param_method)
  | Direct ws => guarded ws
  | Unresolved _ => false
  end.

Definition route_after_setup_ok (rm : list wrapper) (rt : route) : bool :=
  (if install_pattern rt then starts_pre_install (chain_of rm rt)
   else open_exception rt || starts_pre_install (chain_of rm rt) || guarded_route rm rt).

Theorem after_setup_sound {A R} rm rt :
  route_after_setup_ok rm rt = true ->
  (install_pattern rt = false /\ open_exception rt = true) \/
  (forall ew e (w : world A) r, e_first_run e = false ->
     blocks (apply_chain_at (A:=A) (R:=R) (chain_of rm rt) ew) e w r w (AStatus 403)) \/
  (forall ew e (w : world A) r,
     e_auth_required e = true -> is_public (r_path r) = false -> authenticated e (w_sess w) r = false ->
     exists w' (a : answer R), blocks (apply_chain_at (chain_of rm rt) ew) e w r w' a /\ session_effect e w r w').
Proof.
  unfold route_after_setup_ok. intros Hok.
  assert (Hpre : starts_pre_install (chain_of rm rt) = true ->
          forall ew e (w : world A) r, e_first_run e = false ->
            blocks (apply_chain_at (A:=A) (R:=R) (chain_of rm rt) ew) e w r w (AStatus 403)).
  { intros Hs ew e w r Hf. destruct (chain_of rm rt) as [|x ws]; [discriminate|].
    destruct x; try discriminate. apply pre_install_chain_closed, Hf. }
  destruct (install_pattern rt); [right; left; auto|].
  apply orb_true_iff in Hok as [Hok|Hg].
  - apply orb_true_iff in Hok as [Ho|Hs]; [left; auto|right; left; auto].
  - right. right. intros ew e w r Hreq Hpub Hauth. apply guarded_chain_built_anywhere; auto.
    unfold guarded_route in Hg. unfold chain_of. destruct (rt_kind rt) as [m|ws|]; [|apply guarded_In; exact Hg|discriminate].
    apply andb_true_iff in Hg as [_ Hg]. apply bool_decide_eq_true in Hg. rewrite Hg. cbn. auto.
Qed.

(** The constructors of the source evaluate nothing when they are called
    (tools/routes, Gen.Routes.wrappers_lazy): the four wrappers are there and
    every listed constructor is lazy. *)
Definition n_postInstall : bytes := [112;111;115;116;73;110;115;116;97;108;108]%N.
Definition n_preInstall : bytes := [112;114;101;73;110;115;116;97;108;108]%N.
Definition n_optionalAuth : bytes := [111;112;116;105;111;110;97;108;65;117;116;104]%N.
Definition n_ensure : bytes := [101;110;115;117;114;101]%N.

Definition wrappers_lazy_ok (wl : list (bytes * bool)) : bool :=
  forallb snd wl &&
  forallb (fun n => existsb (fun x => eqb_bytes (fst x) n) wl) [n_postInstall; n_preInstall; n_optionalAuth; n_ensure].

Example wrappers_lazy_ok_rejects :
  wrappers_lazy_ok [(n_postInstall, true); (n_preInstall, false); (n_optionalAuth, true); (n_ensure, true)] = false /\
  wrappers_lazy_ok [(n_postInstall, true); (n_optionalAuth, true); (n_ensure, true)] = false /\
  wrappers_lazy_ok [(n_postInstall, true); (n_preInstall, true); (n_optionalAuth, true); (n_ensure, true)] = true.
Proof. vm_compute. auto. Qed.

(** The skeleton of handleInstallConfigure as tools/routes reads it off the
    source (Gen.Routes.configure_code): [firstRun = false], [addUser],
    [startMods], [config.write], [registerControlHandlers] in this order; each
    of the three calls followed by [if err != nil { firstRun = true; ...;
    return }]; no other assignment to [globalContext.firstRun] in the handler;
    no other writer in package home than setupContext's
    [firstRun = detectFirstRun()].  What [do_configure] (and the harness, which
    cannot run startMods) follows. *)
Definition configure_code_ok (c : bool * bool * bool * bool) : bool :=
  let '(order, errs, no_other, writers) := c in order && errs && no_other && writers.

(** Response filtering behind the queue of pending engine rebuilds (C02,
    round 9).  Model/FilterQueue.v (C01, reused): rule changes arrive through
    the web handlers while the updates loop is idle, busy installing an older
    task, or away; the one-slot channel is drained before the new task is
    sent.  Here: once the queue is served, the RECORD check of response
    filtering (CNAME targets, addresses, hints of the upstream answer) is made
    with the rules of the LAST accepted change, whatever was pending or being
    installed when it arrived; with a non-blocking send instead of
    drain-then-send the answer revealing a name the latest rules block is
    delivered (refuted, witness). *)
From Coq Require Import List NArith Bool.
From AGH Require Import Base.Run Base.NetAddr Base.RuleEngine Model.Pipeline Proofs.Pipeline.
From AGH Require Import Model.PipelineLists Proofs.PipelineLists Model.FilterQueue Proofs.FilterQueue.
From AGH Require Model.Rewrites.
Import ListNotations.
Local Open Scope N_scope.

Section Ask.
  Variable sb par : bytes -> bool.
  Variable ss : bytes -> N -> option ssverdict.
  Variable srt : list Rewrites.entry -> list Rewrites.entry.

  (** Any history of handler calls, loop halves and loop runs; then the loop
      is left alone.  The first record of the answer that offends against the
      rules of the latest configuration replaces the answer. *)
  Theorem queue_offending_record_blocks st hs c up q r pre rr0 post res :
    let s := hrun (pinit st) hs in
    let a := match_request (allow_rules (q_conf s)) in
    let b := match_request (block_rules (q_conf s)) in
    response_filtering_applies a b sb par ss srt c q ->
    up (q_name q) (q_qtype q) = Some r ->
    rs_answer r = pre ++ rr0 :: post ->
    Forall (clean a b c (request_settings c q)) pre ->
    check_rr a b (request_settings c q) (strip_rr c rr0) = Some res ->
    let o := ask_q sb par ss srt (pquiesce s) c up q in
    o_resp o = Some (synthetic c (q_name q) (q_qtype q) (ips_from_rules res)) /\
    o_result o = res /\ r_filtered res = true /\ r_reason res = FilteredBlockList /\
    o_orig_kept o = true /\ o_calls o = [the_call q] /\ o_qname o = q_name q.
  Proof.
    cbv zeta. intros Ha Hu Hans Hpre Hc. rewrite served_queue_answers_with_last_change. unfold ask.
    apply (offending_record_blocks _ _ sb par ss srt c up q r pre rr0 post res Ha Hu Hans Hpre Hc).
  Qed.

  (** ... and an answer that is clean for the latest rules is delivered. *)
  Theorem queue_clean_answer_unchanged st hs c up q r :
    let s := hrun (pinit st) hs in
    let a := match_request (allow_rules (q_conf s)) in
    let b := match_request (block_rules (q_conf s)) in
    response_filtering_applies a b sb par ss srt c q ->
    up (q_name q) (q_qtype q) = Some r ->
    Forall (clean a b c (request_settings c q)) (rs_answer r) ->
    let o := ask_q sb par ss srt (pquiesce s) c up q in
    o_resp o = Some (with_answer r (map (strip_rr c) (rs_answer r))) /\
    o_orig_kept o = false /\ r_filtered (o_result o) = false /\ o_qname o = resp_qname r (q_name q).
  Proof.
    cbv zeta. intros Ha Hu Hcl. rewrite served_queue_answers_with_last_change. unfold ask.
    apply (clean_answer_unchanged _ _ sb par ss srt c up q r Ha Hu Hcl).
  Qed.

  (** The rules of the last set_rules call head the block engine that checks
      the records, whatever was queued or being installed when it arrived. *)
  Theorem queue_last_set_rules_decide st hs rs c up q :
    let s := handle (hrun (pinit st) hs) (QRules rs) in
    ask_q sb par ss srt (pquiesce s) c up q =
    process (match_request (allow_rules (q_conf s))) (match_request (rs ++ active (ls_block (q_conf s))))
            sb par ss srt c up q.
  Proof.
    cbv zeta.
    assert (E : handle (hrun (pinit st) hs) (QRules rs) = hrun (pinit st) (hs ++ [HHandle (QRules rs)])).
    { unfold hrun. rewrite fold_left_app. reflexivity. }
    rewrite E, served_queue_answers_with_last_change, <- E. unfold ask, block_rules.
    rewrite handle_conf. reflexivity.
  Qed.
End Ask.

(** * The non-blocking send, refuted at the level of the delivered answer

    Two set_rules calls while the loop is away ([exq_ops]); the second call's
    rule blocks b.a.test.  The question x.test is answered upstream with
    "x.test CNAME b.a.test".  Drain-then-send: blocking-mode answer.
    Non-blocking send: the second task is dropped, the engines are built from
    the first call's (empty) rules, the answer is delivered although the
    configuration in force blocks its CNAME target. *)
Definition exr_up : upstream :=
  fun _ _ => Some (mkResp 0 [mkRR [120;46;116;101;115;116;46] 300 (DCNAME [98;46;97;46;116;101;115;116;46])] false).

Theorem nonblocking_send_delivers_blocked_record :
  settled exq_ops = true /\
  let s := run apply_q ptake enq_nonblocking (pinit exq_st) exq_ops in
  let o := ask_engines (fun _ => false) (fun _ => false) no_ss Rewrites.isort
             (q_engine (pquiesce s)) (ex_cfg MDefault) exr_up ex_query_other in
  let want := ask (fun _ => false) (fun _ => false) no_ss Rewrites.isort (q_conf s) (ex_cfg MDefault) exr_up ex_query_other in
  o_orig_kept want = true /\ r_filtered (o_result want) = true /\
  o_orig_kept o = false /\ o_resp o = exr_up [] 0.
Proof. vm_compute. repeat split; reflexivity. Qed.

Example drain_then_send_blocks_revealed_record :
  let s := prun (pinit exq_st) exq_ops in
  let o := ask_q (fun _ => false) (fun _ => false) no_ss Rewrites.isort (pquiesce s) (ex_cfg MDefault) exr_up ex_query_other in
  o_orig_kept o = true /\ r_filtered (o_result o) = true.
Proof. vm_compute. split; reflexivity. Qed.

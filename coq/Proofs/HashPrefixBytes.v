(** Proofs about Model/HashPrefixBytes.v (C19, round 3): the byte encoding of
    cache items and the size accounting of one [Set]. *)
From Coq Require Import ZArith NArith List Bool Lia.
From AGH Require Import Base.Run Base.Bytes Model.HashPrefix Model.HashPrefixBytes Proofs.HashPrefix.
Import ListNotations.
Local Open Scope Z_scope.

Ltac Zify.zify_post_hook ::= Z.to_euclidean_division_equations.

Lemma be_bytes_length n : forall z, length (be_bytes n z) = n.
Proof. induction n; intros z; cbn [be_bytes]; auto. rewrite app_length, IHn. cbn. lia. Qed.

Lemma be_value_app l b : be_value (l ++ [b]) = be_value l * 256 + Z.of_N b.
Proof. unfold be_value. now rewrite fold_left_app. Qed.

Lemma be_value_be_bytes n : forall z, 0 <= z < 256 ^ Z.of_nat n -> be_value (be_bytes n z) = z.
Proof.
  induction n; intros z Hz.
  - cbn in *. lia.
  - cbn [be_bytes]. rewrite be_value_app, IHn.
    + rewrite Z2N.id by lia. lia.
    + rewrite Nat2Z.inj_succ, Z.pow_succ_r in Hz by lia. lia.
Qed.

Lemma be_bytes_byte_ok n : forall z, Forall byte_ok (be_bytes n z).
Proof.
  induction n; intros z; cbn [be_bytes]; [constructor|].
  apply Forall_app. split; auto. constructor; [|constructor]. unfold byte_ok. lia.
Qed.

Definition hashes_sized (hs : list hash) : Prop := Forall (fun h => length h = hash_size) hs.

Lemma concat_length_sized hs : hashes_sized hs -> length (concat hs) = (hash_size * length hs)%nat.
Proof.
  induction 1 as [|h hs Hh _ IH]; [reflexivity|].
  cbn [concat length]. rewrite app_length, IH, Hh. lia.
Qed.

(** [fromCacheItem]: the stored value is 8 bytes of expiry and 32 bytes per
    hash. *)
Lemma encode_item_length it : hashes_sized (c_hashes it) ->
  Z.of_nat (length (encode_item it)) = item_bytes it.
Proof.
  intros H. unfold encode_item, item_bytes.
  rewrite app_length, be_bytes_length, concat_length_sized by auto.
  unfold expiry_size, hash_size. lia.
Qed.

Lemma chunks_concat hs : hashes_sized hs -> forall fuel, (length hs <= fuel)%nat ->
  chunks fuel (concat hs) = hs.
Proof.
  induction 1 as [|h hs Hh Hs IH]; intros fuel Hf.
  - destruct fuel; reflexivity.
  - destruct fuel as [|f]; [cbn in Hf; lia|].
    cbn [concat]. cbn [chunks].
    destruct (h ++ concat hs) eqn:E.
    + apply (f_equal (@length N)) in E. rewrite app_length, Hh in E. cbn in E. discriminate.
    + rewrite <- E. rewrite <- Hh at 1 2.
      rewrite firstn_app, Nat.sub_diag, firstn_all. cbn [firstn]. rewrite app_nil_r.
      rewrite skipn_app, Nat.sub_diag, skipn_all. cbn [skipn app].
      f_equal. apply IH. cbn in Hf. lia.
Qed.

(** [toCacheItem (fromCacheItem item) = item] for 32-byte hashes and an expiry
    that fits 63 bits. *)
Lemma decode_encode_item it :
  hashes_sized (c_hashes it) -> 0 <= c_expiry it < 2 ^ 63 ->
  decode_item (encode_item it) = it.
Proof.
  intros Hs He. destruct it as [e hs]. cbn [c_hashes c_expiry] in *.
  unfold decode_item, encode_item. cbn [c_hashes c_expiry].
  assert (L : length (be_bytes expiry_size e) = expiry_size) by apply be_bytes_length.
  f_equal.
  - rewrite <- L at 1. rewrite firstn_app, Nat.sub_diag, firstn_all. cbn [firstn].
    rewrite app_nil_r. apply be_value_be_bytes. unfold expiry_size. cbn. lia.
  - rewrite <- L at 2. rewrite skipn_app, Nat.sub_diag, skipn_all. cbn [skipn app].
    apply chunks_concat; auto. rewrite app_length, concat_length_sized by auto.
    unfold hash_size. lia.
Qed.

Lemma item_encoding it :
  hashes_sized (c_hashes it) ->
  Z.of_nat (length (encode_item it)) = item_bytes it /\
  (0 <= c_expiry it < 2 ^ 63 -> decode_item (encode_item it) = it).
Proof. intros H. split; [now apply encode_item_length|now apply decode_encode_item]. Qed.

(** * Size accounting *)

Lemma entry_bytes_nonneg p it : 0 <= entry_bytes p it.
Proof. unfold entry_bytes, item_bytes. lia. Qed.

Lemma cache_bytes_nonneg c : 0 <= cache_bytes c.
Proof.
  induction c as [|[k v] c IH]; cbn [cache_bytes fold_right fst snd]; [lia|].
  fold (cache_bytes c). pose proof (entry_bytes_nonneg k v). lia.
Qed.

Lemma cache_bytes_cdel p c : cache_bytes (cdel p c) <= cache_bytes c.
Proof.
  unfold cdel. induction c as [|[k v] c IH]; cbn [filter cache_bytes fold_right fst snd]; [lia|].
  fold (cache_bytes c). pose proof (entry_bytes_nonneg k v).
  destruct (negb (eqb_bytes k p)); cbn [cache_bytes fold_right fst snd];
    fold (cache_bytes (filter (fun e => negb (eqb_bytes (fst e) p)) c)); lia.
Qed.

Lemma cache_bytes_evict ps : forall c,
  cache_bytes (fold_left (fun c q => cdel q c) ps c) <= cache_bytes c.
Proof.
  induction ps as [|q ps IH]; intros c; cbn [fold_left]; [lia|].
  pose proof (IH (cdel q c)). pose proof (cache_bytes_cdel q c). lia.
Qed.

Lemma cache_bytes_cset p it c :
  cache_bytes (cset p it c) = entry_bytes p it + cache_bytes (cdel p c).
Proof. reflexivity. Qed.

(** One [Set] that satisfies the golibs condition keeps a cache of at most
    [max] bytes within [max] bytes, whichever elements it deletes. *)
Lemma set_within_capacity max e p it c :
  0 < max -> cache_bytes c <= max -> set_fits max e p it c = true ->
  cache_bytes (cset_o e p it c) <= max.
Proof.
  intros Hm Hc. unfold set_fits, cset_o. cbv zeta.
  destruct (Z.eqb_spec max 0) as [->|_]; [lia|].
  pose proof (cache_bytes_evict (fst e) c) as H1. fold (evict (fst e) c) in *.
  destruct (entry_bytes p it >? max) eqn:G.
  - intros Hs. apply andb_true_iff in Hs. destruct Hs as [Hs _].
    apply negb_true_iff in Hs. rewrite Hs. lia.
  - intros Hs. apply andb_true_iff in Hs. destruct Hs as [Hs _].
    apply andb_true_iff in Hs. destruct Hs as [-> Hle].
    apply Z.leb_le in Hle. rewrite cache_bytes_cset.
    pose proof (cache_bytes_cdel p (evict (fst e) c)). lia.
Qed.

(** An element larger than the whole cache is refused and nothing is deleted
    for it. *)
Lemma set_too_large_dropped max e p it c :
  0 < max -> max < entry_bytes p it -> set_fits max e p it c = true ->
  cset_o e p it c = c.
Proof.
  intros Hm Hl. unfold set_fits, cset_o. cbv zeta.
  destruct (Z.eqb_spec max 0) as [->|_]; [lia|].
  replace (entry_bytes p it >? max) with true by (symmetry; apply Z.gtb_lt; lia).
  intros Hs. apply andb_true_iff in Hs. destruct Hs as [Hs Hn].
  apply negb_true_iff in Hs. rewrite Hs. destruct (fst e); [reflexivity|discriminate].
Qed.

(** Through [storeInCache], [Check] and whole histories: if every [Set]
    satisfies the golibs condition, the cache never exceeds its size. *)
Lemma store_pos_within max exp resp : 0 < max -> forall ps evs c,
  cache_bytes c <= max -> store_pos_fits max exp resp ps evs c = true ->
  cache_bytes (fst (store_pos exp resp ps evs c)) <= max.
Proof.
  intros Hm. induction ps as [|p ps IH]; intros evs c Hc; cbn [store_pos store_pos_fits fst]; auto.
  destruct (pop evs) as [e evs']. intros H. apply andb_true_iff in H. destruct H as [H1 H2].
  apply IH; auto. now apply set_within_capacity.
Qed.

Lemma store_neg_within max exp keys : 0 < max -> forall l evs c,
  cache_bytes c <= max -> store_neg_fits max exp keys l evs c = true ->
  cache_bytes (fst (store_neg exp keys l evs c)) <= max.
Proof.
  intros Hm. induction l as [|h l IH]; intros evs c Hc; cbn [store_neg store_neg_fits fst]; auto.
  destruct (cget (prefix_of h) c); [now apply IH|].
  destruct (mem_hash (prefix_of h) keys); [now apply IH|].
  destruct (pop evs) as [e evs']. intros H. apply andb_true_iff in H. destruct H as [H1 H2].
  apply IH; auto. now apply set_within_capacity.
Qed.

Lemma store_within max exp to_req resp order evs c : 0 < max ->
  cache_bytes c <= max -> store_fits max exp to_req resp order evs c = true ->
  cache_bytes (fst (store_in_cache exp to_req resp order evs c)) <= max.
Proof.
  intros Hm Hc. unfold store_fits, store_in_cache. cbv zeta. intros H.
  apply andb_true_iff in H. destruct H as [H1 H2].
  pose proof (store_pos_within max exp resp Hm _ evs c Hc H1) as P.
  destruct (store_pos exp resp _ evs c) as [c1 evs1]. cbn [fst] in P.
  now apply store_neg_within.
Qed.

Section Fits.
  Variable sha : bytes -> hash.
  Variable pubsuf : bytes -> bytes * bool.
  Variable suffix : bytes.
  Variable cache_time : Z.
  Variable max : Z.
  Hypothesis Hmax : 0 < max.

  Lemma check_within svc order evs now host c :
    cache_bytes c <= max ->
    check_fits sha pubsuf cache_time max svc order evs now host c = true ->
    cache_bytes (fst (check sha pubsuf suffix cache_time svc order evs now host c)) <= max.
  Proof.
    intros Hc. unfold check_fits, check.
    destruct (find_in_cache now c (hostname_to_hashes sha pubsuf host)) as [| |hs]; cbn [fst]; auto.
    destruct (svc (map prefix_of hs)) as [strs|]; cbn [fst]; auto.
    intros H. pose proof (store_within max _ hs (parse_txt strs) order evs c Hmax Hc H) as P.
    destruct (store_in_cache _ hs (parse_txt strs) order evs c). exact P.
  Qed.

  Lemma step_within o st :
    cache_bytes (snd st) <= max ->
    match o with
    | OCheck host svc order evs =>
        check_fits sha pubsuf cache_time max svc order evs (fst st) host (snd st) = true
    | _ => True
    end ->
    cache_bytes (snd (fst (step sha pubsuf suffix cache_time o st))) <= max.
  Proof.
    destruct st as [now c]. cbn [fst snd]. intros Hc. destruct o as [host svc order evs|d|ps]; cbn [step].
    - intros H. pose proof (check_within svc order evs now host c Hc H) as P.
      destruct (check sha pubsuf suffix cache_time svc order evs now host c). exact P.
    - auto.
    - intros _. cbn [fst snd]. pose proof (cache_bytes_evict ps c). unfold evict in *. lia.
  Qed.

  Theorem run_within_capacity : forall ops st,
    cache_bytes (snd st) <= max ->
    run_fits sha pubsuf suffix cache_time max ops st = true ->
    Forall (fun r => cache_bytes (snd (fst r)) <= max) (run sha pubsuf suffix cache_time ops st).
  Proof.
    induction ops as [|o ops IH]; intros st Hc; cbn [run run_fits]; [constructor|].
    intros H. apply andb_true_iff in H. destruct H as [H1 H2].
    assert (Hs : cache_bytes (snd (fst (step sha pubsuf suffix cache_time o st))) <= max).
    { apply step_within; auto. destruct o; auto. }
    constructor; auto.
  Qed.
End Fits.

(** A history on a cache of 45 bytes: the negative entry (10 bytes) pushes the
    positive one (42 bytes) out and the other way round. *)
Definition ops45 : list op :=
  let pe := prefix_of (Examples.sha Examples.evil) in
  let pc := prefix_of (Examples.sha [99;46;101;118;105;108;46;99;111;46;117;107]%N) in
  [OCheck Examples.host1 (db_service Examples.db) [pe] [([], true); ([pe], true)];
   OCheck Examples.host1 (db_service Examples.db) [pe] [([pc], true)];
   OCheck Examples.host1 (db_service Examples.db) [] []].

(** Non-vacuity: an element of one hash is 42 bytes; in a cache of 60 bytes
    that holds one such element, a second one fits only if the first goes. *)
Example set_example :
  let h1 := Examples.sha Examples.evil in
  let h2 := Examples.sha Examples.twin ++ [] in
  let p1 := prefix_of h1 in
  let p2 : prefix := [7%N; 7%N] in
  let it1 := {| c_expiry := 3650; c_hashes := [h1] |} in
  let it2 := {| c_expiry := 3650; c_hashes := [h2] |} in
  let c := cset p1 it1 [] in
  entry_bytes p1 it1 = 42 /\ cache_bytes c = 42 /\
  Z.of_nat (length (encode_item it1)) = 40 /\ decode_item (encode_item it1) = it1 /\
  set_fits 60 ([], true) p2 it2 c = false /\
  set_fits 60 ([p1], true) p2 it2 c = true /\
  set_fits 100 ([p1], true) p2 it2 c = false /\
  cache_bytes (cset_o ([p1], true) p2 it2 c) = 42 /\
  set_fits 41 ([], false) p2 it2 [] = true /\ set_fits 41 ([], true) p2 it2 [] = false /\
  run_fits Examples.sha Examples.pubsuf Examples.sfx Examples.ct 45 ops45 (0, []) = true /\
  map (fun r => (cache_bytes (snd (fst r)), match snd r with Some o => o_sets_left o | None => 9%nat end))
      (run Examples.sha Examples.pubsuf Examples.sfx Examples.ct ops45 (0, []))
  = [(10, 0%nat); (42, 0%nat); (42, 0%nat)].
Proof.
  cbv zeta. repeat (split; [vm_compute; reflexivity|]). vm_compute. reflexivity.
Qed.

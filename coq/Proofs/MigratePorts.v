(** C13, part 9 (round 6): the ports.  What [validateConfig] demands of the
    listening ports ([Model/MigratePorts.v]: non-zero ports of one transport
    pairwise distinct, zero = off, skipped) is preserved by every upgrade:
    a document whose ports were valid under its own schema version upgrades
    to one whose ports the loader of the current version accepts.

    Almost everything is frame: no step concerns [tls.*] or the [port] of the
    DNS section ([C13_steps_within_footprints] gives the lookups back
    unchanged); step 2 renames the section that holds [port], step 23 folds
    [bind_host] / [bind_port] into the text [http.address], from which the
    loader parses the port back ([port_of_addr_join]).  Step 23 may turn the
    web port into 0 (a [bind_host] without a [bind_port]): a listener
    switched off never makes two others collide ([ports_ok_web_zero]) -- this
    is where the rule "zero ports are skipped" is needed, and where the
    variant that counts zeros fails. *)
From Coq Require Import List ZArith String Ascii Bool Lia Arith DecimalString DecimalN DecimalPos.
From AGH Require Import Model.Migrate Model.MigrateLoad Model.MigrateFootprint Model.MigratePorts
  Proofs.Migrate Proofs.MigrateFrame Proofs.MigrateSim Proofs.MigrateElems Proofs.MigrateFootprint
  Proofs.MigrateLoadable Proofs.MigrateLoadableC Proofs.MigrateLoadableH Model.MigrateFile Proofs.MigrateFile.
Import ListNotations.
Local Open Scope string_scope.
Local Open Scope list_scope.

(** ** The text of an address and its port *)

Lemma after_last_colon_app h d :
  after_last_colon d = None -> after_last_colon (h ++ String colon d)%string = Some d.
Proof.
  intros H. induction h as [|c h IH]; cbn [append after_last_colon].
  - rewrite H. now rewrite Ascii.eqb_refl.
  - now rewrite IH.
Qed.

Lemma no_colon_digits u : after_last_colon (NilEmpty.string_of_uint u) = None.
Proof. induction u; cbn [NilEmpty.string_of_uint after_last_colon]; try rewrite IHu; reflexivity. Qed.

Lemma no_colon_dec z : after_last_colon (dec z) = None.
Proof.
  unfold dec, NilZero.string_of_uint.
  destruct (N.to_uint (Z.to_N z)) eqn:E; try (rewrite <- E; apply no_colon_digits); reflexivity.
Qed.

Lemma to_uint_nonnil n : N.to_uint n <> Decimal.Nil.
Proof.
  destruct n as [|p]; cbn; [discriminate|]. apply DecimalPos.Unsigned.to_uint_nonnil.
Qed.

Lemma uint_of_dec z : (0 <= z)%Z ->
  option_map (fun u => Z.of_N (N.of_uint u)) (NilZero.uint_of_string (dec z)) = Some z.
Proof.
  intros Hz. unfold dec. rewrite NilZero.usu by apply to_uint_nonnil. cbn [option_map].
  rewrite DecimalN.Unsigned.of_to. now rewrite Z2N.id.
Qed.

(** What step 23 writes is read back by the loader as the same port. *)
Lemma port_of_addr_join host p :
  in_u16 p = true -> port_of_addr (host ++ String ":" (dec p))%string = Some p.
Proof.
  intros Hp. unfold port_of_addr.
  change (host ++ String ":" (dec p))%string with (host ++ String colon (dec p))%string.
  rewrite (after_last_colon_app host _ (no_colon_dec p)).
  assert (Hz : (0 <= p)%Z) by (unfold in_u16 in Hp; lia).
  pose proof (uint_of_dec p Hz) as U.
  destruct (NilZero.uint_of_string (dec p)) as [u|]; [|discriminate U].
  cbn [option_map] in U. injection U as ->. now rewrite Hp.
Qed.

Example port_of_addr_examples :
  port_of_addr "127.0.0.1:3000" = Some 3000%Z /\ port_of_addr "[::1]:0" = Some 0%Z /\
  port_of_addr "0.0.0.0:65535" = Some 65535%Z /\ port_of_addr "0.0.0.0:65536" = None /\
  port_of_addr "0.0.0.0:" = None /\ port_of_addr "localhost" = None.
Proof. repeat split; vm_compute; reflexivity. Qed.

(** ** A listener switched off *)

Lemma nodupb_filter f l : nodupb l = true -> nodupb (filter f l) = true.
Proof.
  induction l as [|x l IH]; cbn [nodupb filter]; [reflexivity|]. intros H.
  apply andb_prop in H. destruct H as [H1 H2]. destruct (f x); [|auto].
  cbn [nodupb]. rewrite (IH H2), andb_true_r.
  apply negb_true_iff. apply negb_true_iff in H1.
  destruct (existsb (Z.eqb x) (filter f l)) eqn:E; [|reflexivity].
  apply existsb_exists in E. destruct E as (y & Hy & Exy). apply filter_In in Hy.
  rewrite <- H1. symmetry. apply existsb_exists. exists y. tauto.
Qed.

(** With zero ports skipped, replacing the web port by 0 keeps the verdict. *)
Lemma ports_ok_web_zero p :
  ports_ok p = true ->
  ports_ok {| p_tls := p_tls p; p_web := 0; p_dns := p_dns p; p_https := p_https p; p_dot := p_dot p;
              p_doq := p_doq p; p_dnscrypt := p_dnscrypt p |} = true.
Proof.
  unfold ports_ok, ports_ok_gen, add_ports, tcp_ports, udp_ports. cbn [p_tls p_web p_dns p_https p_dot p_doq p_dnscrypt].
  intros H. apply andb_prop in H. destruct H as [H1 H2]. rewrite H2, andb_true_r.
  cbn [filter] in *. change (negb (0 =? 0)%Z) with false. cbv iota.
  destruct (negb (p_web p =? 0)%Z); [|exact H1].
  cbn [nodupb] in H1. apply andb_prop in H1. tauto.
Qed.

(** ** Lookups *)

Lemma look_key k m : look [SK k] m = get k m.
Proof. reflexivity. Qed.

Lemma look_key2 k j m : look [SK k; SK j] m = match get k m with Some (VObj s) => get j s | _ => None end.
Proof. unfold look. cbn [lookup]. destruct (get k m) as [[]|]; reflexivity. Qed.

(** The paths [doc_ports] and [web_together] read at version [v]. *)
Definition port_paths (v : nat) : list path :=
  [[SK "tls"; SK "enabled"]; [SK "tls"; SK "port_https"]; [SK "tls"; SK "port_dns_over_tls"];
   [SK "tls"; SK "port_dns_over_quic"]; [SK "tls"; SK "port_dnscrypt"]; [SK (dns_key v); SK "port"];
   [SK "bind_port"]; [SK "bind_host"]; [SK "http"; SK "address"]].

Lemma doc_ports_ext v m m' :
  (forall p, In p (port_paths v) -> look p m' = look p m) -> doc_ports v m' = doc_ports v m.
Proof.
  intros H. unfold doc_ports, web_port.
  rewrite (H [SK "tls"; SK "enabled"]), (H [SK "tls"; SK "port_https"]), (H [SK "tls"; SK "port_dns_over_tls"]),
    (H [SK "tls"; SK "port_dns_over_quic"]), (H [SK "tls"; SK "port_dnscrypt"]), (H [SK (dns_key v); SK "port"]),
    (H [SK "bind_port"]), (H [SK "http"; SK "address"]) by (cbn [port_paths In]; tauto).
  reflexivity.
Qed.

Lemma web_together_ext v m m' :
  (forall p, In p (port_paths v) -> look p m' = look p m) -> web_together m' = web_together m.
Proof.
  intros H. unfold web_together. rewrite <- !look_key.
  rewrite (H [SK "bind_port"]), (H [SK "bind_host"]) by (cbn [port_paths In]; tauto). reflexivity.
Qed.

Lemma doc_ports_class v w m : dns_key v = dns_key w -> web_flat v = web_flat w -> doc_ports v m = doc_ports w m.
Proof. intros E1 E2. unfold doc_ports, web_port. now rewrite E1, E2. Qed.

(** ** The invariant and its preservation, step by step *)

Definition PInv (v : nat) (m : obj) : Prop :=
  loadable v m = true /\ (web_flat v = true -> web_together m = true) /\ doc_ports_ok v m = true.

Section WithOracles.
Variable O : oracles.

(** A step whose footprint holds none of the paths, between two versions that
    spell the ports alike. *)
Lemma frame_keeps n f s :
  stays f s -> step_keeps L n s ->
  forallb (outside f) (port_paths n) = true ->
  dns_key (S n) = dns_key n -> web_flat (S n) = web_flat n ->
  step_keeps PInv n s.
Proof.
  intros St KL Ho Ed Ew m m' (Hl & Hw & Hp) E.
  assert (Hlook : forall p, In p (port_paths n) -> look p m' = look p m).
  { intros p Hin. unfold look. symmetry. apply (Within_outside _ _ _ _ (St _ _ E)).
    rewrite forallb_forall in Ho. now apply Ho. }
  split; [exact (KL _ _ Hl E)|]. split.
  - rewrite Ew, (web_together_ext n _ _ Hlook). exact Hw.
  - unfold doc_ports_ok, doc_ports_ok_gen in *.
    now rewrite (doc_ports_class (S n) n m' Ed Ew), (doc_ports_ext n _ _ Hlook).
Qed.

Lemma table_stays n f s :
  nth_error fp_table n = Some f -> nth_error (map snd (steps O)) n = Some s -> stays f s.
Proof. apply table_step_stays. Qed.

Lemma table_keeps n s : nth_error (map snd (steps O)) n = Some s -> step_keeps L n s.
Proof. intros H. exact (kept_nth L _ 0 n s (all_steps_kept O) H). Qed.

(** A key that only a later version introduces is absent from a loadable document. *)
Lemma fields_none m fs k : fields_ok m fs = true -> In (k, SNone) fs -> get k m = None.
Proof.
  induction fs as [|[k' s'] fs IH]; cbn [fields_ok In]; [tauto|]. intros H [E|Hin].
  - injection E as -> ->. apply andb_prop in H. destruct H as [H _].
    destruct (get k m); [discriminate H | reflexivity].
  - apply andb_prop in H. now apply IH.
Qed.

Ltac later_key_absent v k Hl :=
  unfold loadable in Hl;
  let s := eval vm_compute in (schema v) in
  change (schema v) with s in Hl;
  rewrite conforms_obj in Hl;
  apply (fields_none _ _ k Hl);
  repeat (first [left; reflexivity | right]).

Lemma dns_absent_at_1 m : loadable 1 m = true -> get "dns" m = None.
Proof. intros Hl. later_key_absent 1%nat "dns" Hl. Qed.

Lemma http_absent_at_22 m : loadable 22 m = true -> get "http" m = None.
Proof. intros Hl. later_key_absent 22%nat "http" Hl. Qed.

(** Step 2: the section that holds [port] is renamed. *)
Lemma keeps2 : step_keeps PInv 1 step2.
Proof.
  intros m m' (Hl & Hw & Hp) E.
  pose proof (table_stays 1 fp2 step2 eq_refl eq_refl _ _ E) as W.
  assert (Hlook : forall p, In p [[SK "tls"; SK "enabled"]; [SK "tls"; SK "port_https"]; [SK "tls"; SK "port_dns_over_tls"];
                                  [SK "tls"; SK "port_dns_over_quic"]; [SK "tls"; SK "port_dnscrypt"];
                                  [SK "bind_port"]; [SK "bind_host"]; [SK "http"; SK "address"]] ->
                           look p m' = look p m).
  { intros p Hin. unfold look. symmetry. apply (Within_outside _ _ _ _ W).
    cbn [In] in Hin. repeat (destruct Hin as [<-|Hin]; [reflexivity|]). destruct Hin. }
  assert (Hdns : look [SK "dns"; SK "port"] m' = look [SK "coredns"; SK "port"] m).
  { pose proof (dns_absent_at_1 _ Hl) as A.
    unfold step2 in E. cbn [stamp bind] in E. unfold move_in, field_val in E.
    rewrite get_upd_ne in E by discriminate. rewrite !look_key2.
    destruct (get "coredns" m) as [c|] eqn:C.
    - assert (E' : m' = del "coredns" (upd "dns" c (upd "schema_version" (VInt 2) m))).
      { destruct c; cbn in E; now injection E as <-. }
      subst m'. rewrite get_del_ne by discriminate. now rewrite get_upd_eq.
    - cbn in E. injection E as <-. rewrite get_upd_ne by discriminate. now rewrite A. }
  split; [exact (table_keeps 1 step2 eq_refl _ _ Hl E)|]. split.
  - intros _. unfold web_together. rewrite <- !look_key.
    rewrite (Hlook [SK "bind_port"]), (Hlook [SK "bind_host"]) by (cbn [In]; tauto).
    rewrite !look_key. exact (Hw eq_refl).
  - unfold doc_ports_ok, doc_ports_ok_gen, doc_ports, web_port in *.
    change (dns_key 2) with "dns". change (dns_key 1) with "coredns" in Hp.
    change (web_flat 2) with true. change (web_flat 1) with true in Hp. cbv iota in *.
    rewrite Hdns.
    rewrite (Hlook [SK "tls"; SK "enabled"]), (Hlook [SK "tls"; SK "port_https"]), (Hlook [SK "tls"; SK "port_dns_over_tls"]),
      (Hlook [SK "tls"; SK "port_dns_over_quic"]), (Hlook [SK "tls"; SK "port_dnscrypt"]), (Hlook [SK "bind_port"])
      by (cbn [In]; tauto).
    exact Hp.
Qed.

(** Reading [bind_port] the way step 23 does and the way the loader of
    version 22 did: the same port, or none in the file (then step 23 writes 0). *)
Lemma bind_port_cases m :
  field_val TInt m "bind_port" <> FErr ->
  forall z, port_read (get "bind_port" m) 3000 = Some z ->
  in_u16 (zint (fv_val TInt (field_val TInt m "bind_port")) mod 65536)%Z = true /\
  ((zint (fv_val TInt (field_val TInt m "bind_port")) mod 65536)%Z = z \/
   (zint (fv_val TInt (field_val TInt m "bind_port")) mod 65536)%Z = 0%Z).
Proof.
  intros NE z R. unfold field_val in *. destruct (get "bind_port" m) as [v|]; cbn in *.
  - destruct v as [| |x| |[x|] t| | | | | |]; cbn in *; try congruence;
      try (split; [reflexivity | right; reflexivity]);
      (destruct (in_u16 x) eqn:U; [|discriminate R]; injection R as <-;
       unfold in_u16 in U; rewrite Z.mod_small by lia; split; [unfold in_u16; lia | left; reflexivity]).
  - split; [reflexivity | right; reflexivity].
Qed.

(** Step 23: host and port become one text. *)
Lemma keeps23 : step_keeps PInv 22 (step23 O).
Proof.
  intros m m' (Hl & Hw & Hp) E.
  pose proof (table_stays 22 fp23 (step23 O) eq_refl eq_refl _ _ E) as W.
  assert (Hlook : forall p, In p [[SK "tls"; SK "enabled"]; [SK "tls"; SK "port_https"]; [SK "tls"; SK "port_dns_over_tls"];
                                  [SK "tls"; SK "port_dns_over_quic"]; [SK "tls"; SK "port_dnscrypt"];
                                  [SK "dns"; SK "port"]] ->
                           look p m' = look p m).
  { intros p Hin. unfold look. symmetry. apply (Within_outside _ _ _ _ W).
    cbn [In] in Hin. repeat (destruct Hin as [<-|Hin]; [reflexivity|]). destruct Hin. }
  split; [exact (table_keeps 22 (step23 O) eq_refl _ _ Hl E)|]. split; [discriminate|].
  specialize (Hw eq_refl).
  unfold doc_ports_ok, doc_ports_ok_gen, doc_ports in *.
  change (dns_key 23) with "dns". change (dns_key 22) with "dns" in Hp.
  rewrite (Hlook [SK "tls"; SK "enabled"]), (Hlook [SK "tls"; SK "port_https"]), (Hlook [SK "tls"; SK "port_dns_over_tls"]),
    (Hlook [SK "tls"; SK "port_dns_over_quic"]), (Hlook [SK "tls"; SK "port_dnscrypt"]), (Hlook [SK "dns"; SK "port"])
    by (cbn [In]; tauto).
  destruct (bool_read (look [SK "tls"; SK "enabled"] m) false) as [tls|]; [|discriminate Hp]. cbn [opt_bind] in *.
  unfold web_port in *. change (web_flat 23) with false. change (web_flat 22) with true in Hp. cbv iota in *.
  rewrite look_key in Hp. rewrite look_key2.
  destruct (port_read (get "bind_port" m) 3000) as [z|] eqn:R; [|discriminate Hp]. cbn [opt_bind] in Hp.
  (* the web port after the step: the same, 0, or (nothing happened) the default both times *)
  assert (Web : exists w, match get "http" m' with Some (VObj s) => get "address" s | _ => None end = w /\
                  (match w with None | Some VNull => Some 3000%Z | Some (VStr s) => port_of_addr s | _ => None end = Some z \/
                   match w with None | Some VNull => Some 3000%Z | Some (VStr s) => port_of_addr s | _ => None end = Some 0%Z)).
  { unfold step23 in E. cbn [stamp bind] in E.
    set (m0 := upd "schema_version" (VInt 23) m) in *.
    assert (G : forall k, k <> "schema_version" -> get k m0 = get k m) by (intros k Hk; unfold m0; now apply get_upd_ne).
    unfold field_val in E at 1. rewrite G in E by discriminate.
    destruct (get "bind_host" m) as [b|] eqn:B.
    - (* the step runs *)
      assert (exists bs, (match b with VNull => FOk (zero TStr) | _ => if has_ty TStr b then FOk (coerce TStr b) else FErr end) = FOk bs
                         \/ (match b with VNull => FOk (zero TStr) | _ => if has_ty TStr b then FOk (coerce TStr b) else FErr end) = FErr) as (bs & [Eb|Eb]).
      { exists (match b with VNull => zero TStr | _ => coerce TStr b end). destruct b as [| | | |[?|] ?| | | | | |]; cbn; auto. }
      2:{ rewrite Eb in E. discriminate E. }
      rewrite Eb in E. destruct (o_addr O (zstr bs)) as [host|]; [|discriminate E].
      assert (FP : field_val TInt m0 "bind_port" = field_val TInt m "bind_port") by (unfold field_val; now rewrite G by discriminate).
      rewrite FP in E.
      destruct (field_val TInt m "bind_port") as [|pv|] eqn:FB; [| |discriminate E];
        (destruct (field_val TInt m0 "web_session_ttl"); [| |discriminate E]); injection E as <-;
        rewrite get_del_ne, get_del_ne, get_del_ne, get_upd_eq by discriminate; cbn [get String.eqb Ascii.eqb Bool.eqb];
        eexists; (split; [reflexivity|]); cbv beta iota;
        (assert (NE : field_val TInt m "bind_port" <> FErr) by (rewrite FB; discriminate));
        destruct (bind_port_cases m NE z R) as (U & C); rewrite FB in U, C; cbn [fv_val zero zint] in U, C;
        rewrite (port_of_addr_join host _ U); destruct C as [C|C]; rewrite C; auto.
    - (* bind_host absent: nothing but the stamp; there is no bind_port either, and no http yet *)
      cbn in E. injection E as <-. rewrite G by discriminate. rewrite (http_absent_at_22 _ Hl).
      exists None. split; [reflexivity|]. left.
      unfold web_together in Hw. rewrite B in Hw. destruct (get "bind_port" m); [discriminate Hw|]. cbn in R. exact R. }
  destruct Web as (w & -> & [Ew|Ew]); rewrite Ew; cbn [opt_bind].
  - exact Hp.
  - destruct (port_read (look [SK "dns"; SK "port"] m) 53) as [dns|]; [|discriminate Hp]. cbn [opt_bind] in *.
    destruct (port_read (look [SK "tls"; SK "port_https"] m) 443) as [a1|]; [|discriminate Hp]. cbn [opt_bind] in *.
    destruct (port_read (look [SK "tls"; SK "port_dns_over_tls"] m) 853) as [a2|]; [|discriminate Hp]. cbn [opt_bind] in *.
    destruct (port_read (look [SK "tls"; SK "port_dns_over_quic"] m) 853) as [a3|]; [|discriminate Hp]. cbn [opt_bind] in *.
    destruct (port_read (look [SK "tls"; SK "port_dnscrypt"] m) 0) as [a4|]; [|discriminate Hp]. cbn [opt_bind] in *.
    exact (ports_ok_web_zero _ Hp).
Qed.

(** The other 27 steps are frame. *)
Ltac frame_step n :=
  let f := eval vm_compute in (nth_error fp_table n) in
  let s := eval cbn [nth_error map snd steps] in (nth_error (map snd (steps O)) n) in
  match f with
  | Some ?f' =>
      match s with
      | Some ?s' =>
          exact (frame_keeps n f' s' (table_stays n f' s' eq_refl eq_refl) (table_keeps n s' eq_refl)
                   eq_refl eq_refl eq_refl)
      end
  end.

Lemma all_steps_keep_ports : kept_from PInv 0 (skipn 0 (map snd (steps O))).
Proof.
  cbn [skipn map snd steps kept_from].
  repeat match goal with
  | |- _ /\ _ => split
  | |- True => exact I
  | |- step_keeps PInv 1 _ => exact keeps2
  | |- step_keeps PInv 22 _ => exact keeps23
  | |- step_keeps PInv ?n _ => frame_step n
  end.
Qed.

(** The theorem: every range of steps keeps the ports valid. *)
Theorem upgrade_preserves_ports_ok cur tgt m m' : (cur <= tgt <= 29)%nat ->
  upgrade O cur tgt m = Ok m' ->
  loadable cur m = true -> (web_flat cur = true -> web_together m = true) ->
  doc_ports_ok cur m = true ->
  doc_ports_ok tgt m' = true.
Proof.
  intros R H Hl Hw Hp.
  assert (G : PInv tgt m').
  { apply (upgrade_kept O PInv 0 cur tgt m m' all_steps_keep_ports); [lia | lia | exact H |].
    split; [exact Hl | split; [exact Hw | exact Hp]]. }
  exact (proj2 (proj2 G)).
Qed.

(** ... together with the kinds: the loader's verdict on the fields the steps touch. *)
Lemma loadable_ports_split v m : loadable_ports v m = true -> loadable v m = true /\ doc_ports_ok v m = true.
Proof. unfold loadable_ports. apply andb_prop. Qed.

Lemma loadable_ports_join v m : loadable v m = true -> doc_ports_ok v m = true -> loadable_ports v m = true.
Proof. intros A B. unfold loadable_ports. now rewrite A, B. Qed.

Theorem upgrade_preserves_loadable_ports cur tgt m m' : (cur <= tgt <= 29)%nat ->
  upgrade O cur tgt m = Ok m' ->
  (web_flat cur = true -> web_together m = true) ->
  loadable_ports cur m = true -> loadable_ports tgt m' = true.
Proof.
  intros R H Hw Hlp. destruct (loadable_ports_split _ _ Hlp) as [Hl Hp]. apply loadable_ports_join.
  - exact (loadable_preserved O cur tgt m m' R H Hl).
  - exact (upgrade_preserves_ports_ok cur tgt m m' R H Hl Hw Hp).
Qed.

End WithOracles.

(** ** Through [Migrate] and the file *)

(** Serialising and re-reading keeps what the ports read. *)
Lemma get_norm_obj' k m : get k (norm_obj m) = option_map norm (get k m).
Proof. apply get_norm_obj. Qed.

Lemma look2_norm k j m :
  look [SK k; SK j] (norm_obj m) = option_map norm (look [SK k; SK j] m).
Proof.
  rewrite !look_key2, get_norm_obj'. destruct (get k m) as [[| | | |[?|] ?| | |s| | |]|]; cbn [option_map norm]; try reflexivity.
  change (map (fun kv => (fst kv, norm (snd kv))) s) with (norm_obj s). apply get_norm_obj'.
Qed.

Lemma port_read_norm o d : port_read (option_map norm o) d = port_read o d.
Proof. destruct o as [[| | | |[?|] ?| | | | | |]|]; reflexivity. Qed.

Lemma bool_read_norm o d : bool_read o d = Some true \/ bool_read o d = Some false -> bool_read (option_map norm o) d = bool_read o d.
Proof. destruct o as [[| | | |[?|] ?| | | | | |]|]; cbn; intros [H|H]; congruence. Qed.

Lemma doc_ports_norm v m p : doc_ports v m = Some p -> doc_ports v (norm_obj m) = Some p.
Proof.
  unfold doc_ports, web_port. rewrite !look2_norm, !port_read_norm, look_key, look_key, get_norm_obj', port_read_norm.
  intros H.
  destruct (bool_read (look [SK "tls"; SK "enabled"] m) false) as [b|] eqn:B; [|discriminate H].
  rewrite bool_read_norm by (rewrite B; destruct b; auto). rewrite B. cbn [opt_bind] in *.
  destruct (web_flat v); [exact H|].
  destruct (look [SK "http"; SK "address"] m) as [[| | | |[?|] ?| | | | | |]|]; cbn [option_map norm] in *; try exact H; discriminate H.
Qed.

Lemma doc_ports_ok_norm v m : doc_ports_ok v m = true -> doc_ports_ok v (norm_obj m) = true.
Proof.
  unfold doc_ports_ok, doc_ports_ok_gen. destruct (doc_ports v m) as [p|] eqn:E; [|discriminate].
  now rewrite (doc_ports_norm v m p E).
Qed.

(** What [Migrate] returns for a document whose ports are valid under its own
    schema version holds ports the loader accepts, as the tree the steps leave
    and as the file written from it. *)
Theorem migrate_output_ports_ok O top t a :
  migrate O top t = ONew a ->
  let m := input_map top in
  loadable (nat_version m) m = true ->
  (web_flat (nat_version m) = true -> web_together m = true) ->
  doc_ports_ok (nat_version m) m = true ->
  doc_ports_ok (Z.to_nat t) a = true /\ doc_ports_ok (Z.to_nat t) (norm_obj a) = true.
Proof.
  intros H m Hl Hw Hp. destruct (migrate_new_inv' O _ _ _ H) as (_ & R & U). unfold last_version in R.
  assert (V0 : (0 <= version_of (input_map top))%Z) by (apply Z.mod_pos_bound; lia).
  assert (P1 : doc_ports_ok (Z.to_nat t) a = true).
  { apply (upgrade_preserves_ports_ok O (nat_version m) (Z.to_nat t) m a); auto.
    unfold nat_version, m. lia. }
  split; [exact P1 | now apply doc_ports_ok_norm].
Qed.

(** ** The caller: [parseConfig] with a loader that checks the ports

    [Proofs/MigrateFile.v] leaves "the loader accepts what the upgrade of this
    file produces" as the hypothesis [upgrade_acceptable] of
    [parse_config_error_keeps_file]; for the port clause of the loader it is
    now a theorem. *)
Theorem ports_upgrade_acceptable O top :
  let m := input_map top in
  loadable (nat_version m) m = true ->
  (web_flat (nat_version m) = true -> web_together m = true) ->
  doc_ports_ok (nat_version m) m = true ->
  upgrade_acceptable O (doc_ports_ok 29) (FDoc top).
Proof.
  intros m Hl Hw Hp top' m' E M. injection E as <-.
  exact (proj2 (migrate_output_ports_ok O top 29 m' M Hl Hw Hp)).
Qed.

(** A start on a file whose ports are valid under its own schema never ends
    with the upgraded file on disk and the port check refusing it: every error
    leaves the file as it was. *)
Theorem parse_config_valid_ports_error_keeps_file O top wr r w :
  let m := input_map top in
  loadable (nat_version m) m = true ->
  (web_flat (nat_version m) = true -> web_together m = true) ->
  doc_ports_ok (nat_version m) m = true ->
  parse_config O (doc_ports_ok 29) (FDoc top) wr = (r, w) -> is_error r = true ->
  w = None /\ file_after (FDoc top) w = FDoc top.
Proof.
  intros m Hl Hw Hp. apply parse_config_error_keeps_file. exact (ports_upgrade_acceptable O top Hl Hw Hp).
Qed.

(** ** Refuted variants *)

(** The seed's two documents (C13-L): encryption on, and a second zero port
    of the same transport beside [port_dnscrypt] (0 by default): HTTPS
    switched off by hand, or a [bind_host] without [bind_port], which step 23
    writes as [host:0]. *)
Definition doc_https_off : obj :=
  [("schema_version", VInt 22); ("bind_host", VStr "127.0.0.1"); ("bind_port", VInt 3000);
   ("tls", VObj [("enabled", VBool true); ("port_https", VInt 0)])].

Definition doc_no_bind_port : obj :=
  [("schema_version", VInt 22); ("bind_host", VStr "127.0.0.1");
   ("tls", VObj [("enabled", VBool true)])].

Definition oracles_lo : oracles :=
  {| o_bcrypt := fun s => Some s; o_quic := fun s => s;
     o_addr := fun s => if String.eqb s "127.0.0.1" then Some "127.0.0.1" else None; o_glob := "/data/userfilters/*" |}.

(** The premises of the theorem are satisfiable by both, and the conclusion holds. *)
Example seed_documents_upgrade_fine :
  forall d, In d [doc_https_off; doc_no_bind_port] ->
    loadable 22 d = true /\ web_together d = true /\ doc_ports_ok 22 d = true /\
    exists a, migrate oracles_lo (Some d) 29 = ONew a /\ doc_ports_ok 29 (norm_obj a) = true.
Proof.
  intros d [<-|[<-|[]]]; (split; [vm_compute; reflexivity|]); (split; [vm_compute; reflexivity|]);
    (split; [vm_compute; reflexivity|]); eexists; (split; [vm_compute; reflexivity|]); vm_compute; reflexivity.
Qed.

(** A loader that counts zero as a port refuses the upgrade of both, although
    their ports are valid under their own schema. *)
Theorem zero_counts_loader_refuted :
  forall d, In d [doc_https_off; doc_no_bind_port] ->
    loadable 22 d = true /\ web_together d = true /\ doc_ports_ok 22 d = true /\
    exists a, migrate oracles_lo (Some d) 29 = ONew a /\ doc_ports_ok_gen true 29 (norm_obj a) = false.
Proof.
  intros d [<-|[<-|[]]]; (split; [vm_compute; reflexivity|]); (split; [vm_compute; reflexivity|]);
    (split; [vm_compute; reflexivity|]); eexists; (split; [vm_compute; reflexivity|]); vm_compute; reflexivity.
Qed.

(** Even read consistently (zero counts before AND after) the statement of
    the theorem fails: the second document has one zero TCP port at version
    22 (the default [port_dnscrypt]) and two after step 23. *)
Theorem zero_counts_not_preserved :
  exists O cur tgt m m', (cur <= tgt <= 29)%nat /\ upgrade O cur tgt m = Ok m' /\
    loadable cur m = true /\ web_together m = true /\
    doc_ports_ok_gen true cur m = true /\ doc_ports_ok_gen true tgt m' = false.
Proof.
  exists oracles_lo, 22%nat, 23%nat, doc_no_bind_port. eexists.
  split; [lia|]. split; [vm_compute; reflexivity|]. repeat split; vm_compute; reflexivity.
Qed.

(** Without [web_together] the theorem is false ON THE CODE AS IT IS: a web
    port without a web host below version 23 is left at the top level by step
    23, the loader falls back to port 3000, which another listener may hold
    (observation on the unchanged tree; fix draft 28). *)
Definition doc_lone_bind_port : obj :=
  [("schema_version", VInt 22); ("bind_port", VInt 8080);
   ("tls", VObj [("enabled", VBool true); ("port_https", VInt 3000)])].

Theorem lone_bind_port_refuted :
  loadable 22 doc_lone_bind_port = true /\ doc_ports_ok 22 doc_lone_bind_port = true /\
  web_together doc_lone_bind_port = false /\
  exists a, migrate oracles_lo (Some doc_lone_bind_port) 29 = ONew a /\ doc_ports_ok 29 (norm_obj a) = false.
Proof.
  split; [vm_compute; reflexivity|]. split; [vm_compute; reflexivity|]. split; [vm_compute; reflexivity|].
  eexists. split; [vm_compute; reflexivity|]. vm_compute; reflexivity.
Qed.

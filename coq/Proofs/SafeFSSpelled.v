(** C17 (round 8): a local location is used as spelled.

    The design invariant of [reader] and [validateFilterURL]: the string that
    is checked against the safe patterns and the string that is opened (resp.
    stat'ed) are the same string, [clean loc]: no decoding, trimming or other
    rewriting between the check and the use.  Percent signs are ordinary bytes
    of a file name.  A reader that percent-decodes the cleaned path after the
    check (red-team change C17-O) is refuted: an encoded separator hides a
    dot-dot element from [clean] and from the star of the matcher. *)
From Coq Require Import List NArith Bool Lia.
From AGH Require Import Base.Run Base.Bytes Base.PathClean Base.Glob Model.SafeFS
  Proofs.GlobCase Proofs.SafeFS Proofs.SafeFSClient.
Import ListNotations.
Local Open Scope N_scope.

(** * The checked path is the opened path *)

Theorem checked_path_is_opened_path pats loc p :
  reader pats loc = OpenFile p ->
  is_abs loc = true /\ p = clean loc /\ path_matches_any pats (clean loc) = PmYes.
Proof.
  unfold reader. destruct (is_abs loc); cbn [negb]; [|discriminate].
  destruct (path_matches_any pats (clean loc)) eqn:E; try discriminate.
  intros [= <-]. auto.
Qed.

(** The bytes read for a local location are those of the file at the cleaned
    spelled path, and of no other file. *)
Theorem read_content_is_at_spelled_path w loc m :
  is_abs loc = true -> fetch w (reader (w_pats w) loc) = Some m ->
  lookup (clean loc) (w_files w) = Some m /\ reader (w_pats w) loc = OpenFile (clean loc).
Proof.
  intros Ha. unfold reader. rewrite Ha. cbn [negb].
  destruct (path_matches_any (w_pats w) (clean loc)); cbn [fetch]; try discriminate. auto.
Qed.

(** Validation at add / set_url: what is looked up on the disk and what is
    matched is the same string too. *)
Theorem validated_path_is_checked_path pats ex uok loc :
  is_abs loc = true -> validate_url pats ex uok loc = None ->
  ex (clean loc) = true /\ path_matches_any pats (clean loc) = PmYes.
Proof.
  unfold validate_url. intros ->. destruct (ex (clean loc)); cbn [negb]; [|discriminate].
  destruct (path_matches_any pats (clean loc)); try discriminate. auto.
Qed.

(** * Decoding between the check and the open is refuted *)

Definition hexval (c : N) : option N :=
  if (48 <=? c) && (c <=? 57) then Some (c - 48)
  else if (65 <=? c) && (c <=? 70) then Some (c - 55)
  else if (97 <=? c) && (c <=? 102) then Some (c - 87)
  else None.

(** url.PathUnescape: [None] = an error (a percent sign without two hex digits). *)
Fixpoint unescape (s : bytes) : option bytes :=
  match s with
  | [] => Some []
  | c :: r =>
      if c =? 37 then
        match r with
        | a :: b :: r' =>
            match hexval a, hexval b with
            | Some x, Some y => option_map (cons (16 * x + y)) (unescape r')
            | _, _ => None
            end
        | _ => None
        end
      else option_map (cons c) (unescape r)
  end.

(** the helper of the change: the decoded name, or the path itself on error *)
Definition local_file_name (p : bytes) : bytes :=
  match unescape p with Some n => n | None => p end.

(** [reader] with that helper: checks [clean loc], opens its decoded form.
    Not the code. *)
Definition reader_decoding (pats : list bytes) (loc : bytes) : source :=
  if negb (is_abs loc) then HttpGet loc
  else
    let p := clean loc in
    match path_matches_any pats p with
    | PmYes => OpenFile (local_file_name p)
    | PmNo => Reject RUnsafe
    | PmBad k => Reject k
    end.

Definition ex_lists_star : bytes := [47;114;47;108;105;115;116;115;47;42].            (* /r/lists/* *)
Definition ex_encoded_loc : bytes :=
  [47;114;47;108;105;115;116;115;47;46;46;37;50;70;115;101;99;114;101;116;46;116;120;116].
                                                             (* /r/lists/..%2Fsecret.txt *)
Definition ex_decoded_name : bytes :=
  [47;114;47;108;105;115;116;115;47;46;46;47;115;101;99;114;101;116;46;116;120;116].
                                                             (* /r/lists/../secret.txt *)
Definition ex_secret_file : bytes := [47;114;47;115;101;99;114;101;116;46;116;120;116].  (* /r/secret.txt *)

Theorem decode_between_check_and_open_refuted :
  exists pats loc p,
    reader_decoding pats loc = OpenFile p /\
    p <> clean loc /\ clean p = ex_secret_file /\
    ~ safe pats p /\ ~ safe pats (clean p).
Proof.
  exists [ex_lists_star], ex_encoded_loc, ex_decoded_name.
  split; [vm_compute; reflexivity|].
  split; [vm_compute; discriminate|].
  split; [vm_compute; reflexivity|].
  split; intros (g & [<-|[]] & H); vm_compute in H; discriminate.
Qed.

(** The same location under the reader as it is: the file of that literal
    name inside the allowed directory, or nothing. *)
Example encoded_location_under_real_reader :
  reader [ex_lists_star] ex_encoded_loc = OpenFile ex_encoded_loc /\
  clean ex_encoded_loc = ex_encoded_loc.
Proof. split; vm_compute; reflexivity. Qed.

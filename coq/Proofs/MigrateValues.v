(** C13, part 8: the steps that rewrite a value in place.  Inside its
    footprint a step is not free either: for the steps that replace the value
    at a key by a function of the OLD value at the SAME key (3, 12, 17, 20,
    21; the list-walking ones 10, 22, 27 are in Proofs/MigrateElems.v), that
    function is stated here.  The harness evaluates the same functions,
    written independently in Go from the comments of v3.go ... v27.go, on what
    the real steps did (monitor [value-stepNN]). *)
From Coq Require Import List ZArith String Ascii Bool Lia.
From AGH Require Import Model.Migrate Model.MigrateFootprint Proofs.Migrate Proofs.MigrateFrame.
Import ListNotations.
Local Open Scope string_scope.
Local Open Scope list_scope.
Local Open Scope Z_scope.

(** Step [s] replaces the value at key [k] of section [sec] by [f] of the
    old value, whenever [f] is defined on it ([None]: the documented function
    says nothing, e.g. an ill-typed value on which the step fails). *)
Definition rewrites_at (s : step) (sec k : string) (f : option val -> option (option val)) : Prop :=
  forall m m' d new, s (Some m) = Ok m' -> get sec m = Some (VObj d) -> f (get k d) = Some new ->
    exists d', get sec m' = Some (VObj d') /\ get k d' = new.

Ltac value_step :=
  intros m m' d new H G F; cbn [stamp bind] in H;
  match type of H with context [upd "schema_version" (VInt ?n) m] =>
    match type of G with get ?sec m = _ =>
      rewrite <- (get_upd_ne sec "schema_version" (VInt n) m) in G by discriminate
    end
  end;
  set (m0 := upd "schema_version" (VInt _) m) in *; clearbody m0;
  unfold with_obj, field_val in H; rewrite G in H; cbn [has_ty coerce zobj bind] in H.

Local Opaque wrap64 ns_day Z.mul.

Lemma value3 : rewrites_at step3 "dns" "bootstrap_dns" f3.
Proof.
  unfold rewrites_at, step3. value_step. unfold f3 in F. injection F as <-.
  destruct (get "bootstrap_dns" d) as [v|] eqn:E; cbn in H.
  - destruct v; cbn in H; injection H as <-; rewrite get_upd_eq; eexists; split; try reflexivity; now rewrite get_upd_eq.
  - injection H as <-. rewrite get_upd_eq. eexists; split; [reflexivity|]. exact E.
Qed.

Lemma value12 : rewrites_at step12 "dns" "querylog_interval" f12.
Proof.
  unfold rewrites_at, step12. value_step. unfold f12, int_of in F.
  destruct (get "querylog_interval" d) as [[| | | |[]| | | | | |]|] eqn:E; cbn in H, F; try discriminate;
    injection F as <-; injection H as <-; rewrite get_upd_eq; eexists; (split; [reflexivity|]); now rewrite get_upd_eq.
Qed.

Lemma value17 : rewrites_at step17 "dns" "edns_client_subnet" f17.
Proof.
  unfold rewrites_at, step17. value_step. unfold f17 in F. injection F as <-. injection H as <-. rewrite get_upd_eq.
  eexists; split; [reflexivity|]. rewrite get_upd_eq. do 3 f_equal.
  destruct (get "edns_client_subnet" d) as [[| | | |[]| | | | | |]|]; reflexivity.
Qed.

Lemma value20 : rewrites_at step20 "statistics" "interval" f20.
Proof.
  unfold rewrites_at, step20. value_step. unfold f20, int_of in F.
  destruct (get "interval" d) as [[| | | |[]| | | | | |]|] eqn:E; cbn in H, F; try discriminate;
    injection F as <-; injection H as <-; rewrite get_upd_eq; eexists; (split; [reflexivity|]); now rewrite get_upd_eq.
Qed.

Lemma value21 : rewrites_at step21 "dns" "blocked_services" f21.
Proof.
  unfold rewrites_at, step21. value_step. unfold f21 in F. unfold move_val, field_val in H.
  destruct (get "blocked_services" d) as [[]|] eqn:E; cbn in H, F; try discriminate;
    injection F as <-; injection H as <-; rewrite get_upd_eq; eexists; (split; [reflexivity|]); now rewrite get_upd_eq.
Qed.

Local Transparent wrap64 ns_day Z.mul.

(** The functions are defined where it matters. *)
Example values_defined :
  f3 (Some (VStr "1.1.1.1")) = Some (Some (VArr [VStr "1.1.1.1"])) /\
  f12 (Some (VInt 30)) = Some (Some (VDur 2592000000000000)) /\
  f12 None = Some (Some (VDur 7776000000000000)) /\
  f17 (Some (VBool true)) = Some (Some (VObj [("enabled", VBool true); ("use_custom", VBool false); ("custom_ip", VStr "")])) /\
  f20 (Some (VInt 0)) = Some (Some (VDur 86400000000000)) /\
  f21 (Some (VArr [VStr "500px"])) = Some (Some (VObj [("schedule", schedule0); ("ids", VArr [VStr "500px"])])) /\
  f21 (Some (VStr "x")) = None.
Proof. repeat split. Qed.

(** C20 proofs: the three-way decision of seekTS is the order of the
    (unbounded) integers for every pair of int64 stamps, however far apart;
    the subtracting comparator is that order exactly when the difference is
    an int64. *)
From Coq Require Import ZArith List Bool Lia.
From AGH Require Import Model.QLogFile Model.QLogCmp Proofs.QLogFile.
Import ListNotations.
Local Open Scope Z_scope.

(** *** The decision of the code is the integer order (all pairs). *)
Theorem go_cmp_order a b : go_cmp a b = (a ?= b).
Proof.
  unfold go_cmp. destruct (Z.eqb_spec a b) as [->|Hne]; [symmetry; apply Z.compare_refl|].
  destruct (Z.gtb_spec a b) as [H|H]; symmetry; [apply Z.compare_gt_iff|apply Z.compare_lt_iff]; lia.
Qed.

(** The loop of the model decides through [go_cmp]. *)
Theorem seek_loop_c_go fuel me f ts : forall start end_ probe last depth,
  seek_loop_c go_cmp fuel me f ts start end_ probe last depth = seek_loop fuel me f ts start end_ probe last depth.
Proof.
  induction fuel as [|fuel IH]; intros; [reflexivity|]. cbn [seek_loop_c seek_loop].
  destruct (probe_line me f probe) as [[[[li le] len] lts]|]; [|reflexivity].
  destruct (li =? last); [reflexivity|]. destruct (li =? fsize f); [reflexivity|].
  destruct (lts =? 0); [reflexivity|]. unfold go_cmp.
  destruct (lts =? ts); [reflexivity|]. destruct (lts >? ts); apply IH.
Qed.

(** Any decision that is the integer order on the pairs (stored stamp,
    target) runs the same search: every theorem about [seek_ts] holds for it,
    for targets and stamps anywhere in the int64 range. *)
Theorem seek_loop_c_order cmp fuel me f ts :
  (forall k l t, nth_error f k = Some (l, t) -> cmp t ts = (t ?= ts)) ->
  forall start end_ probe last depth,
  seek_loop_c cmp fuel me f ts start end_ probe last depth = seek_loop fuel me f ts start end_ probe last depth.
Proof.
  intro Hc. induction fuel as [|fuel IH]; intros; [reflexivity|]. cbn [seek_loop_c seek_loop].
  destruct (probe_line me f probe) as [[[[li le] len] lts]|] eqn:E; [|reflexivity].
  destruct (li =? last); [reflexivity|]. destruct (li =? fsize f); [reflexivity|].
  destruct (Z.eqb_spec lts 0) as [|Hnz]; [reflexivity|].
  destruct (probe_line_stamp _ _ _ _ _ _ _ E Hnz) as (k & l & [Hk _] & _ & _).
  rewrite (Hc k l lts Hk), <- go_cmp_order. unfold go_cmp.
  destruct (lts =? ts); [reflexivity|]. destruct (lts >? ts); apply IH.
Qed.

Corollary seek_ts_c_order cmp me f ts :
  (forall k l t, nth_error f k = Some (l, t) -> cmp t ts = (t ?= ts)) ->
  seek_ts_c cmp me f ts = seek_ts me f ts.
Proof. intro H. apply seek_loop_c_order. exact H. Qed.

(** *** The subtracting comparator: right when the difference is an int64 ... *)
Lemma wrap64_id z : int64_ok z -> wrap64 z = z.
Proof. unfold int64_ok, wrap64. intro H. rewrite Z.mod_small by lia. lia. Qed.

Theorem sub_cmp_near a b : int64_ok (a - b) -> sub_cmp a b = (a ?= b).
Proof.
  intro H. unfold sub_cmp. rewrite wrap64_id by exact H. rewrite <- go_cmp_order. unfold go_cmp.
  destruct (Z.eqb_spec (a - b) 0); destruct (Z.eqb_spec a b); try lia; try reflexivity.
  destruct (Z.gtb_spec (a - b) 0); destruct (Z.gtb_spec a b); try lia; reflexivity.
Qed.

(** ... and wrong for every pair of int64 values whose difference is not. *)
Theorem sub_cmp_far a b : int64_ok a -> int64_ok b -> ~ int64_ok (a - b) -> sub_cmp a b <> (a ?= b).
Proof.
  unfold int64_ok. intros Ha Hb Hd. rewrite <- go_cmp_order. unfold sub_cmp, go_cmp, wrap64.
  assert (Hcase : a - b >= 2 ^ 63 \/ a - b < - 2 ^ 63) by lia.
  destruct Hcase as [Hbig|Hsmall].
  - replace ((a - b + 2 ^ 63) mod 2 ^ 64) with (a - b + 2 ^ 63 - 2 ^ 64)
      by (apply Z.mod_unique with (q := 1); lia).
    destruct (Z.eqb_spec a b); [lia|]. destruct (Z.gtb_spec a b); [|lia].
    destruct (Z.eqb_spec (a - b + 2 ^ 63 - 2 ^ 64 - 2 ^ 63) 0); [discriminate|].
    destruct (Z.gtb_spec (a - b + 2 ^ 63 - 2 ^ 64 - 2 ^ 63) 0); [lia|discriminate].
  - replace ((a - b + 2 ^ 63) mod 2 ^ 64) with (a - b + 2 ^ 63 + 2 ^ 64)
      by (apply Z.mod_unique with (q := -1); lia).
    destruct (Z.eqb_spec a b); [lia|]. destruct (Z.gtb_spec a b); [lia|].
    destruct (Z.eqb_spec (a - b + 2 ^ 63 + 2 ^ 64 - 2 ^ 63) 0); [discriminate|].
    destruct (Z.gtb_spec (a - b + 2 ^ 63 + 2 ^ 64 - 2 ^ 63) 0); [discriminate|lia].
Qed.

(** Records of 2024, the wanted stamp 1700-01-01: both int64, 2^63 ns apart
    and more.  The search of the code reports too-early; the same search
    deciding on the wrapped difference reports too-late (which makes the
    reader fall back to the newest record). *)
Definition file_2024 : qfile :=
  [(60, 1704067200000000000); (75, 1704067201000000000); (50, 1704067260000000000); (90, 1704070800000000000)].
Definition year_1700 : Z := -8520336000000000000.

Example far_target_example :
  int64_ok year_1700 /\ Forall (fun x : Z * Z => int64_ok (snd x)) file_2024 /\
  lines_ok 16384 file_2024 /\ stamps_nonzero file_2024 /\
  seek_ts 16384 file_2024 year_1700 = TooEarly /\
  seek_ts_c go_cmp 16384 file_2024 year_1700 = TooEarly /\
  seek_ts_c sub_cmp 16384 file_2024 year_1700 = TooLate /\
  sub_cmp 1704070800000000000 (1704070800000000000 - 2 ^ 63 + 1) = Gt /\
  sub_cmp 1704070800000000000 (1704070800000000000 - 2 ^ 63) = Lt.
Proof.
  split; [unfold int64_ok, year_1700; lia|].
  split; [repeat constructor; cbn [snd]; unfold int64_ok; lia|].
  split; [repeat constructor; cbn [fst]; lia|].
  split; [repeat constructor; cbn [snd]; discriminate|].
  repeat split; vm_compute; reflexivity.
Qed.

(** C10: specification and proofs about the DHCPv4 lease-table model. *)
From Coq Require Import List ZArith NArith Bool Lia Permutation.
From AGH Require Import Base.Run Model.Dhcp4.
Import ListNotations.
Local Open Scope N_scope.

#[global] Arguments alloc_fuel : simpl never.

(** * The invariant *)

Definition ips (ls : list lease) : list N := map l_ip ls.
Definition macs (ls : list lease) : list N := map l_mac ls.

(** The hardware addresses of clients: the all-zero address marks a
    block-listed address and is nobody's. *)
Definition live (m : N) : bool := negb (is_blocklisted m).
Definition cmacs (ls : list lease) : list N := filter live (macs ls).

(** Every lease carries a hardware address that net.ParseMAC reads back from
    the file (6, 8 or 20 bytes: what ValidateMAC accepts for reservations). *)
Definition mac_ok (l : lease) : Prop := valid_mac (l_mac l) = true.

(** About the lease list alone. *)
Record ListInv (c : conf) (L : list lease) : Prop := {
  li_ip : NoDup (ips L);
  li_mac : NoDup (cmacs L);
  li_dyn : forall l, In l L -> l_static l = false -> in_pool c (l_ip l) = true;
  li_stat : forall l, In l L -> l_static l = true ->
            in_subnet c (l_ip l) = true /\ l_ip l <> c_gw c;
  li_len : forall l, In l L -> mac_ok l
}.

(** Address index and leased-offset set describe the list exactly. *)
Record IdxInv (c : conf) (L : list lease) (x : index) : Prop := {
  xi_ip : forall ip, iidx x ip = true <-> In ip (ips L);
  xi_off : forall o, offs x o = true <-> (In (c_start c + o) (ips L) /\ c_start c + o <= c_end c)
}.

(** What a restart needs from the file. *)
Record DiskInv (c : conf) (D : list lease) : Prop := {
  di_ip : NoDup (ips D);
  di_mac : NoDup (cmacs D);
  di_gw : forall l, In l D -> l_static l = true -> l_ip l <> c_gw c;
  di_len : forall l, In l D -> mac_ok l
}.

Record Inv (c : conf) (s : state) : Prop := {
  inv_list : ListInv c (leases s);
  inv_idx : IdxInv c (leases s) (ix s);
  inv_disk : DiskInv c (disk s)
}.

(** * Small facts *)

Lemma upd_eq {A} (f : N -> A) k v x : upd f k v x = if x =? k then v else f x.
Proof. reflexivity. Qed.

Lemma in_pool_spec c ip : in_pool c ip = true <-> c_start c <= ip <= c_end c.
Proof. unfold in_pool. rewrite andb_true_iff, !N.leb_le. tauto. Qed.

Lemma ips_app a b : ips (a ++ b) = ips a ++ ips b.
Proof. apply map_app. Qed.
Lemma macs_app a b : macs (a ++ b) = macs a ++ macs b.
Proof. apply map_app. Qed.
Lemma cmacs_app a b : cmacs (a ++ b) = cmacs a ++ cmacs b.
Proof. unfold cmacs. rewrite macs_app. apply filter_app. Qed.
Lemma cmacs_cons l L : cmacs (l :: L) = if live (l_mac l) then l_mac l :: cmacs L else cmacs L.
Proof. reflexivity. Qed.
Lemma in_cmacs m L : In m (cmacs L) <-> In m (macs L) /\ live m = true.
Proof. unfold cmacs. apply filter_In. Qed.
Lemma not_in_cmacs m L : ~ In m (macs L) -> ~ In m (cmacs L).
Proof. rewrite in_cmacs. tauto. Qed.

Lemma blocklist_mac_valid : valid_mac blocklist_mac = true.
Proof. reflexivity. Qed.
Lemma blocklist_mac_dead : live blocklist_mac = false.
Proof. reflexivity. Qed.
Lemma len6_valid m : mac_len m = 6 -> valid_mac m = true.
Proof. unfold valid_mac. intros ->. reflexivity. Qed.
Lemma mac_ok_valid l : mac_ok l -> valid_mac (l_mac l) = true.
Proof. auto. Qed.

Lemma find_index_some {A} (p : A -> bool) l i a :
  find_index p l = Some (i, a) -> nth_error l i = Some a /\ p a = true.
Proof.
  revert i. induction l as [|x l IH]; cbn; intros i H; [discriminate|].
  destruct (p x) eqn:E.
  - inversion H; subst. auto.
  - destruct (find_index p l) as [[j y]|]; [|discriminate].
    inversion H; subst. cbn. apply IH; reflexivity.
Qed.

Lemma find_index_none {A} (p : A -> bool) l :
  find_index p l = None -> forall a, In a l -> p a = false.
Proof.
  induction l as [|x l IH]; cbn; intros H a Ha; [tauto|].
  destruct (p x) eqn:E; [discriminate|].
  destruct (find_index p l) as [[j y]|] eqn:F; [discriminate|].
  destruct Ha as [<-|Ha]; auto.
Qed.

Lemma nth_error_split' {A} (l : list A) i a :
  nth_error l i = Some a -> exists l1 l2, l = l1 ++ a :: l2 /\ length l1 = i.
Proof. apply nth_error_split. Qed.

Lemma remove_nth_split {A} (l1 l2 : list A) a :
  remove_nth (length l1) (l1 ++ a :: l2) = l1 ++ l2.
Proof.
  unfold remove_nth. rewrite firstn_app, firstn_all, Nat.sub_diag. cbn [firstn].
  rewrite app_nil_r. f_equal.
  replace (S (length l1)) with (length (l1 ++ [a])) by (rewrite app_length; cbn; lia).
  replace (l1 ++ a :: l2) with ((l1 ++ [a]) ++ l2) by (rewrite <- app_assoc; reflexivity).
  rewrite skipn_app, skipn_all, Nat.sub_diag. reflexivity.
Qed.

Lemma update_nth_split {A} (f : A -> A) (l1 l2 : list A) a :
  update_nth (length l1) f (l1 ++ a :: l2) = l1 ++ f a :: l2.
Proof. induction l1; cbn; congruence. Qed.

Lemma update_nth_none {A} (f : A -> A) l i : nth_error l i = None -> update_nth i f l = l.
Proof.
  revert i; induction l; destruct i; cbn; intros; try reflexivity; try discriminate.
  f_equal; auto.
Qed.

(** * Thinning: dropping leases and renaming / re-dating the others *)

Definition same_core (a b : lease) : Prop :=
  l_ip a = l_ip b /\ l_mac a = l_mac b /\ l_static a = l_static b.

Inductive Thin : list lease -> list lease -> Prop :=
  | thin_nil : Thin [] []
  | thin_keep l l' L L' : same_core l l' -> Thin L L' -> Thin (l :: L) (l' :: L')
  | thin_drop l L L' : Thin L L' -> Thin (l :: L) L'.

Lemma same_core_refl l : same_core l l.
Proof. repeat split. Qed.

Lemma Thin_refl L : Thin L L.
Proof. induction L; constructor; auto using same_core_refl. Qed.

Lemma Thin_in L L' : Thin L L' -> forall l', In l' L' -> exists l, In l L /\ same_core l l'.
Proof.
  induction 1; cbn; intros x Hx; [tauto| |].
  - destruct Hx as [<-|Hx]; [eauto|]. destruct (IHThin _ Hx) as (y & ? & ?); eauto.
  - destruct (IHThin _ Hx) as (y & ? & ?); eauto.
Qed.

Lemma Thin_in_ip L L' : Thin L L' -> forall ip, In ip (ips L') -> In ip (ips L).
Proof.
  intros T ip H. apply in_map_iff in H as (l' & <- & Hl').
  destruct (Thin_in _ _ T _ Hl') as (l & Hl & (E & _)). rewrite <- E. apply in_map; exact Hl.
Qed.

Lemma Thin_in_mac L L' : Thin L L' -> forall m, In m (macs L') -> In m (macs L).
Proof.
  intros T m H. apply in_map_iff in H as (l' & <- & Hl').
  destruct (Thin_in _ _ T _ Hl') as (l & Hl & (_ & E & _)). rewrite <- E. apply in_map; exact Hl.
Qed.

Lemma Thin_nodup_ip L L' : Thin L L' -> NoDup (ips L) -> NoDup (ips L').
Proof.
  induction 1; cbn; intros N; auto; inversion N; subst.
  - constructor; auto. destruct H as (<- & _). intro Hin. apply H3. eapply Thin_in_ip; eauto.
  - auto.
Qed.

Lemma Thin_in_cmac L L' : Thin L L' -> forall m, In m (cmacs L') -> In m (cmacs L).
Proof. intros T m. rewrite !in_cmacs. intros [H ?]. split; auto. eapply Thin_in_mac; eauto. Qed.

Lemma Thin_nodup_mac L L' : Thin L L' -> NoDup (cmacs L) -> NoDup (cmacs L').
Proof.
  induction 1; rewrite ?cmacs_cons; intros N; auto.
  - destruct H as (_ & E & _). rewrite <- E. destruct (live (l_mac l)); auto.
    inversion N; subst. constructor; auto. intro Hin. apply H2. eapply Thin_in_cmac; eauto.
  - destruct (live (l_mac l)); auto. inversion N; auto.
Qed.

Lemma Thin_ListInv c L L' : Thin L L' -> ListInv c L -> ListInv c L'.
Proof.
  intros T [A B C D E]. split.
  - eapply Thin_nodup_ip; eauto.
  - eapply Thin_nodup_mac; eauto.
  - intros l' Hl' Hs. destruct (Thin_in _ _ T _ Hl') as (l & Hl & (E1 & _ & E3)).
    rewrite <- E1. apply C; congruence.
  - intros l' Hl' Hs. destruct (Thin_in _ _ T _ Hl') as (l & Hl & (E1 & _ & E3)).
    rewrite <- E1. apply D; congruence.
  - intros l' Hl'. destruct (Thin_in _ _ T _ Hl') as (l & Hl & (_ & E2 & E3)).
    specialize (E l Hl). unfold mac_ok in *. rewrite <- E2. exact E.
Qed.

Lemma Thin_app_keep P L L' : Thin L L' -> Thin (P ++ L) (P ++ L').
Proof. induction P; cbn; auto. intros; constructor; auto using same_core_refl. Qed.

Lemma Thin_update_nth i f L :
  (forall l, same_core l (f l)) -> Thin L (update_nth i f L).
Proof.
  intros Hf. revert i; induction L as [|a L IH]; destruct i; cbn; try constructor; auto using same_core_refl, Thin_refl.
Qed.

Lemma ips_update_nth i f L : (forall l, l_ip (f l) = l_ip l) -> ips (update_nth i f L) = ips L.
Proof.
  intros Hf. revert i; induction L as [|a L IH]; destruct i; cbn; try reflexivity.
  - rewrite Hf; reflexivity.
  - f_equal; apply IH.
Qed.

Lemma IdxInv_same_ips c L L' x : ips L = ips L' -> IdxInv c L x -> IdxInv c L' x.
Proof. intros E [A B]. split; intros; rewrite <- E; auto. Qed.

(** * add_lease *)

Lemma NoDup_snoc {A} (l : list A) a : NoDup l -> ~ In a l -> NoDup (l ++ [a]).
Proof.
  intros N H. apply Permutation_NoDup with (l := a :: l).
  - apply Permutation_cons_append.
  - constructor; auto.
Qed.

Lemma set_off_true c ip o f :
  set_off c ip true f o = true <-> (f o = true \/ (in_pool c ip = true /\ o = ip - c_start c)).
Proof.
  unfold set_off. destruct (in_pool c ip) eqn:E.
  - rewrite upd_eq. destruct (N.eqb_spec o (ip - c_start c)); intuition congruence.
  - intuition congruence.
Qed.

Lemma set_off_false c ip o f :
  set_off c ip false f o = true <-> (f o = true /\ ~ (in_pool c ip = true /\ o = ip - c_start c)).
Proof.
  unfold set_off. destruct (in_pool c ip) eqn:E.
  - rewrite upd_eq. destruct (N.eqb_spec o (ip - c_start c)); intuition congruence.
  - intuition congruence.
Qed.

Lemma add_lease_some c l s s' :
  add_lease c l s = Some s' ->
  leases s' = leases s ++ [l] /\ disk s' = disk s /\
  iidx (ix s') = upd (iidx (ix s)) (l_ip l) true /\
  offs (ix s') = set_off c (l_ip l) true (offs (ix s)) /\
  (if l_static l then in_subnet c (l_ip l) else in_pool c (l_ip l)) = true.
Proof.
  unfold add_lease. intros H.
  destruct (l_static l) eqn:Es.
  - destruct (in_subnet c (l_ip l)); cbn in H; [|discriminate].
    destruct (negb (is_nil (l_host l)) && is_some (hidx (ix s) (l_host l))); [discriminate|].
    inversion H; subst; cbn. auto.
  - destruct (in_pool c (l_ip l)); cbn in H; [|discriminate].
    destruct (negb (is_nil (l_host l)) && is_some (hidx (ix s) (l_host l))); [discriminate|].
    inversion H; subst; cbn. auto.
Qed.

Lemma IdxInv_add c L x l :
  IdxInv c L x ->
  IdxInv c (L ++ [l]) (Index (hidx x) (upd (iidx x) (l_ip l) true) (set_off c (l_ip l) true (offs x))).
Proof.
  intros [A B]. split; cbn.
  - intros ip. rewrite upd_eq, ips_app, in_app_iff. cbn.
    destruct (N.eqb_spec ip (l_ip l)); [intuition|]. rewrite A. intuition congruence.
  - intros o. rewrite set_off_true, B, ips_app, in_app_iff, in_pool_spec. cbn.
    split.
    + intros [[? ?]|[[? ?] ->]]; [tauto|]. split; [right; left; lia|lia].
    + intros [[?|[E|[]]] ?]; [tauto|]. right. split; lia.
Qed.

Lemma add_lease_inv c l s s' :
  Inv c s -> add_lease c l s = Some s' ->
  ~ In (l_ip l) (ips (leases s)) -> ~ In (l_mac l) (cmacs (leases s)) ->
  (l_static l = true -> l_ip l <> c_gw c) -> mac_ok l ->
  Inv c s'.
Proof.
  intros [[A B C D E] I K] H Hip Hmac Hgw Hok.
  destruct (add_lease_some _ _ _ _ H) as (EL & ED & EI & EO & Hchk).
  split.
  - rewrite EL. split.
    + rewrite ips_app. apply NoDup_snoc; auto.
    + rewrite cmacs_app, cmacs_cons. change (cmacs []) with (@nil N). destruct (live (l_mac l)).
      * apply NoDup_snoc; auto.
      * rewrite app_nil_r; auto.
    + intros x Hx Hs. apply in_app_iff in Hx as [Hx|[<-|[]]]; auto. rewrite Hs in Hchk; auto.
    + intros x Hx Hs. apply in_app_iff in Hx as [Hx|[<-|[]]]; auto. rewrite Hs in Hchk; auto.
    + intros x Hx. apply in_app_iff in Hx as [Hx|[<-|[]]]; auto.
  - rewrite EL. destruct (ix s') as [h i o]; cbn in EI, EO; subst i o.
    apply (IdxInv_same_ips c (leases s ++ [l]) _ _ eq_refl).
    destruct (IdxInv_add c _ _ l I) as [P Q]. split; auto.
  - rewrite ED; auto.
Qed.

(** * Removing one lease *)

Lemma IdxInv_remove c l1 l l2 x :
  NoDup (ips (l1 ++ l :: l2)) -> IdxInv c (l1 ++ l :: l2) x -> IdxInv c (l1 ++ l2) (unindex c l x).
Proof.
  intros N [A B].
  assert (Hn : ~ In (l_ip l) (ips (l1 ++ l2))).
  { rewrite ips_app in *. cbn in N. apply NoDup_remove_2 in N. exact N. }
  assert (Hin : forall ip, In ip (ips (l1 ++ l :: l2)) <-> ip = l_ip l \/ In ip (ips (l1 ++ l2))).
  { intros ip. rewrite !ips_app, !in_app_iff. cbn. intuition. }
  split; cbn.
  - intros ip. rewrite upd_eq. destruct (N.eqb_spec ip (l_ip l)) as [->|Hne].
    + intuition congruence.
    + rewrite A, Hin. intuition.
  - intros o. rewrite set_off_false, B, Hin, in_pool_spec. split.
    + intros [[[E|?] ?] Hno]; [|tauto]. exfalso. apply Hno. split; lia.
    + intros [Hi ?]. split; [tauto|]. intros [? ->]. apply Hn.
      replace (l_ip l) with (c_start c + (l_ip l - c_start c)) by lia. exact Hi.
Qed.

Lemma Thin_remove l1 (l : lease) l2 : Thin (l1 ++ l :: l2) (l1 ++ l2).
Proof. apply Thin_app_keep. constructor. apply Thin_refl. Qed.

Lemma rm_lease_by_index_inv c i s : Inv c s -> Inv c (rm_lease_by_index c i s).
Proof.
  intros [L I K]. unfold rm_lease_by_index.
  destruct (nth_error (leases s) i) as [l|] eqn:E; [|split; auto].
  destruct (nth_error_split' _ _ _ E) as (l1 & l2 & EL & <-).
  split; cbn; auto; rewrite EL, remove_nth_split.
  - eapply Thin_ListInv; [apply Thin_remove|]. rewrite <- EL; auto.
  - rewrite EL in I. apply IdxInv_remove; auto. rewrite <- EL. apply L.
Qed.

(** * rm_dyn *)

Lemma rm_dyn_thin c mac ip host ls x :
  Thin ls (fst (fst (rm_dyn c mac ip host ls x))).
Proof.
  revert x; induction ls as [|l r IH]; intros x; cbn; [constructor|].
  destruct ((l_mac l =? mac) || (l_ip l =? ip)).
  - destruct (l_static l); cbn; [apply Thin_refl|]. constructor. apply IH.
  - destruct (negb (l_static l) && negb (is_nil (l_host l)) && eqb_bytes (l_host l) host).
    + specialize (IH (Index (hupd (hidx x) (l_host l) None) (iidx x) (offs x))).
      destruct (rm_dyn c mac ip host r _) as [[r' x'] e]. cbn in *.
      constructor; auto. repeat split.
    + specialize (IH x). destruct (rm_dyn c mac ip host r x) as [[r' x'] e]. cbn in *.
      constructor; auto using same_core_refl.
Qed.

Lemma rm_dyn_idx c mac ip host ls : forall pre x,
  NoDup (ips (pre ++ ls)) -> IdxInv c (pre ++ ls) x ->
  IdxInv c (pre ++ fst (fst (rm_dyn c mac ip host ls x))) (snd (fst (rm_dyn c mac ip host ls x))).
Proof.
  induction ls as [|l r IH]; intros pre x N I; cbn; [exact I|].
  destruct ((l_mac l =? mac) || (l_ip l =? ip)).
  - destruct (l_static l); cbn; [exact I|].
    apply IH.
    + eapply Thin_nodup_ip; [apply Thin_remove|exact N].
    + apply IdxInv_remove; auto.
  - destruct (negb (l_static l) && negb (is_nil (l_host l)) && eqb_bytes (l_host l) host).
    + specialize (IH (pre ++ [set_host l []]) (Index (hupd (hidx x) (l_host l) None) (iidx x) (offs x))).
      destruct (rm_dyn c mac ip host r _) as [[r' x'] e]. cbn in *.
      rewrite <- !app_assoc in IH. cbn in IH. apply IH.
      * rewrite ips_app in *. exact N.
      * destruct I as [A B]. split; cbn; intros; rewrite ?A, ?B, !ips_app; reflexivity.
    + specialize (IH (pre ++ [l]) x).
      destruct (rm_dyn c mac ip host r x) as [[r' x'] e]. cbn in *.
      rewrite <- !app_assoc in IH. cbn in IH. apply IH; auto.
Qed.

Lemma rm_dyn_clears c mac ip host ls x :
  snd (rm_dyn c mac ip host ls x) = false ->
  forall l, In l (fst (fst (rm_dyn c mac ip host ls x))) -> l_mac l <> mac /\ l_ip l <> ip.
Proof.
  revert x; induction ls as [|l r IH]; intros x; cbn; [tauto|].
  destruct ((l_mac l =? mac) || (l_ip l =? ip)) eqn:E.
  - destruct (l_static l); cbn; [discriminate|]. apply IH.
  - apply orb_false_iff in E as [E1 E2]. apply N.eqb_neq in E1, E2.
    destruct (negb (l_static l) && negb (is_nil (l_host l)) && eqb_bytes (l_host l) host).
    + specialize (IH (Index (hupd (hidx x) (l_host l) None) (iidx x) (offs x))).
      destruct (rm_dyn c mac ip host r _) as [[r' x'] e]. cbn in *.
      intros He y [<-|Hy]; cbn; auto.
    + specialize (IH x). destruct (rm_dyn c mac ip host r x) as [[r' x'] e]. cbn in *.
      intros He y [<-|Hy]; auto.
Qed.

Lemma rm_dynamic_lease_inv c mac ip host s :
  Inv c s -> Inv c (fst (rm_dynamic_lease c mac ip host s)).
Proof.
  intros [L I K]. unfold rm_dynamic_lease.
  pose proof (rm_dyn_thin c mac ip host (leases s) (ix s)) as T.
  pose proof (rm_dyn_idx c mac ip host (leases s) [] (ix s)) as X.
  destruct (rm_dyn c mac ip host (leases s) (ix s)) as [[ls x] e]. cbn in *.
  split; cbn; auto.
  - eapply Thin_ListInv; eauto.
  - apply X; auto. apply L.
Qed.

Lemma rm_dynamic_lease_clears c mac ip host s :
  snd (rm_dynamic_lease c mac ip host s) = false ->
  ~ In mac (macs (leases (fst (rm_dynamic_lease c mac ip host s)))) /\
  ~ In ip (ips (leases (fst (rm_dynamic_lease c mac ip host s)))).
Proof.
  unfold rm_dynamic_lease.
  pose proof (rm_dyn_clears c mac ip host (leases s) (ix s)) as X.
  destruct (rm_dyn c mac ip host (leases s) (ix s)) as [[ls x] e]. cbn in *.
  intros ->. specialize (X eq_refl).
  split; intros H; apply in_map_iff in H as (l & E & Hl); destruct (X _ Hl); congruence.
Qed.

(** * reserve, commit *)

Lemma find_index_none_mac mac L :
  find_lease mac L = None -> ~ In mac (macs L).
Proof.
  intros H Hin. apply in_map_iff in Hin as (l & E & Hl).
  pose proof (find_index_none _ _ H _ Hl) as F. cbn in F. apply N.eqb_neq in F. congruence.
Qed.

Lemma next_ip_fresh c s ip :
  IdxInv c (leases s) (ix s) -> next_ip c s = Some ip -> ~ In ip (ips (leases s)).
Proof.
  intros [_ B]. unfold next_ip.
  destruct (find _ (pool_offsets c)) as [o|] eqn:F; [|discriminate].
  cbn. intros E; inversion E; subst. apply find_some in F as [Hin Ho].
  apply negb_true_iff in Ho. intros Hip.
  assert (offs (ix s) o = true); [|congruence].
  apply B. split; auto.
  unfold pool_offsets in Hin. destruct (N.ltb_spec (c_end c) (c_start c)); [destruct Hin|].
  apply in_map_iff in Hin as (k & <- & Hk). apply in_seq in Hk. lia.
Qed.

Lemma NoDup_replace_cmac l1 (l l' : lease) l2 :
  NoDup (cmacs (l1 ++ l :: l2)) -> ~ In (l_mac l') (cmacs (l1 ++ l :: l2)) ->
  NoDup (cmacs (l1 ++ l' :: l2)).
Proof.
  rewrite !cmacs_app, !cmacs_cons. intros N H.
  assert (N0 : NoDup (cmacs l1 ++ cmacs l2)).
  { destruct (live (l_mac l)); auto. eapply NoDup_remove_1; eauto. }
  assert (H0 : ~ In (l_mac l') (cmacs l1 ++ cmacs l2)).
  { intro Hin. apply H. apply in_app_iff in Hin. apply in_app_iff.
    destruct (live (l_mac l)); cbn; tauto. }
  destruct (live (l_mac l')); auto.
  apply Permutation_NoDup with (l := l_mac l' :: cmacs l1 ++ cmacs l2).
  - apply Permutation_middle.
  - constructor; auto.
Qed.

Lemma nth_error_update_nth {A} i (f : A -> A) L a :
  nth_error L i = Some a -> nth_error (update_nth i f L) i = Some (f a).
Proof.
  revert i; induction L as [|x L IH]; destruct i; cbn; intros H; try discriminate.
  - inversion H; auto.
  - auto.
Qed.

Lemma expired_dynamic now l : expired now l = true -> l_static l = false.
Proof. unfold expired. intros H. apply andb_true_iff in H as [H _]. apply negb_true_iff in H. exact H. Qed.

Lemma reserve_inv c now mac s :
  Inv c s -> valid_mac mac = true -> ~ In mac (cmacs (leases s)) -> Inv c (fst (reserve c now mac s)).
Proof.
  intros I Hlen Hmac. unfold reserve.
  destruct (next_ip c s) as [ip|] eqn:En.
  - destruct (add_lease c _ s) as [s'|] eqn:Ea; cbn; auto.
    eapply add_lease_inv; eauto; try (cbn; discriminate); try exact Hlen.
    eapply next_ip_fresh; eauto. apply I.
  - destruct (find_expired now (leases s)) as [[i l]|] eqn:Ef; cbn; auto.
    apply find_index_some in Ef as [Ei Ee]. apply expired_dynamic in Ee.
    destruct (nth_error_split' _ _ _ Ei) as (l1 & l2 & EL & <-).
    destruct I as [[A B C D E] X K]. rewrite EL in *. rewrite update_nth_split. cbn beta.
    assert (Eips : ips (l1 ++ l :: l2) = ips (l1 ++ set_mac l mac :: l2)).
    { rewrite !ips_app; reflexivity. }
    split; cbn; auto.
    + split.
      * rewrite <- Eips; auto.
      * apply NoDup_replace_cmac with (l := l); auto.
      * intros y Hy. apply in_app_iff in Hy as [Hy|[<-|Hy]]; cbn;
          [apply C|apply (C l)|apply C]; rewrite in_app_iff; cbn; auto.
      * intros y Hy. apply in_app_iff in Hy as [Hy|[<-|Hy]]; cbn;
          [apply D|apply (D l)|apply D]; rewrite in_app_iff; cbn; auto.
      * intros y Hy. apply in_app_iff in Hy as [Hy|[<-|Hy]];
          [apply E; rewrite in_app_iff; auto| |apply E; rewrite in_app_iff; cbn; auto].
        unfold mac_ok. cbn. exact Hlen.
    + eapply IdxInv_same_ips; eauto.
Qed.

(** The lease reserveLease hands out carries the client's address and is a
    dynamic one. *)
Lemma reserve_at_mac c now mac s :
  Inv c s -> valid_mac mac = true -> forall i, snd (reserve c now mac s) = RsAt i ->
  exists l, nth_error (leases (fst (reserve c now mac s))) i = Some l /\ l_mac l = mac /\ l_static l = false.
Proof.
  intros I Hlen i. unfold reserve. destruct (next_ip c s) as [ip|].
  - destruct (add_lease c _ s) as [s'|] eqn:Ea; cbn; [|discriminate].
    intros E; inversion E; subst. apply add_lease_some in Ea as (-> & _).
    eexists. split; [rewrite nth_error_app2, Nat.sub_diag by lia; reflexivity|split; reflexivity].
  - destruct (find_expired now (leases s)) as [[j l]|] eqn:Ef; cbn; [|discriminate].
    intros E; inversion E; subst. apply find_index_some in Ef as [Ei Ee]. apply expired_dynamic in Ee.
    eexists. split; [apply nth_error_update_nth; eauto|]. cbn. split; auto.
Qed.

Lemma reserve_at c now mac s i :
  snd (reserve c now mac s) = RsAt i -> (i < length (leases (fst (reserve c now mac s))))%nat.
Proof.
  unfold reserve. destruct (next_ip c s).
  - destruct (add_lease c _ s) as [s'|] eqn:Ea; cbn; [|discriminate].
    intros E; inversion E; subst. apply add_lease_some in Ea as (-> & _).
    rewrite app_length; cbn; lia.
  - destruct (find_expired now (leases s)) as [[j l]|] eqn:Ef; cbn; [|discriminate].
    intros E; inversion E; subst. apply find_index_some in Ef as [Ei _].
    destruct (nth_error_split' _ _ _ Ei) as (l1 & l2 & EL & <-).
    rewrite EL, update_nth_split, app_length. cbn. lia.
Qed.

Lemma commit_inv c now i host s : Inv c s -> Inv c (commit c now i host s).
Proof.
  intros I. unfold commit. destruct (nth_error (leases s) i) as [l|] eqn:E; auto.
  destruct I as [L X K].
  set (f := fun l0 : lease => set_exp (set_host l0 _) (now + c_lease c)%Z).
  assert (Eips : ips (update_nth i f (leases s)) = ips (leases s)) by (apply ips_update_nth; reflexivity).
  split; cbn; auto.
  - eapply Thin_ListInv; [apply Thin_update_nth|exact L]. intros; repeat split.
  - apply (IdxInv_same_ips c (leases s)); [symmetry; exact Eips|].
    destruct X as [A B]. split; cbn; auto.
    intros ip. rewrite upd_eq. destruct (N.eqb_spec ip (l_ip l)) as [->|]; auto.
    split; auto. intros _. apply in_map. eapply nth_error_In; eauto.
Qed.

(** * blocklist, allocate *)

Lemma blocklist_inv c now i s : Inv c s -> Inv c (blocklist c now i s).
Proof.
  intros I. unfold blocklist. destruct (nth_error (leases s) i) as [l|] eqn:Ei; auto.
  destruct (nth_error_split' _ _ _ Ei) as (l1 & l2 & EL & <-).
  destruct I as [[A B C D E] X K]. rewrite EL in *. rewrite update_nth_split. cbn beta.
  set (l' := Lease (l_ip l) blocklist_mac [] (l_static l) (now + c_lease c)%Z).
  assert (Eips : ips (l1 ++ l :: l2) = ips (l1 ++ l' :: l2)) by (rewrite !ips_app; reflexivity).
  split; cbn [leases ix disk]; auto.
  - split.
    + rewrite <- Eips; auto.
    + apply NoDup_replace_cmac with (l := l); auto. rewrite in_cmacs. intros [_ H].
      unfold l' in H. cbn [l_mac] in H. rewrite blocklist_mac_dead in H. discriminate.
    + intros y Hy. apply in_app_iff in Hy as [Hy|[<-|Hy]]; cbn;
        [apply C|apply (C l)|apply C]; rewrite in_app_iff; cbn; auto.
    + intros y Hy. apply in_app_iff in Hy as [Hy|[<-|Hy]]; cbn;
        [apply D|apply (D l)|apply D]; rewrite in_app_iff; cbn; auto.
    + intros y Hy. apply in_app_iff in Hy as [Hy|[<-|Hy]];
        [apply E; rewrite in_app_iff; auto| |apply E; rewrite in_app_iff; cbn; auto].
      unfold mac_ok, l'. cbn [l_mac]. apply blocklist_mac_valid.
  - eapply IdxInv_same_ips; [exact Eips|]. destruct X as [P Q]. split; [exact P|exact Q].
Qed.

(** Block-listing the client's own fresh lease leaves no lease of the client. *)
Lemma blocklist_clears_mac c now i s l :
  Inv c s -> nth_error (leases s) i = Some l ->
  ~ In (l_mac l) (cmacs (leases (blocklist c now i s))).
Proof.
  intros I Ei. unfold blocklist. rewrite Ei.
  destruct (nth_error_split' _ _ _ Ei) as (l1 & l2 & EL & <-).
  destruct I as [[_ B _ _ _] _ _]. rewrite EL in B. cbn [leases].
  rewrite EL, update_nth_split, cmacs_app, cmacs_cons. cbn [l_mac]. rewrite blocklist_mac_dead.
  rewrite cmacs_app, cmacs_cons in B.
  destruct (live (l_mac l)) eqn:Hl.
  - apply NoDup_remove_2 in B. exact B.
  - intros Hin. apply in_app_iff in Hin as [Hin|Hin]; apply in_cmacs in Hin as [_ Hin]; congruence.
Qed.

Lemma allocate_inv c now busy mac : forall fuel s,
  Inv c s -> valid_mac mac = true -> ~ In mac (cmacs (leases s)) ->
  Inv c (fst (allocate fuel c now busy mac s)).
Proof.
  induction fuel as [|f IH]; intros s I Hlen Hmac; cbn [allocate]; auto.
  pose proof (reserve_inv c now mac s I Hlen Hmac) as R.
  pose proof (reserve_at_mac c now mac s I Hlen) as M.
  destruct (reserve c now mac s) as [s1 r]; cbn [fst snd] in *.
  destruct r; auto.
  destruct (mem_ip (ip_at s1 i) busy); auto.
  destruct (M i eq_refl) as (l & El & Elm & _).
  apply IH; auto using blocklist_inv. rewrite <- Elm. eapply blocklist_clears_mac; eauto.
Qed.

(** The lease allocateLease hands out carries the client's address, is a
    dynamic one and its address does not answer the probe. *)
Lemma allocate_at c now busy mac : forall fuel s,
  Inv c s -> valid_mac mac = true -> ~ In mac (cmacs (leases s)) ->
  forall i, snd (allocate fuel c now busy mac s) = RsAt i ->
  exists l, nth_error (leases (fst (allocate fuel c now busy mac s))) i = Some l /\ l_mac l = mac /\
            l_static l = false /\ mem_ip (l_ip l) busy = false.
Proof.
  induction fuel as [|f IH]; intros s I Hlen Hmac j; cbn [allocate]; [discriminate|].
  pose proof (reserve_inv c now mac s I Hlen Hmac) as R.
  pose proof (reserve_at_mac c now mac s I Hlen) as M.
  destruct (reserve c now mac s) as [s1 r]; cbn [fst snd] in *.
  destruct r; try discriminate.
  destruct (M i eq_refl) as (l & El & Elm & Els).
  destruct (mem_ip (ip_at s1 i) busy) eqn:Eb.
  - apply IH; auto using blocklist_inv. rewrite <- Elm. eapply blocklist_clears_mac; eauto.
  - cbn [fst snd]. intros E; inversion E; subst j. exists l. repeat split; auto.
    unfold ip_at in Eb. rewrite El in Eb. exact Eb.
Qed.

(** * store, load *)

Lemma insert_by_host_perm l L : Permutation (insert_by_host l L) (l :: L).
Proof.
  induction L as [|y r IH]; cbn; auto.
  destruct (bytes_ltb (l_host y) (l_host l)); auto.
  rewrite IH. apply perm_swap.
Qed.

Lemma sort_by_host_perm L : Permutation (sort_by_host L) L.
Proof.
  induction L as [|l L IH]; cbn; auto. rewrite insert_by_host_perm. auto.
Qed.

Lemma store_list_perm L : Permutation (store_list L) (map db_lease L).
Proof. apply sort_by_host_perm. Qed.

Lemma ips_db L : ips (map db_lease L) = ips L.
Proof. unfold ips. rewrite map_map. reflexivity. Qed.
Lemma macs_db L : macs (map db_lease L) = macs L.
Proof. unfold macs. rewrite map_map. reflexivity. Qed.

Lemma store_list_ips L : Permutation (ips (store_list L)) (ips L).
Proof. replace (ips L) with (ips (map db_lease L)) by apply ips_db. apply Permutation_map, store_list_perm. Qed.
Lemma store_list_macs L : Permutation (macs (store_list L)) (macs L).
Proof. replace (macs L) with (macs (map db_lease L)) by apply macs_db. apply Permutation_map, store_list_perm. Qed.

Lemma Permutation_filter_p {A} (f : A -> bool) l l' :
  Permutation l l' -> Permutation (filter f l) (filter f l').
Proof.
  induction 1; cbn; auto.
  - destruct (f x); auto.
  - destruct (f x), (f y); auto. apply perm_swap.
  - eapply Permutation_trans; eauto.
Qed.

Lemma store_list_cmacs L : Permutation (cmacs (store_list L)) (cmacs L).
Proof. unfold cmacs. apply Permutation_filter_p, store_list_macs. Qed.

Lemma store_list_disk c L : ListInv c L -> DiskInv c (store_list L).
Proof.
  intros [A B C D E]. split.
  - eapply Permutation_NoDup; [apply Permutation_sym, store_list_ips|]; auto.
  - eapply Permutation_NoDup; [apply Permutation_sym, store_list_cmacs|]; auto.
  - intros l Hl Hs. eapply Permutation_in in Hl; [|apply store_list_perm].
    apply in_map_iff in Hl as (l0 & <- & Hl0). cbn in *. apply D; auto.
  - intros l Hl. eapply Permutation_in in Hl; [|apply store_list_perm].
    apply in_map_iff in Hl as (l0 & <- & Hl0). exact (E l0 Hl0).
Qed.

Lemma store_inv c s : Inv c s -> Inv c (store s).
Proof. intros [L X K]. split; cbn; auto. apply store_list_disk; auto. Qed.

Lemma reload_lease_core l : same_core l (reload_lease l).
Proof. unfold reload_lease. destruct (negb (l_static l) && negb (is_nil (l_host l))); repeat split. Qed.

Lemma load_fold_inv c : forall d s,
  Inv c s -> NoDup (ips d) -> NoDup (cmacs d) ->
  (forall l, In l d -> l_static l = true -> l_ip l <> c_gw c) ->
  (forall l, In l d -> mac_ok l) ->
  (forall l, In l d -> ~ In (l_ip l) (ips (leases s)) /\ ~ In (l_mac l) (cmacs (leases s))) ->
  Inv c (fold_left (load_step c) d s).
Proof.
  induction d as [|l d IH]; intros s I Ni Nm G O F; cbn [fold_left]; auto.
  cbn in Ni. apply NoDup_cons_iff in Ni as [Ni1 Ni2].
  rewrite cmacs_cons in Nm.
  assert (Nm2 : NoDup (cmacs d)) by (destruct (live (l_mac l)); [inversion Nm|]; auto).
  assert (Nm1 : live (l_mac l) = true -> ~ In (l_mac l) (cmacs d)).
  { intros Hl. rewrite Hl in Nm. inversion Nm; auto. }
  destruct (reload_lease_core l) as (E1 & E2 & E3).
  apply IH; auto.
  - unfold load_step. destruct (valid_mac (l_mac l)); auto.
    destruct (add_lease c (reload_lease l) s) as [s'|] eqn:Ea; auto.
    destruct (F l (or_introl eq_refl)).
    eapply add_lease_inv; eauto; rewrite <- ?E1, <- ?E2, <- ?E3; auto.
    + apply G; cbn; auto.
    + unfold mac_ok. rewrite <- E2. apply O; cbn; auto.
  - intros; apply G; cbn; auto.
  - intros; apply O; cbn; auto.
  - intros y Hy. unfold load_step. destruct (valid_mac (l_mac l)); [|apply F; cbn; auto].
    destruct (add_lease c (reload_lease l) s) as [s'|] eqn:Ea; [|apply F; cbn; auto].
    apply add_lease_some in Ea as (-> & _). rewrite ips_app, cmacs_app, cmacs_cons, !in_app_iff.
    change (cmacs []) with (@nil N). change (ips [reload_lease l]) with [l_ip (reload_lease l)].
    rewrite <- E1, <- E2. destruct (F y (or_intror Hy)) as [Fa Fb].
    split.
    + intros [?|[Q|[]]]; auto. apply Ni1. rewrite Q. apply in_map; auto.
    + intros [?|Hin]; auto. destruct (live (l_mac l)) eqn:Hl; [|destruct Hin].
      destruct Hin as [Q|[]]. apply (Nm1 eq_refl). rewrite Q. apply in_cmacs.
      split; [apply in_map; auto|rewrite <- Q; exact Hl].
Qed.

Lemma empty_inv c d : DiskInv c d -> Inv c (State [] empty_index d).
Proof.
  intros K. split; cbn; auto.
  - split; cbn; try constructor; tauto.
  - split; cbn; intros; split; try discriminate; tauto.
Qed.

Lemma load_inv c d : DiskInv c d -> Inv c (load c d).
Proof.
  intros K. unfold load. pose proof K as [A B G O]. apply load_fold_inv; auto.
  all: try solve [apply empty_inv; auto]; try solve [cbn; tauto].
Qed.

(** * Handlers *)

(** The client an operation speaks for. *)
Definition op_mac (o : op) : option N :=
  match o with
  | ODiscover m | ORequest m _ _ _ _ | ODecline m _ _ | ORelease m _ _ => Some m
  | _ => None
  end.

(** What is assumed of the operations: DHCP messages carry hardware addresses
    of 6, 8 or 20 bytes (the lengths the lease file can hold), and nobody
    (message or reservation) uses the all-zero address, which the server
    keeps for block-listed addresses. *)
Definition op_ok (o : op) : Prop :=
  match o with
  | ODiscover m | ORequest m _ _ _ _ | ODecline m _ _ | ORelease m _ _ =>
      valid_mac m = true /\ live m = true
  | OStaticAdd m _ _ | OStaticUpdate m _ _ | OStaticRemove m _ _ => live m = true
  | _ => True
  end.

Definition hist_ok (h : list event) : Prop := Forall (fun p : event => op_ok (snd p)) h.

Lemma discover_inv c now busy mac s :
  Inv c s -> valid_mac mac = true -> Inv c (fst (discover c now busy mac s)).
Proof.
  intros I Hlen. unfold discover.
  destruct (find_lease mac (leases s)) as [[i l]|] eqn:Ef; cbn; [apply store_inv; auto|].
  pose proof (allocate_inv c now busy mac (alloc_fuel c s) s I Hlen
                (not_in_cmacs _ _ (find_index_none_mac _ _ Ef))) as R.
  destruct (allocate _ c now busy mac s) as [s' r]; cbn in *.
  destruct r; cbn; apply store_inv; auto.
Qed.

Lemma request_inv c now mac sid reqip ci host s :
  Inv c s -> Inv c (fst (request c now mac sid reqip ci host s)).
Proof.
  intros I. unfold request.
  destruct (request_lease c mac sid reqip ci s) as [r|[i l]]; cbn; auto.
  destruct (l_static l); cbn; apply store_inv; auto using commit_inv.
Qed.

Lemma decline_inv c now busy mac reqip ci s :
  Inv c s -> valid_mac mac = true -> Inv c (fst (decline c now busy mac reqip ci s)).
Proof.
  intros I Hlen. unfold decline.
  destruct (find_index _ (leases s)) as [[oi old]|] eqn:Ef; cbn; [|apply store_inv; auto].
  apply find_index_some in Ef as [_ Ep]. apply andb_true_iff in Ep as [Em _]. apply N.eqb_eq in Em.
  pose proof (rm_dynamic_lease_inv c (l_mac old) (l_ip old) (l_host old) s I) as I1.
  pose proof (rm_dynamic_lease_clears c (l_mac old) (l_ip old) (l_host old) s) as C1.
  destruct (rm_dynamic_lease c (l_mac old) (l_ip old) (l_host old) s) as [s1 e]; cbn in *.
  destruct e; cbn; [apply store_inv; auto|].
  destruct (C1 eq_refl) as [Cm _]. rewrite Em in Cm.
  pose proof (allocate_inv c now busy mac (alloc_fuel c s1) s1 I1 Hlen (not_in_cmacs _ _ Cm)) as R.
  destruct (allocate _ c now busy mac s1) as [s2 r]; cbn in *.
  destruct r; cbn; apply store_inv; auto using commit_inv.
Qed.

Lemma release_inv c mac reqip ci s : Inv c s -> Inv c (fst (release c mac reqip ci s)).
Proof.
  intros I. unfold release.
  destruct (find_index _ (leases s)) as [[oi old]|] eqn:Ef; cbn; [|apply store_inv; auto].
  pose proof (rm_dynamic_lease_inv c (l_mac old) (l_ip old) (l_host old) s I) as I1.
  destruct (rm_dynamic_lease c (l_mac old) (l_ip old) (l_host old) s) as [s1 e]; cbn in *.
  destruct e; cbn; apply store_inv; auto.
Qed.

Lemma static_add_inv c mac ip host s : Inv c s -> Inv c (fst (static_add c mac ip host s)).
Proof.
  intros I. unfold static_add.
  destruct (N.eqb_spec ip (c_gw c)) as [|Hgw]; cbn; auto.
  destruct (valid_mac mac) eqn:Ev; cbn; auto.
  destruct (if is_nil host then Some [] else _) as [h|]; cbn; auto.
  pose proof (rm_dynamic_lease_inv c mac ip h s I) as I1.
  pose proof (rm_dynamic_lease_clears c mac ip h s) as C1.
  destruct (rm_dynamic_lease c mac ip h s) as [s1 e]; cbn in *.
  destruct e; cbn; [apply store_inv; auto|].
  destruct (C1 eq_refl) as [Cm Ci]. apply not_in_cmacs in Cm.
  destruct (add_lease c _ s1) as [s2|] eqn:Ea; cbn; apply store_inv; auto.
  eapply add_lease_inv; eauto; exact Ev.
Qed.

Lemma lease_by_ip_some ip L d : lease_by_ip ip L = Some d -> In d L /\ l_ip d = ip.
Proof.
  unfold lease_by_ip. destruct (find_index _ L) as [[i x]|] eqn:E; [|discriminate].
  intros H; inversion H; subst. apply find_index_some in E as [E1 E2].
  split; [eapply nth_error_In; eauto|apply N.eqb_eq; auto].
Qed.

Lemma validate_static_some c mac ip host s h :
  validate_static c mac ip host s = Some h ->
  ip <> c_gw c /\ in_subnet c ip = true /\
  (iidx (ix s) ip = false \/ exists d, In d (leases s) /\ l_ip d = ip /\ l_mac d = mac).
Proof.
  unfold validate_static. destruct (normalize host) as [n|]; [|discriminate].
  destruct (negb (valid_hostname n)); [discriminate|].
  destruct (match hidx (ix s) n with Some _ => _ | None => false end); [discriminate|].
  destruct (iidx (ix s) ip) eqn:Ei; cbn [andb].
  - destruct (lease_by_ip ip (leases s)) as [d|] eqn:El; [|discriminate].
    destruct (N.eqb_spec (l_mac d) mac) as [Em|]; cbn [negb]; [|discriminate].
    destruct (N.eqb_spec ip (c_gw c)); [discriminate|].
    destruct (in_subnet c ip); cbn [negb]; [|discriminate].
    intros _. apply lease_by_ip_some in El as [? ?]. repeat split; auto. right; eauto.
  - destruct (N.eqb_spec ip (c_gw c)); [discriminate|].
    destruct (in_subnet c ip); cbn [negb]; [|discriminate]. auto.
Qed.

Lemma rm_lease_some c ip mac host s s1 :
  rm_lease c ip mac host s = Some s1 ->
  (s1 = s /\ leases s = []) \/ exists l1 l l2, leases s = l1 ++ l :: l2 /\ l_mac l = mac /\ l_ip l = ip /\
                            s1 = rm_lease_by_index c (length l1) s /\ leases s1 = l1 ++ l2.
Proof.
  unfold rm_lease. destruct (leases s) as [|a0 r0] eqn:EL0; cbn [is_nil]; [intros H; inversion H; auto|].
  rewrite <- EL0 in *. clear EL0 a0 r0.
  destruct (find_index _ (leases s)) as [[i l]|] eqn:Ef; [|discriminate].
  destruct ((l_mac l =? mac) && eqb_bytes (l_host l) host) eqn:Ec; [|discriminate].
  intros H; inversion H; subst. right.
  apply find_index_some in Ef as [Ei Ep]. apply N.eqb_eq in Ep.
  apply andb_true_iff in Ec as [Em _]. apply N.eqb_eq in Em.
  destruct (nth_error_split' _ _ _ Ei) as (l1 & l2 & EL & <-).
  exists l1, l, l2. repeat split; auto.
  unfold rm_lease_by_index. rewrite Ei. cbn. rewrite EL. apply remove_nth_split.
Qed.

Lemma rm_lease_inv c ip mac host s s1 : Inv c s -> rm_lease c ip mac host s = Some s1 -> Inv c s1.
Proof.
  intros I H. apply rm_lease_some in H as [[-> _]|(l1 & l & l2 & _ & _ & _ & -> & _)]; auto.
  apply rm_lease_by_index_inv; auto.
Qed.

Lemma static_update_inv c mac ip host s :
  Inv c s -> live mac = true -> Inv c (fst (static_update c mac ip host s)).
Proof.
  intros I Hlive. unfold static_update.
  destruct (find_lease mac (leases s)) as [[fi found]|] eqn:Ef; cbn; auto.
  destruct (validate_static c mac ip host s) as [h|] eqn:Ev; cbn; auto.
  destruct (rm_lease c _ _ _ s) as [s1|] eqn:Er; cbn; auto.
  pose proof (rm_lease_inv _ _ _ _ _ _ I Er) as I1.
  destruct (add_lease c _ s1) as [s2|] eqn:Ea; cbn; auto.
  apply store_inv.
  apply find_index_some in Ef as [Efi Efm]. cbn in Efm. apply N.eqb_eq in Efm.
  apply validate_static_some in Ev as (Hgw & _ & Hip).
  apply rm_lease_some in Er as [[_ E0]|(l1 & l & l2 & EL & Elm & _ & _ & EL1)].
  { rewrite E0 in Efi. destruct fi; discriminate. }
  assert (Nm : ~ In mac (macs (l1 ++ l2))).
  { pose proof I as [[_ B _ _ _] _ _]. rewrite EL, cmacs_app, cmacs_cons in B.
    assert (Elive : live (l_mac l) = true) by congruence. rewrite Elive in B.
    apply NoDup_remove_2 in B. intros Hin. apply B. rewrite <- cmacs_app. apply in_cmacs.
    split; [replace (l_mac l) with mac by congruence; exact Hin|exact Elive]. }
  apply (add_lease_inv c _ s1 s2 I1 Ea); cbn [l_ip l_mac l_static]; rewrite ?EL1;
    [|apply not_in_cmacs, Nm|intros _; exact Hgw|
     unfold mac_ok; cbn [l_static l_mac]; rewrite <- Efm; apply mac_ok_valid;
     pose proof I as [[_ _ _ _ E] _ _]; apply E; eapply nth_error_In; eauto].
  destruct Hip as [Hip|(d & Hd & Hdi & Hdm)].
  - intros Hin. destruct I as [_ [A _] _].
    assert (iidx (ix s) ip = true); [|congruence].
    apply A. rewrite EL. eapply Thin_in_ip; [apply Thin_remove|exact Hin].
  - rewrite EL in Hd. apply in_app_iff in Hd as [Hd|[<-|Hd]].
    + exfalso. apply Nm. rewrite macs_app, in_app_iff. left. rewrite <- Hdm. apply in_map; auto.
    + destruct I as [[A _ _ _ _] _ _]. rewrite EL, ips_app in A. cbn in A.
      apply NoDup_remove_2 in A. rewrite ips_app, <- Hdi. exact A.
    + exfalso. apply Nm. rewrite macs_app, in_app_iff. right. rewrite <- Hdm. apply in_map; auto.
Qed.

Lemma static_remove_inv c mac ip host s : Inv c s -> Inv c (fst (static_remove c mac ip host s)).
Proof.
  intros I. unfold static_remove. destruct (valid_mac mac); cbn; auto.
  destruct (rm_lease c ip mac host s) as [s1|] eqn:Er; cbn; auto.
  apply store_inv. eapply rm_lease_inv; eauto.
Qed.

Lemma restart_inv c s : Inv c s -> Inv c (restart c s).
Proof. intros [_ _ K]. apply load_inv; auto. Qed.

Theorem step_inv c s now busy o : Inv c s -> op_ok o -> Inv c (fst (step c s now busy o)).
Proof.
  intros I Ho. destruct o; cbn [step]; cbn in Ho.
  - apply discover_inv; tauto.
  - apply request_inv; auto.
  - apply decline_inv; tauto.
  - apply release_inv; auto.
  - apply static_add_inv; auto.
  - apply static_update_inv; auto.
  - apply static_remove_inv; auto.
  - exact I.
  - apply restart_inv; auto.
Qed.

Theorem run_inv c h : forall s, hist_ok h -> Inv c s -> Inv c (run c h s).
Proof.
  unfold run. induction h as [|[[now busy] o] h IH]; intros s Hh I; cbn; auto.
  inversion Hh; subst. apply IH; auto. apply step_inv; auto.
Qed.

Lemma empty_state_inv c : Inv c empty_state.
Proof. apply empty_inv. split; cbn; try constructor; tauto. Qed.

(** Every state reachable from the empty table by any history, for any
    configuration and any clock readings. *)
Theorem inv_reachable c h : hist_ok h -> Inv c (run c h empty_state).
Proof. intros Hh. apply run_inv; auto. apply empty_state_inv. Qed.

(** * The hostname index *)

Lemma eqb_bytes_spec (a b : bytes) : eqb_bytes a b = true <-> a = b.
Proof.
  unfold eqb_bytes. revert b; induction a as [|x a IH]; destruct b as [|y b]; cbn;
    try (split; [discriminate|discriminate]); try tauto.
  rewrite andb_true_iff, IH, N.eqb_eq. split; [intros [-> ->]; auto|intros H; inversion H; auto].
Qed.

Lemma hupd_eq {A} (f : bytes -> A) k v x : hupd f k v x = if eqb_bytes x k then v else f x.
Proof. reflexivity. Qed.

Lemma hupd_same {A} (f : bytes -> A) k v : hupd f k v k = v.
Proof. rewrite hupd_eq. destruct (eqb_bytes k k) eqn:E; auto.
  assert (eqb_bytes k k = true) by (apply eqb_bytes_spec; auto). congruence. Qed.

Lemma hupd_other {A} (f : bytes -> A) k v x : x <> k -> hupd f k v x = f x.
Proof. intros H. rewrite hupd_eq. destruct (eqb_bytes x k) eqn:E; auto.
  apply eqb_bytes_spec in E. contradiction. Qed.

Lemma is_nil_spec {A} (l : list A) : is_nil l = true <-> l = [].
Proof. destruct l; cbn; split; congruence. Qed.

Definition names (L : list lease) : list (N * bytes) := map (fun l => (l_ip l, l_host l)) L.

(** The hostname index has exactly one entry per named lease, pointing to it. *)
Definition HInv (M : list (N * bytes)) (hi : bytes -> option N) : Prop :=
  forall h ip, hi h = Some ip <-> (h <> [] /\ In (ip, h) M).

Lemma names_fst L : map fst (names L) = ips L.
Proof. unfold names, ips. rewrite map_map. reflexivity. Qed.

Lemma names_app a b : names (a ++ b) = names a ++ names b.
Proof. apply map_app. Qed.

Lemma HInv_ext M hi hi' : (forall h, hi h = hi' h) -> HInv M hi -> HInv M hi'.
Proof. intros E H h ip. rewrite <- E. apply H. Qed.

Lemma HInv_mem M M' hi : (forall p, In p M <-> In p M') -> HInv M hi -> HInv M' hi.
Proof. intros E H h ip. rewrite <- E. apply H. Qed.

Lemma HInv_nil_key M hi : HInv M hi -> hi [] = None.
Proof. intros H. destruct (hi []) as [ip|] eqn:E; auto. apply H in E. tauto. Qed.

Lemma HInv_remove M1 ip h M2 hi :
  HInv (M1 ++ (ip, h) :: M2) hi -> NoDup (map fst (M1 ++ (ip, h) :: M2)) ->
  HInv (M1 ++ M2) (hupd hi h None).
Proof.
  intros H N k ip'.
  assert (Hn : ~ In ip (map fst (M1 ++ M2))).
  { rewrite map_app in *. cbn in N. apply NoDup_remove_2 in N. exact N. }
  destruct (list_eq_dec N.eq_dec k h) as [->|Hk].
  - rewrite hupd_same. split; [discriminate|]. intros [Hne Hin]. exfalso.
    assert (E1 : hi h = Some ip') by (apply H; split; auto; rewrite in_app_iff in *; cbn; tauto).
    assert (E2 : hi h = Some ip) by (apply H; split; auto; rewrite in_app_iff; cbn; tauto).
    assert (ip' = ip) by congruence. subst. apply Hn. apply in_map_iff. exists (ip, h); auto.
  - rewrite hupd_other by auto. rewrite (H k ip'), !in_app_iff. cbn.
    split; intros [? Hin]; split; auto; [|tauto].
    destruct Hin as [?|[E|?]]; auto. inversion E; congruence.
Qed.

Lemma HInv_add M ip h hi :
  HInv M hi -> (h = [] \/ hi h = None) ->
  HInv (M ++ [(ip, h)]) (if is_nil h then hi else hupd hi h (Some ip)).
Proof.
  intros H Hh k ip'. rewrite in_app_iff. cbn.
  destruct (is_nil h) eqn:En.
  - apply is_nil_spec in En. subst h. rewrite (H k ip'). split; [tauto|].
    intros [? [?|[E|[]]]]; auto. inversion E; congruence.
  - assert (h <> []) by (intros ->; discriminate).
    destruct Hh as [?|Hh]; [contradiction|].
    destruct (list_eq_dec N.eq_dec k h) as [->|Hk].
    + rewrite hupd_same. split.
      * intros E; inversion E; subst. auto.
      * intros [_ [Hin|[E|[]]]]; [|inversion E; auto].
        assert (hi h = Some ip') by (apply H; auto). congruence.
    + rewrite hupd_other by auto. rewrite (H k ip'). split; [tauto|].
      intros [? [?|[E|[]]]]; auto. inversion E; congruence.
Qed.

(** Renaming the lease with address [ip] from [prev] to [h], the way
    commitLease updates the index. *)
Lemma HInv_rename M1 ip prev M2 hi h :
  HInv (M1 ++ (ip, prev) :: M2) hi -> NoDup (map fst (M1 ++ (ip, prev) :: M2)) ->
  (h = prev \/ h = [] \/ hi h = None) ->
  HInv (M1 ++ (ip, h) :: M2)
    (let hi1 := if negb (is_nil prev) && negb (eqb_bytes prev h) then hupd hi prev None else hi in
     if is_nil h then hi1 else hupd hi1 h (Some ip)).
Proof.
  intros H N Hh.
  destruct (list_eq_dec N.eq_dec h prev) as [->|Hne].
  - (* same name: nothing changes *)
    assert (E : eqb_bytes prev prev = true) by (apply eqb_bytes_spec; auto).
    rewrite E, andb_false_r. cbn zeta.
    destruct (is_nil prev) eqn:En; auto.
    eapply HInv_ext; [|exact H]. intros k.
    destruct (list_eq_dec N.eq_dec k prev) as [->|Hk].
    + rewrite hupd_same. apply H. split; [intros ->; discriminate|]. rewrite in_app_iff; cbn; auto.
    + rewrite hupd_other; auto.
  - assert (Hh' : h = [] \/ hi h = None) by tauto. clear Hh.
    assert (E : eqb_bytes prev h = false).
    { destruct (eqb_bytes prev h) eqn:E; auto. apply eqb_bytes_spec in E. congruence. }
    rewrite E, andb_true_r. cbn zeta.
    pose proof (HInv_remove _ _ _ _ _ H N) as R.
    assert (R' : HInv (M1 ++ M2) (if negb (is_nil prev) then hupd hi prev None else hi)).
    { destruct (is_nil prev) eqn:En; cbn; auto. apply is_nil_spec in En. subst prev.
      eapply HInv_ext; [|exact R]. intros k.
      destruct (list_eq_dec N.eq_dec k []) as [->|Hk].
      - rewrite hupd_same. symmetry. eapply HInv_nil_key; eauto.
      - rewrite hupd_other; auto. }
    eapply HInv_mem; [|apply (HInv_add _ ip h _ R')].
    + intros p. rewrite !in_app_iff. cbn. tauto.
    + destruct Hh' as [?|Hn]; auto. right.
      destruct (negb (is_nil prev)); auto. rewrite hupd_other; auto.
Qed.

Record FullInv (c : conf) (s : state) : Prop := {
  fi_inv : Inv c s;
  fi_host : HInv (names (leases s)) (hidx (ix s))
}.

Lemma names_split_nodup l1 l l2 :
  NoDup (ips (l1 ++ l :: l2)) -> NoDup (map fst (names l1 ++ (l_ip l, l_host l) :: names l2)).
Proof. intros N. rewrite <- names_fst, names_app in N. exact N. Qed.

Lemma add_lease_hidx c l s s' :
  add_lease c l s = Some s' ->
  (l_host l = [] \/ hidx (ix s) (l_host l) = None) /\
  hidx (ix s') = (if is_nil (l_host l) then hidx (ix s)
                  else hupd (hidx (ix s)) (l_host l) (Some (l_ip l))).
Proof.
  unfold add_lease. intros H.
  destruct (if l_static l then _ else _); [discriminate|].
  destruct (negb (is_nil (l_host l)) && is_some (hidx (ix s) (l_host l))) eqn:E; [discriminate|].
  inversion H; subst; cbn. split; auto.
  apply andb_false_iff in E as [E|E].
  - left. apply negb_false_iff, is_nil_spec in E. auto.
  - right. destruct (hidx (ix s) (l_host l)); [discriminate|auto].
Qed.

Lemma add_lease_full c l s s' :
  FullInv c s -> add_lease c l s = Some s' ->
  ~ In (l_ip l) (ips (leases s)) -> ~ In (l_mac l) (cmacs (leases s)) ->
  (l_static l = true -> l_ip l <> c_gw c) -> mac_ok l ->
  FullInv c s'.
Proof.
  intros [I H] Ea Hi Hm Hg Hok. split; [eapply add_lease_inv; eauto|].
  destruct (add_lease_hidx _ _ _ _ Ea) as [Hc ->].
  apply add_lease_some in Ea as (-> & _). rewrite names_app. cbn.
  apply HInv_add; auto.
Qed.

Lemma rm_lease_by_index_full c i s : FullInv c s -> FullInv c (rm_lease_by_index c i s).
Proof.
  intros [I H]. split; [apply rm_lease_by_index_inv; auto|].
  unfold rm_lease_by_index. destruct (nth_error (leases s) i) as [l|] eqn:E; auto.
  destruct (nth_error_split' _ _ _ E) as (l1 & l2 & EL & <-). cbn.
  rewrite EL, remove_nth_split, names_app. rewrite EL, names_app in H. cbn in H.
  eapply HInv_remove; eauto.
  apply names_split_nodup. rewrite <- EL. apply I.
Qed.

Lemma rm_dyn_host c mac ip host ls : forall pre x,
  NoDup (ips (pre ++ ls)) -> HInv (names (pre ++ ls)) (hidx x) ->
  HInv (names (pre ++ fst (fst (rm_dyn c mac ip host ls x)))) (hidx (snd (fst (rm_dyn c mac ip host ls x)))).
Proof.
  induction ls as [|l r IH]; intros pre x N H; cbn; [exact H|].
  assert (Nn : NoDup (map fst (names pre ++ (l_ip l, l_host l) :: names r))).
  { apply names_split_nodup. exact N. }
  destruct ((l_mac l =? mac) || (l_ip l =? ip)).
  - destruct (l_static l); cbn; [exact H|].
    apply IH.
    + eapply Thin_nodup_ip; [apply Thin_remove|exact N].
    + cbn. rewrite names_app in *. cbn in H. eapply HInv_remove; eauto.
  - destruct (negb (l_static l) && negb (is_nil (l_host l)) && eqb_bytes (l_host l) host) eqn:Ec.
    + specialize (IH (pre ++ [set_host l []]) (Index (hupd (hidx x) (l_host l) None) (iidx x) (offs x))).
      destruct (rm_dyn c mac ip host r _) as [[r' x'] e]. cbn in *.
      rewrite <- !app_assoc in IH. cbn in IH. apply IH.
      * rewrite ips_app in *. exact N.
      * rewrite names_app in *. cbn in *.
        apply andb_true_iff in Ec as [Ec _]. apply andb_true_iff in Ec as [_ Ec].
        apply negb_true_iff in Ec.
        pose proof (HInv_rename _ _ _ _ _ [] H Nn (or_intror (or_introl eq_refl))) as R.
        cbn zeta in R. rewrite Ec in R. cbn [negb andb is_nil] in R.
        destruct (l_host l); [discriminate|]. exact R.
    + specialize (IH (pre ++ [l]) x).
      destruct (rm_dyn c mac ip host r x) as [[r' x'] e]. cbn in *.
      rewrite <- !app_assoc in IH. cbn in IH. apply IH; auto.
Qed.

Lemma rm_dynamic_lease_full c mac ip host s :
  FullInv c s -> FullInv c (fst (rm_dynamic_lease c mac ip host s)).
Proof.
  intros [I H]. split; [apply rm_dynamic_lease_inv; auto|].
  unfold rm_dynamic_lease.
  pose proof (rm_dyn_host c mac ip host (leases s) [] (ix s)) as X.
  destruct (rm_dyn c mac ip host (leases s) (ix s)) as [[ls x] e]. cbn in *.
  apply X; auto. apply I.
Qed.

Lemma names_update_nth i f L :
  (forall l, l_ip (f l) = l_ip l /\ l_host (f l) = l_host l) -> names (update_nth i f L) = names L.
Proof.
  intros Hf. revert i; induction L as [|a L IH]; destruct i; cbn; try reflexivity.
  - destruct (Hf a) as [-> ->]; reflexivity.
  - f_equal; apply IH.
Qed.

Lemma reserve_full c now mac s :
  FullInv c s -> valid_mac mac = true -> ~ In mac (cmacs (leases s)) ->
  FullInv c (fst (reserve c now mac s)).
Proof.
  intros F Hlen Hmac. pose proof (reserve_inv c now mac s (fi_inv _ _ F) Hlen Hmac) as R.
  unfold reserve in *.
  destruct (next_ip c s) as [ip|] eqn:En.
  - destruct (add_lease c _ s) as [s'|] eqn:Ea; cbn; auto.
    eapply add_lease_full; eauto; try (cbn; discriminate); try exact Hlen.
    eapply next_ip_fresh; eauto. apply F.
  - destruct (find_expired now (leases s)) as [[i l]|] eqn:Ef; cbn in *; auto.
    split; auto. cbn. rewrite names_update_nth; [apply F|]. intros; split; reflexivity.
Qed.

Lemma commit_full c now i host s : FullInv c s -> FullInv c (commit c now i host s).
Proof.
  intros [I H]. split; [apply commit_inv; auto|].
  unfold commit. destruct (nth_error (leases s) i) as [l|] eqn:E; auto.
  destruct (nth_error_split' _ _ _ E) as (l1 & l2 & EL & <-). cbn [leases ix hidx].
  rewrite EL, update_nth_split, names_app. cbn [names map l_ip l_host set_exp set_host].
  rewrite EL, names_app in H. cbn [names map] in H.
  fold (names l2) in *.
  apply (HInv_rename _ _ _ _ _ _ H).
  - apply names_split_nodup. rewrite <- EL. apply I.
  - destruct (hidx (ix s) (valid_hostname_for_client host (l_ip l))) eqn:E0; cbn [is_some]; [|auto].
    destruct (is_nil (l_host l)) eqn:En; [|auto].
    destruct (hidx (ix s) (gen_hostname (l_ip l))) eqn:Eg; cbn [is_some]; auto.
Qed.

Lemma blocklist_full c now i s : FullInv c s -> FullInv c (blocklist c now i s).
Proof.
  intros [I H]. split; [apply blocklist_inv; auto|].
  unfold blocklist. destruct (nth_error (leases s) i) as [l|] eqn:E; auto.
  destruct (nth_error_split' _ _ _ E) as (l1 & l2 & EL & <-). cbn [leases ix hidx].
  rewrite EL, update_nth_split, names_app. cbn [names map l_ip l_host].
  rewrite EL, names_app in H. cbn [names map] in H.
  fold (names l2) in *.
  apply (HInv_rename _ _ _ _ _ [] H).
  - apply names_split_nodup. rewrite <- EL. apply I.
  - auto.
Qed.

Lemma allocate_full c now busy mac : forall fuel s,
  FullInv c s -> valid_mac mac = true -> ~ In mac (cmacs (leases s)) ->
  FullInv c (fst (allocate fuel c now busy mac s)).
Proof.
  induction fuel as [|f IH]; intros s F Hlen Hmac; cbn [allocate]; auto.
  pose proof (reserve_full c now mac s F Hlen Hmac) as R.
  pose proof (reserve_at_mac c now mac s (fi_inv _ _ F) Hlen) as M.
  destruct (reserve c now mac s) as [s1 r]; cbn [fst snd] in *.
  destruct r; auto.
  destruct (mem_ip (ip_at s1 i) busy); auto.
  destruct (M i eq_refl) as (l & El & Elm & _).
  apply IH; auto using blocklist_full. rewrite <- Elm. eapply blocklist_clears_mac; eauto. apply R.
Qed.

Lemma store_full c s : FullInv c s -> FullInv c (store s).
Proof. intros [I H]. split; [apply store_inv; auto|exact H]. Qed.

Lemma load_fold_full c : forall d s,
  FullInv c s -> NoDup (ips d) -> NoDup (cmacs d) ->
  (forall l, In l d -> l_static l = true -> l_ip l <> c_gw c) ->
  (forall l, In l d -> mac_ok l) ->
  (forall l, In l d -> ~ In (l_ip l) (ips (leases s)) /\ ~ In (l_mac l) (cmacs (leases s))) ->
  FullInv c (fold_left (load_step c) d s).
Proof.
  induction d as [|l d IH]; intros s I Ni Nm G O F; cbn [fold_left]; auto.
  cbn in Ni. apply NoDup_cons_iff in Ni as [Ni1 Ni2].
  rewrite cmacs_cons in Nm.
  assert (Nm2 : NoDup (cmacs d)) by (destruct (live (l_mac l)); [inversion Nm|]; auto).
  assert (Nm1 : live (l_mac l) = true -> ~ In (l_mac l) (cmacs d)).
  { intros Hl. rewrite Hl in Nm. inversion Nm; auto. }
  destruct (reload_lease_core l) as (E1 & E2 & E3).
  apply IH; auto.
  - unfold load_step. destruct (valid_mac (l_mac l)); auto.
    destruct (add_lease c (reload_lease l) s) as [s'|] eqn:Ea; auto.
    destruct (F l (or_introl eq_refl)).
    eapply add_lease_full; eauto; rewrite <- ?E1, <- ?E2, <- ?E3; auto.
    + apply G; cbn; auto.
    + unfold mac_ok. rewrite <- E2. apply O; cbn; auto.
  - intros; apply G; cbn; auto.
  - intros; apply O; cbn; auto.
  - intros y Hy. unfold load_step. destruct (valid_mac (l_mac l)); [|apply F; cbn; auto].
    destruct (add_lease c (reload_lease l) s) as [s'|] eqn:Ea; [|apply F; cbn; auto].
    apply add_lease_some in Ea as (-> & _). rewrite ips_app, cmacs_app, cmacs_cons, !in_app_iff.
    change (cmacs []) with (@nil N). change (ips [reload_lease l]) with [l_ip (reload_lease l)].
    rewrite <- E1, <- E2. destruct (F y (or_intror Hy)) as [Fa Fb].
    split.
    + intros [?|[Q|[]]]; auto. apply Ni1. rewrite Q. apply in_map; auto.
    + intros [?|Hin]; auto. destruct (live (l_mac l)) eqn:Hl; [|destruct Hin].
      destruct Hin as [Q|[]]. apply (Nm1 eq_refl). rewrite Q. apply in_cmacs.
      split; [apply in_map; auto|rewrite <- Q; exact Hl].
Qed.

Lemma load_full c d : DiskInv c d -> FullInv c (load c d).
Proof.
  intros K. unfold load. pose proof K as [A B G O]. apply load_fold_full; auto.
  split; [apply empty_inv; auto|]. unfold HInv; cbn. intros h ip. split; [discriminate|intros [_ []]].
Qed.

Lemma discover_full c now busy mac s :
  FullInv c s -> valid_mac mac = true -> FullInv c (fst (discover c now busy mac s)).
Proof.
  intros I Hlen. unfold discover.
  destruct (find_lease mac (leases s)) as [[i l]|] eqn:Ef; cbn; [apply store_full; auto|].
  pose proof (allocate_full c now busy mac (alloc_fuel c s) s I Hlen
                (not_in_cmacs _ _ (find_index_none_mac _ _ Ef))) as R.
  destruct (allocate _ c now busy mac s) as [s' r]; cbn in *.
  destruct r; cbn; apply store_full; auto.
Qed.

Lemma request_full c now mac sid reqip ci host s :
  FullInv c s -> FullInv c (fst (request c now mac sid reqip ci host s)).
Proof.
  intros I. unfold request.
  destruct (request_lease c mac sid reqip ci s) as [r|[i l]]; cbn; auto.
  destruct (l_static l); cbn; apply store_full; auto using commit_full.
Qed.

Lemma decline_full c now busy mac reqip ci s :
  FullInv c s -> valid_mac mac = true -> FullInv c (fst (decline c now busy mac reqip ci s)).
Proof.
  intros I Hlen. unfold decline.
  destruct (find_index _ (leases s)) as [[oi old]|] eqn:Ef; cbn; [|apply store_full; auto].
  apply find_index_some in Ef as [_ Ep]. apply andb_true_iff in Ep as [Em _]. apply N.eqb_eq in Em.
  pose proof (rm_dynamic_lease_full c (l_mac old) (l_ip old) (l_host old) s I) as I1.
  pose proof (rm_dynamic_lease_clears c (l_mac old) (l_ip old) (l_host old) s) as C1.
  destruct (rm_dynamic_lease c (l_mac old) (l_ip old) (l_host old) s) as [s1 e]; cbn in *.
  destruct e; cbn; [apply store_full; auto|].
  destruct (C1 eq_refl) as [Cm _]. rewrite Em in Cm.
  pose proof (allocate_full c now busy mac (alloc_fuel c s1) s1 I1 Hlen (not_in_cmacs _ _ Cm)) as R.
  destruct (allocate _ c now busy mac s1) as [s2 r]; cbn in *.
  destruct r; cbn; apply store_full; auto using commit_full.
Qed.

Lemma release_full c mac reqip ci s : FullInv c s -> FullInv c (fst (release c mac reqip ci s)).
Proof.
  intros I. unfold release.
  destruct (find_index _ (leases s)) as [[oi old]|] eqn:Ef; cbn; [|apply store_full; auto].
  pose proof (rm_dynamic_lease_full c (l_mac old) (l_ip old) (l_host old) s I) as I1.
  destruct (rm_dynamic_lease c (l_mac old) (l_ip old) (l_host old) s) as [s1 e]; cbn in *.
  destruct e; cbn; apply store_full; auto.
Qed.

Lemma static_add_full c mac ip host s : FullInv c s -> FullInv c (fst (static_add c mac ip host s)).
Proof.
  intros I. unfold static_add.
  destruct (N.eqb_spec ip (c_gw c)) as [|Hgw]; cbn; auto.
  destruct (valid_mac mac) eqn:Ev; cbn; auto.
  destruct (if is_nil host then Some [] else _) as [h|]; cbn; auto.
  pose proof (rm_dynamic_lease_full c mac ip h s I) as I1.
  pose proof (rm_dynamic_lease_clears c mac ip h s) as C1.
  destruct (rm_dynamic_lease c mac ip h s) as [s1 e]; cbn in *.
  destruct e; cbn; [apply store_full; auto|].
  destruct (C1 eq_refl) as [Cm Ci]. apply not_in_cmacs in Cm.
  destruct (add_lease c _ s1) as [s2|] eqn:Ea; cbn; apply store_full; auto.
  eapply add_lease_full; eauto; exact Ev.
Qed.

Lemma rm_lease_full c ip mac host s s1 : FullInv c s -> rm_lease c ip mac host s = Some s1 -> FullInv c s1.
Proof.
  intros I H. apply rm_lease_some in H as [[-> _]|(l1 & l & l2 & _ & _ & _ & -> & _)]; auto.
  apply rm_lease_by_index_full; auto.
Qed.

Lemma static_update_full c mac ip host s :
  FullInv c s -> live mac = true -> FullInv c (fst (static_update c mac ip host s)).
Proof.
  intros F Hlive. pose proof (static_update_inv c mac ip host s (fi_inv _ _ F) Hlive) as SI.
  split; auto. unfold static_update in *.
  destruct (find_lease mac (leases s)) as [[fi found]|] eqn:Ef; cbn; [|apply F].
  destruct (validate_static c mac ip host s) as [h|] eqn:Ev; cbn; [|apply F].
  destruct (rm_lease c _ _ _ s) as [s1|] eqn:Er; cbn; [|apply F].
  pose proof (rm_lease_full _ _ _ _ _ _ F Er) as F1.
  destruct (add_lease c _ s1) as [s2|] eqn:Ea; cbn; [|apply F1].
  destruct (add_lease_hidx _ _ _ _ Ea) as [Hc Eh]. cbn in Hc, Eh. rewrite Eh.
  apply add_lease_some in Ea as (-> & _). rewrite names_app. cbn.
  apply HInv_add; auto. apply F1.
Qed.

Lemma static_remove_full c mac ip host s : FullInv c s -> FullInv c (fst (static_remove c mac ip host s)).
Proof.
  intros I. unfold static_remove. destruct (valid_mac mac); cbn; auto.
  destruct (rm_lease c ip mac host s) as [s1|] eqn:Er; cbn; auto.
  apply store_full. eapply rm_lease_full; eauto.
Qed.

Theorem step_full c s now busy o : FullInv c s -> op_ok o -> FullInv c (fst (step c s now busy o)).
Proof.
  intros I Ho. destruct o; cbn [step]; cbn in Ho.
  - apply discover_full; tauto.
  - apply request_full; auto.
  - apply decline_full; tauto.
  - apply release_full; auto.
  - apply static_add_full; auto.
  - apply static_update_full; auto.
  - apply static_remove_full; auto.
  - exact I.
  - apply load_full. apply I.
Qed.

Theorem run_full c h : forall s, hist_ok h -> FullInv c s -> FullInv c (run c h s).
Proof.
  unfold run. induction h as [|[[now busy] o] h IH]; intros s Hh I; cbn; auto.
  inversion Hh; subst. apply IH; auto. apply step_full; auto.
Qed.

Lemma empty_state_full c : FullInv c empty_state.
Proof. split; [apply empty_state_inv|]. unfold HInv; cbn. intros h ip. split; [discriminate|intros [_ []]]. Qed.

Theorem full_inv_reachable c h : hist_ok h -> FullInv c (run c h empty_state).
Proof. intros Hh. apply run_full; auto. apply empty_state_full. Qed.

(** * Configuration: Validate, set_config *)

Lemma valid_conf_b_spec c : valid_conf_b c = true <-> valid_conf c.
Proof.
  unfold valid_conf_b, valid_conf. rewrite !andb_true_iff, N.ltb_lt, negb_true_iff. tauto.
Qed.

(** What the file has to satisfy does not depend on the pool. *)
Lemma DiskInv_conf c c' d : c_gw c' = c_gw c -> DiskInv c d -> DiskInv c' d.
Proof. intros E [A B G O]. split; auto. rewrite E. exact G. Qed.

(** A set_config that keeps the gateway (any pool, any subnet, any lease
    time) leads to a state that satisfies the invariant of the new
    configuration: leases the new configuration cannot hold are dropped. *)
Theorem set_config_full c c' s : c_gw c' = c_gw c -> Inv c s -> FullInv c' (set_config c' s).
Proof. intros E [_ _ K]. apply load_full. eapply DiskInv_conf; eauto. Qed.

Lemma set_config_same c s : set_config c s = restart c s.
Proof. reflexivity. Qed.

(** * Corollaries *)

Lemma NoDup_map_inj {A B} (f : A -> B) (L : list A) a b :
  NoDup (map f L) -> In a L -> In b L -> f a = f b -> a = b.
Proof.
  induction L as [|x L IH]; cbn; intros N Ha Hb E; [tauto|].
  apply NoDup_cons_iff in N as [N1 N2].
  destruct Ha as [<-|Ha], Hb as [<-|Hb]; auto.
  - exfalso. apply N1. rewrite E. apply in_map; auto.
  - exfalso. apply N1. rewrite <- E. apply in_map; auto.
Qed.

(** One holder per address, one lease per client; hence also among the
    leases the API reports as active at any instant. *)
Lemma cmacs_inj L a b :
  NoDup (cmacs L) -> In a L -> In b L -> l_mac a = l_mac b -> live (l_mac a) = true -> a = b.
Proof.
  induction L as [|x L IH]; cbn [In]; intros N Ha Hb E Hl; [tauto|].
  rewrite cmacs_cons in N.
  destruct Ha as [<-|Ha], Hb as [<-|Hb]; auto.
  - exfalso. rewrite Hl in N. apply NoDup_cons_iff in N as [N1 _]. apply N1. rewrite E.
    apply in_cmacs. split; [apply in_map; auto|congruence].
  - exfalso. assert (Hx : live (l_mac x) = true) by congruence. rewrite Hx in N.
    apply NoDup_cons_iff in N as [N1 _]. apply N1. rewrite <- E.
    apply in_cmacs. split; [apply in_map; auto|auto].
  - apply IH; auto. destruct (live (l_mac x)); auto. inversion N; auto.
Qed.

(** The all-zero hardware address marks block-listed addresses and is no
    client; every other hardware address has at most one lease. *)
Lemma one_holder c s : Inv c s ->
  forall l1 l2, In l1 (leases s) -> In l2 (leases s) ->
  (l_ip l1 = l_ip l2 \/ (l_mac l1 = l_mac l2 /\ live (l_mac l1) = true)) -> l1 = l2.
Proof.
  intros [[A B _ _ _] _ _] l1 l2 H1 H2 [E|[E Hl]].
  - eapply (NoDup_map_inj l_ip); eauto.
  - eapply cmacs_inj; eauto.
Qed.

Lemma active_in now s l : In l (active now s) -> In l (leases s).
Proof. unfold active. rewrite filter_In. tauto. Qed.

(** Dynamic leases never sit on the gateway or on a static lease's address. *)
Lemma dynamic_addresses c s : valid_conf c -> Inv c s ->
  forall l, In l (leases s) -> l_static l = false ->
  in_pool c (l_ip l) = true /\ l_ip l <> c_gw c /\
  (forall r, In r (leases s) -> l_static r = true -> l_ip r <> l_ip l).
Proof.
  intros (_ & Hgw & _) I l Hl Hs. pose proof I as [[A B C D _] _ _].
  split; [auto|split].
  - intros E. rewrite <- E in Hgw. rewrite C in Hgw; auto. discriminate.
  - intros r Hr Hrs E. assert (r = l) by (eapply one_holder; eauto). congruence.
Qed.

Lemma commit_nth c now i host s l :
  nth_error (leases s) i = Some l ->
  exists l', nth_error (leases (commit c now i host s)) i = Some l' /\
             l_ip l' = l_ip l /\ l_mac l' = l_mac l.
Proof.
  intros E. unfold commit. rewrite E. cbn.
  eexists. split; [apply nth_error_update_nth; eauto|]. cbn. auto.
Qed.

(** Whoever is answered with an address holds the lease for it afterwards. *)
Lemma reply_lease c s now busy o s' mt yi mac :
  Inv c s -> op_ok o ->
  step c s now busy o = (s', ROk mt yi) -> yi <> 0 -> op_mac o = Some mac ->
  exists l, In l (leases s') /\ l_mac l = mac /\ l_ip l = yi.
Proof.
  intros I Ho.
  destruct o; cbn [step op_mac]; cbn in Ho; intros H Hyi Em; inversion Em; subst; clear Em.
  - (* discover *)
    unfold discover in H.
    destruct (find_lease mac (leases s)) as [[i l]|] eqn:Ef.
    + inversion H; subst. apply find_index_some in Ef as [Ei Ep]. cbn in Ep. apply N.eqb_eq in Ep.
      exists l. cbn. split; [eapply nth_error_In; eauto|auto].
    + pose proof (allocate_at c now busy mac (alloc_fuel c s) s I (proj1 Ho)
                    (not_in_cmacs _ _ (find_index_none_mac _ _ Ef))) as R.
      destruct (allocate _ c now busy mac s) as [s1 r]; cbn in *.
      destruct r; inversion H; subst.
      destruct (R _ eq_refl) as (l & El & Elm & _). exists l. cbn.
      split; [eapply nth_error_In; eauto|]. split; auto. unfold ip_at. rewrite El. reflexivity.
  - (* request *)
    unfold request in H.
    destruct (request_lease c mac sid reqip ciaddr s) as [r|[i l]] eqn:Er; [inversion H; subst|].
    { exfalso. unfold request_lease in Er.
      repeat match type of Er with
             | context [if ?b then _ else _] => destruct b
             | context [match ?o with Some _ => _ | None => _ end] => destruct o
             | context [match check_lease ?a ?b ?c with _ => _ end] => destruct (check_lease a b c)
             end; inversion Er. }
    assert (Hl : nth_error (leases s) i = Some l /\ l_mac l = mac).
    { unfold request_lease in Er.
      assert (Hc : forall ip, check_lease mac ip (leases s) = ClAt i l ->
                              nth_error (leases s) i = Some l /\ l_mac l = mac).
      { intros ip. unfold check_lease.
        destruct (find_lease mac (leases s)) as [[j x]|] eqn:Ef; [|discriminate].
        destruct (l_ip x =? ip); [|discriminate]. intros E; inversion E; subst.
        apply find_index_some in Ef as [? Ep]. cbn in Ep. apply N.eqb_eq in Ep. auto. }
      repeat match type of Er with
             | context [if ?b then _ else _] => destruct b
             | context [match ?o with Some _ => _ | None => _ end] => destruct o
             | context [match check_lease ?a ?b ?c with _ => _ end] =>
                 let E := fresh "E" in destruct (check_lease a b c) eqn:E
             end; inversion Er; subst; eauto. }
    destruct Hl as [Ei Elm].
    destruct (l_static l); inversion H; subst; cbn.
    + exists l. split; [eapply nth_error_In; eauto|auto].
    + destruct (commit_nth c now i host s l Ei) as (l' & El' & E1 & E2).
      exists l'. split; [eapply nth_error_In; eauto|]. split; congruence.
  - (* decline *)
    unfold decline in H.
    destruct (find_index _ (leases s)) as [[oi old]|] eqn:Ef; [|inversion H; subst; congruence].
    apply find_index_some in Ef as [_ Ep]. apply andb_true_iff in Ep as [Em _]. apply N.eqb_eq in Em.
    pose proof (rm_dynamic_lease_inv c (l_mac old) (l_ip old) (l_host old) s I) as I1.
    pose proof (rm_dynamic_lease_clears c (l_mac old) (l_ip old) (l_host old) s) as C1.
    destruct (rm_dynamic_lease c (l_mac old) (l_ip old) (l_host old) s) as [s1 e].
    destruct e; [inversion H|]. cbn [fst snd] in *.
    destruct (C1 eq_refl) as [Cm _]. rewrite Em in Cm.
    pose proof (allocate_at c now busy mac (alloc_fuel c s1) s1 I1 (proj1 Ho) (not_in_cmacs _ _ Cm)) as R.
    destruct (allocate _ c now busy mac s1) as [s2 r]; cbn in *.
    destruct r; inversion H; subst; [congruence|].
    destruct (R _ eq_refl) as (l & El & Elm & _).
    destruct (commit_nth c now i (l_host old) s2 l El) as (l' & El' & E1 & E2).
    exists l'. cbn. split; [eapply nth_error_In; eauto|]. split; [congruence|].
    unfold ip_at. rewrite El. auto.
  - (* release *)
    unfold release in H.
    destruct (find_index _ (leases s)) as [[oi old]|]; [|inversion H; subst; congruence].
    destruct (rm_dynamic_lease c (l_mac old) (l_ip old) (l_host old) s) as [s1 e].
    destruct e; inversion H; subst; congruence.
Qed.

(** A client with a reservation is only ever answered with the reserved address. *)
Lemma op_mac_live o mac : op_ok o -> op_mac o = Some mac -> live mac = true.
Proof. destruct o; cbn; intros H E; inversion E; subst; tauto. Qed.

Theorem reservation_respected c s now busy o s' mt yi mac r :
  Inv c s -> op_ok o ->
  step c s now busy o = (s', ROk mt yi) -> yi <> 0 -> op_mac o = Some mac ->
  In r (leases s') -> l_static r = true -> l_mac r = mac -> yi = l_ip r.
Proof.
  intros I Ho H Hyi Em Hr _ Hrm.
  destruct (reply_lease _ _ _ _ _ _ _ _ _ I Ho H Hyi Em) as (l & Hl & Elm & <-).
  assert (I' : Inv c s')
    by (replace s' with (fst (step c s now busy o)) by (rewrite H; auto); apply step_inv; auto).
  f_equal. eapply one_holder; eauto. right. split; [congruence|].
  rewrite Elm. eapply op_mac_live; eauto.
Qed.

(** * Liveness of DISCOVER *)

Lemma pool_offsets_in c ip : in_pool c ip = true -> In (ip - c_start c) (pool_offsets c).
Proof.
  rewrite in_pool_spec. intros [H1 H2]. unfold pool_offsets.
  destruct (N.ltb_spec (c_end c) (c_start c)); [lia|].
  apply in_map_iff. exists (N.to_nat (ip - c_start c)). split; [apply N2Nat.id|].
  apply in_seq. lia.
Qed.

Lemma pool_offsets_pool c o : In o (pool_offsets c) -> in_pool c (c_start c + o) = true.
Proof.
  unfold pool_offsets. destruct (N.ltb_spec (c_end c) (c_start c)); [intros []|].
  intros Hin. apply in_map_iff in Hin as (k & <- & Hk). apply in_seq in Hk.
  apply in_pool_spec. lia.
Qed.

Lemma next_ip_some c s ip :
  IdxInv c (leases s) (ix s) -> in_pool c ip = true -> ~ In ip (ips (leases s)) ->
  exists ip', next_ip c s = Some ip' /\ in_pool c ip' = true.
Proof.
  intros [_ B] Hp Hn. unfold next_ip.
  destruct (find _ (pool_offsets c)) as [o|] eqn:F.
  - apply find_some in F as [Hin _]. cbn. eexists; split; eauto. apply pool_offsets_pool; auto.
  - exfalso. pose proof (find_none _ _ F _ (pool_offsets_in c ip Hp)) as Hf. cbn in Hf.
    apply negb_false_iff in Hf. apply B in Hf as [Hf _]. apply Hn.
    apply in_pool_spec in Hp. replace ip with (c_start c + (ip - c_start c)) by lia. exact Hf.
Qed.

Lemma ip_at_snoc L l x d : ip_at (State (L ++ [l]) x d) (length L) = l_ip l.
Proof. unfold ip_at. cbn [leases]. rewrite nth_error_app2, Nat.sub_diag by lia. reflexivity. Qed.

Lemma next_ip_spec c s ip1 :
  next_ip c s = Some ip1 ->
  exists o, ip1 = c_start c + o /\ In o (pool_offsets c) /\ offs (ix s) o = false.
Proof.
  unfold next_ip. destruct (find _ (pool_offsets c)) as [o|] eqn:F; [|discriminate].
  cbn. intros E; inversion E; subst. apply find_some in F as [Hin Ho].
  apply negb_true_iff in Ho. eauto.
Qed.

Lemma reserve_fresh c now mac s ip1 :
  next_ip c s = Some ip1 -> in_pool c ip1 = true ->
  reserve c now mac s =
    (State (leases s ++ [Lease ip1 mac [] false exp_zero])
           (Index (hidx (ix s)) (upd (iidx (ix s)) ip1 true) (set_off c ip1 true (offs (ix s))))
           (disk s),
     RsAt (length (leases s))).
Proof.
  intros En Hp. unfold reserve, add_lease. rewrite En.
  cbn [l_static l_ip l_host is_nil negb andb]. rewrite Hp. cbn [negb]. reflexivity.
Qed.

Lemma blocklist_ips c now i s : ips (leases (blocklist c now i s)) = ips (leases s).
Proof.
  unfold blocklist. destruct (nth_error (leases s) i); auto. cbn [leases].
  apply ips_update_nth. reflexivity.
Qed.

Lemma blocklist_offs c now i s : offs (ix (blocklist c now i s)) = offs (ix s).
Proof. unfold blocklist. destruct (nth_error (leases s) i); reflexivity. Qed.

Definition free_offs (c : conf) (s : state) : list N :=
  filter (fun o => negb (offs (ix s) o)) (pool_offsets c).

Lemma filter_len_le {A} (p q : A -> bool) l :
  (forall x, q x = true -> p x = true) -> (length (filter q l) <= length (filter p l))%nat.
Proof.
  intros Hqp. induction l as [|y l IH]; cbn; auto.
  destruct (q y) eqn:Eq; [rewrite (Hqp _ Eq); cbn; lia|destruct (p y); cbn; lia].
Qed.

Lemma filter_len_lt {A} (p q : A -> bool) l a :
  (forall x, q x = true -> p x = true) -> In a l -> p a = true -> q a = false ->
  (length (filter q l) < length (filter p l))%nat.
Proof.
  intros Hqp. induction l as [|x l IH]; cbn [In]; intros Hin Hp Hq; [tauto|].
  pose proof (filter_len_le p q l Hqp) as Hle. cbn [filter].
  destruct Hin as [->|Hin].
  - rewrite Hp, Hq. cbn. lia.
  - specialize (IH Hin Hp Hq).
    destruct (q x) eqn:Eq; [rewrite (Hqp _ Eq); cbn; lia|destruct (p x); cbn; lia].
Qed.

Lemma mem_ip_neq a b busy : mem_ip a busy = true -> mem_ip b busy = false -> a <> b.
Proof. intros Ha Hb E. congruence. Qed.

(** While some pool address is in no lease and does not answer the probe,
    allocateLease hands out a pool address that was in no lease. *)
Lemma allocate_live c now busy mac ip : forall fuel s,
  Inv c s -> valid_mac mac = true -> ~ In mac (cmacs (leases s)) ->
  in_pool c ip = true -> ~ In ip (ips (leases s)) -> mem_ip ip busy = false ->
  (length (free_offs c s) < fuel)%nat ->
  exists i, snd (allocate fuel c now busy mac s) = RsAt i /\
    in_pool c (ip_at (fst (allocate fuel c now busy mac s)) i) = true /\
    ~ In (ip_at (fst (allocate fuel c now busy mac s)) i) (ips (leases s)).
Proof.
  induction fuel as [|f IH]; intros s I Hlen Hmac Hp Hn Hb Hf; [lia|].
  pose proof I as [_ X _].
  destruct (next_ip_some c s ip X Hp Hn) as (ip1 & En & Hp1).
  pose proof (next_ip_fresh c s ip1 X En) as Hf1.
  pose proof (reserve_inv c now mac s I Hlen Hmac) as R.
  pose proof (reserve_at_mac c now mac s I Hlen) as M.
  cbn [allocate]. rewrite (reserve_fresh c now mac s ip1 En Hp1) in *. cbn [fst snd] in *.
  set (s1 := State _ _ _) in *.
  assert (Eat : ip_at s1 (length (leases s)) = ip1) by apply ip_at_snoc.
  rewrite Eat. destruct (mem_ip ip1 busy) eqn:Eb.
  - destruct (M _ eq_refl) as (l & El & Elm & _).
    set (s2 := blocklist c now (length (leases s)) s1).
    assert (Eips : ips (leases s2) = ips (leases s) ++ [ip1]).
    { unfold s2. rewrite blocklist_ips. unfold s1. cbn [leases]. rewrite ips_app. reflexivity. }
    assert (I2 : Inv c s2) by (apply blocklist_inv; exact R).
    assert (Hm2 : ~ In mac (cmacs (leases s2)))
      by (rewrite <- Elm; eapply blocklist_clears_mac; eauto).
    assert (Hn2 : ~ In ip (ips (leases s2))).
    { rewrite Eips, in_app_iff. cbn. intros [?|[?|[]]]; auto. eapply mem_ip_neq; eauto. }
    assert (Hlt : (length (free_offs c s2) < length (free_offs c s))%nat).
    { destruct (next_ip_spec c s ip1 En) as (o & -> & Ho & Hfree).
      unfold free_offs, s2. rewrite blocklist_offs. unfold s1. cbn [ix offs].
      apply filter_len_lt with (a := o); auto.
      - intros x Hq. apply negb_true_iff in Hq. apply negb_true_iff.
        destruct (offs (ix s) x) eqn:E; auto. exfalso.
        assert (set_off c (c_start c + o) true (offs (ix s)) x = true)
          by (apply set_off_true; auto). congruence.
      - rewrite Hfree. reflexivity.
      - apply negb_false_iff. apply set_off_true. right. split; auto. lia. }
    assert (Hf2 : (length (free_offs c s2) < f)%nat) by lia.
    destruct (IH s2 I2 Hlen Hm2 Hp Hn2 Hb Hf2) as (i & Ei & Hpi & Hni).
    exists i. split; auto. split; auto. intros Hin. apply Hni. rewrite Eips, in_app_iff. auto.
  - exists (length (leases s)). cbn [fst snd]. rewrite Eat. auto.
Qed.

(** A DISCOVER from a client without a lease, while some pool address is in
    no lease and does not answer the probe, is answered with an OFFER of a
    pool address that was in no lease and does not answer the probe, and that
    address is now reserved for the client. *)
Theorem offer_liveness c s now busy mac ip :
  Inv c s -> valid_mac mac = true -> ~ In mac (macs (leases s)) ->
  in_pool c ip = true -> ~ In ip (ips (leases s)) -> mem_ip ip busy = false ->
  exists ip' s', discover c now busy mac s = (s', ROk 2 ip') /\
    in_pool c ip' = true /\ ~ In ip' (ips (leases s)) /\ mem_ip ip' busy = false /\
    exists l, In l (leases s') /\ l_ip l = ip' /\ l_mac l = mac.
Proof.
  intros I Hlen Hm Hp Hn Hb.
  assert (Ef : find_lease mac (leases s) = None).
  { destruct (find_lease mac (leases s)) as [[i l]|] eqn:E; auto. exfalso.
    apply find_index_some in E as [Ei Ep]. cbn in Ep. apply N.eqb_eq in Ep.
    apply Hm. rewrite <- Ep. apply in_map. eapply nth_error_In; eauto. }
  assert (Hfu : (length (free_offs c s) < alloc_fuel c s)%nat).
  { unfold alloc_fuel, free_offs.
    assert (Hall : forall l0 : list N,
               (length (filter (fun o => negb (offs (ix s) o)) l0) <= length l0)%nat).
    { induction l0 as [|y l0 IHl]; cbn; [lia|]. destruct (negb (offs (ix s) y)); cbn; lia. }
    specialize (Hall (pool_offsets c)). lia. }
  pose proof (not_in_cmacs _ _ Hm) as Hm'.
  destruct (allocate_live c now busy mac ip _ s I Hlen Hm' Hp Hn Hb Hfu) as (i & Ei & Hpi & Hni).
  destruct (allocate_at c now busy mac _ s I Hlen Hm' i Ei) as (l & El & Elm & _ & Elb).
  unfold discover. rewrite Ef.
  destruct (allocate (alloc_fuel c s) c now busy mac s) as [s' r]. cbn [fst snd] in *. subst r.
  assert (Eat : ip_at s' i = l_ip l) by (unfold ip_at; rewrite El; reflexivity).
  rewrite Eat in *.
  exists (l_ip l). eexists. split; [reflexivity|]. repeat split; auto.
  exists l. cbn [store leases]. split; [eapply nth_error_In; eauto|auto].
Qed.

(** * Persistence *)

(** Re-validation on reload leaves the names of dynamic leases alone. *)
Definition NamesStable (L : list lease) : Prop :=
  forall l, In l L -> l_static l = false -> l_host l <> [] ->
  valid_hostname_for_client (l_host l) (l_ip l) = l_host l.

Definition range_ok (c : conf) (l : lease) : bool :=
  if l_static l then in_subnet c (l_ip l) else in_pool c (l_ip l).

Lemma add_lease_ok c l s :
  range_ok c l = true -> (l_host l = [] \/ hidx (ix s) (l_host l) = None) ->
  exists s', add_lease c l s = Some s'.
Proof.
  unfold range_ok, add_lease. intros R H.
  destruct (l_static l); rewrite R; cbn [negb].
  all: destruct H as [E | E]; rewrite E; cbn; eauto; destruct (is_nil (l_host l)); cbn; eauto.
Qed.

Definition UniqueNames (M : list (N * bytes)) : Prop :=
  forall ip1 ip2 h, h <> [] -> In (ip1, h) M -> In (ip2, h) M -> ip1 = ip2.

Lemma HInv_unique M hi : HInv M hi -> UniqueNames M.
Proof.
  intros H ip1 ip2 h Hh H1 H2.
  assert (hi h = Some ip1) by (apply H; auto). assert (hi h = Some ip2) by (apply H; auto). congruence.
Qed.

Lemma load_fold_all c : forall d s,
  HInv (names (leases s)) (hidx (ix s)) ->
  (forall l, In l d -> reload_lease l = l /\ range_ok c l = true /\ valid_mac (l_mac l) = true) ->
  NoDup (ips (leases s ++ d)) -> UniqueNames (names (leases s ++ d)) ->
  leases (fold_left (load_step c) d s) = leases s ++ d.
Proof.
  induction d as [|l d IH]; intros s H A N U; cbn; [rewrite app_nil_r; auto|].
  destruct (A l (or_introl eq_refl)) as (Er & Rk & Ev).
  assert (Hc : l_host l = [] \/ hidx (ix s) (l_host l) = None).
  { destruct (l_host l) as [|b t] eqn:Eh; auto. right.
    destruct (hidx (ix s) (b :: t)) as [ip2|] eqn:E; auto. exfalso.
    apply H in E as [Hne Hin].
    assert (ip2 = l_ip l).
    { apply (U ip2 (l_ip l) (b :: t)); auto; rewrite names_app, in_app_iff; auto.
      right. left. rewrite Eh. reflexivity. }
    subst ip2. rewrite ips_app in N. apply NoDup_remove_2 in N. apply N.
    rewrite in_app_iff. left. change (l_ip l) with (fst (l_ip l, b :: t)).
    rewrite <- names_fst. apply in_map. exact Hin. }
  unfold load_step at 2. rewrite Ev, Er.
  destruct (add_lease_ok c l s Rk Hc) as (s' & Ea). rewrite Ea.
  destruct (add_lease_hidx _ _ _ _ Ea) as [_ Eh].
  pose proof (add_lease_some _ _ _ _ Ea) as (EL & _).
  rewrite IH.
  - rewrite EL, <- app_assoc. reflexivity.
  - rewrite Eh, EL, names_app. cbn. apply HInv_add; auto.
  - intros; apply A; cbn; auto.
  - rewrite EL, <- app_assoc. exact N.
  - rewrite EL, <- app_assoc. exact U.
Qed.

Lemma names_db L : names (map db_lease L) = names L.
Proof. unfold names. rewrite map_map. reflexivity. Qed.

(** The file lists each lease of the table once (expiry at whole seconds). *)
Lemma store_lists_each_once L : Permutation (store_list L) (map db_lease L).
Proof. apply store_list_perm. Qed.

(** Reloading what was stored restores every lease. *)
Theorem load_store_leases c s :
  FullInv c s -> NamesStable (leases s) ->
  leases (load c (store_list (leases s))) = store_list (leases s).
Proof.
  intros [I H] St. unfold load.
  rewrite load_fold_all; cbn [leases ix hidx empty_index app]; auto.
  - unfold HInv; cbn. intros h ip. split; [discriminate|intros [_ []]].
  - intros l Hl. eapply Permutation_in in Hl; [|apply store_list_perm].
    apply in_map_iff in Hl as (l0 & <- & Hl0). pose proof I as [[_ _ C D E] _ _].
    split; [|split].
    + unfold reload_lease. cbn [db_lease set_exp l_static l_host l_ip].
      destruct (l_static l0) eqn:Es; cbn [negb andb]; auto.
      destruct (is_nil (l_host l0)) eqn:En; cbn [negb]; auto.
      rewrite (St l0 Hl0 Es); [destruct l0; reflexivity|].
      intros E'. rewrite E' in En. discriminate.
    + unfold range_ok. cbn. destruct (l_static l0) eqn:Es; [apply D|apply C]; auto.
    + exact (mac_ok_valid l0 (E l0 Hl0)).
  - eapply Permutation_NoDup; [apply Permutation_sym, store_list_ips|]. apply I.
  - apply HInv_unique with (hi := hidx (ix s)).
    eapply HInv_mem; [|exact H]. intros p. split; intros Hp.
    + eapply Permutation_in; [apply Permutation_sym, Permutation_map, store_list_perm|].
      fold (names (map db_lease (leases s))). rewrite names_db. exact Hp.
    + eapply Permutation_in in Hp; [|apply Permutation_map, store_list_perm].
      fold (names (map db_lease (leases s))) in Hp. rewrite names_db in Hp. exact Hp.
Qed.

Lemma lease_by_ip_in L l : In l L -> exists d, lease_by_ip (l_ip l) L = Some d.
Proof.
  intros Hl. unfold lease_by_ip. destruct (find_index _ L) as [[i d]|] eqn:E; eauto.
  pose proof (find_index_none _ _ E _ Hl) as F. cbn in F. rewrite N.eqb_refl in F. discriminate.
Qed.

Lemma host_by_ip_spec c s : Inv c s ->
  forall ip h, host_by_ip s ip = h <-> (In (ip, h) (names (leases s)) \/ (h = [] /\ ~ In ip (ips (leases s)))).
Proof.
  intros [[A _ _ _] [X _] _] ip h. unfold host_by_ip.
  destruct (iidx (ix s) ip) eqn:Ei.
  - apply X in Ei. apply in_map_iff in Ei as (l & <- & Hl).
    destruct (lease_by_ip_in _ _ Hl) as (d & Ed). rewrite Ed.
    apply lease_by_ip_some in Ed as [Hd Edi].
    assert (d = l) by (eapply (NoDup_map_inj l_ip); eauto). subst d.
    split.
    + intros <-. left. apply in_map_iff. exists l; auto.
    + intros [Hin|[_ Hn]]; [|exfalso; apply Hn; apply in_map; auto].
      apply in_map_iff in Hin as (l' & E & Hl'). inversion E.
      assert (l' = l) by (eapply (NoDup_map_inj l_ip); eauto). congruence.
  - assert (Hn : ~ In ip (ips (leases s))) by (intros Hin; apply X in Hin; congruence).
    split.
    + intros <-. auto.
    + intros [Hin|[-> _]]; auto. exfalso. apply Hn.
      change ip with (fst (ip, h)). rewrite <- names_fst. apply in_map; auto.
Qed.

(** Two tables with the same (address, name) pairs give the same DNS-facing answers. *)
Lemma answers_determined c s s' :
  FullInv c s -> FullInv c s' ->
  (forall p, In p (names (leases s)) <-> In p (names (leases s'))) ->
  (forall h, ip_by_host s h = ip_by_host s' h) /\ (forall ip, host_by_ip s ip = host_by_ip s' ip).
Proof.
  intros [I H] [I' H'] E. split.
  - intros h. unfold ip_by_host.
    destruct (hidx (ix s) h) as [ip|] eqn:E1.
    + apply H in E1 as [? Hin]. apply E in Hin.
      assert (E2 : hidx (ix s') h = Some ip) by (apply H'; auto). rewrite E2. reflexivity.
    + destruct (hidx (ix s') h) as [ip|] eqn:E2; auto.
      apply H' in E2 as [? Hin]. apply E in Hin.
      assert (hidx (ix s) h = Some ip) by (apply H; auto). congruence.
  - intros ip. symmetry. apply (host_by_ip_spec c s' I').
    pose proof (proj1 (host_by_ip_spec c s I ip _) eq_refl) as [Hin|[Eh Hn]].
    + left. apply E; auto.
    + right. split; auto. intros Hin. apply Hn.
      rewrite <- names_fst in *. apply in_map_iff in Hin as ([ip0 h0] & <- & Hp).
      apply E in Hp. apply in_map_iff. exists (ip0, h0); auto.
Qed.

(** Restart after a store: the same leases (each once, expiry at whole
    seconds) and the same HostByIP / IPByHost answers. *)
Theorem persistence c s :
  FullInv c s -> NamesStable (leases s) ->
  let s' := restart c (store s) in
  Permutation (leases s') (map db_lease (leases s)) /\
  (forall h, ip_by_host s' h = ip_by_host s h) /\
  (forall ip, host_by_ip s' ip = host_by_ip s ip).
Proof.
  intros F St s'. subst s'. unfold restart, store. cbn [disk].
  pose proof (load_store_leases c s F St) as EL.
  assert (F' : FullInv c (load c (store_list (leases s)))).
  { apply load_full. apply store_list_disk. apply F. }
  split; [rewrite EL; apply store_list_perm|].
  apply (answers_determined c); auto.
  intros p. rewrite EL. split; intros Hp.
  - eapply Permutation_in in Hp; [|apply Permutation_map, store_list_perm].
    fold (names (map db_lease (leases s))) in Hp. rewrite names_db in Hp. exact Hp.
  - eapply Permutation_in; [apply Permutation_sym, Permutation_map, store_list_perm|].
    fold (names (map db_lease (leases s))). rewrite names_db. exact Hp.
Qed.

(** * Statements as used in Props/C10.v *)

Lemma HInv_expanded L hi :
  HInv (names L) hi <->
  (forall h ip, hi h = Some ip <-> h <> [] /\ exists l, In l L /\ l_ip l = ip /\ l_host l = h).
Proof.
  unfold HInv. split; intros H h ip; rewrite (H h ip); clear H.
  - split; intros [? Hin]; split; auto.
    + apply in_map_iff in Hin as (l & E & Hl). inversion E; eauto.
    + destruct Hin as (l & Hl & <- & <-). apply in_map_iff. exists l; auto.
  - split; intros [? Hin]; split; auto.
    + destruct Hin as (l & Hl & <- & <-). apply in_map_iff. exists l; auto.
    + apply in_map_iff in Hin as (l & E & Hl). inversion E; eauto.
Qed.

Theorem inv_reachable_expanded : forall c h, valid_conf c -> hist_ok h ->
  let s := run c h empty_state in
  NoDup (map l_ip (leases s)) /\ NoDup (filter live (map l_mac (leases s))) /\
  (forall l, In l (leases s) -> l_static l = false ->
     in_pool c (l_ip l) = true /\ l_ip l <> c_gw c /\
     forall r, In r (leases s) -> l_static r = true -> l_ip r <> l_ip l) /\
  (forall l, In l (leases s) -> l_static l = true ->
     in_subnet c (l_ip l) = true /\ l_ip l <> c_gw c) /\
  (forall ip, iidx (ix s) ip = true <-> In ip (map l_ip (leases s))) /\
  (forall o, offs (ix s) o = true <->
     In (c_start c + o) (map l_ip (leases s)) /\ c_start c + o <= c_end c) /\
  (forall h ip, hidx (ix s) h = Some ip <->
     h <> [] /\ exists l, In l (leases s) /\ l_ip l = ip /\ l_host l = h) /\
  NoDup (map l_ip (disk s)) /\ NoDup (filter live (map l_mac (disk s))) /\
  (forall l, In l (leases s) -> mac_ok l).
Proof.
  intros c h V Hh s. pose proof (full_inv_reachable c h Hh) as [I H]. fold s in I, H.
  pose proof I as [[A B C D E] [X Y] [K1 K2 _ _]].
  pose proof (proj1 (HInv_expanded _ _) H) as H'.
  split; [exact A|]. split; [exact B|].
  split; [intros l Hl Hs; apply (dynamic_addresses c s V I); auto|].
  split; [exact D|]. split; [exact X|]. split; [exact Y|]. split; [exact H'|].
  split; [exact K1|]. split; [exact K2|exact E].
Qed.

Lemma live_spec m : live m = true <-> is_blocklisted m = false.
Proof. unfold live. apply negb_true_iff. Qed.

Theorem one_holder_reachable : forall c h now, hist_ok h ->
  let s := run c h empty_state in
  forall l1 l2, In l1 (active now s) -> In l2 (active now s) ->
  (l_ip l1 = l_ip l2 \/ (l_mac l1 = l_mac l2 /\ is_blocklisted (l_mac l1) = false)) -> l1 = l2.
Proof.
  intros c h now Hh s l1 l2 H1 H2 E. apply (one_holder c s); eauto using active_in.
  - apply inv_reachable; auto.
  - destruct E as [E|[E Hl]]; auto. right. split; auto. apply live_spec; auto.
Qed.

Theorem reservation_reachable : forall c h now busy o s' mt yi mac r, hist_ok h -> op_ok o ->
  let s := run c h empty_state in
  step c s now busy o = (s', ROk mt yi) -> yi <> 0 -> op_mac o = Some mac ->
  In r (leases s') -> l_static r = true -> l_mac r = mac -> yi = l_ip r.
Proof.
  intros c h now busy o s' mt yi mac r Hh Ho s. apply reservation_respected; auto.
  apply inv_reachable; auto.
Qed.

Theorem liveness_reachable : forall c h now busy mac ip, hist_ok h -> valid_mac mac = true ->
  let s := run c h empty_state in
  ~ In mac (map l_mac (leases s)) ->
  in_pool c ip = true -> ~ In ip (map l_ip (leases s)) -> mem_ip ip busy = false ->
  exists ip' s', step c s now busy (ODiscover mac) = (s', ROk 2 ip') /\
    in_pool c ip' = true /\ ~ In ip' (map l_ip (leases s)) /\ mem_ip ip' busy = false /\
    exists l, In l (leases s') /\ l_ip l = ip' /\ l_mac l = mac.
Proof.
  intros c h now busy mac ip Hh Hlen s. apply offer_liveness; auto. apply inv_reachable; auto.
Qed.

(** An address that answers the probe is never handed to a client that did
    not hold it already. *)
Theorem discover_not_busy c s now busy mac s' mt yi :
  Inv c s -> valid_mac mac = true -> ~ In mac (macs (leases s)) ->
  discover c now busy mac s = (s', ROk mt yi) -> mem_ip yi busy = false.
Proof.
  intros I Hlen Hm. unfold discover.
  assert (Ef : find_lease mac (leases s) = None).
  { destruct (find_lease mac (leases s)) as [[i l]|] eqn:E; auto. exfalso.
    apply find_index_some in E as [Ei Ep]. cbn in Ep. apply N.eqb_eq in Ep.
    apply Hm. rewrite <- Ep. apply in_map. eapply nth_error_In; eauto. }
  rewrite Ef.
  pose proof (allocate_at c now busy mac (alloc_fuel c s) s I Hlen (not_in_cmacs _ _ Hm)) as R.
  destruct (allocate _ c now busy mac s) as [s1 r]; cbn [fst snd] in *.
  destruct r; intros H; inversion H; subst.
  destruct (R _ eq_refl) as (l & El & _ & _ & Eb). unfold ip_at. rewrite El. exact Eb.
Qed.

Theorem discover_not_busy_reachable : forall c h now busy mac s' mt yi, hist_ok h -> valid_mac mac = true ->
  let s := run c h empty_state in
  ~ In mac (map l_mac (leases s)) ->
  step c s now busy (ODiscover mac) = (s', ROk mt yi) -> mem_ip yi busy = false.
Proof.
  intros c h now busy mac s' mt yi Hh Hlen s Hm. apply discover_not_busy; auto.
  apply inv_reachable; auto.
Qed.

(** The full statement of persistence (block-listed entries included: they
    are leases of the table like any other) ... *)
Definition persistence_statement : Prop := forall c h, hist_ok h ->
  let s := run c h empty_state in
  let s' := restart c (store s) in
  Permutation (leases s') (map db_lease (leases s)) /\
  (forall h, ip_by_host s' h = ip_by_host s h) /\
  (forall ip, host_by_ip s' ip = host_by_ip s ip).

(** ... and the version with the side condition that the names of the
    dynamic leases are fixed points of the re-validation done on reload
    (the side condition is discharged in Dhcp4Names.v). *)
Theorem persistence_partial : forall c h, hist_ok h ->
  let s := run c h empty_state in
  NamesStable (leases s) ->
  let s' := restart c (store s) in
  Permutation (leases s') (map db_lease (leases s)) /\
  (forall h, ip_by_host s' h = ip_by_host s h) /\
  (forall ip, host_by_ip s' ip = host_by_ip s ip).
Proof. intros c h Hh s St. apply persistence; auto. apply full_inv_reachable; auto. Qed.

(** Whatever is in memory, the file written by a store lists it once. *)
Theorem store_exact : forall s,
  Permutation (disk (store s)) (map db_lease (leases s)).
Proof. intros s. apply store_list_perm. Qed.


(** * A concrete reachable state (non-vacuity of the premises) *)

Definition example_conf : conf :=
  Conf 167772164 167772167 167772160 167772175 167772161 3600000000000%Z 167772162.

Definition example_now : Z := 1790000000000000000%Z.

(** The 6-byte hardware address 00:00:00:00:00:v. *)
Definition mac6 (v : N) : N := 281474976710656 + v.

(** The first address of the pool answers the probe when client 1 asks. *)
Definition example_history : list event :=
  let t := example_now in
  [ (t, [167772164], ODiscover (mac6 1));
    (t, [], ORequest (mac6 1) (Some 167772162) (Some 167772165) 0 [65; 108; 112; 104; 97]);   (* "Alpha" *)
    (t, [], OStaticAdd (mac6 2) 167772170 [110; 97; 115]);                                       (* "nas" *)
    (t, [], ODiscover (mac6 3));
    (t, [], ORequest (mac6 3) (Some 167772162) (Some 167772166) 0 []);
    (t, [], ORestart) ].

Fixpoint names_stable_b (L : list lease) : bool :=
  match L with
  | [] => true
  | l :: L' =>
      (l_static l || is_nil (l_host l)
       || eqb_bytes (valid_hostname_for_client (l_host l) (l_ip l)) (l_host l))
      && names_stable_b L'
  end.

Lemma names_stable_b_spec L : names_stable_b L = true -> NamesStable L.
Proof.
  induction L as [|a L IH]; cbn; intros H l Hl Hs Hh; [destruct Hl|].
  apply andb_true_iff in H as [Ha HL]. destruct Hl as [<-|Hl]; [|apply IH; auto].
  rewrite Hs in Ha. cbn in Ha. apply orb_true_iff in Ha as [Ha|Ha].
  - apply is_nil_spec in Ha. contradiction.
  - apply eqb_bytes_spec; auto.
Qed.

Lemma premises_satisfiable :
  valid_conf example_conf /\ hist_ok example_history /\
  valid_mac (mac6 9) = true /\ is_blocklisted (mac6 9) = false /\
  let s := run example_conf example_history empty_state in
  length (leases s) = 4%nat /\
  NamesStable (leases s) /\
  (exists l, In l (leases s) /\ l_static l = true) /\
  (exists l, In l (leases s) /\ is_blocklisted (l_mac l) = true) /\
  (exists l, In l (active example_now s) /\ l_static l = false) /\
  ~ In (mac6 9) (map l_mac (leases s)) /\
  (exists ip, in_pool example_conf ip = true /\ ~ In ip (map l_ip (leases s)) /\
              mem_ip ip [167772166] = false) /\
  (exists s' mt yi r, step example_conf s example_now [] (ODiscover (mac6 2)) = (s', ROk mt yi) /\
     yi <> 0 /\ In r (leases s') /\ l_static r = true /\ l_mac r = mac6 2).
Proof.
  split; [vm_compute; repeat split; congruence|].
  split; [repeat constructor; vm_compute; auto|].
  split; [reflexivity|]. split; [reflexivity|].
  intros s.
  pose (L := leases s). assert (Es : leases s = L) by reflexivity. vm_compute in L.
  split; [rewrite Es; reflexivity|].
  split; [apply names_stable_b_spec; rewrite Es; vm_compute; reflexivity|].
  split; [rewrite Es; apply existsb_exists; vm_compute; reflexivity|].
  split; [rewrite Es; apply (proj1 (existsb_exists (fun l => is_blocklisted (l_mac l)) L));
          vm_compute; reflexivity|].
  split.
  { assert (H : existsb (fun l => negb (l_static l)) (active example_now s) = true)
      by (vm_compute; reflexivity).
    apply existsb_exists in H as (x & Hin & Hx). exists x. split; [exact Hin|].
    apply negb_true_iff; exact Hx. }
  split; [rewrite Es; vm_compute; intuition congruence|].
  split; [exists 167772167; rewrite Es; split; [vm_compute; reflexivity|
          split; [vm_compute; intuition congruence|reflexivity]]|].
  remember (step example_conf s example_now [] (ODiscover (mac6 2))) as r eqn:Er.
  unfold s in Er. vm_compute in Er. destruct r as [s' rp]. inversion Er; subst.
  do 4 eexists. split; [reflexivity|]. split; [discriminate|].
  split; [cbn [leases]; do 3 right; left; reflexivity|]. split; reflexivity.
Qed.

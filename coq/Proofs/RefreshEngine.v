(** C15, the engine over histories: after which steps the rules in force are
    those of the stored files of the enabled lists, and what exactly holds
    after a pass that ends with "network error" while files of the other
    array have already been replaced. *)
From Coq Require Import NArith List Bool Lia.
From AGH Require Import Base.Run Model.RuleListParser Model.Refresh Proofs.RuleListParser Proofs.Refresh.
Import ListNotations.
Local Open Scope N_scope.

Section Engine.
  Variable crc : N -> bytes -> N.
  Notation update_one := (update_one crc).
  Notation update_all := (update_all crc).
  Notation refresh_array := (refresh_array crc).
  Notation refresh := (refresh crc).
  Notation set_entry := (set_entry crc).
  Notation set_in := (set_in crc).
  Notation set_props := (set_props crc).

  Notation pass_report := (pass_report crc).
  Notation pass_updated := (pass_updated crc).
  Notation pass_net_error := (pass_net_error crc).

  Lemma refresh_engine b a force due oc st :
    r_engine (refresh b a force due oc st) =
    if pass_net_error b a force due oc st then r_engine st
    else if pass_updated b a force due oc st =? 0 then r_engine st
    else let st' := refresh b a force due oc st in rebuild (r_block st') (r_allow st') (r_files st').
  Proof.
    unfold Refresh.refresh, Refresh.pass_net_error, Refresh.pass_updated, Refresh.pass_report.
    destruct (if b then _ else _) as [[[n1 e1] bl] fs1].
    destruct (if a then _ else _) as [[[n2 e2] al] fs2].
    cbn [fst snd r_engine r_block r_allow r_files].
    destruct (e1 || e2); [reflexivity|]. destruct (n1 + n2 =? 0); reflexivity.
  Qed.

  (** A pass without a network error that updated some list rebuilds the
      engine from the files, whatever the engine held before. *)
  Theorem updating_pass_consistent b a force due oc st :
    pass_net_error b a force due oc st = false -> pass_updated b a force due oc st <> 0 ->
    engine_consistent (refresh b a force due oc st).
  Proof.
    intros E U. unfold engine_consistent. rewrite refresh_engine, E.
    destruct (N.eqb_spec (pass_updated b a force due oc st) 0); [contradiction|reflexivity].
  Qed.

  (** A pass that ends with a network error leaves the engine as it was:
      the rules in force are, for every list, those in force before the pass,
      also for the lists of the other array whose files the pass has already
      replaced. *)
  Theorem net_error_pass_keeps_engine b a force due oc st :
    pass_net_error b a force due oc st = true ->
    r_engine (refresh b a force due oc st) = r_engine st.
  Proof. intros E. now rewrite refresh_engine, E. Qed.

  (** ** A pass that reports no update and no error changes nothing *)

  Lemma copied_pos u ls : u_updated u = true -> In (uid u) (map f_id ls) -> copied u ls <> 0.
  Proof.
    intros U Hin. unfold copied. apply in_map_iff in Hin. destruct Hin as (f & E & Hf).
    assert (Hin : In f (filter (fun f => (f_id (u_list u) =? f_id f) && u_updated u) ls)).
    { apply filter_In. split; auto. rewrite U, andb_true_r. apply N.eqb_eq. unfold uid in E. congruence. }
    destruct (filter _ ls); [contradiction|]. cbn [length]. lia.
  Qed.

  Lemma map_copy_back_ids u ls : map f_id (map (copy_back u) ls) = map f_id ls.
  Proof. rewrite map_map. apply map_ext. intros f. apply copy_back_id. Qed.

  Lemma copy_back_all_zero : forall us ls,
    (forall u, In u us -> In (uid u) (map f_id ls)) ->
    fst (copy_back_all us ls) = 0 -> Forall (fun u => u_updated u = false) us.
  Proof.
    induction us as [|u us IH]; intros ls Hin Z; [constructor|].
    cbn [copy_back_all] in Z. specialize (IH (map (copy_back u) ls)).
    destruct (copy_back_all us (map (copy_back u) ls)) as [n ls']. cbn [fst] in *.
    assert (Zc : copied u ls = 0) by lia. assert (Zn : n = 0) by lia.
    constructor.
    - destruct (u_updated u) eqn:U; [|reflexivity]. exfalso. apply (copied_pos u ls U); [apply Hin; now left|exact Zc].
    - apply IH; [|exact Zn]. intros u' Hu'. rewrite map_copy_back_ids. apply Hin. now right.
  Qed.

  Lemma copy_back_all_none : forall us ls,
    Forall (fun u => u_updated u = false) us -> snd (copy_back_all us ls) = ls.
  Proof.
    induction us as [|u us IH]; intros ls H; [reflexivity|]. inversion H as [|? ? Hu Hr]; subst.
    cbn [copy_back_all]. specialize (IH (map (copy_back u) ls) Hr).
    destruct (copy_back_all us (map (copy_back u) ls)) as [n ls']. cbn [snd] in *. rewrite IH.
    rewrite <- (map_id ls) at 2. apply map_ext. intros f. unfold copy_back. now rewrite Hu, andb_false_r.
  Qed.

  Lemma update_all_none oc : forall ws fs,
    Forall (fun u => u_updated u = false) (fst (update_all ws oc fs)) -> snd (update_all ws oc fs) = fs.
  Proof.
    induction ws as [|w ws IH]; intros fs H; [reflexivity|]. cbn [Refresh.update_all] in *.
    pose proof (update_one_cases crc w (oc (f_id w)) fs) as C.
    destruct (update_one w (oc (f_id w)) fs) as [u fs1]. specialize (IH fs1).
    destruct (update_all ws oc fs1) as [us fs2]. cbn [fst snd] in *.
    inversion H as [|? ? Hu Hr]; subst.
    destruct C as [(_ & -> & _)|(d & re & st & _ & _ & _ & U & _)]; [now apply IH|congruence].
  Qed.

  Lemma refresh_array_quiet_pass ls force due oc fs ls' fs' :
    refresh_array ls force due oc fs = (0, false, ls', fs') -> ls' = ls /\ fs' = fs.
  Proof.
    unfold Refresh.refresh_array.
    set (sel := fun l => f_enabled l && (force || due (f_id l))).
    set (ws := map wcopy (filter sel ls)).
    destruct ws as [|w0 wr] eqn:Ew; [intros H; injection H as <- <-; auto|]. rewrite <- Ew.
    pose proof (update_all_fst crc oc ws fs) as Hus.
    pose proof (update_all_none oc ws fs) as Hn.
    destruct (update_all ws oc fs) as [us fs1]. cbn [fst snd] in *.
    destruct (forallb u_err us); [discriminate|].
    pose proof (copy_back_all_zero us ls) as Z. pose proof (copy_back_all_none us ls) as K.
    destruct (copy_back_all us ls) as [n ls1]. cbn [fst snd] in *.
    intros H. injection H as -> <- <-.
    assert (A : Forall (fun u => u_updated u = false) us).
    { apply Z; [|reflexivity]. intros u Hu. rewrite Hus in Hu. apply in_map_iff in Hu.
      destruct Hu as (w & <- & Hw). unfold uid, upd_of. rewrite update_one_id.
      apply (ids_filter_sub crc sel ls). now apply in_map. }
    split; [now apply K|now apply Hn].
  Qed.

  Theorem quiet_pass_is_noop b a force due oc st :
    pass_net_error b a force due oc st = false -> pass_updated b a force due oc st = 0 ->
    refresh b a force due oc st = st.
  Proof.
    unfold Refresh.pass_net_error, Refresh.pass_updated, Refresh.pass_report, Refresh.refresh.
    assert (H1 : forall n1 e1 bl fs1,
               (if b then refresh_array (r_block st) force due oc (r_files st)
                else (0, false, r_block st, r_files st)) = (n1, e1, bl, fs1) ->
               n1 = 0 -> e1 = false -> bl = r_block st /\ fs1 = r_files st).
    { intros n1 e1 bl fs1 H -> ->. destruct b; [now apply refresh_array_quiet_pass in H|].
      injection H as <- <-. auto. }
    destruct (if b then _ else _) as [[[n1 e1] bl] fs1]. specialize (H1 n1 e1 bl fs1 eq_refl).
    assert (H2 : forall n2 e2 al fs2,
               (if a then refresh_array (r_allow st) force due oc fs1
                else (0, false, r_allow st, fs1)) = (n2, e2, al, fs2) ->
               n2 = 0 -> e2 = false -> al = r_allow st /\ fs2 = fs1).
    { intros n2 e2 al fs2 H -> ->. destruct a; [now apply refresh_array_quiet_pass in H|].
      injection H as <- <-. auto. }
    destruct (if a then _ else _) as [[[n2 e2] al] fs2]. specialize (H2 n2 e2 al fs2 eq_refl).
    cbn [fst snd]. intros E Z. apply orb_false_iff in E. destruct E as [-> ->].
    assert (n1 = 0 /\ n2 = 0) as [-> ->] by lia.
    destruct H1 as [-> ->]; auto. destruct H2 as [-> ->]; auto.
    cbn. destruct st; reflexivity.
  Qed.

  (** So a pass without a network error keeps an engine that is in step with
      the files in step. *)
  Theorem good_pass_keeps_consistent b a force due oc st :
    engine_consistent st -> pass_net_error b a force due oc st = false ->
    engine_consistent (refresh b a force due oc st).
  Proof.
    intros C E. destruct (N.eq_dec (pass_updated b a force due oc st) 0) as [Z|Z].
    - now rewrite quiet_pass_is_noop.
    - now apply updating_pass_consistent.
  Qed.

  (** ** set_url *)

  Lemma set_entry_quiet f name nurl dup en o fs rs er f' fs' :
    set_entry f name nurl dup en o fs = (rs, er, f', fs') -> negb er && rs = false ->
    fs' = fs /\ f_id f' = f_id f /\ f_enabled f' = f_enabled f.
  Proof.
    unfold Refresh.set_entry. destruct (_ && dup); [intros H; injection H as <- <- <- <-; auto|].
    destruct en.
    - destruct (negb (f_url f =? nurl) || negb (Bool.eqb (f_enabled f) true)) eqn:R.
      + pose proof (update_one_err_files crc (set_target f name nurl true) o fs) as EF.
        destruct (update_one (set_target f name nurl true) o fs) as [u fs1]. cbn [fst snd] in EF.
        destruct (u_err u).
        * intros H _. injection H as <- <- <- <-. auto.
        * destruct (u_updated u); [|destruct (_ =? 0)]; intros H Q; injection H as <- <- <- <-; discriminate Q.
      + intros H _. injection H as <- <- <- <-. rewrite set_target_id, set_target_enabled.
        apply orb_false_iff in R. destruct R as [_ R]. apply negb_false_iff in R.
        destruct (f_enabled f); [auto|discriminate].
    - intros H Q. injection H as <- <- <- <-. cbn [negb andb] in Q.
      unfold unload. cbn [f_id f_enabled]. rewrite set_target_id, set_target_enabled.
      apply orb_false_iff in Q. destruct Q as [_ Q]. apply negb_false_iff in Q.
      destruct (f_enabled f); [discriminate|auto].
  Qed.

  Lemma snapshot_cons f ls fs :
    snapshot (f :: ls) fs =
    (if f_enabled f then match fget (f_id f) fs with Some c => [(f_id f, c)] | None => [] end else []) ++ snapshot ls fs.
  Proof. reflexivity. Qed.

  Lemma set_in_quiet : forall ls u name nurl dup en o fs rs er ls' fs',
    set_in ls u name nurl dup en o fs = Some (rs, er, ls', fs') -> negb er && rs = false ->
    fs' = fs /\ snapshot ls' fs = snapshot ls fs.
  Proof.
    induction ls as [|f ls IH]; intros u name nurl dup en o fs rs er ls' fs'; cbn [Refresh.set_in]; [discriminate|].
    destruct (f_url f =? u).
    - pose proof (set_entry_quiet f name nurl dup en o fs) as Q.
      destruct (set_entry f name nurl dup en o fs) as [[[rs0 er0] f0] fs0].
      intros H Hq. injection H as -> -> <- ->. destruct (Q rs er f0 fs' eq_refl Hq) as (-> & I & E).
      split; [reflexivity|]. now rewrite !snapshot_cons, I, E.
    - specialize (IH u name nurl dup en o fs).
      destruct (set_in ls u name nurl dup en o fs) as [[[[rs0 er0] ls0] fs0]|]; [|discriminate].
      intros H Hq. injection H as -> -> <- ->. destruct (IH rs er ls0 fs' eq_refl Hq) as (-> & S).
      split; [reflexivity|]. now rewrite !snapshot_cons, S.
  Qed.

  (** A set_url call, whatever its result, keeps an engine that is in step
      with the files in step; one that reports a restart without an error puts
      it in step. *)
  Theorem set_props_keeps_consistent allow u name nurl en o st :
    engine_consistent st -> engine_consistent (snd (set_props allow u name nurl en o st)).
  Proof.
    intros C. unfold Refresh.set_props.
    pose proof (set_in_quiet (if allow then r_allow st else r_block st) u name nurl (url_used nurl st) en o (r_files st)) as Q.
    destruct (set_in _ u name nurl _ en o _) as [[[[rs er] ls'] fs']|]; [|exact C].
    cbn [snd]. unfold engine_consistent. cbn [r_engine r_block r_allow r_files].
    destruct (negb er && rs) eqn:R; [reflexivity|].
    destruct (Q rs er ls' fs' eq_refl R) as (-> & S). rewrite C. unfold rebuild.
    destruct allow; now rewrite S.
  Qed.

  Theorem restarting_set_consistent allow u name nurl en o st :
    let '(rs, er, st') := set_props allow u name nurl en o st in
    er = false -> rs = true -> engine_consistent st'.
  Proof.
    unfold Refresh.set_props.
    destruct (set_in _ u name nurl _ en o _) as [[[[rs er] ls'] fs']|]; [|discriminate].
    intros -> ->. reflexivity.
  Qed.

  Theorem rebuild_now_consistent st : engine_consistent (rebuild_now st).
  Proof. reflexivity. Qed.

  (** A restart of the process builds the engine from the files of the lists
      it has just loaded ([startDNSServer]: [EnableFilters(false)]). *)
  Theorem restart_consistent st : engine_consistent (restart crc st).
  Proof. reflexivity. Qed.

  (** ** Histories *)

  (** No pass of the history ends with a network error. *)
  Fixpoint passes_ok (hs : list hop) (st : rstate) : Prop :=
    match hs with
    | [] => True
    | h :: r =>
        match h with
        | HRefresh b a f due oc => pass_net_error b a f due oc st = false
        | _ => True
        end /\ passes_ok r (run_hop crc st h)
    end.

  Lemma run_hist_cons h hs st : run_hist crc (h :: hs) st = run_hist crc hs (run_hop crc st h).
  Proof. reflexivity. Qed.

  (** Over every history of refreshes, set_url calls (of any outcome) and
      rebuilds in which no pass ends with a network error, from a state whose
      engine is in step with the files (the initial one is): after every step
      the rules in force are the contents of the stored files of the enabled
      lists. *)
  Theorem history_engine_consistent hs : forall st,
    engine_consistent st -> passes_ok hs st -> engine_consistent (run_hist crc hs st).
  Proof.
    induction hs as [|h hs IH]; intros st C P; [exact C|]. rewrite run_hist_cons.
    destruct P as [Ph Pr]. apply IH; [|exact Pr].
    destruct h; cbn [run_hop].
    - now apply good_pass_keeps_consistent.
    - now apply set_props_keeps_consistent.
    - apply rebuild_now_consistent.
    - apply restart_consistent.
  Qed.

  (** ... and in ANY history (network errors included), whatever the engine
      held before: right after a pass without a network error that updated a
      list, after a set_url call that reports a restart without an error, and
      after a rebuild, the engine is in step with the files. *)
  Definition rebuilding (st : rstate) (h : hop) : Prop :=
    match h with
    | HRefresh b a f due oc => pass_net_error b a f due oc st = false /\ pass_updated b a f due oc st <> 0
    | HSet a u name nu en o => fst (set_props a u name nu en o st) = (true, false)
    | HRebuild => True
    | HRestart => True
    end.

  Theorem rebuilding_step_consistent hs h st :
    rebuilding (run_hist crc hs st) h -> engine_consistent (run_hist crc (hs ++ [h]) st).
  Proof.
    unfold run_hist. rewrite fold_left_app. cbn [fold_left]. fold (run_hist crc hs st).
    set (s := run_hist crc hs st). destruct h; cbn [rebuilding run_hop].
    - intros [E U]. now apply updating_pass_consistent.
    - intros E. pose proof (restarting_set_consistent allow url name nurl enabled o s) as R.
      destruct (set_props allow url name nurl enabled o s) as [[rs er] st']. cbn [fst snd] in *.
      injection E as -> ->. now apply R.
    - intros _. apply rebuild_now_consistent.
    - intros _. apply restart_consistent.
  Qed.
End Engine.

(** * Files ahead of the engine: the witness *)
Module Ahead.
  Import RExamples.
  (* block list 1 and allow list 11 hold [good] and are in force ([st1]); then
     the block list's source fails while the allow list's delivers [good2] *)
  Definition oc_ahead (i : N) : outcome := if i =? 1 then OOpenErr else OBody good2 false.
  Definition st_ahead := refresh crc32_update true true true all oc_ahead st1.
  (* the next pass: the block list's source works again, nothing has changed *)
  Definition oc_same (i : N) : outcome := if i =? 1 then OBody good false else OBody good2 false.
  Definition st_next := refresh crc32_update true true true all oc_same st_ahead.
  (* a later pass in which the block list changes *)
  Definition oc_new (i : N) : outcome := OBody good2 false.
  Definition st_later := refresh crc32_update true true true all oc_new st_next.
End Ahead.

(** The allow list's new file is stored and its metadata are copied back, but
    the engine still holds the old allow rule: p1 stays allowed, p2 is not
    allowed.  The next pass, without any error and with every source
    delivering what is stored, changes nothing, so the engine stays behind;
    only a pass that updates a list (or a rebuild for another reason) puts the
    stored rules in force. *)
Example files_ahead_example :
  engine_consistent RExamples.st1 /\
  pass_net_error crc32_update true true true RExamples.all Ahead.oc_ahead RExamples.st1 = true /\
  fget 11 (r_files Ahead.st_ahead) = Some RExamples.good2 /\
  map f_sum (r_allow Ahead.st_ahead) <> map f_sum (r_allow RExamples.st1) /\
  r_engine Ahead.st_ahead = r_engine RExamples.st1 /\
  lookup 11 (e_allow (r_engine Ahead.st_ahead)) = Some RExamples.good /\
  verdict (r_engine Ahead.st_ahead) [112;49] = 2 /\
  verdict (rebuild (r_block Ahead.st_ahead) (r_allow Ahead.st_ahead) (r_files Ahead.st_ahead)) [112;49] = 1 /\
  pass_net_error crc32_update true true true RExamples.all Ahead.oc_same Ahead.st_ahead = false /\
  pass_updated crc32_update true true true RExamples.all Ahead.oc_same Ahead.st_ahead = 0 /\
  Ahead.st_next = Ahead.st_ahead /\
  verdict (r_engine Ahead.st_next) [112;49] = 2 /\
  pass_updated crc32_update true true true RExamples.all Ahead.oc_new Ahead.st_next = 1 /\
  verdict (r_engine Ahead.st_later) [112;49] = 0 /\ verdict (r_engine Ahead.st_later) [112;50] = 2 /\
  verdict (r_engine (rebuild_now Ahead.st_ahead)) [112;49] = 1.
Proof. vm_compute. repeat split; congruence. Qed.

(** The clause "after every pass that reports no error the rules in force are
    those of the stored files" is therefore false for the code as it is. *)
Definition error_free_pass_consistent_statement (crc : N -> bytes -> N) : Prop :=
  forall hs b a f due oc st0,
    engine_consistent st0 -> let st := run_hist crc hs st0 in
    pass_net_error crc b a f due oc st = false -> engine_consistent (refresh crc b a f due oc st).

Lemma ahead_not_consistent : ~ engine_consistent Ahead.st_ahead.
Proof.
  unfold engine_consistent. intros H. apply (f_equal (fun e => verdict e [112;49])) in H. revert H.
  destruct files_ahead_example as (_ & _ & _ & _ & _ & _ & -> & -> & _). discriminate.
Qed.

Theorem error_free_pass_consistent_refuted : ~ error_free_pass_consistent_statement crc32_update.
Proof.
  intros H.
  specialize (H [HRefresh true true true RExamples.all Ahead.oc_ahead] true true true RExamples.all Ahead.oc_same
                RExamples.st1 (proj1 files_ahead_example)).
  change (run_hist crc32_update [HRefresh true true true RExamples.all Ahead.oc_ahead] RExamples.st1)
    with Ahead.st_ahead in H. cbv zeta in H.
  destruct files_ahead_example as (_ & _ & _ & _ & _ & _ & _ & _ & E & _ & N & _).
  specialize (H E). change (refresh crc32_update true true true RExamples.all Ahead.oc_same Ahead.st_ahead)
    with Ahead.st_next in H. rewrite N in H. exact (ahead_not_consistent H).
Qed.

Example engine_history_example :
  passes_ok crc32_update [HRefresh true true true RExamples.all Ahead.oc_new; HRebuild] RExamples.st1 /\
  rebuilding crc32_update RExamples.st1 (HRefresh true true true RExamples.all Ahead.oc_new).
Proof. vm_compute. repeat split; congruence. Qed.

(** * URLs stay unique *)
Section Urls.
  Variable crc : N -> bytes -> N.

  Definition urls (st : rstate) : list N := map f_url (r_block st ++ r_allow st).

  Lemma copy_back_url u f : f_url (copy_back u f) = f_url f.
  Proof. unfold copy_back. destruct (_ && _); reflexivity. Qed.

  Lemma copy_back_all_urls : forall us ls, map f_url (snd (copy_back_all us ls)) = map f_url ls.
  Proof.
    induction us as [|u us IH]; intros ls; [reflexivity|]. cbn [copy_back_all].
    specialize (IH (map (copy_back u) ls)). destruct (copy_back_all us (map (copy_back u) ls)) as [n ls'].
    cbn [snd] in *. rewrite IH, map_map. apply map_ext. intros f. apply copy_back_url.
  Qed.

  Lemma refresh_array_urls ls force due oc fs :
    map f_url (snd (fst (refresh_array crc ls force due oc fs))) = map f_url ls.
  Proof.
    unfold Refresh.refresh_array. destruct (map wcopy (filter _ ls)) as [|w0 wr]; [reflexivity|].
    destruct (update_all crc (w0 :: wr) oc fs) as [us fs']. destruct (forallb u_err us); [reflexivity|].
    pose proof (copy_back_all_urls us ls) as H. destruct (copy_back_all us ls) as [n ls']. exact H.
  Qed.

  Lemma refresh_urls b a force due oc st : urls (refresh crc b a force due oc st) = urls st.
  Proof.
    unfold urls, Refresh.refresh.
    assert (H1 : map f_url (snd (fst (if b then refresh_array crc (r_block st) force due oc (r_files st)
                                       else (0, false, r_block st, r_files st)))) = map f_url (r_block st))
      by (destruct b; [apply refresh_array_urls|reflexivity]).
    destruct (if b then _ else _) as [[[n1 e1] bl] fs1]. cbn [fst snd] in H1.
    assert (H2 : map f_url (snd (fst (if a then refresh_array crc (r_allow st) force due oc fs1
                                       else (0, false, r_allow st, fs1)))) = map f_url (r_allow st))
      by (destruct a; [apply refresh_array_urls|reflexivity]).
    destruct (if a then _ else _) as [[[n2 e2] al] fs2]. cbn [fst snd] in H2.
    cbn [r_block r_allow]. now rewrite !map_app, H1, H2.
  Qed.

  (** The URL of the entry afterwards: the old one, or the URL of the request
      when no list has it. *)
  Lemma set_entry_url f name nurl dup en o fs :
    let f' := snd (fst (set_entry crc f name nurl dup en o fs)) in
    f_url f' = f_url f \/ (f_url f' = nurl /\ dup = false).
  Proof.
    unfold Refresh.set_entry. destruct (N.eqb_spec (f_url f) nurl) as [E|E]; cbn [negb andb].
    - (* the URL is kept: every branch yields it *)
      assert (TU : forall en', f_url (set_target f name nurl en') = f_url f).
      { intros en'. unfold set_target. rewrite (proj2 (N.eqb_eq _ _) E). cbn [negb f_url]. now rewrite E. }
      left. destruct en; [|cbn [fst snd]; unfold unload; cbn [f_url]; apply TU].
      destruct (false || _); [|apply TU].
      pose proof (update_one_cases crc (set_target f name nurl true) o fs) as C.
      destruct (update_one crc (set_target f name nurl true) o fs) as [u fs'].
      destruct (u_err u); [reflexivity|].
      assert (f_url (u_list u) = f_url f).
      { destruct C as [(_ & _ & ->)|(d & re & st & _ & _ & _ & _ & _ & -> & _)]; [apply TU|cbn [filled f_url]; apply TU]. }
      destruct (u_updated u); [assumption|]. destruct (_ =? 0); assumption.
    - destruct dup; [left; reflexivity|].
      assert (TU : forall en', f_url (set_target f name nurl en') = nurl).
      { intros en'. unfold set_target. destruct (negb _); reflexivity. }
      destruct en; [|right; split; [cbn [fst snd]; unfold unload; cbn [f_url]; apply TU|reflexivity]].
      cbn [orb].
      pose proof (update_one_cases crc (set_target f name nurl true) o fs) as C.
      destruct (update_one crc (set_target f name nurl true) o fs) as [u fs'].
      destruct (u_err u); [left; reflexivity|]. right. split; [|reflexivity].
      assert (f_url (u_list u) = nurl).
      { destruct C as [(_ & _ & ->)|(d & re & st & _ & _ & _ & _ & _ & -> & _)]; [apply TU|cbn [filled f_url]; apply TU]. }
      destruct (u_updated u); [assumption|]. destruct (_ =? 0); assumption.
  Qed.

  Lemma set_in_urls : forall ls u name nurl dup en o fs rs er ls' fs',
    set_in crc ls u name nurl dup en o fs = Some (rs, er, ls', fs') ->
    map f_url ls' = map f_url ls \/
    (dup = false /\ exists pre f post f', ls = pre ++ f :: post /\ ls' = pre ++ f' :: post /\ f_url f' = nurl).
  Proof.
    induction ls as [|f ls IH]; intros u name nurl dup en o fs rs er ls' fs'; cbn [Refresh.set_in]; [discriminate|].
    destruct (f_url f =? u).
    - pose proof (set_entry_url f name nurl dup en o fs) as U.
      destruct (set_entry crc f name nurl dup en o fs) as [[[rs0 er0] f0] fs0]. cbn [fst snd] in U.
      intros H. injection H as _ _ <- _. destruct U as [U|[U D]].
      + left. cbn [map]. now rewrite U.
      + right. split; [exact D|]. exists [], f, ls, f0. auto.
    - specialize (IH u name nurl dup en o fs).
      destruct (set_in crc ls u name nurl dup en o fs) as [[[[rs0 er0] ls0] fs0]|]; [|discriminate].
      intros H. injection H as _ _ <- _. destruct (IH rs0 er0 ls0 fs0 eq_refl) as [E|(D & pre & g & post & g' & -> & -> & G)].
      + left. cbn [map]. now rewrite E.
      + right. split; [exact D|]. exists (f :: pre), g, post, g'. auto.
  Qed.

  Lemma nodup_replace (pre post other : list N) (x y : N) (front : bool) :
    NoDup (if front then (pre ++ x :: post) ++ other else other ++ (pre ++ x :: post)) ->
    ~ In y (if front then (pre ++ x :: post) ++ other else other ++ (pre ++ x :: post)) ->
    NoDup (if front then (pre ++ y :: post) ++ other else other ++ (pre ++ y :: post)).
  Proof.
    destruct front.
    - rewrite <- !app_assoc. cbn [app]. intros ND Hy. apply NoDup_remove in ND. destruct ND as [ND Hx].
      assert (Hy' : ~ In y (pre ++ post ++ other)).
      { intros H. apply Hy. apply in_app_iff in H. apply in_app_iff. destruct H as [H|H]; [now left|right; now right]. }
      clear Hx Hy. revert ND Hy'. induction pre as [|p pre IH]; cbn [app]; intros ND Hy'.
      + constructor; assumption.
      + inversion ND as [|? ? Hp ND']; subst. constructor.
        * intros H. apply in_app_iff in H. destruct H as [H|[H|H]].
          -- apply Hp, in_app_iff. now left.
          -- apply Hy'. left. now symmetry.
          -- apply Hp, in_app_iff. now right.
        * apply IH; auto. intros H. apply Hy'. now right.
    - rewrite !app_assoc. intros ND Hy. apply NoDup_remove in ND. destruct ND as [ND Hx].
      assert (Hy' : ~ In y ((other ++ pre) ++ post)).
      { intros H. apply Hy. apply in_app_iff in H. apply in_app_iff. destruct H as [H|H]; [now left|right; now right]. }
      clear Hx Hy. revert ND Hy'. generalize (other ++ pre) as q. induction q as [|p q IH]; cbn [app]; intros ND Hy'.
      + constructor; assumption.
      + inversion ND as [|? ? Hp ND']; subst. constructor.
        * intros H. apply in_app_iff in H. destruct H as [H|[H|H]].
          -- apply Hp, in_app_iff. now left.
          -- apply Hy'. left. now symmetry.
          -- apply Hp, in_app_iff. now right.
        * apply IH; auto. intros H. apply Hy'. now right.
  Qed.

  Lemma url_used_false nurl st : url_used nurl st = false -> ~ In nurl (urls st).
  Proof.
    unfold url_used, urls. intros H Hin. apply in_map_iff in Hin. destruct Hin as (f & E & Hf).
    assert (existsb (fun f => f_url f =? nurl) (r_block st ++ r_allow st) = true)
      by (apply existsb_exists; exists f; split; [exact Hf|now apply N.eqb_eq]).
    congruence.
  Qed.

  Theorem set_props_urls allow u name nurl en o st :
    NoDup (urls st) -> NoDup (urls (snd (set_props crc allow u name nurl en o st))).
  Proof.
    intros ND. unfold Refresh.set_props.
    pose proof (set_in_urls (if allow then r_allow st else r_block st) u name nurl (url_used nurl st) en o (r_files st)) as S.
    destruct (set_in crc _ u name nurl _ en o _) as [[[[rs er] ls'] fs']|]; [|exact ND].
    cbn [snd]. unfold urls in *. cbn [r_block r_allow].
    destruct (S rs er ls' fs' eq_refl) as [E|(D & pre & f & post & f' & E1 & -> & F)].
    - destruct allow; rewrite map_app in *; now rewrite E.
    - pose proof (url_used_false nurl st D) as Hn. unfold urls in Hn.
      destruct allow; rewrite E1 in *; rewrite !map_app in *; cbn [map] in *; rewrite F.
      + apply (nodup_replace (map f_url pre) (map f_url post) (map f_url (r_block st)) (f_url f) nurl false); assumption.
      + apply (nodup_replace (map f_url pre) (map f_url post) (map f_url (r_allow st)) (f_url f) nurl true); assumption.
  Qed.

  (** A restart keeps the URLs: [deduplicateFilters] drops nothing when they
      are pairwise different. *)
  Lemma start_array_nodup_urls all fs ls :
    NoDup (map f_url ls) -> start_array crc all fs ls = map (fun f => load_entry crc all fs (persisted f)) ls.
  Proof.
    intros ND. unfold start_array. apply dedup_nodup_urls; [|intros u []].
    rewrite map_map. erewrite map_ext; [exact ND|]. intros f. apply load_entry_fields.
  Qed.

  Lemma restart_v_arrays all st : NoDup (urls st) ->
    r_block (restart_v crc all st) = map (fun f => load_entry crc all (r_files st) (persisted f)) (r_block st) /\
    r_allow (restart_v crc all st) = map (fun f => load_entry crc all (r_files st) (persisted f)) (r_allow st).
  Proof.
    unfold urls. rewrite map_app. intros ND. unfold restart_v. cbn [r_block r_allow].
    split; apply start_array_nodup_urls; [eapply nodup_app_l|eapply nodup_app_r]; exact ND.
  Qed.

  Lemma restart_urls st : NoDup (urls st) -> urls (restart crc st) = urls st.
  Proof.
    intros ND. destruct (restart_v_arrays false st ND) as [B A]. unfold urls, restart. rewrite B, A.
    rewrite !map_app, !map_map. f_equal; apply map_ext; intros f; apply load_entry_fields.
  Qed.

  (** Over every history the lists keep pairwise different URLs (so the
      lookup by URL of set_url finds the one list that has it). *)
  Theorem history_urls_unique hs : forall st, NoDup (urls st) -> NoDup (urls (run_hist crc hs st)).
  Proof.
    unfold run_hist. induction hs as [|h hs IH]; intros st ND; cbn [fold_left]; auto.
    apply IH. destruct h; cbn [run_hop];
      [now rewrite refresh_urls|now apply set_props_urls|exact ND|now rewrite restart_urls].
  Qed.
End Urls.

Example urls_unique_example : NoDup (urls RExamples.st1) /\ urls Ahead.st_later = [1; 11].
Proof. split; [|vm_compute; reflexivity]. vm_compute. repeat constructor; cbn; intuition discriminate. Qed.

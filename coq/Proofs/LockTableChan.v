(** C05, round 7: blocking channel operations under a lock.

    The lock machine of Base/Conc.v has locks and nothing else.  A thread is a
    finite list of events, each of which the thread can perform as soon as the
    LOCK TABLE allows it; every theorem of C05 (no race, no deadlock, no stall)
    is about such threads.  A channel send or receive is not such an event:
    whether it completes depends on what ANOTHER thread does later (the
    consumer taking an element out of a full queue), and a goroutine that
    waits in one while it holds a mutex keeps the mutex for that long.  The
    machine cannot express the wait; what it can express is the wait-for edge
    it creates, by modelling the resource behind the channel as one more lock:
    [blocking_send_under_lock_deadlocks] below is seeded change C05-M in that
    reading (the full queue slot is held by the worker while it works; the
    request sends under serverLock.RLock; the worker's reverse lookup takes
    serverLock.RLock; an admin write of serverLock closes the cycle through
    writer preference).  No ranking and no gate excludes it, since the three
    threads share no lock exclusively.

    So the premise "the program's goroutines ARE finite event lists over the
    locks of the table" gets a checked, syntactic part: no potentially
    blocking channel operation is reachable with a non-empty must-held lock
    set, except the pairs function@channel justified one by one in
    tools/locktable/handover.json (blocking_ok), whose reasons are copied into
    Gen/LockTableChan.v.  What stays assumed: channel operations OUTSIDE
    critical sections do not matter to the locks (true in the machine: a
    thread that holds nothing blocks nobody), and the justifications. *)
From Coq Require Import List String Bool Arith.
From AGH Require Import Base.Conc Model.LockBalance Proofs.Conc.
Import ListNotations.
Local Open Scope string_scope.
Local Open Scope list_scope.

Definition chan_key (r : chan_row) : string := cr_fn r ++ "@" ++ cr_chan r.

Definition chan_row_ok (just : list (string * string)) (r : chan_row) : bool :=
  existsb (fun j => String.eqb (fst j) (chan_key r)) just.

Definition chan_ok (rows : list chan_row) (just : list (string * string)) : bool :=
  forallb (chan_row_ok just) rows.

(** In a table that passes, every blocking operation under a lock has its
    written justification. *)
Theorem chan_ok_justified : forall rows just,
  chan_ok rows just = true ->
  forall r, In r rows -> exists reason, In (chan_key r, reason) just.
Proof.
  intros rows just H r Hr; unfold chan_ok in H; rewrite forallb_forall in H.
  specialize (H r Hr); unfold chan_row_ok in H; apply existsb_exists in H as ([k reason] & Hin & Hk).
  cbn [fst] in Hk; apply String.eqb_eq in Hk; subst k. exists reason; exact Hin.
Qed.

(** Seeded change C05-M with the queue slot as a lock.  worker: holds the
    (full) queue while it works, and its work, a reverse lookup through
    Server.Exchange, takes serverLock for reading; request: processClientIP
    sends to the queue under serverLock.RLock; admin: POST access/set. *)
Lemma step_thd :
  forall lt lt' x y th th' post, tstep lt th lt' th' ->
    step (ST lt (x :: y :: th :: post)) (ST lt' (x :: y :: th' :: post)).
Proof. intros lt lt' x y th th' post H; exact (step_thread lt lt' [x; y] th th' post H). Qed.

Example blocking_send_under_lock_deadlocks :
  let worker := [Acq "chan clientIPs" W; Acq "serverLock" R; Rel "serverLock" R; Rel "chan clientIPs" W] in
  let request := [Acq "serverLock" R; Acq "chan clientIPs" W; Rel "chan clientIPs" W; Rel "serverLock" R] in
  let admin := [Acq "serverLock" W; Wr "conf"; Rel "serverLock" W] in
  exists s, reachable (init [worker; request; admin]) s /\ deadlocked s.
Proof.
  cbv zeta. eexists; split.
  - unfold init; simpl.
    eapply reach_front. { apply step_fst; apply ts_announce. }
    eapply reach_front. { apply step_fst; apply ts_acq_w; reflexivity. }
    eapply reach_front. { apply step_snd; apply ts_acq_r; reflexivity. }
    eapply reach_front. { apply step_snd; apply ts_announce. }
    eapply reach_front. { apply step_thd; apply ts_announce. }
    apply reach_refl.
  - split.
    + eexists; split; [left; reflexivity|discriminate].
    + intros th [<-|[<-|[<-|[]]]] _ (lt' & th' & Hs); inversion Hs; subst;
        match goal with H : _ = _ |- _ => vm_compute in H; discriminate H end.
Qed.

Example chan_ok_examples :
  let row := ChanRow "client.DefaultAddrProc.Process" "send" "client.DefaultAddrProc.clientIPs"
               [("client.DefaultAddrProc.clientIPsMu", W); ("dnsforward.Server.serverLock", R)]
               "internal/client/addrproc.go:231" "dns:dnsforward.Server.handleDNSRequest" in
  chan_ok [row] [] = false /\
  chan_ok [row] [("filtering.DNSFilter.Close@filtering.DNSFilter.done", "one send into a buffer of 1")] = false /\
  chan_ok [row] [("client.DefaultAddrProc.Process@client.DefaultAddrProc.clientIPs", "a reason")] = true /\
  chan_ok [] [] = true.
Proof. vm_compute; repeat split; reflexivity. Qed.

(** C05, round 4: the gate-lock criterion on acquisition sites.

    The table of acquisition sites (Gen/LockTableAcq.v) lists, for every place
    where a lock is taken, ALL locks held there, abstract locks included (a
    bbolt write transaction is the database's writer lock).  With those, the
    acquired-while-held relation of the statistics module has a cycle on the
    correct source:

        flush:     confMu (W) . currMu (W) . db.writer
        GET stats: confMu (R) . db.writer  . currMu (R)

    and it is harmless only because both orders happen under the common gate
    confMu, which the flush holds exclusively.  Criterion, made precise:

    - two sites are COMPATIBLE when their lock sets do not conflict (no common
      lock held in write mode by one of them): only compatible sites can be
      occupied by two threads at the same time;
    - a cycle of sites (each acquires a lock the next one holds) is dangerous
      only if its sites are pairwise compatible;
    - the check [gated_with]: every site either ascends in one global ranking
      [rank0], or the sub-table made of the site and everything compatible with
      it has a ranking of its own.

    Theorems, for any table that passes the check:

    - [gated_no_deadlock]: any number of threads whose acquisitions are sites of
      the table (with exactly the lock set listed), any schedule: no reachable
      state of the lock machine is deadlocked (writer preference included);
    - [gated_cycles_conflict]: every cycle of sites contains two sites whose
      lock sets conflict (so for a cycle of two sites: they are mutually
      excluded by a common gate held exclusively by one side; a re-entrant
      acquisition is a cycle of one site and is never accepted).

    [gate_lock_general_statement] is the declarative form (no cycle of pairwise
    compatible sites => no deadlock) for an arbitrary table; it is proved in
    Proofs/LockTableGateGen.v ([gate_lock_general]), by extracting a cycle of
    distinct threads from the wait-for relation of a deadlocked state. *)
From Coq Require Import List String Bool Arith Lia.
From AGH Require Import Base.Conc Model.Guards Proofs.Conc Proofs.ConcGate Proofs.LockTable Proofs.LockTablePairs.
Import ListNotations.
Local Open Scope string_scope.
Local Open Scope list_scope.
Local Open Scope nat_scope.

(** * Conformance of a thread to the table of acquisition sites *)

Definition same_held (a b : held) : bool := subset_held a b && subset_held b a.

Definition site_matches (s : acq_site) (h : held) (l : lock) (m : mode) : bool :=
  String.eqb (fst (s_acq s)) l && mode_eqb (snd (s_acq s)) m && same_held (s_held s) h.

(** every acquisition of the thread is a site of the table, taken with exactly
    the locks the table lists there; releases matched, nothing held at the end *)
Fixpoint conforms_sites (sites : list acq_site) (h : held) (p : list event) : bool :=
  match p with
  | [] => match h with [] => true | _ => false end
  | Acq l m :: r => existsb (fun s => site_matches s h l m) sites && conforms_sites sites ((l, m) :: h) r
  | Rel l m :: r => mem_lm (l, m) h && conforms_sites sites (remove_one (l, m) h) r
  | Rd _ :: r | Wr _ :: r => conforms_sites sites h r
  end.

(** * The check *)

Definition site_ascending (rank : lock -> nat) (s : acq_site) : bool :=
  ascending rank (s_held s) (fst (s_acq s)).

Definition compatible (d s : acq_site) : bool := negb (conflicts (s_held d) (s_held s)).

(** the site [d] and every site that another thread can occupy while one is at [d] *)
Definition sub_table (sites : list acq_site) (d : acq_site) : list acq_site :=
  d :: filter (compatible d) sites.

Definition site_pairs (sites : list acq_site) : list order_pair :=
  flat_map (fun s => map (fun y => OrderPair (s_root s) (s_fn s) y (s_acq s) (s_pos s)) (s_held s)) sites.

(** ranks computed from a table of sites (longest-path relaxation, Proofs/LockTable.v) *)
Definition site_rank_list (sites : list acq_site) : list (string * nat) :=
  computed_ranks (site_pairs sites).

Definition gate_ok (rank0 : lock -> nat) (rkd : acq_site -> list (string * nat))
    (sites : list acq_site) (d : acq_site) : bool :=
  site_ascending rank0 d ||
  (let rk := rkd d in forallb (site_ascending (rank_of rk)) (sub_table sites d)).

Definition gated_with (rank0 : lock -> nat) (rkd : acq_site -> list (string * nat))
    (sites : list acq_site) : bool :=
  forallb (gate_ok rank0 rkd sites) sites.

(** the sites that fail it (for reports) *)
Definition ungated (rank0 : lock -> nat) (rkd : acq_site -> list (string * nat))
    (sites : list acq_site) : list acq_site :=
  filter (fun d => negb (gate_ok rank0 rkd sites d)) sites.

(** * What the instance needs besides: known findings, ranking hints *)

(** the sites that are checked: all except those with a pair listed as a known
    finding of C05 in KNOWN_FINDINGS.txt *)
Definition site_listed (known : list string) (s : acq_site) : bool :=
  existsb (listed known) (site_keys s).

Definition checked_sites_of (known : list string) (sites : list acq_site) : list acq_site :=
  filter (fun s => negb (site_listed known s)) sites.

(** the ranking of a site's sub-table: the translator's hint for that site
    (only checked here; computing longest paths over some 800 pairs of long
    names inside Coq costs minutes).  A site without a hint gets the empty
    ranking, under which nothing ascends: the check fails for it. *)
Definition site_same (a b : acq_site) : bool :=
  String.eqb (s_fn a) (s_fn b) && String.eqb (s_pos a) (s_pos b) &&
  String.eqb (fst (s_acq a)) (fst (s_acq b)) && same_held (s_held a) (s_held b).

Definition sub_hint (hints : list (acq_site * list (string * nat))) (d : acq_site) : list (string * nat) :=
  match find (fun e => site_same (fst e) d) hints with
  | Some e => snd e
  | None => []
  end.

(** * Cycles of sites *)

(** [site_chain l c = Some l']: going through the sites of [c] in order, each
    one holds the lock the previous one was acquiring (the first holds [l]);
    [l'] is what the last one acquires. *)
Fixpoint site_chain (l : lock) (c : list acq_site) : option lock :=
  match c with
  | [] => Some l
  | s :: r => if holds (s_held s) l then site_chain (fst (s_acq s)) r else None
  end.

Definition site_cycle (c : list acq_site) : Prop :=
  c <> [] /\ exists l, site_chain l c = Some l.

(** two sites of the list (at different positions) have conflicting lock sets *)
Fixpoint has_conflict (c : list acq_site) : bool :=
  match c with
  | [] => false
  | a :: r => existsb (fun b => conflicts (s_held a) (s_held b)) r || has_conflict r
  end.

(** The declarative criterion and the general statement. *)
Definition no_compatible_cycle (sites : list acq_site) : Prop :=
  forall c, incl c sites -> site_cycle c -> has_conflict c = true.

Definition gate_lock_general_statement : Prop :=
  forall sites, no_compatible_cycle sites ->
  forall progs, Forall (fun p => conforms_sites sites [] p = true) progs ->
  forall s, reachable (init progs) s -> ~ deadlocked s.

(** * Lemmas *)

Lemma subset_held_In : forall a h, subset_held a h = true -> forall x, In x a -> In x h.
Proof.
  unfold subset_held. intros a h H x Hx. rewrite forallb_forall in H.
  apply mem_lm_In. apply H. exact Hx.
Qed.

Lemma site_matches_spec : forall s h l m, site_matches s h l m = true ->
  fst (s_acq s) = l /\ snd (s_acq s) = m /\
  (forall x, In x (s_held s) -> In x h) /\ (forall x, In x h -> In x (s_held s)).
Proof.
  intros s h l m H. unfold site_matches, same_held in H.
  apply andb_true_iff in H as [H Hs]. apply andb_true_iff in H as [El Em].
  apply andb_true_iff in Hs as [S1 S2].
  apply String.eqb_eq in El. split; [exact El|]. split.
  - destruct (snd (s_acq s)), m; cbn in Em; congruence.
  - split; apply subset_held_In; assumption.
Qed.

Lemma forallb_false_ex : forall (A : Type) (f : A -> bool) l,
  forallb f l = false -> exists x, In x l /\ f x = false.
Proof.
  intros A f l; induction l as [|a l IH]; cbn [forallb]; [discriminate|].
  intros H. destruct (f a) eqn:E.
  - destruct (IH H) as (x & Hx & Fx). exists x. split; [right; exact Hx|exact Fx].
  - exists a. split; [left; reflexivity|exact E].
Qed.

Lemma existsb_false_all : forall (A : Type) (f : A -> bool) l,
  existsb f l = false -> forall x, In x l -> f x = false.
Proof.
  intros A f l H x Hx. destruct (f x) eqn:E; [|reflexivity].
  assert (existsb f l = true) by (apply existsb_exists; exists x; split; assumption).
  congruence.
Qed.

Lemma site_chain_rank : forall rank c l l',
  forallb (site_ascending rank) c = true -> site_chain l c = Some l' ->
  rank l <= rank l' /\ (c <> [] -> rank l < rank l').
Proof.
  intros rank c; induction c as [|s c IH]; intros l l' Hok Hc.
  - inversion Hc; subst. split; [lia|congruence].
  - cbn [site_chain] in Hc. cbn [forallb] in Hok. apply andb_true_iff in Hok as [Hs Hok].
    destruct (holds (s_held s) l) eqn:E; [|discriminate].
    destruct (IH _ _ Hok Hc) as [Hle _].
    apply holds_In in E as [m0 Hm0].
    unfold site_ascending, ascending in Hs. rewrite forallb_forall in Hs.
    apply Hs in Hm0. cbn [fst] in Hm0. apply Nat.ltb_lt in Hm0. split; [lia|intros _; lia].
Qed.

Lemma no_conflict_pairs : forall c, has_conflict c = false ->
  forall a b, In a c -> In b c -> a = b \/ conflicts (s_held a) (s_held b) = false.
Proof.
  induction c as [|x c IH]; intros H a b Ha Hb; [destruct Ha|].
  cbn [has_conflict] in H. apply orb_false_iff in H as [Hx Hc].
  destruct Ha as [<-|Ha], Hb as [<-|Hb].
  - left. reflexivity.
  - right. exact (existsb_false_all _ _ _ Hx b Hb).
  - right. rewrite conflicts_sym. exact (existsb_false_all _ _ _ Hx a Ha).
  - apply IH; assumption.
Qed.

Lemma gate_ok_sub : forall rank0 rkd sites d,
  gated_with rank0 rkd sites = true -> In d sites -> site_ascending rank0 d = false ->
  forallb (site_ascending (rank_of (rkd d))) (sub_table sites d) = true.
Proof.
  intros rank0 rkd sites d Hg Hin Hd. unfold gated_with in Hg. rewrite forallb_forall in Hg.
  specialize (Hg d Hin). unfold gate_ok in Hg. rewrite Hd in Hg. exact Hg.
Qed.

(** * Every cycle of sites contains a conflicting pair *)

Theorem gated_cycles_conflict : forall rank0 rkd sites,
  gated_with rank0 rkd sites = true -> no_compatible_cycle sites.
Proof.
  intros rank0 rkd sites Hg c Hincl [Hne (l & Hc)].
  destruct (has_conflict c) eqn:E; [reflexivity|exfalso].
  destruct (forallb (site_ascending rank0) c) eqn:A.
  - destruct (site_chain_rank rank0 c l l A Hc) as [_ Hlt]. specialize (Hlt Hne). lia.
  - apply forallb_false_ex in A as (d & Hd & Ad).
    pose proof (gate_ok_sub rank0 rkd sites d Hg (Hincl d Hd) Ad) as Hsub.
    assert (Hall : forallb (site_ascending (rank_of (rkd d))) c = true).
    { apply forallb_forall. intros s Hs. rewrite forallb_forall in Hsub. apply Hsub.
      destruct (no_conflict_pairs c E d s Hd Hs) as [<-|Hn].
      - left. reflexivity.
      - right. apply filter_In. split; [apply Hincl; exact Hs|].
        unfold compatible. rewrite Hn. reflexivity. }
    destruct (site_chain_rank _ c l l Hall Hc) as [_ Hlt]. specialize (Hlt Hne). lia.
Qed.

(** * No deadlock *)

Theorem gated_no_deadlock : forall rank0 rkd sites,
  gated_with rank0 rkd sites = true ->
  forall progs, Forall (fun p => conforms_sites sites [] p = true) progs ->
  forall s, reachable (init progs) s -> ~ deadlocked s.
Proof.
  intros rank0 rkd sites Hg progs HF s Hr Hdl.
  pose (P := fun h p => conforms_sites sites h p = true).
  assert (Hinv : inv P s).
  { apply inv_reachable with (progs := progs); try assumption; unfold P; simpl.
    - intros h l m r H; apply andb_true_iff in H; apply H.
    - intros h l m r H; apply andb_true_iff in H; exact H.
    - intros h f r H; exact H.
    - intros h f r H; exact H. }
  destruct Hinv as (its & Hm & HFi & HL).
  assert (Pnil : forall h, P h [] -> h = []).
  { intros [|x h] H; [reflexivity|]. unfold P in H. cbn in H. discriminate. }
  (* the site a blocked thread of the state is at *)
  assert (Hsite : forall it l m r, In it its -> rest (snd it) = Acq l m :: r ->
            exists d, In d sites /\ site_matches d (fst it) l m = true).
  { intros it l m r Hin Hrest. rewrite Forall_forall in HFi.
    destruct (HFi it Hin) as [HP _]. unfold P in HP. rewrite Hrest in HP.
    cbn [conforms_sites] in HP. apply andb_true_iff in HP as [HP _].
    apply existsb_exists in HP as (d & Hd & Hmt). exists d. split; assumption. }
  (* a descent under the global ranking: thread 1, at site d *)
  destruct (deadlock_needs_descent P Pnil s its Hm HFi HL Hdl rank0)
    as (it1 & l1 & m1 & r1 & Hin1 & Hr1 & Ha1).
  destruct (Hsite it1 l1 m1 r1 Hin1 Hr1) as (d & Hd & Hmd).
  apply site_matches_spec in Hmd as (Eld & _ & Hd1 & Hd2).
  assert (Ad : site_ascending rank0 d = false).
  { destruct (site_ascending rank0 d) eqn:A; [exfalso|reflexivity].
    unfold site_ascending in A. rewrite Eld in A.
    rewrite (ascending_mono rank0 (s_held d) (fst it1) l1 Hd2 A) in Ha1. discriminate. }
  pose proof (gate_ok_sub rank0 rkd sites d Hg Hd Ad) as Hsub.
  rewrite forallb_forall in Hsub.
  (* a descent under the ranking of d's sub-table: thread 2, at site d2 *)
  destruct (deadlock_needs_descent P Pnil s its Hm HFi HL Hdl (rank_of (rkd d)))
    as (it2 & l2 & m2 & r2 & Hin2 & Hr2 & Ha2).
  destruct (Hsite it2 l2 m2 r2 Hin2 Hr2) as (d2 & Hd2in & Hmd2).
  apply site_matches_spec in Hmd2 as (Eld2 & _ & Hd21 & Hd22).
  assert (Hin_sub : In d2 (sub_table sites d) \/ (it1 = it2)).
  { destruct (its_pair s its HL it1 it2 Hin1 Hin2) as [Heq|Hnc]; [right; exact Heq|left].
    right. apply filter_In. split; [exact Hd2in|].
    unfold compatible. destruct (conflicts (s_held d) (s_held d2)) eqn:C; [exfalso|reflexivity].
    rewrite (conflicts_mono _ _ _ _ Hd1 Hd21 C) in Hnc. discriminate. }
  destruct Hin_sub as [Hin_sub|Heq].
  - specialize (Hsub d2 Hin_sub). unfold site_ascending in Hsub. rewrite Eld2 in Hsub.
    rewrite (ascending_mono _ (s_held d2) (fst it2) l2 Hd22 Hsub) in Ha2. discriminate.
  - subst it2. assert (El : l2 = l1) by (rewrite Hr1 in Hr2; congruence). rewrite El in Ha2.
    specialize (Hsub d (or_introl eq_refl)). unfold site_ascending in Hsub. rewrite Eld in Hsub.
    rewrite (ascending_mono _ (s_held d) (fst it1) l1 Hd2 Hsub) in Ha2. discriminate.
Qed.

(** * Not vacuous *)

(** The shape of the statistics module: gate g, locks a (the unit) and b (the
    database writer).  Flush: g exclusively, a, b.  Reader: g shared, b, a.  The
    table passes, both threads conform, and the cycle a . b . a is there. *)
Definition ex_sites (flush_gate : mode) : list acq_site :=
  [AcqSite "flush" "f" [] ("g", flush_gate) "x.go:1";
   AcqSite "flush" "f" [("g", flush_gate)] ("a", W) "x.go:2";
   AcqSite "flush" "f" [("a", W); ("g", flush_gate)] ("b", W) "x.go:3";
   AcqSite "read" "r" [] ("g", R) "x.go:4";
   AcqSite "read" "r" [("g", R)] ("b", W) "x.go:5";
   AcqSite "read" "r" [("b", W); ("g", R)] ("a", R) "x.go:6"].

Definition ex_flush (flush_gate : mode) : list event :=
  [Acq "g" flush_gate; Acq "a" W; Acq "b" W; Rel "b" W; Rel "a" W; Rel "g" flush_gate].
Definition ex_read : list event :=
  [Acq "g" R; Acq "b" W; Acq "a" R; Rel "a" R; Rel "b" W; Rel "g" R].

Definition ex_rank0 (sites : list acq_site) : lock -> nat := rank_of (site_rank_list sites).
Definition ex_rkd (sites : list acq_site) (d : acq_site) : list (string * nat) :=
  site_rank_list (sub_table sites d).

Example gated_example :
  let sites := ex_sites W in
  gated_with (ex_rank0 sites) (ex_rkd sites) sites = true /\
  conforms_sites sites [] (ex_flush W) = true /\ conforms_sites sites [] ex_read = true /\
  site_cycle [nth 2 sites (AcqSite "" "" [] ("", W) ""); nth 5 sites (AcqSite "" "" [] ("", W) "")] /\
  forallb (site_ascending (ex_rank0 sites)) sites = false.
Proof.
  cbn zeta. split; [vm_compute; reflexivity|]. split; [vm_compute; reflexivity|].
  split; [vm_compute; reflexivity|]. split; [|vm_compute; reflexivity].
  split; [discriminate|]. exists "a". vm_compute. reflexivity.
Qed.

(** The same with the gate held shared by the flush as well (the seeded change
    C05-G): the check fails ... *)
Example ungated_example :
  let sites := ex_sites R in
  gated_with (ex_rank0 sites) (ex_rkd sites) sites = false /\
  conforms_sites sites [] (ex_flush R) = true /\ conforms_sites sites [] ex_read = true.
Proof. cbn zeta. repeat split; vm_compute; reflexivity. Qed.

(** ... and the machine does deadlock: flush holds g (shared) and a, the reader
    holds g (shared) and b, each waits for the other's lock. *)
Lemma blocked_r :
  forall lt l r, writer (lt l) = true -> ~ can_step lt (TH false (Acq l R :: r)).
Proof.
  intros lt l r Hw (lt' & th' & Hs); inversion Hs; subst; congruence.
Qed.

Example shared_gate_deadlock_possible :
  exists s, reachable (init [ex_flush R; ex_read]) s /\ deadlocked s.
Proof.
  eexists; split.
  - unfold init, ex_flush, ex_read; simpl.
    eapply reach_front. { apply step_fst; apply ts_acq_r; reflexivity. }
    eapply reach_front. { apply step_fst; apply ts_announce. }
    eapply reach_front. { apply step_fst; apply ts_acq_w; reflexivity. }
    eapply reach_front. { apply step_snd; apply ts_acq_r; reflexivity. }
    eapply reach_front. { apply step_snd; apply ts_announce. }
    eapply reach_front. { apply step_snd; apply ts_acq_w; reflexivity. }
    eapply reach_front. { apply step_fst; apply ts_announce. }
    apply reach_refl.
  - split.
    + eexists; split; [left; reflexivity|discriminate].
    + intros th [<-|[<-|[]]] _; [apply blocked_w|apply blocked_r]; vm_compute; reflexivity.
Qed.

(** C13, part 6d: per-step preservation of [loadable], steps 3, 4, 6, 7, 10
    (see Proofs/MigrateLoadable.v; lemmas and tactics of Proofs/MigrateLoadTools.v). *)
From Coq Require Import List ZArith String Ascii Bool Lia Arith.
From AGH Require Import Model.Migrate Model.MigrateLoad Proofs.Migrate Proofs.MigrateLoadable Proofs.MigrateLoadTools.
Import ListNotations.
Local Open Scope string_scope.
Local Open Scope list_scope.

Section WithOracles.
Variable O : oracles.

Lemma keep3 : step_keeps L 2 step3.
Proof.
  intros m m' Hm E. open_schema Hm. open_goal. unfold step3 in E. stamp_in Hm E m0.
  let fo := goal_obj_fields "dns" in
  refine (with_obj_fok _ _ _ _ _ _ _ fo _ E Hm eq_refl _ _); [|vmr].
  clear. intros o o' Ho Ef.
  destruct (field_val TAny o "bootstrap_dns") as [|b|] eqn:F; injection Ef as <-.
  - refine (fin_none _ _ "bootstrap_dns" _ Ho (fv_any_absent _ _ F) _). vmr.
  - apply fv_any_ok in F.
    refine (fin_set _ _ "bootstrap_dns" (SArr SStr) _ _ Ho _ _); [|vmr].
    rewrite conforms_arr. cbn [forallb]. now rewrite (fok_look _ _ _ _ _ Ho F eq_refl).
  - now apply fv_any_noerr in F.
Qed.

Lemma keep4 : step_keeps L 3 step4.
Proof.
  intros m m' Hm E. open_schema Hm. open_goal. unfold step4 in E. stamp_in Hm E m0.
  destruct (field_val TArr m0 "clients") as [|v|] eqn:F; injection E as <-; try (fin Hm).
  destruct (fv_arr_ok _ _ _ F) as [l [-> G]]. cbn [zarr].
  pose proof (arr_field _ _ _ _ _ Hm G eq_refl) as Hl.
  let e' := goal_arr_elem "clients" in
  refine (fin_set _ _ "clients" (SArr e') _ _ Hm _ _); [|vmr].
  rewrite conforms_arr. refine (forallb_map_conforms _ _ _ _ Hl _). clear. intros c C.
  apply conforms_obj_inv in C. destruct C as [[_ [=]]|[o [-> Ho]]].
  cbn [client4]. rewrite conforms_obj.
  refine (fin_set _ _ "use_global_blocked_services" SBool (VBool true) _ Ho eq_refl _). vmr.
Qed.

Lemma keep6 : step_keeps L 5 step6.
Proof.
  intros m m' Hm E. open_schema Hm. open_goal. unfold step6 in E. stamp_in Hm E m0.
  destruct (field_val TArr m0 "clients") as [|v|] eqn:F; try discriminate E.
  - injection E as <-. fin Hm.
  - destruct (fv_arr_ok _ _ _ F) as [l [-> G]]. cbn [zarr] in E.
    destruct (map_res client6 l) as [cl| |] eqn:El; cbn [bind] in E; try discriminate E. injection E as <-.
    pose proof (arr_field _ _ _ _ _ Hm G eq_refl) as Hl.
    let e' := goal_arr_elem "clients" in
    refine (fin_set _ _ "clients" (SArr e') _ _ Hm _ _); [|vmr].
    rewrite conforms_arr. refine (forallb_map_res_conforms _ _ _ _ _ El Hl _). clear. intros c c' C Ec.
    apply conforms_obj_inv in C. destruct C as [[_ [=]]|[o [-> Ho]]].
    cbn [client6] in Ec.
    destruct (fv_val_str o "ip") as [a Ha]. destruct (fv_val_str o "mac") as [b Hb].
    assert (Ec' : c' = VObj (upd "ids" (VArr (nonempty_id (VStr a) ++ nonempty_id (VStr b))) o)).
    { rewrite <- Ha, <- Hb.
      destruct (field_val TStr o "ip"); destruct (field_val TStr o "mac"); try discriminate Ec;
        injection Ec as <-; reflexivity. }
    subst c'. clear Ec Ha Hb. rewrite conforms_obj.
    refine (fin_set _ _ "ids" (SArr SStr) _ _ Ho _ _); [|vmr].
    rewrite conforms_arr, forallb_app, !nonempty_id_str. reflexivity.
Qed.

Lemma keep7 : step_keeps L 6 step7.
Proof.
  intros m m' Hm E. open_schema Hm. open_goal. unfold step7 in E. stamp_in Hm E m0.
  destruct (field_val TObj m0 "dhcp") as [|v|] eqn:F; [injection E as <-; fin Hm| |injection E as <-; fin Hm].
  destruct (fv_obj_ok _ _ _ F) as [o [-> G]]. cbn [zobj] in E.
  destruct (moves moves7 o []) as [[dhcp v4]|] eqn:Mv; [|discriminate E]. injection E as <-.
  pose proof (obj_field _ _ _ _ _ _ Hm G eq_refl) as Ho.
  let fo := goal_obj_fields "dhcp" in let f4 := obj_fields_in "dhcpv4" fo in pose proof (fok_nil f4) as H4.
  do_moves Mv Ho H4 Hs Hd.
  pose proof (fok_set_obj _ _ "dhcpv4" false _ _ Hs Hd) as H1.
  refine (fin_set_obj _ _ "dhcp" false _ _ _ Hm H1 _). vmr.
Qed.

Lemma keep10 : step_keeps L 9 (step10 O).
Proof.
  intros m m' Hm E. open_schema Hm. open_goal. unfold step10 in E. stamp_in Hm E m0.
  let fo := goal_obj_fields "dns" in
  refine (with_obj_fok _ _ _ _ _ _ _ fo _ E Hm eq_refl _ _); [|vmr].
  clear. intros o o' Ho Ef.
  destruct (quic_field O "upstream_dns" o) as [o1| |] eqn:Q1; cbn [bind] in Ef; try discriminate Ef.
  pose proof (quic_field_fok _ _ _ _ _ Q1 Ho) as H1.
  pose proof (quic_field_fok _ _ _ _ _ Ef H1) as H2.
  fin H2.
Qed.

End WithOracles.

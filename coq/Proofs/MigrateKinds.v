(** C13: [loadable] at the current version implies the kind check of
    [yaml.Unmarshal] ([kinds_accept]), which the harness compares with the
    real decoder. *)
From Coq Require Import List String Bool ZArith.
From AGH Require Import Model.Migrate Model.MigrateLoad Model.MigrateKinds Proofs.Migrate Proofs.MigrateFrame
  Proofs.MigrateSim Proofs.MigrateElems Proofs.MigrateLoadable Proofs.MigrateLoadableC Proofs.MigrateLoadableH.
Import ListNotations.
Local Open Scope string_scope.
Local Open Scope list_scope.

Fixpoint dfields (m : obj) (fs : list (string * sh)) : bool :=
  match fs with
  | [] => true
  | (k, s) :: fs' => match get k m with None => true | Some x => decodes s x end && dfields m fs'
  end.

Lemma decodes_obj n fs m : decodes (SObj n fs) (VObj m) = dfields m fs.
Proof. induction fs as [|[k s] fs IH]; cbn; [reflexivity|]. now rewrite <- IH. Qed.

(** The decoder accepts whatever the table accepts. *)
Lemma conforms_decodes : forall s v, conforms s v = true -> decodes s v = true.
Proof.
  fix IH 1. intros s v. destruct s as [| | | | | |e|n fs]; try (cbn [conforms decodes]; tauto).
  - destruct v as [| | | |[?|] ?| | | | | |]; cbn; congruence.
  - destruct v as [| | | |[?|] ?| | | | | |]; try (cbn; congruence).
    cbn [conforms decodes]. induction l as [|a l IHl]; cbn [forallb]; [reflexivity|]. intros H.
    apply andb_prop in H. destruct H as [H1 H2]. now rewrite (IH e a H1), (IHl H2).
  - destruct v as [| | | |[?|] ?| | |m| | |]; try (cbn; congruence).
    rewrite conforms_obj, decodes_obj.
    induction fs as [|[k s'] fs IHfs]; cbn [fields_ok dfields]; [reflexivity|]. intros H.
    apply andb_prop in H. destruct H as [H1 H2]. rewrite (IHfs H2), andb_true_r.
    destruct (get k m) as [x|]; [exact (IH s' x H1) | reflexivity].
Qed.

(** What is loadable at the current version passes the decoder's kind check. *)
Theorem loadable_kinds_accept m : loadable current m = true -> kinds_accept m = true.
Proof. unfold loadable, kinds_accept. apply conforms_decodes. Qed.

(** Hence every upgrade to the current version of a document loadable at its
    own version is accepted by the decoder's kind check, as a tree and as the
    file written from it. *)
Theorem migrate_output_kinds_accept O top a :
  migrate O top 29 = ONew a ->
  loadable (nat_version (input_map top)) (input_map top) = true ->
  kinds_accept a = true /\ kinds_accept (norm_obj a) = true.
Proof.
  intros H Hl. destruct (migrate_output_loadable O top 29 a H Hl) as [L1 L2].
  split; now apply loadable_kinds_accept.
Qed.

(** The check does tell kinds apart; it differs from [loadable] on nulls of
    pointer-typed sections and on fractional floats at integer keys. *)
Example kinds_examples :
  kinds_accept [("schema_version", VInt 29); ("filtering", VNull)] = true /\
  loadable 29 [("schema_version", VInt 29); ("filtering", VNull)] = false /\
  kinds_accept [("schema_version", VInt 29); ("log", VObj [("max_age", VFloat None "2.5")])] = true /\
  loadable 29 [("schema_version", VInt 29); ("log", VObj [("max_age", VFloat None "2.5")])] = false /\
  kinds_accept [("schema_version", VInt 29); ("dns", VObj [("bind_hosts", VStr "127.0.0.1")])] = false /\
  kinds_accept [("schema_version", VInt 29); ("log", VObj [("max_size", VStr "big")])] = false /\
  kinds_accept [("schema_version", VInt 29); ("log", VObj [("file", VInt 5)])] = true /\
  kinds_accept [("schema_version", VInt 29); ("log", VArr [])] = false.
Proof. repeat split; vm_compute; reflexivity. Qed.

(** C16 (round 4): no ClientID is inherited across a reconfiguration; within
    one configuration a request is processed with exactly what its own hook
    extracted.  Model: Model/ClientIDReconf.v over the C04 cache model. *)
From Coq Require Import List NArith Bool Lia Arith.
From AGH Require Import Base.Run Base.Bytes Model.ClientID Model.ClientIDCache Proofs.ClientIDCache
  Model.ClientIDReconf.
Import ListNotations.
Local Open Scope N_scope.

Definition state_of (cl : bool) cf st ops : srv := fst (run cl cf st ops).
Definition obs_of (cl : bool) cf st ops : list obs := snd (run cl cf st ops).
Definition last_obs (cl : bool) cf st ops : obs := last (obs_of cl cf st ops) BNoSuch.

Definition no_reconf (ops : list op) : Prop := forall h s, ~ In (OReconf h s) ops.

Definition plain (p : proto) : Prop := p = UDP \/ p = TCP \/ p = DNSCrypt.

(** What the hook of [q] extracts under the settings of [st]. *)
Definition hook_of (st : srv) (q : req_in) : cid_res :=
  client_id_of (q_proto q) (s_host st) (s_strict st) (q_sni q) (q_http q).

(** What processInitial of a request must end with, by the property: the
    request's own extraction. *)
Definition expected (st : srv) (q : req_in) : obs :=
  match hook_of st q with
  | CidErr _ => BRefused
  | CidOk id => if q_early q then BEarly else BProcess id
  end.

(** * Plumbing *)

Lemma run_cons cl cf st o ops :
  run cl cf st (o :: ops) =
  (state_of cl cf (fst (step cl cf st o)) ops, snd (step cl cf st o) :: obs_of cl cf (fst (step cl cf st o)) ops).
Proof.
  unfold state_of, obs_of. cbn [run]. destruct (step cl cf st o) as [s1 b]. cbn [fst snd].
  destruct (run cl cf s1 ops). reflexivity.
Qed.

Lemma state_cons cl cf st o ops :
  state_of cl cf st (o :: ops) = state_of cl cf (fst (step cl cf st o)) ops.
Proof. unfold state_of at 1. rewrite run_cons. reflexivity. Qed.

Lemma obs_cons cl cf st o ops :
  obs_of cl cf st (o :: ops) = snd (step cl cf st o) :: obs_of cl cf (fst (step cl cf st o)) ops.
Proof. unfold obs_of at 1. rewrite run_cons. reflexivity. Qed.

Lemma state_app cl cf ops1 : forall st ops2,
  state_of cl cf st (ops1 ++ ops2) = state_of cl cf (state_of cl cf st ops1) ops2.
Proof.
  induction ops1 as [|o ops1 IH]; intros st ops2; [reflexivity|].
  rewrite <- app_comm_cons, !state_cons. apply IH.
Qed.

Lemma obs_app cl cf ops1 : forall st ops2,
  obs_of cl cf st (ops1 ++ ops2) = obs_of cl cf st ops1 ++ obs_of cl cf (state_of cl cf st ops1) ops2.
Proof.
  induction ops1 as [|o ops1 IH]; intros st ops2; [reflexivity|].
  rewrite <- app_comm_cons, !obs_cons, state_cons, IH. reflexivity.
Qed.

Lemma last_obs_snoc cl cf st ops o :
  last_obs cl cf st (ops ++ [o]) = snd (step cl cf (state_of cl cf st ops) o).
Proof.
  unfold last_obs. rewrite obs_app, obs_cons. apply last_last.
Qed.

Lemma no_reconf_cons o ops : no_reconf (o :: ops) -> no_reconf ops.
Proof. intros H h s Hin. apply (H h s). right. exact Hin. Qed.

(** * Request contexts only accumulate *)

Lemma step_reqs cl cf st o :
  exists more, s_reqs (fst (step cl cf st o)) = s_reqs st ++ more.
Proof.
  destruct o as [q|i|h s]; cbn [step].
  - eexists. reflexivity.
  - exists []. rewrite app_nil_r. unfold process.
    destruct (nth_error (s_reqs st) i) as [p|]; [|reflexivity].
    destruct (p_res p); [|reflexivity]. destruct (q_early (p_in p)); [reflexivity|].
    destruct (cache_get (p_rid p) (s_cache st)) as [[v|] c]; reflexivity.
  - exists []. rewrite app_nil_r. reflexivity.
Qed.

Lemma run_reqs cl cf ops : forall st,
  exists more, s_reqs (state_of cl cf st ops) = s_reqs st ++ more.
Proof.
  induction ops as [|o ops IH]; intros st.
  - exists []. rewrite app_nil_r. reflexivity.
  - rewrite state_cons. destruct (IH (fst (step cl cf st o))) as [m2 E2].
    destruct (step_reqs cl cf st o) as [m1 E1]. exists (m1 ++ m2). rewrite E2, E1, app_assoc. reflexivity.
Qed.

Lemma nth_kept cl cf ops st i p :
  nth_error (s_reqs st) i = Some p -> nth_error (s_reqs (state_of cl cf st ops)) i = Some p.
Proof.
  intros H. destruct (run_reqs cl cf ops st) as [m E]. rewrite E.
  rewrite nth_error_app1; [exact H|]. apply nth_error_Some. congruence.
Qed.

(** The index of a request is the number of arrivals before it. *)
Fixpoint arrivals (ops : list op) : nat :=
  match ops with
  | [] => 0
  | OArrive _ :: r => S (arrivals r)
  | _ :: r => arrivals r
  end.

Lemma reqs_count cl cf ops : forall st,
  length (s_reqs (state_of cl cf st ops)) = (length (s_reqs st) + arrivals ops)%nat.
Proof.
  induction ops as [|o ops IH]; intros st; [cbn; lia|].
  rewrite state_cons, IH. destruct o as [q|i|h s]; cbn [arrivals step].
  - cbn [arrive fst s_reqs]. rewrite app_length. cbn. lia.
  - f_equal. unfold process.
    destruct (nth_error (s_reqs st) i) as [p|]; [|reflexivity].
    destruct (p_res p); [|reflexivity]. destruct (q_early (p_in p)); [reflexivity|].
    destruct (cache_get (p_rid p) (s_cache st)) as [[v|] c]; reflexivity.
  - reflexivity.
Qed.

(** * The cache never holds a key above the current proxy's counter *)

Definition keys_bounded (st : srv) : Prop :=
  forall k, In k (keys (s_cache st)) -> k <= s_counter st.

Lemma process_cache st i :
  s_cache (fst (process st i)) = s_cache st \/
  exists r, s_cache (fst (process st i)) = snd (cache_get r (s_cache st)).
Proof.
  unfold process. destruct (nth_error (s_reqs st) i) as [p|]; [|auto].
  destruct (p_res p); [|auto]. destruct (q_early (p_in p)); [auto|].
  right. exists (p_rid p). destruct (cache_get (p_rid p) (s_cache st)) as [[v|] c]; reflexivity.
Qed.

Lemma process_counter st i : s_counter (fst (process st i)) = s_counter st.
Proof.
  unfold process. destruct (nth_error (s_reqs st) i) as [p|]; [|reflexivity].
  destruct (p_res p); [|reflexivity]. destruct (q_early (p_in p)); [reflexivity|].
  destruct (cache_get (p_rid p) (s_cache st)) as [[v|] c]; reflexivity.
Qed.

Lemma process_keys st i k :
  In k (keys (s_cache (fst (process st i)))) -> In k (keys (s_cache st)).
Proof.
  destruct (process_cache st i) as [->|(r & ->)]; [auto|]. apply keys_get.
Qed.

Lemma arrive_keys cf st q k :
  In k (keys (s_cache (fst (arrive cf st q)))) -> k = s_counter st + 1 \/ In k (keys (s_cache st)).
Proof.
  cbn [arrive fst s_cache]. destruct (hook_value _) as [|b id]; [auto|]. apply keys_set.
Qed.

(** The one step that needs the fix: with [clears = false] the counter drops
    to 0 under the keys of the old proxy's requests. *)
Lemma bounded_step cf st o : keys_bounded st -> keys_bounded (fst (step true cf st o)).
Proof.
  intros H k Hin. destruct o as [q|i|h s]; cbn [step] in *.
  - apply arrive_keys in Hin. cbn [arrive fst s_counter]. destruct Hin as [->|Hin]; [lia|].
    apply H in Hin. lia.
  - rewrite process_counter. apply H. eapply process_keys. exact Hin.
  - cbn in Hin. destruct Hin.
Qed.

Lemma bounded_run cf ops : forall st, keys_bounded st -> keys_bounded (state_of true cf st ops).
Proof.
  induction ops as [|o ops IH]; intros st H; [exact H|].
  rewrite state_cons. apply IH, bounded_step, H.
Qed.

Lemma bounded_init host strict : keys_bounded (srv_init host strict).
Proof. intros k []. Qed.

(** * Within one configuration: a key that is absent stays absent *)

Definition absent (r : N) (st : srv) : Prop :=
  ~ In r (keys (s_cache st)) /\ r <= s_counter st.

Lemma absent_step cl cf r st o :
  (forall h s, o <> OReconf h s) -> absent r st -> absent r (fst (step cl cf st o)).
Proof.
  intros Ho [Hn Hle]. destruct o as [q|i|h s]; cbn [step].
  - split.
    + intros Hin. apply arrive_keys in Hin as [->|Hin]; [lia|tauto].
    + cbn [arrive fst s_counter]. lia.
  - split; [|rewrite process_counter; exact Hle].
    intros Hin. apply process_keys in Hin. tauto.
  - exfalso. eapply Ho. reflexivity.
Qed.

Lemma absent_run cl cf r ops : forall st,
  no_reconf ops -> absent r st -> absent r (state_of cl cf st ops).
Proof.
  induction ops as [|o ops IH]; intros st Hno H; [exact H|].
  rewrite state_cons. apply IH; [eapply no_reconf_cons; exact Hno|].
  apply absent_step; [|exact H]. intros h s ->. apply (Hno h s). left. reflexivity.
Qed.

(** * Within one configuration: a cached ClientID stays readable *)

Lemma holds_get_self k v n c :
  holds k v n c -> holds k v 0 (snd (cache_get k c)).
Proof.
  intros Hh. unfold cache_get. rewrite (holds_find _ _ _ _ Hh). cbn [snd].
  exists (cache_del k c), []. repeat split; auto.
  intros Hin. apply keys_del in Hin. tauto.
Qed.

Lemma holds_get_any k v n r c :
  holds k v n c -> holds k v (S n) (snd (cache_get r c)).
Proof.
  intros Hh. destruct (N.eq_dec r k) as [->|Hne].
  - apply (holds_weaken k v 0 (S n)); [lia|]. apply (holds_get_self k v n c Hh).
  - unfold cache_get. destruct (cache_find r c) as [v'|]; cbn [snd].
    + apply holds_touch; assumption.
    + eapply holds_weaken; [|exact Hh]. lia.
Qed.

Lemma holds_set_other cf k v n r v' c :
  r <> k -> (S n < cc_max_count cf)%nat -> holds k v n c -> holds k v (S n) (cache_set cf r v' c).
Proof.
  intros Hne Hn Hh.
  pose proof (holds_step cf k v n c (EvBefore r (match v' with [] => [0] | _ => v' end))) as H.
  destruct v' as [|b v'].
  - (* not used by the server (an empty value is never set); still true *)
    unfold cache_set. destruct (match cc_max_elem cf with Some m => _ | None => _ end);
      [eapply holds_weaken; [|exact Hh]; lia|].
    apply holds_touch; [exact Hne|].
    destruct (Nat.eqb (length c) (cc_max_count cf)) eqn:El; [|exact Hh].
    apply Nat.eqb_eq in El. destruct Hh as (pre & post & -> & Hp & Hq & Hl).
    rewrite app_length in El. cbn [length] in El.
    destruct pre as [|x pre]; [cbn in El; lia|].
    exists pre, post. repeat split; auto. cbn in Hp. tauto.
  - apply H; [cbn; congruence|exact Hn|exact Hh].
Qed.

Definition kept (r : N) (v : bytes) (n : nat) (st : srv) : Prop :=
  holds r v n (s_cache st) /\ r <= s_counter st.

Lemma kept_step cl cf r v n st o :
  (forall h s, o <> OReconf h s) -> (S n < cc_max_count cf)%nat ->
  kept r v n st -> kept r v (S n) (fst (step cl cf st o)).
Proof.
  intros Ho Hn [Hh Hle]. destruct o as [q|i|h s]; cbn [step].
  - split; [|cbn [arrive fst s_counter]; lia].
    cbn [arrive fst s_cache]. destruct (hook_value _) as [|b id].
    + eapply holds_weaken; [|exact Hh]. lia.
    + apply holds_set_other; [lia|exact Hn|exact Hh].
  - split; [|rewrite process_counter; exact Hle].
    destruct (process_cache st i) as [->|(r' & ->)].
    + eapply holds_weaken; [|exact Hh]. lia.
    + apply holds_get_any. exact Hh.
  - exfalso. eapply Ho. reflexivity.
Qed.

Lemma kept_run cl cf r v ops : forall n st,
  no_reconf ops -> (n + length ops < cc_max_count cf)%nat ->
  kept r v n st -> kept r v (n + length ops) (state_of cl cf st ops).
Proof.
  induction ops as [|o ops IH]; intros n st Hno Hn H.
  - cbn [length]. rewrite Nat.add_0_r. exact H.
  - rewrite state_cons. cbn [length] in *.
    replace (n + S (length ops))%nat with (S n + length ops)%nat by lia.
    apply IH; [eapply no_reconf_cons; exact Hno|lia|].
    apply kept_step; [|lia|exact H]. intros h s ->. apply (Hno h s). left. reflexivity.
Qed.

(** * The theorems *)

Section Handover.
  Variable cf : cache_conf.
  Variables (host0 : bytes) (strict0 : bool).

  Let init := srv_init host0 strict0.

  (** The history: anything ([A], reconfigurations included), then the
      request [q] arrives, then anything but a reconfiguration ([mid]), then
      the request is processed. *)
  Definition history (A : list op) (q : req_in) (mid : list op) : list op :=
    A ++ OArrive q :: mid ++ [OProcess (arrivals A)].

  Lemma history_last cl A q mid :
    last_obs cl cf init (history A q mid) =
    snd (process (state_of cl cf (fst (arrive cf (state_of cl cf init A) q)) mid) (arrivals A)).
  Proof.
    unfold history.
    replace (A ++ OArrive q :: mid ++ [OProcess (arrivals A)])
      with ((A ++ OArrive q :: mid) ++ [OProcess (arrivals A)])
      by (rewrite <- app_assoc; reflexivity).
    rewrite last_obs_snoc. cbn [step]. rewrite state_app, state_cons. reflexivity.
  Qed.

  Lemma own_context cl A q mid :
    let stA := state_of cl cf init A in
    nth_error (s_reqs (state_of cl cf (fst (arrive cf stA q)) mid)) (arrivals A) =
    Some {| p_rid := s_counter stA + 1; p_in := q; p_res := hook_of stA q |}.
  Proof.
    intros stA. apply nth_kept. cbn [arrive fst s_reqs].
    assert (arrivals A = length (s_reqs stA)) as ->.
    { unfold stA. rewrite reqs_count. reflexivity. }
    rewrite nth_error_app2, Nat.sub_diag; [reflexivity|lia].
  Qed.

  (** A request whose own hook extracted no ClientID is processed without
      one, whatever was served before any number of reconfigurations and
      whatever else is served meanwhile: nothing is inherited. *)
  Theorem no_inherit_same_epoch A q mid :
    let stA := state_of true cf init A in
    hook_value (hook_of stA q) = [] -> no_reconf mid ->
    last_obs true cf init (history A q mid) = expected stA q.
  Proof.
    intros stA Hv Hno. rewrite history_last. fold stA.
    pose proof (own_context true A q mid) as Hown. cbv zeta in Hown. fold stA in Hown.
    unfold process. rewrite Hown. cbn [p_res p_in p_rid].
    unfold expected. destruct (hook_of stA q) as [id|e] eqn:Eh; [|reflexivity].
    destruct (q_early q); [reflexivity|]. cbn [hook_value] in Hv. subst id.
    assert (Hab : absent (s_counter stA + 1) (fst (arrive cf stA q))).
    { split.
      - cbn [arrive fst s_cache]. fold (hook_of stA q). rewrite Eh. cbn [hook_value].
        intros Hin. apply (bounded_run cf A init (bounded_init host0 strict0)) in Hin.
        fold stA in Hin. lia.
      - cbn [arrive fst s_counter]. lia. }
    apply (absent_run true cf _ mid _ Hno) in Hab. destruct Hab as [Hn _].
    unfold cache_get. rewrite (find_none _ _ Hn). reflexivity.
  Qed.

  (** Plain DNS and DNSCrypt requests are never processed with a ClientID. *)
  Theorem plain_never_id A q mid :
    plain (q_proto q) -> no_reconf mid ->
    last_obs true cf init (history A q mid) = if q_early q then BEarly else BProcess [].
  Proof.
    intros Hp Hno.
    assert (Hh : hook_of (state_of true cf init A) q = CidOk []).
    { unfold hook_of. destruct Hp as [->|[->| ->]]; reflexivity. }
    rewrite no_inherit_same_epoch; [|rewrite Hh; reflexivity|exact Hno].
    unfold expected. rewrite Hh. reflexivity.
  Qed.

  (** Every request is processed with exactly what its own hook extracted (or
      is refused, or returns early), as long as fewer than MaxCount steps lie
      between hook and processing. *)
  Theorem handover_same_epoch A q mid :
    let stA := state_of true cf init A in
    fits cf (hook_value (hook_of stA q)) -> no_reconf mid ->
    (length mid < cc_max_count cf)%nat ->
    last_obs true cf init (history A q mid) = expected stA q.
  Proof.
    intros stA Hf Hno Hlen.
    destruct (hook_value (hook_of stA q)) as [|b id0] eqn:Ev;
      [apply no_inherit_same_epoch; assumption|].
    rewrite history_last. fold stA.
    pose proof (own_context true A q mid) as Hown. cbv zeta in Hown. fold stA in Hown.
    unfold process. rewrite Hown.
    cbn [p_res p_in p_rid]. unfold expected.
    destruct (hook_of stA q) as [id|e] eqn:Eh; [|reflexivity].
    destruct (q_early q); [reflexivity|]. cbn [hook_value] in Ev. subst id.
    assert (Hk : kept (s_counter stA + 1) (b :: id0) 0 (fst (arrive cf stA q))).
    { split; [|cbn [arrive fst s_counter]; lia].
      cbn [arrive fst s_cache]. fold (hook_of stA q). rewrite Eh. cbn [hook_value].
      apply holds_after_set; [discriminate|exact Hf]. }
    apply (kept_run true cf _ _ mid 0 _ Hno) in Hk; [|cbn; lia].
    destruct Hk as [Hh _]. unfold cache_get. rewrite (holds_find _ _ _ _ Hh). reflexivity.
  Qed.
End Handover.

(** The server's cache configuration does not limit the element size. *)
Corollary handover_server host0 strict0 A q mid :
  let stA := state_of true server_cache_conf (srv_init host0 strict0) A in
  no_reconf mid -> (length mid < 1024)%nat ->
  last_obs true server_cache_conf (srv_init host0 strict0) (history A q mid) = expected stA q.
Proof.
  intros stA Hno Hlen. apply handover_same_epoch; [exact I|exact Hno|exact Hlen].
Qed.

(** * Every ClientID a request is processed with was extracted by a hook *)

Definition values_extracted (st : srv) : Prop :=
  forall k v, In (k, v) (s_cache st) ->
  exists p, In p (s_reqs st) /\ hook_value (p_res p) = v.

Lemma in_del k c x : In x (cache_del k c) -> In x c.
Proof. unfold cache_del. intros H. apply filter_In in H. tauto. Qed.

Lemma in_tl {A} (c : list A) x : In x (tl c) -> In x c.
Proof. destruct c; cbn; auto. Qed.

Lemma in_set cf k v c x : In x (cache_set cf k v c) -> x = (k, v) \/ In x c.
Proof.
  unfold cache_set. destruct (match cc_max_elem cf with Some m => _ | None => _ end); [auto|].
  rewrite in_app_iff. intros [H|[<-|[]]]; [|auto].
  apply in_del in H. right. destruct (Nat.eqb _ _); [apply in_tl|]; exact H.
Qed.

Lemma find_in k c v : cache_find k c = Some v -> In (k, v) c.
Proof.
  induction c as [|[k' v'] c IH]; cbn; [discriminate|].
  destruct (k' =? k) eqn:E; [apply N.eqb_eq in E; intros [= ->]; subst; auto|auto].
Qed.

Lemma in_get k c x : In x (snd (cache_get k c)) -> In x c.
Proof.
  unfold cache_get. destruct (cache_find k c) as [v|] eqn:F; cbn [snd]; [|auto].
  rewrite in_app_iff. intros [H|[<-|[]]]; [eapply in_del; exact H|apply find_in; exact F].
Qed.

Lemma extracted_step cl cf st o : values_extracted st -> values_extracted (fst (step cl cf st o)).
Proof.
  intros H k v Hin. destruct o as [q|i|h s]; cbn [step] in *.
  - cbn [arrive fst s_cache s_reqs] in *.
    set (r := client_id_of _ _ _ _ _) in *.
    destruct (hook_value r) as [|b id] eqn:Ev.
    + destruct (H k v Hin) as (p & Hp & Hv). exists p. rewrite in_app_iff. auto.
    + apply in_set in Hin as [[= -> ->]|Hin].
      * eexists. rewrite in_app_iff. split; [right; left; reflexivity|]. exact Ev.
      * destruct (H k v Hin) as (p & Hp & Hv). exists p. rewrite in_app_iff. auto.
  - destruct (step_reqs cl cf st (OProcess i)) as [m Em]. cbn [step] in Em.
    assert (Hc : In (k, v) (s_cache st)).
    { destruct (process_cache st i) as [E|(r & E)]; rewrite E in Hin; [exact Hin|].
      eapply in_get. exact Hin. }
    destruct (H k v Hc) as (p & Hp & Hv). exists p. rewrite Em, in_app_iff. auto.
  - cbn [reconf fst s_cache s_reqs] in *. destruct cl; [destruct Hin|]. apply (H k v Hin).
Qed.

Lemma extracted_run cl cf ops : forall st,
  values_extracted st -> values_extracted (state_of cl cf st ops).
Proof.
  induction ops as [|o ops IH]; intros st H; [exact H|].
  rewrite state_cons. apply IH, extracted_step, H.
Qed.

(** For EVERY history (no premise on reconfigurations, with or without the
    clearing): a non-empty ClientID that a request is processed with is the
    non-empty result of the hook of some request context of this server. *)
Theorem processed_id_extracted cl cf host0 strict0 ops i id :
  let st := state_of cl cf (srv_init host0 strict0) ops in
  snd (process st i) = BProcess id -> id <> [] ->
  exists p, In p (s_reqs st) /\ p_res p = CidOk id.
Proof.
  intros st Hp Hne.
  assert (He : values_extracted st).
  { apply extracted_run. intros k v []. }
  unfold process in Hp. destruct (nth_error (s_reqs st) i) as [p|]; [|discriminate].
  destruct (p_res p); [|discriminate]. destruct (q_early (p_in p)); [discriminate|].
  unfold cache_get in Hp. destruct (cache_find (p_rid p) (s_cache st)) as [v|] eqn:F; cbn in Hp.
  - injection Hp as ->. apply find_in in F. destruct (He _ _ F) as (p' & Hin & Hv).
    exists p'. split; [exact Hin|]. destruct (p_res p') as [id'|e]; cbn in Hv; [congruence|].
    subst id. congruence.
  - injection Hp as <-. congruence.
Qed.

(** * Witnesses *)

Definition b_alice : bytes := [97;108;105;99;101].
Definition b_host : bytes := [100;110;115;46;116;101;115;116].            (* dns.test *)
Definition b_alice_host : bytes := b_alice ++ [46] ++ b_host.
Definition q_dot_alice : req_in :=
  {| q_proto := DoT; q_sni := Some b_alice_host; q_http := None; q_early := false |}.
Definition q_udp : req_in := {| q_proto := UDP; q_sni := None; q_http := None; q_early := false |}.
Definition q_dot_early : req_in :=
  {| q_proto := DoT; q_sni := Some b_alice_host; q_http := None; q_early := true |}.

(** Without the clearing in Prepare (the tree before the fix) the first plain
    request after a reconfiguration is processed as the first DoT client before
    it: the property fails. *)
Theorem stale_id_without_clear_refuted :
  exists A q mid,
    plain (q_proto q) /\ no_reconf mid /\
    last_obs false server_cache_conf (srv_init b_host false) (history A q mid) = BProcess b_alice.
Proof.
  exists [OArrive q_dot_alice; OProcess 0%nat; OReconf b_host false], q_udp, [].
  split; [left; reflexivity|]. split; [intros h s []|]. vm_compute. reflexivity.
Qed.

(** Deleting the entry when it is read instead of clearing would not do: a
    request that returns early never reads.  (In the model of the unfixed
    tree; a read-and-delete variant behaves the same on this history.) *)
Lemma stale_id_unread_entry :
  last_obs false server_cache_conf (srv_init b_host false)
    [OArrive q_dot_early; OProcess 0%nat; OReconf b_host false; OArrive q_udp; OProcess 1%nat]
  = BProcess b_alice.
Proof. vm_compute. reflexivity. Qed.

(** The premises are satisfiable and the conclusion is not vacuous. *)
Example handover_example :
  last_obs true server_cache_conf (srv_init b_host false)
    (history [OArrive q_udp; OProcess 0%nat; OReconf b_host true] q_dot_alice [OArrive q_udp; OProcess 2%nat])
  = BProcess b_alice /\
  last_obs true server_cache_conf (srv_init b_host false)
    (history [OArrive q_dot_alice; OProcess 0%nat; OReconf b_host true] q_udp [])
  = BProcess [].
Proof. vm_compute. split; reflexivity. Qed.

(** [no_reconf mid] cannot be dropped: a context of the OLD proxy that is
    still in flight when Prepare runs is processed under a RequestID that the
    new proxy hands out again.  (Shutdown of the old proxy does not wait for
    its handlers; the window is one request long.) *)
Lemma inflight_across_reconf_witness :
  last_obs true server_cache_conf (srv_init b_host false)
    [OArrive q_udp; OReconf b_host false; OArrive q_dot_alice; OProcess 0%nat]
  = BProcess b_alice.
Proof. vm_compute. reflexivity. Qed.

(** C06, round 4: an exact-name entry shadows wildcard entries whatever its
    kind, stated on the ANSWER of processRewrites / CheckHost (not on the
    intermediate list of findRewrites) and with a declarative reading of
    "an entry that speaks for the requested type".

    Which entries speak for a query of type [qt] (AGHTechDoc.md, section
    Rewrites, and the comment of matchesQType, "if the types match or the
    entry is set to allow only the other type, include them"):
      - a canonical-name entry, for every type;
      - for an A / AAAA query: an address entry of the requested family, the
        "A" / "AAAA" exception of the requested family ("pass A request to
        upstream"), and the exception of the OTHER family ("pass A only":
        the example of the document answers AAAA with the empty answer).
    An address VALUE of the other family does not speak for the type (the
    comment of findRewrites: "return the most specific for the question
    type").

    The seeded change C06-H made matchesQType forget the exception of the
    other family: `*.host4.example -> 1.2.3.4`, `sub.host4.example -> AAAA`
    then answers 1.2.3.4 for sub.host4.example A.  [speaks_for] below does
    not mention [match_qtype]; [speaks_for_spec] is the one place where the
    model's matchesQType is tied to it. *)
From Coq Require Import ZArith NArith List Bool Permutation Sorted Lia String.
From AGH Require Import Base.Run Model.Rewrites Proofs.Rewrites.
Import ListNotations.
Local Open Scope N_scope.

Definition speaks_for (e : entry) (qt : N) : Prop :=
  is_cname e = true \/
  (is_addr_q qt = true /\ (rtype_code (e_type e) = qt \/ e_ip e = None)).

Lemma speaks_for_spec e qt : speaks_for e qt <-> match_qtype e qt = true.
Proof.
  unfold speaks_for, match_qtype, no_ip. destruct (is_cname e); [intuition|].
  destruct (is_addr_q qt); cbn [negb].
  - rewrite orb_true_iff, N.eqb_eq. destruct (e_ip e); intuition (try discriminate).
  - intuition discriminate.
Qed.

(** [i] is the address of an entry for [final] of the requested family, and
    that entry is the most specific among ALL entries for [final] that speak
    for the type: no canonical-name entry covers [final]; when one of them
    is an exact entry the source is an exact entry; when the source is a
    wildcard no speaking entry has a longer pattern. *)
Definition from_most_specific (tbl : list entry) (final : bytes) (qt : N) (i : ip) : Prop :=
  exists e, In e tbl /\ matches_host e final = true /\ e_ip e = Some i /\
    rtype_code (e_type e) = qt /\ (qt = qA \/ qt = qAAAA) /\
    forall x, In x tbl -> matches_host x final = true -> speaks_for x qt ->
      is_cname x = false /\
      (is_wildcard (e_dom x) = false -> is_wildcard (e_dom e) = false) /\
      (is_wildcard (e_dom e) = true -> (length (e_dom x) <= length (e_dom e))%nat).

Section Shadow.
  Variable sort : list entry -> list entry.
  Hypothesis sort_perm : forall l, Permutation (sort l) l.
  Hypothesis sort_sorted : forall l, sorted_by_compare (sort l).

  Lemma addr_type_not_cname e qt :
    rtype_code (e_type e) = qt -> is_addr_q qt = true -> is_cname e = false.
  Proof.
    unfold is_cname. destruct (e_type e); auto. cbn. intros <-. discriminate.
  Qed.

  (** The addresses [set_result] takes from what findRewrites returned, when
      the first returned entry is no canonical name. *)
  Lemma done_specific tbl host qt rws m canon i :
    find_rewrites sort tbl host qt = (rws, m) ->
    (forall r rest, rws = r :: rest -> is_cname r = false) ->
    In i (r_ips (set_result {| r_reason := Rewritten; r_canon := canon; r_ips := [] |} rws qt)) ->
    from_most_specific tbl host qt i.
  Proof.
    intros F Hd H. apply set_result_ips in H. cbn in H.
    destruct H as [[]|(e & He & Hi & Ht & Hq)].
    assert (Qe : qualifies tbl host qt e).
    { apply (find_rewrites_In sort sort_perm). rewrite F. exact He. }
    destruct Qe as (E1 & E2 & _).
    pose proof (addr_type_not_cname _ _ Ht Hq) as Ce.
    assert (NoC : forall x, In x tbl -> matches_host x host = true -> is_cname x = false).
    { intros x X1 X2. destruct (is_cname x) eqn:Cx; auto. exfalso.
      destruct (cname_over_address sort sort_perm sort_sorted tbl host qt) as (r & rest & E & C).
      { exists x. auto. }
      rewrite F in E. cbn in E. rewrite (Hd _ _ E) in C. discriminate. }
    exists e. split; [exact E1|]. split; [exact E2|]. split; [exact Hi|]. split; [exact Ht|].
    split; [apply is_addr_q_spec; exact Hq|].
    intros x X1 X2 Sx. pose proof (NoC x X1 X2) as Cx.
    assert (Qx : qualifies tbl host qt x) by (unfold qualifies; rewrite <- speaks_for_spec; auto).
    split; [exact Cx|]. split.
    - (* an exact speaking entry: the source is exact *)
      intros Wx. destruct (is_wildcard (e_dom e)) eqn:We; auto.
      assert (K : is_cname x = is_cname e) by congruence.
      rewrite (exact_shadows_wildcard sort sort_perm sort_sorted _ _ _ _ _ _ _ F He We Qx K) in Wx.
      discriminate.
    - (* the source is a wildcard: nothing longer speaks *)
      intros We. assert (K : is_cname x = is_cname e) by congruence.
      exact (most_specific_wildcard sort sort_perm sort_sorted _ _ _ _ _ _ _ F He We Qx K).
  Qed.

  (** A result list that starts with a canonical-name wildcard entry is that
      entry alone, and gives no address. *)
  Lemma wild_cname_no_ips tbl host qt rw rws m canon i :
    find_rewrites sort tbl host qt = (rw :: rws, m) ->
    is_cname rw = true -> is_wildcard (e_dom rw) = true ->
    ~ In i (r_ips (set_result {| r_reason := Rewritten; r_canon := canon; r_ips := [] |}
                              (rw :: rws) qt)).
  Proof.
    intros F C W H. apply set_result_ips in H. cbn [r_ips] in H.
    destruct H as [[]|(e & He & _ & Ht & Hq)].
    destruct (wildcard_result sort sort_perm sort_sorted _ _ _ _ _ _ F (or_introl eq_refl) W) as [E _].
    rewrite E in He. destruct He as [<-|[]].
    rewrite (addr_type_not_cname _ _ Ht Hq) in C. discriminate.
  Qed.

  Lemma find_nonempty_matched tbl host qt r rest m :
    find_rewrites sort tbl host qt = (r :: rest, m) -> m = true.
  Proof.
    intros F. change m with (snd (r :: rest, m)). rewrite <- F.
    apply (find_rewrites_matched sort). exists r.
    assert (Q : qualifies tbl host qt r) by (apply (find_rewrites_In sort sort_perm); rewrite F; cbn; auto).
    destruct Q as (? & ? & _). auto.
  Qed.

  Lemma chase_specific fuel : forall tbl qt orig host visited canon rws matched r i,
    find_rewrites sort tbl host qt = (rws, matched) ->
    canon = host \/ (canon = [] /\ host = orig) ->
    chase sort fuel tbl qt orig host visited canon rws matched = Some r ->
    In i (r_ips r) ->
    exists final, resolved_name orig r final /\ from_most_specific tbl final qt i.
  Proof.
    unfold resolved_name.
    induction fuel as [|fuel IH]; intros tbl qt orig host visited canon rws matched r i F Hc;
      cbn [chase]; [discriminate|].
    destruct rws as [|rw rws].
    { intros [= <-]. cbn. intros []. }
    rewrite (find_nonempty_matched _ _ _ _ _ _ F) in *. cbn [andb].
    destruct (is_cname rw) eqn:C.
    2:{ intros E Hi.
        assert (E' : r = set_result {| r_reason := Rewritten; r_canon := canon; r_ips := [] |}
                                    (rw :: rws) qt) by congruence.
        subst r. clear E. exists host. rewrite set_result_canon. cbn [r_canon]. split.
        - destruct Hc as [->|[-> ->]]; auto.
        - eapply done_specific; eauto. intros r0 rest [= <- _]. exact C. }
    destruct (_ || _); [intros [= <-] []|].
    destruct (eqb_bytes host (e_ans rw) && is_wildcard (e_dom rw)) eqn:WL.
    { apply andb_true_iff in WL as [_ W]. intros E Hi. exfalso.
      assert (E' : r = set_result {| r_reason := Rewritten; r_canon := host; r_ips := [] |}
                                  (rw :: rws) qt) by congruence.
      subst r. clear E. eapply wild_cname_no_ips; eauto. }
    destruct (mem_bytes _ _); [intros [= <-] []|].
    destruct (find_rewrites sort tbl (e_ans rw) qt) as [rws' m'] eqn:F'.
    apply IH; auto.
  Qed.

  (** THE statement: every address in the answer of processRewrites comes
      from the most specific entry for the finally resolved name among the
      entries that speak for the requested type; in particular never from a
      wildcard entry when an exact entry for that name exists that is a
      canonical name, an address or exception of the requested family, or
      an "A" / "AAAA" exception of the other family. *)
  Theorem exact_entry_shadows_wildcards_all_kinds tbl host qt r i :
    process_rewrites sort tbl host qt = Some r -> In i (r_ips r) ->
    exists final, resolved_name host r final /\ from_most_specific tbl final qt i.
  Proof.
    unfold process_rewrites.
    destruct (find_rewrites sort tbl host qt) as [rws m] eqn:F.
    destruct (negb m); [intros [= <-] []|].
    apply chase_specific; auto.
  Qed.

  Corollary check_host_exact_entry_shadows_wildcards en tbl host qt r i :
    check_host sort en tbl host qt = Some r -> In i (r_ips r) ->
    exists final, resolved_name (to_lower host) r final /\ from_most_specific tbl final qt i.
  Proof.
    unfold check_host. destruct (is_nil host); [intros [= <-] []|].
    destruct (negb en); [intros [= <-] []|].
    destruct (process_rewrites sort tbl (to_lower host) qt) as [r'|] eqn:P; [|discriminate].
    destruct (r_reason r'); intros [= <-]; [intros []|].
    eapply exact_entry_shadows_wildcards_all_kinds; eauto.
  Qed.

  (** The special case the seeded change C06-H breaks, spelled out: an exact
      "A" / "AAAA" exception entry (of EITHER family) for the finally
      resolved name, and the answer holds no address of a wildcard entry. *)
  Corollary exact_exception_shadows_wildcard_values tbl host qt r i x :
    process_rewrites sort tbl host qt = Some r -> In i (r_ips r) ->
    exists final, resolved_name host r final /\
      (In x tbl -> e_dom x = final -> is_wildcard final = false ->
       is_cname x = false -> e_ip x = None ->
       exists e, In e tbl /\ e_dom e = final /\ e_ip e = Some i /\ rtype_code (e_type e) = qt).
  Proof.
    intros P Hi.
    destruct (exact_entry_shadows_wildcards_all_kinds _ _ _ _ _ P Hi)
      as (final & R & e & E1 & E2 & E3 & E4 & E5 & All).
    exists final. split; auto. intros X1 X2 Wf Cx Ix.
    assert (Mx : matches_host x final = true) by (rewrite <- X2; apply matches_self).
    assert (Sx : speaks_for x qt).
    { right. split; [|auto]. unfold is_addr_q. destruct E5 as [->| ->]; reflexivity. }
    destruct (All x X1 Mx Sx) as (_ & Ex & _).
    exists e. repeat split; auto. apply matches_exact; auto. apply Ex. congruence.
  Qed.

  (** A name covered by the table for which no entry speaks for the
      requested type gets the empty rewritten answer ([matched_without_value]
      with the declarative premise). *)
  Theorem matched_nothing_speaks tbl host qt :
    (exists e, In e tbl /\ matches_host e host = true) ->
    (forall e, In e tbl -> matches_host e host = true -> ~ speaks_for e qt) ->
    process_rewrites sort tbl host qt = Some rewritten_empty.
  Proof.
    intros M N. apply matched_without_value; auto.
    intros e H1 H2. specialize (N e H1 H2). rewrite speaks_for_spec in N.
    destruct (match_qtype e qt); congruence.
  Qed.
End Shadow.

(** The premises are satisfiable, and the C06-H table by computation. *)
Module ShadowExamples.
  Import DocExamples.
  Local Open Scope string_scope.

  (** `*.host4.example -> 1.2.3.4`, `sub.host4.example -> AAAA`. *)
  Definition tblH := [ent "*.host4.example" "1.2.3.4" (v4 16909060); ent "sub.host4.example" "AAAA" None].

  Example seeded_H_a : ask tblH "sub.host4.example" qA = answer "" [].
  Proof. vm_compute. reflexivity. Qed.
  Example seeded_H_aaaa : ask tblH "sub.host4.example" qAAAA = upstream.
  Proof. vm_compute. reflexivity. Qed.
  Example seeded_H_other : ask tblH "my.host4.example" qA = answer "" [ip1234].
  Proof. vm_compute. reflexivity. Qed.
  (** through a canonical name *)
  Example seeded_H_cname :
    ask (ent "alias.example" "sub.host4.example" None :: tblH) "alias.example" qA
    = answer "sub.host4.example" [].
  Proof. vm_compute. reflexivity. Qed.
  (** the symmetric table *)
  Example seeded_H_sym :
    ask [ent "*.host6.example" "1234::5678" (v6 24196103360772296748952112894165669496);
         ent "sub.host6.example" "A" None] "sub.host6.example" qAAAA = answer "" [].
  Proof. vm_compute. reflexivity. Qed.
  (** an address VALUE of the other family does not speak for the type: the
      wildcard's value is used (observed, "most specific for the question
      type"). *)
  Example other_family_value_does_not_shadow :
    ask [ent "*.host4.example" "1.2.3.4" (v4 16909060); ent "sub.host4.example" "::1" (v6 1)]
        "sub.host4.example" qA = answer "" [ip1234].
  Proof. vm_compute. reflexivity. Qed.

  (** [from_most_specific] is satisfiable with an exact exception beside. *)
  Example from_most_specific_satisfiable :
    from_most_specific
      [ent "*.a.test" "1.1.1.1" (v4 16843009); ent "b.a.test" "1.2.3.4" (v4 16909060);
       ent "b.a.test" "AAAA" None] (bs "b.a.test") qA ip1234.
  Proof.
    eexists (ent "b.a.test" "1.2.3.4" (v4 16909060)).
    split; [cbn; auto|]. split; [reflexivity|]. split; [reflexivity|]. split; [reflexivity|].
    split; [left; reflexivity|].
    intros x [<-|[<-|[<-|[]]]] M S; (split; [reflexivity|]); split;
      try (intros; reflexivity); try (intros; discriminate); cbn; intros; lia.
  Qed.
End ShadowExamples.

(** * A canonical name that the table covers without a value (fix 2e58a5d)

    Found in round 4: "a name matched by the table but without a value for
    the requested type gets an empty successful answer, not the upstream's"
    held for the queried name but not for a name reached through a
    canonical-name entry: filterDNSRequest saw (CanonName, no addresses) and
    could not tell "outside the table" from "in the table without a value
    of this type", so it resolved the canonical name upstream.  Repaired in
    /repo by 2e58a5d (Result.CanonNameRewritten); the model follows
    ([covered_flag], [via_upstream]).  The pre-fix response assembly is kept
    below as [respond_pre] with its refutation: it is what a revert does. *)
Section CoveredCanon.
  Variable sort : list entry -> list entry.
  Hypothesis sort_perm : forall l, Permutation (sort l) l.

  (** The canonical name is covered by the table, by no canonical-name
      entry, and the chase found no address for it: the client gets the
      CNAME alone, NOERROR, and the upstream is not asked. *)
  Theorem cname_to_covered_name (upstream : bytes -> N -> N * list rr) en tbl qname qt r :
    check_host sort en tbl qname qt = Some r ->
    r_reason r = Rewritten -> r_canon r <> [] -> r_ips r = [] ->
    (exists e, In e tbl /\ matches_host e (r_canon r) = true) ->
    (forall e, In e tbl -> matches_host e (r_canon r) = true -> is_cname e = false) ->
    respond sort upstream en tbl qname qt =
      Some {| rp_qname := qname; rp_rcode := 0;
              rp_answer := [RR_CNAME qname (r_canon r)]; rp_upstream := [] |}.
  Proof.
    intros C R N I M NoC. apply respond_cname_covered with (r := r); auto.
    eapply covered_flag_true; eauto.
  Qed.

  (** The same with an upstream that may fail, and with the cache on (the
      cache is neither read nor written). *)
  Theorem cname_to_covered_name_e (upstream : bytes -> N -> option (N * list rr)) en tbl qname qt r :
    check_host sort en tbl qname qt = Some r ->
    r_reason r = Rewritten -> r_canon r <> [] -> r_ips r = [] ->
    (exists e, In e tbl /\ matches_host e (r_canon r) = true) ->
    (forall e, In e tbl -> matches_host e (r_canon r) = true -> is_cname e = false) ->
    respond_e sort upstream en tbl qname qt =
      Some (false, {| rp_qname := qname; rp_rcode := 0;
                      rp_answer := [RR_CNAME qname (r_canon r)]; rp_upstream := [] |}).
  Proof.
    intros C R N I M NoC. unfold respond_e, via_upstream, local_response.
    rewrite C, R, I, (covered_flag_true sort sort_perm _ _ _ _ _ C R N M NoC).
    destruct (r_canon r); [congruence|]. cbn.
    destruct (qt =? qA); [reflexivity|]. destruct (qt =? qAAAA); reflexivity.
  Qed.

  (** A canonical name OUTSIDE the table is resolved upstream, as before. *)
  Theorem cname_outside_table_via_upstream (upstream : bytes -> N -> N * list rr) en tbl qname qt r :
    check_host sort en tbl qname qt = Some r ->
    r_reason r = Rewritten -> r_canon r <> [] -> r_ips r = [] ->
    (forall e, In e tbl -> matches_host e (r_canon r) = false) ->
    respond sort upstream en tbl qname qt =
      Some {| rp_qname := qname; rp_rcode := fst (upstream (r_canon r) qt);
              rp_answer := RR_CNAME qname (r_canon r) :: snd (upstream (r_canon r) qt);
              rp_upstream := [(r_canon r, qt)] |}.
  Proof.
    intros C R N I Out. apply respond_cname_via_upstream; auto.
    eapply covered_flag_outside; eauto.
  Qed.
End CoveredCanon.

Module CoveredTarget.
  Import DocExamples.
  Local Open Scope string_scope.

  Definition up6 (name : bytes) (qt : N) : N * list rr :=
    if N.eqb qt qAAAA then (0%N, [RR_AAAA name 9%N]) else (0%N, [RR_A name 151587081%N]).

  (** AGHTechDoc "Example: CNAME+A records", AAAA: "CNAME = host.com". *)
  Example covered_target_asked_directly :
    respond isort up6 true t4 (bs "host.com") qAAAA =
      Some {| rp_qname := bs "host.com"; rp_rcode := 0%N; rp_answer := []; rp_upstream := [] |}.
  Proof. vm_compute. reflexivity. Qed.

  Example covered_target_through_cname :
    respond isort up6 true t4 (bs "sub.host.com") qAAAA =
      Some {| rp_qname := bs "sub.host.com"; rp_rcode := 0%N;
              rp_answer := [RR_CNAME (bs "sub.host.com") (bs "host.com")];
              rp_upstream := [] |}.
  Proof. vm_compute. reflexivity. Qed.

  (** "pass AAAA only" reached through a canonical name (the C06-H table). *)
  Example pass_aaaa_only_through_cname :
    respond isort up6 true (ent "alias.example" "sub.host4.example" None :: ShadowExamples.tblH)
            (bs "alias.example") qA =
      Some {| rp_qname := bs "alias.example"; rp_rcode := 0%N;
              rp_answer := [RR_CNAME (bs "alias.example") (bs "sub.host4.example")];
              rp_upstream := [] |}.
  Proof. vm_compute. reflexivity. Qed.

  (** The premises of [cname_to_covered_name] hold there. *)
  Example covered_premises :
    exists r, check_host isort true t4 (bs "sub.host.com") qAAAA = Some r /\
      r_reason r = Rewritten /\ r_canon r <> [] /\ r_ips r = [] /\
      (exists e, In e t4 /\ matches_host e (r_canon r) = true) /\
      (forall e, In e t4 -> matches_host e (r_canon r) = true -> is_cname e = false).
  Proof.
    eexists. split; [vm_compute; reflexivity|]. cbn [r_reason r_canon r_ips].
    repeat split; try discriminate.
    - exists (ent "host.com" "1.2.3.4" (v4 16909060)). split; [cbn; auto | vm_compute; reflexivity].
    - intros e [<-|[<-|[]]]; vm_compute; congruence.
  Qed.

  (** The "*.example.com -> sub.example.com" case (#4016) stays as the code
      has it: the canonical name is covered by that very canonical-name
      entry, the flag is not set, the name is resolved upstream. *)
  Example issue_4016_still_upstream :
    respond isort up6 true [ent "*.issue4016.com" "sub.issue4016.com" None] (bs "www.issue4016.com") qA =
      Some {| rp_qname := bs "www.issue4016.com"; rp_rcode := 0%N;
              rp_answer := [RR_CNAME (bs "www.issue4016.com") (bs "sub.issue4016.com");
                            RR_A (bs "sub.issue4016.com") 151587081%N];
              rp_upstream := [(bs "sub.issue4016.com", qA)] |}.
  Proof. vm_compute. reflexivity. Qed.

  (** A cycle: the chase stops at a name that a canonical-name entry covers;
      not "covered without a value", resolved upstream as before. *)
  Example cycle_still_upstream :
    respond isort up6 true [ent "a.test" "x.test" None; ent "x.test" "y.x.test" None; ent "y.x.test" "x.test" None]
            (bs "a.test") qA =
      Some {| rp_qname := bs "a.test"; rp_rcode := 0%N;
              rp_answer := [RR_CNAME (bs "a.test") (bs "y.x.test"); RR_A (bs "y.x.test") 151587081%N];
              rp_upstream := [(bs "y.x.test", qA)] |}.
  Proof. vm_compute. reflexivity. Qed.

  (** ** The response assembly before 2e58a5d (what a revert restores) *)
  Definition respond_pre (upstream : bytes -> N -> N * list rr) (enabled : bool) (tbl : list entry)
      (qname : bytes) (qt : N) : option response :=
    match check_host isort enabled tbl qname qt with
    | None => None
    | Some r =>
        match r_reason r with
        | NotFound =>
            let '(rc, ans) := upstream qname qt in
            Some {| rp_qname := qname; rp_rcode := rc; rp_answer := ans; rp_upstream := [(qname, qt)] |}
        | Rewritten =>
            if negb (is_nil (r_canon r)) && is_nil (r_ips r) then
              let '(rc, ans) := upstream (r_canon r) qt in
              Some {| rp_qname := qname; rp_rcode := rc;
                      rp_answer := RR_CNAME qname (r_canon r) :: ans;
                      rp_upstream := [(r_canon r, qt)] |}
            else Some (local_response r qname qt)
        end
    end.

  (** The statement the repaired code satisfies ([cname_to_covered_name]),
      read for [respond_pre], and its refutation by the document's own
      example with an upstream that has an AAAA record for host.com. *)
  Definition covered_target_statement_pre : Prop :=
    forall (upstream : bytes -> N -> N * list rr) tbl qname qt r,
      check_host isort true tbl qname qt = Some r ->
      r_reason r = Rewritten -> r_canon r <> [] -> r_ips r = [] ->
      (exists e, In e tbl /\ matches_host e (r_canon r) = true) ->
      (forall e, In e tbl -> matches_host e (r_canon r) = true -> is_cname e = false) ->
      respond_pre upstream true tbl qname qt =
        Some {| rp_qname := qname; rp_rcode := 0%N;
                rp_answer := [RR_CNAME qname (r_canon r)]; rp_upstream := [] |}.

  Example pre_fix_through_cname :
    respond_pre up6 true t4 (bs "sub.host.com") qAAAA =
      Some {| rp_qname := bs "sub.host.com"; rp_rcode := 0%N;
              rp_answer := [RR_CNAME (bs "sub.host.com") (bs "host.com"); RR_AAAA (bs "host.com") 9%N];
              rp_upstream := [(bs "host.com", qAAAA)] |}.
  Proof. vm_compute. reflexivity. Qed.

  Theorem covered_target_pre_refuted : ~ covered_target_statement_pre.
  Proof.
    intros H. destruct covered_premises as (r & C & R & N & I & M & NoC).
    specialize (H up6 t4 (bs "sub.host.com") qAAAA r C R N I M NoC).
    rewrite pre_fix_through_cname in H. discriminate H.
  Qed.
End CoveredTarget.

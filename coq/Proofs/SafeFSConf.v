(** C17 (round 5): the patterns in force are exactly the configured ones.

    Model/SafeFSConf.v mirrors the way from the configuration file to the
    filter (yaml decoding of [filtering.safe_fs_patterns] over the default
    object, validateConfig, setupDNSFilteringConf, filtering.New) and back
    (config.write).  Here: what the file lists ([configured], the declarative
    reading of the YAML value) is what the filter enforces, nothing more and
    nothing less; in particular nothing when the key is absent, null or an
    empty list.  Composed with the list theorems of Proofs/SafeFSClient.v this
    gives the property's second clause from the file's point of view.  A loader
    that fills in the installation default is refuted. *)
From Coq Require Import List NArith Bool Lia.
From AGH Require Import Base.Run Base.Bytes Base.PathClean Base.Glob Model.SafeFS Model.SafeFSConf
  Proofs.GlobCase Proofs.SafeFS Proofs.SafeFSClient.
Import ListNotations.
Local Open Scope N_scope.

(** * What a configuration file configures *)

(** The patterns a file lists: the scalars of the sequence under the key, as
    texts.  No key, a null and an empty sequence list none; so does a value
    that is no sequence (such a file does not start anyway). *)
Definition item_texts (i : yitem) : list bytes :=
  match i with YIStr s => [s] | YIPlain t => [t] | YINull | YISeq | YIMap => [] end.

Definition configured (y : yshape) : list bytes :=
  match y with
  | YSeq items => flat_map item_texts items
  | YAbsent | YNull | YScalar | YMap | YDup => []
  end.

(** The default configuration object lists no pattern (the harness reads the
    field of the real object on every run and the evaluator uses what it
    read). *)
Definition default_lists_none (dflt : gslice) : Prop := elems dflt = [].

(** * Decoding, New *)

Lemma decode_items_texts items :
  fst (decode_items items) = flat_map item_texts items.
Proof.
  induction items as [|i r IH]; [reflexivity|].
  cbn [decode_items flat_map]. destruct (decode_items r) as [l bad]. cbn [fst] in IH.
  destruct i; cbn [fst item_texts app]; congruence.
Qed.

Lemma decode_configured dflt y g :
  default_lists_none dflt -> decode dflt y = Some g -> elems g = configured y.
Proof.
  unfold default_lists_none. intros Hd. destruct y; cbn [decode configured]; try discriminate.
  - intros [= <-]. exact Hd.
  - intros [= <-]. reflexivity.
  - pose proof (decode_items_texts items) as H. destruct (decode_items items) as [l bad].
    destruct bad; [discriminate|]. intros [= <-]. exact H.
Qed.

(** New neither adds, drops, reorders nor rewrites a pattern. *)
Lemma new_patterns_id l p : new_patterns l = Some p -> p = l.
Proof.
  revert p. induction l as [|x r IH]; cbn [new_patterns]; intros p.
  - intros [= <-]. reflexivity.
  - destruct (glob_match x probe_name) as [b| |]; try discriminate;
      (destruct (new_patterns r) as [q|]; [|discriminate]; intros [= <-]; f_equal; apply IH; reflexivity).
Qed.

Lemma new_patterns_none l :
  new_patterns l = None -> exists p, In p l /\ glob_match p probe_name = GBad.
Proof.
  induction l as [|x r IH]; cbn [new_patterns]; [discriminate|].
  destruct (glob_match x probe_name) as [b| |] eqn:E.
  - destruct (new_patterns r); [discriminate|]. intros _.
    destruct (IH eq_refl) as (p & Hp & Hb). exists p. split; [right; exact Hp|exact Hb].
  - intros _. exists x. split; [left; reflexivity|exact E].
  - destruct (new_patterns r); [discriminate|]. intros _.
    destruct (IH eq_refl) as (p & Hp & Hb). exists p. split; [right; exact Hp|exact Hb].
Qed.

Lemma new_patterns_some l :
  (forall p, In p l -> glob_match p probe_name <> GBad) -> new_patterns l = Some l.
Proof.
  induction l as [|x r IH]; intros H; [reflexivity|]. cbn [new_patterns].
  rewrite (IH (fun p Hp => H p (or_intror Hp))).
  destruct (glob_match x probe_name) eqn:E; try reflexivity.
  exfalso. exact (H x (or_introl eq_refl) E).
Qed.

(** * The patterns in force are exactly the configured ones *)

Theorem in_force_exactly_configured wd dflt y g pats :
  default_lists_none dflt -> load wd dflt y = StStarted g pats ->
  pats = configured y /\ elems g = configured y.
Proof.
  unfold load, setup_filtering_conf, validate_config. intros Hd.
  destruct (decode dflt y) as [g0|] eqn:E; [|discriminate].
  destruct (new_patterns (elems g0)) as [p|] eqn:En; [|discriminate].
  intros [= <- <-]. apply new_patterns_id in En. subst p.
  split; apply (decode_configured _ _ _ Hd E).
Qed.

(** Every start-up ends in one of three ways, and only the file decides which:
    rejected by the decoder (the value is no sequence of scalars), rejected by
    New (a listed pattern is malformed where the matcher looks), or running
    with the listed patterns. *)
Theorem load_cases wd dflt y :
  default_lists_none dflt ->
  (load wd dflt y = StRejectedParse /\ decode dflt y = None) \/
  (exists g, load wd dflt y = StRejectedNew g /\ elems g = configured y /\
             exists p, In p (configured y) /\ glob_match p probe_name = GBad) \/
  (exists g, load wd dflt y = StStarted g (configured y) /\ elems g = configured y).
Proof.
  unfold load, setup_filtering_conf, validate_config. intros Hd.
  destruct (decode dflt y) as [g0|] eqn:E; [|left; split; reflexivity].
  pose proof (decode_configured _ _ _ Hd E) as Hc. right.
  destruct (new_patterns (elems g0)) as [p|] eqn:En.
  - right. exists g0. apply new_patterns_id in En. subst p. rewrite Hc. split; reflexivity || exact Hc.
  - left. exists g0. split; [reflexivity|]. split; [exact Hc|]. rewrite <- Hc. apply new_patterns_none, En.
Qed.

Theorem no_configured_patterns_none_in_force wd dflt y g pats :
  default_lists_none dflt -> configured y = [] ->
  load wd dflt y = StStarted g pats -> pats = [].
Proof.
  intros Hd Hc H. destruct (in_force_exactly_configured _ _ _ _ _ Hd H) as [-> _]. exact Hc.
Qed.

(** Key absent, null, empty list: the server starts, without patterns.  A nil
    and an empty slice are the same to New (it ranges over the slice). *)
Theorem absent_null_empty_start_without_patterns wd dflt :
  default_lists_none dflt ->
  load wd dflt YAbsent = StStarted dflt [] /\
  load wd dflt YNull = StStarted GNil [] /\
  load wd dflt (YSeq []) = StStarted (GSlice []) [] /\
  load wd dflt (YSeq [YINull]) = StStarted (GSlice []) [].
Proof.
  unfold default_lists_none, load, setup_filtering_conf, validate_config. intros Hd.
  cbn [decode decode_items elems]. rewrite Hd. repeat split; reflexivity.
Qed.

(** Which files are opened depends on the slice only through its elements. *)
Theorem nil_and_empty_alike wd dflt y1 y2 g1 g2 p1 p2 :
  load wd dflt y1 = StStarted g1 p1 -> load wd dflt y2 = StStarted g2 p2 ->
  elems g1 = elems g2 -> p1 = p2.
Proof.
  unfold load, setup_filtering_conf, validate_config.
  destruct (decode dflt y1) as [a|]; [|discriminate]. destruct (decode dflt y2) as [b|]; [|discriminate].
  destruct (new_patterns (elems a)) as [pa|] eqn:Ea; [|discriminate].
  destruct (new_patterns (elems b)) as [pb|] eqn:Eb; [|discriminate].
  intros [= <- <-] [= <- <-] H. apply new_patterns_id in Ea, Eb. congruence.
Qed.

(** * Composition with the list theorems *)

(** A world whose patterns are those start-up puts in force for the file. *)
Definition world_of_file (wd : bytes) (dflt : gslice) (y : yshape) (w : world) : Prop :=
  exists g, load wd dflt y = StStarted g (w_pats w).

Theorem conf_loaded_file_is_safe wd dflt y w ops st f p :
  default_lists_none dflt -> world_of_file wd dflt y w ->
  client_no_local w -> markers_nonzero w -> files_distinct w -> state_ok w st ->
  In f (entries (fst (run w st ops))) -> lookup p (w_files w) = Some (f_loaded f) ->
  safe (configured y) p.
Proof.
  intros Hd (g & Hl) Hc Hz Hdist Hok Hf Hp.
  destruct (in_force_exactly_configured _ _ _ _ _ Hd Hl) as [<- _].
  exact (loaded_file_is_safe w ops st f p Hc Hz Hdist Hok Hf Hp).
Qed.

(** The second clause of the property, from the file: a configuration file
    that lists no pattern (no key, a null, an empty list) -> no content of a
    local file is ever loaded, along every history. *)
Theorem conf_no_patterns_no_local_content wd dflt y w ops st f :
  default_lists_none dflt -> configured y = [] -> world_of_file wd dflt y w ->
  client_no_local w -> markers_nonzero w ->
  (forall g, In g (entries st) -> ~ local_content w (f_loaded g)) ->
  In f (entries (fst (run w st ops))) -> ~ local_content w (f_loaded f).
Proof.
  intros Hd Hc (g & Hl) Hcl Hz H0 Hf.
  apply (no_patterns_no_local_content w ops st f Hcl Hz); auto.
  exact (no_configured_patterns_none_in_force _ _ _ _ _ Hd Hc Hl).
Qed.

(** No file is opened at all, at no entry point. *)
Theorem conf_no_patterns_no_file wd dflt y w st ops s evs loc p :
  default_lists_none dflt -> configured y = [] -> world_of_file wd dflt y w ->
  In (s, evs) (snd (run w st ops)) -> ~ In (loc, OpenFile p) evs.
Proof.
  intros Hd Hc (g & Hl) Hin He.
  pose proof (no_configured_patterns_none_in_force _ _ _ _ _ Hd Hc Hl) as Hp.
  destruct (open_implies_safe w st ops s evs loc p Hin He) as (_ & _ & (g0 & Hg & _) & _).
  rewrite Hp in Hg. exact Hg.
Qed.

(** * Patterns that can admit no path

    The loader accepts the empty string and relative patterns; they are in
    force, and admit nothing: a pattern without classes and escapes that is
    empty or begins with a literal byte other than the separator matches no
    absolute path.  (A relative pattern beginning with a star can: the star may
    stand for nothing, [*/etc/passwd] matches [/etc/passwd]; that is a
    configured pattern matching.) *)
Definition admits_no_abs (g : bytes) : Prop :=
  plain_pattern g = true /\
  (g = [] \/ exists c r, g = c :: r /\ is_lit c = true /\ c <> sep).

Lemma admits_no_abs_match g p : admits_no_abs g -> glob_match g p = GOk true -> is_abs p = false.
Proof.
  intros (Hpl & Hs) Hm. apply (glob_match_gm _ _ Hpl) in Hm.
  destruct Hs as [->|(c & r & -> & Hl & Hc)].
  - inversion Hm. reflexivity.
  - apply is_lit_inv in Hl as (H1 & H2 & _ & _).
    inversion Hm; subst.
    + cbn [is_abs]. apply N.eqb_neq. exact Hc.
    + unfold c_quest in *. rewrite N.eqb_refl in H2. discriminate.
    + unfold c_star in *. rewrite N.eqb_refl in H1. discriminate.
Qed.

Theorem inert_patterns_open_nothing pats loc p :
  (forall g, In g pats -> admits_no_abs g) -> reader pats loc <> OpenFile p.
Proof.
  intros H Hr. apply reader_open in Hr as (Ha & -> & (g & Hg & Hm)).
  pose proof (admits_no_abs_match _ _ (H g Hg) Hm) as Hn.
  rewrite clean_is_abs in Hn. congruence.
Qed.

(** * Through a save and a restart *)

Lemma decode_items_strs l : decode_items (map YIStr l) = (l, false).
Proof. induction l as [|x r IH]; [reflexivity|]. cbn [map decode_items]. rewrite IH. reflexivity. Qed.

Lemma configured_write g : configured (write_shape g) = elems g.
Proof.
  unfold write_shape, configured. induction (elems g) as [|x r IH]; [reflexivity|].
  cbn [map flat_map item_texts app]. f_equal. exact IH.
Qed.

(** What config.write puts into the file is what was in force; reading that
    file (over any default object) puts the same patterns in force again. *)
Theorem roundtrip_patterns_unchanged wd dflt dflt' y g pats :
  load wd dflt y = StStarted g pats ->
  load wd dflt' (write_shape g) = StStarted (GSlice (elems g)) pats /\
  configured (write_shape g) = pats.
Proof.
  unfold load, setup_filtering_conf, validate_config.
  destruct (decode dflt y) as [g0|]; [|discriminate].
  destruct (new_patterns (elems g0)) as [p|] eqn:En; [|discriminate].
  intros [= <- <-]. pose proof (new_patterns_id _ _ En) as ->.
  unfold write_shape at 1. cbn [decode]. rewrite decode_items_strs. cbn [elems]. rewrite En.
  split; [reflexivity|apply configured_write].
Qed.

(** The file the server writes is a fixed point. *)
Theorem written_file_stable g : write_shape (GSlice (elems g)) = write_shape g.
Proof. reflexivity. Qed.

Lemma entries_restart st : entries (restart_state st) = map restart_flt (entries st).
Proof. unfold entries, restart_state. cbn. rewrite map_app. reflexivity. Qed.

Lemma restart_state_ok w st : state_ok w st -> state_ok w (restart_state st).
Proof.
  intros H f Hf. rewrite entries_restart in Hf. apply in_map_iff in Hf as (f0 & <- & Hf0).
  exact (H f0 Hf0).
Qed.

(** A history, a save, a restart from the written file, another history: the
    lists still hold no content of a local file that no configured pattern
    matches.  ([w2] is the world after the restart: same files, same client,
    the patterns put in force by the written file.) *)
Theorem safe_across_restart wd dflt dflt' y g w w2 ops1 ops2 st :
  load wd dflt y = StStarted g (w_pats w) ->
  world_of_file wd dflt' (write_shape g) w2 ->
  w_files w2 = w_files w -> w_http w2 = w_http w ->
  client_no_local w -> markers_nonzero w -> state_ok w st ->
  state_ok w2 (fst (run w2 (restart_state (fst (run w st ops1))) ops2)).
Proof.
  intros Hl (g2 & Hl2) Hf Hh Hc Hz Hok.
  destruct (roundtrip_patterns_unchanged wd dflt dflt' y g (w_pats w) Hl) as [Hr _].
  rewrite Hr in Hl2. injection Hl2 as _ Hp.
  assert (Hco : forall m, content_ok w m -> content_ok w2 m).
  { intros m H (p & Hpm). rewrite Hf in Hpm. destruct (H (ex_intro _ p Hpm)) as (q & Hq & Hs).
    exists q. rewrite Hf, <- Hp. auto. }
  apply loaded_local_content_safe.
  - intros u m Hu (p & Hpm). rewrite Hh in Hu. rewrite Hf in Hpm. exact (Hc u m Hu (ex_intro _ p Hpm)).
  - intros p. rewrite Hf. apply Hz.
  - intros f Hin. apply Hco. revert f Hin. apply restart_state_ok.
    apply loaded_local_content_safe; assumption.
Qed.

(** * A loader that fills in a default is refuted (red-team change C17-I) *)

Definition ex_workdir : bytes := [47;119].                                   (* /w *)
Definition ex_userlist : bytes := ex_workdir ++ [47;117;115;101;114;102;105;108;116;101;114;115;47;108].
                                                                             (* /w/userfilters/l *)
Definition ex_world_filling : world :=
  {| w_pats := [ex_workdir ++ userfilters_glob]; w_files := [(ex_userlist, 5)]; w_dirs := [];
     w_http := []; w_urlok := [] |}.
Definition ex_state_filling : state :=
  {| s_block := [{| f_url := ex_userlist; f_enabled := true; f_loaded := 0; f_sum := 0 |}];
     s_allow := [] |}.

(** A file with [safe_fs_patterns:] (null), one enabled list under
    <workDir>/userfilters/ in the configuration, one refresh: the filling
    loader puts a pattern in force that the file does not list, and the local
    file is read. *)
Theorem default_filling_loader_refuted :
  exists wd y w st ops f,
    configured y = [] /\
    (exists g, load_filling wd GNil y = StStarted g (w_pats w)) /\
    client_no_local w /\ markers_nonzero w /\
    (forall g, In g (entries st) -> ~ local_content w (f_loaded g)) /\
    In f (entries (fst (run w st ops))) /\ local_content w (f_loaded f).
Proof.
  exists ex_workdir, YNull, ex_world_filling, ex_state_filling, [ORefresh false],
    {| f_url := ex_userlist; f_enabled := true; f_loaded := 5; f_sum := 5 |}.
  split; [reflexivity|].
  split; [eexists; vm_compute; reflexivity|].
  split; [intros u m H; discriminate|].
  split; [intros p; unfold ex_world_filling; cbn [w_files lookup]; destruct (eqb_bytes p ex_userlist); discriminate|].
  split.
  - intros g [<-|[]] (p & Hp). unfold ex_world_filling in Hp; cbn [w_files lookup f_loaded] in Hp. destruct (eqb_bytes p ex_userlist); discriminate.
  - split; [vm_compute; left; reflexivity|]. exists ex_userlist. reflexivity.
Qed.

(** The same file under the loader as it is: started, no patterns, nothing read. *)
Example default_filling_witness_under_real_loader :
  load ex_workdir GNil YNull = StStarted GNil [] /\
  map f_loaded (entries (fst (run {| w_pats := []; w_files := w_files ex_world_filling; w_dirs := [];
                                     w_http := []; w_urlok := [] |} ex_state_filling [ORefresh false]))) = [0].
Proof. split; vm_compute; reflexivity. Qed.

(** Why configurations written by the server never show the difference: an
    explicit list, empty or not, is left alone by the filling loader. *)
Theorem filling_differs_only_without_list wd dflt y items :
  y = YSeq items -> load_filling wd dflt y = load wd dflt y.
Proof.
  intros ->. unfold load_filling, load, decode. destruct (decode_items items) as [l bad].
  destruct bad; reflexivity.
Qed.

(** The premises of the theorems above are satisfiable by a non-trivial file:
    two patterns, a null element and a number among them; started with exactly
    the listed texts; the safe file is read, the other one is not; after a
    save and a restart the same. *)
Definition ex_file_shape : yshape :=
  YSeq [YIStr [47;115;47;42]; YINull; YIPlain [53]; YIStr []].               (* /s/*  ~  5  "" *)

Example ex_conf_premises :
  default_lists_none GNil /\
  configured ex_file_shape = [[47;115;47;42]; [53]; []] /\
  load ex_workdir GNil ex_file_shape = StStarted (GSlice [[47;115;47;42]; [53]; []]) [[47;115;47;42]; [53]; []] /\
  admits_no_abs [53] /\ admits_no_abs [] /\
  load ex_workdir GNil (YSeq [YIStr [47;115;47;91]]) = StRejectedNew (GSlice [[47;115;47;91]]) /\
  load ex_workdir GNil (YSeq [YISeq]) = StRejectedParse /\
  load ex_workdir GNil YScalar = StRejectedParse.
Proof.
  repeat split; try reflexivity.
  - right. exists 53, []. repeat split; discriminate.
  - left. reflexivity.
Qed.

(** The evaluator reads the state after a history off its trace. *)
Lemma last_cons_default {A} (l : list A) : forall a d d', last (a :: l) d = last (a :: l) d'.
Proof.
  induction l as [|b t IH]; intros a d d'; [reflexivity|].
  change (last (b :: t) d = last (b :: t) d'). apply IH.
Qed.

Lemma trace_last_run w ops : forall st, last (map snd (trace w st ops)) st = fst (run w st ops).
Proof.
  induction ops as [|o r IH]; intros st; [reflexivity|].
  cbn [trace run]. destruct (step w st o) as [[st1 s] evs].
  specialize (IH st1). destruct (run w st1 r) as [st2 outs]. cbn [fst] in *.
  cbn [map snd]. destruct (trace w st1 r) as [|x t] eqn:E; [exact IH|].
  rewrite <- IH. cbn [map].
  change (last (snd x :: map snd t) st = last (snd x :: map snd t) st1).
  apply last_cons_default.
Qed.

(** C05, round 4: the gate-lock theorem in its declarative form.

    [gate_lock_general]: for ANY table of acquisition sites in which every
    cycle of sites (each acquires a lock the next one holds) contains two sites
    with conflicting lock sets, no reachable state of any number of conforming
    threads is deadlocked.

    Proof.  In a deadlocked state every unfinished thread awaits a lock that
    another unfinished thread holds ([deadlock_waits]).  Following "is held by"
    from any unfinished thread, a path that never repeats a thread cannot be
    longer than the number of threads, so it closes: a cycle of DISTINCT
    threads, each holding what its predecessor awaits ([find_cycle]).  Their
    sites form a cycle of sites; by the premise two of them conflict; their
    lock sets are the ghost lock sets of two distinct threads of one state,
    which never conflict ([its_pair]). *)
From Coq Require Import List String Bool Arith Lia.
From AGH Require Import Base.Conc Model.Guards Proofs.Conc Proofs.ConcGate Proofs.LockTable Proofs.LockTablePairs Proofs.LockTableGate.
Import ListNotations.
Local Open Scope string_scope.
Local Open Scope list_scope.
Local Open Scope nat_scope.

(** * Threads (with ghost lock sets) can be compared *)

Lemma mode_eq_dec : forall a b : mode, {a = b} + {a <> b}.
Proof. decide equality. Qed.

Lemma event_eq_dec : forall a b : event, {a = b} + {a <> b}.
Proof. decide equality; try apply string_dec; apply mode_eq_dec. Qed.

Lemma thread_eq_dec : forall a b : thread, {a = b} + {a <> b}.
Proof. decide equality; [apply (list_eq_dec event_eq_dec)|apply Bool.bool_dec]. Qed.

Lemma ithread_eq_dec : forall a b : ithread, {a = b} + {a <> b}.
Proof.
  decide equality; [apply thread_eq_dec|].
  apply list_eq_dec. decide equality; [apply mode_eq_dec|apply string_dec].
Qed.

(** * Paths in the wait-for relation *)

(** [wpath l ys l']: the first thread of [ys] holds [l], every thread awaits a
    lock that the next one holds, the last one awaits [l']. *)
Inductive wpath : lock -> list ithread -> lock -> Prop :=
| wp_nil : forall l, wpath l [] l
| wp_cons : forall l y l1 m r ys l',
    holds (fst y) l = true -> rest (snd y) = Acq l1 m :: r ->
    wpath l1 ys l' -> wpath l (y :: ys) l'.

Lemma wpath_snoc : forall l ys l1 y l2 m r,
  wpath l ys l1 -> holds (fst y) l1 = true -> rest (snd y) = Acq l2 m :: r ->
  wpath l (ys ++ [y]) l2.
Proof.
  intros l ys l1 y l2 m r H. induction H as [l|l y0 la m0 r0 ys l' Hh Hr Hp IH]; intros Hy Hr'.
  - cbn. eapply wp_cons; [exact Hy|exact Hr'|apply wp_nil].
  - cbn. eapply wp_cons; [exact Hh|exact Hr|apply IH; assumption].
Qed.

(** the part of a path from one of its threads on, re-rooted at any lock that
    thread holds *)
Lemma wpath_suffix : forall ys1 l y ys2 l' l2,
  wpath l (ys1 ++ y :: ys2) l' -> holds (fst y) l2 = true -> wpath l2 (y :: ys2) l'.
Proof.
  induction ys1 as [|a ys1 IH]; intros l y ys2 l' l2 H Hy; cbn in H.
  - inversion H; subst. eapply wp_cons; eassumption.
  - inversion H; subst. eapply IH; eassumption.
Qed.

Lemma wpath_last : forall l ys l', wpath l ys l' -> ys <> [] ->
  exists y m r, In y ys /\ rest (snd y) = Acq l' m :: r.
Proof.
  intros l ys l' H. induction H as [l|l y l1 m r ys l' Hh Hr Hp IH]; intros Hne; [congruence|].
  destruct ys as [|y2 ys].
  - inversion Hp; subst. exists y, m, r. split; [left; reflexivity|exact Hr].
  - destruct IH as (y' & m' & r' & Hin & Hr'); [discriminate|].
    exists y', m', r'. split; [right; exact Hin|exact Hr'].
Qed.

Lemma NoDup_suffix {A} (a b : list A) : NoDup (a ++ b) -> NoDup b.
Proof. induction a as [|x a IH]; cbn; [auto|]. intros H. inversion H; subst. apply IH; assumption. Qed.

Lemma NoDup_snoc {A} (l : list A) x : NoDup l -> ~ In x l -> NoDup (l ++ [x]).
Proof.
  induction l as [|a l IH]; intros Hnd Hx; cbn.
  - constructor; [intros []|constructor].
  - inversion Hnd; subst. constructor.
    + intros H. apply in_app_iff in H as [H|[<-|[]]]; [contradiction|]. apply Hx. left. reflexivity.
    + apply IH; [assumption|]. intros H. apply Hx. right. exact H.
Qed.

(** * A cycle of distinct threads *)

Section Cycle.

Variable its : list ithread.
(** every unfinished thread awaits a lock that an unfinished thread holds *)
Hypothesis waits : forall it, In it its -> rest (snd it) <> [] ->
  exists l m r it', rest (snd it) = Acq l m :: r /\
    In it' its /\ rest (snd it') <> [] /\ holds (fst it') l = true.

Lemma find_cycle : forall n ys l l',
  List.length its - List.length ys <= n -> ys <> [] -> NoDup ys ->
  (forall y, In y ys -> In y its /\ rest (snd y) <> []) ->
  wpath l ys l' ->
  exists c lc, c <> [] /\ NoDup c /\ incl c its /\ wpath lc c lc.
Proof.
  induction n as [|n IH]; intros ys l l' Hlen Hne Hnd Hin Hp.
  all: destruct (wpath_last l ys l' Hp Hne) as (y & m & r & Hy & Hry).
  all: destruct (Hin y Hy) as [Hyi Hyu].
  all: destruct (waits y Hyi Hyu) as (l0 & m0 & r0 & y' & Hr0 & Hy'i & Hy'u & Hh).
  all: assert (El : l0 = l') by congruence; subst l0.
  all: destruct (in_dec ithread_eq_dec y' ys) as [Hmem|Hnew].
  - (* the path closes *)
    apply in_split in Hmem as (ys1 & ys2 & ->).
    exists (y' :: ys2), l'. split; [discriminate|]. split.
    { apply NoDup_suffix in Hnd. exact Hnd. }
    split.
    { intros x Hx. apply (Hin x). apply in_app_iff. right. exact Hx. }
    eapply wpath_suffix; eassumption.
  - (* no room for a longer path without repetition *)
    exfalso.
    assert (Hnd' : NoDup (y' :: ys)) by (constructor; assumption).
    assert (Hincl : incl (y' :: ys) its).
    { intros x [<-|Hx]; [exact Hy'i|apply (Hin x Hx)]. }
    pose proof (NoDup_incl_length Hnd' Hincl) as L. cbn [List.length] in L. lia.
  - apply in_split in Hmem as (ys1 & ys2 & ->).
    exists (y' :: ys2), l'. split; [discriminate|]. split.
    { apply NoDup_suffix in Hnd. exact Hnd. }
    split.
    { intros x Hx. apply (Hin x). apply in_app_iff. right. exact Hx. }
    eapply wpath_suffix; eassumption.
  - (* extend the path *)
    destruct (waits y' Hy'i Hy'u) as (l2 & m2 & r2 & _ & Hr2 & _).
    apply (IH (ys ++ [y']) l l2).
    + rewrite app_length. cbn [List.length]. lia.
    + destruct ys; discriminate.
    + apply NoDup_snoc; assumption.
    + intros x Hx. apply in_app_iff in Hx as [Hx|[<-|[]]]; [apply (Hin x Hx)|split; assumption].
    + eapply wpath_snoc; eassumption.
Qed.

Lemma cycle_of_distinct_threads :
  (exists it, In it its /\ rest (snd it) <> []) ->
  exists c lc, c <> [] /\ NoDup c /\ incl c its /\ wpath lc c lc.
Proof.
  intros (x0 & Hx0 & Hu0).
  destruct (waits x0 Hx0 Hu0) as (l & m & r & x1 & Hr & Hx1 & Hu1 & Hh).
  destruct (waits x1 Hx1 Hu1) as (l1 & m1 & r1 & _ & Hr1 & _).
  apply (find_cycle (List.length its) [x1] l l1).
  - lia.
  - discriminate.
  - constructor; [intros []|constructor].
  - intros y [<-|[]]. split; assumption.
  - eapply wp_cons; [exact Hh|exact Hr1|apply wp_nil].
Qed.

End Cycle.

(** * From a cycle of threads to a cycle of sites *)

Lemma same_held_holds : forall (s : acq_site) (h : held) l,
  (forall x, In x h -> In x (s_held s)) -> holds h l = true -> holds (s_held s) l = true.
Proof.
  intros s h l Hsub Hh. apply holds_In in Hh as [m Hm]. apply Hsub in Hm.
  unfold holds. apply existsb_exists. exists (l, m). split; [exact Hm|]. cbn. apply String.eqb_refl.
Qed.

Lemma wpath_sites : forall (sites : list acq_site) l ys l',
  wpath l ys l' ->
  (forall y l1 m r, In y ys -> rest (snd y) = Acq l1 m :: r ->
     exists d, In d sites /\ site_matches d (fst y) l1 m = true) ->
  exists ds, site_chain l ds = Some l' /\ incl ds sites /\
    Forall2 (fun y d => (forall x, In x (s_held d) -> In x (fst y)) /\
                        (forall x, In x (fst y) -> In x (s_held d))) ys ds.
Proof.
  intros sites l ys l' H. induction H as [l|l y l1 m r ys l' Hh Hr Hp IH]; intros Hsite.
  - exists []. split; [reflexivity|]. split; [intros x []|constructor].
  - destruct (Hsite y l1 m r (or_introl eq_refl) Hr) as (d & Hd & Hm).
    apply site_matches_spec in Hm as (El & _ & H1 & H2).
    destruct IH as (ds & Hc & Hincl & HF).
    { intros y0 l0 m0 r0 Hy0. apply Hsite. right. exact Hy0. }
    exists (d :: ds). split.
    + cbn [site_chain]. rewrite (same_held_holds d (fst y) l H2 Hh). rewrite El. exact Hc.
    + split; [intros x [<-|Hx]; [exact Hd|apply Hincl; exact Hx]|].
      constructor; [split; assumption|exact HF].
Qed.

(** two sites of the list conflict: the same for the threads at them *)
Lemma has_conflict_threads : forall ys ds,
  Forall2 (fun (y : ithread) (d : acq_site) =>
             (forall x, In x (s_held d) -> In x (fst y)) /\
             (forall x, In x (fst y) -> In x (s_held d))) ys ds ->
  has_conflict ds = true ->
  exists pre a mid b post, ys = pre ++ a :: mid ++ b :: post /\ conflicts (fst a) (fst b) = true.
Proof.
  intros ys ds HF. induction HF as [|y d ys ds [Hd1 Hd2] HF IH]; intros Hc; [discriminate|].
  cbn [has_conflict] in Hc. apply orb_true_iff in Hc as [Hc|Hc].
  - apply existsb_exists in Hc as (d2 & Hin2 & Hcf).
    (* the thread at d2 *)
    assert (G : exists mid b post, ys = mid ++ b :: post /\
                  (forall x, In x (s_held d2) -> In x (fst b))).
    { clear IH Hd1 Hd2 Hcf. induction HF as [|y0 d0 ys ds [H1 H2] HF IH]; [destruct Hin2|].
      destruct Hin2 as [<-|Hin2].
      - exists [], y0, ys. split; [reflexivity|exact H1].
      - destruct (IH Hin2) as (mid & b & post & -> & Hb).
        exists (y0 :: mid), b, post. split; [reflexivity|exact Hb]. }
    destruct G as (mid & b & post & -> & Hb).
    exists [], y, mid, b, post. split; [reflexivity|].
    eapply conflicts_mono; [exact Hd1|exact Hb|exact Hcf].
  - destruct (IH Hc) as (pre & a & mid & b & post & -> & Hcf).
    exists (y :: pre), a, mid, b, post. split; [reflexivity|exact Hcf].
Qed.

(** * The theorem *)

Theorem gate_lock_general : gate_lock_general_statement.
Proof.
  intros sites Hcrit progs HF s Hr Hdl.
  pose (P := fun h p => conforms_sites sites h p = true).
  assert (Hinv : inv P s).
  { apply inv_reachable with (progs := progs); try assumption; unfold P; simpl.
    - intros h l m r H; apply andb_true_iff in H; apply H.
    - intros h l m r H; apply andb_true_iff in H; exact H.
    - intros h f r H; exact H.
    - intros h f r H; exact H. }
  destruct Hinv as (its & Hm & HFi & HL).
  assert (Pnil : forall h, P h [] -> h = []).
  { intros [|x h] H; [reflexivity|]. unfold P in H. cbn in H. discriminate. }
  destruct (deadlock_waits P Pnil s its Hm HFi HL Hdl) as [Hex Hwaits].
  destruct (cycle_of_distinct_threads its Hwaits Hex) as (c & lc & Hne & Hnd & Hincl & Hp).
  (* the sites of the threads of the cycle *)
  assert (Hsite : forall y l1 m r, In y c -> rest (snd y) = Acq l1 m :: r ->
            exists d, In d sites /\ site_matches d (fst y) l1 m = true).
  { intros y l1 m r Hy Hrest. rewrite Forall_forall in HFi.
    destruct (HFi y (Hincl y Hy)) as [HP _]. unfold P in HP. rewrite Hrest in HP.
    cbn [conforms_sites] in HP. apply andb_true_iff in HP as [HP _].
    apply existsb_exists in HP as (d & Hd & Hmt). exists d. split; assumption. }
  destruct (wpath_sites sites lc c lc Hp Hsite) as (ds & Hchain & Hdsincl & HF2).
  assert (Hcyc : site_cycle ds).
  { split; [|exists lc; exact Hchain].
    intros ->. inversion HF2; subst. apply Hne. reflexivity. }
  pose proof (Hcrit ds Hdsincl Hcyc) as Hconf.
  destruct (has_conflict_threads c ds HF2 Hconf) as (pre & a & mid & b & post & Ec & Hcf).
  (* two distinct threads of one state never conflict *)
  assert (Ha : In a its) by (apply Hincl; rewrite Ec; apply in_app_iff; right; left; reflexivity).
  assert (Hb : In b its).
  { apply Hincl. rewrite Ec. apply in_app_iff. right. right. apply in_app_iff. right. left. reflexivity. }
  destruct (its_pair s its HL a b Ha Hb) as [Eab|Hnc]; [|congruence].
  subst b. rewrite Ec in Hnd. apply NoDup_remove_2 in Hnd. apply Hnd.
  apply in_app_iff. right. apply in_app_iff. right. left. reflexivity.
Qed.

(** The computable check implies the declarative premise
    ([gated_cycles_conflict]), so [gated_no_deadlock] is also a corollary. *)
Corollary gated_no_deadlock_via_general : forall rank0 rkd sites,
  gated_with rank0 rkd sites = true ->
  forall progs, Forall (fun p => conforms_sites sites [] p = true) progs ->
  forall s, reachable (init progs) s -> ~ deadlocked s.
Proof.
  intros rank0 rkd sites Hg. apply gate_lock_general.
  exact (gated_cycles_conflict rank0 rkd sites Hg).
Qed.

(** C07, round 7: the request-parameter space of the handler and the scan
    window.  [parse_with scan] (Model/QLog.v) is [parseSearchParams] with the
    rule that lifts the 50000-line cap as a parameter; the code as it is lifts
    it for every request that carries a valid offset, zero included. *)
From Coq Require Import ZArith NArith List Bool Lia.
From AGH Require Import Base.Run Model.QLogFile Model.QLog Proofs.QLogFile Proofs.QLog.
Import ListNotations.
Local Open Scope Z_scope.

Lemma parse_is_parse_with q : parse q = parse_with (scan_now default_scan) q.
Proof. reflexivity. Qed.

Lemma handle_is_handle_with me bf s q : handle me bf s q = handle_with (scan_now default_scan) me bf s q.
Proof. reflexivity. Qed.

Lemma search_is_post me bf s p :
  search me bf s p =
    if p_limit p =? 0 then Ok [] 0 else
    let (fe, fo) := search_files me bf s p in search_post p (search_memory s p) fe fo.
Proof.
  unfold search, search_post. destruct (p_limit p =? 0); [reflexivity|].
  destruct (search_files me bf s p); reflexivity.
Qed.

(** Without a cursor the file part is [collect] over the lines of the files,
    newest first, whatever the scan window (the reader yields every line). *)
Lemma search_files_collect me bf s p :
  0 < me <= bf -> Forall (len_ok me) (on_disk s) -> p_older p = None ->
  search_files me bf s p =
    collect (cfg s) p (p_offset p + p_limit p) (map Some (rev (on_disk s))) 0 0 0.
Proof.
  intros Hme Hok Hold. unfold search_files. rewrite Hold. cbn [seek_record].
  rewrite <- concat_files_of in Hok |- *. apply Forall_concat in Hok.
  rewrite <- total_len_qf.
  rewrite reader_reverse_complete; auto.
  2:{ apply Forall_forall. intros f Hf. apply in_map_iff in Hf as (es & <- & Hes).
      apply lines_ok_qf. rewrite Forall_forall in Hok. auto. }
  unfold all_rev. rewrite map_length.
  rewrite (lookup_all_rev_upto me) by auto. rewrite firstn_all. reflexivity.
Qed.

(** What a parsed request is, field by field. *)
Lemma parse_with_fields scan q p : parse_with scan q = Some p ->
  p_scan p = scan (q_offset q) /\
  p_offset p = match q_offset q with Some o => o | None => 0 end /\
  p_limit p = match q_limit q with Some l => l | None => 500 end /\
  0 <= p_offset p <= max_int32 /\ 0 <= p_limit p <= max_int32 /\
  (q_older q = None -> p_older p = None).
Proof.
  unfold parse_with.
  destruct (q_older q) as [[t|]|] eqn:Eo; try discriminate;
  (destruct (q_limit q) as [l|] eqn:El; [destruct (bad_int l) eqn:Bl; [discriminate|]|]);
  (destruct (q_offset q) as [o|] eqn:Ef; [destruct (bad_int o) eqn:Bo; [discriminate|]|]);
  (destruct (match q_status q with Some st => (st <? 0) || (st >? 9) | None => false end); [discriminate|]);
  intro H; inversion H; subst p; cbn [p_scan p_offset p_limit p_older];
  unfold bad_int, max_int32 in *;
  repeat match goal with
  | B : _ || _ = false |- _ => apply orb_false_iff in B as [?%Z.ltb_ge ?%Z.gtb_ltb%Z.ltb_ge]
  end; repeat split; try lia; try congruence; auto.
Qed.

(** *** C07_offset_paging_explicit_zero: a request that carries an offset,
    ZERO INCLUDED, and no cursor returns exactly [limit] entries behind the
    first [offset] ones of the visible log under its criteria, whatever the
    cap is and however many non-matching lines lie in front of the matches. *)
Theorem offset_paging_explicit me bf cap s q p off :
  0 < me <= bf -> wf me s -> parse_with (scan_now cap) q = Some p ->
  q_offset q = Some off -> q_older q = None -> 0 < p_limit p ->
  exists o, handle_with (scan_now cap) me bf s q =
              Ok (firstnZ (p_limit p) (skipnZ off (vis s p))) o.
Proof.
  intros Hme Hwf Hp Hoff Hold Hlim. unfold handle_with. rewrite Hp.
  destruct (parse_with_fields _ _ _ Hp) as (Hscan & Hpo & _ & Hor & _ & Hpold).
  rewrite Hoff in Hscan, Hpo. cbn [scan_now] in Hscan.
  destruct (search_spec me bf s p Hme Hwf (Hpold Hold) Hlim ltac:(lia) ltac:(left; lia)) as (o & H & _).
  exists o. rewrite H. f_equal. rewrite page_offset by lia. rewrite Hpo. reflexivity.
Qed.

(** ... so the pages asked with offset 0, limit, 2 limit, ... (the first one
    with an explicit 0) tile the visible log: a page followed by what lies
    behind it is what was left before it. *)
Corollary offset_pages_tile s p off lim : 0 <= off -> 0 <= lim ->
  firstnZ lim (skipnZ off (vis s p)) ++ skipnZ (off + lim) (vis s p) = skipnZ off (vis s p).
Proof. apply pages_tile. Qed.

(** The cap kept for an explicit offset 0 ([scan_pos]; seeded C07-N with the
    cap as a parameter): cap 2, on disk one matching record behind three
    newer ones that do not match.  offset=0 returns nothing, offset=1 starts
    behind the first match: the match is never returned. *)
Definition wit_rare : bytes := [114; 97; 114; 101]%N.
Definition wit_noise : bytes := [110; 111; 105; 115; 101]%N.
Definition wit_e (i : N) (t : Z) (h : bytes) : entry := Build_entry i t 100 h [49%N] [] 0 false.
Definition wit_state : state :=
  run (Build_config true true 1 [] [])
      [OAdd (wit_e 1 10 wit_rare); OAdd (wit_e 2 20 wit_noise); OAdd (wit_e 3 30 wit_noise); OAdd (wit_e 4 40 wit_noise)].
Definition wit_req (off : Z) : request :=
  {| q_older := None; q_limit := Some 1; q_offset := Some off; q_term := Some (wit_rare, [], false); q_status := None |}.

Theorem offset_paging_cap_kept_refuted :
  exists cap s p, wf max_entry_size s /\ buf s = [] /\
    parse_with (scan_pos cap) (wit_req 0) = Some p /\
    map e_id (vis s p) = [1%N] /\
    handle_with (scan_pos cap) max_entry_size buffer_size s (wit_req 0) = Ok [] 30 /\
    handle_with (scan_pos cap) max_entry_size buffer_size s (wit_req 1) = Ok [] 0 /\
    handle_with (scan_now cap) max_entry_size buffer_size s (wit_req 0) = Ok [wit_e 1 10 wit_rare] 10.
Proof.
  exists 2, wit_state. eexists. split.
  { apply (wf_run max_entry_size _ _ 0). cbn. unfold len_ok, max_entry_size. cbn. lia. }
  split; [vm_compute; reflexivity|]. split; [reflexivity|].
  split; [vm_compute; reflexivity|]. repeat split; vm_compute; reflexivity.
Qed.

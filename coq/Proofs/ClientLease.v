(** The lowest precedence level against the real DHCP server (C04, round 9):
    what dhcpd's MACByIP answers comes from a lease the server HOLDS, a
    rejected static-lease call creates no lease, hence no attribution. *)
From Coq Require Import ZArith List Bool Lia.
From AGH Require Import Base.Run Model.ClientIndex Model.ClientLease Proofs.ClientIndex.
From AGH Require Model.Dhcp4.
Import ListNotations.
Module D := AGH.Model.Dhcp4.
Local Open Scope N_scope.

Lemma find_index_in {A} (p : A -> bool) l : forall i a,
  D.find_index p l = Some (i, a) -> In a l /\ p a = true.
Proof.
  induction l as [|x l IH]; cbn; intros i a H; [discriminate|].
  destruct (p x) eqn:E.
  - inversion H; subst. auto.
  - destruct (D.find_index p l) as [[j y]|]; [|discriminate].
    inversion H; subst. destruct (IH j a eq_refl). auto.
Qed.

(** FindMACbyIP answers with the hardware address of a lease of that address
    that is in the server's table, static or not yet expired. *)
Lemma answer_from_held_lease now s ip m :
  D.mac_by_ip now s ip = m -> m <> 0 ->
  exists l, In l (D.leases s) /\ D.l_ip l = ip /\ D.l_mac l = m /\
            (D.l_static l = true \/ (now < D.l_exp l)%Z).
Proof.
  unfold D.mac_by_ip, D.lease_by_ip. intros H Hm.
  destruct (D.iidx (D.ix s) ip); [|congruence].
  destruct (D.find_index (fun l => D.l_ip l =? ip) (D.leases s)) as [[i l]|] eqn:F; [|congruence].
  destruct (find_index_in _ _ _ _ F) as [Hin Hp]. apply N.eqb_eq in Hp.
  destruct (D.l_static l || (now <? D.l_exp l)%Z) eqn:E; [|congruence].
  exists l. repeat split; auto.
  apply orb_true_iff in E. destruct E as [E|E]; [left; exact E|right; apply Z.ltb_lt; exact E].
Qed.

(** Same lease up to its host name (rmDynamicLease may clear a name). *)
Definition same_lease (l l' : D.lease) : Prop :=
  D.l_ip l = D.l_ip l' /\ D.l_mac l = D.l_mac l' /\ D.l_static l = D.l_static l' /\ D.l_exp l = D.l_exp l'.

Lemma same_lease_refl l : same_lease l l.
Proof. repeat split. Qed.

Definition no_new_lease (s s' : D.state) : Prop :=
  forall l', In l' (D.leases s') -> exists l, In l (D.leases s) /\ same_lease l l'.

Lemma rm_dyn_sub c mac ip host : forall ls x ls' x' e,
  D.rm_dyn c mac ip host ls x = (ls', x', e) ->
  forall l', In l' ls' -> exists l, In l ls /\ same_lease l l'.
Proof.
  induction ls as [|l r IH]; cbn [D.rm_dyn]; intros x ls' x' e H l' Hin.
  - inversion H; subst. destruct Hin.
  - destruct ((D.l_mac l =? mac) || (D.l_ip l =? ip)).
    + destruct (D.l_static l).
      * inversion H; subst. exists l'. split; [exact Hin|apply same_lease_refl].
      * destruct (IH _ _ _ _ H l' Hin) as (l0 & H0 & S0). exists l0. split; [right; exact H0|exact S0].
    + destruct (negb (D.l_static l) && negb (D.is_nil (D.l_host l)) && eqb_bytes (D.l_host l) host).
      * destruct (D.rm_dyn c mac ip host r _) as [[r' x''] e'] eqn:R. inversion H; subst.
        destruct Hin as [<-|Hin].
        -- exists l. split; [left; reflexivity|]. destruct l; repeat split.
        -- destruct (IH _ _ _ _ R l' Hin) as (l0 & H0 & S0). exists l0. split; [right; exact H0|exact S0].
      * destruct (D.rm_dyn c mac ip host r x) as [[r' x''] e'] eqn:R. inversion H; subst.
        destruct Hin as [<-|Hin].
        -- exists l. split; [left; reflexivity|apply same_lease_refl].
        -- destruct (IH _ _ _ _ R l' Hin) as (l0 & H0 & S0). exists l0. split; [right; exact H0|exact S0].
Qed.

Lemma no_new_lease_refl s : no_new_lease s s.
Proof. intros l' H. exists l'. split; [exact H|apply same_lease_refl]. Qed.

(** AddStaticLease rejected (the gateway's address, a bad hardware address or
    host name, a static lease with the same hardware address or address in
    the way, an address outside the subnet, a host name already taken): the
    table afterwards holds no lease that it did not hold before. *)
Lemma rejected_static_add_no_new_lease c mac ip host s s' :
  D.static_add c mac ip host s = (s', D.RApi false) -> no_new_lease s s'.
Proof.
  unfold D.static_add. intros H.
  destruct (ip =? D.c_gw c); [inversion H; apply no_new_lease_refl|].
  destruct (negb (D.valid_mac mac)); [inversion H; apply no_new_lease_refl|].
  destruct (if D.is_nil host then Some [] else
            match D.normalize host with
            | Some n => if D.valid_hostname n then Some n else None
            | None => None end) as [h|]; [|inversion H; apply no_new_lease_refl].
  unfold D.rm_dynamic_lease in H.
  destruct (D.rm_dyn c mac ip h (D.leases s) (D.ix s)) as [[ls x] e] eqn:R.
  assert (Hs : forall l', In l' ls -> exists l, In l (D.leases s) /\ same_lease l l')
    by (apply (rm_dyn_sub _ _ _ _ _ _ _ _ _ R)).
  destruct e.
  - inversion H; subst. exact Hs.
  - destruct (D.add_lease c _ _) as [s2|]; inversion H; subst. exact Hs.
Qed.

Lemma remove_nth_in {A} i : forall (l : list A) x, In x (D.remove_nth i l) -> In x l.
Proof.
  unfold D.remove_nth. induction i as [|i IH]; intros [|a l] x; cbn; auto.
  intros [->|H]; auto.
Qed.

Lemma rm_lease_no_new c ip mac host s s1 : D.rm_lease c ip mac host s = Some s1 -> no_new_lease s s1.
Proof.
  unfold D.rm_lease. destruct (D.is_nil (D.leases s)); [intros H; inversion H; apply no_new_lease_refl|].
  destruct (D.find_index _ _) as [[i l]|]; [|discriminate].
  destruct ((D.l_mac l =? mac) && eqb_bytes (D.l_host l) host); [|discriminate].
  intros H; inversion H; subst. unfold D.rm_lease_by_index.
  destruct (nth_error (D.leases s) i); [|apply no_new_lease_refl].
  intros l' Hin. cbn in Hin. apply remove_nth_in in Hin. exists l'. split; [exact Hin|apply same_lease_refl].
Qed.

(** RemoveStaticLease / UpdateStaticLease rejected: likewise. *)
Lemma rejected_static_remove_no_new_lease c mac ip host s s' :
  D.static_remove c mac ip host s = (s', D.RApi false) -> no_new_lease s s'.
Proof.
  unfold D.static_remove. destruct (negb (D.valid_mac mac)); [intros H; inversion H; apply no_new_lease_refl|].
  destruct (D.rm_lease c ip mac host s); intros H; inversion H. apply no_new_lease_refl.
Qed.

Lemma rejected_static_update_no_new_lease c mac ip host s s' :
  D.static_update c mac ip host s = (s', D.RApi false) -> no_new_lease s s'.
Proof.
  unfold D.static_update. destruct (D.find_lease mac (D.leases s)) as [[i f]|]; [|intros H; inversion H; apply no_new_lease_refl].
  destruct (D.validate_static c mac ip host s) as [h|]; [|intros H; inversion H; apply no_new_lease_refl].
  destruct (D.rm_lease c (D.l_ip f) (D.l_mac f) (D.l_host f) s) as [s1|] eqn:R;
    [|intros H; inversion H; apply no_new_lease_refl].
  destruct (D.add_lease c _ s1); intros H; inversion H; subst.
  eapply rm_lease_no_new; exact R.
Qed.

(** The three of them as operations of the server. *)
Definition static_op (o : D.op) : Prop :=
  match o with D.OStaticAdd _ _ _ | D.OStaticUpdate _ _ _ | D.OStaticRemove _ _ _ => True | _ => False end.

Lemma rejected_static_op_no_new_lease c s now busy o s' :
  static_op o -> D.step c s now busy o = (s', D.RApi false) -> no_new_lease s s'.
Proof.
  destruct o; cbn [static_op D.step]; try contradiction; intros _.
  - apply rejected_static_add_no_new_lease.
  - apply rejected_static_update_no_new_lease.
  - apply rejected_static_remove_no_new_lease.
Qed.

(** Hence: after a REJECTED static-lease call, whatever the storage's lease
    oracle answers for a request's address is the hardware address of a lease
    of that address the server held BEFORE the call (static or unexpired).
    In particular the rejected lease itself is never an answer. *)
Theorem rejected_lease_op_no_new_answer c s now busy o s' a mb :
  static_op o -> D.step c s now busy o = (s', D.RApi false) ->
  lease_oracle now s' a = Some mb ->
  exists l, In l (D.leases s) /\ ip_of_addr a = Some (D.l_ip l) /\ mac_bytes (D.l_mac l) = mb /\
            (D.l_static l = true \/ (now < D.l_exp l)%Z).
Proof.
  intros Ho Hs. unfold lease_oracle. destruct (ip_of_addr a) as [ip|]; [|discriminate].
  destruct (D.mac_by_ip now s' ip =? 0) eqn:E; [discriminate|]. apply N.eqb_neq in E.
  intros H. injection H as <-.
  destruct (answer_from_held_lease now s' ip _ eq_refl E) as (l' & Hin & Hip & Hmac & Hlive).
  destruct (rejected_static_op_no_new_lease _ _ _ _ _ _ Ho Hs l' Hin) as (l & Hl & Si & Sm & Ss & Se).
  exists l. split; [exact Hl|]. split; [rewrite Si, Hip; reflexivity|].
  split; [rewrite Sm, Hmac; reflexivity|]. rewrite Ss, Se. exact Hlive.
Qed.

(** With the DHCP server in any state, the storage attributes by the full
    precedence, the server's FindMACbyIP at the lowest level. *)
Theorem lease_attr_resolves ix now s id a :
  Inv ix -> resolves ix (lease_oracle now s) id a (lease_attr ix now s id a).
Proof. intros HI. unfold lease_attr. apply precedence. exact HI. Qed.

(** A level-4 attribution goes through a HELD lease of the request's address. *)
Theorem lease_attr_through_held_lease ix now s id a u :
  Inv ix -> no_cid ix id -> no_ip ix a -> no_cidr ix a ->
  lease_attr ix now s id a = Some u ->
  exists l, In l (D.leases s) /\ ip_of_addr a = Some (D.l_ip l) /\
            owner_of ix c_macs (mac_bytes (D.l_mac l)) u.
Proof.
  intros HI Nc Ni Nn H.
  pose proof (lease_attr_resolves ix now s id a HI) as R. rewrite H in R.
  inversion R as [u0 O|u0 N O|u0 p N NI O C M|u0 m N NI NC Dm O|]; subst.
  - exfalso. eapply Nc; eassumption.
  - exfalso. eapply Ni; eassumption.
  - rewrite (Nn _ _ O) in C. discriminate.
  - unfold lease_oracle in Dm. destruct (ip_of_addr a) as [ip|] eqn:Ea; [|discriminate].
    destruct (D.mac_by_ip now s ip =? 0) eqn:E; [discriminate|]. apply N.eqb_neq in E.
    injection Dm as <-.
    destruct (answer_from_held_lease now s ip _ eq_refl E) as (l & Hin & Hip & Hmac & _).
    exists l. split; [exact Hin|]. split; [rewrite Hip; reflexivity|]. rewrite Hmac. exact O.
Qed.

(** The scenario: (box, nas, .10) accepted, (box, kid's MAC, .11) rejected for
    the duplicate host name; the request from .11 is nobody's, the kid's once
    the address is really leased to it. *)
Definition ex_conf : D.conf := D.Conf 3232238180 3232238280 3232238080 3232238335 3232238081 0 3232238082.
Definition ex_kid_mac : N := 282394265336577.   (* 256^6 + bb:bb:bb:bb:bb:01 ... any 6 bytes *)
Definition ex_nas_mac : N := 282394265336578.
Definition ex_kid_client : client :=
  {| c_uid := 1; c_name := [107;105;100]; c_cids := []; c_ips := []; c_subnets := [];
     c_macs := [mac_bytes ex_kid_mac];
     c_own_settings := true; c_filtering := false; c_safesearch := false; c_safebrowsing := false;
     c_parental := true; c_own_blocked := false; c_blocked := None; c_ignore_qlog := false;
     c_ignore_stats := false; c_tags := []; c_upstreams := [] |}.
Definition ex_lease_ix : index :=
  run {| cfg_tags := []; cfg_addr_ok := fun _ => true |} [OAdd ex_kid_client] empty_index.
Definition ex_ip10 : N := 3232238090.
Definition ex_ip11 : N := 3232238091.
Definition ex_a11 : addr := ([192;168;10;11], []).

Example rejected_lease_scenario :
  let r1 := D.step ex_conf D.empty_state 0 [] (D.OStaticAdd ex_nas_mac ex_ip10 [98;111;120]) in
  let r2 := D.step ex_conf (fst r1) 0 [] (D.OStaticAdd ex_kid_mac ex_ip11 [98;111;120]) in
  let r3 := D.step ex_conf (fst r2) 0 [] (D.OStaticAdd ex_kid_mac ex_ip11 [116;97;98]) in
  snd r1 = D.RApi true /\ snd r2 = D.RApi false /\ snd r3 = D.RApi true /\
  lease_attr ex_lease_ix 0 (fst r2) [] ex_a11 = None /\
  lease_attr ex_lease_ix 0 (fst r3) [] ex_a11 = Some 1.
Proof. vm_compute. repeat split. Qed.

(** remove_url touches only the removed list's own file (Model/SaveLoop.v,
    round 8 (O)). *)
From Coq Require Import List NArith Bool Lia.
From AGH Require Import Base.FS Model.SaveLoop.
Import ListNotations.
Local Open Scope N_scope.

Lemma nth_error_split_at {A} (l : list A) k x :
  nth_error l k = Some x -> l = firstn k l ++ x :: skipn (S k) l.
Proof.
  revert k. induction l as [|y l IH]; intros [|k] H; cbn in *; try discriminate.
  - injection H as ->. reflexivity.
  - f_equal. apply IH, H.
Qed.

(** MAIN (O): for every array (ids pairwise distinct over it and the other
    array [others]) and every index: the file renamed away is the removed
    entry's, the entry is gone from the array, every other entry stays in
    order, and NO list that is still configured, in either array, has the id
    whose file was renamed. *)
Theorem remove_touches_only_its_own_file arr others k id :
  NoDup (arr ++ others) -> nth_error arr k = Some id ->
  let r := remove_list false arr k in
  snd r = Some id /\ fst r = remove_at arr k /\
  ~ In id (fst r ++ others) /\
  (forall x, In x arr -> x <> id -> In x (fst r)).
Proof.
  intros Hn Hk. cbn zeta. unfold remove_list. rewrite Hk. cbn [fst snd].
  split; [reflexivity|]. split; [reflexivity|].
  pose proof (nth_error_split_at arr k id Hk) as Hs. unfold remove_at.
  split.
  - rewrite Hs in Hn. rewrite <- app_assoc in Hn. cbn [app] in Hn.
    apply NoDup_remove_2 in Hn. rewrite <- app_assoc. exact Hn.
  - intros x Hx Hne. rewrite Hs in Hx. apply in_app_or in Hx. apply in_or_app.
    destruct Hx as [Hx|[Hx|Hx]]; [left; exact Hx|congruence|right; exact Hx].
Qed.

(** a list that is not there: nothing is renamed, nothing changes *)
Lemma remove_absent ad arr k : nth_error arr k = None -> remove_list ad arr k = (arr, None).
Proof. intros H. unfold remove_list. rewrite H. reflexivity. Qed.

Lemma nth_error_remove_at {A} (arr : list A) : forall k,
  nth_error (firstn k arr ++ skipn (S k) arr) k = nth_error arr (S k).
Proof.
  induction arr as [|y l IH]; intros k.
  - rewrite firstn_nil, skipn_nil. destruct k; reflexivity.
  - destruct k; cbn [firstn skipn app nth_error]; [reflexivity|apply IH].
Qed.

(** REFUTED variant (path computed after the deletion): whenever the removed
    list has a successor in its array, the file renamed away is the
    SUCCESSOR's, a list that is still configured; the removed list's own file
    is not touched. *)
Theorem pointer_after_delete_renames_successor arr k id nxt :
  NoDup arr -> nth_error arr k = Some id -> nth_error arr (S k) = Some nxt ->
  let r := remove_list true arr k in
  snd r = Some nxt /\ In nxt (fst r) /\ nxt <> id.
Proof.
  intros Hn Hk Hs. cbn zeta. unfold remove_list, remove_at. rewrite Hk. cbn [fst snd].
  rewrite nth_error_remove_at. split; [exact Hs|]. split.
  - apply in_or_app. right. apply nth_error_In with (n := 0%nat). cbn.
    rewrite <- Hs. clear. revert k. induction arr as [|y l IH]; intros k.
    + destruct k; reflexivity.
    + destruct k; cbn [skipn nth_error]; [destruct l; reflexivity|apply IH].
  - intros ->. assert (E : k = S k); [|lia].
    apply (proj1 (NoDup_nth_error arr) Hn k (S k)); [|congruence].
    apply nth_error_Some. congruence.
Qed.

(** The witness of the seeded change: three lists, the first is removed. *)
Example remove_witness :
  remove_list false [1; 2; 3] 0 = ([2; 3], Some 1) /\
  remove_list true [1; 2; 3] 0 = ([2; 3], Some 2) /\
  remove_list false [1; 2; 3] 2 = ([1; 2], Some 3) /\
  remove_list true [1; 2; 3] 2 = ([1; 2], None) /\
  remove_list false [1; 2; 3] 5 = ([1; 2; 3], None).
Proof. repeat split; reflexivity. Qed.

(** Proofs about the request identity of the DNS pipeline (C02 round 4):
    the settings used for response filtering are those of the client that
    OWNS the request by the registry's precedence (ClientID, else exact
    address, else longest containing subnet, else the MAC of the address'
    lease), including the fall-back from an unregistered ClientID to the
    address; and the client tags that reach urlfilter's $ctag merge walk are
    sorted after every history of Add / Update / RemoveByName, which makes
    the walk equal to set membership (and an unsorted list makes it miss). *)
From Coq Require Import List NArith ZArith Bool Sorted Lia.
From AGH Require Import Base.Run Base.NetAddr Base.RuleEngine Model.Pipeline Proofs.Pipeline.
From AGH Require Import Model.PipelineClients.
From AGH Require Model.ClientIndex Proofs.ClientIndex Model.Rewrites.
Import ListNotations.
Local Open Scope N_scope.

Module CI := AGH.Model.ClientIndex.
Module CIP := AGH.Proofs.ClientIndex.

(** * Order of tags: strings.Compare = cmp_bytes; slices.Sort keeps duplicates *)
Definition tag_le (a b : bytes) : Prop := CI.cmp_bytes a b <> Gt.
Definition tags_sorted (l : list bytes) : Prop := StronglySorted tag_le l.

Lemma cmp_gt_lt a b : CI.cmp_bytes a b = Gt -> CI.cmp_bytes b a = Lt.
Proof. intros H. rewrite (CIP.cmp_bytes_antisym a b), H. reflexivity. Qed.

Lemma cmp_lt_gt a b : CI.cmp_bytes a b = Lt -> CI.cmp_bytes b a = Gt.
Proof. intros H. rewrite (CIP.cmp_bytes_antisym a b), H. reflexivity. Qed.

Lemma tag_le_refl a : tag_le a a.
Proof. unfold tag_le. rewrite CIP.cmp_bytes_refl. discriminate. Qed.

Lemma tag_le_trans a b c : tag_le a b -> tag_le b c -> tag_le a c.
Proof.
  unfold tag_le. intros H1 H2 H3.
  destruct (CI.cmp_bytes a b) eqn:E1; [|clear H1|congruence].
  - apply CIP.cmp_bytes_eq in E1. subst. congruence.
  - destruct (CI.cmp_bytes b c) eqn:E2; [|clear H2|congruence].
    + apply CIP.cmp_bytes_eq in E2. subst. congruence.
    + rewrite (CIP.cmp_bytes_trans _ _ _ E1 E2) in H3. discriminate.
Qed.

Lemma tag_lt_le_trans a b c : CI.cmp_bytes a b = Lt -> tag_le b c -> CI.cmp_bytes a c = Lt.
Proof.
  intros E1 H2. unfold tag_le in H2.
  destruct (CI.cmp_bytes b c) eqn:E2; [| |congruence].
  - apply CIP.cmp_bytes_eq in E2. subst. exact E1.
  - exact (CIP.cmp_bytes_trans _ _ _ E1 E2).
Qed.

(** ** slices.Sort (insertion sort in the model) yields a sorted list with
    the same elements *)
Lemma ins_name_in n l x : In x (CI.ins_name n l) <-> x = n \/ In x l.
Proof.
  induction l as [|y l IH]; cbn; [intuition congruence|].
  destruct (CI.cmp_bytes n y); cbn; rewrite ?IH; intuition congruence.
Qed.

Lemma ins_name_sorted n l : tags_sorted l -> tags_sorted (CI.ins_name n l).
Proof.
  unfold tags_sorted. induction 1 as [|y l Hs IH Hall]; cbn.
  - constructor; constructor.
  - destruct (CI.cmp_bytes n y) eqn:E.
    + (* Eq: goes behind y *)
      constructor; [exact IH|]. apply Forall_forall. intros x Hx. apply ins_name_in in Hx as [->|Hx].
      * unfold tag_le. rewrite (CIP.cmp_bytes_antisym n y), E. discriminate.
      * rewrite Forall_forall in Hall. auto.
    + constructor; [constructor; assumption|].
      constructor.
      * unfold tag_le. rewrite E. discriminate.
      * apply Forall_forall. intros x Hx. rewrite Forall_forall in Hall.
        apply tag_le_trans with y; [unfold tag_le; rewrite E; discriminate|auto].
    + constructor; [exact IH|]. apply Forall_forall. intros x Hx. apply ins_name_in in Hx as [->|Hx].
      * unfold tag_le. rewrite (cmp_gt_lt _ _ E). discriminate.
      * rewrite Forall_forall in Hall. auto.
Qed.

Lemma sort_names_sorted l : tags_sorted (CI.sort_names l).
Proof.
  unfold CI.sort_names. induction l as [|x l IH]; cbn; [constructor|apply ins_name_sorted, IH].
Qed.

Lemma sort_names_in l x : In x (CI.sort_names l) <-> In x l.
Proof.
  unfold CI.sort_names. induction l as [|y l IH]; cbn; [tauto|].
  rewrite ins_name_in, IH. split; intros [H|H]; auto.
Qed.

(** * The merge walk *)
Lemma tags_walk_nil_r rs : tags_walk rs [] = false.
Proof. destruct rs; reflexivity. Qed.

Lemma tags_walk_cons r rs c cs :
  tags_walk (r :: rs) (c :: cs) =
  match CI.cmp_bytes r c with
  | Eq => true
  | Lt => tags_walk rs (c :: cs)
  | Gt => tags_walk (r :: rs) cs
  end.
Proof. reflexivity. Qed.

Lemma mem_bytes_in x l : mem_bytes x l = true <-> In x l.
Proof.
  unfold mem_bytes. rewrite existsb_exists. split.
  - intros (y & Hy & E). apply eqb_bytes_spec in E. subst. exact Hy.
  - intros H. exists x. split; [exact H|]. apply eqb_bytes_spec. reflexivity.
Qed.

Definition common (rs cs : list bytes) : Prop := exists t, In t rs /\ In t cs.

Lemma tags_meet_common rs cs : tags_meet rs cs = true <-> common rs cs.
Proof.
  unfold tags_meet, common. rewrite existsb_exists.
  split; intros (t & H1 & H2); exists t; (split; [exact H1|]); apply mem_bytes_in; exact H2.
Qed.

(** A hit of the walk is a common tag, sorted or not (the walk never
    reports a tag the client does not have). *)
Lemma tags_walk_sound rs : forall cs, tags_walk rs cs = true -> common rs cs.
Proof.
  induction rs as [|r rs IHr]; intros cs; [discriminate|].
  induction cs as [|c cs IHc]; [rewrite tags_walk_nil_r; discriminate|].
  rewrite tags_walk_cons. destruct (CI.cmp_bytes r c) eqn:E; intros H.
  - apply CIP.cmp_bytes_eq in E. subst. exists c. split; left; reflexivity.
  - destruct (IHr _ H) as (t & H1 & H2). exists t. split; [right|]; assumption.
  - destruct (IHc H) as (t & H1 & H2). exists t. split; [|right]; assumption.
Qed.

(** On sorted lists the walk finds a common tag whenever there is one. *)
Lemma tags_walk_complete rs : forall cs,
  tags_sorted rs -> tags_sorted cs -> common rs cs -> tags_walk rs cs = true.
Proof.
  induction rs as [|r rs IHr]; intros cs Hrs; [intros _ (t & [] & _)|].
  induction cs as [|c cs IHc]; intros Hcs Hc; [destruct Hc as (t & _ & [])|].
  rewrite tags_walk_cons.
  pose proof (StronglySorted_inv Hrs) as (Hrs' & Hr_all). rewrite Forall_forall in Hr_all.
  pose proof (StronglySorted_inv Hcs) as (Hcs' & Hc_all). rewrite Forall_forall in Hc_all.
  destruct (CI.cmp_bytes r c) eqn:E; [reflexivity| |].
  - (* r < c <= every client tag: r is not a client tag *)
    apply IHr; [exact Hrs'|exact Hcs|].
    destruct Hc as (t & [<-|H1] & H2); [|exists t; split; assumption].
    exfalso. destruct H2 as [<-|H2].
    + rewrite CIP.cmp_bytes_refl in E. discriminate.
    + pose proof (tag_lt_le_trans _ _ _ E (Hc_all _ H2)) as H. rewrite CIP.cmp_bytes_refl in H. discriminate.
  - (* c < r <= every rule tag: c is not a rule tag *)
    apply IHc; [exact Hcs'|].
    destruct Hc as (t & H1 & [<-|H2]); [|exists t; split; assumption].
    exfalso. apply cmp_gt_lt in E. destruct H1 as [<-|H1].
    + rewrite CIP.cmp_bytes_refl in E. discriminate.
    + pose proof (tag_lt_le_trans _ _ _ E (Hr_all _ H1)) as H. rewrite CIP.cmp_bytes_refl in H. discriminate.
Qed.

(** matchClientTagsSpecific on sorted lists = "the lists share a tag". *)
Theorem tags_walk_sorted_is_membership rs cs :
  tags_sorted rs -> tags_sorted cs -> tags_walk rs cs = tags_meet rs cs.
Proof.
  intros Hr Hc. destruct (tags_meet rs cs) eqn:E.
  - apply tags_walk_complete; [assumption..|]. apply tags_meet_common. exact E.
  - destruct (tags_walk rs cs) eqn:W; [|reflexivity].
    apply tags_walk_sound, tags_meet_common in W. congruence.
Qed.

(** matchClientTags on sorted lists = the set reading of [RuleEngine]. *)
Theorem ctag_walk_is_match_ctags r tags :
  tags_sorted (nr_ctag_perm r) -> tags_sorted (nr_ctag_restr r) -> tags_sorted tags ->
  match_ctags_walk r tags = match_ctags r tags.
Proof.
  intros Hp Hr Ht. unfold match_ctags_walk, match_ctags.
  pose proof (tags_walk_sorted_is_membership _ _ Hr Ht) as Er.
  pose proof (tags_walk_sorted_is_membership _ _ Hp Ht) as Ep.
  destruct (nr_ctag_perm r) as [|p ps], (nr_ctag_restr r) as [|x xs]; rewrite ?Er, ?Ep; reflexivity.
Qed.

(** The seeded witness: the rule "$ctag=device_phone", the client's tags in
    the order the user picked them, "user_child", "device_phone": the client
    HAS the tag and the walk misses it (it advances the rule index past
    "device_phone" because "device_phone" < "user_child"). *)
Definition tag_device_phone : bytes := [100;101;118;105;99;101;95;112;104;111;110;101].
Definition tag_user_child : bytes := [117;115;101;114;95;99;104;105;108;100].

Theorem tags_walk_unsorted_refuted :
  exists rs cs, tags_sorted rs /\ tags_meet rs cs = true /\ tags_walk rs cs = false.
Proof.
  exists [tag_device_phone], [tag_user_child; tag_device_phone].
  split; [repeat constructor|]. split; vm_compute; reflexivity.
Qed.

(** ... and sorting the same tags (what Persistent.validate does) heals it. *)
Example tags_walk_after_sort :
  tags_walk [tag_device_phone] (CI.sort_names [tag_user_child; tag_device_phone]) = true.
Proof. vm_compute. reflexivity. Qed.

(** * The registry keeps every client's tags sorted *)
Definition tags_inv (ix : CI.index) : Prop :=
  forall u c, CI.deref ix u = Some c -> tags_sorted (CI.c_tags c).

Lemma tags_inv_empty : tags_inv CI.empty_index.
Proof. intros u c H. discriminate. Qed.

Lemma tags_inv_add c ix : tags_sorted (CI.c_tags c) -> tags_inv ix -> tags_inv (CI.index_add c ix).
Proof.
  intros Hc Hi u c' H. destruct (N.eq_dec u (CI.c_uid c)) as [->|Hne].
  - rewrite CIP.deref_add_eq in H. inversion H; subst. exact Hc.
  - rewrite CIP.deref_add_ne in H by exact Hne. eapply Hi; eassumption.
Qed.

Lemma tags_inv_remove c ix : tags_inv ix -> tags_inv (CI.index_remove c ix).
Proof.
  intros Hi u c' H. destruct (N.eq_dec u (CI.c_uid c)) as [->|Hne].
  - rewrite CIP.deref_remove_eq in H. discriminate.
  - rewrite CIP.deref_remove_ne in H by exact Hne. eapply Hi; eassumption.
Qed.

Lemma normalize_sorted c : tags_sorted (CI.c_tags (CI.normalize c)).
Proof. unfold CI.normalize, CI.set_tags. cbn [CI.c_tags]. apply sort_names_sorted. Qed.

Lemma tags_inv_step rc ix o : tags_inv ix -> tags_inv (fst (CI.step rc ix o)).
Proof.
  intros Hi. destruct o as [c|n c|n]; cbn [CI.step].
  - unfold CI.add. destruct (CI.validate rc c); cbn [fst]; try exact Hi.
    destruct (CI.deref ix (CI.c_uid (CI.normalize c))); cbn [fst]; [exact Hi|].
    destruct (CI.clashes (CI.normalize c) ix); cbn [fst]; try exact Hi.
    apply tags_inv_add; [apply normalize_sorted|exact Hi].
  - unfold CI.update. destruct (CI.validate rc c); cbn [fst]; try exact Hi.
    destruct (CI.bget n (CI.name_to ix)) as [u|]; cbn [fst]; [|exact Hi].
    destruct (CI.deref ix u) as [stored|]; cbn [fst]; [|exact Hi].
    destruct (CI.clashes (CI.set_uid (CI.c_uid stored) (CI.normalize c)) ix); cbn [fst]; try exact Hi.
    apply tags_inv_add; [|apply tags_inv_remove; exact Hi].
    unfold CI.set_uid. cbn [CI.c_tags]. apply normalize_sorted.
  - unfold CI.remove_by_name. destruct (CI.bget n (CI.name_to ix)) as [u|]; cbn [fst]; [|exact Hi].
    destruct (CI.deref ix u) as [stored|]; cbn [fst]; [|exact Hi].
    apply tags_inv_remove; exact Hi.
Qed.

Lemma tags_inv_run rc ops : forall ix, tags_inv ix -> tags_inv (CI.run rc ops ix).
Proof.
  unfold CI.run. induction ops as [|o ops IH]; intros ix Hi; cbn [fold_left]; [exact Hi|].
  apply IH, tags_inv_step, Hi.
Qed.

Theorem registry_tags_sorted rc ops : tags_inv (CI.run rc ops CI.empty_index).
Proof. apply tags_inv_run, tags_inv_empty. Qed.

(** [run_ops] (the evaluator's replay, with the observed success flags) goes
    through the same registries as [CI.run]. *)
Lemma run_ops_is_run rc ops : forall ix, fst (run_ops rc ops ix) = CI.run rc (map fst ops) ix.
Proof.
  unfold CI.run. induction ops as [|[o ok] ops IH]; intros ix; cbn [run_ops map fold_left fst]; [reflexivity|].
  apply IH.
Qed.

(** The tags are those the user gave (as a set): sorting loses nothing. *)
Lemma add_keeps_tag_set rc c ix ix' :
  CI.add rc c ix = (ix', CI.EOk) ->
  exists c', CI.deref ix' (CI.c_uid c) = Some c' /\ forall t, In t (CI.c_tags c') <-> In t (CI.c_tags c).
Proof.
  unfold CI.add. destruct (CI.validate rc c); try discriminate.
  destruct (CI.deref ix (CI.c_uid (CI.normalize c))); [discriminate|].
  destruct (CI.clashes (CI.normalize c) ix); try discriminate.
  intros H. inversion H; subst. exists (CI.normalize c). split.
  - change (CI.c_uid c) with (CI.c_uid (CI.normalize c)). apply CIP.deref_add_eq.
  - intros t. unfold CI.normalize, CI.set_tags. cbn [CI.c_tags]. apply sort_names_in.
Qed.

(** * The tags handed to the rule engine *)
Lemma client_settings_tags c q :
  st_client_tags (client_settings c q) = match q_client q with Some p => pc_tags p | None => [] end.
Proof.
  unfold client_settings. destruct (q_client q) as [p|]; [|reflexivity].
  destruct (pc_use_own_settings p); reflexivity.
Qed.

Lemma request_settings_tags c q : st_client_tags (request_settings c q) = st_client_tags (client_settings c q).
Proof. unfold request_settings. destruct (q_private_rdns q); reflexivity. Qed.

Lemma to_pclient_tags paused cl : pc_tags (to_pclient paused cl) = CI.c_tags cl.
Proof. unfold to_pclient. destruct (CI.c_blocked cl); reflexivity. Qed.

Lemma to_pclient_flags paused cl :
  pc_use_own_settings (to_pclient paused cl) = CI.c_own_settings cl /\
  pc_filtering (to_pclient paused cl) = CI.c_filtering cl /\
  pc_name (to_pclient paused cl) = CI.c_name cl.
Proof. unfold to_pclient. destruct (CI.c_blocked cl); repeat split; reflexivity. Qed.

Lemma engine_tags_owner paused c ix dhcp cid q :
  engine_tags paused c ix dhcp cid q =
  match owner ix dhcp cid (q_addr q) with Some cl => CI.c_tags cl | None => [] end.
Proof.
  unfold engine_tags. rewrite request_settings_tags, client_settings_tags. unfold attach. cbn [q_client].
  destruct (owner ix dhcp cid (q_addr q)) as [cl|]; cbn [option_map]; [apply to_pclient_tags|reflexivity].
Qed.

Lemma owner_deref ix dhcp cid a cl : owner ix dhcp cid a = Some cl -> exists u, CI.deref ix u = Some cl.
Proof.
  unfold owner. destruct (CI.acf_find ix dhcp cid (ci_addr a)) as [u|]; [|discriminate]. intros H. exists u. exact H.
Qed.

(** For every history of registry operations, every lease table, every
    ClientID and request: the tags urlfilter is asked with are sorted. *)
Theorem engine_tags_sorted paused c rc ops dhcp cid q :
  tags_sorted (engine_tags paused c (CI.run rc ops CI.empty_index) dhcp cid q).
Proof.
  rewrite engine_tags_owner.
  destruct (owner _ dhcp cid (q_addr q)) as [cl|] eqn:E; [|constructor].
  destruct (owner_deref _ _ _ _ _ E) as (u & Hu). exact (registry_tags_sorted rc ops u cl Hu).
Qed.

(** So a $ctag rule (its own lists sorted by urlfilter's loadCTags) matches a
    request exactly when the set reading says so: the client has one of the
    permitted tags and none of the restricted ones. *)
Theorem ctag_rule_matches_by_membership paused c rc ops dhcp cid q r :
  tags_sorted (nr_ctag_perm r) -> tags_sorted (nr_ctag_restr r) ->
  let tags := engine_tags paused c (CI.run rc ops CI.empty_index) dhcp cid q in
  match_ctags_walk r tags = match_ctags r tags.
Proof. intros Hp Hr. cbv zeta. apply ctag_walk_is_match_ctags; [assumption..|apply engine_tags_sorted]. Qed.

(** * Whose settings decide about response filtering *)
Lemma client_settings_filtering c q :
  st_filtering (client_settings c q) =
  match q_client q with
  | Some p => if pc_use_own_settings p then pc_filtering p else c_filtering c
  | None => c_filtering c
  end.
Proof.
  unfold client_settings. destruct (q_client q) as [p|]; [|reflexivity].
  destruct (pc_use_own_settings p); reflexivity.
Qed.

Theorem filtering_flag_is_owners paused c ix dhcp cid q :
  st_filtering (request_settings c (attach paused ix dhcp cid q)) =
  effective_filtering c (owner ix dhcp cid (q_addr q)).
Proof.
  rewrite request_settings_filtering, client_settings_filtering. unfold attach, effective_filtering. cbn [q_client].
  destruct (owner ix dhcp cid (q_addr q)) as [cl|]; cbn [option_map]; [|reflexivity].
  destruct (to_pclient_flags paused cl) as (-> & -> & _). reflexivity.
Qed.

(** The owner is the client the precedence specification of C04 names
    ([CIP.resolves]: ClientID; else exact address; else the longest
    containing subnet; else the MAC of the lease; else nobody), and the
    specification names exactly one. *)
Theorem owner_by_precedence ix dhcp cid a :
  CIP.Inv ix ->
  match owner ix dhcp cid a with
  | Some cl => CIP.resolves ix dhcp cid (ci_addr a) (Some (CI.c_uid cl)) /\ CI.deref ix (CI.c_uid cl) = Some cl
  | None => CIP.resolves ix dhcp cid (ci_addr a) None
  end.
Proof.
  intros HI. pose proof (CIP.precedence ix dhcp cid (ci_addr a) HI) as Hr.
  pose proof (CIP.settings_applied ix dhcp cid (ci_addr a)
                {| CI.s_client_name := []; CI.s_filtering := false; CI.s_safesearch := false;
                   CI.s_safebrowsing := false; CI.s_parental := false; CI.s_blocked := None;
                   CI.s_tags := []; CI.s_services := [] |} HI) as Hs.
  unfold owner. destruct (CI.acf_find ix dhcp cid (ci_addr a)) as [u|]; [|exact Hr].
  destruct Hs as (cl & Hd & Hu & _). rewrite Hd. subst u. split; assumption.
Qed.

Lemma owner_unique ix dhcp cid a r :
  CIP.Inv ix -> CIP.resolves ix dhcp cid (ci_addr a) r ->
  r = option_map CI.c_uid (owner ix dhcp cid a) /\
  owner ix dhcp cid a = match r with Some u => CI.deref ix u | None => None end.
Proof.
  intros HI Hr. pose proof (owner_by_precedence ix dhcp cid a HI) as Ho.
  destruct (owner ix dhcp cid a) as [cl|] eqn:E.
  - destruct Ho as (Ho & Hd). pose proof (CIP.resolves_functional ix dhcp cid (ci_addr a) HI _ _ Hr Ho). subst r.
    split; [reflexivity|]. symmetry. exact Hd.
  - pose proof (CIP.resolves_functional ix dhcp cid (ci_addr a) HI _ _ Hr Ho). subst r. split; reflexivity.
Qed.

Section Engines.
  Variable allow_eng block_eng : ufreq -> dnsresult * bool.
  Variable sb par : bytes -> bool.
  Variable ss : bytes -> N -> option ssverdict.
  Variable srt : list Rewrites.entry -> list Rewrites.entry.

  Let applies := response_filtering_applies allow_eng block_eng sb par ss srt.
  Let passes := passes_request_stage allow_eng block_eng sb par ss srt.
  Let proc := process allow_eng block_eng sb par ss srt.

  (** Response filtering applies to a request iff (the request stage let it
      through, protection is on and) the filtering flag of the client that
      owns it BY PRECEDENCE is on: for every registry satisfying the
      invariant (every registry a history reaches), every lease table, every
      ClientID (registered, unregistered or absent) and address. *)
  Theorem response_filtering_uses_owner_settings paused c ix dhcp cid q r :
    CIP.Inv ix ->
    CIP.resolves ix dhcp cid (ci_addr (q_addr q)) r ->
    let q' := attach paused ix dhcp cid q in
    let o := match r with Some u => CI.deref ix u | None => None end in
    (applies c q' <->
     passes c q' no_result /\ protection_on c = true /\ effective_filtering c o = true).
  Proof.
    intros HI Hr. cbv zeta. destruct (owner_unique ix dhcp cid (q_addr q) r HI Hr) as (_ & Ho).
    unfold applies, response_filtering_applies. rewrite filtering_flag_is_owners, Ho. reflexivity.
  Qed.

  (** The owner's filtering is off: whatever the answer reveals, it is
      delivered as it came. *)
  Theorem owner_filtering_off_answer_unchanged paused c ix dhcp cid q r up res ans :
    CIP.Inv ix ->
    CIP.resolves ix dhcp cid (ci_addr (q_addr q)) r ->
    let q' := attach paused ix dhcp cid q in
    effective_filtering c (match r with Some u => CI.deref ix u | None => None end) = false ->
    passes c q' res ->
    up (q_name q) (q_qtype q) = Some ans ->
    o_resp (proc c up q') = Some ans /\ o_orig_kept (proc c up q') = false.
  Proof.
    intros HI Hr. cbv zeta. intros Hf Hp Hu.
    destruct (owner_unique ix dhcp cid (q_addr q) r HI Hr) as (_ & Ho).
    apply (gate_closed_unchanged allow_eng block_eng sb par ss srt c up _ res ans Hp Hu).
    right. right. rewrite filtering_flag_is_owners, Ho. exact Hf.
  Qed.

  (** The owner's filtering is on (and protection): the first offending
      record replaces the answer. *)
  Theorem owner_filtering_on_offending_record_blocks paused c ix dhcp cid q r up ans pre rr0 post res :
    CIP.Inv ix ->
    CIP.resolves ix dhcp cid (ci_addr (q_addr q)) r ->
    let q' := attach paused ix dhcp cid q in
    effective_filtering c (match r with Some u => CI.deref ix u | None => None end) = true ->
    protection_on c = true ->
    passes c q' no_result ->
    up (q_name q) (q_qtype q) = Some ans ->
    rs_answer ans = pre ++ rr0 :: post ->
    Forall (clean allow_eng block_eng c (request_settings c q')) pre ->
    check_rr allow_eng block_eng (request_settings c q') (strip_rr c rr0) = Some res ->
    o_resp (proc c up q') = Some (synthetic c (q_name q) (q_qtype q) (ips_from_rules res)) /\
    o_result (proc c up q') = res /\ r_filtered res = true /\ o_orig_kept (proc c up q') = true.
  Proof.
    intros HI Hr. cbv zeta. intros Hf Hprot Hp Hu Hans Hpre Hc.
    assert (Ha : applies c (attach paused ix dhcp cid q)).
    { apply (response_filtering_uses_owner_settings paused c ix dhcp cid q r HI Hr). split; [exact Hp|split; [exact Hprot|exact Hf]]. }
    destruct (offending_record_blocks allow_eng block_eng sb par ss srt c up _ ans pre rr0 post res Ha Hu Hans Hpre Hc)
      as (H1 & H2 & H3 & _ & H5 & _).
    repeat split; assumption.
  Qed.
End Engines.

(** The fall-back the seeded change removed: a request whose ClientID no
    client has registered, from an address a client lists, belongs to THAT
    client (not to nobody). *)
Theorem unregistered_clientid_falls_back_to_address ix dhcp cid a u :
  CIP.Inv ix ->
  (forall u', ~ CIP.owner_of ix CI.c_cids cid u') ->
  CIP.owner_of ix CI.c_ips (ci_addr a) u ->
  exists cl, owner ix dhcp cid a = Some cl /\ CI.c_uid cl = u.
Proof.
  intros HI Hn Ho.
  assert (Hr : CIP.resolves ix dhcp cid (ci_addr a) (Some u)) by (apply CIP.RIp; assumption).
  destruct (owner_unique ix dhcp cid a _ HI Hr) as (Hu & Hd).
  destruct (owner ix dhcp cid a) as [cl|]; [|discriminate]. exists cl. split; [reflexivity|].
  cbn [option_map] in Hu. congruence.
Qed.

(** ... and the same for an address inside a client's subnet when no client
    lists the address itself: the most specific containing subnet decides. *)
Theorem unregistered_clientid_falls_back_to_subnet ix dhcp cid a u p :
  CIP.Inv ix ->
  (forall u', ~ CIP.owner_of ix CI.c_cids cid u') ->
  (forall u', ~ CIP.owner_of ix CI.c_ips (ci_addr a) u') ->
  CIP.owner_of ix CI.c_subnets p u -> CI.contains p (fst (ci_addr a)) = true ->
  (forall p' u', CIP.owner_of ix CI.c_subnets p' u' -> CI.contains p' (fst (ci_addr a)) = true ->
     snd p' <= snd p /\ (p' = p \/ CI.subnet_compare p p' = Lt)) ->
  exists cl, owner ix dhcp cid a = Some cl /\ CI.c_uid cl = u.
Proof.
  intros HI Hn Hni Ho Hc Hmin.
  assert (Hr : CIP.resolves ix dhcp cid (ci_addr a) (Some u)) by (eapply CIP.RCidr; eassumption).
  destruct (owner_unique ix dhcp cid a _ HI Hr) as (Hu & Hd).
  destruct (owner ix dhcp cid a) as [cl|]; [|discriminate]. exists cl. split; [reflexivity|].
  cbn [option_map] in Hu. congruence.
Qed.

(** * The seeded lookup, refuted

    "ClientID present: by ClientID only; absent: by address only".  With a
    client that owns 192.0.2.20 (own settings, filtering on), global
    filtering off and the unregistered ClientID "guest": the flag used is
    the global one, not the owner's. *)
Definition acf_find_no_fallback (ix : CI.index) (dhcp : CI.addr -> option bytes) (id : bytes) (a : CI.addr) : option CI.uid :=
  match id with
  | [] =>
      match CI.find_by_ip ix a with
      | Some u => Some u
      | None => match dhcp a with Some m => CI.find_by_mac ix m | None => None end
      end
  | _ => match CI.find_by_cid ix id with
         | Some u => Some u
         | None => match dhcp a with Some m => CI.find_by_mac ix m | None => None end
         end
  end.

Definition ex_rc : CI.config := {| CI.cfg_tags := [tag_device_phone; tag_user_child]; CI.cfg_addr_ok := fun _ => true |}.
Definition ex_on : CI.client :=
  {| CI.c_uid := 1; CI.c_name := [111;110]; CI.c_cids := [[107;110;111;119;110]]; CI.c_ips := [([192;0;2;20], [])];
     CI.c_subnets := []; CI.c_macs := []; CI.c_own_settings := true; CI.c_filtering := true;
     CI.c_safesearch := false; CI.c_safebrowsing := false; CI.c_parental := false; CI.c_own_blocked := false;
     CI.c_blocked := None; CI.c_ignore_qlog := false; CI.c_ignore_stats := false;
     CI.c_tags := [tag_user_child; tag_device_phone]; CI.c_upstreams := [] |}.
Definition ex_ix : CI.index := CI.run ex_rc [CI.OAdd ex_on] CI.empty_index.
Definition ex_addr : addr := mkAddr V4 3221226004 [].   (* 192.0.2.20 *)
Definition guest : bytes := [103;117;101;115;116].

Example ex_owner_found :
  option_map CI.c_name (owner ex_ix (fun _ => None) guest ex_addr) = Some [111;110] /\
  option_map CI.c_tags (owner ex_ix (fun _ => None) guest ex_addr) = Some [tag_device_phone; tag_user_child] /\
  option_map CI.c_name (owner ex_ix (fun _ => None) [] ex_addr) = Some [111;110] /\
  option_map CI.c_name (owner ex_ix (fun _ => None) [107;110;111;119;110] (mkAddr V4 1 [])) = Some [111;110].
Proof. vm_compute. repeat split; reflexivity. Qed.

Theorem no_fallback_lookup_refuted :
  exists ix dhcp cid a u,
    CIP.Inv ix /\ CIP.resolves ix dhcp cid (ci_addr a) (Some u) /\
    acf_find_no_fallback ix dhcp cid (ci_addr a) <> Some u.
Proof.
  exists ex_ix, (fun _ => None), guest, ex_addr, 1.
  split; [apply CIP.index_consistent|]. split.
  - pose proof (owner_by_precedence ex_ix (fun _ => None) guest ex_addr (CIP.index_consistent _ _)) as H.
    assert (E : owner ex_ix (fun _ => None) guest ex_addr = Some (CI.normalize ex_on)) by (vm_compute; reflexivity).
    rewrite E in H. exact (proj1 H).
  - vm_compute. discriminate.
Qed.

(** Non-vacuity of [response_filtering_uses_owner_settings]' premises: the
    example registry satisfies the invariant and resolves the request. *)
Example ex_premises :
  CIP.Inv ex_ix /\ CIP.resolves ex_ix (fun _ => None) guest (ci_addr ex_addr) (Some 1) /\
  CI.deref ex_ix 1 = Some (CI.normalize ex_on).
Proof.
  split; [apply CIP.index_consistent|]. split; [|vm_compute; reflexivity].
  pose proof (owner_by_precedence ex_ix (fun _ => None) guest ex_addr (CIP.index_consistent _ _)) as H.
  assert (E : owner ex_ix (fun _ => None) guest ex_addr = Some (CI.normalize ex_on)) by (vm_compute; reflexivity).
  rewrite E in H. exact (proj1 H).
Qed.

(** Proofs about the whole schedule document, "time_zone" member included
    (C18): the decoder accepts a document iff its bounds validate AND the tz
    database knows the name; the round trip is the identity for every zone
    name the database offers; a decoder with an additional test of the name
    violates the clause. *)
From Coq Require Import ZArith List Bool Lia NArith.
From AGH Require Import Base.Run Base.Bytes Model.Schedule Model.ScheduleText Model.BlockedSvcHttp
  Model.ScheduleZone.
From AGH Require Import Proofs.Schedule Proofs.ScheduleText Proofs.DurationText
  Proofs.BlockedSvcHttp.
Import ListNotations.
Local Open Scope Z_scope.

(** * [time.LoadLocation] *)

(** A plain name is loaded exactly when the database has it, and the
    location reports that name. *)
Lemma load_location_plain known name :
  plain_name name = true ->
  load_location known name = if known name then Some name else None.
Proof.
  unfold plain_name, load_location. rewrite !andb_true_iff, !negb_true_iff.
  intros [[H1 H2] H3]. rewrite H1, H2, H3. reflexivity.
Qed.

(** The three kinds of names. *)
Lemma load_location_cases known name :
  (load_location known name = Some zone_utc /\ plain_name name = false) \/
  (load_location known name = Some zone_local /\ name = zone_local) \/
  (load_location known name = None /\ plain_name name = false) \/
  (plain_name name = true).
Proof.
  unfold load_location, plain_name.
  destruct (eqb_bytes name [] || eqb_bytes name zone_utc) eqn:E1; [left; split; reflexivity|].
  destruct (eqb_bytes name zone_local) eqn:E2.
  - right; left. split; [reflexivity|]. apply eqb_bytes_eq. exact E2.
  - destruct (contains_dot_dot name || bad_first name) eqn:E3.
    + right; right; left. split; reflexivity.
    + right; right; right. reflexivity.
Qed.

Lemma load_utc known : load_location known zone_utc = Some zone_utc.
Proof. reflexivity. Qed.
Lemma load_local known : load_location known zone_local = Some zone_local.
Proof. reflexivity. Qed.
Lemma load_empty known : load_location known [] = Some zone_utc.
Proof. reflexivity. Qed.

(** The name a loaded location reports loads again, as itself: what a
    marshaller writes can be read (as long as the database keeps the zone). *)
Lemma loaded_name_reloads known name z :
  load_location known name = Some z -> load_location known z = Some z.
Proof.
  intros H. destruct (load_location_cases known name) as [[E _]|[[E _]|[[E _]|P]]].
  - rewrite E in H. injection H as <-. apply load_utc.
  - rewrite E in H. injection H as <-. apply load_local.
  - rewrite E in H. discriminate.
  - rewrite (load_location_plain known name P) in H.
    destruct (known name) eqn:K; [|discriminate]. injection H as <-.
    rewrite (load_location_plain known name P), K. reflexivity.
Qed.

(** * The decoder *)

Lemma decode_zdoc_spec known parse d sc :
  decode_zdoc known parse d = inr sc <->
  load_location known (zd_zone d) = Some (sc_zone sc) /\
  unmarshal_fields parse 7 (zd_fields d) = inr (sc_days sc).
Proof.
  unfold decode_zdoc, unmarshal_fields.
  destruct (apply_fields parse (repeat zero_range 7) (zd_fields d)) as [c|w].
  - split; [discriminate|]. intros [_ H]; discriminate.
  - destruct (load_location known (zd_zone d)) as [z|].
    + destruct (unmarshal_ranges w) as [[i e]|w'].
      * split; [discriminate|]. intros [_ H]; discriminate.
      * split.
        -- intros H; injection H as <-. cbn. split; reflexivity.
        -- destruct sc as [z' w'']; cbn. intros [Hz Hw]. injection Hz as <-. injection Hw as <-.
           reflexivity.
    + split; [discriminate|]. intros [H _]; discriminate.
Qed.

(** Accepted iff the bounds validate and [time.LoadLocation] loads the name. *)
Lemma decode_accepts_iff known parse d :
  (exists sc, decode_zdoc known parse d = inr sc) <->
  (exists w, unmarshal_fields parse 7 (zd_fields d) = inr w) /\
  (exists z, load_location known (zd_zone d) = Some z).
Proof.
  split.
  - intros [sc H]. apply decode_zdoc_spec in H. destruct H as [Hz Hw]. split; eauto.
  - intros [[w Hw] [z Hz]]. exists {| sc_zone := z; sc_days := w |}.
    apply decode_zdoc_spec. split; assumption.
Qed.

(** For a name that reaches the database: accepted iff the bounds validate
    and the database knows the name; the schedule is then located in the zone
    of that very name. *)
Lemma decode_accepts_iff_zone_known known parse d sc :
  plain_name (zd_zone d) = true ->
  (decode_zdoc known parse d = inr sc <->
   known (zd_zone d) = true /\ sc_zone sc = zd_zone d /\
   unmarshal_fields parse 7 (zd_fields d) = inr (sc_days sc)).
Proof.
  intros P. rewrite decode_zdoc_spec, (load_location_plain known _ P).
  destruct (known (zd_zone d)); split.
  - intros [Hz Hw]. injection Hz as Hz. repeat split; [symmetry; exact Hz|exact Hw].
  - intros (_ & Hz & Hw). rewrite Hz. split; [reflexivity|exact Hw].
  - intros [Hz _]. discriminate.
  - intros (Hk & _). discriminate.
Qed.

Lemma decode_unknown_zone_rejected known parse d :
  plain_name (zd_zone d) = true -> known (zd_zone d) = false ->
  forall sc, decode_zdoc known parse d <> inr sc.
Proof.
  intros P K sc H. apply (decode_accepts_iff_zone_known known parse d sc P) in H.
  destruct H as [H _]. congruence.
Qed.

(** Whatever is accepted is seven validated ranges. *)
Lemma decode_zdoc_ok known parse d sc : decode_zdoc known parse d = inr sc -> sched_ok sc.
Proof.
  intros H. apply decode_zdoc_spec in H. destruct H as [_ H]. split.
  - unfold unmarshal_fields in H.
    destruct (apply_fields parse (repeat zero_range 7) (zd_fields d)) as [c|w] eqn:Ea;
      [discriminate|].
    destruct (unmarshal_ranges w) as [[i e]|w'] eqn:Eu; [discriminate|].
    injection H as H. apply unmarshal_accepts_only_valid in Eu. destruct Eu as [-> _].
    rewrite <- H. apply apply_fields_length in Ea. rewrite Ea. apply repeat_length.
  - eapply unmarshal_fields_only_valid. exact H.
Qed.

(** * Marshal, then decode *)

(** The zone name passes through the text layer untouched: the verdict on a
    written document is the verdict of [time.LoadLocation] on the stored name
    and of the validation on the stored bounds. *)
Lemma decode_marshal known parse print sc :
  length (sc_days sc) = 7%nat ->
  (forall r, In r (sc_days sc) -> parse (print (dr_start r)) = inr (dr_start r) /\
                                  parse (print (dr_end r)) = inr (dr_end r)) ->
  decode_zdoc known parse (marshal_zdoc print sc) =
  match load_location known (sc_zone sc) with
  | None => inl ZZone
  | Some z =>
      match unmarshal_ranges (sc_days sc) with
      | inl (i, e) => inl (ZRange i e)
      | inr w => inr {| sc_zone := z; sc_days := w |}
      end
  end.
Proof.
  intros Hl Hp. unfold decode_zdoc, marshal_zdoc; cbn [zd_zone zd_fields].
  pose proof (apply_fields_marshal parse print (sc_days sc) Hp []) as H.
  cbn [app length] in H. rewrite Hl in H. rewrite H. reflexivity.
Qed.

Lemma yaml_zdoc_transparent known sc :
  length (sc_days sc) = 7%nat -> Forall int64_range (sc_days sc) ->
  decode_zdoc known parse_yaml_dur (marshal_zdoc tu_string sc) =
  match load_location known (sc_zone sc) with
  | None => inl ZZone
  | Some z =>
      match unmarshal_ranges (sc_days sc) with
      | inl (i, e) => inl (ZRange i e)
      | inr w => inr {| sc_zone := z; sc_days := w |}
      end
  end.
Proof.
  intros Hl Hw. apply decode_marshal; [exact Hl|]. intros r Hr.
  rewrite Forall_forall in Hw. destruct (Hw r Hr) as [Hs He].
  unfold parse_yaml_dur. rewrite !tu_string_roundtrip by assumption. split; reflexivity.
Qed.

Lemma json_zdoc_transparent known sc :
  length (sc_days sc) = 7%nat -> Forall ms_range (sc_days sc) ->
  decode_zdoc known parse_json_dur (marshal_zdoc print_ms_text sc) =
  match load_location known (sc_zone sc) with
  | None => inl ZZone
  | Some z =>
      match unmarshal_ranges (sc_days sc) with
      | inl (i, e) => inl (ZRange i e)
      | inr w => inr {| sc_zone := z; sc_days := w |}
      end
  end.
Proof.
  intros Hl Hw. apply decode_marshal; [exact Hl|]. intros r Hr.
  rewrite Forall_forall in Hw. destruct (Hw r Hr) as [Hs He].
  unfold parse_json_dur. rewrite !ms_text_roundtrip by assumption. split; reflexivity.
Qed.

(** A stored schedule's zone is one that loads as itself. *)
Definition zone_reloads (known : bytes -> bool) (z : bytes) : Prop :=
  load_location known z = Some z.

Lemma sched_eta (sc : sched) : {| sc_zone := sc_zone sc; sc_days := sc_days sc |} = sc.
Proof. destruct sc; reflexivity. Qed.

(** The round-trip clause with the zone: for EVERY tz database and every zone
    name it offers, a validated schedule reads back unchanged, zone name and
    bounds, from YAML and from JSON. *)
Lemma yaml_zdoc_roundtrip known sc :
  sched_ok sc -> zone_reloads known (sc_zone sc) ->
  decode_zdoc known parse_yaml_dur (marshal_zdoc tu_string sc) = inr sc.
Proof.
  intros [Hl Hw] Hz. rewrite yaml_zdoc_transparent; [|exact Hl|].
  - rewrite Hz. unfold unmarshal_ranges. rewrite first_error_none by exact Hw. apply f_equal, sched_eta.
  - eapply Forall_impl; [|exact Hw]. intros r Hr. apply range_ok_int64, Hr.
Qed.

Lemma json_zdoc_roundtrip known sc :
  sched_ok sc -> zone_reloads known (sc_zone sc) ->
  decode_zdoc known parse_json_dur (marshal_zdoc print_ms_text sc) = inr sc.
Proof.
  intros [Hl Hw] Hz. rewrite json_zdoc_transparent; [|exact Hl|].
  - rewrite Hz. unfold unmarshal_ranges. rewrite first_error_none by exact Hw. apply f_equal, sched_eta.
  - eapply Forall_impl; [|exact Hw]. intros r Hr. apply range_ok_int64, Hr.
Qed.

(** Every name of the database, whatever characters it is made of. *)
Lemma known_zone_reloads known z :
  plain_name z = true -> known z = true -> zone_reloads known z.
Proof. intros P K. unfold zone_reloads. rewrite (load_location_plain known z P), K. reflexivity. Qed.

Lemma zdoc_roundtrip_every_known_zone known z w :
  plain_name z = true -> known z = true -> length w = 7%nat -> weekly_ok w ->
  let sc := {| sc_zone := z; sc_days := w |} in
  decode_zdoc known parse_yaml_dur (marshal_zdoc tu_string sc) = inr sc /\
  decode_zdoc known parse_json_dur (marshal_zdoc print_ms_text sc) = inr sc.
Proof.
  intros P K Hl Hw sc. pose proof (known_zone_reloads known z P K) as Hz.
  split; [apply yaml_zdoc_roundtrip|apply json_zdoc_roundtrip]; try (split; assumption); exact Hz.
Qed.

(** Configuration saved and loaded again, or a GET answer sent back: whatever
    a decoder accepted (from either form) is written and read back as the
    same schedule, in both forms. *)
Lemma decoded_reads_back known parse d sc :
  decode_zdoc known parse d = inr sc ->
  decode_zdoc known parse_yaml_dur (marshal_zdoc tu_string sc) = inr sc /\
  decode_zdoc known parse_json_dur (marshal_zdoc print_ms_text sc) = inr sc.
Proof.
  intros H. pose proof (decode_zdoc_ok _ _ _ _ H) as Hok.
  apply decode_zdoc_spec in H. destruct H as [Hz _].
  apply loaded_name_reloads in Hz.
  split; [apply yaml_zdoc_roundtrip|apply json_zdoc_roundtrip]; assumption.
Qed.

(** * The HTTP update with the zone looked up in the database *)

Lemma decode_sched_of_zdoc known d :
  decode_sched (sched_doc_of known d) =
  match decode_zdoc known parse_json_dur d with inr sc => Some sc | inl _ => None end.
Proof.
  unfold decode_sched, decode_zdoc, sched_doc_of; cbn [sd_zone sd_fields].
  destruct (apply_fields parse_json_dur (repeat zero_range 7) (zd_fields d)); [reflexivity|].
  destruct (load_location known (zd_zone d)); [|reflexivity].
  destruct (unmarshal_ranges w) as [[i e]|w']; reflexivity.
Qed.

(** PUT /control/blocked_services/update with a validated schedule in any
    zone the database offers is accepted, and GET reports that zone and
    those bounds. *)
Lemma update_every_known_zone tz tbl ids sc s :
  sched_ok sc -> zone_reloads tz (sc_zone sc) -> ids_known tbl ids = true ->
  let o := OUpdate (Some (sched_doc_of tz (marshal_zdoc print_ms_text sc))) ids in
  step tbl o s = (st_ok, {| bs_ids := ids; bs_sched := sc |}) /\
  get (snd (step tbl o s)) = (ids, sc_zone sc, marshal_json_text (sc_days sc)).
Proof.
  intros Hok Hz Hk o.
  assert (Ha : update_accepted tbl (Some (sched_doc_of tz (marshal_zdoc print_ms_text sc))) ids sc).
  { split; [|exact Hk]. cbn [sent_sched]. rewrite decode_sched_of_zdoc.
    rewrite (json_zdoc_roundtrip tz sc Hok Hz). reflexivity. }
  unfold o. rewrite (update_accepted_step tbl _ ids sc s Ha). split; reflexivity.
Qed.

(** * A decoder with an additional test of the name *)

(** Names the test refuses are never decoded. *)
Lemma filtered_rejects f known parse d :
  f (zd_zone d) = false -> forall sc, decode_zdoc_filtered f known parse d <> inr sc.
Proof.
  intros Hf sc. unfold decode_zdoc_filtered.
  destruct (apply_fields parse (repeat zero_range 7) (zd_fields d)); [discriminate|].
  rewrite Hf. discriminate.
Qed.

Lemma zero_week_ok z : sched_ok {| sc_zone := z; sc_days := repeat zero_range 7 |}.
Proof.
  split; [reflexivity|]. unfold weekly_ok; cbn [sc_days repeat].
  repeat (apply Forall_cons; [left; split; reflexivity|]). apply Forall_nil.
Qed.

(** Hence a decoder of that shape satisfies the round-trip clause only if
    its test lets every name of the database through. *)
Lemma name_filter_must_accept_known f known :
  (forall sc, sched_ok sc -> zone_reloads known (sc_zone sc) ->
              decode_zdoc_filtered f known parse_yaml_dur (marshal_zdoc tu_string sc) = inr sc) ->
  forall z, plain_name z = true -> known z = true -> f z = true.
Proof.
  intros H z P K. destruct (f z) eqn:Hf; [reflexivity|exfalso].
  set (sc := {| sc_zone := z; sc_days := repeat zero_range 7 |}).
  specialize (H sc (zero_week_ok z) (known_zone_reloads known z P K)).
  revert H. apply filtered_rejects. exact Hf.
Qed.

(** The witness: Etc/GMT+5 is in the database, the schedule Mon 09:00-17:00
    there reads back from both forms; the decoder of seeded change C18-J
    (letters, digits, slash, underscore, hyphen) refuses both documents. *)
Definition ex_gmt5_sched : sched :=
  {| sc_zone := zone_etc_gmt_plus_5;
     sc_days := [zero_range; {| dr_start := 9 * ns_hour; dr_end := 17 * ns_hour |};
                 zero_range; zero_range; zero_range; zero_range; zero_range] |}.

Lemma ex_gmt5_ok : sched_ok ex_gmt5_sched.
Proof.
  split; [reflexivity|]. unfold weekly_ok, ex_gmt5_sched; cbn [sc_days].
  apply Forall_cons; [left; split; reflexivity|].
  apply Forall_cons; [right; vm_compute; intuition congruence|].
  repeat (apply Forall_cons; [left; split; reflexivity|]). apply Forall_nil.
Qed.

Lemma name_filter_refuted :
  exists known sc,
    sched_ok sc /\ plain_name (sc_zone sc) = true /\ known (sc_zone sc) = true /\
    decode_zdoc known parse_yaml_dur (marshal_zdoc tu_string sc) = inr sc /\
    decode_zdoc known parse_json_dur (marshal_zdoc print_ms_text sc) = inr sc /\
    decode_zdoc_filtered j_name_ok known parse_yaml_dur (marshal_zdoc tu_string sc) = inl ZZone /\
    decode_zdoc_filtered j_name_ok known parse_json_dur (marshal_zdoc print_ms_text sc) = inl ZZone.
Proof.
  exists (fun _ => true), ex_gmt5_sched.
  split; [exact ex_gmt5_ok|]. repeat split; vm_compute; reflexivity.
Qed.

(** Non-vacuity of the premises: plain names with [+], [-], digits, three
    levels; the special names. *)
Definition zone_buenos_aires : bytes :=
  [65;109;101;114;105;99;97;47;65;114;103;101;110;116;105;110;97;47;66;117;101;110;111;115;95;65;105;114;101;115]%N.
Definition zone_etc_gmt_minus_14 : bytes := [69; 116; 99; 47; 71; 77; 84; 45; 49; 52]%N.
Definition zone_gmt_plus_0 : bytes := [71; 77; 84; 43; 48]%N.

Lemma ex_zone_names :
  plain_name zone_etc_gmt_plus_5 = true /\ plain_name zone_buenos_aires = true /\
  plain_name zone_etc_gmt_minus_14 = true /\ plain_name zone_gmt_plus_0 = true /\
  plain_name zone_utc = false /\ plain_name zone_local = false /\ plain_name [] = false /\
  j_name_ok zone_etc_gmt_plus_5 = false /\ j_name_ok zone_gmt_plus_0 = false /\
  j_name_ok zone_buenos_aires = true /\ j_name_ok zone_etc_gmt_minus_14 = true /\
  load_location (fun _ => false) zone_etc_gmt_plus_5 = None /\
  load_location (fun _ => true) [46; 46; 47; 85; 84; 67]%N = None /\
  load_location (fun _ => true) [47; 85; 84; 67]%N = None.
Proof. repeat split; vm_compute; reflexivity. Qed.

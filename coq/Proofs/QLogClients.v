(** C07: client-name search terms over the registry of C04, and the
    response_status table.  Model: Model/QLogClients.v. *)
From Coq Require Import ZArith NArith List Bool Lia.
From AGH Require Import Base.Run Model.QLogFile Model.QLog Proofs.QLog Model.QLogClients.
From AGH Require Model.ClientIndex Proofs.ClientIndex.
Import ListNotations.

Local Open Scope Z_scope.

Module CI := AGH.Model.ClientIndex.
Module CIP := AGH.Proofs.ClientIndex.

(** * The table of Model/QLog.v computed from the registry *)

Lemma eqb_bytes_true a b : eqb_bytes a b = true <-> a = b.
Proof. apply CIP.eqb_bytes_spec. Qed.

Lemma eqb_bytes_refl a : eqb_bytes a a = true.
Proof. apply eqb_bytes_true. reflexivity. Qed.

(** Looking an identifier text up in the computed table is asking the
    registry about it, for every text of the case. *)
Lemma assoc_clients_table rg pt texts k :
  In k texts -> assoc k (clients_table rg pt texts) = client_or_artificial rg k (parse_of pt k).
Proof.
  induction texts as [|t r IH]; [intros []|].
  intros Hin. unfold clients_table. cbn [flat_map].
  fold (clients_table rg pt r).
  destruct (eqb_bytes k t) eqn:E.
  - apply eqb_bytes_true in E. subst t.
    destruct (client_or_artificial rg k (parse_of pt k)) as [c|] eqn:Ec.
    + cbn [app assoc]. rewrite eqb_bytes_refl. reflexivity.
    + cbn [app]. clear IH Hin. induction r as [|t r IH]; [reflexivity|].
      unfold clients_table. cbn [flat_map]. fold (clients_table rg pt r).
      destruct (eqb_bytes k t) eqn:E.
      * apply eqb_bytes_true in E. subst t. rewrite Ec. cbn [app]. exact IH.
      * destruct (client_or_artificial rg t (parse_of pt t)); cbn [app assoc]; [rewrite E|]; exact IH.
  - assert (Hr : In k r).
    { destruct Hin as [->|H]; [|exact H]. rewrite eqb_bytes_refl in E. discriminate. }
    destruct (client_or_artificial rg t (parse_of pt t)); cbn [app assoc]; [rewrite E|]; exact (IH Hr).
Qed.

(** The identifier texts of an entry are texts of the case. *)
Definition covered (texts : list bytes) (e : entry) : Prop :=
  forall i, In i (entry_ids e) -> In i texts.

Lemma find_client_registry rg pt texts c e :
  clients c = clients_table rg pt texts -> covered texts e ->
  find_client c e = qlog_client rg pt e.
Proof.
  intros Hc Hcov. unfold covered, find_client, qlog_client, entry_ids in *. rewrite Hc.
  set (ids := (if is_empty (e_cid e) then [] else [e_cid e]) ++ (if is_empty (e_ip e) then [] else [e_ip e])) in *.
  clearbody ids. induction ids as [|i r IH]; [reflexivity|].
  cbn [fold_right find_multiple].
  rewrite (assoc_clients_table rg pt texts i) by (apply Hcov; left; reflexivity).
  destruct (client_or_artificial rg i (parse_of pt i)); [reflexivity|].
  apply IH. intros j Hj. apply Hcov. right. exact Hj.
Qed.

Lemma client_name_registry rg pt texts c e :
  clients c = clients_table rg pt texts -> covered texts e ->
  client_name c e = owner_name rg pt e.
Proof.
  intros Hc Hcov. unfold client_name, owner_name. rewrite (find_client_registry rg pt texts c e Hc Hcov). reflexivity.
Qed.

(** * A client-name term selects exactly the entries whose owner has a
      matching name *)

(** What a term finds in the entry itself (host, its IDN form, ClientID,
    address) and in a name. *)
Definition fields_match (e : entry) (v a : bytes) (strict : bool) : bool :=
  if strict then
    equal_fold (e_host e) v || (negb (is_empty a) && equal_fold (e_host e) a) ||
    equal_fold (e_cid e) v || equal_fold (e_ip e) v
  else
    contains_fold (e_cid e) v || contains_fold (e_host e) v ||
    (negb (is_empty a) && contains_fold (e_host e) a) || contains_fold (e_ip e) v.

Definition name_match (name v : bytes) (strict : bool) : bool :=
  if strict then equal_fold name v else contains_fold name v.

Lemma term_match_split c e v a strict :
  term_match c e v a strict = fields_match e v a strict || name_match (client_name c e) v strict.
Proof. unfold term_match, fields_match, name_match. destruct strict; reflexivity. Qed.

(** Hidden: ignored host, or the owner carries ignore_querylog. *)
Definition hidden (rg : registry) (pt : parse_tbl) (c : config) (e : entry) : bool :=
  is_ignored c e || match qlog_client rg pt e with Some x => c_ignore x | None => false end.

Definition selected (rg : registry) (pt : parse_tbl) (c : config) (v a : bytes) (strict : bool) (e : entry) : bool :=
  negb (hidden rg pt c e) &&
  (fields_match e v a strict || name_match (owner_name rg pt e) v strict).

Lemma keep_term_registry rg pt texts s p v a strict e :
  clients (cfg s) = clients_table rg pt texts -> covered texts e ->
  p_older p = None -> p_crits p = [CTerm v a strict] ->
  keep (cfg s) p e = selected rg pt (cfg s) v a strict e.
Proof.
  intros Hc Hcov Ho Hk. unfold keep, selected, hidden, p_match, older_ok, client_ignored.
  rewrite Ho, Hk. cbn [forallb crit_match andb].
  rewrite (find_client_registry rg pt texts (cfg s) e Hc Hcov), term_match_split,
    (client_name_registry rg pt texts (cfg s) e Hc Hcov), andb_true_r. reflexivity.
Qed.

Lemma filter_ext_in' {A} (f g : A -> bool) l : (forall x, In x l -> f x = g x) -> filter f l = filter g l.
Proof.
  induction l as [|x r IH]; [reflexivity|]. intros H. cbn. rewrite (H x (or_introl eq_refl)).
  rewrite IH; [reflexivity|]. intros y Hy. apply H. right. exact Hy.
Qed.

(** The search with one term over a log whose FindClient is the registry:
    exactly the visible entries that carry the term in host / ClientID /
    address, or whose OWNER (first of ClientID, address that the registry
    knows) has it in its name; newest first. *)
Theorem name_term_selects_owner me bf s p rg pt texts v a strict :
  0 < me <= bf -> wf me s ->
  clients (cfg s) = clients_table rg pt texts ->
  (forall e, In e (flatv s) -> covered texts e) ->
  p_older p = None -> p_offset p = 0 -> p_crits p = [CTerm v a strict] ->
  0 < p_limit p -> lenZ (flatv s) <= p_limit p ->
  (p_scan p <= 0 \/ lenZ (on_disk s) <= p_scan p) ->
  exists o, search me bf s p =
    Ok (filter (selected rg pt (cfg s) v a strict) (rev (flatv s))) o.
Proof.
  intros Hme Hwf Hc Hcov Ho Hoff Hk Hl Hlen Hscan.
  destruct (search_all me bf s p Hme Hwf Ho Hoff Hl Hlen Hscan) as (o & H).
  exists o. rewrite H. f_equal. unfold vis. apply filter_ext_in'.
  intros e He. apply in_rev in He.
  exact (keep_term_registry rg pt texts s p v a strict e Hc (Hcov e He) Ho Hk).
Qed.

(** A term that occurs in no host, ClientID or address of the log is a pure
    client-name search. *)
Corollary pure_name_term me bf s p rg pt texts v a strict :
  0 < me <= bf -> wf me s ->
  clients (cfg s) = clients_table rg pt texts ->
  (forall e, In e (flatv s) -> covered texts e) ->
  (forall e, In e (flatv s) -> fields_match e v a strict = false) ->
  p_older p = None -> p_offset p = 0 -> p_crits p = [CTerm v a strict] ->
  0 < p_limit p -> lenZ (flatv s) <= p_limit p ->
  (p_scan p <= 0 \/ lenZ (on_disk s) <= p_scan p) ->
  exists o, search me bf s p =
    Ok (filter (fun e => negb (hidden rg pt (cfg s) e) && name_match (owner_name rg pt e) v strict)
               (rev (flatv s))) o.
Proof.
  intros Hme Hwf Hc Hcov Hnf Ho Hoff Hk Hl Hlen Hscan.
  destruct (name_term_selects_owner me bf s p rg pt texts v a strict Hme Hwf Hc Hcov Ho Hoff Hk Hl Hlen Hscan) as (o & H).
  exists o. rewrite H. f_equal. apply filter_ext_in'. intros e He. apply in_rev in He.
  unfold selected. rewrite (Hnf e He). reflexivity.
Qed.

(** * Who the owner is: ClientID first, then the address *)

Lemma qlog_client_ids rg pt e :
  qlog_client rg pt e =
  match (if is_empty (e_cid e) then None else client_or_artificial rg (e_cid e) (parse_of pt (e_cid e))) with
  | Some c => Some c
  | None => if is_empty (e_ip e) then None else client_or_artificial rg (e_ip e) (parse_of pt (e_ip e))
  end.
Proof.
  unfold qlog_client, entry_ids.
  destruct (is_empty (e_cid e)), (is_empty (e_ip e)); cbn [app find_multiple];
    repeat match goal with |- context [match ?x with Some _ => _ | None => _ end] => destruct x end; reflexivity.
Qed.

(** A ClientID the registry knows decides, whatever the address. *)
Lemma owner_by_client_id rg pt e c :
  is_empty (e_cid e) = false ->
  client_or_artificial rg (e_cid e) (parse_of pt (e_cid e)) = Some c ->
  qlog_client rg pt e = Some c.
Proof. intros Hne Hc. rewrite qlog_client_ids, Hne, Hc. reflexivity. Qed.

(** A ClientID nobody owns (an ad-hoc DoH / DoT / DoQ identifier) leaves the
    decision to the ADDRESS: the entry is found under the name of the client
    that owns its address. *)
Lemma owner_by_address rg pt e :
  (is_empty (e_cid e) = true \/ client_or_artificial rg (e_cid e) (parse_of pt (e_cid e)) = None) ->
  is_empty (e_ip e) = false ->
  qlog_client rg pt e = client_or_artificial rg (e_ip e) (parse_of pt (e_ip e)).
Proof.
  intros H Hip. rewrite qlog_client_ids, Hip.
  destruct H as [H|H]; rewrite H; [reflexivity|]. destruct (is_empty (e_cid e)); reflexivity.
Qed.

(** FindLoose in terms of the request-time lookup of C04 ([acf_find]:
    ClientID, exact address, containing prefix, lease MAC): the same answer
    when that one finds somebody; else, without a lease, the stored address
    that equals this one up to its zone. *)
Lemma find_loose_acf rg id a :
  find_loose rg a id (Some a) =
  match CI.acf_find (rg_ix rg) (dhcp_of rg) id a with
  | Some u => Some u
  | None => match dhcp_of rg a with Some _ => None | None => find_by_ip_without_zone (rg_ix rg) a end
  end.
Proof.
  unfold find_loose, CI.find, CI.acf_find.
  destruct (CI.find_by_cid (rg_ix rg) id); [reflexivity|].
  destruct (CI.find_by_ip (rg_ix rg) a); [reflexivity|].
  destruct (dhcp_of rg a); [|reflexivity].
  destruct (CI.find_by_mac (rg_ix rg) b); reflexivity.
Qed.

(** ... hence, on a consistent registry, the persistent owner of an address
    identifier follows the precedence proved for C04 ([resolves]: ClientID,
    exact address with its zone, longest containing prefix, lease MAC). *)
Lemma find_loose_precedence rg id a u :
  CIP.Inv (rg_ix rg) ->
  CI.acf_find (rg_ix rg) (dhcp_of rg) id a = Some u ->
  find_loose rg a id (Some a) = Some u /\ CIP.resolves (rg_ix rg) (dhcp_of rg) id a (Some u).
Proof.
  intros HI H. split.
  - rewrite find_loose_acf, H. reflexivity.
  - rewrite <- H. apply CIP.precedence. exact HI.
Qed.

(** An identifier that is not an address text (a ClientID): its owner is the
    stored client that lists it as a ClientID, nobody else. *)
Lemma find_loose_client_id rg id u :
  CIP.Inv (rg_ix rg) -> dhcp_of rg zero_addr = None ->
  (find_loose rg zero_addr id None = Some u <-> CIP.owner_of (rg_ix rg) CI.c_cids id u).
Proof.
  intros HI Hd. destruct (CIP.resolution _ HI) as (_ & Rc & _).
  unfold find_loose, CI.find. rewrite Hd.
  unfold find_by_ip_without_zone. cbn [is_zero zero_addr fst length Nat.eqb].
  rewrite <- Rc. destruct (CI.find_by_cid (rg_ix rg) id); split; intros H; (exact H || discriminate H).
Qed.

(** The zone-less fall-back returns a client that lists the address with some
    zone. *)
Lemma find_by_ip_without_zone_owner rg a u :
  CIP.Inv (rg_ix rg) -> find_by_ip_without_zone (rg_ix rg) a = Some u ->
  snd a = [] /\ exists z, CIP.owner_of (rg_ix rg) CI.c_ips (fst a, z) u.
Proof.
  intros HI H. destruct (CIP.resolution _ HI) as (_ & _ & Ri & _).
  unfold find_by_ip_without_zone in H. destruct (is_zero a); [discriminate|].
  match type of H with context [find ?f ?l] => destruct (find f l) as [[k u']|] eqn:Ef end; [|discriminate].
  inversion H; subst u'. apply find_some in Ef. destruct Ef as (Hin & Heq).
  apply andb_prop in Heq. destruct Heq as (Heq & Hlive).
  cbn [fst] in Heq. apply CIP.addr_eqb_spec in Heq. destruct k as [kb kz]. cbn [fst] in Heq.
  destruct a as [ab az]. inversion Heq; subst. split; [reflexivity|].
  exists kz. apply Ri. cbn [fst]. unfold live in Hlive. cbn [fst snd] in Hlive.
  match type of Hlive with match ?g with _ => _ end = _ => destruct g as [u0|] eqn:Eg end; [|discriminate].
  apply N.eqb_eq in Hlive. subst u0. exact Eg.
Qed.

(** * The response_status table *)

(** Every cell: status value x reason x IsFiltered. *)
Lemma status_table_cells :
  forallb (fun code =>
    forallb (fun r =>
      forallb (fun f =>
        Bool.eqb (status_match code r f)
                 (row_admits (nth (Z.to_nat code) status_table (Build_status_row (Some []) false false)) r f))
        [false; true]) reason_names)
    [0; 1; 2; 3; 4; 5; 6; 7; 8; 9]%Z = true.
Proof. vm_compute. reflexivity. Qed.

Lemma forallb_In {A} (f : A -> bool) l x : forallb f l = true -> In x l -> f x = true.
Proof. intros H. rewrite forallb_forall in H. apply H. Qed.

Theorem status_table_spec code r f :
  (0 <= code <= 9)%Z -> In r reason_names ->
  status_match code r f =
  row_admits (nth (Z.to_nat code) status_table (Build_status_row (Some []) false false)) r f.
Proof.
  intros Hc Hr.
  assert (Hin : In code [0; 1; 2; 3; 4; 5; 6; 7; 8; 9]%Z).
  { cbn. lia. }
  pose proof (forallb_In _ _ code status_table_cells Hin) as H1. cbv beta in H1.
  pose proof (forallb_In _ _ r H1 Hr) as H2. cbv beta in H2.
  assert (Hf : In f [false; true]) by (destruct f; cbn; tauto).
  pose proof (forallb_In _ _ f H2 Hf) as H3. cbv beta in H3.
  apply Bool.eqb_prop in H3. exact H3.
Qed.

(** For ANY reason number (also one the table does not name) and flag. *)
Lemma status_all r f : status_match 0 r f = true.
Proof. reflexivity. Qed.

Lemma status_processed_complement r f :
  status_match 9 r f = negb (reason_in r [3; 8; 1]%Z).
Proof. reflexivity. Qed.

(** blocked / whitelisted / processed: at most one of them holds, and none
    only for a block-list or blocked-service reason without IsFiltered. *)
Theorem status_partition r f :
  let b := status_match 2 r f in let w := status_match 6 r f in let p := status_match 9 r f in
  (b && w = false) /\ (b && p = false) /\ (w && p = false) /\
  (b || w || p = negb (reason_in r [3; 8]%Z && negb f)).
Proof.
  cbn [status_match reason_in existsb].
  destruct (r =? 3)%Z eqn:E3; destruct (r =? 8)%Z eqn:E8; destruct (r =? 1)%Z eqn:E1; destruct f;
    cbn; repeat split; try reflexivity;
    repeat match goal with H : (_ =? _)%Z = true |- _ => apply Z.eqb_eq in H end; try lia.
Qed.

(** With IsFiltered set exactly for the Filtered* reasons (3..8), as the
    filtering engine sets it, every entry falls in exactly one of the three. *)
Corollary status_partition_consistent r f :
  f = ((3 <=? r) && (r <=? 8))%Z ->
  xorb (xorb (status_match 2 r f) (status_match 6 r f)) (status_match 9 r f) = true /\
  (status_match 2 r f && status_match 6 r f = false) /\
  (status_match 2 r f && status_match 9 r f = false) /\
  (status_match 6 r f && status_match 9 r f = false).
Proof.
  intros ->. cbn [status_match reason_in existsb].
  destruct (r =? 3)%Z eqn:E3; destruct (r =? 8)%Z eqn:E8; destruct (r =? 1)%Z eqn:E1;
    repeat match goal with H : (_ =? _)%Z = true |- _ => apply Z.eqb_eq in H; subst r end;
    cbn; try (repeat split; reflexivity); try lia.
  all: destruct ((3 <=? r)%Z && (r <=? 8)%Z); cbn; repeat split; reflexivity.
Qed.

(** The narrower values are inside the broader ones. *)
Theorem status_inclusions r f :
  (status_match 3 r f = true -> status_match 2 r f = true) /\          (* blocked_services in blocked *)
  (status_match 2 r f = true -> status_match 1 r f = true) /\          (* blocked in filtered *)
  (status_match 4 r f = true -> status_match 1 r f = true /\ status_match 9 r f = true) /\
  (status_match 5 r f = true -> status_match 1 r f = true /\ status_match 9 r f = true) /\
  (status_match 8 r f = true -> status_match 1 r f = true /\ status_match 9 r f = true) /\
  (status_match 6 r f = true -> status_match 1 r f = true) /\          (* whitelisted in filtered *)
  (status_match 7 r f = true -> status_match 1 r f = true /\ status_match 9 r f = true) /\
  (forall code, status_match code r f = true -> status_match 0 r f = true).
Proof.
  cbn [status_match reason_in existsb].
  repeat split; try reflexivity; intros;
    repeat match goal with
           | H : _ && _ = true |- _ => apply andb_prop in H; destruct H
           | H : _ || _ = true |- _ => apply orb_prop in H; destruct H
           | H : (_ =? _)%Z = true |- _ => apply Z.eqb_eq in H; subst
           | H : false = true |- _ => discriminate H
           end; subst; cbn; try reflexivity; try (rewrite ?orb_true_r; reflexivity).
Qed.

(** * Premises are satisfiable: a concrete registry and log *)
Module Ex.
  Import CI.
  Local Open Scope N_scope.
  Definition mk (u : N) (name : bytes) cids ips subnets macs (ign : bool) : CI.client :=
    {| c_uid := u; c_name := name; c_cids := cids; c_ips := ips; c_subnets := subnets; c_macs := macs;
       c_own_settings := false; c_filtering := false; c_safesearch := false; c_safebrowsing := false;
       c_parental := false; c_own_blocked := false; c_blocked := None; c_ignore_qlog := ign;
       c_ignore_stats := false; c_tags := []; c_upstreams := [] |}.
  Definition ccfg : CI.config := {| cfg_tags := []; cfg_addr_ok := fun _ => true |}.
  (* "Laptop" owns 192.168.1.5; "Phone" owns the ClientID "ph" *)
  Definition laptop := mk 1 [76;97;112;116;111;112] [] [([192;168;1;5], [])] [] [] false.
  Definition phone := mk 2 [80;104;111;110;101] [[112;104]] [] [] [] false.
  Definition rg : registry :=
    grun ccfg [GClient (OAdd laptop); GClient (OAdd phone)] empty_registry.
  Definition ip5 : bytes := [49;57;50;46;49;54;56;46;49;46;53].          (* "192.168.1.5" *)
  Definition pt : parse_tbl := [(ip5, ([192;168;1;5], []))].
End Ex.

(** An entry with an ad-hoc ClientID ("adhoc") from Laptop's address is found
    under the name Laptop; one with Phone's ClientID from the same address is
    Phone's. *)
Example owner_example :
  let e1 := Build_entry 1 10 100 [97%N] Ex.ip5 [97;100;104;111;99]%N 0 false in
  let e2 := Build_entry 2 20 100 [98%N] Ex.ip5 [112;104]%N 0 false in
  let texts := [Ex.ip5; [97;100;104;111;99]%N; [112;104]%N] in
  let c := Build_config true true 4 [] (clients_table Ex.rg Ex.pt texts) in
  let s := run c [OAdd e1; OAdd e2] in
  CIP.Inv (rg_ix Ex.rg) /\
  owner_name Ex.rg Ex.pt e1 = [76;97;112;116;111;112]%N /\
  owner_name Ex.rg Ex.pt e2 = [80;104;111;110;101]%N /\
  (forall e, In e (flatv s) -> covered texts e) /\
  search max_entry_size buffer_size s (Build_params None 10 0 0 [CTerm [97;112;116]%N [] false]) = Ok [e1] 10.
Proof.
  cbv zeta. split; [|split; [|split; [|split]]].
  - unfold Ex.rg, grun. cbn [fold_left gstep rg_ix empty_registry].
    apply CIP.Inv_step, CIP.Inv_step, CIP.Inv_empty.
  - vm_compute. reflexivity.
  - vm_compute. reflexivity.
  - intros e He. vm_compute in He.
    destruct He as [<-|[<-|[]]]; intros i Hi; vm_compute in Hi; vm_compute;
      repeat match goal with H : _ \/ _ |- _ => destruct H end; subst; tauto.
  - vm_compute. reflexivity.
Qed.

(** C13, part 5: steps that loop over a list treat every element on its own.

    The Go steps mutate maps and slices in place; a step that builds ONE map
    and stores it in several elements would make a write through one element
    visible through all of them.  The model is a tree of values, so what the
    code must do to agree with it is stated here as theorems: the list a
    looping step leaves behind is the element-wise image of the list it found
    (a function of the element alone, the same for every position), composed
    over the step table for the list of persistent clients, which steps 4, 6,
    14, 19 and 22 touch.  The harness checks the same statement on the real
    code (documents with several clients that differ in every field a step
    reads, compared with the documents holding one of the clients each). *)
From Coq Require Import List ZArith String Ascii Bool Lia Arith.
From AGH Require Import Model.Migrate Proofs.Migrate Proofs.MigrateFrame Proofs.MigrateSim.
Import ListNotations.
Local Open Scope string_scope.
Local Open Scope list_scope.

(** ** [map_res] *)

Lemma map_res_ok_id {A} (l : list A) : map_res (fun a => Ok a) l = Ok l.
Proof. induction l as [|a l IH]; cbn; [reflexivity|]. now rewrite IH. Qed.

Lemma map_res_map {A B} (f : A -> B) l : map_res (fun a => Ok (f a)) l = Ok (map f l).
Proof. induction l as [|a l IH]; cbn; [reflexivity|]. now rewrite IH. Qed.

Lemma map_res_comp {A B C} (f : A -> res B) (g : B -> res C) l l1 l2 :
  map_res f l = Ok l1 -> map_res g l1 = Ok l2 ->
  map_res (fun a => b <- f a ;; g b) l = Ok l2.
Proof.
  revert l1 l2. induction l as [|a l IH]; intros l1 l2; cbn.
  - intros [= <-]. cbn. now intros [= <-].
  - destruct (f a) as [b| |] eqn:Ea; cbn; try discriminate.
    destruct (map_res f l) as [bs| |] eqn:El; cbn; try discriminate.
    intros [= <-]. cbn.
    destruct (g b) as [c| |]; cbn; try discriminate.
    destruct (map_res g bs) as [cs| |] eqn:Eg; cbn; try discriminate.
    intros [= <-]. now rewrite (IH _ _ eq_refl Eg).
Qed.

Lemma map_res_ext {A B} (f g : A -> res B) l : (forall a, f a = g a) -> map_res f l = map_res g l.
Proof. intros E. induction l as [|a l IH]; cbn; [reflexivity|]. now rewrite E, IH. Qed.

(** The element at a position of the result is the image of the element at
    the same position of the input, whatever the rest of the list holds. *)
Lemma map_res_nth {A B} (f : A -> res B) l l' i a :
  map_res f l = Ok l' -> nth_error l i = Some a ->
  exists b, f a = Ok b /\ nth_error l' i = Some b.
Proof.
  revert l' i. induction l as [|x l IH]; intros l' i; cbn.
  - destruct i; discriminate.
  - destruct (f x) as [b| |] eqn:Ex; cbn; try discriminate.
    destruct (map_res f l) as [bs| |] eqn:El; cbn; try discriminate.
    intros [= <-]. destruct i as [|i]; cbn.
    + intros [= <-]. eauto.
    + intros H. exact (IH _ _ eq_refl H).
Qed.

Lemma map_res_length {A B} (f : A -> res B) l l' : map_res f l = Ok l' -> List.length l' = List.length l.
Proof.
  revert l'. induction l as [|x l IH]; intros l'; cbn.
  - now intros [= <-].
  - destruct (f x); cbn; try discriminate. destruct (map_res f l); cbn; try discriminate.
    intros [= <-]. cbn. now rewrite (IH _ eq_refl).
Qed.

(** ** The list of persistent clients *)

(** Where the list lives in a document of schema version [v]: at the top
    level below version 14, under [clients.persistent] from 14 on. *)
Definition clients_at (v : nat) (m : obj) : option (list val) :=
  if Nat.ltb v 14 then
    match get "clients" m with Some (VArr l) => Some l | _ => None end
  else
    match get "clients" m with
    | Some (VObj c) => match get "persistent" c with Some (VArr l) => Some l | _ => None end
    | _ => None
    end.

(** What the step that stamps version [n] does to ONE client. *)
Definition client_step (n : nat) : val -> res val :=
  match n with
  | 4 => fun c => Ok (client4 c)
  | 6 => client6
  | 19 => fun c => Ok (client19 c)
  | 22 => client22
  | _ => fun c => Ok c
  end.

(** [k] consecutive steps starting at a document of version [n]. *)
Fixpoint client_steps (n k : nat) : val -> res val :=
  match k with
  | O => fun c => Ok c
  | S k' => fun c => c' <- client_step (S n) c ;; client_steps (S n) k' c'
  end.

Definition elem_upgrade (cur tgt : nat) : val -> res val := client_steps cur (tgt - cur).

(** Step [s], which takes version [n] to [n+1], maps [client_step (n+1)] over
    the list. *)
Definition elemwise (n : nat) (s : step) : Prop :=
  forall m m' l, s (Some m) = Ok m' -> clients_at n m = Some l ->
    exists l', clients_at (S n) m' = Some l' /\ map_res (client_step (S n)) l = Ok l'.

Lemma field_arr_inv m k l : get k m = Some (VArr l) -> field_val TArr m k = FOk (VArr l).
Proof. unfold field_val. now intros ->. Qed.
Lemma field_obj_inv m k o : get k m = Some (VObj o) -> field_val TObj m k = FOk (VObj o).
Proof. unfold field_val. now intros ->. Qed.

Section WithOracles.
Variable O : oracles.

(** A step that leaves the key [clients] alone. *)
Definition keeps_clients (s : step) : Prop :=
  forall m m', s (Some m) = Ok m' -> get "clients" m' = get "clients" m.

Lemma keeps_elemwise n s : n <> 13 -> client_step (S n) = (fun c => Ok c) ->
  keeps_clients s -> elemwise n s.
Proof.
  intros N E K m m' l H C. exists l. rewrite E, map_res_ok_id. split; [|reflexivity].
  unfold clients_at in *. rewrite (K _ _ H).
  assert (X : Nat.ltb (S n) 14 = Nat.ltb n 14).
  { destruct (Nat.ltb_spec (S n) 14), (Nat.ltb_spec n 14); try reflexivity; lia. }
  now rewrite X.
Qed.

Ltac keep_step :=
  intros m m' H; cbn [stamp bind] in H;
  match type of H with context [upd "schema_version" (VInt ?n) m] =>
    rewrite <- (get_upd_ne "clients" "schema_version" (VInt n) m) by discriminate end;
  set (m0 := upd "schema_version" (VInt _) m) in *; clearbody m0;
  split_ok; frame_rw; reflexivity.

Lemma keeps1 : keeps_clients step1. Proof. unfold step1. intros m m' H. cbn in H. injection H as <-. now rewrite get_upd_ne. Qed.
Lemma keeps2 : keeps_clients step2. Proof. unfold step2. keep_step. Qed.
Lemma keeps3 : keeps_clients step3. Proof. unfold step3. keep_step. Qed.
Lemma keeps5 : keeps_clients (step5 O). Proof. unfold step5. keep_step. Qed.
Lemma keeps7 : keeps_clients step7. Proof. unfold step7. keep_step. Qed.
Lemma keeps8 : keeps_clients step8. Proof. unfold step8. keep_step. Qed.
Lemma keeps9 : keeps_clients step9. Proof. unfold step9. keep_step. Qed.
Lemma keeps10 : keeps_clients (step10 O). Proof. unfold step10. keep_step. Qed.
Lemma keeps11 : keeps_clients step11. Proof. unfold step11. keep_step. Qed.
Lemma keeps12 : keeps_clients step12. Proof. unfold step12. keep_step. Qed.
Lemma keeps13 : keeps_clients step13. Proof. unfold step13. keep_step. Qed.
Lemma keeps15 : keeps_clients step15. Proof. unfold step15. keep_step. Qed.
Lemma keeps16 : keeps_clients step16. Proof. unfold step16. keep_step. Qed.
Lemma keeps17 : keeps_clients step17. Proof. unfold step17. keep_step. Qed.
Lemma keeps18 : keeps_clients step18. Proof. unfold step18. keep_step. Qed.
Lemma keeps20 : keeps_clients step20. Proof. unfold step20. keep_step. Qed.
Lemma keeps21 : keeps_clients step21. Proof. unfold step21. keep_step. Qed.
Lemma keeps23 : keeps_clients (step23 O). Proof. unfold step23. keep_step. Qed.
Lemma keeps24 : keeps_clients step24. Proof. unfold step24. keep_step. Qed.
Lemma keeps25 : keeps_clients step25. Proof. unfold step25. keep_step. Qed.
Lemma keeps26 : keeps_clients step26. Proof. unfold step26. keep_step. Qed.
Lemma keeps27 : keeps_clients step27. Proof. unfold step27, replace_dot. keep_step. Qed.
Lemma keeps28 : keeps_clients step28. Proof. unfold step28. keep_step. Qed.
Lemma keeps29 : keeps_clients (step29 O). Proof. unfold step29. keep_step. Qed.

(** The five steps that touch the list. *)

Lemma top_clients_stamped n m l :
  match get "clients" m with Some (VArr l) => Some l | _ => None end = Some l ->
  get "clients" (upd "schema_version" (VInt n) m) = Some (VArr l).
Proof.
  rewrite get_upd_ne by discriminate.
  destruct (get "clients" m) as [[]|]; try discriminate. now intros [= ->].
Qed.

Lemma nested_clients_stamped n m l :
  match get "clients" m with
  | Some (VObj c) => match get "persistent" c with Some (VArr l) => Some l | _ => None end
  | _ => None
  end = Some l ->
  exists c, get "clients" (upd "schema_version" (VInt n) m) = Some (VObj c) /\
            get "persistent" c = Some (VArr l).
Proof.
  rewrite get_upd_ne by discriminate.
  destruct (get "clients" m) as [[]|]; try discriminate.
  destruct (get "persistent" m0) as [[]|] eqn:E; try discriminate. intros [= ->]. eauto.
Qed.

Lemma elemwise4 : elemwise 3 step4.
Proof.
  intros m m' l H C. unfold clients_at in *. cbn [Nat.ltb Nat.leb] in *.
  unfold step4 in H. cbn [stamp bind] in H.
  apply (top_clients_stamped 4) in C.
  rewrite (field_arr_inv _ _ _ C) in H. injection H as <-. cbn [zarr].
  rewrite get_upd_eq. eexists. split; [reflexivity|]. apply map_res_map.
Qed.

Lemma elemwise6 : elemwise 5 step6.
Proof.
  intros m m' l H C. unfold clients_at in *. cbn [Nat.ltb Nat.leb] in *.
  unfold step6 in H. cbn [stamp bind] in H.
  apply (top_clients_stamped 6) in C.
  rewrite (field_arr_inv _ _ _ C) in H. cbn [zarr] in H.
  destruct (map_res client6 l) as [cl| |] eqn:E; cbn [bind] in H; try discriminate.
  injection H as <-. rewrite get_upd_eq. eauto.
Qed.

Lemma elemwise14 : elemwise 13 step14.
Proof.
  intros m m' l H C. unfold clients_at in *. cbn [Nat.ltb Nat.leb] in *.
  unfold step14 in H. cbn [stamp bind] in H.
  apply (top_clients_stamped 14) in C.
  rewrite (field_arr_inv _ _ _ C) in H.
  exists l. split; [|apply map_res_ok_id].
  destruct (field_val TObj _ "dns") eqn:Ed; try discriminate.
  - injection H as <-. rewrite get_upd_eq. reflexivity.
  - destruct (move_val _ _ _ _ _) as [[dns rt]|]; try discriminate.
    injection H as <-. rewrite get_upd_ne by discriminate. rewrite get_upd_eq. reflexivity.
Qed.

Lemma elemwise19 : elemwise 18 step19.
Proof.
  intros m m' l H C. unfold clients_at in *. cbn [Nat.ltb Nat.leb] in *.
  unfold step19 in H. cbn [stamp bind] in H.
  destruct (nested_clients_stamped 19 _ _ C) as (c & C1 & C2).
  unfold with_obj in H. rewrite (field_obj_inv _ _ _ C1) in H. cbn [zobj] in H.
  rewrite (field_arr_inv _ _ _ C2) in H. cbn [bind zarr] in H. injection H as <-.
  rewrite get_upd_eq, get_upd_eq. eexists. split; [reflexivity|]. apply map_res_map.
Qed.

Lemma elemwise22 : elemwise 21 step22.
Proof.
  intros m m' l H C. unfold clients_at in *. cbn [Nat.ltb Nat.leb] in *.
  unfold step22 in H. cbn [stamp bind] in H.
  destruct (nested_clients_stamped 22 _ _ C) as (c & C1 & C2).
  unfold with_obj in H. rewrite (field_obj_inv _ _ _ C1) in H. cbn [zobj] in H.
  rewrite (field_arr_inv _ _ _ C2) in H. cbn [zarr] in H.
  destruct (map_res client22 l) as [cl| |] eqn:E; cbn [bind] in H; try discriminate.
  injection H as <-. rewrite get_upd_eq, get_upd_eq. eauto.
Qed.

(** ** Composition over the step table *)

Fixpoint elemwise_from (n : nat) (l : list step) : Prop :=
  match l with
  | [] => True
  | s :: l' => elemwise n s /\ elemwise_from (S n) l'
  end.

Lemma steps_elemwise : elemwise_from 0 (map snd (steps O)).
Proof.
  cbn [steps map snd elemwise_from].
  repeat match goal with
  | |- _ /\ _ => split
  | |- True => exact I
  | |- elemwise 3 _ => exact elemwise4
  | |- elemwise 5 _ => exact elemwise6
  | |- elemwise 13 _ => exact elemwise14
  | |- elemwise 18 _ => exact elemwise19
  | |- elemwise 21 _ => exact elemwise22
  | |- elemwise _ _ => apply keeps_elemwise; [discriminate | reflexivity |]
  end;
  first [ exact keeps1 | exact keeps2 | exact keeps3 | exact keeps5 | exact keeps7 | exact keeps8
        | exact keeps9 | exact keeps10 | exact keeps11 | exact keeps12 | exact keeps13 | exact keeps15
        | exact keeps16 | exact keeps17 | exact keeps18 | exact keeps20 | exact keeps21 | exact keeps23
        | exact keeps24 | exact keeps25 | exact keeps26 | exact keeps27 | exact keeps28 | exact keeps29 ].
Qed.

Lemma elemwise_skipn c : forall n l, elemwise_from n l -> elemwise_from (n + c) (skipn c l).
Proof.
  induction c as [|c IH]; intros n l H.
  - cbn [skipn]. now rewrite Nat.add_0_r.
  - destruct l as [|s l]; [exact I|]. destruct H as [_ H]. cbn [skipn].
    replace (n + S c)%nat with (S n + c)%nat by lia. now apply IH.
Qed.

Lemma elemwise_firstn c : forall n l, elemwise_from n l -> elemwise_from n (firstn c l).
Proof.
  induction c as [|c IH]; intros n l H; [exact I|].
  destruct l as [|s l]; [exact I|]. destruct H as [H1 H2]. cbn [firstn]. split; auto.
Qed.

Lemma run_steps_elemwise l : forall n m m' cl,
  elemwise_from n l -> run_steps l m = Ok m' -> clients_at n m = Some cl ->
  exists cl', clients_at (n + List.length l) m' = Some cl' /\
              map_res (client_steps n (List.length l)) cl = Ok cl'.
Proof.
  induction l as [|s l IH]; intros n m m' cl F H C.
  - cbn in H. injection H as <-. cbn [List.length client_steps]. rewrite Nat.add_0_r.
    exists cl. split; [exact C | apply map_res_ok_id].
  - destruct F as [Fs Fl]. cbn [run_steps] in H.
    destruct (s (Some m)) as [m1| |] eqn:E; cbn [bind] in H; try discriminate.
    destruct (Fs _ _ _ E C) as (cl1 & C1 & M1).
    destruct (IH _ _ _ _ Fl H C1) as (cl2 & C2 & M2).
    exists cl2. cbn [List.length client_steps].
    replace (n + S (List.length l))%nat with (S n + List.length l)%nat by lia.
    split; [exact C2|]. exact (map_res_comp _ _ _ _ _ M1 M2).
Qed.

(** The list of persistent clients of an upgraded document is the
    element-wise image of the list of the input: the result at position [i]
    is [elem_upgrade cur tgt] of the input at position [i]. *)
Lemma upgrade_clients_elementwise cur tgt m m' l :
  (cur <= tgt <= 29)%nat -> upgrade O cur tgt m = Ok m' -> clients_at cur m = Some l ->
  exists l', clients_at tgt m' = Some l' /\ map_res (elem_upgrade cur tgt) l = Ok l'.
Proof.
  unfold upgrade, elem_upgrade. intros R H C.
  assert (L : List.length (firstn (tgt - cur) (skipn cur (map snd (steps O)))) = (tgt - cur)%nat).
  { rewrite firstn_length, skipn_length. cbn [steps map List.length]. lia. }
  destruct (run_steps_elemwise _ (0 + cur) _ _ _
              (elemwise_firstn _ _ _ (elemwise_skipn cur _ _ steps_elemwise)) H C) as (l' & C' & M).
  rewrite L in *. replace (0 + cur + (tgt - cur))%nat with tgt in C' by lia.
  exists l'. split; [exact C' | exact M].
Qed.

End WithOracles.

(** ** At the level of [Migrate] *)

Definition nat_version (m : obj) : nat := Z.to_nat (version_of m).

Theorem migrate_clients_elementwise O top t a l :
  migrate O top t = ONew a -> clients_at (nat_version (input_map top)) (input_map top) = Some l ->
  exists l', clients_at (Z.to_nat t) a = Some l' /\
             map_res (elem_upgrade (nat_version (input_map top)) (Z.to_nat t)) l = Ok l'.
Proof.
  intros H C. destruct (migrate_new_inv' O _ _ _ H) as (_ & R & U).
  apply upgrade_clients_elementwise with (O := O) (m := input_map top); auto.
  unfold nat_version, last_version in *.
  assert (0 <= version_of (input_map top))%Z by (unfold version_of; apply Z.mod_pos_bound; lia).
  lia.
Qed.

(** Independence: two documents of the same version whose lists hold the
    same client at position [i] (everything else may differ: the other
    clients, the length of the list, every other section, the oracles) hold
    the same client at position [i] after the upgrade. *)
Theorem migrate_client_independent O1 O2 top1 top2 t a1 a2 l1 l2 i c :
  migrate O1 top1 t = ONew a1 -> migrate O2 top2 t = ONew a2 ->
  nat_version (input_map top1) = nat_version (input_map top2) ->
  clients_at (nat_version (input_map top1)) (input_map top1) = Some l1 ->
  clients_at (nat_version (input_map top2)) (input_map top2) = Some l2 ->
  nth_error l1 i = Some c -> nth_error l2 i = Some c ->
  exists l1' l2' c',
    clients_at (Z.to_nat t) a1 = Some l1' /\ clients_at (Z.to_nat t) a2 = Some l2' /\
    nth_error l1' i = Some c' /\ nth_error l2' i = Some c' /\
    elem_upgrade (nat_version (input_map top1)) (Z.to_nat t) c = Ok c'.
Proof.
  intros H1 H2 V C1 C2 N1 N2.
  destruct (migrate_clients_elementwise _ _ _ _ _ H1 C1) as (l1' & D1 & M1).
  destruct (migrate_clients_elementwise _ _ _ _ _ H2 C2) as (l2' & D2 & M2).
  rewrite <- V in M2.
  destruct (map_res_nth _ _ _ _ _ M1 N1) as (b1 & F1 & G1).
  destruct (map_res_nth _ _ _ _ _ M2 N2) as (b2 & F2 & G2).
  rewrite F1 in F2. injection F2 as <-.
  exists l1', l2', b1. auto.
Qed.

(** ** Frame inside a client *)

(** Keys of a client some step may write. *)
Definition client_written : list string :=
  ["use_global_blocked_services"; "ids"; "safesearch_enabled"; "safe_search"; "blocked_services"].

Definition client_framed (f : val -> res val) : Prop :=
  forall o c', f (VObj o) = Ok c' ->
    exists o', c' = VObj o' /\ forall k, mem_b k client_written = false -> get k o' = get k o.

Ltac cne :=
  match goal with
  | H : mem_b ?k client_written = false |- ?k <> _ => apply (mem_b_ne _ _ _ H); reflexivity
  end.

Lemma client_step_framed n : client_framed (client_step n).
Proof.
  intros o c' H.
  assert (D : n = 4%nat \/ n = 6%nat \/ n = 19%nat \/ n = 22%nat \/ client_step n = (fun c => Ok c)).
  { do 23 (destruct n as [|n]; [cbn; auto 6|]). cbn; auto 6. }
  destruct D as [->|[->|[->|[->|E]]]]; cbn [client_step] in H.
  - injection H as <-. cbn [client4]. eexists. split; [reflexivity|]. intros k Hk.
    rewrite get_upd_ne by cne. reflexivity.
  - unfold client6 in H.
    destruct (field_val TStr o "ip"), (field_val TStr o "mac"); try discriminate;
      injection H as <-; (eexists; split; [reflexivity|]); intros k Hk; rewrite get_upd_ne by cne; reflexivity.
  - injection H as <-. unfold client19.
    destruct (move_val TBool o safe_search0 "safesearch_enabled" "enabled") as [[o1 ss]|] eqn:E.
    + eexists. split; [reflexivity|]. intros k Hk. rewrite get_upd_ne by cne.
      eapply get_move_val; [exact E|]. cne.
    + eexists. split; [reflexivity|]. intros k Hk. rewrite get_upd_ne by cne. reflexivity.
  - unfold client22 in H. destruct (field_val TArr o "blocked_services"); try discriminate; injection H as <-.
    + eauto.
    + eexists. split; [reflexivity|]. intros k Hk. rewrite get_upd_ne by cne. reflexivity.
  - rewrite E in H. injection H as <-. eauto.
Qed.

Lemma client_steps_framed k : forall n, client_framed (client_steps n k).
Proof.
  induction k as [|k IH]; intros n o c' H; cbn [client_steps] in H.
  - injection H as <-. eauto.
  - destruct (client_step (S n) (VObj o)) as [c1| |] eqn:E; cbn [bind] in H; try discriminate.
    destruct (client_step_framed _ _ _ E) as (o1 & -> & F1).
    destruct (IH _ _ _ H) as (o2 & -> & F2).
    exists o2. split; [reflexivity|]. intros key Hk. now rewrite F2, F1.
Qed.

(** A setting of a persistent client that no step concerns (its name, tags,
    upstreams, the other switches) keeps its value, at every position. *)
Theorem migrate_client_frame O top t a l i o k :
  migrate O top t = ONew a -> clients_at (nat_version (input_map top)) (input_map top) = Some l ->
  nth_error l i = Some (VObj o) -> mem_b k client_written = false ->
  exists l' o', clients_at (Z.to_nat t) a = Some l' /\ nth_error l' i = Some (VObj o') /\
                get k o' = get k o.
Proof.
  intros H C N Hk.
  destruct (migrate_clients_elementwise _ _ _ _ _ H C) as (l' & D & M).
  destruct (map_res_nth _ _ _ _ _ M N) as (b & F & G).
  destruct (client_steps_framed _ _ _ _ F) as (o' & -> & Fr).
  exists l', o'. auto.
Qed.

(** ** The other lists a step walks over *)

(** Step 10, both lists of upstreams: the image of the list under the
    per-upstream function. *)
Lemma step10_elementwise O m m' d k l :
  k = "upstream_dns" \/ k = "local_ptr_upstreams" ->
  step10 O (Some m) = Ok m' -> get "dns" m = Some (VObj d) -> get k d = Some (VArr l) ->
  exists d' l', get "dns" m' = Some (VObj d') /\ get k d' = Some (VArr l') /\
                map_res (quic_elem O) l = Ok l'.
Proof.
  intros K H D L. unfold step10 in H. cbn [stamp bind] in H.
  assert (D0 : get "dns" (upd "schema_version" (VInt 10) m) = Some (VObj d))
    by now rewrite get_upd_ne by discriminate.
  unfold with_obj in H. rewrite (field_obj_inv _ _ _ D0) in H. cbn [zobj] in H.
  destruct (quic_field O "upstream_dns" d) as [d1| |] eqn:E1; cbn [bind] in H; try discriminate.
  destruct (quic_field O "local_ptr_upstreams" d1) as [d2| |] eqn:E2; cbn [bind] in H; try discriminate.
  injection H as <-. rewrite get_upd_eq. exists d2.
  unfold quic_field in E1, E2. destruct K as [-> | ->].
  - rewrite (field_arr_inv _ _ _ L) in E1. cbn [zarr] in E1.
    destruct (map_res (quic_elem O) l) as [l1| |]; cbn [bind] in E1; try discriminate.
    injection E1 as <-. exists l1. split; [reflexivity|]. split; [|reflexivity].
    destruct (field_val TArr _ "local_ptr_upstreams"); try discriminate.
    + injection E2 as <-. apply get_upd_eq.
    + destruct (map_res _ _); cbn [bind] in E2; try discriminate. injection E2 as <-.
      rewrite get_upd_ne by discriminate. apply get_upd_eq.
  - assert (L1 : get "local_ptr_upstreams" d1 = Some (VArr l)).
    { destruct (field_val TArr d "upstream_dns"); try discriminate.
      - now injection E1 as <-.
      - destruct (map_res _ _); cbn [bind] in E1; try discriminate. injection E1 as <-.
        now rewrite get_upd_ne by discriminate. }
    rewrite (field_arr_inv _ _ _ L1) in E2. cbn [zarr] in E2.
    destruct (map_res (quic_elem O) l) as [l1| |]; cbn [bind] in E2; try discriminate.
    injection E2 as <-. exists l1. split; [reflexivity|]. split; [apply get_upd_eq | reflexivity].
Qed.

(** Step 27: the list of ignored names of a section is mapped through the
    per-name function. *)
Lemma replace_dot_elementwise k m m' q l :
  replace_dot k m = Ok m' -> get k m = Some (VObj q) -> get "ignored" q = Some (VArr l) ->
  exists q', get k m' = Some (VObj q') /\ get "ignored" q' = Some (VArr (map dot27 l)).
Proof.
  intros H Q L. unfold replace_dot, with_obj in H. rewrite (field_obj_inv _ _ _ Q) in H. cbn [zobj] in H.
  rewrite (field_arr_inv _ _ _ L) in H. cbn [bind zarr] in H. injection H as <-.
  eexists. split; [apply get_upd_eq | apply get_upd_eq].
Qed.

(** Step 29: the list of patterns is the data-directory glob followed by the
    contributions of the filters, one after the other, each a function of
    its own filter; the filters themselves are left as they are. *)
Lemma step29_elementwise O m m' fl f :
  step29 O (Some m) = Ok m' -> get "filters" m = Some (VArr fl) -> get "filtering" m = Some (VObj f) ->
  exists ps f', map_res filter29 fl = Ok ps /\ get "filtering" m' = Some (VObj f') /\
    get "safe_fs_patterns" f' = Some (VStrs (o_glob O :: List.concat ps)) /\
    get "filters" m' = Some (VArr fl).
Proof.
  intros H Fl F. unfold step29 in H. cbn [stamp bind] in H.
  assert (A : get "filters" (upd "schema_version" (VInt 29) m) = Some (VArr fl))
    by now rewrite get_upd_ne by discriminate.
  assert (B : get "filtering" (upd "schema_version" (VInt 29) m) = Some (VObj f))
    by now rewrite get_upd_ne by discriminate.
  rewrite (field_arr_inv _ _ _ A) in H. cbn [zarr] in H.
  destruct (map_res filter29 fl) as [ps| |]; cbn [bind] in H; try discriminate.
  unfold with_obj in H. rewrite (field_obj_inv _ _ _ B) in H. cbn [bind zobj] in H. injection H as <-.
  exists ps. eexists. split; [reflexivity|]. split; [apply get_upd_eq|]. split; [apply get_upd_eq|].
  now rewrite get_upd_ne by discriminate.
Qed.

(** ** Non-vacuity: three clients that differ in every field a step reads *)

Definition doc3_clients : obj :=
  [("schema_version", VInt 3);
   ("clients", VArr [
      VObj [("name", VStr "a"); ("ip", VStr "10.0.0.1"); ("mac", VStr "");
            ("safesearch_enabled", VBool false); ("blocked_services", VArr [VStr "500px"]);
            ("tags", VArr [VStr "device_pc"])];
      VObj [("name", VStr "b"); ("ip", VStr ""); ("mac", VStr "aa:bb:cc:dd:ee:01");
            ("safesearch_enabled", VBool true); ("blocked_services", VArr [VStr "9gag"; VStr "amazon"]);
            ("upstreams", VArr [VStr "1.1.1.1"])];
      VObj [("name", VStr "c"); ("ip", VStr "10.0.0.3"); ("mac", VStr "aa:bb:cc:dd:ee:03")]])].

Example doc3_clients_upgrade :
  exists a l',
    migrate oracles0 (Some doc3_clients) 29 = ONew a /\ clients_at 29 a = Some l' /\
    map (fun c => get "safe_search" (zobj c)) l' =
      [Some (VObj (upd "enabled" (VBool false) safe_search0));
       Some (VObj safe_search0); Some (VObj safe_search0)] /\
    map (fun c => get "ids" (zobj c)) l' =
      [Some (VArr [VStr "10.0.0.1"]); Some (VArr [VStr "aa:bb:cc:dd:ee:01"]);
       Some (VArr [VStr "10.0.0.3"; VStr "aa:bb:cc:dd:ee:03"])] /\
    map (fun c => get "blocked_services" (zobj c)) l' =
      [Some (VObj [("ids", VArr [VStr "500px"]); ("schedule", schedule0)]);
       Some (VObj [("ids", VArr [VStr "9gag"; VStr "amazon"]); ("schedule", schedule0)]); None] /\
    map (fun c => get "name" (zobj c)) l' = [Some (VStr "a"); Some (VStr "b"); Some (VStr "c")].
Proof. eexists. eexists. split; [vm_compute; reflexivity|]. vm_compute. repeat split. Qed.

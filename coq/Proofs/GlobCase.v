(** C17: [Base/Glob.v] (= filepath.Match) is byte-exact.

    For patterns without character classes and escapes ([plain_pattern]) the
    executable matcher is sound for the usual declarative reading of a glob:
    [gm pat name] -- every literal pattern byte stands for exactly that byte,
    [?] for one character that is not a separator, [*] for a separator-free
    run.  From it: an alignment of the name with the pattern, piece by piece
    ([glob_match_aligned]); a pattern of literal bytes only matches itself
    ([glob_literal_exact]); and letter case is significant: if the pattern has
    no upper-case letter, every upper-case letter of a matching name lies in a
    piece that a [*] or a [?] stands for ([glob_case_exact]).  Nothing in the
    matcher folds case; the red-team change C17-F (both sides lower-cased
    before matching) is the counter-example [lowered_match_differs]. *)
From Coq Require Import List NArith Bool Arith Lia.
From AGH Require Import Base.Run Base.Bytes Base.Glob.
Import ListNotations.
Local Open Scope N_scope.

(** * The declarative reading of a class-free, escape-free pattern *)

Inductive gm : bytes -> bytes -> Prop :=
  | gm_nil : gm [] []
  | gm_lit c p s : is_lit c = true -> gm p s -> gm (c :: p) (c :: s)
  | gm_quest p b0 s :
      (b0 =? sep) = false ->
      gm p (skipn (snd (decode_rune (b0 :: s))) (b0 :: s)) ->
      gm (c_quest :: p) (b0 :: s)
  | gm_star p x s : mem sep x = false -> gm p s -> gm (c_star :: p) (x ++ s).

Lemma gm_star_nil p s : gm p s -> gm (c_star :: p) s.
Proof. intros H. apply (gm_star p [] s); [reflexivity|exact H]. Qed.

Lemma gm_stars k p s : gm p s -> gm (repeat c_star k ++ p) s.
Proof. induction k as [|k IH]; cbn [repeat app]; [auto|]. intros H. apply gm_star_nil, IH, H. Qed.

Lemma repeat_app_cons {A} (a : A) k l : repeat a k ++ a :: l = a :: repeat a k ++ l.
Proof. induction k as [|k IH]; cbn [repeat app]; [reflexivity|]. rewrite IH. reflexivity. Qed.

Lemma gm_stars_S k p s : gm (c_star :: p) s -> gm (repeat c_star (S k) ++ p) s.
Proof.
  intros H. cbn [repeat app]. rewrite <- repeat_app_cons. apply gm_stars, H.
Qed.

Lemma mem_cons_intro b c s : (c =? b) = false -> mem b s = false -> mem b (c :: s) = false.
Proof. intros H1 H2. unfold mem in *. cbn [existsb]. rewrite N.eqb_sym, H1. exact H2. Qed.

(** * matchChunk *)

Lemma match_chunk_gm : forall fuel chunk s failed t,
  mem c_lbr chunk = false -> mem c_bslash chunk = false -> mem c_star chunk = false ->
  match_chunk fuel chunk s failed = GOk (Some t) ->
  failed = false /\ forall p', gm p' t -> gm (chunk ++ p') s.
Proof.
  induction fuel as [|f IH]; intros chunk s failed t Hl Hb Hs; cbn [match_chunk]; [discriminate|].
  destruct chunk as [|c ctl].
  - destruct failed; [discriminate|]. intros [= <-]. split; [reflexivity|]. intros p' H. exact H.
  - apply mem_cons_false in Hl as [Hl1 Hl2]. apply mem_cons_false in Hb as [Hb1 Hb2].
    apply mem_cons_false in Hs as [Hs1 Hs2].
    rewrite Hl1. destruct (c =? c_quest) eqn:Eq.
    + apply N.eqb_eq in Eq. subst c.
      destruct (failed || is_nil s) eqn:Ef.
      * intros H. apply IH in H as [H _]; auto. discriminate.
      * apply orb_false_iff in Ef as [-> Hn]. destruct s as [|b0 s0]; [discriminate|].
        intros H. apply IH in H as [Hsep Hk]; auto. cbn [hd] in Hsep.
        split; [reflexivity|]. intros p' Hp. cbn [app]. apply gm_quest; [exact Hsep|]. apply Hk, Hp.
    + rewrite Hb1. destruct (failed || is_nil s) eqn:Ef.
      * intros H. apply IH in H as [H _]; auto. discriminate.
      * apply orb_false_iff in Ef as [-> Hn]. destruct s as [|b0 s0]; [discriminate|].
        intros H. apply IH in H as [Heq Hk]; auto. cbn [hd tl] in Heq, Hk.
        apply negb_false_iff, N.eqb_eq in Heq. subst b0.
        split; [reflexivity|]. intros p' Hp. cbn [app]. apply gm_lit; [|apply Hk, Hp].
        unfold is_lit. rewrite Hs1, Eq, Hl1, Hb1. reflexivity.
Qed.

(** * The retry loop after a star *)

Lemma star_loop_gm : forall name chunk last t,
  mem c_lbr chunk = false -> mem c_bslash chunk = false -> mem c_star chunk = false ->
  star_loop chunk name last = GOk (Some t) ->
  exists x s', name = x ++ s' /\ mem sep x = false /\
    forall p', gm p' t -> gm (chunk ++ p') s'.
Proof.
  induction name as [|c tl IH]; intros chunk last t Hl Hb Hs; cbn [star_loop]; [discriminate|].
  destruct (c =? sep) eqn:Ec; [discriminate|].
  assert (Hrec : star_loop chunk tl last = GOk (Some t) ->
          exists x s', c :: tl = x ++ s' /\ mem sep x = false /\
            forall p', gm p' t -> gm (chunk ++ p') s').
  { intros H. destruct (IH _ _ _ Hl Hb Hs H) as (x & s' & -> & H1 & H2).
    exists (c :: x), s'. repeat split; auto. apply mem_cons_intro; assumption. }
  destruct (match_chunk (S (length chunk)) chunk tl false) as [[rest|]| |] eqn:Em; try discriminate.
  - destruct (last && negb (is_nil rest)); [exact Hrec|].
    intros [= ->]. apply match_chunk_gm in Em as [_ Hk]; auto.
    exists [c], tl. repeat split; auto. apply mem_cons_intro; [exact Ec|reflexivity].
  - exact Hrec.
Qed.

(** * scanChunk on a plain pattern *)

Lemma strip_stars_spec p :
  exists k, p = repeat c_star k ++ snd (strip_stars p) /\
            fst (strip_stars p) = negb (Nat.eqb k 0).
Proof.
  induction p as [|c t (k & Hk & Hf)]; cbn [strip_stars].
  - exists 0%nat. split; reflexivity.
  - destruct (c =? c_star) eqn:E.
    + apply N.eqb_eq in E. subst c. exists (S k). cbn [fst snd repeat app]. split; [|reflexivity].
      f_equal. exact Hk.
    + exists 0%nat. split; reflexivity.
Qed.

Lemma scan_nostar p :
  mem c_lbr p = false -> mem c_bslash p = false -> mem c_star (fst (scan p false)) = false.
Proof.
  induction p as [|c t IH]; intros Hl Hb; cbn [scan]; [reflexivity|].
  apply mem_cons_false in Hl as [Hl1 Hl2]. apply mem_cons_false in Hb as [Hb1 Hb2].
  rewrite Hb1, Hl1. specialize (IH Hl2 Hb2).
  destruct (c =? c_rbr) eqn:Er.
  - destruct (scan t false) as [a b]. cbn [fst] in *. apply mem_cons_intro; [|exact IH].
    apply N.eqb_eq in Er. subst c. reflexivity.
  - destruct (c =? c_star) eqn:Es; cbn [andb negb]; [reflexivity|].
    destruct (scan t false) as [a b]. cbn [fst] in *. apply mem_cons_intro; assumption.
Qed.

(** * Match *)

Lemma match_loop_gm : forall fuel pattern name,
  mem c_lbr pattern = false -> mem c_bslash pattern = false ->
  match_loop fuel pattern name = GOk true -> gm pattern name.
Proof.
  induction fuel as [|f IH]; intros pattern name Hl Hb; cbn [match_loop]; [discriminate|].
  destruct pattern as [|c0 ptl].
  - destruct name; [intros _; constructor|discriminate].
  - set (P := c0 :: ptl) in *. unfold scan_chunk.
    destruct (strip_stars_spec P) as (k & HP & Hstar).
    pose proof (strip_stars_mem _ _ Hl) as Hl1. pose proof (strip_stars_mem _ _ Hb) as Hb1.
    pose proof (strip_stars_hd P) as Hhd.
    destruct (strip_stars P) as [star p1]. cbn [fst snd] in *.
    destruct (scan_plain p1 Hl1 Hb1) as (Hp & Hcl & Hcb & Hrl & Hrb & Hnil).
    pose proof (scan_nostar p1 Hl1 Hb1) as Hcs.
    destruct (scan p1 false) as [chunk rest]. cbn [fst snd] in *.
    rewrite HP, Hp.
    destruct (star && is_nil chunk) eqn:Esn.
    + apply andb_true_iff in Esn as [Hst Hn]. destruct chunk; [|discriminate].
      intros [= Hm]. apply negb_true_iff in Hm.
      destruct (Hnil eq_refl) as [Hp1|[t Hp1]].
      * rewrite Hp1 in Hp. cbn [app] in Hp. subst rest. cbn [app].
        destruct k as [|k]; [subst star; discriminate|].
        apply gm_stars_S. rewrite <- (app_nil_r name). apply gm_star; [exact Hm|constructor].
      * rewrite Hp1 in Hhd. cbn in Hhd. discriminate.
    + assert (Hretry :
        (if star then
           match star_loop chunk name (is_nil rest) with
           | GOk (Some t) => match_loop f rest t
           | GOk None => GOk false
           | GBad => GBad
           | GFuel => GFuel
           end
         else GOk false) = GOk true -> gm (repeat c_star k ++ chunk ++ rest) name).
      { destruct star; [|discriminate].
        destruct (star_loop chunk name (is_nil rest)) as [[t|]| |] eqn:Esl; try discriminate.
        intros H. apply IH in H; auto.
        apply star_loop_gm in Esl as (x & s' & -> & H1 & H2); auto.
        destruct k as [|k]; [discriminate|].
        apply gm_stars_S. apply gm_star; [exact H1|]. apply H2, H. }
      destruct (match_chunk (S (length chunk)) chunk name false) as [[t|]| |] eqn:Em;
        try discriminate; [|exact Hretry].
      destruct (is_nil t || negb (is_nil rest)); [|exact Hretry].
      intros H. apply IH in H; auto.
      apply match_chunk_gm in Em as [_ Hk]; auto.
      apply gm_stars, Hk, H.
Qed.

(** The matcher is sound for the declarative reading. *)
Theorem glob_match_gm pat name :
  plain_pattern pat = true -> glob_match pat name = GOk true -> gm pat name.
Proof.
  unfold plain_pattern, glob_match. intros H. apply andb_true_iff in H as [H1 H2].
  apply negb_true_iff in H1, H2. apply match_loop_gm; assumption.
Qed.

(** * Alignment of the name with the pattern *)

(** One pattern byte and the part of the name it stands for. *)
Definition piece := (N * bytes)%type.

Definition piece_ok (pc : piece) : Prop :=
  (is_lit (fst pc) = true -> snd pc = [fst pc]) /\
  (fst pc = c_quest -> snd pc <> [] /\ mem sep (snd pc) = false) /\
  (fst pc = c_star -> mem sep (snd pc) = false).

Definition aligned (pat name : bytes) (pieces : list piece) : Prop :=
  map fst pieces = pat /\ concat (map snd pieces) = name /\ Forall piece_ok pieces.

Lemma decode_width_pos b0 t : (1 <= snd (decode_rune (b0 :: t)))%nat.
Proof.
  unfold decode_rune. destruct (b0 <? 128); [cbn; lia|].
  destruct (lead_info b0) as [[[sz lo] hi]|] eqn:El; [|cbn; lia].
  destruct (_ && _ && _ && _); [|cbn; lia]. cbn [snd].
  pose proof (lead_info_size _ _ _ _ El). lia.
Qed.

Lemma piece_ok_lit c : is_lit c = true -> piece_ok (c, [c]).
Proof.
  intros Hc. unfold piece_ok. cbn [fst snd]. split; [reflexivity|].
  split; intros E; rewrite E in Hc; discriminate.
Qed.

Lemma piece_ok_quest x : x <> [] -> mem sep x = false -> piece_ok (c_quest, x).
Proof.
  intros H1 H2. unfold piece_ok. cbn [fst snd]. split; [discriminate|].
  split; [intros _; split; assumption|discriminate].
Qed.

Lemma piece_ok_star x : mem sep x = false -> piece_ok (c_star, x).
Proof.
  intros H. unfold piece_ok. cbn [fst snd]. split; [discriminate|].
  split; [discriminate|intros _; exact H].
Qed.

Lemma gm_aligned pat name : gm pat name -> exists pieces, aligned pat name pieces.
Proof.
  induction 1 as [|c p s Hc _ (ps & H1 & H2 & H3)|p b0 s Hb _ (ps & H1 & H2 & H3)
                  |p x s Hx _ (ps & H1 & H2 & H3)].
  - exists []. unfold aligned. cbn. auto.
  - exists ((c, [c]) :: ps). unfold aligned. cbn [map fst snd concat app]. rewrite H1, H2.
    split; [reflexivity|]. split; [reflexivity|]. constructor; [|exact H3].
    apply piece_ok_lit, Hc.
  - set (n := snd (decode_rune (b0 :: s))) in *.
    exists ((c_quest, firstn n (b0 :: s)) :: ps). unfold aligned.
    cbn [map fst snd concat]. rewrite H1, H2, firstn_skipn.
    split; [reflexivity|]. split; [reflexivity|]. constructor; [|exact H3].
    apply piece_ok_quest.
    + pose proof (decode_width_pos b0 s) as Hn. fold n in Hn.
      destruct n as [|n']; [lia|]. discriminate.
    + apply mem_count. apply decode_no_sep, Hb.
  - exists ((c_star, x) :: ps). unfold aligned. cbn [map fst snd concat]. rewrite H1, H2.
    split; [reflexivity|]. split; [reflexivity|]. constructor; [|exact H3].
    apply piece_ok_star, Hx.
Qed.

(** Every match of a plain pattern is an alignment: literal bytes stand for
    themselves, [?] for a non-empty separator-free piece (one character), [*]
    for a separator-free piece. *)
Theorem glob_match_aligned pat name :
  plain_pattern pat = true -> glob_match pat name = GOk true ->
  exists pieces, aligned pat name pieces.
Proof. intros Hp Hm. apply gm_aligned, glob_match_gm; assumption. Qed.

(** * Literal patterns and letter case *)

Lemma gm_literal pat name : forallb is_lit pat = true -> gm pat name -> name = pat.
Proof.
  intros Hl H. induction H as [|c p s Hc _ IH|p b0 s _ _ _|p x s _ _ _]; cbn [forallb] in Hl.
  - reflexivity.
  - apply andb_true_iff in Hl as [_ Hl]. f_equal. apply IH, Hl.
  - discriminate.
  - discriminate.
Qed.

(** A pattern without [*], [?], classes and escapes matches only itself. *)
Theorem glob_literal_exact pat name :
  forallb is_lit pat = true -> glob_match pat name = GOk true -> name = pat.
Proof.
  intros Hl Hm. apply gm_literal; [exact Hl|]. apply glob_match_gm; [|exact Hm].
  destruct (lit_plain _ Hl) as [H1 H2]. unfold plain_pattern. rewrite H1, H2. reflexivity.
Qed.

Definition no_upper (s : bytes) : bool := forallb (fun b => negb (is_upper b)) s.

(** Letter case is significant.  If the pattern has no upper-case letter, then
    in the alignment of any matching name every piece that a literal pattern
    byte stands for has no upper-case letter: an upper-case letter of the name
    can only lie where the pattern has a [*] or a [?]. *)
Theorem glob_case_exact pat name :
  plain_pattern pat = true -> glob_match pat name = GOk true -> no_upper pat = true ->
  exists pieces, aligned pat name pieces /\
    Forall (fun pc => is_lit (fst pc) = true -> no_upper (snd pc) = true) pieces.
Proof.
  intros Hp Hm Hu. destruct (glob_match_aligned _ _ Hp Hm) as (ps & H1 & H2 & H3).
  exists ps. split; [repeat split; assumption|].
  apply Forall_forall. intros pc Hin Hlit.
  rewrite Forall_forall in H3. destruct (H3 _ Hin) as (Hl & _). rewrite (Hl Hlit).
  unfold no_upper in *. cbn [forallb]. rewrite andb_true_r.
  rewrite forallb_forall in Hu. apply Hu. rewrite <- H1. apply in_map, Hin.
Qed.

(** The same for a literal pattern: a name with an upper-case letter is never
    matched by a pattern of lower-case literal bytes ("Exact.list" against
    "exact.list"). *)
Corollary glob_literal_case pat name :
  forallb is_lit pat = true -> no_upper pat = true -> no_upper name = false ->
  glob_match pat name <> GOk true.
Proof.
  intros Hl Hu Hn Hm. rewrite (glob_literal_exact _ _ Hl Hm) in Hn. congruence.
Qed.

(** * Examples (by computation); the premises are satisfiable *)

(* /l/*.txt *)
Definition ex_pat_ext : bytes := [47;108;47;42;46;116;120;116].
(* /l/ok.txt, /L/ok.txt, /l/ok.TXT *)
Definition ex_name_ok : bytes := [47;108;47;111;107;46;116;120;116].
Definition ex_name_dir : bytes := [47;76;47;111;107;46;116;120;116].
Definition ex_name_ext : bytes := [47;108;47;111;107;46;84;88;84].
(* /l/OK.txt: upper-case only where the star stands *)
Definition ex_name_star : bytes := [47;108;47;79;75;46;116;120;116].

Example ex_case_premises :
  plain_pattern ex_pat_ext = true /\ no_upper ex_pat_ext = true /\
  glob_match ex_pat_ext ex_name_ok = GOk true /\ glob_match ex_pat_ext ex_name_star = GOk true.
Proof. repeat split; reflexivity. Qed.

Example ex_case_dir : glob_match ex_pat_ext ex_name_dir = GOk false.
Proof. reflexivity. Qed.
Example ex_case_ext : glob_match ex_pat_ext ex_name_ext = GOk false.
Proof. reflexivity. Qed.
(* exact.list against Exact.list *)
Example ex_case_exact :
  forallb is_lit [101;120;97;99;116;46;108;105;115;116] = true /\
  glob_match [101;120;97;99;116;46;108;105;115;116] [69;120;97;99;116;46;108;105;115;116] = GOk false.
Proof. split; reflexivity. Qed.
(* a class is byte-exact too: [a-z] against A *)
Example ex_case_class : glob_match [91;97;45;122;93] [65] = GOk false.
Proof. reflexivity. Qed.

(** Lower-casing both sides first (red-team change C17-F) is a different
    relation: it admits names the configured pattern does not match. *)
Example lowered_match_differs :
  glob_match (lower ex_pat_ext) (lower ex_name_dir) = GOk true /\
  glob_match ex_pat_ext ex_name_dir = GOk false.
Proof. split; reflexivity. Qed.

(** Layer B: what the DNS engine's choice among matching rules means. *)
From Coq Require Import List NArith Bool Lia.
From AGH Require Import Base.Run Base.NetAddr Base.RuleEngine.
Import ListNotations.

(** Priority classes of urlfilter: important exceptions > important blocks >
    exceptions > blocks. *)
Definition rule_class (r : nrule) : nat :=
  match nr_white r, nr_important r with
  | true, true => 3
  | false, true => 2
  | true, false => 1
  | false, false => 0
  end.

Lemma class_white r : nr_white r = Nat.odd (rule_class r).
Proof. unfold rule_class. destruct (nr_white r), (nr_important r); reflexivity. Qed.

Lemma hp_class_ge f r : is_higher_priority f r = true -> (rule_class r <= rule_class f)%nat.
Proof.
  unfold is_higher_priority, rule_class.
  destruct (nr_white f), (nr_important f), (nr_white r), (nr_important r); cbn; intros; try lia; discriminate.
Qed.

Lemma class_gt_hp f r : (rule_class r < rule_class f)%nat -> is_higher_priority f r = true.
Proof.
  unfold is_higher_priority, rule_class.
  destruct (nr_white f), (nr_important f), (nr_white r), (nr_important r); cbn; intros; try reflexivity; lia.
Qed.

Lemma fold_pick_spec l : forall best,
  match fold_left pick l best with
  | None => best = None /\ l = []
  | Some r =>
      (In r l \/ best = Some r) /\
      (forall r', In r' l -> (rule_class r' <= rule_class r)%nat) /\
      (forall b, best = Some b -> (rule_class b <= rule_class r)%nat)
  end.
Proof.
  induction l as [|x l IH]; intros best; cbn [fold_left].
  - destruct best as [b|]; [|split; reflexivity].
    split; [right; reflexivity|]. split; [intros r' []|]. intros b' [= ->]. lia.
  - specialize (IH (pick best x)). destruct (fold_left pick l (pick best x)) as [r|].
    + destruct IH as (Hin & Hmax & Hbest).
      assert (Hx : (rule_class x <= rule_class r)%nat).
      { unfold pick in Hbest. destruct best as [b|].
        - destruct (is_higher_priority x b) eqn:E.
          + apply (Hbest x eq_refl).
          + specialize (Hbest b eq_refl).
            destruct (Nat.le_gt_cases (rule_class x) (rule_class b)) as [Hle|Hgt]; [lia|].
            rewrite (class_gt_hp _ _ Hgt) in E. discriminate.
        - apply (Hbest x eq_refl). }
      split; [|split].
      * destruct Hin as [Hin|Hin]; [left; right; exact Hin|].
        unfold pick in Hin. destruct best as [b|].
        -- destruct (is_higher_priority x b); inversion Hin; subst; [left; left; reflexivity | right; reflexivity].
        -- inversion Hin; subst. left; left; reflexivity.
      * intros r' [<-|Hr']; [exact Hx | apply Hmax; exact Hr'].
      * intros b ->. unfold pick in Hbest.
        destruct (is_higher_priority x b) eqn:E.
        -- apply hp_class_ge in E. lia.
        -- apply (Hbest b eq_refl).
    + destruct IH as [Hp _]. unfold pick in Hp. destruct best as [b|]; [destruct (is_higher_priority x b)|]; discriminate.
Qed.

(** The rule the engine reports is one of the matching rules that survive
    $badfilter, and no surviving rule is of a higher priority class: so the
    verdict is an exception exactly when the highest class present is an
    exception class, for rule lists of any length. *)
Theorem basic_rule_max_class rs r :
  get_dns_basic_rule rs = Some r ->
  In r (basic_candidates rs) /\
  forall r', In r' (basic_candidates rs) -> (rule_class r' <= rule_class r)%nat.
Proof.
  unfold get_dns_basic_rule. intros H.
  pose proof (fold_pick_spec (basic_candidates rs) None) as Hs. rewrite H in Hs.
  destruct Hs as ([Hin|Hin] & Hmax & _); [|discriminate]. split; assumption.
Qed.

Theorem basic_rule_none rs : get_dns_basic_rule rs = None <-> basic_candidates rs = [].
Proof.
  unfold get_dns_basic_rule. split.
  - intros H. pose proof (fold_pick_spec (basic_candidates rs) None) as Hs. rewrite H in Hs. tauto.
  - intros ->. reflexivity.
Qed.

(** Without $badfilter rules among the matches nothing is removed. *)
Lemma remove_badfilter_none rs : filter nr_badfilter rs = [] -> remove_badfilter rs = rs.
Proof. unfold remove_badfilter. intros ->. reflexivity. Qed.

(** The network rules the engine considers are exactly the listed network
    rules that match the request. *)
Lemma match_all_spec rs q r : In r (match_all rs q) <-> In r (net_rules rs) /\ nrule_match q r = true.
Proof. unfold match_all. apply filter_In. Qed.

(** A candidate for the basic rule survives $badfilter and carries no
    $dnsrewrite: rewrite rules never block or allow by themselves. *)
Lemma basic_candidates_spec rs r :
  In r (basic_candidates rs) <-> In r (remove_badfilter rs) /\ nr_drw r = None.
Proof.
  unfold basic_candidates, remove_drw. rewrite filter_In. unfold has_drw.
  destruct (nr_drw r); cbn; split; intros [H1 H2]; split; congruence.
Qed.

(** * The in-place loop of DNSRewrites never runs out of fuel *)

Lemma remove_nth_length {A} i (l : list A) : (length (remove_nth i l) <= length l)%nat.
Proof. revert i; induction l as [|x l IH]; intros [|i]; cbn; try lia. specialize (IH i). lia. Qed.

Lemma remove_nth_lt {A} i (l : list A) : (i < length l)%nat -> (length (remove_nth i l) < length l)%nat.
Proof. revert i; induction l as [|x l IH]; intros [|i]; cbn; try lia. intros H. specialize (IH i). lia. Qed.

Lemma filter_length_le {A} (f : A -> bool) l : (length (filter f l) <= length l)%nat.
Proof. induction l as [|x l IH]; cbn; [lia|]. destruct (f x); cbn; lia. Qed.

Lemma rme_length l exc : (length (remove_matching_exception l exc) <= length l)%nat.
Proof.
  unfold remove_matching_exception. destruct (drw_is_zero _); [destruct (nr_important exc); cbn; [lia|]|]; apply filter_length_le.
Qed.

Lemma drw_loop_fuel fuel : forall i l, (length l - i < fuel)%nat -> drw_loop fuel i l <> None.
Proof.
  induction fuel as [|fuel IH]; intros i l H; [lia|]. cbn [drw_loop].
  destruct (nth_error l i) as [nr|] eqn:E; [|discriminate].
  assert (Hi : (i < length l)%nat) by (apply nth_error_Some; congruence).
  destruct (nr_white nr).
  - apply IH. pose proof (rme_length (remove_nth i l) nr). pose proof (remove_nth_lt i l Hi). lia.
  - apply IH. lia.
Qed.

(** So [dns_rewrites] is the loop's result, never the out-of-fuel default. *)
Theorem dns_rewrites_total dr :
  exists l, drw_loop (S (length (filter has_drw (dr_all dr)))) 0 (filter has_drw (dr_all dr)) = Some l /\
            dns_rewrites dr = l.
Proof.
  unfold dns_rewrites.
  destruct (drw_loop _ 0 _) as [l|] eqn:E; [exists l; split; reflexivity|].
  exfalso. revert E. apply drw_loop_fuel. lia.
Qed.

(** What the loop returns is a sub-multiset of the matching $dnsrewrite
    rules: nothing is invented. *)
Lemma remove_nth_In {A} i (l : list A) x : In x (remove_nth i l) -> In x l.
Proof. revert i; induction l as [|y l IH]; intros [|i]; cbn; auto. intros [->|H]; [left; reflexivity | right; eapply IH; exact H]. Qed.

Lemma rme_In l exc x : In x (remove_matching_exception l exc) -> In x l.
Proof.
  unfold remove_matching_exception. destruct (drw_is_zero _); [destruct (nr_important exc); [intros []|]|];
    intros H; apply filter_In in H; tauto.
Qed.

Lemma drw_loop_In fuel : forall i l l' x, drw_loop fuel i l = Some l' -> In x l' -> In x l.
Proof.
  induction fuel as [|fuel IH]; intros i l l' x; cbn [drw_loop]; [discriminate|].
  destruct (nth_error l i) as [nr|]; [|intros [= <-]; auto].
  destruct (nr_white nr); intros H Hx.
  - eapply remove_nth_In, rme_In, IH; eassumption.
  - eapply IH; eassumption.
Qed.

Theorem dns_rewrites_sound dr r :
  In r (dns_rewrites dr) -> In r (dr_all dr) /\ has_drw r = true.
Proof.
  destruct (dns_rewrites_total dr) as (l & Hl & ->). intros H.
  apply (drw_loop_In _ _ _ _ _ Hl), filter_In in H. exact H.
Qed.

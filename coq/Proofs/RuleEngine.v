(** Layer B: what the DNS engine's choice among matching rules means. *)
From Coq Require Import List NArith Bool Lia.
From AGH Require Import Base.Run Base.NetAddr Base.RuleEngine.
Import ListNotations.

(** Priority classes of urlfilter: important exceptions > important blocks >
    exceptions > blocks. *)
Definition rule_class (r : nrule) : nat :=
  match nr_white r, nr_important r with
  | true, true => 3
  | false, true => 2
  | true, false => 1
  | false, false => 0
  end.

Lemma class_white r : nr_white r = Nat.odd (rule_class r).
Proof. unfold rule_class. destruct (nr_white r), (nr_important r); reflexivity. Qed.

Lemma hp_class_ge f r : is_higher_priority f r = true -> (rule_class r <= rule_class f)%nat.
Proof.
  unfold is_higher_priority, rule_class.
  destruct (nr_white f), (nr_important f), (nr_white r), (nr_important r); cbn; intros; try lia; discriminate.
Qed.

Lemma class_gt_hp f r : (rule_class r < rule_class f)%nat -> is_higher_priority f r = true.
Proof.
  unfold is_higher_priority, rule_class.
  destruct (nr_white f), (nr_important f), (nr_white r), (nr_important r); cbn; intros; try reflexivity; lia.
Qed.

Lemma fold_pick_spec l : forall best,
  match fold_left pick l best with
  | None => best = None /\ l = []
  | Some r =>
      (In r l \/ best = Some r) /\
      (forall r', In r' l -> (rule_class r' <= rule_class r)%nat) /\
      (forall b, best = Some b -> (rule_class b <= rule_class r)%nat)
  end.
Proof.
  induction l as [|x l IH]; intros best; cbn [fold_left].
  - destruct best as [b|]; [|split; reflexivity].
    split; [right; reflexivity|]. split; [intros r' []|]. intros b' [= ->]. lia.
  - specialize (IH (pick best x)). destruct (fold_left pick l (pick best x)) as [r|].
    + destruct IH as (Hin & Hmax & Hbest).
      assert (Hx : (rule_class x <= rule_class r)%nat).
      { unfold pick in Hbest. destruct best as [b|].
        - destruct (is_higher_priority x b) eqn:E.
          + apply (Hbest x eq_refl).
          + specialize (Hbest b eq_refl).
            destruct (Nat.le_gt_cases (rule_class x) (rule_class b)) as [Hle|Hgt]; [lia|].
            rewrite (class_gt_hp _ _ Hgt) in E. discriminate.
        - apply (Hbest x eq_refl). }
      split; [|split].
      * destruct Hin as [Hin|Hin]; [left; right; exact Hin|].
        unfold pick in Hin. destruct best as [b|].
        -- destruct (is_higher_priority x b); inversion Hin; subst; [left; left; reflexivity | right; reflexivity].
        -- inversion Hin; subst. left; left; reflexivity.
      * intros r' [<-|Hr']; [exact Hx | apply Hmax; exact Hr'].
      * intros b ->. unfold pick in Hbest.
        destruct (is_higher_priority x b) eqn:E.
        -- apply hp_class_ge in E. lia.
        -- apply (Hbest b eq_refl).
    + destruct IH as [Hp _]. unfold pick in Hp. destruct best as [b|]; [destruct (is_higher_priority x b)|]; discriminate.
Qed.

(** The rule the engine reports is one of the matching rules that survive
    $badfilter, and no surviving rule is of a higher priority class: so the
    verdict is an exception exactly when the highest class present is an
    exception class, for rule lists of any length. *)
Theorem basic_rule_max_class rs r :
  get_dns_basic_rule rs = Some r ->
  In r (remove_badfilter rs) /\
  forall r', In r' (remove_badfilter rs) -> (rule_class r' <= rule_class r)%nat.
Proof.
  unfold get_dns_basic_rule. intros H.
  pose proof (fold_pick_spec (remove_badfilter rs) None) as Hs. rewrite H in Hs.
  destruct Hs as ([Hin|Hin] & Hmax & _); [|discriminate]. split; assumption.
Qed.

Theorem basic_rule_none rs : get_dns_basic_rule rs = None <-> remove_badfilter rs = [].
Proof.
  unfold get_dns_basic_rule. split.
  - intros H. pose proof (fold_pick_spec (remove_badfilter rs) None) as Hs. rewrite H in Hs. tauto.
  - intros ->. reflexivity.
Qed.

(** Without $badfilter rules among the matches nothing is removed. *)
Lemma remove_badfilter_none rs : filter nr_badfilter rs = [] -> remove_badfilter rs = rs.
Proof. unfold remove_badfilter. intros ->. reflexivity. Qed.

(** The network rules the engine considers are exactly the listed network
    rules that match the request. *)
Lemma match_all_spec rs q r : In r (match_all rs q) <-> In r (net_rules rs) /\ nrule_match q r = true.
Proof. unfold match_all. apply filter_In. Qed.

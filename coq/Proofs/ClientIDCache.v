(** C04 / C16: the ClientID hand-over through [Server.clientIDCache]. *)
From Coq Require Import List NArith Bool Lia Arith.
From AGH Require Import Base.Run Model.ClientIDCache.
Import ListNotations.
Local Open Scope N_scope.

Definition keys (c : cache) : list N := map fst c.

Lemma ev_run_state cf evs : forall c, fst (ev_run cf c evs) = ev_state cf c evs.
Proof.
  unfold ev_state. induction evs as [|e evs IH]; intros c; [reflexivity|].
  cbn [ev_run fold_left]. destruct (ev_step cf c e) as [c1 o] eqn:E. cbn [fst].
  rewrite <- IH. destruct (ev_run cf c1 evs). reflexivity.
Qed.

Lemma ev_state_app cf evs1 evs2 c :
  ev_state cf c (evs1 ++ evs2) = ev_state cf (ev_state cf c evs1) evs2.
Proof. unfold ev_state. apply fold_left_app. Qed.

Lemma keys_del k c x : In x (keys (cache_del k c)) -> In x (keys c) /\ x <> k.
Proof.
  unfold keys, cache_del. rewrite in_map_iff. intros ((k', v) & <- & Hin).
  apply filter_In in Hin as [Hin Hne]. cbn [fst] in *. split.
  - apply in_map_iff. exists (k', v). auto.
  - apply negb_true_iff, N.eqb_neq in Hne. exact Hne.
Qed.

Lemma keys_app a b : keys (a ++ b) = keys a ++ keys b.
Proof. apply map_app. Qed.

Lemma keys_tl c x : In x (keys (tl c)) -> In x (keys c).
Proof. destruct c; cbn; auto. Qed.

Lemma keys_set cf k v c x : In x (keys (cache_set cf k v c)) -> x = k \/ In x (keys c).
Proof.
  unfold cache_set. destruct (match cc_max_elem cf with Some m => _ | None => _ end); [auto|].
  rewrite keys_app, in_app_iff. intros [H|H].
  - apply keys_del in H as [H _]. right. destruct (Nat.eqb _ _); [apply keys_tl|]; exact H.
  - cbn in H. destruct H as [<-|[]]. auto.
Qed.

Lemma find_none k c : ~ In k (keys c) -> cache_find k c = None.
Proof.
  induction c as [|[k' v] c IH]; cbn; intros H; [reflexivity|].
  destruct (k' =? k) eqn:E; [apply N.eqb_eq in E; tauto|]. apply IH. tauto.
Qed.

Lemma find_some_in k c v : cache_find k c = Some v -> In k (keys c).
Proof.
  induction c as [|[k' v'] c IH]; cbn; [discriminate|].
  destruct (k' =? k) eqn:E; [apply N.eqb_eq in E; auto|]. auto.
Qed.

Lemma keys_get k c x : In x (keys (snd (cache_get k c))) -> In x (keys c).
Proof.
  unfold cache_get. destruct (cache_find k c) as [v|] eqn:F; cbn [snd]; [|auto].
  rewrite keys_app, in_app_iff. intros [H|H].
  - apply keys_del in H. tauto.
  - cbn in H. destruct H as [<-|[]]. eapply find_some_in; eassumption.
Qed.

(** * No request inherits a ClientID cached by another one *)

(** Every key of the cache was put there by a HandleBefore of that very
    RequestID that had extracted a ClientID. *)
Lemma keys_step cf c e x :
  In x (keys (fst (ev_step cf c e))) ->
  In x (keys c) \/ exists cid, cid <> [] /\ e = EvBefore x cid.
Proof.
  destruct e as [rid cid|rid]; cbn [ev_step fst].
  - destruct cid as [|b cid]; [auto|]. intros H. apply keys_set in H as [->|H]; [|auto].
    right. exists (b :: cid). split; [discriminate|reflexivity].
  - intros H. left. apply (keys_get rid c x).
    destruct (cache_get rid c) as [[v|] c']; exact H.
Qed.

Lemma keys_state cf evs : forall c x,
  In x (keys (ev_state cf c evs)) ->
  In x (keys c) \/ exists cid, cid <> [] /\ In (EvBefore x cid) evs.
Proof.
  unfold ev_state. induction evs as [|e evs IH]; cbn [fold_left]; intros c x H; [auto|].
  apply IH in H as [H|(cid & Hc & Hin)].
  - apply keys_step in H as [H|(cid & Hc & ->)]; [auto|]. right. exists cid. cbn. auto.
  - right. exists cid. cbn. auto.
Qed.

Theorem no_inherit cf evs rid :
  (forall cid, In (EvBefore rid cid) evs -> cid = []) ->
  seen_after cf evs rid = [].
Proof.
  intros H. unfold seen_after. cbn [ev_step]. unfold cache_get.
  rewrite find_none; [reflexivity|].
  intros Hin. apply keys_state in Hin as [[]|(cid & Hc & Hin)]. apply Hc, H, Hin.
Qed.

(** * A ClientID survives the hand-over *)

Definition touches (rid : N) (e : ev) : Prop :=
  match e with EvBefore r _ => r = rid | EvInitial r => r = rid end.

Definition fits (cf : cache_conf) (v : bytes) : Prop :=
  match cc_max_elem cf with
  | Some m => (key_len + length v <= m)%nat
  | None => True
  end.

(** [k] is cached with [v], with at most [n] more recently used elements. *)
Definition holds (k : N) (v : bytes) (n : nat) (c : cache) : Prop :=
  exists pre post, c = pre ++ (k, v) :: post /\ ~ In k (keys pre) /\ ~ In k (keys post) /\
                   (length post <= n)%nat.

Lemma del_app k a b : cache_del k (a ++ b) = cache_del k a ++ cache_del k b.
Proof. apply filter_app. Qed.

Lemma del_length k c : (length (cache_del k c) <= length c)%nat.
Proof.
  unfold cache_del. induction c as [|x c IH]; cbn; [lia|]. destruct (negb _); cbn; lia.
Qed.

Lemma not_in_del k r c : ~ In k (keys c) -> ~ In k (keys (cache_del r c)).
Proof. intros H Hin. apply keys_del in Hin. tauto. Qed.

Lemma holds_touch k v n r v' c :
  r <> k -> holds k v n c -> holds k v (S n) (cache_del r c ++ [(r, v')]).
Proof.
  intros Hne (pre & post & -> & Hp & Hq & Hl).
  exists (cache_del r pre), (cache_del r post ++ [(r, v')]). repeat split.
  - rewrite del_app. cbn [cache_del filter fst].
    assert (negb (k =? r) = true) as -> by (apply negb_true_iff, N.eqb_neq; congruence).
    rewrite <- app_assoc. reflexivity.
  - apply not_in_del. exact Hp.
  - rewrite keys_app, in_app_iff. intros [H|H]; [apply (not_in_del k r post Hq H)|].
    cbn in H. destruct H as [H|[]]. congruence.
  - rewrite app_length. cbn. pose proof (del_length r post). lia.
Qed.

Lemma holds_weaken k v n m c : (n <= m)%nat -> holds k v n c -> holds k v m c.
Proof. intros Hle (pre & post & E & Hp & Hq & Hl). exists pre, post. repeat split; auto. lia. Qed.

Lemma holds_step cf k v n c e :
  ~ touches k e -> (S n < cc_max_count cf)%nat -> holds k v n c ->
  holds k v (S n) (fst (ev_step cf c e)).
Proof.
  intros Ht Hn Hh. destruct e as [r cid|r]; cbn [touches] in Ht; cbn [ev_step fst].
  - destruct cid as [|b cid]; [eapply holds_weaken; [|exact Hh]; lia|].
    unfold cache_set. destruct (match cc_max_elem cf with Some m => _ | None => _ end);
      [eapply holds_weaken; [|exact Hh]; lia|].
    apply holds_touch; [exact Ht|].
    destruct (Nat.eqb (length c) (cc_max_count cf)) eqn:El; [|exact Hh].
    apply Nat.eqb_eq in El. destruct Hh as (pre & post & -> & Hp & Hq & Hl).
    rewrite app_length in El. cbn [length] in El.
    destruct pre as [|x pre]; [cbn in El; lia|].
    exists pre, post. repeat split; auto. cbn in Hp. tauto.
  - unfold cache_get. destruct (cache_find r c) as [v'|] eqn:F; cbn [fst].
    + apply holds_touch; assumption.
    + eapply holds_weaken; [|exact Hh]. lia.
Qed.

Lemma holds_run cf k v evs : forall n c,
  (forall e, In e evs -> ~ touches k e) -> (n + length evs < cc_max_count cf)%nat ->
  holds k v n c -> holds k v (n + length evs) (ev_state cf c evs).
Proof.
  unfold ev_state. induction evs as [|e evs IH]; cbn [fold_left length]; intros n c Ht Hn Hh.
  - rewrite Nat.add_0_r. exact Hh.
  - replace (n + S (length evs))%nat with (S n + length evs)%nat by lia.
    apply IH; [intros e' He'; apply Ht; cbn; auto|lia|].
    apply holds_step; [apply Ht; cbn; auto|lia|exact Hh].
Qed.

Lemma holds_find k v n c : holds k v n c -> cache_find k c = Some v.
Proof.
  intros (pre & post & -> & Hp & _). induction pre as [|[k' v'] pre IH]; cbn.
  - rewrite N.eqb_refl. reflexivity.
  - cbn in Hp. destruct (k' =? k) eqn:E; [apply N.eqb_eq in E; tauto|]. apply IH. tauto.
Qed.

Lemma holds_after_set cf k v c : v <> [] -> fits cf v -> holds k v 0 (cache_set cf k v c).
Proof.
  intros Hv Hf. unfold cache_set, fits in *.
  destruct (cc_max_elem cf) as [m|].
  - assert (Nat.ltb m (key_len + length v) = false) as -> by (apply Nat.ltb_ge; lia).
    eexists _, []. split; [reflexivity|]. split; [intros H; apply keys_del in H; tauto|]. cbn. auto.
  - eexists _, []. split; [reflexivity|]. split; [intros H; apply keys_del in H; tauto|]. cbn. auto.
Qed.

(** Whatever happened before ([evs1], any cache state), a ClientID put by
    HandleBefore of request [rid] is what processInitial of [rid] reads, as
    long as fewer than MaxCount events of OTHER requests lie in between. *)
Theorem survives cf evs1 evs2 rid cid :
  cid <> [] -> fits cf cid ->
  (forall e, In e evs2 -> ~ touches rid e) ->
  (length evs2 < cc_max_count cf)%nat ->
  seen_after cf (evs1 ++ EvBefore rid cid :: evs2) rid = cid.
Proof.
  intros Hc Hf Ht Hn. unfold seen_after.
  change (evs1 ++ EvBefore rid cid :: evs2) with (evs1 ++ [EvBefore rid cid] ++ evs2).
  rewrite !ev_state_app.
  set (c0 := ev_state cf [] evs1).
  assert (H1 : holds rid cid 0 (ev_state cf c0 [EvBefore rid cid])).
  { unfold ev_state. cbn [fold_left ev_step fst]. destruct cid as [|b cid]; [congruence|].
    apply holds_after_set; assumption. }
  pose proof (holds_run cf rid cid evs2 0 _ Ht Hn H1) as H2.
  cbn [ev_step]. unfold cache_get. rewrite (holds_find _ _ _ _ H2). reflexivity.
Qed.

(** Both cases together: with RequestIDs that are the request's own (not used
    by any other event), processInitial reads exactly what HandleBefore of the
    same request extracted, a ClientID or none. *)
Theorem handover_exact cf evs1 evs2 rid cid :
  fits cf cid ->
  (forall e, In e evs1 -> ~ touches rid e) ->
  (forall e, In e evs2 -> ~ touches rid e) ->
  (length evs2 < cc_max_count cf)%nat ->
  seen_after cf (evs1 ++ EvBefore rid cid :: evs2) rid = cid.
Proof.
  intros Hf H1 H2 Hn. destruct cid as [|b cid].
  - apply no_inherit. intros c Hin. apply in_app_iff in Hin as [Hin|[Hin|Hin]].
    + exfalso. apply (H1 _ Hin). reflexivity.
    + inversion Hin. reflexivity.
    + exfalso. apply (H2 _ Hin). reflexivity.
  - apply survives; [discriminate|assumption|assumption|assumption].
Qed.

(** Every valid ClientID (a host-name label: 1 to 63 bytes) fits the
    server's cache configuration, which does not bound the element size. *)
Lemma server_conf_fits v : fits server_cache_conf v.
Proof. exact I. Qed.

(** The bound is real: with MaxCount other ClientID-carrying requests in
    between, the least recently used entry is gone (here MaxCount = 2). *)
Lemma eviction_witness :
  let cf := {| cc_max_count := 2; cc_max_elem := None |} in
  seen_after cf [EvBefore 1 [97]; EvBefore 2 [98]; EvBefore 3 [99]] 1 = [] /\
  seen_after cf [EvBefore 1 [97]; EvBefore 2 [98]] 1 = [97].
Proof. vm_compute. split; reflexivity. Qed.

(** A cache keyed by anything that two requests can share (the DNS message
    id, say) hands one request's ClientID to the other: with the RequestID
    the premise of [no_inherit] holds by construction for a request that
    carried none. *)
Lemma shared_key_inherits :
  seen_after server_cache_conf [EvBefore 0 [97]] 0 = [97].
Proof. vm_compute. reflexivity. Qed.

(** C07 proofs about Model/QLogCodec.v: the string escaping of encoding/json
    against the scanner (every well-formed UTF-8 string comes back, whatever
    it contains), and the raw-line pre-match (quickMatch) against the match
    on the decoded entry. *)
From Coq Require Import ZArith NArith List Bool Lia Ascii String.
From AGH Require Import Base.Run Model.QLogFile Model.QLog Model.QLogCodec.
Import ListNotations.
Local Open Scope N_scope.

(** ** Small facts *)
Lemma below16 (P : N -> Prop) :
  P 0 -> P 1 -> P 2 -> P 3 -> P 4 -> P 5 -> P 6 -> P 7 -> P 8 -> P 9 -> P 10 -> P 11 ->
  P 12 -> P 13 -> P 14 -> P 15 -> forall x, x < 16 -> P x.
Proof.
  intros. destruct x as [|p]; auto.
  do 5 (try match goal with q : positive |- _ => destruct q end); auto; lia.
Qed.

Lemma unhex_hexd x : x < 16 -> unhex (hexd x) = Some x.
Proof. revert x. apply below16; reflexivity. Qed.

Lemma ltb_lt' a b : (a <? b) = true <-> a < b.
Proof. apply N.ltb_lt. Qed.

Ltac bool_hyps :=
  repeat match goal with
  | H : (_ && _) = true |- _ => apply andb_true_iff in H as [? ?]
  | H : (_ || _) = false |- _ => apply orb_false_iff in H as [? ?]
  | H : (_ <? _) = true |- _ => apply N.ltb_lt in H
  | H : (_ <? _) = false |- _ => apply N.ltb_ge in H
  | H : (_ <=? _) = true |- _ => apply N.leb_le in H
  | H : (_ <=? _) = false |- _ => apply N.leb_gt in H
  | H : (_ =? _) = true |- _ => apply N.eqb_eq in H
  | H : (_ =? _) = false |- _ => apply N.eqb_neq in H
  | H : in_r _ _ _ = true |- _ => unfold in_r in H
  | H : cont _ = true |- _ => unfold cont, in_r in H
  end.

(** ** The recursion of enc_str as an induction principle *)
Lemma enc_ind (P : bytes -> Prop) :
  P [] ->
  (forall b r, (b <? 128) = true -> P r -> P (b :: r)) ->
  (forall b0 b1 r, (b0 <? 128) = false -> u8len (b0 :: b1 :: r) = 2%nat -> P r -> P (b0 :: b1 :: r)) ->
  (forall b0 b1 b2 r, (b0 <? 128) = false -> u8len (b0 :: b1 :: b2 :: r) = 3%nat -> P r -> P (b0 :: b1 :: b2 :: r)) ->
  (forall b0 b1 b2 b3 r, (b0 <? 128) = false -> u8len (b0 :: b1 :: b2 :: b3 :: r) = 4%nat -> P r ->
     P (b0 :: b1 :: b2 :: b3 :: r)) ->
  (forall b0 r, (b0 <? 128) = false -> enc_str (b0 :: r) = fffd_esc ++ enc_str r ->
     utf8_ok (b0 :: r) = false -> P r -> P (b0 :: r)) ->
  forall s, P s.
Proof.
  intros H0 H1 H2 H3 H4 H5 s.
  assert (G : forall n s, (length s <= n)%nat -> P s).
  { induction n as [|n IH]; intros s' Hl.
    - destruct s'; [auto|cbn in Hl; lia].
    - destruct s' as [|b0 r]; [auto|]. cbn [length] in Hl.
      destruct (b0 <? 128) eqn:Eb; [apply H1; auto; apply IH; lia|].
      destruct (u8len (b0 :: r)) as [|[|[|[|[|k]]]]] eqn:Eu.
      + apply H5; auto; [cbn [enc_str]; rewrite Eb, Eu; reflexivity|cbn [utf8_ok]; rewrite Eb, Eu; reflexivity|apply IH; lia].
      + exfalso. unfold u8len in Eu. destruct (in_r 194 223 b0); [destruct r as [|b1 r]; [|destruct (cont b1)]; discriminate|].
        destruct (in_r 224 239 b0); [destruct r as [|b1 [|b2 r]]; try discriminate;
          destruct (in_r (lo2 b0) (hi2 b0) b1 && cont b2); discriminate|].
        destruct (in_r 240 244 b0); [destruct r as [|b1 [|b2 [|b3 r]]]; try discriminate;
          destruct (in_r (lo2 b0) (hi2 b0) b1 && cont b2 && cont b3); discriminate|discriminate].
      + destruct r as [|b1 r1].
        * exfalso. unfold u8len in Eu. destruct (in_r 194 223 b0); [discriminate|].
          destruct (in_r 224 239 b0); [discriminate|]. destruct (in_r 240 244 b0); discriminate.
        * apply H2; auto. apply IH. cbn [length] in Hl. lia.
      + destruct r as [|b1 [|b2 r2]];
          try (exfalso; unfold u8len in Eu; destruct (in_r 194 223 b0);
               [try discriminate; destruct (cont b1); discriminate|];
               destruct (in_r 224 239 b0); [discriminate|]; destruct (in_r 240 244 b0); discriminate).
        apply H3; auto. apply IH. cbn [length] in Hl. lia.
      + destruct r as [|b1 [|b2 [|b3 r3]]];
          try (exfalso; unfold u8len in Eu; destruct (in_r 194 223 b0);
               [try discriminate; destruct (cont b1); discriminate|];
               destruct (in_r 224 239 b0);
               [try discriminate; destruct (in_r (lo2 b0) (hi2 b0) b1 && cont b2); discriminate|];
               destruct (in_r 240 244 b0); discriminate).
        apply H4; auto. apply IH. cbn [length] in Hl. lia.
      + exfalso. unfold u8len in Eu. destruct (in_r 194 223 b0); [destruct r as [|b1 r]; [|destruct (cont b1)]; discriminate|].
        destruct (in_r 224 239 b0); [destruct r as [|b1 [|b2 r]]; try discriminate;
          destruct (in_r (lo2 b0) (hi2 b0) b1 && cont b2); discriminate|].
        destruct (in_r 240 244 b0); [destruct r as [|b1 [|b2 [|b3 r]]]; try discriminate;
          destruct (in_r (lo2 b0) (hi2 b0) b1 && cont b2 && cont b3); discriminate|discriminate]. }
  apply (G (length s)). lia.
Qed.

(** What u8len = k says about the bytes. *)
Lemma u8len_2 b0 b1 r : u8len (b0 :: b1 :: r) = 2%nat -> in_r 194 223 b0 = true /\ cont b1 = true.
Proof.
  unfold u8len. destruct (in_r 194 223 b0).
  - destruct (cont b1); [auto|discriminate].
  - destruct (in_r 224 239 b0); [destruct r; [discriminate|]; destruct (in_r (lo2 b0) (hi2 b0) b1 && cont n); discriminate|].
    destruct (in_r 240 244 b0); [destruct r as [|? [|? ?]]; try discriminate;
      destruct (in_r (lo2 b0) (hi2 b0) b1 && cont n && cont n0); discriminate|discriminate].
Qed.

Lemma u8len_3 b0 b1 b2 r : u8len (b0 :: b1 :: b2 :: r) = 3%nat ->
  in_r 194 223 b0 = false /\ in_r 224 239 b0 = true /\ in_r (lo2 b0) (hi2 b0) b1 = true /\ cont b2 = true.
Proof.
  unfold u8len. destruct (in_r 194 223 b0); [destruct (cont b1); discriminate|].
  destruct (in_r 224 239 b0).
  - destruct (in_r (lo2 b0) (hi2 b0) b1); [destruct (cont b2); [auto|discriminate]|discriminate].
  - destruct (in_r 240 244 b0); [destruct r; [discriminate|];
      destruct (in_r (lo2 b0) (hi2 b0) b1 && cont b2 && cont n); discriminate|discriminate].
Qed.

Lemma u8len_4 b0 b1 b2 b3 r : u8len (b0 :: b1 :: b2 :: b3 :: r) = 4%nat ->
  in_r 194 223 b0 = false /\ in_r 224 239 b0 = false /\ in_r 240 244 b0 = true /\
  in_r (lo2 b0) (hi2 b0) b1 = true /\ cont b2 = true /\ cont b3 = true.
Proof.
  unfold u8len. destruct (in_r 194 223 b0); [destruct (cont b1); discriminate|].
  destruct (in_r 224 239 b0); [destruct (in_r (lo2 b0) (hi2 b0) b1 && cont b2); discriminate|].
  destruct (in_r 240 244 b0); [|discriminate].
  destruct (in_r (lo2 b0) (hi2 b0) b1); [|discriminate]. destruct (cont b2); [|discriminate].
  destruct (cont b3); [auto 6|discriminate].
Qed.

(** The defining equations of [enc_str] / [utf8_ok], case by case. *)
Definition esc3 (b0 b1 b2 : N) : bytes :=
  if (b0 =? 226) && (b1 =? 128) && ((b2 =? 168) || (b2 =? 169))
  then [92; 117; 50; 48; 50; if b2 =? 168 then 56 else 57] else [b0; b1; b2].

Lemma enc_str_1 b r : (b <? 128) = true -> enc_str (b :: r) = esc_byte b ++ enc_str r.
Proof. intro H. cbn [enc_str]. rewrite H. reflexivity. Qed.
Lemma enc_str_2 b0 b1 r : (b0 <? 128) = false -> u8len (b0 :: b1 :: r) = 2%nat ->
  enc_str (b0 :: b1 :: r) = [b0; b1] ++ enc_str r.
Proof. intros H H0. cbn [enc_str]. rewrite H, H0. reflexivity. Qed.
Lemma enc_str_3 b0 b1 b2 r : (b0 <? 128) = false -> u8len (b0 :: b1 :: b2 :: r) = 3%nat ->
  enc_str (b0 :: b1 :: b2 :: r) = esc3 b0 b1 b2 ++ enc_str r.
Proof. intros H H0. cbn [enc_str]. rewrite H, H0. reflexivity. Qed.
Lemma enc_str_4 b0 b1 b2 b3 r : (b0 <? 128) = false -> u8len (b0 :: b1 :: b2 :: b3 :: r) = 4%nat ->
  enc_str (b0 :: b1 :: b2 :: b3 :: r) = [b0; b1; b2; b3] ++ enc_str r.
Proof. intros H H0. cbn [enc_str]. rewrite H, H0. reflexivity. Qed.
Lemma utf8_ok_1 b r : (b <? 128) = true -> utf8_ok (b :: r) = utf8_ok r.
Proof. intro H. cbn [utf8_ok]. rewrite H. reflexivity. Qed.
Lemma utf8_ok_2 b0 b1 r : (b0 <? 128) = false -> u8len (b0 :: b1 :: r) = 2%nat ->
  utf8_ok (b0 :: b1 :: r) = utf8_ok r.
Proof. intros H H0. cbn [utf8_ok]. rewrite H, H0. reflexivity. Qed.
Lemma utf8_ok_3 b0 b1 b2 r : (b0 <? 128) = false -> u8len (b0 :: b1 :: b2 :: r) = 3%nat ->
  utf8_ok (b0 :: b1 :: b2 :: r) = utf8_ok r.
Proof. intros H H0. cbn [utf8_ok]. rewrite H, H0. reflexivity. Qed.
Lemma utf8_ok_4 b0 b1 b2 b3 r : (b0 <? 128) = false -> u8len (b0 :: b1 :: b2 :: b3 :: r) = 4%nat ->
  utf8_ok (b0 :: b1 :: b2 :: b3 :: r) = utf8_ok r.
Proof. intros H H0. cbn [utf8_ok]. rewrite H, H0. reflexivity. Qed.

(** ** The scanner reads back what appendString wrote *)
Definition srun (s : bytes) (st : sst) : sst := fold_left sstep s st.

Lemma run_app a b st : srun (a ++ b) st = srun b (srun a st).
Proof. apply fold_left_app. Qed.

Definition in_str (ts : list token) (acc : bytes) : sst := {| toks := ts; md := MStr acc |}.

Lemma run_u00 ts acc h l dh dl : unhex h = Some dh -> unhex l = Some dl ->
  srun [92; 117; 48; 48; h; l] (in_str ts acc) = in_str ts (rev (rune_utf8 (dh * 16 + dl)) ++ acc).
Proof.
  intros Hh Hl. unfold srun, in_str. cbn [fold_left].
  change (sstep (sstep (sstep (sstep {| toks := ts; md := MStr acc |} 92) 117) 48) 48)
    with {| toks := ts; md := MHex acc 2 0 |}.
  unfold sstep at 2. cbn [md toks]. rewrite Hh. unfold sstep. cbn [md toks]. rewrite Hl.
  change (0 * 16 + dh) with dh. reflexivity.
Qed.

Lemma run_esc_byte ts acc b : b < 128 -> srun (esc_byte b) (in_str ts acc) = in_str ts (b :: acc).
Proof.
  intro Hb. unfold esc_byte.
  destruct ((b =? 34) || (b =? 92)) eqn:E1.
  { apply orb_true_iff in E1 as [E|E]; apply N.eqb_eq in E; subst; reflexivity. }
  destruct (b =? 8) eqn:E2; [apply N.eqb_eq in E2; subst; reflexivity|].
  destruct (b =? 12) eqn:E3; [apply N.eqb_eq in E3; subst; reflexivity|].
  destruct (b =? 10) eqn:E4; [apply N.eqb_eq in E4; subst; reflexivity|].
  destruct (b =? 13) eqn:E5; [apply N.eqb_eq in E5; subst; reflexivity|].
  destruct (b =? 9) eqn:E6; [apply N.eqb_eq in E6; subst; reflexivity|].
  destruct ((b <? 32) || (b =? 60) || (b =? 62) || (b =? 38)) eqn:E7.
  - (* \u00XX *)
    assert (Hq : b / 16 < 16) by (apply N.div_lt_upper_bound; lia).
    assert (Hr : b mod 16 < 16) by (apply N.mod_upper_bound; lia).
    rewrite (run_u00 ts acc _ _ _ _ (unhex_hexd _ Hq) (unhex_hexd _ Hr)).
    replace (b / 16 * 16 + b mod 16) with b by (pose proof (N.div_mod b 16); lia).
    unfold rune_utf8. replace (b <? 128) with true by (symmetry; apply N.ltb_lt; auto). reflexivity.
  - (* literal *)
    bool_hyps. unfold srun, in_str. cbn [fold_left sstep md toks]. unfold step_str.
    replace (b =? 34) with false by (symmetry; apply N.eqb_neq; auto).
    replace (b =? 92) with false by (symmetry; apply N.eqb_neq; auto).
    replace (b <? 32) with false by (symmetry; apply N.ltb_ge; auto).
    replace (b <? 128) with true by (symmetry; apply N.ltb_lt; auto). reflexivity.
Qed.

(** A lead byte >= 0x80 in string state. *)
Lemma step_str_hi ts acc b : (b <? 128) = false ->
  step_str ts acc b =
    if in_r 194 223 b then {| toks := ts; md := MStrU acc 1 1 [b] 128 191 |}
    else if in_r 224 239 b then {| toks := ts; md := MStrU acc 2 1 [b] (lo2 b) (hi2 b) |}
    else if in_r 240 244 b then {| toks := ts; md := MStrU acc 3 1 [b] (lo2 b) (hi2 b) |}
    else {| toks := ts; md := MStr (fffds 1 acc) |}.
Proof.
  intro H. unfold step_str. apply N.ltb_ge in H.
  replace (b =? 34) with false by (symmetry; apply N.eqb_neq; lia).
  replace (b =? 92) with false by (symmetry; apply N.eqb_neq; lia).
  replace (b <? 32) with false by (symmetry; apply N.ltb_ge; lia).
  replace (b <? 128) with false by (symmetry; apply N.ltb_ge; lia). reflexivity.
Qed.

Lemma run_u2028 ts acc b2 : b2 = 168 \/ b2 = 169 ->
  srun [92; 117; 50; 48; 50; if b2 =? 168 then 56 else 57] (in_str ts acc) = in_str ts (b2 :: 128 :: 226 :: acc).
Proof. intros [-> | ->]; reflexivity. Qed.

Theorem run_enc_str : forall s ts acc, utf8_ok s = true ->
  srun (enc_str s) (in_str ts acc) = in_str ts (rev s ++ acc).
Proof.
  intro s. induction s as [|b r H IHs|b0 b1 r H H0 IHs|b0 b1 b2 r H H0 IHs|b0 b1 b2 b3 r H H0 IHs|b0 r H H0 H1 IHs] using enc_ind;
    intros ts acc Hok.
  - reflexivity.
  - rewrite enc_str_1 by auto. rewrite utf8_ok_1 in Hok by auto.
    rewrite run_app, run_esc_byte by (apply N.ltb_lt; auto).
    rewrite IHs by auto. cbn [rev]. rewrite <- app_assoc. reflexivity.
  - rewrite enc_str_2 by auto. rewrite utf8_ok_2 in Hok by auto.
    destruct (u8len_2 _ _ _ H0) as [Ha Hb]. rewrite run_app.
    assert (E : srun [b0; b1] (in_str ts acc) = in_str ts (b1 :: b0 :: acc)).
    { unfold srun, in_str. cbn [fold_left]. unfold sstep at 2. cbn [md toks].
      rewrite step_str_hi, Ha by auto. unfold sstep. cbn [md toks]. fold (cont b1). rewrite Hb. reflexivity. }
    rewrite E, IHs by auto. cbn [rev]. rewrite <- !app_assoc. reflexivity.
  - rewrite enc_str_3 by auto. rewrite utf8_ok_3 in Hok by auto.
    destruct (u8len_3 _ _ _ _ H0) as (Ha & Hb & Hc & Hd). rewrite run_app.
    assert (E : srun (esc3 b0 b1 b2) (in_str ts acc) = in_str ts (b2 :: b1 :: b0 :: acc)).
    { unfold esc3. destruct ((b0 =? 226) && (b1 =? 128) && ((b2 =? 168) || (b2 =? 169))) eqn:Es.
      - apply andb_true_iff in Es as [Es E3]. apply andb_true_iff in Es as [E1 E2].
        apply N.eqb_eq in E1, E2. subst b0 b1. apply run_u2028.
        apply orb_true_iff in E3 as [E3|E3]; apply N.eqb_eq in E3; auto.
      - unfold srun, in_str. cbn [fold_left]. unfold sstep at 3. cbn [md toks].
        rewrite step_str_hi, Ha, Hb by auto. unfold sstep at 2. cbn [md toks]. rewrite Hc.
        unfold sstep. cbn [md toks]. fold (cont b2). rewrite Hd. reflexivity. }
    rewrite E, IHs by auto. cbn [rev]. rewrite <- !app_assoc. reflexivity.
  - rewrite enc_str_4 by auto. rewrite utf8_ok_4 in Hok by auto.
    destruct (u8len_4 _ _ _ _ _ H0) as (Ha & Hb & Hc & Hd & He & Hf). rewrite run_app.
    assert (E : srun [b0; b1; b2; b3] (in_str ts acc) = in_str ts (b3 :: b2 :: b1 :: b0 :: acc)).
    { unfold srun, in_str. cbn [fold_left]. unfold sstep at 4. cbn [md toks].
      rewrite step_str_hi, Ha, Hb, Hc by auto. unfold sstep at 3. cbn [md toks]. rewrite Hd.
      unfold sstep at 2. cbn [md toks]. fold (cont b2). rewrite He.
      unfold sstep. cbn [md toks]. fold (cont b3). rewrite Hf. reflexivity. }
    rewrite E, IHs by auto. cbn [rev]. rewrite <- !app_assoc. reflexivity.
  - congruence.
Qed.

(** *** C07_string_roundtrip: a quoted string is scanned back as the string. *)
Theorem scan_quote s ts : utf8_ok s = true ->
  srun (quote s) {| toks := ts; md := MBetween |} = {| toks := TStr s :: ts; md := MBetween |}.
Proof.
  intro Hok. unfold quote. change (34 :: enc_str s ++ [34]) with ([34] ++ enc_str s ++ [34]).
  rewrite !run_app. change (srun [34] {| toks := ts; md := MBetween |}) with (in_str ts []).
  rewrite run_enc_str by auto. rewrite app_nil_r.
  unfold srun, in_str. cbn [fold_left sstep md toks]. unfold step_str. cbn [N.eqb Pos.eqb].
  unfold tpush. rewrite rev_involutive. reflexivity.
Qed.

Corollary scan_string_alone s : utf8_ok s = true -> scan (quote s) = [TStr s].
Proof. intro H. unfold scan. fold (srun (quote s) sst0). unfold sst0. rewrite scan_quote by auto. reflexivity. Qed.

(** Premises satisfiable, with everything encoding/json escapes. *)
Example string_roundtrip_example :
  let s := B "a<b>&""\/" ++ [1; 9; 10; 31; 127; 208; 191; 226; 128; 168; 240; 159; 152; 128] in
  utf8_ok s = true /\ scan (quote s) = [TStr s] /\ has_bs (quote s) = true.
Proof. vm_compute. auto. Qed.

(** ** The raw value read from the line *)

(** The text of an escaped string up to its closing quote either holds a
    backslash or is the string itself. *)
Theorem until_quote_enc : forall s rest, exists r,
  until_quote (enc_str s ++ 34 :: rest) = Some r /\ (has_bs r = false -> r = s).
Proof.
  intro s. induction s as [|b r H IHs|b0 b1 r H H0 IHs|b0 b1 b2 r H H0 IHs|b0 b1 b2 b3 r H H0 IHs|b0 r H H0 H1 IHs] using enc_ind; intro rest.
  - exists []. split; reflexivity.
  - destruct (IHs rest) as (r' & Hr & Hs). rewrite enc_str_1 by auto. apply N.ltb_lt in H.
    unfold esc_byte.
    destruct ((b =? 34) || (b =? 92)) eqn:E1.
    { apply orb_true_iff in E1 as [E|E]; apply N.eqb_eq in E; subst b.
      - exists [92]. split; [reflexivity|discriminate].
      - exists (92 :: 92 :: r'). cbn [app until_quote]. change (92 =? 34) with false. cbv beta iota.
        rewrite Hr. split; [reflexivity|discriminate]. }
    destruct (b =? 8); [exists (92 :: 98 :: r'); cbn [app until_quote N.eqb Pos.eqb]; rewrite Hr; split; [reflexivity|discriminate]|].
    destruct (b =? 12); [exists (92 :: 102 :: r'); cbn [app until_quote N.eqb Pos.eqb]; rewrite Hr; split; [reflexivity|discriminate]|].
    destruct (b =? 10); [exists (92 :: 110 :: r'); cbn [app until_quote N.eqb Pos.eqb]; rewrite Hr; split; [reflexivity|discriminate]|].
    destruct (b =? 13); [exists (92 :: 114 :: r'); cbn [app until_quote N.eqb Pos.eqb]; rewrite Hr; split; [reflexivity|discriminate]|].
    destruct (b =? 9); [exists (92 :: 116 :: r'); cbn [app until_quote N.eqb Pos.eqb]; rewrite Hr; split; [reflexivity|discriminate]|].
    destruct ((b <? 32) || (b =? 60) || (b =? 62) || (b =? 38)).
    + assert (Hh : forall x, x < 16 -> (hexd x =? 34) = false).
      { apply below16; reflexivity. }
      assert (Hq : b / 16 < 16) by (apply N.div_lt_upper_bound; lia).
      assert (Hm : b mod 16 < 16) by (apply N.mod_upper_bound; lia).
      exists (92 :: 117 :: 48 :: 48 :: hexd (b / 16) :: hexd (b mod 16) :: r').
      cbn [app until_quote]. change (92 =? 34) with false. change (117 =? 34) with false.
      change (48 =? 34) with false. cbv beta iota. rewrite (Hh _ Hq), (Hh _ Hm), Hr.
      split; [reflexivity|discriminate].
    + apply orb_false_iff in E1 as [E1 E2]. exists (b :: r'). cbn [app until_quote]. rewrite E1, Hr.
      split; [reflexivity|]. cbn [has_bs existsb]. rewrite N.eqb_sym, E2. cbn [orb]. intro Hb.
      f_equal. apply Hs. exact Hb.
  - destruct (IHs rest) as (r' & Hr & Hs). rewrite enc_str_2 by auto.
    destruct (u8len_2 _ _ _ H0) as [Ha Hb]. bool_hyps.
    exists (b0 :: b1 :: r'). cbn [app until_quote].
    replace (b0 =? 34) with false by (symmetry; apply N.eqb_neq; lia).
    replace (b1 =? 34) with false by (symmetry; apply N.eqb_neq; lia). rewrite Hr.
    split; [reflexivity|]. cbn [has_bs existsb].
    replace (92 =? b0) with false by (symmetry; apply N.eqb_neq; lia).
    replace (92 =? b1) with false by (symmetry; apply N.eqb_neq; lia). cbn [orb].
    intro Hb'. do 2 f_equal. apply Hs. exact Hb'.
  - destruct (IHs rest) as (r' & Hr & Hs). rewrite enc_str_3 by auto.
    destruct (u8len_3 _ _ _ _ H0) as (Ha & Hb & Hc & Hd). unfold esc3.
    destruct ((b0 =? 226) && (b1 =? 128) && ((b2 =? 168) || (b2 =? 169))).
    + exists (92 :: 117 :: 50 :: 48 :: 50 :: (if b2 =? 168 then 56 else 57) :: r').
      cbn [app until_quote]. change (92 =? 34) with false. change (117 =? 34) with false.
      change (50 =? 34) with false. change (48 =? 34) with false. cbv beta iota.
      replace ((if b2 =? 168 then 56 else 57) =? 34) with false by (destruct (b2 =? 168); reflexivity).
      rewrite Hr. split; [reflexivity|discriminate].
    + assert (H1 : 224 <= b0) by (bool_hyps; lia).
      assert (H2 : 128 <= b1) by (bool_hyps; unfold lo2 in *; destruct (b0 =? 224); [lia|]; destruct (b0 =? 240); lia).
      assert (H3 : 128 <= b2) by (bool_hyps; lia).
      exists (b0 :: b1 :: b2 :: r'). cbn [app until_quote].
      replace (b0 =? 34) with false by (symmetry; apply N.eqb_neq; lia).
      replace (b1 =? 34) with false by (symmetry; apply N.eqb_neq; lia).
      replace (b2 =? 34) with false by (symmetry; apply N.eqb_neq; lia). rewrite Hr.
      split; [reflexivity|]. cbn [has_bs existsb].
      replace (92 =? b0) with false by (symmetry; apply N.eqb_neq; lia).
      replace (92 =? b1) with false by (symmetry; apply N.eqb_neq; lia).
      replace (92 =? b2) with false by (symmetry; apply N.eqb_neq; lia). cbn [orb].
      intro Hb'. do 3 f_equal. apply Hs. exact Hb'.
  - destruct (IHs rest) as (r' & Hr & Hs). rewrite enc_str_4 by auto.
    destruct (u8len_4 _ _ _ _ _ H0) as (Ha & Hb & Hc & Hd & He & Hf).
    assert (H1 : 240 <= b0) by (bool_hyps; lia).
    assert (H2 : 128 <= b1) by (bool_hyps; unfold lo2 in *; destruct (b0 =? 224); [lia|]; destruct (b0 =? 240); lia).
    assert (H3 : 128 <= b2) by (bool_hyps; lia).
    assert (H4 : 128 <= b3) by (bool_hyps; lia).
    exists (b0 :: b1 :: b2 :: b3 :: r'). cbn [app until_quote].
    replace (b0 =? 34) with false by (symmetry; apply N.eqb_neq; lia).
    replace (b1 =? 34) with false by (symmetry; apply N.eqb_neq; lia).
    replace (b2 =? 34) with false by (symmetry; apply N.eqb_neq; lia).
    replace (b3 =? 34) with false by (symmetry; apply N.eqb_neq; lia). rewrite Hr.
    split; [reflexivity|]. cbn [has_bs existsb].
    replace (92 =? b0) with false by (symmetry; apply N.eqb_neq; lia).
    replace (92 =? b1) with false by (symmetry; apply N.eqb_neq; lia).
    replace (92 =? b2) with false by (symmetry; apply N.eqb_neq; lia).
    replace (92 =? b3) with false by (symmetry; apply N.eqb_neq; lia). cbn [orb].
    intro Hb'. do 4 f_equal. apply Hs. exact Hb'.
  - destruct (IHs rest) as (r' & Hr & Hs). rewrite H0.
    exists (fffd_esc ++ r'). unfold fffd_esc. cbn [app until_quote N.eqb Pos.eqb]. rewrite Hr.
    split; [reflexivity|discriminate].
Qed.

(** ** quickMatch on real lines *)

(** The value [read_json_value] finds for key [p] is the escaped text of [s]
    up to its closing quote. *)
Definition located (line p s : bytes) : Prop :=
  exists rest, until_quote (enc_str s ++ 34 :: rest) = Some (read_json_value line p).

Lemma located_value line p s : located line p s -> has_bs (read_json_value line p) = false ->
  read_json_value line p = s.
Proof.
  intros [rest H] Hb. destruct (until_quote_enc s rest) as (r & Hr & Hs).
  rewrite H in Hr. injection Hr as <-. auto.
Qed.

(** RFC3339 texts: digits and "-:.+TZ". *)
Definition time_char (b : N) : bool :=
  in_r 48 57 b || (b =? 45) || (b =? 58) || (b =? 46) || (b =? 43) || (b =? 84) || (b =? 90).
Definition time_text (t : bytes) : bool := forallb time_char t.

Lemma time_char_facts b : time_char b = true ->
  (b <? 128) = true /\ esc_byte b = [b] /\ b <> 34 /\ b <> 81.
Proof.
  unfold time_char, in_r. intro H.
  assert (Hc : (48 <= b <= 57) \/ b = 45 \/ b = 58 \/ b = 46 \/ b = 43 \/ b = 84 \/ b = 90).
  { repeat (apply orb_true_iff in H as [H|H]); try (apply N.eqb_eq in H; auto 8).
    apply andb_true_iff in H as [H1 H2]. apply N.leb_le in H1, H2. auto. }
  assert (Hd : b = 48 \/ b = 49 \/ b = 50 \/ b = 51 \/ b = 52 \/ b = 53 \/ b = 54 \/ b = 55 \/ b = 56 \/ b = 57 \/
               b = 45 \/ b = 58 \/ b = 46 \/ b = 43 \/ b = 84 \/ b = 90) by lia.
  clear H Hc. repeat (destruct Hd as [->|Hd]; [repeat split; (reflexivity || discriminate)|]).
  subst. repeat split; (reflexivity || discriminate).
Qed.

Lemma enc_str_time t : time_text t = true -> enc_str t = t.
Proof.
  induction t as [|b t IH]; intro H; [reflexivity|]. cbn [time_text forallb] in H.
  apply andb_true_iff in H as [Hb Ht]. destruct (time_char_facts _ Hb) as (H1 & H2 & _).
  rewrite enc_str_1, H2 by auto. cbn [app]. f_equal. auto.
Qed.

Lemma after_first_skip p0 p a r : (forall b, In b a -> b <> p0) ->
  after_first (p0 :: p) (a ++ r) = after_first (p0 :: p) r.
Proof.
  induction a as [|b a IH]; intro H; [reflexivity|].
  cbn [app after_first is_prefix]. replace (p0 =? b) with false
    by (symmetry; apply N.eqb_neq; intro; subst; eapply H; [left|]; reflexivity).
  cbn [andb]. apply IH. intros; apply H; right; auto.
Qed.

Lemma after_first_step p x r : is_prefix p (x :: r) = false -> after_first p (x :: r) = after_first p r.
Proof. intro H. cbn [after_first]. rewrite H. reflexivity. Qed.

(** json.Marshal writes T first and QH second. *)
Lemma join_cons f R : is_nil f = false ->
  join_fields (f :: R) = f ++ match join_fields R with [] => [] | rest => 44 :: rest end.
Proof. intro H. cbn [join_fields]. rewrite H. destruct (join_fields R); [rewrite app_nil_r|]; reflexivity. Qed.

Lemma encode_head e : exists rest,
  encode e = [123; 34; 84; 34; 58; 34] ++ enc_str (slot e sT) ++ [34; 44] ++ pQH ++
             enc_str (slot e sQH) ++ 34 :: rest.
Proof.
  unfold encode, obj. rewrite join_cons by reflexivity. rewrite join_cons by reflexivity.
  set (sep2 := match join_fields _ with [] => [] | rest => 44 :: rest end).
  exists (sep2 ++ [125]).
  unfold fld, quote. change (B "T") with [84]. change (B "QH") with [81; 72].
  change pQH with [34; 81; 72; 34; 58; 34]. cbn [app].
  repeat (rewrite <- app_assoc; cbn [app]). reflexivity.
Qed.

Lemma located_qh e : time_text (slot e sT) = true -> located (encode e) pQH (slot e sQH).
Proof.
  intro Ht. destruct (encode_head e) as [rest E]. exists rest.
  unfold read_json_value. rewrite E, (enc_str_time _ Ht).
  assert (Hall : forall b, In b (slot e sT) -> b <> 34 /\ b <> 81).
  { intros b Hb. unfold time_text in Ht. rewrite forallb_forall in Ht.
    destruct (time_char_facts _ (Ht _ Hb)) as (_ & _ & ? & ?). auto. }
  change pQH with [34; 81; 72; 34; 58; 34].
  (* the six leading bytes *)
  assert (E1 : after_first [34; 81; 72; 34; 58; 34]
                 ([123; 34; 84; 34; 58; 34] ++ slot e sT ++ [34; 44] ++ [34; 81; 72; 34; 58; 34] ++
                  enc_str (slot e sQH) ++ 34 :: rest) =
               after_first [34; 81; 72; 34; 58; 34]
                 (slot e sT ++ [34; 44] ++ [34; 81; 72; 34; 58; 34] ++ enc_str (slot e sQH) ++ 34 :: rest)).
  { cbn [app].
    do 5 (rewrite after_first_step by reflexivity).
    apply after_first_step.
    destruct (slot e sT) as [|b t] eqn:Et; [reflexivity|].
    cbn [app is_prefix]. replace (81 =? b) with false; [reflexivity|].
    symmetry. apply N.eqb_neq. intro; subst b. destruct (Hall 81 (or_introl eq_refl)) as [_ ?]. congruence. }
  rewrite E1. rewrite after_first_skip by (intros b Hb; apply Hall; auto).
  cbn [app after_first is_prefix N.eqb Pos.eqb andb length skipn].
  destruct (until_quote_enc (slot e sQH) rest) as (r & Hr & _). rewrite Hr. reflexivity.
Qed.

(** The pre-match on the raw line accepts every line whose decoded entry
    satisfies the term, once the three raw values are the ones of the
    entry's keys. *)
Theorem quick_line_over_approx c e v a strict :
  located (encode e) pQH (slot e sQH) -> located (encode e) pIP (slot e sIP) ->
  located (encode e) pCID (slot e sCID) ->
  term_match c (raw_entry (slot e sQH) (slot e sIP) (slot e sCID)) v a strict = true ->
  quick_line c (encode e) (CTerm v a strict) = true.
Proof.
  intros Hh Hi Hc Hm. unfold quick_line.
  destruct (has_bs (read_json_value (encode e) pQH)) eqn:B1; [reflexivity|].
  destruct (has_bs (read_json_value (encode e) pIP)) eqn:B2; [reflexivity|].
  destruct (has_bs (read_json_value (encode e) pCID)) eqn:B3; [reflexivity|].
  cbn [orb]. rewrite (located_value _ _ _ Hh B1), (located_value _ _ _ Hi B2), (located_value _ _ _ Hc B3).
  exact Hm.
Qed.

(** Without the repair the claim is false on real lines: host a&b.example.org. *)
Definition amp_entry : centry :=
  set_slot (set_slot (set_slot blank sT (B "2026-10-01T17:09:47Z")) sQH (B "a&b.example.org")) sIP (B "1.2.3.4").
Definition no_clients : config :=
  {| enabled := true; file_enabled := true; mem_size := 1%Z; ignored := []; clients := [] |}.

Example quick_unfixed_refuted :
  let k := CTerm (B "a&b") [] false in
  term_match no_clients (raw_entry (slot amp_entry sQH) (slot amp_entry sIP) (slot amp_entry sCID)) (B "a&b") [] false = true /\
  quick_line_unfixed no_clients (encode amp_entry) k = false /\
  quick_line no_clients (encode amp_entry) k = true /\
  snd (decode {| o_time := fun _ => true; o_ip := fun _ => true; o_addr := fun _ => true; o_b64 := fun _ => true |}
              (encode amp_entry)) = amp_entry.
Proof. vm_compute. auto. Qed.

(** ** The whole entry: statement and a worked instance *)

(** The entries json.Marshal + decodeLogEntry are expected to return
    unchanged: texts are well-formed UTF-8 and accepted by the Go parsers the
    decoder calls, integers fit int64, the two by-design conversions of the
    decoder are excluded (reason RewrittenAutoHosts with an IPList is turned
    into a rewrite result by translateResult; a rewrite result with neither
    response nor code is written as {} and read back as absent), rewrite
    responses hold non-empty lists of strings under distinct keys < 65536. *)
Definition int64_ok (z : Z) : Prop := (- 2 ^ 63 <= z < 2 ^ 63)%Z.

Definition rule_dom (o : oracles) (r : crule) : Prop :=
  utf8_ok (cr_text r) = true /\ (cr_ip r = [] \/ o_addr o (cr_ip r) = true) /\ utf8_ok (cr_ip r) = true /\
  int64_ok (cr_id r).

Definition rrv_dom (o : oracles) (k : Z) (v : rrv) : Prop :=
  match v with
  | RS s => utf8_ok s = true /\ ((k = 1 \/ k = 28)%Z -> o_ip o s = true)
  | _ => False
  end.

Definition rw_dom (o : oracles) (w : rewrite) : Prop :=
  int64_ok (rw_rcode w) /\ (rw_resp w <> [] \/ rw_rcode w <> 0%Z) /\
  NoDup (map fst (rw_resp w)) /\
  Forall (fun kv : Z * list rrv => (0 <= fst kv < 65536)%Z /\ snd kv <> [] /\ Forall (rrv_dom o (fst kv)) (snd kv))
         (rw_resp w).

Definition codec_dom (o : oracles) (e : centry) : Prop :=
  List.length (ce_s e) = n_slots /\ List.length (ce_f e) = 3%nat /\ List.length (ce_i e) = 2%nat /\
  Forall (fun s => utf8_ok s = true) (ce_s e) /\
  o_time o (slot e sT) = true /\ valid_cp (slot e sCP) = true /\
  (slot e sIP = [] \/ o_ip o (slot e sIP) = true) /\
  o_b64 o (slot e sAns) = true /\ o_b64 o (slot e sOrig) = true /\
  Forall int64_ok (ce_i e) /\
  Forall (fun a => utf8_ok a = true /\ o_addr o a = true) (ce_iplist e) /\
  Forall (rule_dom o) (ce_rules e) /\
  ~ (ival e iReason = 10%Z /\ ce_iplist e <> []) /\
  match ce_rw e with Some w => rw_dom o w | None => True end.

Definition codec_roundtrip_statement : Prop :=
  forall o e, codec_dom o e -> decode o (encode e) = (false, e).

(** A worked instance over every part of the entry (rules with negative list
    ids and addresses, IPList, rewrite result, all optional fields, escapes,
    non-ASCII): premises satisfiable and the round trip exact. *)
Definition all_true : oracles :=
  {| o_time := fun _ => true; o_ip := fun s => negb (is_nil s); o_addr := fun s => negb (is_nil s); o_b64 := fun _ => true |}.

Definition rich_entry : centry :=
  {| ce_s := [B "2026-10-01T17:09:47.5+02:00"; B "a&b<c>.""q""\.example" ++ [208; 191; 226; 128; 168];
              B "HTTPS"; B "IN"; B "1.2.3.0/24"; B "phone"; B "doh"; B "https://dns.example/q?a=1&b=2";
              B "AAAB+/8="; B "Bw=="; B "2001:db8::1"; B "canon.example"; B "you<tube>"];
     ce_f := [true; true; true]; ce_i := [(-837429)%Z; 9%Z];
     ce_iplist := [B "5.6.7.8"; B "::2"];
     ce_rules := [{| cr_text := B "||ads^$important"; cr_ip := []; cr_id := (-2)%Z |};
                  {| cr_text := []; cr_ip := B "1.1.1.1"; cr_id := 0%Z |};
                  {| cr_text := B "/re<g>&/"; cr_ip := B "::1"; cr_id := 1700000000%Z |}];
     ce_rw := Some {| rw_rcode := 3%Z;
                      rw_resp := [(1%Z, [RS (B "1.2.3.4"); RS (B "5.6.7.8")]); (16%Z, [RS (B "hello ""quoted""")]);
                                  (28%Z, [RS (B "2001:db8::4")])] |} |}.

Example codec_roundtrip_example :
  decode all_true (encode rich_entry) = (false, rich_entry) /\
  has_bs (read_json_value (encode rich_entry) pQH) = true /\
  read_json_value (encode rich_entry) pIP = B "2001:db8::1" /\
  read_json_value (encode rich_entry) pCID = B "phone".
Proof. vm_compute. auto. Qed.

Lemma rich_entry_dom : codec_dom all_true rich_entry.
Proof.
  unfold codec_dom, rule_dom, rw_dom, rrv_dom, int64_ok.
  repeat match goal with
  | |- _ /\ _ => split
  | |- Forall _ _ => constructor
  | |- NoDup _ => constructor
  end; cbn; try reflexivity; try lia; try discriminate; auto;
  try (intros [? ?]; discriminate); try (intros [?|[?|[]]]; discriminate); try (intros [?|[]]; discriminate); try tauto.
  all: try (right; reflexivity). all: try (left; discriminate).
  split; [lia|]. split; [left; discriminate|]. split.
  - repeat constructor; cbn; intuition discriminate.
  - repeat constructor; cbn; try lia; try discriminate; auto.
Qed.

(** C20 proofs, part 2: the not-found class of the timestamp seek.

    A stamp strictly between the stamps of two neighbouring lines is reported
    as not-found by qLogFile.seekTS (never too-early / too-late, never a
    position, never the depth limit), and behind a qLogReader the error
    surfaces: no fall-back to the newest end, no read position moved. *)
From Coq Require Import ZArith List Bool Lia.
From AGH Require Import Model.QLogFile Proofs.QLogFile.
Import ListNotations.
Local Open Scope Z_scope.
Ltac Zify.zify_post_hook ::= Z.to_euclidean_division_equations.

Lemma seek_loop_S fuel me f ts start end_ probe last depth :
  seek_loop (S fuel) me f ts start end_ probe last depth =
  match probe_line me f probe with
  | None => IOEof
  | Some (li, le, len, lts) =>
      if li =? last then (if li =? 0 then TooEarly else NotFound)
      else if li =? fsize f then TooLate
      else if lts =? 0 then EmptyStamp
      else if lts =? ts then Found (li + len) depth
      else
        let start' := if lts >? ts then start else le in
        let end' := if lts >? ts then li else end_ in
        seek_loop fuel me f ts start' end' (start' + (end' - start') ÷ 2) li (depth + 1)
  end.
Proof. reflexivity. Qed.

Section Absent.
  Variables (me : Z) (f : qfile).
  Hypothesis Hme : 0 < me.
  Hypothesis Hf : lines_ok me f.
  Hypothesis Hnz : stamps_nonzero f.
  Hypothesis Hs : sorted_ts f.

  (** Lines [t] and [t+1] are neighbours around the wanted stamp. *)
  Variables (t : nat) (l1 t1 l2 t2 ts : Z).
  Hypothesis E1 : nth_error f t = Some (l1, t1).
  Hypothesis E2 : nth_error f (S t) = Some (l2, t2).
  Hypothesis Hbetween : t1 < ts < t2.

  Lemma St_nonneg k : 0 <= St f k.
  Proof. apply (fsize_nonneg me). apply lines_ok_firstn; auto. Qed.

  Lemma St_le_size k : St f k <= fsize f.
  Proof.
    destruct (le_lt_dec k (length f)).
    - rewrite <- St_all. eapply St_mono; eauto.
    - unfold St. rewrite firstn_all2 by lia. lia.
  Qed.

  (** Lines up to [t] are older than the stamp, lines from [t+1] on newer. *)
  Lemma older_side k lk tk : nth_error f k = Some (lk, tk) -> (k <= t)%nat -> tk < ts.
  Proof.
    intros Ek Hk. destruct (Nat.eq_dec k t) as [->|Hne].
    - rewrite E1 in Ek. injection Ek as <- <-. lia.
    - pose proof (Hs _ _ _ _ _ _ Ek E1 ltac:(lia)). lia.
  Qed.

  Lemma newer_side k lk tk : nth_error f k = Some (lk, tk) -> (S t <= k)%nat -> ts < tk.
  Proof.
    intros Ek Hk. destruct (Nat.eq_dec k (S t)) as [->|Hne].
    - rewrite E2 in Ek. injection Ek as <- <-. lia.
    - pose proof (Hs _ _ _ _ _ _ E2 Ek ltac:(lia)). lia.
  Qed.

  (** The boundary between the two neighbours. *)
  Let B := St f (S t).

  Lemma B_facts : 0 < B /\ B + l2 + 1 <= fsize f /\ 0 < l2 < me.
  Proof.
    subst B. pose proof (St_succ _ _ _ _ E1). pose proof (St_succ _ _ _ _ E2).
    pose proof (St_nonneg t). pose proof (St_le_size (S (S t))).
    pose proof (nth_line_ok _ _ _ _ _ Hf E1). pose proof (nth_line_ok _ _ _ _ _ Hf E2). lia.
  Qed.

  (** The scope has shrunk to the boundary: the newer neighbour is probed
      (again), which is the not-found exit; at most two probes. *)
  Lemma absent_final fuel last depth :
    seek_loop (S (S fuel)) me f ts B B (B + (B - B) ÷ 2) last depth = NotFound.
  Proof.
    destruct B_facts as (HB0 & HBs & Hl2).
    rewrite Z.sub_diag. change (0 ÷ 2) with 0. rewrite Z.add_0_r.
    assert (Hp : probe_line me f B = Some (B, B + l2 + 1, l2, t2)).
    { apply probe_line_in; auto. subst B. lia. }
    rewrite seek_loop_S, Hp.
    destruct (Z.eqb_spec B last).
    - destruct (Z.eqb_spec B 0); [lia|reflexivity].
    - destruct (Z.eqb_spec B (fsize f)); [lia|].
      destruct (Z.eqb_spec t2 0); [exfalso; eapply nth_stamp_nonzero; eauto|].
      destruct (Z.eqb_spec t2 ts); [lia|]. destruct (Z.gtb_spec t2 ts); [|lia].
      cbv zeta. rewrite Z.sub_diag. change (0 ÷ 2) with 0. rewrite Z.add_0_r.
      rewrite seek_loop_S, Hp, Z.eqb_refl.
      destruct (Z.eqb_spec B 0); [lia|reflexivity].
  Qed.

  (** The interval invariant: both edges are line starts around the boundary;
      the line probed last lies outside the scope.  The scope at least halves
      with every probe. *)
  Lemma seek_loop_absent :
    forall fuel a b last depth, (a <= S t <= b)%nat -> (b <= length f)%nat ->
    (last < St f a \/ St f b <= last) -> St f b - St f a < 2 ^ Z.of_nat fuel ->
    seek_loop (S (S fuel)) me f ts (St f a) (St f b) (St f a + (St f b - St f a) ÷ 2) last depth = NotFound.
  Proof.
    induction fuel as [|fuel IH]; intros a b last depth Hab Hb Hlast Hw;
      pose proof (St_mono me f Hf a (S t) ltac:(lia)) as Ha1;
      pose proof (St_mono me f Hf (S t) b ltac:(lia)) as Hb1; fold B in Ha1, Hb1;
      (destruct (Z.eq_dec (St f b - St f a) 0) as [Hw0|Hw0];
       [replace (St f a) with B by lia; replace (St f b) with B by lia; apply absent_final|]).
    - cbn in Hw. lia.
    - set (w := St f b - St f a) in *.
      assert (Hq : 2 * (w ÷ 2) <= w <= 2 * (w ÷ 2) + 1) by (rewrite Z.quot_div_nonneg by lia; lia).
      set (p := St f a + w ÷ 2).
      destruct (locate me f Hf b a p ltac:(lia) ltac:(subst p; lia)) as (k & lk & tk & Hk & Ek & Hpk).
      rewrite seek_loop_S, (probe_line_in me f k lk tk p Hme Hf Ek Hpk).
      pose proof (St_mono me f Hf a k ltac:(lia)) as Hak.
      pose proof (St_mono me f Hf (S k) b ltac:(lia)) as Hkb.
      pose proof (nth_line_ok _ _ _ _ _ Hf Ek) as Hlk.
      pose proof (St_succ _ _ _ _ Ek) as Hsk. rewrite Hsk in Hkb.
      destruct (Z.eqb_spec (St f k) last); [lia|].
      pose proof (St_le_size b).
      destruct (Z.eqb_spec (St f k) (fsize f)); [lia|].
      destruct (Z.eqb_spec tk 0); [exfalso; eapply nth_stamp_nonzero; eauto|].
      rewrite pow2_succ in Hw.
      destruct (le_lt_dec k t) as [Hle|Hgt].
      + pose proof (older_side _ _ _ Ek Hle).
        destruct (Z.eqb_spec tk ts); [lia|]. destruct (Z.gtb_spec tk ts); [lia|].
        cbv zeta. rewrite <- Hsk. apply IH; subst p w; lia.
      + pose proof (newer_side _ _ _ Ek ltac:(lia)).
        destruct (Z.eqb_spec tk ts); [lia|]. destruct (Z.gtb_spec tk ts); [|lia].
        cbv zeta. apply IH; subst p w; lia.
  Qed.
End Absent.

Lemma pow63_le_98 : 2 ^ 63 <= 2 ^ Z.of_nat 98.
Proof. vm_compute. discriminate. Qed.

(** *** C20_seek_absent_between *)
Theorem seek_absent_between me f t l1 t1 l2 t2 ts :
  0 < me -> lines_ok me f -> stamps_nonzero f -> sorted_ts f -> size_ok f ->
  nth_error f t = Some (l1, t1) -> nth_error f (S t) = Some (l2, t2) -> t1 < ts < t2 ->
  seek_ts me f ts = NotFound.
Proof.
  intros Hme Hf Hnz Hs Hsz E1 E2 Hb. unfold seek_ts, seek_ts_fuel. change max_depth with (S (S 98)).
  pose proof (seek_loop_absent me f Hme Hf Hnz Hs t l1 t1 l2 t2 ts E1 E2 Hb 98 0 (length f) (-1) 0) as H.
  rewrite St_0, St_all, Z.add_0_l, Z.sub_0_r in H. apply H.
  - pose proof (nth_error_Some_length _ _ _ E2). lia.
  - lia.
  - left; lia.
  - unfold size_ok in Hsz. pose proof pow63_le_98. lia.
Qed.

(** Every class of an absent stamp in a sorted file, by its rank: the number
    [r] of lines older than the stamp (all of them come first). *)
Theorem seek_absent me f ts r :
  0 < me -> lines_ok me f -> stamps_nonzero f -> sorted_ts f -> size_ok f -> f <> [] ->
  (r <= length f)%nat ->
  (forall k l t, nth_error f k = Some (l, t) -> (k < r)%nat -> t < ts) ->
  (forall k l t, nth_error f k = Some (l, t) -> (r <= k)%nat -> ts < t) ->
  seek_ts me f ts = if Nat.eqb r 0 then TooEarly else if Nat.eqb r (length f) then TooLate else NotFound.
Proof.
  intros Hme Hf Hnz Hs Hsz Hne Hr Hold Hnew.
  destruct (Nat.eqb_spec r 0) as [->|H0].
  - apply seek_too_early; auto. intros k l t E. eapply Hnew; eauto. lia.
  - destruct (Nat.eqb_spec r (length f)) as [->|H1].
    + apply seek_too_late; auto. intros k l t E. eapply Hold; eauto. eapply nth_error_Some_length; eauto.
    + destruct r as [|r]; [congruence|].
      destruct (nth_error f r) as [[l1 t1]|] eqn:E1; [|apply nth_error_None in E1; lia].
      destruct (nth_error f (S r)) as [[l2 t2]|] eqn:E2; [|apply nth_error_None in E2; lia].
      apply (seek_absent_between me f r l1 t1 l2 t2 ts); auto.
      split; [apply (Hold r l1 t1 E1); lia|apply (Hnew (S r) l2 t2 E2); lia].
Qed.

(** Premises satisfiable, every gap of a four-line file (me = 8). *)
Example seek_absent_example :
  let f := [(5, 11); (7, 13); (3, 15); (6, 17)] in
  lines_ok 8 f /\ stamps_nonzero f /\ size_ok f /\
  seek_ts 8 f 12 = NotFound /\ seek_ts 8 f 14 = NotFound /\ seek_ts 8 f 16 = NotFound /\
  seek_ts 8 f 10 = TooEarly /\ seek_ts 8 f 18 = TooLate.
Proof.
  cbv zeta. split; [repeat constructor; cbn; lia|]. split; [repeat constructor; cbn; lia|].
  split; [unfold size_ok; cbn; lia|]. vm_compute. repeat split.
Qed.

(** ** Behind the qLogReader *)

(** Read positions of all files. *)
Definition poss (r : reader) : list Z := map (fun x : qfile * rstate => pos (snd x)) (r_files r).

Lemma map_set_nth_same {A B} (g : A -> B) (l : list A) n x d :
  ((n < length l)%nat -> g x = g (nth n l d)) -> map g (set_nth l n x) = map g l.
Proof.
  revert n; induction l as [|a l IH]; intros [|n] H; cbn in *; auto.
  - f_equal. apply H. lia.
  - f_equal. apply IH. intro. apply H. lia.
Qed.

Lemma poss_set_state r i s :
  pos s = pos (snd (nth_file r i)) -> map (fun x : qfile * rstate => pos (snd x)) (set_state r i s) = poss r.
Proof.
  intro H. unfold set_state, poss.
  apply map_set_nth_same with (d := ([], rstate0)). intros _. cbn [snd]. exact H.
Qed.

(** A reader-level seek that ends not-found (or with another error) moved no
    read position, kept the current file and did not fall back. *)
Lemma reader_seek_loop_failed me ts : forall n r res r',
  reader_seek_loop me n ts r = (res, r') -> res = RNotFound \/ res = ROther ->
  poss r' = poss r /\ r_cur r' = r_cur r /\ r_fellback r' = r_fellback r /\ files r' = files r.
Proof.
  induction n as [|n IH]; intros r res r' H Hres.
  - cbn in H. injection H as _ <-. auto.
  - cbn [reader_seek_loop] in H.
    destruct (nth_file r (Z.of_nat n)) as [f s] eqn:En.
    unfold seek_ts_state in H.
    set (r1 := {| r_files := set_state r (Z.of_nat n) _; r_cur := r_cur r; r_fellback := r_fellback r |}) in H.
    assert (Hfiles : forall s', map fst (set_state r (Z.of_nat n) s') = files r).
    { intro s'. unfold set_state, files. rewrite En. cbn [fst].
      apply map_set_nth_same with (d := ([], rstate0)). intros _.
      change (fst (f, s') = fst (nth_file r (Z.of_nat n))). rewrite En. reflexivity. }
    destruct (seek_ts me f ts) eqn:Es.
    + injection H as <- _. destruct Hres; discriminate.
    + injection H as _ <-. unfold r1. cbn [r_cur r_fellback]. unfold poss at 1, files at 1. cbn [r_files].
      rewrite poss_set_state by (rewrite En; reflexivity). rewrite Hfiles. auto.
    + apply IH in H; auto. destruct H as (H1 & H2 & H3 & H4).
      rewrite H1, H2, H3, H4. unfold r1. cbn [r_cur r_fellback]. unfold poss at 1, files at 1. cbn [r_files].
      rewrite poss_set_state by (rewrite En; reflexivity). rewrite Hfiles. auto.
    + injection H as <- _. destruct Hres; discriminate.
    + injection H as _ <-. unfold r1. cbn [r_cur r_fellback]. unfold poss at 1, files at 1. cbn [r_files].
      rewrite poss_set_state by (rewrite En; reflexivity). rewrite Hfiles. auto.
    + injection H as _ <-. unfold r1. cbn [r_cur r_fellback]. unfold poss at 1, files at 1. cbn [r_files].
      rewrite poss_set_state by (rewrite En; reflexivity). rewrite Hfiles. auto.
    + injection H as _ <-. unfold r1. cbn [r_cur r_fellback]. unfold poss at 1, files at 1. cbn [r_files].
      rewrite poss_set_state by (rewrite En; reflexivity). rewrite Hfiles. auto.
Qed.

(** The file whose neighbouring lines enclose the stamp answers not-found,
    and the reader stops there. *)
Lemma reader_seek_loop_absent me ts r i f t l1 t1 l2 t2 : 0 < me ->
  Forall (file_ok me) (files r) -> nth_error (files r) i = Some f -> sorted_ts f ->
  nth_error f t = Some (l1, t1) -> nth_error f (S t) = Some (l2, t2) -> t1 < ts < t2 ->
  exists r', reader_seek_loop me (S i) ts r = (RNotFound, r').
Proof.
  intros Hme Hok Ef Hs E1 E2 Hb. destruct (nth_files _ _ _ Ef) as [s0 E].
  assert (Hfok : file_ok me f).
  { rewrite Forall_forall in Hok. apply Hok. eapply nth_error_In; eauto. }
  destruct Hfok as (H1 & H2 & H3 & H4).
  cbn [reader_seek_loop]. rewrite (nth_file_nth_error _ _ _ E).
  unfold seek_ts_state. rewrite (seek_absent_between me f t l1 t1 l2 t2 ts Hme H1 H2 Hs H3 E1 E2 Hb).
  eexists. reflexivity.
Qed.

(** *** C20_two_files, not-found part.  Files oldest first.  The stamp lies
    strictly between two neighbouring lines of file [i]; every newer file lies
    wholly after it.  Then qLogReader.seekTS reports not-found: it does NOT
    fall back to the newest end (no silent rewind), no file's read position
    has moved, the current file is unchanged -- whatever the older files
    hold. *)
Theorem reader_seek_absent me (fs : list qfile) i f t l1 t1 l2 t2 ts :
  0 < me -> Forall (file_ok me) fs ->
  nth_error fs i = Some f -> sorted_ts f ->
  nth_error f t = Some (l1, t1) -> nth_error f (S t) = Some (l2, t2) -> t1 < ts < t2 ->
  (forall j f', (i < j)%nat -> nth_error fs j = Some f' -> all_newer ts f') ->
  exists r', reader_seek_ts me ts (new_reader fs) = (RNotFound, r') /\
    r_fellback r' = false /\ r_cur r' = r_cur (new_reader fs) /\
    poss r' = poss (new_reader fs) /\ files r' = fs.
Proof.
  intros Hme Hok Ef Hs E1 E2 Hb Hnew.
  set (r0 := {| r_files := r_files (new_reader fs); r_cur := r_cur (new_reader fs); r_fellback := false |}).
  assert (Hf0 : files r0 = fs).
  { unfold files, r0. cbn [r_files new_reader]. rewrite map_map. cbn. apply map_id. }
  assert (Hl0 : length (r_files r0) = length fs) by (unfold r0; cbn; apply map_length).
  pose proof (nth_error_Some_length _ _ _ Ef) as Hi.
  assert (Hst : reader_seek_ts me ts (new_reader fs) = reader_seek_loop me (length fs) ts r0).
  { unfold reader_seek_ts. fold r0. change (r_files (new_reader fs)) with (r_files r0).
    rewrite Hl0. destruct (r_files r0) eqn:E; [cbn in Hl0; lia|]. reflexivity. }
  destruct (reader_seek_loop_skip me ts ltac:(lia) (length fs) r0 i ltac:(lia)
              ltac:(rewrite Hf0; auto) ltac:(intros j f' Hj; rewrite Hf0; apply Hnew; lia))
    as (r1 & Hr1 & Hf1 & _ & _).
  destruct (reader_seek_loop_absent me ts r1 i f t l1 t1 l2 t2 Hme ltac:(rewrite Hf1, Hf0; auto)
              ltac:(rewrite Hf1, Hf0; auto) Hs E1 E2 Hb) as (r' & Hr').
  exists r'. rewrite Hst, Hr1. split; [exact Hr'|].
  rewrite <- Hr1 in Hr'. apply reader_seek_loop_failed in Hr'; auto.
  destruct Hr' as (H1 & H2 & H3 & H4). rewrite H1, H2, H3, H4. auto.
Qed.

(** Premises satisfiable: an older file wholly before the stamps 12 and 14,
    which lie in gaps of the current file: not-found, although the older file
    alone would answer too-late (the fall-back trigger).  For contrast, a
    stamp between the two files does fall back and a present one is found. *)
Example reader_absent_example :
  let old := [(5, 1); (4, 2)] in
  let cur := [(5, 11); (7, 13); (3, 15)] in
  Forall (file_ok 8) [old; cur] /\
  fst (reader_seek_ts 8 12 (new_reader [old; cur])) = RNotFound /\
  fst (reader_seek_ts 8 14 (new_reader [old; cur])) = RNotFound /\
  fst (reader_seek_ts 8 5 (new_reader [old; cur])) = RFellBack /\
  fst (reader_seek_ts 8 13 (new_reader [old; cur])) = RFound.
Proof.
  cbv zeta. split.
  - repeat constructor; cbn; try lia; try discriminate; unfold size_ok; cbn; lia.
  - vm_compute. repeat split.
Qed.

(** The guard table extracted from the current source (Gen/PipelineTables.v,
    [guards], written by tools/ordertables) is the one written out in
    Model/PipelineGuards.v, entry by entry: same functions, same early exits in
    the same order with the same conditions, returned expressions and
    response-setting flags, same switch clauses. *)
From Coq Require Import List String.
From AGH Require Import Model.PipelineGuards Gen.PipelineTables.
Import ListNotations.

(** Evaluates to the list of differing positions; proved empty below.  When
    [guards_match_source] fails, [Eval vm_compute in guard_differences] shows
    (function, index, expected entry, found entry). *)
Definition guard_differences : list difference :=
  guard_table_diff expected_guards Gen.PipelineTables.guards.

Lemma guards_no_diff : guard_differences = [].
Proof. vm_compute; reflexivity. Qed.

Theorem guards_match_source_dnsforward :
  firstn (List.length expected_guards_dnsforward) Gen.PipelineTables.guards = expected_guards_dnsforward.
Proof. vm_compute; reflexivity. Qed.

Theorem guards_match_source_filtering :
  skipn (List.length expected_guards_dnsforward) Gen.PipelineTables.guards = expected_guards_filtering.
Proof. vm_compute; reflexivity. Qed.

Theorem guards_match_source : Gen.PipelineTables.guards = expected_guards.
Proof. vm_compute; reflexivity. Qed.

(** Every listed function was found exactly once, with a body (this is also a
    conjunct of [tables_match_source] in Proofs/PipelineTables.v). *)
Lemma guards_resolved : Gen.PipelineTables.unresolved = [].
Proof. vm_compute; reflexivity. Qed.

(** The diff function does not hide a difference: an empty diff means equal
    tables (so [guards_no_diff] alone would already pin the table). *)
Lemma strings_eqb_eq : forall a b, strings_eqb a b = true -> a = b.
Proof.
  induction a as [|x a IH]; destruct b as [|y b]; simpl; try discriminate; auto.
  intros H. apply andb_prop in H. destruct H as [H1 H2].
  apply String.eqb_eq in H1. subst. f_equal. auto.
Qed.

Lemma clause_eqb_eq : forall a b, clause_eqb a b = true -> a = b.
Proof.
  intros [[ca ta] sa] [[cb tb] sb]. unfold clause_eqb. intros H.
  apply andb_prop in H. destruct H as [H H3]. apply andb_prop in H. destruct H as [H1 H2].
  apply strings_eqb_eq in H1. apply String.eqb_eq in H2. apply Bool.eqb_prop in H3. subst. reflexivity.
Qed.

Lemma clauses_eqb_eq : forall a b, clauses_eqb a b = true -> a = b.
Proof.
  induction a as [|x a IH]; destruct b as [|y b]; simpl; try discriminate; auto.
  intros H. apply andb_prop in H. destruct H as [H1 H2].
  apply clause_eqb_eq in H1. subst. f_equal. auto.
Qed.

Lemma guard_eqb_eq : forall a b, guard_eqb a b = true -> a = b.
Proof.
  intros [[[[[ka pa] xa] ta] sa] ca] [[[[[kb pb] xb] tb] sb] cb]. unfold guard_eqb. intros H.
  repeat (let H' := fresh "H" in apply andb_prop in H; destruct H as [H H']).
  apply String.eqb_eq in H. apply String.eqb_eq in H4. apply String.eqb_eq in H3.
  apply String.eqb_eq in H2. apply Bool.eqb_prop in H1. apply clauses_eqb_eq in H0.
  subst. reflexivity.
Qed.

Lemma guards_diff_nil : forall fn e i f, guards_diff fn i e f = [] -> e = f.
Proof.
  induction e as [|x e IH]; intros i f H.
  - destruct f; simpl in H; [reflexivity | discriminate].
  - destruct f as [|y f]; simpl in H; [discriminate|].
    apply app_eq_nil in H. destruct H as [H1 H2].
    destruct (guard_eqb x y) eqn:E; [|discriminate].
    apply guard_eqb_eq in E. apply IH in H2. subst. reflexivity.
Qed.

Lemma guard_table_diff_nil : forall e f, guard_table_diff e f = [] -> e = f.
Proof.
  induction e as [|[fn gs] e IH]; intros f H.
  - destruct f as [|[fn' gs'] f]; simpl in H; [reflexivity | discriminate].
  - destruct f as [|[fn' gs'] f]; simpl in H; [discriminate|].
    apply app_eq_nil in H. destruct H as [H1 H2].
    destruct (String.eqb fn fn') eqn:E; [|discriminate].
    apply String.eqb_eq in E. apply guards_diff_nil in H1. apply IH in H2. subst. reflexivity.
Qed.

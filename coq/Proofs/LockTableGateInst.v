(** C05, round 4: the gate-lock criterion evaluated on the acquisition sites
    extracted from the CURRENT source (Gen/LockTableAcq.v is rewritten by
    tools/locktable on every run), abstract locks included. *)
From Coq Require Import List String Bool Arith.
From AGH Require Import Base.Conc Model.Guards Proofs.Conc Proofs.ConcGate Proofs.LockTable Proofs.LockTablePairs
  Proofs.LockTableWhole Proofs.LockTableGate Gen.LockTable Gen.LockTableAcq.
Import ListNotations.
Local Open Scope string_scope.
Local Open Scope list_scope.

Definition checked_acquisitions : list acq_site := checked_sites_of known_keys acquisitions.

(** the global ranking: the translator's hint (only checked here) *)
Definition gate_rank0 : lock -> nat := rank_of acq_rank_hint.
Definition gate_rkd : acq_site -> list (string * nat) := sub_hint acq_sub_rank_hints.

Definition ungated_report : list (string * string) :=
  map (fun s => ((s_fn s ++ " acquires " ++ fst (s_acq s))%string, s_pos s))
      (ungated gate_rank0 gate_rkd checked_acquisitions).

Lemma acquisitions_gated : gated_with gate_rank0 gate_rkd checked_acquisitions = true.
Proof. vm_compute. reflexivity. Qed.

(** Every cycle of checked acquisition sites contains two sites whose lock sets
    conflict: it cannot be occupied by threads all at once. *)
Lemma checked_site_cycles_conflict : no_compatible_cycle checked_acquisitions.
Proof. exact (gated_cycles_conflict gate_rank0 gate_rkd checked_acquisitions acquisitions_gated). Qed.

(** No deadlock for threads whose acquisitions are checked sites, bbolt write
    transactions included. *)
Lemma no_deadlock_gated : forall progs,
  Forall (fun p => conforms_sites checked_acquisitions [] p = true) progs ->
  forall s, reachable (init progs) s -> ~ deadlocked s.
Proof. exact (gated_no_deadlock gate_rank0 gate_rkd checked_acquisitions acquisitions_gated). Qed.

(** Whole-table form, in force when nothing is listed (as for
    [current_source_safe_now]). *)
Definition gated_safe_statement (sites : list acq_site) : Prop :=
  (forall progs, Forall (fun p => conforms_sites sites [] p = true) progs ->
   forall s, reachable (init progs) s -> ~ deadlocked s) /\
  no_compatible_cycle sites.

Lemma checked_sites_nil : forall sites, checked_sites_of [] sites = sites.
Proof.
  intros sites. unfold checked_sites_of. apply filter_all. intros s.
  unfold site_listed. induction (site_keys s) as [|k ks IH]; [reflexivity|exact IH].
Qed.

Lemma gated_unless_listed : forall rank0 rkd known sites,
  gated_with rank0 rkd (checked_sites_of known sites) = true ->
  if nothing_listed known then gated_safe_statement sites else True.
Proof.
  intros rank0 rkd known sites H. destruct known as [|k known]; [|exact I].
  cbn [nothing_listed]. rewrite checked_sites_nil in H. split.
  - exact (gated_no_deadlock rank0 rkd sites H).
  - exact (gated_cycles_conflict rank0 rkd sites H).
Qed.

Lemma acquisitions_gated_unfolded :
  gated_with gate_rank0 gate_rkd (checked_sites_of known_keys acquisitions) = true.
Proof. vm_compute. reflexivity. Qed.

Lemma current_source_gated_now :
  if nothing_listed known_keys then gated_safe_statement acquisitions else True.
Proof.
  exact (gated_unless_listed gate_rank0 gate_rkd known_keys acquisitions acquisitions_gated_unfolded).
Qed.

(** Non-vacuity on the real table.  The statistics flush and the reader of
    GET /control/stats, with the bbolt write transaction as a lock, conform to
    the extracted sites; the table does contain the cycle currMu . db.writer .
    currMu, and no single ranking orders all its sites. *)
Definition p_stats_flush : list event :=
  [Acq "stats.StatsCtx.confMu" W; Acq "stats.StatsCtx.currMu" W; Acq "stats.StatsCtx.db.writer" W;
   Rel "stats.StatsCtx.db.writer" W; Rel "stats.StatsCtx.currMu" W; Rel "stats.StatsCtx.confMu" W].
Definition p_stats_read : list event :=
  [Acq "stats.StatsCtx.confMu" R; Acq "stats.StatsCtx.db.writer" W; Acq "stats.StatsCtx.currMu" R;
   Rel "stats.StatsCtx.currMu" R; Rel "stats.StatsCtx.db.writer" W; Rel "stats.StatsCtx.confMu" R].

Example stats_threads_conform :
  conforms_sites acquisitions [] p_stats_flush = true /\
  conforms_sites acquisitions [] p_stats_read = true.
Proof. vm_compute. split; reflexivity. Qed.

Definition is_site (h : held) (l : lock) (s : acq_site) : bool :=
  String.eqb (fst (s_acq s)) l && same_held (s_held s) h.

Example stats_gated_cycle_present :
  exists d1 d2, In d1 acquisitions /\ In d2 acquisitions /\ site_cycle [d1; d2] /\
    conflicts (s_held d1) (s_held d2) = true /\
    forallb (site_ascending gate_rank0) [d1; d2] = false.
Proof.
  destruct (find (is_site [("stats.StatsCtx.confMu", W); ("stats.StatsCtx.currMu", W)] "stats.StatsCtx.db.writer") acquisitions) as [d1|] eqn:E1;
    [|vm_compute in E1; discriminate].
  destruct (find (is_site [("stats.StatsCtx.confMu", R); ("stats.StatsCtx.db.writer", W)] "stats.StatsCtx.currMu") acquisitions) as [d2|] eqn:E2;
    [|vm_compute in E2; discriminate].
  exists d1, d2.
  pose proof (find_some _ _ E1) as [I1 _]. pose proof (find_some _ _ E2) as [I2 _].
  split; [exact I1|]. split; [exact I2|].
  vm_compute in E1. vm_compute in E2. inversion E1; inversion E2; subst d1 d2.
  split; [|split; vm_compute; reflexivity].
  split; [discriminate|]. exists "stats.StatsCtx.currMu". vm_compute. reflexivity.
Qed.

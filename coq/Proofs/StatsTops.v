(** C09: the top lists are consistent with the totals.  Per unit, the counts
    of queried and blocked domains together never exceed the unit's total, nor
    do the client counts (equal before the cut to the top 100, at most after
    it); hence the counts shown in top_queried_domains + top_blocked_domains,
    and those in top_clients, never exceed num_dns_queries.  Holds in every
    state reachable by any history (no assumption on the clock). *)
From Coq Require Import ZArith List Bool Lia.
From AGH Require Import Model.Stats Proofs.Stats.
Import ListNotations.
Local Open Scope Z_scope.

Definition msum (m : amap) : Z := zsum (map snd m).
Definition mnonneg (m : amap) : Prop := Forall (fun p => 0 <= snd p) m.

Lemma zsum_cons a l : zsum (a :: l) = a + zsum l.
Proof. reflexivity. Qed.
Lemma msum_cons p m : msum (p :: m) = snd p + msum m.
Proof. reflexivity. Qed.
Lemma msum_nil : msum [] = 0.
Proof. reflexivity. Qed.

Lemma msum_bump k n m : msum (bump_by k n m) = msum m + n.
Proof.
  induction m as [|[k' v] m IH]; cbn [bump_by]; [rewrite msum_cons, msum_nil; cbn [snd]; lia|].
  destruct (k <? k'); [rewrite !msum_cons; cbn [snd]; lia|].
  destruct (k =? k'); rewrite !msum_cons; cbn [snd]; [lia|rewrite IH; lia].
Qed.

Lemma mnonneg_bump k n m : 0 <= n -> mnonneg m -> mnonneg (bump_by k n m).
Proof.
  intros Hn. induction m as [|[k' v] m IH]; intros H; cbn [bump_by].
  - constructor; [exact Hn|constructor].
  - inversion H as [|x y Hv Hm]; subst. cbn [snd] in Hv.
    destruct (k <? k'); [constructor; [exact Hn|exact H]|].
    destruct (k =? k'); constructor; cbn [snd]; try lia; try assumption. apply IH; assumption.
Qed.

Lemma merge_spec b : forall a, mnonneg a -> mnonneg b ->
  msum (merge a b) = msum a + msum b /\ mnonneg (merge a b).
Proof.
  unfold merge. induction b as [|[k v] b IH]; intros a Ha Hb; cbn [fold_left].
  - rewrite msum_nil. split; [lia|exact Ha].
  - inversion Hb as [|x y Hv Hb']; subst. cbn [snd fst] in *.
    destruct (IH (bump_by k v a) (mnonneg_bump k v a Hv Ha) Hb') as [E N].
    split; [|exact N]. rewrite E, msum_bump, msum_cons. cbn [snd]. lia.
Qed.

Lemma filter_sum_le (f : Z * Z -> bool) m : mnonneg m -> msum (filter f m) <= msum m /\ mnonneg (filter f m).
Proof.
  induction 1 as [|p m Hp Hm IH]; [split; [reflexivity|constructor]|].
  cbn [filter]. destruct IH as [IH1 IH2]. destruct (f p); rewrite !msum_cons.
  - split; [lia|constructor; assumption].
  - split; [lia|assumption].
Qed.

Lemma cut100_le m : mnonneg m -> msum (cut100 m) <= msum m /\ mnonneg (cut100 m).
Proof.
  intros H. unfold cut100. destruct (_ <=? _); [split; [reflexivity|exact H]|]. apply filter_sum_le. exact H.
Qed.

(** * Units *)

Record U (u : unit) : Prop := {
  u_dn : mnonneg (u_dom u);
  u_bn : mnonneg (u_blk u);
  u_cn : mnonneg (u_cli u);
  u_doms : msum (u_dom u) + msum (u_blk u) <= u_total u;
  u_clis : msum (u_cli u) <= u_total u
}.

Lemma U_empty : U empty_unit.
Proof. constructor; cbn [empty_unit u_dom u_blk u_cli u_total]; try constructor; rewrite ?msum_nil; lia. Qed.

Lemma U_add c e u : U u -> U (add_cat c e u).
Proof.
  intros []. assert (H1 : 0 <= 1) by lia.
  constructor; destruct c; cbn [add_cat incr_cat u_dom u_blk u_cli u_total];
    try (apply mnonneg_bump; assumption); try assumption; rewrite ?msum_bump; lia.
Qed.

Lemma U_ser u : U u -> U (ser u).
Proof.
  intros []. destruct (cut100_le _ u_dn0), (cut100_le _ u_bn0), (cut100_le _ u_cn0).
  constructor; cbn [ser u_dom u_blk u_cli u_total]; try assumption; lia.
Qed.

(** * States *)

Definition Uinv (s : state) : Prop :=
  U (cur s) /\ forall i u, db_get i (db s) = Some u -> U u.

Lemma Uinv_open d ms en id : (forall i u, db_get i d = Some u -> U u) -> Uinv (open_db d ms en id).
Proof.
  intros H. unfold open_db, Uinv. cbn [cur db].
  assert (H' : forall i u, db_get i (db_del_below (u32 (id - ms / ms_hour - 1)) d) = Some u -> U u).
  { intros i u. rewrite db_get_del_below. destruct (_ <=? _); [apply H|discriminate]. }
  split; [|exact H'].
  destruct (db_get id _) eqn:G; [exact (H' _ _ G)|exact U_empty].
Qed.

Lemma Uinv_step s o : Uinv s -> Uinv (step s o).
Proof.
  intros [Hc Hd]. destruct o; cbn [step].
  - unfold update. destruct (accepts s e); [|split; assumption].
    destruct (cat_of (e_res e)); [|split; assumption].
    split; cbn [with_cur cur db]; [apply U_add; assumption|assumption].
  - unfold flush. destruct (_ || _); [split; assumption|]. destruct (dbnil s); [split; assumption|].
    split; cbn [with_cur cur db]; [exact U_empty|].
    intros i u. rewrite db_get_del, db_get_put. destruct (_ =? _); [discriminate|].
    destruct (_ =? _); [intros [= <-]; apply U_ser; assumption|apply Hd].
  - unfold restart. apply Uinv_open. unfold close_db. intros i u. rewrite db_get_put.
    destruct (_ =? _); [intros [= <-]; apply U_ser; assumption|apply Hd].
  - split; cbn; [exact U_empty|discriminate].
  - unfold set_limit_days. destruct (negb _); [split; assumption|].
    destruct (_ =? _); [split; cbn; [exact U_empty|discriminate]|split; assumption].
  - unfold put_config. destruct (valid_ivl ms); split; assumption.
  - split; assumption.
  - split; cbn; [assumption|discriminate].
  - split; cbn [clear_finish with_cur cur db]; [exact U_empty|assumption].
Qed.

Lemma Uinv_run h : forall s, Uinv s -> Uinv (run s h).
Proof. induction h as [|o h IH]; intros s H; [exact H|]. apply IH, Uinv_step, H. Qed.

Lemma Uinv_init id ms en : Uinv (init id ms en).
Proof. apply Uinv_open. intros i u; discriminate. Qed.

(** * Answers *)

Lemma loaded_U s : Uinv s -> Forall U (load_units s).
Proof.
  intros [Hc Hd]. unfold load_units. apply Forall_app. split.
  - apply Forall_forall. intros u Hu. apply in_map_iff in Hu. destruct Hu as [i [<- _]].
    unfold stored. destruct (db_get i (db s)) eqn:G; [exact (Hd _ _ G)|exact U_empty].
  - constructor; [apply U_ser; assumption|constructor].
Qed.

Lemma fold_merge_spec (l : list amap) : forall acc, mnonneg acc -> Forall mnonneg l ->
  msum (fold_left merge l acc) = msum acc + zsum (map msum l) /\ mnonneg (fold_left merge l acc).
Proof.
  induction l as [|a l IH]; intros acc Ha Hl; cbn [fold_left map].
  - change (zsum []) with 0. split; [lia|exact Ha].
  - inversion Hl as [|x y Hx Hl']; subst. destruct (merge_spec a acc Ha Hx) as [E N].
    destruct (IH _ N Hl') as [E' N']. split; [|exact N']. rewrite E', E, zsum_cons. lia.
Qed.

Lemma top_le (f : unit -> amap) us :
  Forall (fun u => mnonneg (f u)) us ->
  msum (cut100 (fold_left merge (map f us) [])) <= zsum (map (fun u => msum (f u)) us).
Proof.
  intros H. assert (Hn : mnonneg []) by constructor.
  assert (Hl : Forall mnonneg (map f us)) by (apply Forall_map; exact H).
  destruct (fold_merge_spec (map f us) [] Hn Hl) as [E N].
  destruct (cut100_le _ N) as [L _]. rewrite map_map, msum_nil in E. lia.
Qed.

Theorem tops_within_totals id ms en h :
  let d := get_data (run (init id ms en) h) in
  msum (d_top_dom d) + msum (d_top_blk d) <= d_num d /\ msum (d_top_cli d) <= d_num d.
Proof.
  cbv zeta. set (s := run (init id ms en) h).
  assert (HU : Forall U (load_units s)) by (apply loaded_U, Uinv_run, Uinv_init).
  unfold get_data. cbn [d_top_dom d_top_blk d_top_cli d_num].
  pose proof (top_le u_dom (load_units s)) as Hd. pose proof (top_le u_blk (load_units s)) as Hb.
  pose proof (top_le u_cli (load_units s)) as Hc.
  assert (A : Forall (fun u => mnonneg (u_dom u)) (load_units s)) by (eapply Forall_impl; [|exact HU]; intros u []; assumption).
  assert (B : Forall (fun u => mnonneg (u_blk u)) (load_units s)) by (eapply Forall_impl; [|exact HU]; intros u []; assumption).
  assert (C : Forall (fun u => mnonneg (u_cli u)) (load_units s)) by (eapply Forall_impl; [|exact HU]; intros u []; assumption).
  specialize (Hd A). specialize (Hb B). specialize (Hc C).
  assert (S1 : zsum (map (fun u => msum (u_dom u)) (load_units s)) + zsum (map (fun u => msum (u_blk u)) (load_units s))
               <= zsum (map u_total (load_units s)) /\
               zsum (map (fun u => msum (u_cli u)) (load_units s)) <= zsum (map u_total (load_units s))).
  { clear -HU. induction HU as [|u l Hu _ IH]; [cbn; lia|]. destruct Hu. cbn [map]. rewrite !zsum_cons. lia. }
  lia.
Qed.

(** Not vacuous: the inequality is strict once names are cut (121 queries,
    101 of them in the 100 names shown), an equality before. *)
Example tops_within_totals_premises :
  let d := get_data (run (init 490000 (24 * ms_hour) true) ex_all5) in
  msum (d_top_dom d) + msum (d_top_blk d) = 5 /\ d_num d = 5 /\ msum (d_top_cli d) = 5.
Proof. vm_compute. repeat split. Qed.

(** C06, round 8: the rewrite's CNAME is ALWAYS the first record of a reply
    built from an upstream answer for the canonical name, whatever that
    answer looks like (seeded change C06-P: "don't add a second alias if the
    answer already starts with one"). *)
From Coq Require Import NArith List Bool Permutation String.
From AGH Require Import Base.Run Model.Rewrites Proofs.Rewrites.
Import ListNotations.
Local Open Scope N_scope.

Section First.
  Variable sort : list entry -> list entry.

  (** For EVERY upstream answer [ans] (empty, starting with a CNAME chain of
      the upstream's own, a CNAME only, addresses before a CNAME, records of
      other types first, ...) the reply's first record is owned by the
      queried name and points at the canonical name, and the rest is the
      upstream's answer unchanged. *)
  Theorem rewrite_cname_always_first (upstream : bytes -> N -> N * list rr) en tbl qname qt r rc ans :
    check_host sort en tbl qname qt = Some r ->
    r_reason r = Rewritten -> r_canon r <> [] -> r_ips r = [] ->
    covered_flag sort en tbl qname qt = false ->
    upstream (r_canon r) qt = (rc, ans) ->
    exists p, respond sort upstream en tbl qname qt = Some p /\
      hd_error (rp_answer p) = Some (RR_CNAME qname (r_canon r)) /\
      tl (rp_answer p) = ans /\ rp_qname p = qname /\ rp_rcode p = rc.
  Proof.
    intros C R N I Cov U. eexists. split.
    - apply (respond_cname_via_upstream_any_reply sort upstream en tbl qname qt r rc ans); auto.
    - cbn. auto.
  Qed.

  (** The same with an upstream that may fail and with the cache on:
      [forward] / [forward_c] put [front] before the records in every case. *)
  Theorem forward_front_first (upstream : bytes -> N -> option (N * list rr)) asked shown qt front rc ans :
    upstream asked qt = Some (rc, ans) ->
    rp_answer (snd (forward upstream asked shown qt front)) = front ++ ans.
  Proof. intros U. unfold forward. rewrite U. reflexivity. Qed.
End First.

(** * The seeded variant, refuted: the CNAME is skipped when the upstream's
      answer starts with a CNAME record *)
Definition starts_with_cname (ans : list rr) : bool :=
  match ans with RR_CNAME _ _ :: _ => true | _ => false end.

Definition respond_skip (upstream : bytes -> N -> N * list rr) (enabled : bool) (tbl : list entry)
    (qname : bytes) (qt : N) : option response :=
  match check_host isort enabled tbl qname qt with
  | None => None
  | Some r =>
      match r_reason r with
      | NotFound =>
          let '(rc, ans) := upstream qname qt in
          Some {| rp_qname := qname; rp_rcode := rc; rp_answer := ans; rp_upstream := [(qname, qt)] |}
      | Rewritten =>
          if via_upstream r (covered_flag isort enabled tbl qname qt) then
            let '(rc, ans) := upstream (r_canon r) qt in
            Some {| rp_qname := qname; rp_rcode := rc;
                    rp_answer := if starts_with_cname ans then ans
                                 else RR_CNAME qname (r_canon r) :: ans;
                    rp_upstream := [(r_canon r, qt)] |}
          else Some (local_response r qname qt)
      end
  end.

Module FirstExamples.
  Import DocExamples.
  Local Open Scope string_scope.

  (** `www.shop.test -> shop.cdn.example`; the upstream answers the CDN name
      with an alias of its own. *)
  Definition tbl := [ent "www.shop.test" "shop.cdn.example" None].
  Definition up_cdn (name : bytes) (qt : N) : N * list rr :=
    (0%N, [RR_CNAME name (bs "edge.cdn.net"); RR_A (bs "edge.cdn.net") 151587081%N]).

  Example head_reply :
    respond isort up_cdn true tbl (bs "www.shop.test") qA =
      Some {| rp_qname := bs "www.shop.test"; rp_rcode := 0%N;
              rp_answer := [RR_CNAME (bs "www.shop.test") (bs "shop.cdn.example");
                            RR_CNAME (bs "shop.cdn.example") (bs "edge.cdn.net");
                            RR_A (bs "edge.cdn.net") 151587081%N];
              rp_upstream := [(bs "shop.cdn.example", qA)] |}.
  Proof. vm_compute. reflexivity. Qed.

  Example skip_reply :
    respond_skip up_cdn true tbl (bs "www.shop.test") qA =
      Some {| rp_qname := bs "www.shop.test"; rp_rcode := 0%N;
              rp_answer := [RR_CNAME (bs "shop.cdn.example") (bs "edge.cdn.net");
                            RR_A (bs "edge.cdn.net") 151587081%N];
              rp_upstream := [(bs "shop.cdn.example", qA)] |}.
  Proof. vm_compute. reflexivity. Qed.

  (** No record of the skipping variant's reply is owned by the queried
      name. *)
  Theorem skip_refuted :
    ~ (forall upstream en tbl qname qt p r,
         check_host isort en tbl qname qt = Some r -> r_reason r = Rewritten ->
         r_canon r <> [] -> r_ips r = [] -> covered_flag isort en tbl qname qt = false ->
         respond_skip upstream en tbl qname qt = Some p ->
         hd_error (rp_answer p) = Some (RR_CNAME qname (r_canon r))).
  Proof.
    intros H.
    specialize (H up_cdn true tbl (bs "www.shop.test") qA _
                  {| r_reason := Rewritten; r_canon := bs "shop.cdn.example"; r_ips := [] |}
                  ltac:(vm_compute; reflexivity) eq_refl ltac:(discriminate) eq_refl
                  ltac:(vm_compute; reflexivity) skip_reply).
    vm_compute in H. discriminate H.
  Qed.
End FirstExamples.
